import PeptVerif.Model.Score
import PeptVerif.Spec.Score
import PeptVerif.Model.ScoreFrag
import Mathlib.Order.Defs.LinearOrder
import Mathlib.Algebra.Order.Ring.Unbundled.Rat
import Mathlib.Algebra.Order.Field.Rat
import Mathlib.Algebra.Order.Field.Basic
import Mathlib.Algebra.Order.Ring.Abs
import Mathlib.Algebra.BigOperators.Group.List.Basic
import Mathlib.Algebra.Order.BigOperators.Group.List
import Mathlib.Data.List.Nodup
import Mathlib.Data.List.Perm.Lattice
import Mathlib.Tactic.Linarith
import Mathlib.Tactic.Ring
import Mathlib.Data.Finset.Card
import Mathlib.Data.List.Dedup
import Mathlib.Data.Finset.Dedup
/-! Helper lemmas for C17 (two-pointer sweep, windows on sorted lists, arg-best, intensity fraction). -/
namespace Score
variable {α : Type}

/-- advance = start + length of the maximal p-prefix of the remaining list -/
theorem advance_eq (p : α → Bool) (ys : List α) (i : Nat) :
    advance p ys i = i + ((ys.drop i).takeWhile p).length := by
  fun_induction advance p ys i with
  | case1 i y h hp ih =>
    rw [ih]
    have hlt : i < ys.length := (List.getElem?_eq_some_iff.mp h).1
    have hy : ys[i] = y := (List.getElem?_eq_some_iff.mp h).2
    rw [List.drop_eq_getElem_cons hlt, hy, List.takeWhile_cons, if_pos hp]
    simp; omega
  | case2 i y h hp =>
    have hlt : i < ys.length := (List.getElem?_eq_some_iff.mp h).1
    have hy : ys[i] = y := (List.getElem?_eq_some_iff.mp h).2
    rw [List.drop_eq_getElem_cons hlt, hy, List.takeWhile_cons, if_neg hp]
    simp
  | case3 i h =>
    have : ys.length ≤ i := List.getElem?_eq_none_iff.mp h
    simp [List.drop_eq_nil_of_le this]

theorem takeWhile_drop_len (p : α → Bool) (l : List α) (i : Nat) (h : i ≤ (l.takeWhile p).length) :
    ((l.drop i).takeWhile p).length = (l.takeWhile p).length - i := by
  induction l generalizing i with
  | nil => simp
  | cons a l ih =>
    cases i with
    | zero => simp
    | succ i =>
      by_cases hp : p a
      · simp [hp] at h ⊢
        rw [ih i (by omega)]
      · simp [hp] at h

theorem takeWhile_len_mono (p q : α → Bool) (l : List α) (hpq : ∀ y, p y = true → q y = true) :
    (l.takeWhile p).length ≤ (l.takeWhile q).length := by
  induction l with
  | nil => simp
  | cons a l ih =>
    by_cases hp : p a
    · simp [hp, hpq a hp]; exact ih
    · simp [hp]

theorem takeWhile_len_le (p : α → Bool) (l : List α) : (l.takeWhile p).length ≤ l.length := by
  induction l with
  | nil => simp
  | cons a l ih => by_cases hp : p a <;> simp [hp] ; omega

/-- the window computed by prefix lengths: skip the maximal `below` prefix, then take the maximal
`within` prefix of the rest -/
def windowTW (below within : α → α → Bool) (ys : List α) (x : α) : Option (Nat × Nat) :=
  let s := (ys.takeWhile (fun y => below y x)).length
  let m := ((ys.drop s).takeWhile (fun y => within y x)).length
  if m = 0 then none else some (s, s + m)

/-! ### windows on sorted lists -/

theorem windowFrom_nil_of_forall (inWin : α → α → Bool) (x : α) (j : Nat) (l : List α)
    (h : ∀ y ∈ l, inWin y x = false) : windowFrom inWin x j l = [] := by
  induction l generalizing j with
  | nil => rfl
  | cons y l ih =>
    simp only [windowFrom, h y (by simp)]
    exact ih (j+1) (fun z hz => h z (by simp [hz]))

section
variable [LinearOrder α] (lo hi : α → α)

/-- on a sorted list all of whose elements are ≥ lo x, the brute-force window is the maximal `≤ hi x` prefix -/
theorem windowFrom_upper (x : α) (j : Nat) (l : List α) (hs : l.Pairwise (· ≤ ·)) (hlo : ∀ y ∈ l, lo x ≤ y) :
    windowFrom (fun y x => decide (lo x ≤ y) && decide (y ≤ hi x)) x j l
      = List.range' j (l.takeWhile (fun y => decide (y ≤ hi x))).length := by
  induction l generalizing j with
  | nil => simp [windowFrom]
  | cons y l ih =>
    rw [List.pairwise_cons] at hs
    have hy : lo x ≤ y := hlo y (by simp)
    by_cases hw : y ≤ hi x
    · simp only [windowFrom, hy, hw, decide_true, Bool.and_self, if_true, List.takeWhile_cons, List.length_cons]
      rw [ih (j+1) hs.2 (fun z hz => hlo z (by simp [hz]))]
      rw [List.range'_succ]
    · have : windowFrom (fun y x => decide (lo x ≤ y) && decide (y ≤ hi x)) x (j+1) l = [] := by
        apply windowFrom_nil_of_forall
        intro z hz
        have : y ≤ z := hs.1 z hz
        have : ¬ z ≤ hi x := fun h => hw (le_trans this h)
        simp [this]
      simp [windowFrom, hw, this]

theorem windowTW_eq_window_aux (x : α) (j : Nat) (ys : List α) (hs : ys.Pairwise (· ≤ ·)) :
    windowFrom (fun y x => decide (lo x ≤ y) && decide (y ≤ hi x)) x j ys
      = List.range' (j + (ys.takeWhile (fun y => decide (y < lo x))).length)
          ((ys.drop (ys.takeWhile (fun y => decide (y < lo x))).length).takeWhile (fun y => decide (y ≤ hi x))).length := by
  induction ys generalizing j with
  | nil => simp [windowFrom]
  | cons y l ih =>
    by_cases hb : y < lo x
    · have hnl : ¬ lo x ≤ y := not_le.mpr hb
      rw [List.pairwise_cons] at hs
      simp only [windowFrom, hnl, decide_false, Bool.false_and, List.takeWhile_cons, hb, decide_true,
        if_true, List.length_cons, List.drop_succ_cons]
      rw [ih (j+1) hs.2]
      simp only [Bool.false_eq_true, if_false]
      congr 1
      omega
    · have hl : lo x ≤ y := not_lt.mp hb
      have h0 : (List.takeWhile (fun y => decide (y < lo x)) (y :: l)) = [] := by
        simp [hb]
      rw [h0]
      simp only [List.length_nil, List.drop_zero, Nat.add_zero]
      apply windowFrom_upper
      · exact hs
      · intro z hz
        rw [List.pairwise_cons] at hs
        rcases List.mem_cons.mp hz with rfl | hz
        · exact hl
        · exact le_trans hl (hs.1 z hz)
end

theorem idxList_windowTW (below within : α → α → Bool) (ys : List α) (x : α) :
    idxList (windowTW below within ys x)
      = List.range' (ys.takeWhile (fun y => below y x)).length
          ((ys.drop (ys.takeWhile (fun y => below y x)).length).takeWhile (fun y => within y x)).length := by
  unfold windowTW
  simp only
  split
  · rename_i h; rw [h]; rfl
  · simp [idxList]

theorem windowTW_none_iff (below within : α → α → Bool) (ys : List α) (x : α) :
    windowTW below within ys x = none ↔ idxList (windowTW below within ys x) = [] := by
  unfold windowTW
  simp only
  split
  · simp [idxList]
  · rename_i h
    simp only [idxList, reduceCtorEq, false_iff]
    intro hh
    have := congrArg List.length hh
    simp at this
    exact h (by rw [this]; rfl)

/-! ### the `Num Rat` instance unfolds to the field operations of ℚ -/
@[simp] theorem rat_sub (a b : Rat) : Num.sub a b = a - b := rfl
@[simp] theorem rat_add (a b : Rat) : Num.add a b = a + b := rfl
@[simp] theorem rat_mul (a b : Rat) : Num.mul a b = a * b := rfl
@[simp] theorem rat_div (a b : Rat) : Num.div a b = a / b := rfl
@[simp] theorem rat_lt (a b : Rat) : Num.lt a b = decide (a < b) := rfl
@[simp] theorem rat_le (a b : Rat) : Num.le a b = decide (a ≤ b) := rfl
@[simp] theorem rat_eq (a b : Rat) : Num.eq a b = decide (a = b) := rfl
@[simp] theorem rat_zero : (Num.zero : Rat) = 0 := rfl
@[simp] theorem rat_million : (Num.million : Rat) = 1000000 := rfl


/-! ### arg-best, mapM, slices -/
section
variable {β : Type}

/-- `argBestGo` for a strict weak order `lt'` ("strictly better"): the returned index is either the incoming
best (and nothing in `vs` beats it) or a position in `vs` whose element is beaten by nothing. -/
theorem argBestGo_spec (lt' : β → β → Prop) [DecidableRel lt']
    (irr : ∀ a, ¬ lt' a a) (tr : ∀ a b c, lt' a b → lt' b c → lt' a c)
    (ntr : ∀ a b c, ¬ lt' a b → ¬ lt' b c → ¬ lt' a c) :
    ∀ (vs : List β) (bi : Nat) (b : β) (i : Nat),
      (argBestGo (fun v b => decide (lt' v b)) bi b i vs = bi ∧ ∀ u ∈ vs, ¬ lt' u b) ∨
      (∃ h : argBestGo (fun v b => decide (lt' v b)) bi b i vs - i < vs.length,
          i ≤ argBestGo (fun v b => decide (lt' v b)) bi b i vs ∧
          ¬ lt' b (vs[argBestGo (fun v b => decide (lt' v b)) bi b i vs - i]) ∧
          ∀ u ∈ vs, ¬ lt' u (vs[argBestGo (fun v b => decide (lt' v b)) bi b i vs - i])) := by
  intro vs
  induction vs with
  | nil => intro bi b i; left; simp [argBestGo]
  | cons v vs ih =>
    intro bi b i
    by_cases hvb : lt' v b
    · have e : argBestGo (fun v b => decide (lt' v b)) bi b i (v :: vs)
          = argBestGo (fun v b => decide (lt' v b)) i v (i+1) vs := by simp [argBestGo, hvb]
      rw [e]
      right
      rcases ih i v (i+1) with ⟨h1, h2⟩ | ⟨h, h1, h2, h3⟩
      · rw [h1]
        refine ⟨by simp, Nat.le_refl _, ?_, ?_⟩
        · simp only [Nat.sub_self, List.getElem_cons_zero]
          intro hbv; exact irr _ (tr _ _ _ hvb hbv)
        · intro u hu
          simp only [Nat.sub_self, List.getElem_cons_zero]
          rcases List.mem_cons.mp hu with rfl | hu
          · exact irr _
          · exact h2 u hu
      · have hlen : argBestGo (fun v b => decide (lt' v b)) i v (i+1) vs - i < (v :: vs).length := by
          simp only [List.length_cons]; omega
        have hidx : (v :: vs)[argBestGo (fun v b => decide (lt' v b)) i v (i+1) vs - i]'hlen
            = vs[argBestGo (fun v b => decide (lt' v b)) i v (i+1) vs - (i+1)] := by
          have : argBestGo (fun v b => decide (lt' v b)) i v (i+1) vs - i
              = (argBestGo (fun v b => decide (lt' v b)) i v (i+1) vs - (i+1)) + 1 := by omega
          simp only [this, List.getElem_cons_succ]
        refine ⟨hlen, by omega, ?_, ?_⟩
        · rw [hidx]
          intro hbw
          exact h2 (tr _ _ _ hvb hbw)
        · intro u hu
          rw [hidx]
          rcases List.mem_cons.mp hu with rfl | hu
          · exact h2
          · exact h3 u hu
    · have e : argBestGo (fun v b => decide (lt' v b)) bi b i (v :: vs)
          = argBestGo (fun v b => decide (lt' v b)) bi b (i+1) vs := by simp [argBestGo, hvb]
      rw [e]
      rcases ih bi b (i+1) with ⟨h1, h2⟩ | ⟨h, h1, h2, h3⟩
      · left
        refine ⟨h1, ?_⟩
        intro u hu
        rcases List.mem_cons.mp hu with rfl | hu
        · exact hvb
        · exact h2 u hu
      · right
        have hlen : argBestGo (fun v b => decide (lt' v b)) bi b (i+1) vs - i < (v :: vs).length := by
          simp only [List.length_cons]; omega
        have hidx : (v :: vs)[argBestGo (fun v b => decide (lt' v b)) bi b (i+1) vs - i]'hlen
            = vs[argBestGo (fun v b => decide (lt' v b)) bi b (i+1) vs - (i+1)] := by
          have : argBestGo (fun v b => decide (lt' v b)) bi b (i+1) vs - i
              = (argBestGo (fun v b => decide (lt' v b)) bi b (i+1) vs - (i+1)) + 1 := by omega
          simp only [this, List.getElem_cons_succ]
        refine ⟨hlen, by omega, ?_, ?_⟩
        · rw [hidx]; exact h2
        · intro u hu
          rw [hidx]
          rcases List.mem_cons.mp hu with rfl | hu
          · exact ntr _ _ _ hvb h2
          · exact h3 u hu

/-- `argBest` on a non-empty list returns a valid index whose element nothing beats -/
theorem argBest_spec (lt' : β → β → Prop) [DecidableRel lt']
    (irr : ∀ a, ¬ lt' a a) (tr : ∀ a b c, lt' a b → lt' b c → lt' a c)
    (ntr : ∀ a b c, ¬ lt' a b → ¬ lt' b c → ¬ lt' a c) (l : List β) (hl : l ≠ []) :
    ∃ r, argBest (fun v b => decide (lt' v b)) l = some r ∧ ∃ h : r < l.length, ∀ u ∈ l, ¬ lt' u l[r] := by
  cases l with
  | nil => exact absurd rfl hl
  | cons v vs =>
    refine ⟨_, rfl, ?_⟩
    rcases argBestGo_spec lt' irr tr ntr vs 0 v 1 with ⟨h1, h2⟩ | ⟨h, h1, h2, h3⟩
    · rw [h1]
      refine ⟨by simp, ?_⟩
      intro u hu
      simp only [List.getElem_cons_zero]
      rcases List.mem_cons.mp hu with rfl | hu
      · exact irr _
      · exact h2 u hu
    · have hlen : argBestGo (fun v b => decide (lt' v b)) 0 v 1 vs < (v :: vs).length := by
        simp only [List.length_cons]; omega
      have hidx : (v :: vs)[argBestGo (fun v b => decide (lt' v b)) 0 v 1 vs]'hlen
          = vs[argBestGo (fun v b => decide (lt' v b)) 0 v 1 vs - 1] := by
        have : argBestGo (fun v b => decide (lt' v b)) 0 v 1 vs
            = (argBestGo (fun v b => decide (lt' v b)) 0 v 1 vs - 1) + 1 := by omega
        rw [List.getElem_cons]
        split
        · omega
        · rfl
      refine ⟨hlen, ?_⟩
      intro u hu
      rw [hidx]
      rcases List.mem_cons.mp hu with rfl | hu
      · exact h2
      · exact h3 u hu

theorem mapM_ok {γ δ ε : Type} (f : γ → Except ε δ) (g : γ → δ) (l : List γ) (h : ∀ a ∈ l, f a = .ok (g a)) :
    l.mapM f = .ok (l.map g) := by
  induction l with
  | nil => rfl
  | cons a l ih =>
    rw [List.mapM_cons, h a (by simp), ih (fun b hb => h b (by simp [hb]))]
    rfl

theorem slice_length {γ : Type} (l : List γ) (s e : Nat) (he : e ≤ l.length) : (slice l s e).length = e - s := by
  simp [slice]; omega

theorem slice_getElem {γ : Type} (l : List γ) (s e i : Nat) (h : i < (slice l s e).length) :
    (slice l s e)[i] = l[s + i]'(by simp [slice] at h; omega) := by
  simp [slice]

end
/-! ### match_spectra modes -/


theorem pick_none_iff [Num α] (mode : Mode) (ys : List α) (ints : Option (List α)) (x : α) (w : Option (Nat × Nat)) :
    pick mode ys ints x w = .ok Hit.none ↔ w = none := by
  cases w with
  | none => simp [pick]
  | some p =>
    obtain ⟨s, e⟩ := p
    simp only [reduceCtorEq, iff_false]
    cases mode <;> simp only [pick]
    · intro h; cases h
    · split <;> intro h <;> cases h
    · split
      · intro h; cases h
      · split <;> intro h <;> cases h

theorem pick_all [Num α] (ys : List α) (ints : Option (List α)) (x : α) (w : Option (Nat × Nat))
    (hw : ∀ s e, w = some (s, e) → s < e) :
    pick .all ys ints x w = .ok (hitOfWindow (idxList w)) := by
  cases w with
  | none => simp [pick, hitOfWindow, idxList]
  | some p =>
    obtain ⟨s, e⟩ := p
    have := hw s e rfl
    have hne : List.range' s (e - s) ≠ [] := by
      intro h; have := congrArg List.length h; simp at this; omega
    simp [pick, pickAll, hitOfWindow, idxList, hne]

theorem windowTW_wf (below within : α → α → Bool) (ys : List α) (x : α) :
    ∀ s e, windowTW below within ys x = some (s, e) → s < e ∧ e ≤ ys.length := by
  intro s e h
  unfold windowTW at h
  simp only at h
  split at h
  · cases h
  · rename_i hm
    simp only [Option.some.injEq, Prod.mk.injEq] at h
    obtain ⟨rfl, rfl⟩ := h
    refine ⟨by omega, ?_⟩
    have h1 := takeWhile_len_le (fun y => within y x) (ys.drop (ys.takeWhile (fun y => below y x)).length)
    have h2 := takeWhile_len_le (fun y => below y x) ys
    simp only [List.length_drop] at h1
    omega

theorem absDiff_rat (a b : Rat) : absDiff a b = |a - b| := by
  simp only [absDiff, rat_sub, rat_lt, rat_zero, decide_eq_true_eq]
  split
  · rename_i h; rw [abs_of_neg h]; ring
  · rename_i h; rw [abs_of_nonneg (not_lt.mp h)]

theorem closest_spec (ys : List Rat) (ints : Option (List Rat)) (x : Rat) (s e : Nat) (hse : s < e) (he : e ≤ ys.length) :
    ∃ j, pick .closest ys ints x (some (s, e)) = .ok (.one j) ∧ s ≤ j ∧ ∃ hj : j < e,
      ∀ k (hk : k < e), s ≤ k → |x - ys[j]'(by omega)| ≤ |x - ys[k]'(by omega)| := by
  have hlen : ((slice ys s e).map (absDiff x)).length = e - s := by simp [slice_length _ _ _ he]
  have hne : (slice ys s e).map (absDiff x) ≠ [] := by
    intro h; rw [h] at hlen; simp at hlen; omega
  obtain ⟨r, hr, hrl, hmin⟩ := argBest_spec (fun (a b : Rat) => a < b) (fun a => lt_irrefl a)
    (fun a b c => lt_trans) (fun a b c h1 h2 => not_lt.mpr (le_trans (not_lt.mp h2) (not_lt.mp h1))) _ hne
  refine ⟨s + r, ?_, Nat.le_add_right _ _, by omega, ?_⟩
  · simp only [pick, pickClosest, rat_lt]
    rw [hr]; rfl
  · intro k hk hsk
    have hk' : k - s < ((slice ys s e).map (absDiff x)).length := by omega
    have hmem : ((slice ys s e).map (absDiff x))[k - s] ∈ (slice ys s e).map (absDiff x) := List.getElem_mem hk'
    have := hmin _ hmem
    simp only [List.getElem_map, slice_getElem, absDiff_rat, not_lt] at this
    have e1 : s + (k - s) = k := by omega
    simp only [e1] at this
    exact this

theorem largest_spec (ys ints : List Rat) (x : Rat) (s e : Nat) (hse : s < e) (he : e ≤ ints.length) :
    ∃ j, pick .largest ys (some ints) x (some (s, e)) = .ok (.one j) ∧ s ≤ j ∧ ∃ hj : j < e,
      ∀ k (hk : k < e), s ≤ k → ints[k]'(by omega) ≤ ints[j]'(by omega) := by
  have hlen : (slice ints s e).length = e - s := slice_length _ _ _ he
  have hne : slice ints s e ≠ [] := by
    intro h; rw [h] at hlen; simp at hlen; omega
  obtain ⟨r, hr, hrl, hmin⟩ := argBest_spec (fun (a b : Rat) => b < a) (fun a => lt_irrefl a)
    (fun a b c h1 h2 => lt_trans h2 h1) (fun a b c h1 h2 => not_lt.mpr (le_trans (not_lt.mp h1) (not_lt.mp h2))) _ hne
  refine ⟨s + r, ?_, Nat.le_add_right _ _, by omega, ?_⟩
  · simp only [pick, pickLargest, rat_lt]
    rw [hr]; rfl
  · intro k hk hsk
    have hk' : k - s < (slice ints s e).length := by omega
    have hmem : (slice ints s e)[k - s] ∈ slice ints s e := List.getElem_mem hk'
    have := hmin _ hmem
    simp only [slice_getElem, not_lt] at this
    have e1 : s + (k - s) = k := by omega
    simp only [e1] at this
    exact this


/-! intensity fraction -/

theorem sumL_eq_sum (l : List Rat) : sumL l = l.sum := by
  unfold sumL
  have : ∀ (acc : Rat), l.foldl Num.add acc = acc + l.sum := by
    induction l with
    | nil => intro acc; simp
    | cons a l ih => intro acc; simp only [List.foldl_cons, ih, rat_add, List.sum_cons]; ring
  rw [this]; simp only [rat_zero, zero_add]

/-- on a dict that is consistent with the new binding (same key ⇒ same value), `d[k] = v` appends the pair if it is new -/
theorem dictSet_consistent (k v : Rat) (d : List (Rat × Rat)) (hc : ∀ p ∈ d, p.1 = k → p.2 = v) :
    dictSet (fun a b => decide (a = b)) k v d = if (k, v) ∈ d then d else d ++ [(k, v)] := by
  induction d with
  | nil => simp [dictSet]
  | cons p d ih =>
    obtain ⟨k', v'⟩ := p
    by_cases hk : k' = k
    · have hv : v' = v := hc (k', v') (by simp) hk
      subst hk; subst hv
      simp [dictSet]
    · have := ih (fun p hp => hc p (by simp [hp]))
      simp only [dictSet, hk, decide_false, Bool.false_eq_true, if_false, this]
      by_cases hm : (k, v) ∈ d
      · simp [hm]
      · have : (k, v) ≠ (k', v') := by
          intro h; apply hk; exact (congrArg Prod.fst h).symm
        simp [hm, this]

theorem groupByMz_spec (ms : List (Rat × Rat)) (hf : ∀ p ∈ ms, ∀ q ∈ ms, p.1 = q.1 → p.2 = q.2) :
    (groupByMz ms).Nodup ∧ ∀ p, p ∈ groupByMz ms ↔ p ∈ ms := by
  unfold groupByMz
  have gen : ∀ (l : List (Rat × Rat)) (d : List (Rat × Rat)),
      (∀ p ∈ d ++ l, ∀ q ∈ d ++ l, p.1 = q.1 → p.2 = q.2) → d.Nodup →
      (l.foldl (fun d m => dictSet Num.eq m.1 m.2 d) d).Nodup ∧
        ∀ p, p ∈ l.foldl (fun d m => dictSet Num.eq m.1 m.2 d) d ↔ p ∈ d ∨ p ∈ l := by
    intro l
    induction l with
    | nil => intro d _ hd; simp [hd]
    | cons m l ih =>
      intro d hc hd
      obtain ⟨k, v⟩ := m
      have hset : dictSet Num.eq k v d = if (k, v) ∈ d then d else d ++ [(k, v)] := by
        apply dictSet_consistent
        intro p hp hpk
        exact hc p (by simp [hp]) (k, v) (by simp) hpk
      simp only [List.foldl_cons, hset]
      by_cases hm : (k, v) ∈ d
      · simp only [hm, if_true]
        obtain ⟨h1, h2⟩ := ih d (fun p hp q hq => hc p (by
            rcases List.mem_append.mp hp with h | h
            · simp [h]
            · simp [h]) q (by
            rcases List.mem_append.mp hq with h | h
            · simp [h]
            · simp [h])) hd
        refine ⟨h1, fun p => ?_⟩
        rw [h2 p]
        constructor
        · rintro (h | h)
          · exact Or.inl h
          · exact Or.inr (by simp [h])
        · rintro (h | h)
          · exact Or.inl h
          · rcases List.mem_cons.mp h with rfl | h
            · exact Or.inl hm
            · exact Or.inr h
      · simp only [hm, if_false]
        obtain ⟨h1, h2⟩ := ih (d ++ [(k, v)]) (fun p hp q hq => hc p (by
            simp only [List.mem_append, List.mem_cons, List.mem_nil_iff, or_false] at hp ⊢
            tauto) q (by
            simp only [List.mem_append, List.mem_cons, List.mem_nil_iff, or_false] at hq ⊢
            tauto)) (by
            rw [List.nodup_append]
            refine ⟨hd, by simp, ?_⟩
            intro a ha b hb
            simp only [List.mem_cons, List.mem_nil_iff, or_false] at hb
            subst hb
            intro h; subst h; exact hm ha)
        refine ⟨h1, fun p => ?_⟩
        rw [h2 p]
        simp only [List.mem_append, List.mem_cons, List.mem_nil_iff, or_false]
        tauto
  have := gen ms [] (by simpa using hf) List.nodup_nil
  simpa using this


theorem matched_sum_eq (ps ms : List (Rat × Rat)) (hnd : (ps.map (·.1)).Nodup) (hsub : ∀ m ∈ ms, m ∈ ps) :
    sumL ((groupByMz ms).map (·.2)) = ((matchedPeaks ps ms).map (·.2)).sum := by
  rw [sumL_eq_sum]
  have hfun : ∀ p ∈ ps, ∀ q ∈ ps, p.1 = q.1 → p.2 = q.2 := by
    intro p hp q hq h
    have := List.inj_on_of_nodup_map hnd hp hq h
    rw [this]
  obtain ⟨hg1, hg2⟩ := groupByMz_spec ms (fun p hp q hq => hfun p (hsub p hp) q (hsub q hq))
  have hps : ps.Nodup := List.Nodup.of_map _ hnd
  have hperm : (groupByMz ms).Perm (matchedPeaks ps ms) := by
    unfold matchedPeaks
    rw [List.perm_ext_iff_of_nodup hg1 (hps.filter _)]
    intro a
    rw [hg2 a]
    simp only [List.mem_filter, decide_eq_true_eq]
    constructor
    · intro h; exact ⟨hsub a h, h⟩
    · intro h; exact h.2
  exact (hperm.map _).sum_eq

theorem matched_le_total (ps ms : List (Rat × Rat)) (hnn : ∀ p ∈ ps, 0 ≤ p.2) :
    ((matchedPeaks ps ms).map (·.2)).sum ≤ (ps.map (·.2)).sum ∧ 0 ≤ ((matchedPeaks ps ms).map (·.2)).sum := by
  unfold matchedPeaks
  constructor
  · induction ps with
    | nil => simp
    | cons p ps ih =>
      have := ih (fun q hq => hnn q (by simp [hq]))
      have hp := hnn p (by simp)
      simp only [List.filter_cons]
      split
      · simp only [List.map_cons, List.sum_cons]; linarith
      · simp only [List.map_cons, List.sum_cons]; linarith
  · apply List.sum_nonneg
    intro x hx
    simp only [List.mem_map, List.mem_filter] at hx
    obtain ⟨p, ⟨hp, _⟩, rfl⟩ := hx
    exact hnn p hp

/-! ### sorting, fragment matches, coverage -/
section
variable {β : Type}

theorem mem_insertBy (lt : β → β → Bool) (x z : β) (l : List β) : z ∈ insertBy lt x l ↔ z = x ∨ z ∈ l := by
  induction l with
  | nil => simp [insertBy]
  | cons y ys ih =>
    simp only [insertBy]
    split
    · simp only [List.mem_cons, ih]; tauto
    · simp only [List.mem_cons]

theorem mem_sortBy (lt : β → β → Bool) (z : β) (l : List β) : z ∈ sortBy lt l ↔ z ∈ l := by
  induction l with
  | nil => simp [sortBy]
  | cons x xs ih => simp only [sortBy, mem_insertBy, ih, List.mem_cons]

theorem insertBy_sorted (k : β → Rat) (x : β) (l : List β) (h : l.Pairwise (fun a b => k a ≤ k b)) :
    (insertBy (fun a b => decide (k a < k b)) x l).Pairwise (fun a b => k a ≤ k b) := by
  induction l with
  | nil => simp [insertBy]
  | cons y ys ih =>
    rw [List.pairwise_cons] at h
    simp only [insertBy]
    split
    · rename_i hlt
      simp only [decide_eq_true_eq] at hlt
      rw [List.pairwise_cons]
      refine ⟨?_, ih h.2⟩
      intro z hz
      rcases (mem_insertBy _ _ _ _).mp hz with rfl | hz
      · exact le_of_lt hlt
      · exact h.1 z hz
    · rename_i hlt
      simp only [decide_eq_true_eq, not_lt] at hlt
      rw [List.pairwise_cons]
      refine ⟨?_, List.pairwise_cons.mpr h⟩
      intro z hz
      rcases List.mem_cons.mp hz with rfl | hz
      · exact hlt
      · exact le_trans hlt (h.1 z hz)

theorem sortBy_sorted (k : β → Rat) (l : List β) :
    (sortBy (fun a b => decide (k a < k b)) l).Pairwise (fun a b => k a ≤ k b) := by
  induction l with
  | nil => simp [sortBy]
  | cons x xs ih => exact insertBy_sorted k x _ ih

theorem window_filterMap (inWin : Rat → Rat → Bool) (x : Rat) {γ : Type} (mk : Rat × Rat → γ) (l pre : List (Rat × Rat)) :
    (windowFrom inWin x pre.length (l.map (·.1))).filterMap (fun j => (pre ++ l)[j]?.map mk)
      = (l.filter (fun p => inWin p.1 x)).map mk := by
  induction l generalizing pre with
  | nil => simp [windowFrom]
  | cons p l ih =>
    have hrec := ih (pre ++ [p])
    simp only [List.length_append, List.length_cons, List.length_nil, List.append_assoc, List.cons_append,
      List.nil_append] at hrec
    simp only [List.map_cons, windowFrom, List.filter_cons]
    split
    · simp only [List.filterMap_cons, List.map_cons]
      have : (pre ++ p :: l)[pre.length]? = some p := by simp
      simp only [this, Option.map_some]
      rw [hrec]
    · exact hrec

theorem expandHit_hitOfWindow (peaks : List (Rat × Rat)) (f : Nat) (w : List Nat) :
    expandHit peaks f (hitOfWindow w) = w.filterMap (fun j => peaks[j]?.map fun p => (⟨f, p.1, p.2⟩ : FMatch Rat)) := by
  unfold hitOfWindow
  split
  · rename_i h; subst h; rfl
  · rfl

end

abbrev Cov := List ((Nat × String) × List Nat)

theorem covTouch_of_mem (n : Nat) (l : Nat × String) (c : Cov) (h : l ∈ c.map (·.1)) : covTouch n l c = c := by
  induction c with
  | nil => simp at h
  | cons p c ih =>
    obtain ⟨l', v⟩ := p
    simp only [covTouch]
    by_cases e : l' = l
    · simp [e]
    · have : (l' == l) = false := by simpa using e
      simp only [this, Bool.false_eq_true, if_false]
      rw [ih]
      simp only [List.map_cons, List.mem_cons] at h
      rcases h with h | h
      · exact absurd h.symm e
      · exact h

theorem labels_covTouch (n : Nat) (l x : Nat × String) (c : Cov) :
    x ∈ (covTouch n l c).map (·.1) ↔ x = l ∨ x ∈ c.map (·.1) := by
  induction c with
  | nil => simp [covTouch]
  | cons p c ih =>
    obtain ⟨l', v⟩ := p
    simp only [covTouch]
    by_cases e : l' = l
    · subst e; simp
    · have : (l' == l) = false := by simpa using e
      simp only [this, Bool.false_eq_true, if_false, List.map_cons, List.mem_cons, ih]
      tauto

theorem labels_covAdd (n : Nat) (l x : Nat × String) (s e : Nat) (c : Cov) :
    x ∈ (covAdd n l s e c).map (·.1) ↔ x = l ∨ x ∈ c.map (·.1) := by
  induction c with
  | nil => simp [covAdd]
  | cons p c ih =>
    obtain ⟨l', v⟩ := p
    simp only [covAdd]
    by_cases e' : l' = l
    · subst e'; simp
    · have : (l' == l) = false := by simpa using e'
      simp only [this, Bool.false_eq_true, if_false, List.map_cons, List.mem_cons, ih]
      tauto

/-- processing a match of an already counted fragment changes nothing -/
theorem matchCoverageGo_dup {κ : Type} [DecidableEq κ] (n : Nat) (m : CovIn κ) (post : List (CovIn κ)) :
    ∀ (pre : List (CovIn κ)) (seen : List κ) (cov : Cov),
      (m ∈ pre ∨ (m.key ∈ seen ∧ (m.charge, m.ion) ∈ cov.map (·.1))) →
      matchCoverageGo true n (pre ++ m :: post) seen cov = matchCoverageGo true n (pre ++ post) seen cov := by
  intro pre
  induction pre with
  | nil =>
    intro seen cov h
    rcases h with h | ⟨h1, h2⟩
    · simp at h
    · have hc : seen.contains m.key = true := by simpa using h1
      simp only [List.nil_append, matchCoverageGo, hc, Bool.and_self, if_true]
      rw [covTouch_of_mem n _ cov h2]
  | cons a pre ih =>
    intro seen cov h
    simp only [List.cons_append, matchCoverageGo]
    split
    · rename_i hd
      apply ih
      rcases h with h | ⟨h1, h2⟩
      · rcases List.mem_cons.mp h with rfl | h
        · right
          have : seen.contains m.key = true := by simpa using hd
          exact ⟨by simpa using this, (labels_covTouch _ _ _ _).mpr (Or.inl rfl)⟩
        · exact Or.inl h
      · exact Or.inr ⟨h1, (labels_covTouch _ _ _ _).mpr (Or.inr h2)⟩
    · split
      · rfl
      · apply ih
        rcases h with h | ⟨h1, h2⟩
        · rcases List.mem_cons.mp h with rfl | h
          · right
            exact ⟨by simp, (labels_covAdd _ _ _ _ _ _).mpr (Or.inl rfl)⟩
          · exact Or.inl h
        · exact Or.inr ⟨by simp [h1], (labels_covAdd _ _ _ _ _ _).mpr (Or.inr h2)⟩


theorem matchCoverageGo_nodup {κ : Type} [DecidableEq κ] (n : Nat) :
    ∀ (ms : List (CovIn κ)) (seen seen' : List κ) (cov : List ((Nat × String) × List Nat)),
      (∀ m ∈ ms, m.key ∉ seen) → (ms.map (·.key)).Nodup →
      matchCoverageGo true n ms seen cov = matchCoverageGo false n ms seen' cov := by
  intro ms
  induction ms with
  | nil => intro seen seen' cov _ _; rfl
  | cons a ms ih =>
    intro seen seen' cov h hnd
    have ha : seen.contains a.key = false := by
      have := h a (by simp)
      simpa using this
    rw [List.map_cons, List.nodup_cons] at hnd
    simp only [matchCoverageGo, ha, Bool.and_false, Bool.false_and, Bool.false_eq_true, if_false]
    split
    · rfl
    · apply ih
      · intro m hm
        simp only [List.mem_cons, not_or]
        refine ⟨?_, h m (by simp [hm])⟩
        intro e
        exact hnd.1 (List.mem_map.mpr ⟨m, hm, e⟩)
      · exact hnd.2

/-! ### coverage: the count of distinct fragments -/

def rowsLen (n : Nat) (cov : Cov) : Prop := ∀ p ∈ cov, p.2.length = n

theorem bump_length (s e : Nat) (l : List Nat) : (bump s e l).length = l.length := by simp [bump]

theorem bump_get (s e : Nat) (l : List Nat) (i : Nat) :
    (bump s e l)[i]? = l[i]?.map fun c => if s ≤ i ∧ i < e then c + 1 else c := by
  simp [bump, List.getElem?_mapIdx]

theorem rowsLen_covAdd (n : Nat) (l : Nat × String) (s e : Nat) (cov : Cov) (h : rowsLen n cov) :
    rowsLen n (covAdd n l s e cov) := by
  induction cov with
  | nil => intro p hp; simp [covAdd] at hp; subst hp; simp [bump_length]
  | cons q cov ih =>
    obtain ⟨l', c⟩ := q
    intro p hp
    simp only [covAdd] at hp
    split at hp
    · rcases List.mem_cons.mp hp with rfl | hp
      · simp only [bump_length]; exact h (l', c) (by simp)
      · exact h p (by simp [hp])
    · rcases List.mem_cons.mp hp with rfl | hp
      · exact h (l', c) (by simp)
      · exact ih (fun p hp => h p (by simp [hp])) p hp

theorem rowsLen_covTouch (n : Nat) (l : Nat × String) (cov : Cov) (h : rowsLen n cov) :
    rowsLen n (covTouch n l cov) := by
  induction cov with
  | nil => intro p hp; simp [covTouch] at hp; subst hp; simp
  | cons q cov ih =>
    obtain ⟨l', c⟩ := q
    intro p hp
    simp only [covTouch] at hp
    split at hp
    · exact h p hp
    · rcases List.mem_cons.mp hp with rfl | hp
      · exact h (l', c) (by simp)
      · exact ih (fun p hp => h p (by simp [hp])) p hp

theorem rowVal_covTouch (n : Nat) (l l0 : Nat × String) (cov : Cov) (i : Nat) :
    rowVal (covTouch n l cov) l0 i = rowVal cov l0 i := by
  induction cov with
  | nil =>
    simp only [covTouch, rowVal, List.lookup]
    by_cases h : l0 = l
    · subst h; simp [List.getElem?_replicate]; split <;> rfl
    · have : (l0 == l) = false := by simpa using h
      simp [this]
  | cons q cov ih =>
    obtain ⟨l', c⟩ := q
    simp only [covTouch]
    split
    · rfl
    · simp only [rowVal, List.lookup] at ih ⊢
      split
      · rfl
      · exact ih

theorem rowVal_covAdd (n : Nat) (l l0 : Nat × String) (s e : Nat) (cov : Cov) (i : Nat) (hi : i < n)
    (h : rowsLen n cov) :
    rowVal (covAdd n l s e cov) l0 i = rowVal cov l0 i + (if l = l0 ∧ s ≤ i ∧ i < e then 1 else 0) := by
  induction cov with
  | nil =>
    simp only [covAdd, rowVal, List.lookup]
    by_cases hl : l0 = l
    · subst hl
      simp only [beq_self_eq_true, Option.bind_some, bump_get, List.getElem?_replicate, hi, if_true, Option.map_some,
        true_and, Option.bind_none, Option.getD_none, Nat.zero_add, Option.getD_some]
    · have : (l0 == l) = false := by simpa using hl
      have hl' : ¬ l = l0 := fun e => hl e.symm
      simp [this, hl']
  | cons q cov ih =>
    obtain ⟨l', c⟩ := q
    have hc : c.length = n := h (l', c) (by simp)
    have ih' := ih (fun p hp => h p (by simp [hp]))
    simp only [covAdd]
    by_cases hl : l' = l
    · subst hl
      simp only [beq_self_eq_true, if_true, rowVal, List.lookup]
      by_cases h0 : l0 = l'
      · subst h0
        have hci : c[i]? = some c[i] := List.getElem?_eq_getElem (by omega)
        simp only [beq_self_eq_true, Option.bind_some, bump_get, hci, Option.map_some, Option.getD_some, true_and]
        split <;> rfl
      · have : (l0 == l') = false := by simpa using h0
        have hl' : ¬ l' = l0 := fun e => h0 e.symm
        simp [this, hl']
    · have hb : (l' == l) = false := by simpa using hl
      simp only [hb, Bool.false_eq_true, if_false]
      simp only [rowVal, List.lookup] at ih' ⊢
      by_cases h0 : l0 = l'
      · subst h0
        have : ¬ l = l0 := fun e => hl e.symm
        simp [this]
      · have : (l0 == l') = false := by simpa using h0
        simp only [this]
        exact ih'

section
variable {κ : Type} [DecidableEq κ]

/-- the fragments (keys) not seen before that cover position `i` under label `l` -/
def newKeys (l : Nat × String) (i : Nat) (seen : List κ) (ms : List (CovIn κ)) : Finset κ :=
  ((ms.filter fun m => decide (m.key ∉ seen ∧ hits l i m)).map (·.key)).toFinset

theorem matchCoverageGo_count (n : Nat) (l : Nat × String) (i : Nat) (hi : i < n) :
    ∀ (ms : List (CovIn κ)) (seen : List κ) (cov cov' : Cov),
      (∀ m ∈ ms, ∀ m' ∈ ms, m.key = m'.key → m = m') → rowsLen n cov →
      matchCoverageGo true n ms seen cov = .ok cov' →
      rowVal cov' l i = rowVal cov l i + (newKeys l i seen ms).card := by
  intro ms
  induction ms with
  | nil =>
    intro seen cov cov' _ _ h
    simp only [matchCoverageGo, Except.ok.injEq] at h
    subst h; simp [newKeys]
  | cons m ms ih =>
    intro seen cov cov' hf hr h
    have hf' : ∀ a ∈ ms, ∀ b ∈ ms, a.key = b.key → a = b := fun a ha b hb => hf a (by simp [ha]) b (by simp [hb])
    simp only [matchCoverageGo] at h
    by_cases hs : m.key ∈ seen
    · have hc : seen.contains m.key = true := by simpa using hs
      simp only [hc, Bool.and_self, if_true] at h
      rw [ih seen _ cov' hf' (rowsLen_covTouch n _ cov hr) h, rowVal_covTouch]
      congr 2
      unfold newKeys
      simp [List.filter_cons, hs]
    · have hc : seen.contains m.key = false := by simpa using hs
      simp only [hc, Bool.and_false, Bool.false_eq_true, if_false] at h
      split at h
      · cases h
      · rw [ih (m.key :: seen) _ cov' hf' (rowsLen_covAdd n _ _ _ cov hr) h, rowVal_covAdd n _ l _ _ cov i hi hr]
        have hsame : ∀ a ∈ ms, a.key = m.key → a = m := fun a ha e => hf a (by simp [ha]) m (by simp) e
        by_cases hq : hits l i m
        · have hq' : (m.charge, m.ion) = l ∧ m.start ≤ i ∧ i < m.stop := hq
          rw [if_pos hq']
          have e1 : newKeys l i seen (m :: ms) = insert m.key (newKeys l i (m.key :: seen) ms) := by
            unfold newKeys
            ext k
            simp only [List.filter_cons, hs, not_false_eq_true, hq, and_self, decide_true, if_true, List.map_cons,
              List.toFinset_cons, Finset.mem_insert, List.mem_toFinset, List.mem_map, List.mem_filter,
              decide_eq_true_eq, List.mem_cons, not_or]
            constructor
            · rintro (rfl | ⟨a, ⟨ha, hns, hqa⟩, rfl⟩)
              · exact Or.inl rfl
              · by_cases hk : a.key = m.key
                · exact Or.inl hk
                · exact Or.inr ⟨a, ⟨ha, ⟨hk, hns⟩, hqa⟩, rfl⟩
            · rintro (rfl | ⟨a, ⟨ha, ⟨_, hns⟩, hqa⟩, rfl⟩)
              · exact Or.inl rfl
              · exact Or.inr ⟨a, ⟨ha, hns, hqa⟩, rfl⟩
          have e2 : m.key ∉ newKeys l i (m.key :: seen) ms := by
            unfold newKeys
            simp only [List.mem_toFinset, List.mem_map, List.mem_filter, decide_eq_true_eq, List.mem_cons, not_or,
              not_exists, not_and]
            intro a ⟨_, ⟨hk, _⟩, _⟩ e
            exact hk e
          rw [e1, Finset.card_insert_of_notMem e2]
          omega
        · have hq' : ¬ ((m.charge, m.ion) = l ∧ m.start ≤ i ∧ i < m.stop) := hq
          rw [if_neg hq']
          have e1 : newKeys l i seen (m :: ms) = newKeys l i (m.key :: seen) ms := by
            unfold newKeys
            ext k
            simp only [List.filter_cons, hq, and_false, decide_false, Bool.false_eq_true, if_false,
              List.mem_toFinset, List.mem_map, List.mem_filter, decide_eq_true_eq, List.mem_cons, not_or]
            constructor
            · rintro ⟨a, ⟨ha, hns, hqa⟩, rfl⟩
              refine ⟨a, ⟨ha, ⟨?_, hns⟩, hqa⟩, rfl⟩
              intro e
              rw [hsame a ha e] at hqa
              exact hq hqa
            · rintro ⟨a, ⟨ha, ⟨_, hns⟩, hqa⟩, rfl⟩
              exact ⟨a, ⟨ha, hns, hqa⟩, rfl⟩
          rw [e1]; omega
end
/-! ### `FragmentMatch` records -/
section
open Fragment (Frag Ion)
theorem covInOf_inj (m m' : FragMatch) (h : (covInOf m).key = (covInOf m').key) : covInOf m = covInOf m' := by
  unfold covInOf at *
  simp only [covKey, Prod.mk.injEq] at h
  obtain ⟨h1, h2, h3, _⟩ := h
  simp only [covKey, h1, h2, h3, CovIn.mk.injEq, Prod.mk.injEq, and_self, and_true]
  simp_all

theorem mem_range_zip {γ : Type} (l : List γ) (j : Nat) (x : γ) :
    (j, x) ∈ (List.range l.length).zip l ↔ l[j]? = some x := by
  induction l using List.reverseRecOn with
  | nil => simp
  | append_singleton l a ih =>
    rw [List.length_append, List.length_singleton, List.range_succ, List.zip_append (by simp)]
    simp only [List.zip_cons_cons, List.zip_nil_right, List.mem_append, List.mem_singleton, Prod.mk.injEq, ih]
    constructor
    · rintro (h | ⟨rfl, rfl⟩)
      · rw [List.getElem?_append_left]; exact h
        exact (List.getElem?_eq_some_iff.mp h).1
      · simp
    · intro h
      by_cases hj : j < l.length
      · left; rw [List.getElem?_append_left hj] at h; exact h
      · right
        rw [List.getElem?_append_right (by omega)] at h
        have : j - l.length = 0 := by
          by_contra hne
          have : (([a] : List γ)[j - l.length]?) = none := by
            rw [List.getElem?_eq_none_iff]; simp; omega
          rw [this] at h; cases h
        rw [this] at h
        simp at h
        exact ⟨by omega, h.symm⟩

end
end Score
