import PeptVerif.Spec.ProForma
/-!
Helper lemmas for C01 (round trip of the parser and the serializer). No Mathlib.
-/
namespace Pept

/-! ### lists -/

theorem takeWhile_append_stop {α} (p : α → Bool) (l r : List α) (hl : ∀ x ∈ l, p x = true)
    (hr : ∀ x, r.head? = some x → p x = false) : (l ++ r).takeWhile p = l := by
  induction l with
  | nil =>
    cases r with
    | nil => rfl
    | cons x xs => simp [hr x rfl]
  | cons a t ih =>
    simp only [List.cons_append, List.takeWhile, hl a (by simp)]
    rw [ih (fun x hx => hl x (by simp [hx]))]

theorem dropWhile_append_stop {α} (p : α → Bool) (l r : List α) (hl : ∀ x ∈ l, p x = true)
    (hr : ∀ x, r.head? = some x → p x = false) : (l ++ r).dropWhile p = r := by
  induction l with
  | nil =>
    cases r with
    | nil => rfl
    | cons x xs => simp [hr x rfl]
  | cons a t ih =>
    simp only [List.cons_append, List.dropWhile, hl a (by simp)]
    exact ih (fun x hx => hl x (by simp [hx]))

/-! ### the bracket scan -/

theorem scan_append (o c : Char) (w t : List Char) (d d' : Nat)
    (h : depthAfter o c d w = some d') :
    scan o c d (w ++ t) = (scan o c d' t).map (fun r => (w ++ r.1, r.2)) := by
  induction w generalizing d with
  | nil =>
    simp [depthAfter] at h; subst h
    simp only [List.nil_append]
    cases hs : scan o c d t <;> simp
  | cons x xs ih =>
    simp only [depthAfter] at h
    simp only [List.cons_append, scan]
    split
    · rename_i hx; rw [if_pos hx] at h; rw [ih _ h]; cases scan o c d' t <;> simp
    · rename_i hx; rw [if_neg hx] at h
      split
      · rename_i hxc; rw [if_pos hxc] at h
        split
        · rename_i hd; simp [hd] at h
        · rename_i hd; rw [if_neg hd] at h; rw [ih _ h]; cases scan o c d' t <;> simp
      · rename_i hxc; rw [if_neg hxc] at h; rw [ih _ h]; cases scan o c d' t <;> simp

theorem scan_balanced (o c : Char) (hoc : o ≠ c) (w rest : List Char) (hb : balanced o c w = true) :
    scan o c 1 (w ++ c :: rest) = some (w, rest) := by
  have hb' : depthAfter o c 1 w = some 1 := by simpa [balanced] using hb
  rw [scan_append o c w (c :: rest) 1 1 hb']
  simp [scan]
  intro h; exact absurd h.symm hoc

/-- a character that is neither bracket does not change the depth -/
theorem balanced_cons (o c x : Char) (w : List Char) (hxo : x ≠ o) (hxc : x ≠ c) :
    balanced o c (x :: w) = balanced o c w := by
  simp [balanced, depthAfter, hxo, hxc]

/-! ### numbers -/

theorem natText_digits (n : Nat) : ∀ x ∈ natText n, x.isDigit = true :=
  fun _ hx => Nat.isDigit_of_mem_toDigits (by decide) (by decide) hx

theorem natText_ne_nil (n : Nat) : natText n ≠ [] := Nat.toDigits_ne_nil

theorem natText_value (n : Nat) : Nat.ofDigitChars 10 (natText n) 0 = n := Nat.ofDigitChars_ten_toDigits

/-- what may follow a modification group: not a multiplier sign, not a digit -/
def ModStop (r : List Char) : Prop := ∀ x, r.head? = some x → x ≠ '^' ∧ x.isDigit = false

theorem ModStop.nil : ModStop [] := by intro x h; simp at h

theorem ModStop.cons {x : Char} {t : List Char} (h1 : x ≠ '^') (h2 : x.isDigit = false) : ModStop (x :: t) := by
  intro y hy; simp at hy; subst hy; exact ⟨h1, h2⟩

/-! ### one modification -/

/-- `_parse_modification` reads back what `Mod.serialize` wrote (the text after the opening bracket) -/
theorem parseModBody_serialize (o c : Char) (hoc : o ≠ c) (hpo : '+' ≠ o) (hpc : '+' ≠ c) (plus : Bool) (m : Mod)
    (hm : canonMod o c m = true) (rest : List Char) (hrest : ModStop rest) :
    parseModBody o c ((Mod.serialize o c plus m).tail ++ rest) = .ok (m, rest) := by
  obtain ⟨v, mult⟩ := m
  simp only [canonMod, canonVal, Bool.and_eq_true, decide_eq_true_eq, beq_iff_eq, Bool.or_eq_true,
    Bool.not_eq_eq_eq_not, Bool.not_true] at hm
  obtain ⟨hmult, ⟨hconv, hbal⟩, hplus⟩ := hm
  -- the text between the brackets, its balance and its value
  have hshown_bal : balanced o c (v.shown plus) = true := by
    unfold ModVal.shown; split
    · rw [balanced_cons _ _ _ _ hpo hpc]; exact hbal
    · exact hbal
  have hshown_val : convertType (v.shown plus) = v := by
    unfold ModVal.shown; split
    · rename_i hp
      rcases hplus with hn | hc
      · simp [hn] at hp
      · exact hc
    · exact hconv
  unfold Mod.serialize
  split
  · -- multiplier written
    rename_i hgt
    simp only at hgt hmult
    simp only [List.tail_cons, List.append_assoc, List.cons_append]
    unfold parseModBody
    rw [scan_balanced o c hoc _ _ hshown_bal]
    simp only
    have hnat : intText mult = natText mult.natAbs := by
      unfold intText; rw [if_neg (by omega)]
    rw [hnat]
    have htw := takeWhile_append_stop Char.isDigit (natText mult.natAbs) rest (natText_digits _)
      (fun x hx => (hrest x hx).2)
    have hdw := dropWhile_append_stop Char.isDigit (natText mult.natAbs) rest (natText_digits _)
      (fun x hx => (hrest x hx).2)
    rw [htw, hdw, if_neg (natText_ne_nil _), natText_value, hshown_val]
    congr 2
    simp only [Mod.mk.injEq, true_and, Int.ofNat_eq_natCast]
    omega
  · rename_i hle
    simp only at hle hmult
    simp only [List.tail_cons, List.append_assoc, List.cons_append, List.nil_append]
    unfold parseModBody
    rw [scan_balanced o c hoc _ _ hshown_bal]
    simp only
    have h1 : mult = 1 := by omega
    subst h1
    cases rest with
    | nil => simp [hshown_val]
    | cons x t =>
      have := (hrest x rfl).1
      split
      · rename_i r heq; cases heq; exact absurd rfl this
      · simp [hshown_val]

theorem Mod.serialize_eq_cons (o c : Char) (plus : Bool) (m : Mod) :
    Mod.serialize o c plus m = o :: (Mod.serialize o c plus m).tail := by
  unfold Mod.serialize; split <;> rfl

theorem serializeMods_cons (o c : Char) (plus : Bool) (m : Mod) (t : List Mod) :
    serializeMods o c plus (m :: t) = Mod.serialize o c plus m ++ serializeMods o c plus t := by
  simp [serializeMods]

theorem serializeMods_head (o c : Char) (plus : Bool) (m : Mod) (t : List Mod) (rest : List Char) :
    (serializeMods o c plus (m :: t) ++ rest).head? = some o := by
  rw [serializeMods_cons, Mod.serialize_eq_cons]; simp

/-- the text of a list of modifications followed by `rest` stops a preceding modification -/
theorem modStop_serializeMods (o c : Char) (ho1 : o ≠ '^') (ho2 : o.isDigit = false) (plus : Bool) (l : List Mod)
    (rest : List Char) (hrest : ModStop rest) : ModStop (serializeMods o c plus l ++ rest) := by
  cases l with
  | nil => simpa [serializeMods] using hrest
  | cons m t =>
    intro x hx
    rw [serializeMods_head] at hx
    cases hx; exact ⟨ho1, ho2⟩

/-- `_parse_modifications` reads back a whole run of modifications -/
theorem parseMods_serialize (o c : Char) (hoc : o ≠ c) (hpo : '+' ≠ o) (hpc : '+' ≠ c) (ho1 : o ≠ '^')
    (ho2 : o.isDigit = false) (plus : Bool) (l : List Mod) (hl : l.all (canonMod o c) = true)
    (rest : List Char) (hrest : ModStop rest) (hro : rest.head? ≠ some o) :
    parseMods o c (serializeMods o c plus l ++ rest) = .ok (l, rest) := by
  induction l with
  | nil =>
    simp only [serializeMods, List.flatMap_nil, List.nil_append]
    rw [parseMods.eq_def]
    cases rest with
    | nil => rfl
    | cons x xs =>
      have : x ≠ o := by intro h; apply hro; simp [h]
      simp [this]
  | cons m t ih =>
    simp only [List.all_cons, Bool.and_eq_true] at hl
    rw [serializeMods_cons, Mod.serialize_eq_cons]
    simp only [List.cons_append, List.append_assoc]
    rw [parseMods.eq_def]
    simp only [↓reduceIte]
    have h1 := parseModBody_serialize o c hoc hpo hpc plus m hl.1 (serializeMods o c plus t ++ rest)
      (modStop_serializeMods o c ho1 ho2 plus t rest hrest)
    split
    · rename_i e he; rw [h1] at he; cases he
    · rename_i m' rest' hb
      rw [h1] at hb; cases hb
      rw [ih hl.2]

end Pept
