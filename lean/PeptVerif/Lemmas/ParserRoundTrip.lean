import PeptVerif.Spec.ProForma
import PeptVerif.Lemmas.ParserTotal
/-!
Helper lemmas for C01 (round trip of the parser and the serializer). No Mathlib.
-/
namespace Pept

/-! ### lists -/

theorem takeWhile_append_stop {α} (p : α → Bool) (l r : List α) (hl : ∀ x ∈ l, p x = true)
    (hr : ∀ x, r.head? = some x → p x = false) : (l ++ r).takeWhile p = l := by
  induction l with
  | nil =>
    cases r with
    | nil => rfl
    | cons x xs => simp [hr x rfl]
  | cons a t ih =>
    simp only [List.cons_append, List.takeWhile, hl a (by simp)]
    rw [ih (fun x hx => hl x (by simp [hx]))]

theorem dropWhile_append_stop {α} (p : α → Bool) (l r : List α) (hl : ∀ x ∈ l, p x = true)
    (hr : ∀ x, r.head? = some x → p x = false) : (l ++ r).dropWhile p = r := by
  induction l with
  | nil =>
    cases r with
    | nil => rfl
    | cons x xs => simp [hr x rfl]
  | cons a t ih =>
    simp only [List.cons_append, List.dropWhile, hl a (by simp)]
    exact ih (fun x hx => hl x (by simp [hx]))

/-! ### the bracket scan -/

theorem scan_append (o c : Char) (w t : List Char) (d d' : Nat)
    (h : depthAfter o c d w = some d') :
    scan o c d (w ++ t) = (scan o c d' t).map (fun r => (w ++ r.1, r.2)) := by
  induction w generalizing d with
  | nil =>
    simp [depthAfter] at h; subst h
    simp only [List.nil_append]
    cases hs : scan o c d t <;> simp
  | cons x xs ih =>
    simp only [depthAfter] at h
    simp only [List.cons_append, scan]
    split
    · rename_i hx; rw [if_pos hx] at h; rw [ih _ h]; cases scan o c d' t <;> simp
    · rename_i hx; rw [if_neg hx] at h
      split
      · rename_i hxc; rw [if_pos hxc] at h
        split
        · rename_i hd; simp [hd] at h
        · rename_i hd; rw [if_neg hd] at h; rw [ih _ h]; cases scan o c d' t <;> simp
      · rename_i hxc; rw [if_neg hxc] at h; rw [ih _ h]; cases scan o c d' t <;> simp

theorem scan_balanced (o c : Char) (hoc : o ≠ c) (w rest : List Char) (hb : balanced o c w = true) :
    scan o c 1 (w ++ c :: rest) = some (w, rest) := by
  have hb' : depthAfter o c 1 w = some 1 := by simpa [balanced] using hb
  rw [scan_append o c w (c :: rest) 1 1 hb']
  simp [scan]
  intro h; exact absurd h.symm hoc

/-- a character that is neither bracket does not change the depth -/
theorem balanced_cons (o c x : Char) (w : List Char) (hxo : x ≠ o) (hxc : x ≠ c) :
    balanced o c (x :: w) = balanced o c w := by
  simp [balanced, depthAfter, hxo, hxc]

/-! ### numbers -/

theorem natText_digits (n : Nat) : ∀ x ∈ natText n, x.isDigit = true :=
  fun _ hx => Nat.isDigit_of_mem_toDigits (by decide) (by decide) hx

theorem natText_ne_nil (n : Nat) : natText n ≠ [] := Nat.toDigits_ne_nil

theorem natText_value (n : Nat) : Nat.ofDigitChars 10 (natText n) 0 = n := Nat.ofDigitChars_ten_toDigits

/-- what may follow a modification group: not a multiplier sign, not a digit -/
def ModStop (r : List Char) : Prop := ∀ x, r.head? = some x → x ≠ '^' ∧ x.isDigit = false

theorem ModStop.nil : ModStop [] := by intro x h; simp at h

theorem ModStop.cons {x : Char} {t : List Char} (h1 : x ≠ '^') (h2 : x.isDigit = false) : ModStop (x :: t) := by
  intro y hy; simp at hy; subst hy; exact ⟨h1, h2⟩

/-! ### one modification -/

/-- `_parse_modification` reads back what `Mod.serialize` wrote (the text after the opening bracket) -/
theorem parseModBody_serialize (o c : Char) (hoc : o ≠ c) (hpo : '+' ≠ o) (hpc : '+' ≠ c) (plus : Bool) (m : Mod)
    (hm : canonMod o c m = true) (rest : List Char) (hrest : ModStop rest) :
    parseModBody o c ((Mod.serialize o c plus m).tail ++ rest) = .ok (m, rest) := by
  obtain ⟨v, mult⟩ := m
  simp only [canonMod, canonVal, Bool.and_eq_true, decide_eq_true_eq, beq_iff_eq, Bool.or_eq_true,
    Bool.not_eq_eq_eq_not, Bool.not_true] at hm
  obtain ⟨hmult, ⟨hconv, hbal⟩, hplus⟩ := hm
  -- the text between the brackets, its balance and its value
  have hshown_bal : balanced o c (v.shown plus) = true := by
    unfold ModVal.shown; split
    · rw [balanced_cons _ _ _ _ hpo hpc]; exact hbal
    · exact hbal
  have hshown_val : convertType (v.shown plus) = v := by
    unfold ModVal.shown; split
    · rename_i hp
      rcases hplus with hn | hc
      · simp [hn] at hp
      · exact hc
    · exact hconv
  unfold Mod.serialize
  split
  · -- multiplier written
    rename_i hgt
    simp only at hgt hmult
    simp only [List.tail_cons, List.append_assoc, List.cons_append]
    unfold parseModBody
    rw [scan_balanced o c hoc _ _ hshown_bal]
    simp only
    have hnat : intText mult = natText mult.natAbs := by
      unfold intText; rw [if_neg (by omega)]
    rw [hnat]
    have htw := takeWhile_append_stop Char.isDigit (natText mult.natAbs) rest (natText_digits _)
      (fun x hx => (hrest x hx).2)
    have hdw := dropWhile_append_stop Char.isDigit (natText mult.natAbs) rest (natText_digits _)
      (fun x hx => (hrest x hx).2)
    rw [htw, hdw, if_neg (natText_ne_nil _), natText_value, hshown_val, if_neg (by omega)]
    congr 2
    simp only [Mod.mk.injEq, true_and, Int.ofNat_eq_natCast]
    omega
  · rename_i hle
    simp only at hle hmult
    simp only [List.tail_cons, List.append_assoc, List.cons_append, List.nil_append]
    unfold parseModBody
    rw [scan_balanced o c hoc _ _ hshown_bal]
    simp only
    have h1 : mult = 1 := by omega
    subst h1
    cases rest with
    | nil => simp [hshown_val]
    | cons x t =>
      have := (hrest x rfl).1
      split
      · rename_i r heq; cases heq; exact absurd rfl this
      · simp [hshown_val]

theorem Mod.serialize_eq_cons (o c : Char) (plus : Bool) (m : Mod) :
    Mod.serialize o c plus m = o :: (Mod.serialize o c plus m).tail := by
  unfold Mod.serialize; split <;> rfl

theorem serializeMods_cons (o c : Char) (plus : Plus) (m : Mod) (t : List Mod) :
    serializeMods o c plus (m :: t) = Mod.serialize o c (plus m) m ++ serializeMods o c plus t := by
  simp [serializeMods]

theorem serializeMods_head (o c : Char) (plus : Plus) (m : Mod) (t : List Mod) (rest : List Char) :
    (serializeMods o c plus (m :: t) ++ rest).head? = some o := by
  rw [serializeMods_cons, Mod.serialize_eq_cons]; simp

/-- the text of a list of modifications followed by `rest` stops a preceding modification -/
theorem modStop_serializeMods (o c : Char) (ho1 : o ≠ '^') (ho2 : o.isDigit = false) (plus : Plus) (l : List Mod)
    (rest : List Char) (hrest : ModStop rest) : ModStop (serializeMods o c plus l ++ rest) := by
  cases l with
  | nil => simpa [serializeMods] using hrest
  | cons m t =>
    intro x hx
    rw [serializeMods_head] at hx
    cases hx; exact ⟨ho1, ho2⟩

/-- `_parse_modifications` reads back a whole run of modifications -/
theorem parseMods_serialize (o c : Char) (hoc : o ≠ c) (hpo : '+' ≠ o) (hpc : '+' ≠ c) (ho1 : o ≠ '^')
    (ho2 : o.isDigit = false) (plus : Plus) (l : List Mod) (hl : l.all (canonMod o c) = true)
    (rest : List Char) (hrest : ModStop rest) (hro : rest.head? ≠ some o) :
    parseMods o c (serializeMods o c plus l ++ rest) = .ok (l, rest) := by
  induction l with
  | nil =>
    simp only [serializeMods, List.flatMap_nil, List.nil_append]
    rw [parseMods.eq_def]
    cases rest with
    | nil => rfl
    | cons x xs =>
      have : x ≠ o := by intro h; apply hro; simp [h]
      simp [this]
  | cons m t ih =>
    simp only [List.all_cons, Bool.and_eq_true] at hl
    rw [serializeMods_cons, Mod.serialize_eq_cons]
    simp only [List.cons_append, List.append_assoc]
    rw [parseMods.eq_def]
    simp only [↓reduceIte]
    have h1 := parseModBody_serialize o c hoc hpo hpc (plus m) m hl.1 (serializeMods o c plus t ++ rest)
      (modStop_serializeMods o c ho1 ho2 plus t rest hrest)
    split
    · rename_i e he; rw [h1] at he; cases he
    · rename_i m' rest' hb
      rw [h1] at hb; cases hb
      rw [ih hl.2]

/-! ### the start section, piece by piece -/

/-- `None` stays `None` when nothing is added; otherwise the list is created / extended -/
def appendOpt (cur : Option (List Mod)) (l : List Mod) : Option (List Mod) :=
  if l = [] then cur else some (cur.getD [] ++ l)

theorem appendOpt_addMods (cur : Option (List Mod)) (m : Mod) (t : List Mod) :
    appendOpt (addMods cur [m]) t = appendOpt cur (m :: t) := by
  unfold appendOpt addMods
  by_cases ht : t = []
  · simp [ht]
  · simp [ht]

theorem parseStart_labile (plus : Plus) (l : List Mod) (hl : l.all (canonMod '{' '}') = true) (acc : Annotation)
    (rest : List Char) (hrest : ModStop rest) :
    parseStart true acc (serializeMods '{' '}' plus l ++ rest) =
      parseStart true { acc with labile := appendOpt acc.labile l } rest := by
  induction l generalizing acc with
  | nil => simp [serializeMods, appendOpt]
  | cons m t ih =>
    simp only [List.all_cons, Bool.and_eq_true] at hl
    rw [serializeMods_cons, Mod.serialize_eq_cons]
    simp only [List.cons_append, List.append_assoc]
    rw [parseStart.eq_def]
    have hA : isAA '{' = false := by decide
    simp [hA]
    have h1 := parseModBody_serialize '{' '}' (by decide) (by decide) (by decide) (plus m) m hl.1
      (serializeMods '{' '}' plus t ++ rest) (modStop_serializeMods '{' '}' (by decide) (by decide) plus t rest hrest)
    split
    · rename_i e he; rw [h1] at he; cases he
    · rename_i m' rest' hb
      rw [h1] at hb; cases hb
      rw [ih hl.2]
      simp only [appendOpt_addMods]

/-- static rules and isotope labels are told apart by `@`; multipliers above 1 are rejected -/
theorem addGlobals_static_isotope (st iso : List Mod) (hst : st.all canonStatic = true)
    (hiso : iso.all canonIsotope = true) (acc : Annotation) :
    addGlobals true acc (st ++ iso) =
      .ok { acc with static := appendOpt acc.static st, isotope := appendOpt acc.isotope iso } := by
  induction st generalizing acc with
  | nil =>
    simp only [List.nil_append]
    induction iso generalizing acc with
    | nil => simp [addGlobals, appendOpt]
    | cons m t ih =>
      simp only [List.all_cons, Bool.and_eq_true] at hiso
      obtain ⟨v, mult⟩ := m
      have h := hiso.1
      simp only [canonIsotope, Bool.and_eq_true, decide_eq_true_eq, Bool.not_eq_eq_eq_not, Bool.not_true] at h
      obtain ⟨⟨⟨hm, hs⟩, hat⟩, _⟩ := h
      cases v with
      | int i => simp [isStr] at hs
      | flt r => simp [isStr] at hs
      | str tx =>
        simp only [strHasAt] at hat
        subst hm
        simp only [addGlobals, hat]
        simp only [Bool.false_eq_true, ↓reduceIte, show ¬ ((1 : Int) > 1) by decide]
        rw [ih hiso.2]
        simp only [appendOpt_addMods]
  | cons m t ih =>
    simp only [List.all_cons, Bool.and_eq_true] at hst
    obtain ⟨v, mult⟩ := m
    have h := hst.1
    simp only [canonStatic, Bool.and_eq_true, decide_eq_true_eq] at h
    obtain ⟨⟨⟨hm, hs⟩, hat⟩, _⟩ := h
    cases v with
    | int i => simp [isStr] at hs
    | flt r => simp [isStr] at hs
    | str tx =>
      simp only [strHasAt] at hat
      subst hm
      simp only [List.cons_append, addGlobals, hat]
      simp only [↓reduceIte, show ¬ ((1 : Int) > 1) by decide]
      rw [ih hst.2]
      simp only [appendOpt_addMods]

theorem canonStatic_canonMod (m : Mod) (h : canonStatic m = true) : canonMod '<' '>' m = true := by
  simp only [canonStatic, Bool.and_eq_true, decide_eq_true_eq] at h
  simp only [canonMod, Bool.and_eq_true, decide_eq_true_eq]
  exact ⟨by omega, h.2⟩

theorem canonIsotope_canonMod (m : Mod) (h : canonIsotope m = true) : canonMod '<' '>' m = true := by
  simp only [canonIsotope, Bool.and_eq_true, decide_eq_true_eq] at h
  simp only [canonMod, Bool.and_eq_true, decide_eq_true_eq]
  exact ⟨by omega, h.2⟩

/-- one run of `<…>` groups is read by a single `_parse_modifications('<','>')` call and then classified -/
theorem parseStart_globals (plus : Plus) (g : List Mod) (hg : g ≠ []) (hcan : g.all (canonMod '<' '>') = true)
    (acc : Annotation) (rest : List Char) (hrest : ModStop rest) (hro : rest.head? ≠ some '<') :
    parseStart true acc (serializeMods '<' '>' plus g ++ rest) =
      match addGlobals true acc g with
      | .error e => .error e
      | .ok a' => parseStart true a' rest := by
  cases g with
  | nil => exact absurd rfl hg
  | cons m t =>
    have h2 := parseMods_serialize '<' '>' (by decide) (by decide) (by decide) (by decide) (by decide) plus (m :: t)
      hcan rest hrest hro
    rw [serializeMods_cons, Mod.serialize_eq_cons] at h2 ⊢
    simp only [List.cons_append, List.append_assoc] at h2 ⊢
    rw [parseStart.eq_def]
    have hA : isAA '<' = false := by decide
    simp [hA]
    split
    · rename_i e he; rw [h2] at he; cases he
    · rename_i ms rest' hb
      rw [h2] at hb; cases hb
      rfl

/-- `[..][..]?` (unknown position) and `[..][..]-` (N-terminal) -/
theorem parseStart_brackets (plus : Plus) (u : List Mod) (hu : u ≠ []) (hcan : u.all (canonMod '[' ']') = true)
    (acc : Annotation) (sep : Char) (hsep : sep = '?' ∨ sep = '-') (rest : List Char) :
    parseStart true acc (serializeMods '[' ']' plus u ++ sep :: rest) =
      if sep = '-' then parseStart true { acc with nterm := addMods acc.nterm u } rest
      else parseStart true { acc with unknown := addMods acc.unknown u } rest := by
  cases u with
  | nil => exact absurd rfl hu
  | cons m t =>
    have hstop : ModStop (sep :: rest) := by
      rcases hsep with h | h <;> subst h <;> exact ModStop.cons (by decide) (by decide)
    have hne : (sep :: rest).head? ≠ some '[' := by
      rcases hsep with h | h <;> subst h <;> simp
    have h2 := parseMods_serialize '[' ']' (by decide) (by decide) (by decide) (by decide) (by decide) plus (m :: t)
      hcan (sep :: rest) hstop hne
    rw [serializeMods_cons, Mod.serialize_eq_cons] at h2 ⊢
    simp only [List.cons_append, List.append_assoc] at h2 ⊢
    rw [parseStart.eq_def]
    have hA : isAA '[' = false := by decide
    simp [hA]
    split
    · rename_i e he; rw [h2] at he; cases he
    · rename_i ms rest' hb
      rw [h2] at hb; cases hb
      rcases hsep with h | h <;> subst h <;> simp

theorem parseStart_stop (acc : Annotation) (rest : List Char)
    (h : rest = [] ∨ ∃ c t, rest = c :: t ∧ (isAA c = true ∨ c = '(')) : parseStart true acc rest = .ok (acc, rest) := by
  rcases h with h | ⟨c, t, h, hc⟩
  · subst h; rw [parseStart.eq_def]
  · subst h; rw [parseStart.eq_def]; simp [hc]

theorem isDigit_toNat (c : Char) : c.isDigit = true ↔ 48 ≤ c.toNat ∧ c.toNat ≤ 57 := by
  unfold Char.isDigit
  simp only [Bool.and_eq_true, decide_eq_true_eq, ge_iff_le, UInt32.le_iff_toNat_le]
  show (48 ≤ c.val.toNat ∧ c.val.toNat ≤ 57) ↔ _
  rfl

theorem isAA_not_digit (c : Char) (h : isAA c = true) : c.isDigit = false := by
  cases hd : c.isDigit with
  | false => rfl
  | true =>
    rw [isDigit_toNat] at hd
    simp only [isAA, Bool.and_eq_true, decide_eq_true_eq] at h
    omega

theorem isAA_ne (c x : Char) (h : isAA c = true) (hx : isAA x = false) : c ≠ x := by
  intro he; subst he; rw [h] at hx; cases hx

/-- what follows the start section: end of input, a residue or `(` -/
theorem StartStop.modStop {r : List Char} (h : StartStop r) : ModStop r := by
  rcases h with h | ⟨c, t, h, hc⟩
  · subst h; exact ModStop.nil
  · subst h
    rcases hc with hc | hc
    · exact ModStop.cons (isAA_ne c '^' hc (by decide)) (isAA_not_digit c hc)
    · subst hc; exact ModStop.cons (by decide) (by decide)

theorem StartStop.head_ne {r : List Char} (h : StartStop r) (x : Char) (hx : isAA x = false) (hx2 : x ≠ '(') :
    r.head? ≠ some x := by
  rcases h with h | ⟨c, t, h, hc⟩
  · subst h; simp
  · subst h
    rcases hc with hc | hc
    · simp; exact isAA_ne c x hc hx
    · subst hc; simp; exact fun h => hx2 h.symm

/-- text of an optional `[..]…sep` section -/
def optSection (plus : Plus) (sep : Char) : Option (List Mod) → List Char
  | none => []
  | some l => serializeMods '[' ']' plus l ++ [sep]

theorem optSection_modStop (plus : Plus) (sep : Char) (hsep : sep = '?' ∨ sep = '-') (x : Option (List Mod))
    (r : List Char) (hr : ModStop r) : ModStop (optSection plus sep x ++ r) := by
  cases x with
  | none => simpa [optSection] using hr
  | some l =>
    simp only [optSection, List.append_assoc, List.cons_append, List.nil_append]
    apply modStop_serializeMods '[' ']' (by decide) (by decide)
    rcases hsep with h | h <;> subst h <;> exact ModStop.cons (by decide) (by decide)

theorem optSection_head_ne (plus : Plus) (sep : Char) (hsep : sep = '?' ∨ sep = '-') (x : Option (List Mod))
    (r : List Char) (hr : r.head? ≠ some '<') : (optSection plus sep x ++ r).head? ≠ some '<' := by
  cases x with
  | none => simpa [optSection] using hr
  | some l =>
    cases l with
    | nil => rcases hsep with h | h <;> subst h <;> simp [optSection, serializeMods]
    | cons m t =>
      simp only [optSection, List.append_assoc]
      rw [serializeMods_head]; simp

theorem optMods_modStop (o c : Char) (ho1 : o ≠ '^') (ho2 : o.isDigit = false) (plus : Plus)
    (x : Option (List Mod)) (r : List Char) (hr : ModStop r) : ModStop (optMods o c plus x ++ r) := by
  cases x with
  | none => simpa [optMods] using hr
  | some l => exact modStop_serializeMods o c ho1 ho2 plus l r hr

theorem serializeMods_append (o c : Char) (plus : Plus) (l1 l2 : List Mod) :
    serializeMods o c plus (l1 ++ l2) = serializeMods o c plus l1 ++ serializeMods o c plus l2 := by
  simp [serializeMods]

theorem optMods_eq (o c : Char) (plus : Plus) (x : Option (List Mod)) :
    optMods o c plus x = serializeMods o c plus (x.getD []) := by
  cases x <;> simp [optMods, serializeMods]

theorem appendOpt_none_getD (p : Mod → Bool) (x : Option (List Mod)) (h : canonGlobal p x = true) :
    appendOpt none (x.getD []) = x := by
  cases x with
  | none => simp [appendOpt]
  | some l =>
    simp only [canonGlobal, Bool.and_eq_true, Bool.not_eq_eq_eq_not, Bool.not_true] at h
    have : l ≠ [] := by intro hl; subst hl; simp at h
    simp [appendOpt, this]

theorem canonGlobal_all (p : Mod → Bool) (x : Option (List Mod)) (h : canonGlobal p x = true) :
    (x.getD []).all p = true := by
  cases x with
  | none => simp
  | some l => simp only [canonGlobal, Bool.and_eq_true] at h; simpa using h.2

theorem canonOptMods_some (o c : Char) (l : List Mod) (h : canonOptMods o c (some l) = true) :
    l ≠ [] ∧ l.all (canonMod o c) = true := by
  simp only [canonOptMods, Bool.and_eq_true, Bool.not_eq_eq_eq_not, Bool.not_true] at h
  refine ⟨?_, h.2⟩
  intro hl; subst hl; simp at h

/-- **start section**: labile, static, isotope, unknown-position and N-terminal modifications written by
`_serialize_annotation_start` are read back by `_parse_sequence_start` into a fresh accumulator -/
theorem parseStart_sections (plus : Plus) (lab st iso unk nt : Option (List Mod))
    (h1 : canonOptMods '{' '}' lab = true) (h2 : canonGlobal canonStatic st = true)
    (h3 : canonGlobal canonIsotope iso = true) (h4 : canonOptMods '[' ']' unk = true)
    (h5 : canonOptMods '[' ']' nt = true) (rest : List Char) (hrest : StartStop rest) :
    parseStart true { seq := [] }
      (optMods '{' '}' plus lab ++ (optMods '<' '>' plus st ++ (optMods '<' '>' plus iso ++
        (optSection plus '?' unk ++ (optSection plus '-' nt ++ rest))))) =
      .ok ({ seq := [], labile := lab, static := st, isotope := iso, unknown := unk, nterm := nt }, rest) := by
  have hm5 : ModStop (optSection plus '-' nt ++ rest) := optSection_modStop plus '-' (Or.inr rfl) nt rest hrest.modStop
  have hm4 : ModStop (optSection plus '?' unk ++ (optSection plus '-' nt ++ rest)) :=
    optSection_modStop plus '?' (Or.inl rfl) unk _ hm5
  have hn5 : (optSection plus '-' nt ++ rest).head? ≠ some '<' :=
    optSection_head_ne plus '-' (Or.inr rfl) nt rest (hrest.head_ne '<' (by decide) (by decide))
  have hn4 : (optSection plus '?' unk ++ (optSection plus '-' nt ++ rest)).head? ≠ some '<' :=
    optSection_head_ne plus '?' (Or.inl rfl) unk _ hn5
  have hm3 : ModStop (optMods '<' '>' plus iso ++ (optSection plus '?' unk ++ (optSection plus '-' nt ++ rest))) :=
    optMods_modStop '<' '>' (by decide) (by decide) plus iso _ hm4
  have hm2 : ModStop (optMods '<' '>' plus st ++ (optMods '<' '>' plus iso ++
      (optSection plus '?' unk ++ (optSection plus '-' nt ++ rest)))) :=
    optMods_modStop '<' '>' (by decide) (by decide) plus st _ hm3
  -- 1. labile
  have s1 : parseStart true { seq := [] }
      (optMods '{' '}' plus lab ++ (optMods '<' '>' plus st ++ (optMods '<' '>' plus iso ++
        (optSection plus '?' unk ++ (optSection plus '-' nt ++ rest))))) =
      parseStart true { seq := [], labile := lab } (optMods '<' '>' plus st ++ (optMods '<' '>' plus iso ++
        (optSection plus '?' unk ++ (optSection plus '-' nt ++ rest)))) := by
    cases lab with
    | none => simp [optMods]
    | some l =>
      obtain ⟨hne, hall⟩ := canonOptMods_some _ _ _ h1
      rw [show optMods '{' '}' plus (some l) = serializeMods '{' '}' plus l from rfl,
        parseStart_labile plus l hall _ _ hm2]
      simp [appendOpt, hne]
  -- 2. the `<…>` groups
  have s2 : parseStart true { seq := [], labile := lab } (optMods '<' '>' plus st ++ (optMods '<' '>' plus iso ++
        (optSection plus '?' unk ++ (optSection plus '-' nt ++ rest)))) =
      parseStart true { seq := [], labile := lab, static := st, isotope := iso }
        (optSection plus '?' unk ++ (optSection plus '-' nt ++ rest)) := by
    rw [← List.append_assoc, optMods_eq, optMods_eq, ← serializeMods_append]
    by_cases hg : st.getD [] ++ iso.getD [] = []
    · have hs : st = none := by
        cases st with
        | none => rfl
        | some l => simp at hg; obtain ⟨hl, _⟩ := hg; subst hl; simp [canonGlobal] at h2
      have hi : iso = none := by
        cases iso with
        | none => rfl
        | some l => simp at hg; obtain ⟨_, hl⟩ := hg; subst hl; simp [canonGlobal] at h3
      subst hs hi
      simp [serializeMods]
    · have hall : (st.getD [] ++ iso.getD []).all (canonMod '<' '>') = true := by
        rw [List.all_append, Bool.and_eq_true]
        constructor
        · have := canonGlobal_all _ _ h2
          rw [List.all_eq_true] at this ⊢
          exact fun m hm => canonStatic_canonMod m (this m hm)
        · have := canonGlobal_all _ _ h3
          rw [List.all_eq_true] at this ⊢
          exact fun m hm => canonIsotope_canonMod m (this m hm)
      rw [parseStart_globals plus _ hg hall _ _ hm4 hn4,
        addGlobals_static_isotope _ _ (canonGlobal_all _ _ h2) (canonGlobal_all _ _ h3)]
      simp only [appendOpt_none_getD _ _ h2, appendOpt_none_getD _ _ h3]
  -- 3. unknown position
  have s3 : parseStart true { seq := [], labile := lab, static := st, isotope := iso }
        (optSection plus '?' unk ++ (optSection plus '-' nt ++ rest)) =
      parseStart true { seq := [], labile := lab, static := st, isotope := iso, unknown := unk }
        (optSection plus '-' nt ++ rest) := by
    cases unk with
    | none => simp [optSection]
    | some l =>
      obtain ⟨hne, hall⟩ := canonOptMods_some _ _ _ h4
      simp only [optSection, List.append_assoc, List.cons_append, List.nil_append]
      rw [parseStart_brackets plus l hne hall _ '?' (Or.inl rfl)]
      simp [addMods]
  -- 4. N-terminal
  have s4 : parseStart true { seq := [], labile := lab, static := st, isotope := iso, unknown := unk }
        (optSection plus '-' nt ++ rest) =
      parseStart true { seq := [], labile := lab, static := st, isotope := iso, unknown := unk, nterm := nt } rest := by
    cases nt with
    | none => simp [optSection]
    | some l =>
      obtain ⟨hne, hall⟩ := canonOptMods_some _ _ _ h5
      simp only [optSection, List.append_assoc, List.cons_append, List.nil_append]
      rw [parseStart_brackets plus l hne hall _ '-' (Or.inr rfl)]
      simp [addMods]
  rw [s1, s2, s3, s4, parseStart_stop _ _ hrest]

theorem serializeStart_eq (plus : Plus) (a : Annotation) :
    serializeStart plus a = optMods '{' '}' plus a.labile ++ (optMods '<' '>' plus a.static ++
      (optMods '<' '>' plus a.isotope ++ (optSection plus '?' a.unknown ++ optSection plus '-' a.nterm))) := by
  unfold serializeStart optSection
  cases a.unknown <;> cases a.nterm <;> simp

/-! ### integers -/

theorem digitsUS_digits (prev : Bool) (ds : List Char) (hd : ∀ x ∈ ds, x.isDigit = true) :
    digitsUS prev ds = (ds, []) := by
  induction ds generalizing prev with
  | nil => rfl
  | cons c t ih =>
    simp only [digitsUS, hd c (by simp), ↓reduceIte]
    rw [ih true (fun x hx => hd x (by simp [hx]))]

theorem isDigit_not_space (c : Char) (h : c.isDigit = true) : isPySpace c = false := by
  rw [isDigit_toNat] at h
  simp only [isPySpace, Bool.or_eq_false_iff, Bool.and_eq_false_imp, decide_eq_true_eq, decide_eq_false_iff_not]
  omega

theorem dropWhile_head_false {α} (p : α → Bool) (l : List α) (h : ∀ x, l.head? = some x → p x = false) :
    l.dropWhile p = l := by
  cases l with
  | nil => rfl
  | cons a t => simp [List.dropWhile, h a rfl]

/-- nothing to strip when the first and the last character are not white space -/
theorem pyStrip_id (l : List Char) (h1 : ∀ x, l.head? = some x → isPySpace x = false)
    (h2 : ∀ x, l.getLast? = some x → isPySpace x = false) : pyStrip l = l := by
  unfold pyStrip
  rw [dropWhile_head_false _ _ h1, dropWhile_head_false _ l.reverse (by simpa using h2), List.reverse_reverse]

theorem natText_head_digit (n : Nat) : ∀ x, (natText n).head? = some x → x.isDigit = true := by
  intro x hx
  exact natText_digits n x (List.mem_of_mem_head? hx)

theorem natText_last_digit (n : Nat) : ∀ x, (natText n).getLast? = some x → x.isDigit = true := by
  intro x hx
  exact natText_digits n x (List.mem_of_getLast? hx)

theorem pyInt_natText (n : Nat) : pyInt? (natText n) = some (Int.ofNat n) := by
  unfold pyInt?
  have hs : pyStrip (natText n) = natText n :=
    pyStrip_id _ (fun x hx => isDigit_not_space x (natText_head_digit n x hx))
      (fun x hx => isDigit_not_space x (natText_last_digit n x hx))
  rw [hs]
  have hsg : splitSign (natText n) = (false, natText n) := by
    cases hnt : natText n with
    | nil => exact absurd hnt (natText_ne_nil n)
    | cons c t =>
      have hc : c.isDigit = true := natText_head_digit n c (by simp [hnt])
      unfold splitSign
      split
      · rename_i heq; cases heq; exact absurd hc (by decide)
      · rename_i heq; cases heq; exact absurd hc (by decide)
      · rfl
  simp only [hsg, digitsUS_digits false _ (natText_digits n), natText_value]
  simp [natText_ne_nil]

theorem pyInt_intText (i : Int) : pyInt? (intText i) = some i := by
  unfold intText
  split
  · rename_i hneg
    unfold pyInt?
    have hs : pyStrip ('-' :: natText i.natAbs) = '-' :: natText i.natAbs := by
      apply pyStrip_id
      · intro x hx; simp at hx; subst hx; decide
      · intro x hx
        rw [List.getLast?_cons_of_ne_nil (natText_ne_nil _)] at hx
        exact isDigit_not_space x (natText_last_digit _ x hx)
    rw [hs]
    simp only [splitSign, digitsUS_digits false _ (natText_digits _), natText_value]
    simp [natText_ne_nil]
    omega
  · rename_i hnn
    rw [pyInt_natText]
    simp only [Int.ofNat_eq_natCast, Option.some.injEq]
    omega

/-- every Python `int` is a canonical modification value: `convert_type(str(i)) == i` -/
theorem convertType_intText (i : Int) : convertType (intText i) = .int i := by
  simp [convertType, pyInt_intText]

/-! ### `_parse_integer` and the end section -/

theorem intSpan_digits (n : Nat) (ds r : List Char) (hd : ∀ x ∈ ds, x.isDigit = true) :
    intSpan n (ds ++ r) = (ds ++ (intSpan (n + ds.length) r).1, (intSpan (n + ds.length) r).2) := by
  induction ds generalizing n with
  | nil => simp
  | cons c t ih =>
    simp only [List.cons_append, intSpan, hd c (by simp), ↓reduceIte]
    rw [ih (n + 1) (fun x hx => hd x (by simp [hx]))]
    simp only [List.length_cons]
    have : n + 1 + t.length = n + (t.length + 1) := by omega
    rw [this]

theorem intSpan_stop (n : Nat) (r : List Char) (hn : n ≠ 0) (hr : ∀ x, r.head? = some x → x.isDigit = false) :
    intSpan n r = ([], r) := by
  cases r with
  | nil => rfl
  | cons c t => simp [intSpan, hr c rfl, hn]

/-- what may follow the charge digits -/
def IntStop (r : List Char) : Prop := ∀ x, r.head? = some x → x.isDigit = false

theorem parseInteger_intText (ch : Int) (r : List Char) (hr : IntStop r) :
    parseInteger (intText ch ++ r) = .ok (ch, r) := by
  have hspan : intSpan 0 (intText ch ++ r) = (intText ch, r) := by
    unfold intText
    split
    · simp only [List.cons_append, intSpan]
      have h1 : ('-' : Char).isDigit = false := by decide
      simp only [h1, Bool.false_eq_true, ↓reduceIte, or_true, and_self]
      rw [intSpan_digits 0 _ r (natText_digits _),
        intSpan_stop _ r (by have := natText_ne_nil ch.natAbs; cases h : natText ch.natAbs <;> simp_all) hr]
      simp
    · rw [intSpan_digits 0 _ r (natText_digits _),
        intSpan_stop _ r (by have := natText_ne_nil ch.natAbs; cases h : natText ch.natAbs <;> simp_all) hr]
      simp
  unfold parseInteger
  rw [hspan]
  simp [pyInt_intText]

/-- what follows a chain: the end of the input, the `+` or the `//` that starts the next chain -/
def ChainStop (r : List Char) : Prop := r = [] ∨ (∃ t, r = '+' :: t) ∨ (∃ t, r = '/' :: '/' :: t)

/-- `self._current_connection` after the chain -/
def stopConn (conn : Option Bool) : List Char → Option Bool
  | [] => conn
  | '+' :: _ => some false
  | _ => some true

/-- the input after the joiner -/
def stopRest : List Char → List Char
  | [] => []
  | '+' :: t => t
  | r => r.drop 2

theorem ChainStop.modStop {r : List Char} (h : ChainStop r) : ModStop r := by
  rcases h with h | ⟨t, h⟩ | ⟨t, h⟩ <;> subst h
  · exact ModStop.nil
  · exact ModStop.cons (by decide) (by decide)
  · exact ModStop.cons (by decide) (by decide)

theorem ChainStop.head_ne {r : List Char} (h : ChainStop r) (x : Char) (hx : x ≠ '+') (hx2 : x ≠ '/') :
    r.head? ≠ some x := by
  rcases h with h | ⟨t, h⟩ | ⟨t, h⟩ <;> subst h <;> simp
  · exact fun h => hx h.symm
  · exact fun h => hx2 h.symm

theorem stopRest_length (r : List Char) : (stopRest r).length ≤ r.length := by
  unfold stopRest
  split <;> simp

theorem intText_head (ch : Int) : ∀ x, (intText ch).head? = some x → x ≠ '/' := by
  intro x hx
  unfold intText at hx
  split at hx
  · simp at hx; subst hx; decide
  · have := natText_head_digit _ x hx
    intro h; subst h; exact absurd this (by decide)

theorem intText_ne_nil (ch : Int) : intText ch ≠ [] := by
  unfold intText; split
  · simp
  · exact natText_ne_nil _

theorem parseEnd_stop (a : Annotation) (conn : Option Bool) (r : List Char) (h : ChainStop r) :
    parseEnd a conn r = .ok (a, stopConn conn r, stopRest r) := by
  rcases h with h | ⟨t, h⟩ | ⟨t, h⟩ <;> subst h
  · rw [parseEnd.eq_def]; simp [stopConn, stopRest]
  · rw [parseEnd.eq_def]; simp [stopConn, stopRest]
  · rw [parseEnd.eq_def]; simp [stopConn, stopRest]

/-- **charge and adducts**: `/z[adduct]…` is read back by `_parse_sequence_end` -/
theorem parseEnd_charge (plus : Plus) (a : Annotation) (ha0 : a.adducts = none)
    (conn : Option Bool) (ch : Int) (ad : Option (List Mod)) (had : canonAdducts (some ch) ad = true)
    (rest : List Char) (hrest : ChainStop rest) :
    parseEnd a conn ('/' :: (intText ch ++ (optMods '[' ']' plus ad ++ rest))) =
      parseEnd { a with charge := some ch, adducts := ad } conn rest := by
  rw [parseEnd.eq_def]
  simp only [↓reduceIte]
  have hh : (intText ch ++ (optMods '[' ']' plus ad ++ rest)).head? ≠ some '/' := by
    cases hit : intText ch with
    | nil => exact absurd hit (intText_ne_nil ch)
    | cons c t =>
      simp only [List.cons_append, List.head?_cons, ne_eq, Option.some.injEq]
      exact intText_head ch c (by simp [hit])
  rw [if_neg hh]
  have hstop : IntStop (optMods '[' ']' plus ad ++ rest) := by
    intro x hx
    exact ((optMods_modStop '[' ']' (by decide) (by decide) plus ad rest hrest.modStop) x hx).2
  have hpi := parseInteger_intText ch _ hstop
  split
  · rename_i e he; rw [hpi] at he; cases he
  · rename_i ch' rest' hb
    rw [hpi] at hb; cases hb
    cases ad with
    | none =>
      have : (optMods '[' ']' plus none ++ rest).head? ≠ some '[' := by
        simpa [optMods] using hrest.head_ne '[' (by decide) (by decide)
      rw [if_neg this]
      simp [optMods, ha0]
    | some l =>
      simp only [canonAdducts, Option.isSome_some, Bool.true_and, Bool.and_eq_true, Bool.not_eq_eq_eq_not,
        Bool.not_true, List.all_eq_true, decide_eq_true_eq] at had
      obtain ⟨hne, hall⟩ := had
      have hne' : l ≠ [] := by intro h; subst h; simp at hne
      have hcan : l.all (canonMod '[' ']') = true := by
        rw [List.all_eq_true]; intro m hm
        have := hall m hm
        simp only [canonMod, Bool.and_eq_true, decide_eq_true_eq]
        exact ⟨by omega, this.2⟩
      have hhead : (optMods '[' ']' plus (some l) ++ rest).head? = some '[' := by
        cases l with
        | nil => exact absurd rfl hne'
        | cons m t => exact serializeMods_head _ _ _ _ _ _
      rw [if_pos hhead]
      have hpm := parseMods_serialize '[' ']' (by decide) (by decide) (by decide) (by decide) (by decide) plus l hcan
        rest hrest.modStop (hrest.head_ne '[' (by decide) (by decide))
      split
      · rename_i e he
        rw [show optMods '[' ']' plus (some l) = serializeMods '[' ']' plus l from rfl, hpm] at he; cases he
      · rename_i ms rest'' hb
        rw [show optMods '[' ']' plus (some l) = serializeMods '[' ']' plus l from rfl, hpm] at hb; cases hb
        have hany : (l.any fun m => decide (m.mult > 1)) = false := by
          rw [List.any_eq_false]; intro m hm
          have := (hall m hm).1
          simp; omega
        simp [hany, addMods, ha0]
end Pept
