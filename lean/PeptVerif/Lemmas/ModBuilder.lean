import PeptVerif.Model.ModBuilder
import PeptVerif.Spec.ModBuilder
import Mathlib.Data.List.Nodup
import Mathlib.Data.List.Perm.Basic
import Mathlib.Data.List.Forall2
import Mathlib.Algebra.Order.Group.Multiset
/-! Helper lemmas for C13. -/
set_option linter.unnecessarySeqFocus false
set_option linter.unusedSimpArgs false
namespace Pept
namespace ModBuilder

/-! ### the dict -/

theorem lookup_setKey (l : IMods) (i j : Int) (v : List Mod) :
    lookup (setKey l i v) j = if j = i then some v else lookup l j := by
  induction l with
  | nil => simp only [setKey, lookup]; split <;> simp_all <;> omega
  | cons p r ih =>
    obtain ⟨k, w⟩ := p
    simp only [setKey]
    split
    · subst_vars; simp only [lookup]; split <;> simp_all <;> omega
    · simp only [lookup, ih]; split <;> simp_all

theorem lookup_extendKey (l : IMods) (i j : Int) (v : List Mod) :
    lookup (extendKey l i v) j = if j = i then some ((lookup l i).getD [] ++ v) else lookup l j := by
  induction l with
  | nil => simp only [extendKey, lookup]; split <;> simp_all <;> omega
  | cons p r ih =>
    obtain ⟨k, w⟩ := p
    simp only [extendKey]
    split
    · subst_vars; simp only [lookup]; split <;> simp_all <;> omega
    · simp only [lookup, ih]; split <;> simp_all

theorem extendKey_of_lookup_none (l : IMods) (i : Int) (v : List Mod) (h : lookup l i = none) :
    extendKey l i v = l ++ [(i, v)] := by
  induction l with
  | nil => rfl
  | cons p r ih =>
    obtain ⟨k, w⟩ := p
    simp only [lookup] at h
    split at h
    · simp at h
    · simp only [extendKey, *, if_false, List.cons_append, ih h]

/-! ### annotation level -/

@[simp] theorem imods_addInternal (a : Annotation) (i : Int) (g : List Mod) (ap : Bool) :
    imods (addInternal a i g ap) = if ap then extendKey (imods a) i g else setKey (imods a) i g := by
  simp [imods, addInternal]

theorem modsAt_addInternal (a : Annotation) (i j : Int) (g : List Mod) (ap : Bool) :
    modsAt (addInternal a i g ap) j =
      if j = i then some (if ap then (modsAt a i).getD [] ++ g else g) else modsAt a j := by
  unfold modsAt
  rw [imods_addInternal]
  cases ap <;> simp [lookup_setKey, lookup_extendKey]

/-- `x` and `a` agree on everything except the internal mods -/
def FrameI (x a : Annotation) : Prop := { x with internal := none } = { a with internal := none }

/-- `x` and `a` agree on everything except internal, N-terminal and C-terminal mods -/
def FrameT (x a : Annotation) : Prop :=
  { x with internal := none, nterm := none, cterm := none } = { a with internal := none, nterm := none, cterm := none }

theorem FrameI.refl (a : Annotation) : FrameI a a := rfl
theorem FrameI.trans {x y z : Annotation} (h₁ : FrameI x y) (h₂ : FrameI y z) : FrameI x z := by
  unfold FrameI at *; rw [h₁, h₂]
theorem frameI_addInternal (a : Annotation) (i : Int) (g : List Mod) (ap : Bool) : FrameI (addInternal a i g ap) a := rfl

theorem FrameI.seq {x a : Annotation} (h : FrameI x a) : x.seq = a.seq := by
  have := congrArg Annotation.seq h; simpa using this
theorem FrameI.nterm {x a : Annotation} (h : FrameI x a) : x.nterm = a.nterm := by
  have := congrArg Annotation.nterm h; simpa using this
theorem FrameI.cterm {x a : Annotation} (h : FrameI x a) : x.cterm = a.cterm := by
  have := congrArg Annotation.cterm h; simpa using this

theorem FrameT.refl (a : Annotation) : FrameT a a := rfl
theorem FrameT.trans {x y z : Annotation} (h₁ : FrameT x y) (h₂ : FrameT y z) : FrameT x z := by
  unfold FrameT at *; rw [h₁, h₂]
theorem FrameT.seq {x a : Annotation} (h : FrameT x a) : x.seq = a.seq := by
  have := congrArg Annotation.seq h; simpa using this
theorem FrameI.toT {x a : Annotation} (h : FrameI x a) : FrameT x a := by
  unfold FrameI at h; unfold FrameT
  have := congrArg (fun y : Annotation => { y with nterm := none, cterm := none }) h
  simpa using this

/-! ### static rules -/

/-- the flattened list of loop iterations `(site, mods)` of a rule dict -/
def steps (rules : List (Rule (List Mod))) : List (Int × List Mod) :=
  rules.flatMap fun r => r.1.map fun i => (i, r.2)

theorem runRules_eq (step : List Mod → Annotation → Int → Annotation) (rules : List (Rule (List Mod)))
    (new : Annotation) :
    runRules step rules new = (steps rules).foldl (fun new p => step p.2 new p.1) new := by
  induction rules generalizing new with
  | nil => rfl
  | cons r rs ih =>
    simp only [runRules, List.foldl_cons, steps, List.flatMap_cons, List.foldl_append, List.foldl_map] at ih ⊢
    exact ih _

theorem staticOffers_eq (rules : List (Rule (List Mod))) (i : Int) :
    staticOffers rules i = ((steps (dropEmpty rules)).filter (fun p => p.1 = i)).map (·.2) := by
  unfold staticOffers steps dropEmpty
  induction rules.filter (fun r => !r.2.isEmpty) with
  | nil => rfl
  | cons r rs ih =>
    simp only [List.flatMap_cons, List.filter_append, List.map_append, ih, List.filter_map, List.map_map]
    congr 1

/-- what one loop iteration does to the mods at the position it addresses -/
def eff (mode : Mode) (orig cur : Option (List Mod)) (m : List Mod) : Option (List Mod) :=
  if orig.isSome then
    match mode with
    | .overwrite => some m
    | .append => some (cur.getD [] ++ m)
    | .skip => cur
  else some (cur.getD [] ++ m)

theorem fold_get (get : Annotation → Option (List Mod)) (step : List Mod → Annotation → Int → Annotation)
    (pos : Int) (mode : Mode) (orig : Option (List Mod))
    (h : ∀ m new i, get (step m new i) = if i = pos then eff mode orig (get new) m else get new)
    (ps : List (Int × List Mod)) (new : Annotation) :
    get (ps.foldl (fun new p => step p.2 new p.1) new)
      = (((ps.filter (fun p => p.1 = pos)).map (·.2)).foldl (eff mode orig) (get new)) := by
  induction ps generalizing new with
  | nil => rfl
  | cons p ps ih =>
    simp only [List.foldl_cons, ih, h]
    by_cases hp : p.1 = pos <;> simp [hp]

theorem fold_inv {β : Type} (f : Annotation → β) (step : List Mod → Annotation → Int → Annotation)
    (h : ∀ m new i, f (step m new i) = f new) (ps : List (Int × List Mod)) (new : Annotation) :
    f (ps.foldl (fun new p => step p.2 new p.1) new) = f new := by
  induction ps generalizing new with
  | nil => rfl
  | cons p ps ih => simp only [List.foldl_cons, ih, h]

theorem foldl_eff_append (mode : Mode) (orig : Option (List Mod)) (happ : orig = none ∨ mode = .append)
    (offs : List (List Mod)) (cur : Option (List Mod)) :
    offs.foldl (eff mode orig) cur = if offs = [] then cur else some (cur.getD [] ++ offs.flatten) := by
  induction offs generalizing cur with
  | nil => rfl
  | cons m ms ih =>
    have h1 : eff mode orig cur m = some (cur.getD [] ++ m) := by
      rcases happ with h | h <;> subst h <;> simp [eff]
    simp only [List.foldl_cons, ih, h1]
    by_cases hm : ms = [] <;> simp [hm]

theorem foldl_eff_skip (o : List Mod) (offs : List (List Mod)) (cur : Option (List Mod)) :
    offs.foldl (eff .skip (some o)) cur = cur := by
  induction offs generalizing cur with
  | nil => rfl
  | cons m ms ih => simp [ih, eff]

theorem foldl_eff_overwrite (o : List Mod) (offs : List (List Mod)) (cur : Option (List Mod)) :
    offs.foldl (eff .overwrite (some o)) cur = if offs = [] then cur else offs.getLast? := by
  induction offs generalizing cur with
  | nil => rfl
  | cons m ms ih =>
    simp only [List.foldl_cons, ih, eff, Option.isSome_some, if_true]
    by_cases hm : ms = []
    · subst hm; simp
    · cases ms with
      | nil => exact absurd rfl hm
      | cons x xs => simp [List.getLast?_cons_cons]

theorem foldl_eff_table (mode : Mode) (orig : Option (List Mod)) (offs : List (List Mod)) :
    offs.foldl (eff mode orig) orig = staticTable mode orig offs := by
  unfold staticTable
  cases orig with
  | none => rw [foldl_eff_append mode none (Or.inl rfl)]; simp
  | some o =>
    cases mode with
    | skip => rw [foldl_eff_skip]; simp
    | append => rw [foldl_eff_append .append (some o) (Or.inr rfl)]; simp
    | overwrite => rw [foldl_eff_overwrite]

theorem modsAt_staticInternalStep (a : Annotation) (mode : Mode) (j : Int) (m : List Mod) (new : Annotation) (i : Int) :
    modsAt (staticInternalStep a mode m new i) j
      = if i = j then eff mode (modsAt a j) (modsAt new j) m else modsAt new j := by
  unfold staticInternalStep hasInternalAt eff
  by_cases hij : i = j
  · subst hij
    cases h : (modsAt a i).isSome <;> cases mode <;> simp [h, modsAt_addInternal]
  · have hji : ¬ j = i := fun h => hij h.symm
    cases h : (modsAt a i).isSome <;> cases mode <;> simp [h, hij, hji, modsAt_addInternal]

theorem nterm_staticNtermStep (a : Annotation) (mode : Mode) (m : List Mod) (new : Annotation) (i : Int) :
    (staticNtermStep a mode m new i).nterm = if i = 0 then eff mode a.nterm new.nterm m else new.nterm := by
  unfold staticNtermStep eff addNterm
  by_cases hi : i = 0
  · cases h : a.nterm.isSome <;> cases mode <;> cases hn : new.nterm <;> simp [hi, h, hn]
  · simp [hi]

theorem cterm_staticCtermStep (a : Annotation) (mode : Mode) (m : List Mod) (new : Annotation) (i : Int) :
    (staticCtermStep a mode m new i).cterm
      = if i = (a.seq.length : Int) - 1 then eff mode a.cterm new.cterm m else new.cterm := by
  unfold staticCtermStep eff addCterm
  by_cases hi : i = (a.seq.length : Int) - 1
  · cases h : a.cterm.isSome <;> cases mode <;> cases hn : new.cterm <;> simp [hi, h, hn]
  · simp [hi]

theorem staticInternalStep_others (a : Annotation) (mode : Mode) (m : List Mod) (new : Annotation) (i : Int) :
    FrameI (staticInternalStep a mode m new i) new := by
  unfold staticInternalStep
  split
  · cases mode <;> rfl
  · rfl

theorem staticNtermStep_others (a : Annotation) (mode : Mode) (m : List Mod) (new : Annotation) (i : Int) :
    { staticNtermStep a mode m new i with nterm := none } = { new with nterm := none } := by
  unfold staticNtermStep addNterm
  split
  · split
    · cases mode <;> cases new.nterm <;> rfl
    · cases new.nterm <;> rfl
  · rfl

theorem staticCtermStep_others (a : Annotation) (mode : Mode) (m : List Mod) (new : Annotation) (i : Int) :
    { staticCtermStep a mode m new i with cterm := none } = { new with cterm := none } := by
  unfold staticCtermStep addCterm
  split
  · split
    · cases mode <;> cases new.cterm <;> rfl
    · cases new.cterm <;> rfl
  · rfl

theorem applyStaticCore_spec (a : Annotation) (internal nterm cterm : List (Rule (List Mod))) (mode : Mode) :
    StaticSpec a (applyStaticCore a internal nterm cterm mode) internal nterm cterm mode := by
  unfold applyStaticCore
  simp only [runRules_eq]
  generalize hr1 : (steps (dropEmpty internal)).foldl
    (fun new p => staticInternalStep a mode p.2 new p.1) a = r1
  generalize hr2 : (steps (dropEmpty nterm)).foldl (fun new p => staticNtermStep a mode p.2 new p.1) r1 = r2
  generalize hr3 : (steps (dropEmpty cterm)).foldl (fun new p => staticCtermStep a mode p.2 new p.1) r2 = r3
  -- what each phase keeps
  have k1 : FrameI r1 a := by
    rw [← hr1]
    exact fold_inv (fun x => ({ x with internal := none } : Annotation)) _
      (fun m new i => staticInternalStep_others a mode m new i) _ _
  have k2 : ({ r2 with nterm := none } : Annotation) = { r1 with nterm := none } := by
    rw [← hr2]
    exact fold_inv (fun x => ({ x with nterm := none } : Annotation)) _
      (fun m new i => staticNtermStep_others a mode m new i) _ _
  have k3 : ({ r3 with cterm := none } : Annotation) = { r2 with cterm := none } := by
    rw [← hr3]
    exact fold_inv (fun x => ({ x with cterm := none } : Annotation)) _
      (fun m new i => staticCtermStep_others a mode m new i) _ _
  have i32 : r3.internal = r2.internal := by simpa using congrArg Annotation.internal k3
  have i21 : r2.internal = r1.internal := by simpa using congrArg Annotation.internal k2
  have n32 : r3.nterm = r2.nterm := by simpa using congrArg Annotation.nterm k3
  have c21 : r2.cterm = r1.cterm := by simpa using congrArg Annotation.cterm k2
  refine ⟨?_, ?_, ?_, ?_⟩
  · intro j
    have : modsAt r3 j = modsAt r1 j := by unfold modsAt imods; rw [i32, i21]
    rw [this, ← hr1, staticOffers_eq]
    rw [fold_get (fun x => modsAt x j) (staticInternalStep a mode) j mode (modsAt a j)
      (fun m new i => modsAt_staticInternalStep a mode j m new i)]
    exact foldl_eff_table ..
  · rw [n32, ← hr2, staticOffers_eq]
    rw [fold_get Annotation.nterm (staticNtermStep a mode) 0 mode a.nterm
      (fun m new i => nterm_staticNtermStep a mode m new i)]
    rw [k1.nterm]
    exact foldl_eff_table ..
  · rw [← hr3, staticOffers_eq]
    rw [fold_get Annotation.cterm (staticCtermStep a mode) ((a.seq.length : Int) - 1) mode a.cterm
      (fun m new i => cterm_staticCtermStep a mode m new i)]
    rw [c21, k1.cterm]
    exact foldl_eff_table ..
  · have e3 := congrArg (fun y : Annotation => ({ y with internal := none, nterm := none } : Annotation)) k3
    have e2 := congrArg (fun y : Annotation => ({ y with internal := none, cterm := none } : Annotation)) k2
    have e1 := congrArg (fun y : Annotation => ({ y with nterm := none, cterm := none } : Annotation)) k1
    simp only at e1 e2 e3
    calc ({ r3 with internal := none, nterm := none, cterm := none } : Annotation)
        = { r2 with internal := none, nterm := none, cterm := none } := e3
      _ = { r1 with internal := none, nterm := none, cterm := none } := e2
      _ = { a with internal := none, nterm := none, cterm := none } := e1

/-! ### idempotence of static rules in mode skip -/

theorem foldl_noop {α β : Type} (f : β → α → β) (ps : List α) (h : ∀ p ∈ ps, ∀ b, f b p = b) (b : β) :
    ps.foldl f b = b := by
  induction ps generalizing b with
  | nil => rfl
  | cons p ps ih =>
    simp only [List.foldl_cons, h p (List.mem_cons_self ..)]
    exact ih (fun q hq => h q (List.mem_cons_of_mem _ hq)) b

theorem mem_staticOffers_of_mem_steps (rules : List (Rule (List Mod))) (p : Int × List Mod)
    (hp : p ∈ steps (dropEmpty rules)) : p.2 ∈ staticOffers rules p.1 := by
  rw [staticOffers_eq]
  exact List.mem_map.mpr ⟨p, List.mem_filter.mpr ⟨hp, by simp⟩, rfl⟩

theorem staticTable_skip_isSome (old : Option (List Mod)) (offs : List (List Mod)) (h : offs ≠ []) :
    (staticTable .skip old offs).isSome = true := by
  unfold staticTable
  cases old <;> simp [h]

theorem applyStaticCore_skip_idem (a : Annotation) (internal nterm cterm : List (Rule (List Mod))) :
    applyStaticCore (applyStaticCore a internal nterm cterm .skip) internal nterm cterm .skip
      = applyStaticCore a internal nterm cterm .skip := by
  have sp := applyStaticCore_spec a internal nterm cterm .skip
  generalize applyStaticCore a internal nterm cterm .skip = r at sp ⊢
  have hseq : r.seq = a.seq := by simpa using congrArg Annotation.seq sp.rest
  unfold applyStaticCore
  simp only [runRules_eq]
  rw [foldl_noop _ (steps (dropEmpty internal)), foldl_noop _ (steps (dropEmpty nterm)),
    foldl_noop _ (steps (dropEmpty cterm))]
  · intro p hp new
    unfold staticCtermStep
    split
    · rename_i hi
      have hne : staticOffers cterm p.1 ≠ [] := List.ne_nil_of_mem (mem_staticOffers_of_mem_steps _ p hp)
      rw [hseq] at hi
      have : r.cterm.isSome = true := by
        rw [sp.cterm, ← hi]; exact staticTable_skip_isSome _ _ hne
      simp [this]
    · rfl
  · intro p hp new
    unfold staticNtermStep
    split
    · rename_i hi
      have hne : staticOffers nterm p.1 ≠ [] := List.ne_nil_of_mem (mem_staticOffers_of_mem_steps _ p hp)
      have : r.nterm.isSome = true := by
        rw [sp.nterm, ← hi]; exact staticTable_skip_isSome _ _ hne
      simp [this]
    · rfl
  · intro p hp new
    unfold staticInternalStep hasInternalAt
    have hne : staticOffers internal p.1 ≠ [] := List.ne_nil_of_mem (mem_staticOffers_of_mem_steps _ p hp)
    have : (modsAt r p.1).isSome = true := by
      rw [sp.residues]; exact staticTable_skip_isSome _ _ hne
    simp [this]

/-! ### the recursion `_apply_variable_mods_rec` -/

theorem varStep_eq_none {mode : Mode} {a : Annotation} {i : Int} {g : Group} :
    varStep mode a i g = none ↔ mode = .skip ∧ (modsAt a i).isSome = true := by
  unfold varStep hasInternalAt
  cases h : (modsAt a i).isSome <;> cases mode <;> simp [h]

theorem varStep_some {mode : Mode} {a a' : Annotation} {i : Int} {g : Group} (h : varStep mode a i g = some a') :
    FrameI a' a ∧ ¬(mode = .skip ∧ (modsAt a i).isSome = true) ∧
    (∀ j, modsAt a' j = if j = i then some (newVal mode (modsAt a i) g) else modsAt a j) ∧
    countModified a' = countModified a + (if (modsAt a i).isSome then 0 else 1) ∧
    (modsAt a i = none → a' = { a with internal := some (imods a ++ [(i, g)]) }) := by
  unfold varStep hasInternalAt at h
  cases hm : modsAt a i with
  | none =>
    simp only [hm, Option.isSome_none, Bool.false_eq_true, if_false, Option.some.injEq] at h
    subst h
    have hx : extendKey (imods a) i g = imods a ++ [(i, g)] := extendKey_of_lookup_none _ _ _ hm
    refine ⟨rfl, by simp, ?_, ?_, ?_⟩
    · intro j; rw [modsAt_addInternal]; simp [hm, newVal]
    · simp [countModified, hx]
    · intro _; simp [addInternal, hx]
  | some o =>
    simp only [hm, Option.isSome_some, if_true] at h
    have hlen : ∀ v, (setKey (imods a) i v).length = (imods a).length ∧
        (extendKey (imods a) i v).length = (imods a).length := by
      intro v
      have hm' : lookup (imods a) i = some o := hm
      generalize imods a = l at hm'
      induction l with
      | nil => simp [lookup] at hm'
      | cons p r ih =>
        obtain ⟨k, w⟩ := p
        simp only [lookup] at hm'
        by_cases hk : k = i
        · simp [setKey, extendKey, hk]
        · simp only [hk, if_false] at hm'
          simp [setKey, extendKey, hk, ih hm']
    cases mode with
    | skip => simp at h
    | append =>
      simp only [Option.some.injEq] at h; subst h
      refine ⟨rfl, by simp, ?_, ?_, by simp⟩
      · intro j; rw [modsAt_addInternal]; simp [hm, newVal]
      · simp [countModified, (hlen g).2]
    | overwrite =>
      simp only [Option.some.injEq] at h; subst h
      refine ⟨rfl, by simp, ?_, ?_, by simp⟩
      · intro j; rw [modsAt_addInternal]; simp [newVal]
      · simp [countModified, (hlen g).1]

/-- soundness: what any yielded form looks like -/
theorem varRec_sound (m : ModMap) (mode : Mode) (mc : Int) :
    ∀ (rem idx : Nat) (a x : Annotation), x ∈ varRec m mode mc rem idx a →
      FrameI x a ∧ ∀ j : Int, modsAt x j = modsAt a j ∨
        ((idx : Int) ≤ j ∧ j < (idx : Int) + rem ∧ ∃ gs g, mapGet m j = some gs ∧ g ∈ gs ∧
          ¬(mode = .skip ∧ (modsAt a j).isSome = true) ∧ modsAt x j = some (newVal mode (modsAt a j) g)) := by
  intro rem
  induction rem with
  | zero =>
    intro idx a x hx
    simp only [varRec, List.mem_singleton] at hx
    subst hx; exact ⟨rfl, fun j => Or.inl rfl⟩
  | succ rem ih =>
    intro idx a x hx
    unfold varRec at hx
    split at hx
    · simp only [List.mem_singleton] at hx
      subst hx; exact ⟨rfl, fun j => Or.inl rfl⟩
    · rcases List.mem_append.mp hx with hx | hx
      · cases hm : mapGet m (idx : Int) with
        | none => simp [hm] at hx
        | some gs =>
          simp only [hm, List.mem_flatMap] at hx
          obtain ⟨g, hg, hx⟩ := hx
          cases hv : varStep mode a (idx : Int) g with
          | none => simp [hv] at hx
          | some a' =>
            simp only [hv] at hx
            obtain ⟨hf, hj⟩ := ih (idx + 1) a' x hx
            obtain ⟨hfa, hns, hmods, -, -⟩ := varStep_some hv
            refine ⟨hf.trans hfa, fun j => ?_⟩
            by_cases hji : j = (idx : Int)
            · subst hji
              rcases hj (idx : Int) with h | h
              · right
                refine ⟨by omega, by omega, gs, g, hm, hg, hns, ?_⟩
                rw [h, hmods]; simp
              · omega
            · have hsame : modsAt a' j = modsAt a j := by rw [hmods]; simp [hji]
              rcases hj j with h | ⟨h1, h2, gs', g', h3, h4, h5, h6⟩
              · left; rw [h, hsame]
              · right
                refine ⟨by omega, by omega, gs', g', h3, h4, ?_, ?_⟩
                · rw [← hsame]; exact h5
                · rw [← hsame]; exact h6
      · obtain ⟨hf, hj⟩ := ih (idx + 1) a x hx
        refine ⟨hf, fun j => ?_⟩
        rcases hj j with h | ⟨h1, h2, rest⟩
        · exact Or.inl h
        · exact Or.inr ⟨by omega, by omega, rest⟩

/-- the input form is always yielded -/
theorem varRec_mem_self (m : ModMap) (mode : Mode) (mc : Int) :
    ∀ (rem idx : Nat) (a : Annotation), a ∈ varRec m mode mc rem idx a := by
  intro rem
  induction rem with
  | zero => intro idx a; simp [varRec]
  | succ rem ih =>
    intro idx a
    unfold varRec
    split
    · simp
    · exact List.mem_append_right _ (ih _ _)

/-- below the current index nothing changes any more -/
theorem varRec_below (m : ModMap) (mode : Mode) (mc : Int) (rem idx : Nat) (a x : Annotation)
    (hx : x ∈ varRec m mode mc rem idx a) (j : Int) (hj : j < (idx : Int)) : modsAt x j = modsAt a j := by
  rcases (varRec_sound m mode mc rem idx a x hx).2 j with h | h
  · exact h
  · omega

theorem flatMap_const_nil {α β : Type} (l : List α) : l.flatMap (fun _ => ([] : List β)) = [] := by
  induction l with
  | nil => rfl
  | cons x xs ih => simp [ih]

theorem varRec_nodup (m : ModMap) (mode : Mode) (mc : Int) :
    ∀ (rem idx : Nat) (a : Annotation),
      (∀ (j : Int) gs, (idx : Int) ≤ j → j < (idx : Int) + rem → mapGet m j = some gs → SiteOK mode (modsAt a j) gs) →
      (varRec m mode mc rem idx a).Nodup := by
  intro rem
  induction rem with
  | zero => intro idx a _; simp [varRec]
  | succ rem ih =>
    intro idx a hok
    unfold varRec
    split
    · simp
    · have hex : (varRec m mode mc rem (idx + 1) a).Nodup :=
        ih (idx + 1) a (fun j gs h1 h2 h3 => hok j gs (by omega) (by omega) h3)
      cases hm : mapGet m (idx : Int) with
      | none => simpa [hm] using hex
      | some gs =>
        simp only [hm]
        have hsite := hok (idx : Int) gs (by omega) (by omega) hm
        -- every form of the include branch for `g` shows the new value at `idx`
        have hinc : ∀ g a' x, varStep mode a (idx : Int) g = some a' → x ∈ varRec m mode mc rem (idx + 1) a' →
            modsAt x (idx : Int) = some (newVal mode (modsAt a (idx : Int)) g) := by
          intro g a' x hv hx
          rw [varRec_below m mode mc rem (idx + 1) a' x hx (idx : Int) (by omega)]
          rw [(varStep_some hv).2.2.1]; simp
        rcases hsite with ⟨hsk, hsome⟩ | ⟨hnd, hne⟩
        · -- skip mode at a modified site: nothing is offered
          have : ∀ g, varStep mode a (idx : Int) g = none := fun g => varStep_eq_none.mpr ⟨hsk, hsome⟩
          simpa [this, flatMap_const_nil] using hex
        · refine List.nodup_append.mpr ⟨?_, hex, ?_⟩
          · rw [List.nodup_flatMap]
            refine ⟨?_, ?_⟩
            · intro g _
              cases hv : varStep mode a (idx : Int) g with
              | none => simp
              | some a' =>
                simp only
                refine ih (idx + 1) a' (fun j gs' h1 h2 h3 => ?_)
                have : modsAt a' j = modsAt a j := by
                  rw [(varStep_some hv).2.2.1]; simp; intro h; omega
                rw [this]; exact hok j gs' (by omega) (by omega) h3
            · have hp : gs.Pairwise (fun g g' => newVal mode (modsAt a (idx : Int)) g ≠ newVal mode (modsAt a (idx : Int)) g') :=
                List.pairwise_map.mp hnd
              refine hp.imp ?_
              intro g g' hgg
              simp only [Function.onFun]
              intro x hx hx'
              cases hv : varStep mode a (idx : Int) g with
              | none => simp [hv] at hx
              | some a₁ =>
                cases hv' : varStep mode a (idx : Int) g' with
                | none => simp [hv'] at hx'
                | some a₂ =>
                  simp only [hv] at hx
                  simp only [hv'] at hx'
                  have e1 := hinc g a₁ x hv hx
                  have e2 := hinc g' a₂ x hv' hx'
                  rw [e1] at e2
                  exact hgg (Option.some.inj e2)
          · intro x hx y hx' hxy
            subst hxy
            simp only [List.mem_flatMap] at hx
            obtain ⟨g, hg, hx⟩ := hx
            cases hv : varStep mode a (idx : Int) g with
            | none => simp [hv] at hx
            | some a₁ =>
              simp only [hv] at hx
              have e1 := hinc g a₁ x hv hx
              have e2 := varRec_below m mode mc rem (idx + 1) a x hx' (idx : Int) (by omega)
              rw [e1] at e2
              exact hne g hg e2

/-! ### mode skip: the recursion is the bounded subset enumeration -/

/-- eligible sites seen by the recursion from `idx` on -/
def elig (m : ModMap) (a : Annotation) : (rem idx : Nat) → List (Int × List Group)
  | 0, _ => []
  | rem + 1, idx =>
    (match mapGet m (idx : Int), modsAt a (idx : Int) with
      | some gs, none => [((idx : Int), gs)]
      | _, _ => []) ++ elig m a rem (idx + 1)

/-- choices of at most `k` sites, one group each, in the order of the recursion -/
def enum : List (Int × List Group) → Nat → List (List (Int × Group))
  | [], _ => [[]]
  | _ :: _, 0 => [[]]
  | (i, gs) :: E, k + 1 => (gs.flatMap fun g => (enum E k).map ((i, g) :: ·)) ++ enum E (k + 1)

theorem enum_zero (E : List (Int × List Group)) : enum E 0 = [[]] := by
  cases E <;> rfl

theorem elig_congr (m : ModMap) (a a' : Annotation) :
    ∀ (rem idx : Nat), (∀ j : Int, (idx : Int) ≤ j → modsAt a' j = modsAt a j) → elig m a' rem idx = elig m a rem idx := by
  intro rem
  induction rem with
  | zero => intros; rfl
  | succ rem ih =>
    intro idx h
    simp only [elig]
    rw [h (idx : Int) (by omega), ih (idx + 1) (fun j hj => h j (by omega))]

theorem withChoice_cons (a a' : Annotation) (i : Int) (g : Group)
    (h : a' = { a with internal := some (imods a ++ [(i, g)]) }) (T : List (Int × Group)) :
    withChoice a' T = withChoice a ((i, g) :: T) := by
  subst h
  unfold withChoice
  by_cases hT : T = []
  · subst hT; simp
  · simp [hT, imods]

theorem varRec_skip_eq (m : ModMap) (mc : Int) :
    ∀ (rem idx : Nat) (a : Annotation) (k : Nat), (countModified a : Int) + k = mc →
      varRec m .skip mc rem idx a = (enum (elig m a rem idx) k).map (withChoice a) := by
  intro rem
  induction rem with
  | zero => intro idx a k _; simp [varRec, elig, enum, withChoice]
  | succ rem ih =>
    intro idx a k hk
    unfold varRec
    cases k with
    | zero =>
      have : (countModified a : Int) = mc := by omega
      simp [this, enum_zero, withChoice]
    | succ k =>
      have hne : ¬ (countModified a : Int) = mc := by omega
      simp only [hne, if_false]
      have hex := ih (idx + 1) a (k + 1) hk
      cases hm : mapGet m (idx : Int) with
      | none => simp only [hm, elig, List.nil_append, hex]
      | some gs =>
        cases ho : modsAt a (idx : Int) with
        | some o =>
          have : ∀ g, varStep .skip a (idx : Int) g = none := fun g => varStep_eq_none.mpr ⟨rfl, by simp [ho]⟩
          simp only [hm, ho, elig, this, flatMap_const_nil, List.nil_append, hex]
        | none =>
          simp only [hm, ho, elig, List.singleton_append, enum, List.map_append, hex]
          congr 1
          rw [List.map_flatMap]
          refine List.flatMap_congr ?_   -- per group
          intro g _
          have hv : varStep .skip a (idx : Int) g = some (addInternal a (idx : Int) g true) := by
            simp [varStep, hasInternalAt, ho]
          obtain ⟨-, -, hmods, hcnt, heq⟩ := varStep_some hv
          simp only [hv]
          rw [ih (idx + 1) _ k (by rw [hcnt]; simp [ho]; omega)]
          rw [elig_congr m a _ rem (idx + 1) (fun j hj => by rw [hmods]; simp; intro h; omega)]
          rw [List.map_map]
          refine List.map_congr_left ?_
          intro T _
          exact withChoice_cons a _ (idx : Int) g (heq ho) T

/-! #### the enumeration of the recursion is the filtered power set with one group per site -/

theorem flatMap_swap {α β γ : Type} (l : List α) (m : List β) (f : α → β → List γ) :
    (l.flatMap fun a => m.flatMap fun b => f a b).Perm (m.flatMap fun b => l.flatMap fun a => f a b) := by
  induction l with
  | nil => simp [flatMap_const_nil]
  | cons a l ih =>
    simp only [List.flatMap_cons]
    exact (List.Perm.append_left _ ih).trans (List.flatMap_append_perm m (f a) fun b => l.flatMap fun a => f a b)

theorem filter_len_zero_sublists {α : Type} (E : List α) :
    (sublists E).filter (fun S => (S.length : Int) ≤ ((0 : Nat) : Int)) = [[]] := by
  induction E with
  | nil => simp [sublists]
  | cons x r ih =>
    simp only [sublists, List.filter_append, ih]
    have : ((sublists r).map (x :: ·)).filter (fun S => (S.length : Int) ≤ ((0 : Nat) : Int)) = [] := by
      rw [List.filter_eq_nil_iff]
      intro S hS
      obtain ⟨S', -, rfl⟩ := List.mem_map.mp hS
      simp
    simp [this]

theorem enum_perm (E : List (Int × List Group)) (k : Nat) :
    (enum E k).Perm (((sublists E).filter fun S => (S.length : Int) ≤ (k : Int)).flatMap assignments) := by
  induction E generalizing k with
  | nil => simp [enum, sublists, assignments]
  | cons p E ih =>
    obtain ⟨i, gs⟩ := p
    cases k with
    | zero => rw [enum_zero, filter_len_zero_sublists]; simp [assignments]
    | succ k =>
      simp only [enum, sublists, List.filter_append, List.flatMap_append]
      refine List.Perm.append ?_ (ih (k + 1))
      -- the sub-lists that contain the head site
      have hf : ((sublists E).map ((i, gs) :: ·)).filter (fun S => (S.length : Int) ≤ ((k + 1 : Nat) : Int))
          = ((sublists E).filter fun S => (S.length : Int) ≤ (k : Int)).map ((i, gs) :: ·) := by
        rw [List.filter_map]
        congr 1
        refine List.filter_congr ?_
        intro S _
        simp only [Function.comp, List.length_cons, decide_eq_decide]
        omega
      rw [hf, List.flatMap_map]
      simp only [assignments]
      refine List.Perm.trans ?_ (flatMap_swap gs _ _)
      refine List.Perm.flatMap_left _ ?_    -- per group
      intro g _
      rw [← List.map_flatMap]
      exact (ih k).map _

/-! #### `new_mod_map` holds the offered groups -/

def mget (m : ModMap) (j : Int) : List Group := (mapGet m j).getD []

/-- no key maps to an empty list -/
def NE (m : ModMap) : Prop := ∀ j, mapGet m j ≠ some []

theorem mapGet_mapPush (m : ModMap) (i j : Int) (g : Group) :
    mapGet (mapPush m i g) j = if j = i then some (mget m i ++ [g]) else mapGet m j := by
  unfold mget
  induction m with
  | nil => simp only [mapPush, mapGet]; split <;> simp_all <;> omega
  | cons p r ih =>
    obtain ⟨k, w⟩ := p
    simp only [mapPush]
    split
    · subst_vars; simp only [mapGet]; split <;> simp_all <;> omega
    · simp only [mapGet, ih]; split <;> simp_all

theorem mapGet_of_NE (m : ModMap) (h : NE m) (j : Int) :
    mapGet m j = if mget m j = [] then none else some (mget m j) := by
  unfold mget
  cases hm : mapGet m j with
  | none => simp
  | some v =>
    have : v ≠ [] := fun hv => h j (by rw [hm, hv])
    simp [this]

theorem push_groups (i : Int) (gs : List Group) (m : ModMap) (hne : NE m) :
    NE (gs.foldl (fun m g => mapPush m i g) m) ∧
    ∀ j, mget (gs.foldl (fun m g => mapPush m i g) m) j = if j = i then mget m i ++ gs else mget m j := by
  induction gs generalizing m with
  | nil => exact ⟨hne, fun j => by by_cases h : j = i <;> simp [h]⟩
  | cons g gs ih =>
    have hne1 : NE (mapPush m i g) := by
      intro j; rw [mapGet_mapPush]; split
      · simp
      · exact hne j
    have hget1 : ∀ j, mget (mapPush m i g) j = if j = i then mget m i ++ [g] else mget m j := by
      intro j; unfold mget; rw [mapGet_mapPush]; split <;> simp [mget]
    obtain ⟨h1, h2⟩ := ih (mapPush m i g) hne1
    refine ⟨h1, fun j => ?_⟩
    simp only [List.foldl_cons]
    rw [h2 j, hget1 j, hget1 i]
    by_cases h : j = i <;> simp [h]

theorem push_sites (gs : List Group) (sites : List Int) (hnd : sites.Nodup) (m : ModMap) (hne : NE m) :
    NE (sites.foldl (fun m i => gs.foldl (fun m g => mapPush m i g) m) m) ∧
    ∀ j, mget (sites.foldl (fun m i => gs.foldl (fun m g => mapPush m i g) m) m) j
      = if j ∈ sites then mget m j ++ gs else mget m j := by
  induction sites generalizing m with
  | nil => exact ⟨hne, fun j => by simp⟩
  | cons i sites ih =>
    obtain ⟨hni, hnd'⟩ := List.nodup_cons.mp hnd
    obtain ⟨h1, h2⟩ := push_groups i gs m hne
    obtain ⟨h3, h4⟩ := ih hnd' _ h1
    refine ⟨h3, fun j => ?_⟩
    simp only [List.foldl_cons]
    rw [h4 j, h2 j]
    by_cases hji : j = i
    · subst hji; simp [hni]
    · simp [hji]

theorem push_rules (rules : List (Rule (List Group))) (hnd : ∀ r ∈ rules, r.1.Nodup) (m : ModMap) (hne : NE m) :
    NE (rules.foldl (fun m r => r.1.foldl (fun m i => r.2.foldl (fun m g => mapPush m i g) m) m) m) ∧
    ∀ j, mget (rules.foldl (fun m r => r.1.foldl (fun m i => r.2.foldl (fun m g => mapPush m i g) m) m) m) j
      = mget m j ++ offered rules j := by
  induction rules generalizing m with
  | nil => exact ⟨hne, fun j => by simp [offered]⟩
  | cons r rules ih =>
    obtain ⟨h1, h2⟩ := push_sites r.2 r.1 (hnd r (List.mem_cons_self ..)) m hne
    obtain ⟨h3, h4⟩ := ih (fun r' hr' => hnd r' (List.mem_cons_of_mem _ hr')) _ h1
    refine ⟨h3, fun j => ?_⟩
    simp only [List.foldl_cons]
    rw [h4 j, h2 j]
    simp only [offered, List.flatMap_cons]
    by_cases hj : j ∈ r.1 <;> simp [hj]

theorem mapGet_buildModMap (rules : List (Rule (List Group))) (hnd : ∀ r ∈ rules, r.1.Nodup) (j : Int) :
    mapGet (buildModMap rules) j = if offered rules j = [] then none else some (offered rules j) := by
  obtain ⟨h1, h2⟩ := push_rules rules hnd [] (fun j => by simp [mapGet])
  unfold buildModMap
  rw [mapGet_of_NE _ h1, h2]
  by_cases h : offered rules j = [] <;> simp [mget, mapGet, h]

theorem elig_eq_filterMap (m : ModMap) (a : Annotation) :
    ∀ (rem idx : Nat), elig m a rem idx = (List.range' idx rem).filterMap fun (i : Nat) =>
      match mapGet m (i : Int), modsAt a (i : Int) with
      | some gs, none => some ((i : Int), gs)
      | _, _ => none := by
  intro rem
  induction rem with
  | zero => intro idx; rfl
  | succ rem ih =>
    intro idx
    simp only [elig, List.range'_succ, List.filterMap_cons, ih]
    cases mapGet m (idx : Int) <;> cases modsAt a (idx : Int) <;> simp

theorem elig_buildModMap (a : Annotation) (rules : List (Rule (List Group))) (hnd : ∀ r ∈ rules, r.1.Nodup) :
    elig (buildModMap rules) a a.seq.length 0 = eligible a rules := by
  rw [elig_eq_filterMap, eligible, List.range_eq_range']
  refine List.filterMap_congr ?_
  intro i _
  rw [mapGet_buildModMap rules hnd]
  by_cases ho : offered rules (i : Int) = [] <;> cases hm : modsAt a (i : Int) <;> simp [ho, hm]

/-- **mode skip, residues**: `_variable_mods_builder` yields exactly the forms of the subset enumeration, each as often -/
theorem variableBuilder_skip_perm (a : Annotation) (rules : List (Rule (List Group))) (maxMods : Int)
    (h0 : 0 ≤ maxMods) (hnd : ∀ r ∈ rules, r.1.Nodup) :
    (variableBuilder a rules maxMods .skip).Perm (internalForms a rules maxMods) := by
  unfold variableBuilder internalForms
  obtain ⟨k, rfl⟩ := Int.eq_ofNat_of_zero_le h0
  rw [varRec_skip_eq _ _ _ _ a k (by omega), elig_buildModMap a rules hnd]
  exact (enum_perm _ k).map _

/-! ### terminal variants -/

theorem nWith_eq (mode : Mode) (a : Annotation) (p : Rule Group) :
    nWith mode a p = { a with nterm := staticTable mode a.nterm (staticOffers [p] 0) } := by
  have sp := applyStaticCore_spec a [] [p] [] mode
  unfold nWith
  generalize hr : applyStaticCore a [] [p] [] mode = r at sp
  have h2 : r.nterm = staticTable mode a.nterm (staticOffers [p] 0) := sp.nterm
  have h1 : ({ r with nterm := none } : Annotation) = { a with nterm := none } := by
    rw [← hr]; unfold applyStaticCore
    simp only [runRules_eq, dropEmpty, List.filter_nil, steps, List.flatMap_nil, List.foldl_nil]
    exact fold_inv (fun x => ({ x with nterm := none } : Annotation)) _
      (fun m new i => staticNtermStep_others a mode m new i) _ _
  rw [← h2]
  cases r; cases a; simp only [Annotation.mk.injEq] at h1 ⊢
  simp_all

theorem cWith_eq (mode : Mode) (a : Annotation) (p : Rule Group) :
    cWith mode a p = { a with cterm := staticTable mode a.cterm (staticOffers [p] ((a.seq.length : Int) - 1)) } := by
  have sp := applyStaticCore_spec a [] [] [p] mode
  unfold cWith
  generalize hr : applyStaticCore a [] [] [p] mode = r at sp
  have h2 : r.cterm = staticTable mode a.cterm (staticOffers [p] ((a.seq.length : Int) - 1)) := sp.cterm
  have h1 : ({ r with cterm := none } : Annotation) = { a with cterm := none } := by
    rw [← hr]; unfold applyStaticCore
    simp only [runRules_eq, dropEmpty, List.filter_nil, steps, List.flatMap_nil, List.foldl_nil]
    exact fold_inv (fun x => ({ x with cterm := none } : Annotation)) _
      (fun m new i => staticCtermStep_others a mode m new i) _ _
  rw [← h2]
  cases r; cases a; simp only [Annotation.mk.injEq] at h1 ⊢
  simp_all

theorem isPerm_refl {α : Type} [BEq α] (hr : ∀ x : α, (x == x) = true) (l : List α) : l.isPerm l = true := by
  induction l with
  | nil => rfl
  | cons x l ih =>
    simp only [List.isPerm, Bool.and_eq_true]
    refine ⟨?_, ?_⟩
    · simp only [List.contains_cons, hr, Bool.true_or]
    · simp only [List.erase_cons, hr, if_true]; exact ih

theorem modsEq_refl (x : Option (List Mod)) : modsEq x x = true := by
  cases x with
  | none => rfl
  | some l => exact isPerm_refl (fun m => by simp) l

theorem intervalsEq_refl (x : Option (List Interval)) : intervalsEq x x = true := by
  cases x with
  | none => rfl
  | some l =>
    simp only [intervalsEq, beq_self_eq_true, Bool.true_and]
    refine isPerm_refl (fun iv => ?_) l
    show intervalEq iv iv = true
    simp [intervalEq, modsEq_refl]

theorem annotEq_nterm (a : Annotation) (v : Option (List Mod)) :
    annotEq { a with nterm := v } a = modsEq v a.nterm := by
  unfold annotEq
  simp only [modsEq_refl, intervalsEq_refl, beq_self_eq_true, Bool.true_and, Bool.and_true]
  have : (((imods { a with nterm := v }).map (·.1) ++ (imods a).map (·.1)).all fun k =>
      modsEq (modsAt { a with nterm := v } k) (modsAt a k)) = true := by
    rw [List.all_eq_true]; intro k _; exact modsEq_refl _
  simp [this]

theorem annotEq_cterm (a : Annotation) (v : Option (List Mod)) :
    annotEq { a with cterm := v } a = modsEq v a.cterm := by
  unfold annotEq
  simp only [modsEq_refl, intervalsEq_refl, beq_self_eq_true, Bool.true_and, Bool.and_true]
  have : (((imods { a with cterm := v }).map (·.1) ++ (imods a).map (·.1)).all fun k =>
      modsEq (modsAt { a with cterm := v } k) (modsAt a k)) = true := by
    rw [List.all_eq_true]; intro k _; exact modsEq_refl _
  simp [this]

/-- the bases (terminal variants without residue mods) in the order in which `apply_variable_mods` expands them -/
def variantBases (mode : Mode) (a : Annotation) (nt ct : List (Rule (List Group))) : List Annotation :=
  nBases mode a nt ++
    (((termPairs ct).flatMap fun p =>
        ((nBases mode a nt).filterMap fun nb => if annotEq (cWith mode nb p) nb then none else some (cWith mode nb p))
        ++ (if annotEq (cWith mode a p) a then [] else [cWith mode a p]))
      ++ [a])

theorem flatMap_filterMap' {α β γ : Type} (l : List α) (f : α → Option β) (g : β → List γ) :
    (l.filterMap f).flatMap g = l.flatMap fun x => match f x with | some y => g y | none => [] := by
  induction l with
  | nil => rfl
  | cons x l ih =>
    simp only [List.filterMap_cons, List.flatMap_cons]
    cases f x <;> simp [ih]

theorem applyVariableCore_eq (a : Annotation) (internal nt ct : List (Rule (List Group))) (maxMods : Int) (mode : Mode) :
    applyVariableCore a internal nt ct maxMods mode
      = (variantBases mode a nt ct).flatMap fun b => variableBuilder b internal maxMods mode := by
  unfold applyVariableCore variantBases
  simp only [List.flatMap_append, List.flatMap_cons, List.flatMap_nil, List.append_nil]
  congr 2
  rw [List.flatMap_assoc]
  refine List.flatMap_congr ?_
  intro p _
  rw [List.flatMap_append, flatMap_filterMap']
  congr 1
  · refine List.flatMap_congr ?_
    intro nb _
    split <;> simp_all
  · split <;> simp

theorem mem_nBases {mode : Mode} {a b : Annotation} {nt : List (Rule (List Group))} (h : b ∈ nBases mode a nt) :
    ∃ p ∈ termPairs nt, b = { a with nterm := staticTable mode a.nterm (staticOffers [p] 0) } ∧
      annotEq b a = false := by
  unfold nBases at h
  obtain ⟨p, hp, hb⟩ := List.mem_filterMap.mp h
  refine ⟨p, hp, ?_⟩
  simp only at hb
  split at hb
  · simp at hb
  · simp only [Option.some.injEq] at hb
    subst hb
    rename_i hne
    exact ⟨nWith_eq mode a p, by simpa using hne⟩

/-- every base is the input with (possibly) new terminal states taken from a matching terminal rule -/
theorem mem_variantBases {mode : Mode} {a b : Annotation} {nt ct : List (Rule (List Group))}
    (h : b ∈ variantBases mode a nt ct) :
    ∃ vn vc, b = { a with nterm := vn, cterm := vc } ∧
      (vn = a.nterm ∨ ∃ p ∈ termPairs nt, vn = staticTable mode a.nterm (staticOffers [p] 0)) ∧
      (vc = a.cterm ∨ ∃ p ∈ termPairs ct,
        vc = staticTable mode a.cterm (staticOffers [p] ((a.seq.length : Int) - 1))) := by
  unfold variantBases at h
  rcases List.mem_append.mp h with h | h
  · obtain ⟨p, hp, rfl, -⟩ := mem_nBases h
    exact ⟨_, a.cterm, rfl, Or.inr ⟨p, hp, rfl⟩, Or.inl rfl⟩
  · rcases List.mem_append.mp h with h | h
    · obtain ⟨p', hp', h⟩ := List.mem_flatMap.mp h
      rcases List.mem_append.mp h with h | h
      · obtain ⟨nb, hnb, hb⟩ := List.mem_filterMap.mp h
        obtain ⟨p, hp, rfl, -⟩ := mem_nBases hnb
        split at hb
        · simp at hb
        · simp only [Option.some.injEq] at hb
          subst hb
          rw [cWith_eq]
          exact ⟨_, _, rfl, Or.inr ⟨p, hp, rfl⟩, Or.inr ⟨p', hp', rfl⟩⟩
      · split at h
        · simp at h
        · simp only [List.mem_singleton] at h
          subst h
          rw [cWith_eq]
          exact ⟨a.nterm, _, rfl, Or.inl rfl, Or.inr ⟨p', hp', rfl⟩⟩
    · simp only [List.mem_singleton] at h
      rw [h]
      exact ⟨a.nterm, a.cterm, rfl, Or.inl rfl, Or.inl rfl⟩

theorem a_mem_variantBases (mode : Mode) (a : Annotation) (nt ct : List (Rule (List Group))) :
    a ∈ variantBases mode a nt ct := by
  unfold variantBases
  simp

/-- what a form yielded by `_variable_mods_builder` looks like (all modes) -/
theorem variableBuilder_sound (b : Annotation) (rules : List (Rule (List Group))) (maxMods : Int) (mode : Mode)
    (hnd : ∀ r ∈ rules, r.1.Nodup) (x : Annotation) (hx : x ∈ variableBuilder b rules maxMods mode) :
    FrameI x b ∧ ∀ j : Int, modsAt x j = modsAt b j ∨
      (0 ≤ j ∧ j < (b.seq.length : Int) ∧ ∃ g ∈ offered rules j,
        ¬(mode = .skip ∧ (modsAt b j).isSome = true) ∧ modsAt x j = some (newVal mode (modsAt b j) g)) := by
  unfold variableBuilder at hx
  obtain ⟨hf, hj⟩ := varRec_sound _ _ _ _ _ _ _ hx
  refine ⟨hf, fun j => ?_⟩
  rcases hj j with h | ⟨h1, h2, gs, g, h3, h4, h5, h6⟩
  · exact Or.inl h
  · right
    rw [mapGet_buildModMap rules hnd] at h3
    split at h3
    · simp at h3
    · simp only [Option.some.injEq] at h3
      subst h3
      exact ⟨by simpa using h1, by simpa using h2, g, h4, h5, h6⟩

theorem variableBuilder_nodup (b : Annotation) (rules : List (Rule (List Group))) (maxMods : Int) (mode : Mode)
    (hnd : ∀ r ∈ rules, r.1.Nodup)
    (hok : ∀ j : Int, offered rules j ≠ [] → SiteOK mode (modsAt b j) (offered rules j)) :
    (variableBuilder b rules maxMods mode).Nodup := by
  unfold variableBuilder
  refine varRec_nodup _ _ _ _ _ _ (fun j gs _ _ h3 => ?_)
  rw [mapGet_buildModMap rules hnd] at h3
  split at h3
  · simp at h3
  · simp only [Option.some.injEq] at h3
    subst h3
    exact hok j ‹_›

/-- terminal state of a form -/
def tkey (x : Annotation) : Option (List Mod) × Option (List Mod) := (x.nterm, x.cterm)

theorem applyVariableCore_nodup (a : Annotation) (internal nt ct : List (Rule (List Group))) (maxMods : Int)
    (mode : Mode) (hnd : ∀ r ∈ internal, r.1.Nodup)
    (hok : ∀ j : Int, offered internal j ≠ [] → SiteOK mode (modsAt a j) (offered internal j))
    (hterm : ((variantBases mode a nt ct).map tkey).Nodup) :
    (applyVariableCore a internal nt ct maxMods mode).Nodup := by
  rw [applyVariableCore_eq, List.nodup_flatMap]
  refine ⟨fun b hb => ?_, ?_⟩
  · obtain ⟨vn, vc, rfl, -, -⟩ := mem_variantBases hb
    exact variableBuilder_nodup _ _ _ _ hnd hok
  · refine (List.pairwise_map.mp hterm).imp ?_
    intro b b' hne
    simp only [Function.onFun]
    intro x hx hx'
    have h1 := (variableBuilder_sound b internal maxMods mode hnd x hx).1
    have h2 := (variableBuilder_sound b' internal maxMods mode hnd x hx').1
    apply hne
    unfold tkey
    rw [← h1.nterm, ← h1.cterm, ← h2.nterm, ← h2.cterm]

/-! ### mode skip: the terminal variants -/

theorem filter_eq_of_nodup (sites : List Int) (h : sites.Nodup) (i : Int) :
    sites.filter (· = i) = if i ∈ sites then [i] else [] := by
  induction sites with
  | nil => simp
  | cons x r ih =>
    obtain ⟨hx, hr⟩ := List.nodup_cons.mp h
    by_cases hxi : x = i
    · subst hxi; simp [ih hr, hx]
    · have : ¬ i = x := fun h => hxi h.symm
      simp [List.filter_cons, hxi, ih hr, this]

theorem staticOffers_single (p : Rule Group) (hne : p.2 ≠ []) (hnd : p.1.Nodup) (i : Int) :
    staticOffers [p] i = if i ∈ p.1 then [p.2] else [] := by
  unfold staticOffers
  have : (!p.2.isEmpty) = true := by simp [hne]
  simp only [List.filter_cons, this, if_true, List.filter_nil, List.flatMap_cons, List.flatMap_nil, List.append_nil,
    filter_eq_of_nodup _ hnd]
  split <;> simp

/-- a single terminal variant in mode skip (`get` / `set` = the N- or the C-terminal field) -/
theorem term_variant_skip (old : Option (List Mod)) (p : Rule Group) (hne : p.2 ≠ []) (hnd : p.1.Nodup) (pos : Int) :
    staticTable .skip old (staticOffers [p] pos) = if old.isSome then old else if pos ∈ p.1 then some p.2 else none := by
  rw [staticOffers_single p hne hnd]
  unfold staticTable
  cases old <;> split <;> simp_all

theorem mem_termPairs {rules : List (Rule (List Group))} {p : Rule Group} (h : p ∈ termPairs rules) :
    ∃ r ∈ rules, p.1 = r.1 ∧ p.2 ∈ r.2 := by
  unfold termPairs at h
  obtain ⟨r, hr, hp⟩ := List.mem_flatMap.mp h
  obtain ⟨g, hg, rfl⟩ := List.mem_map.mp hp
  exact ⟨r, hr, rfl, hg⟩

/-- rules as they come out of `varRules`: sites without repetition, no empty group -/
def GoodRules (rules : List (Rule (List Group))) : Prop := ∀ r ∈ rules, r.1.Nodup ∧ ∀ g ∈ r.2, g ≠ []

theorem nBases_skip (a : Annotation) (nt : List (Rule (List Group))) (hg : GoodRules nt) :
    nBases .skip a nt =
      (if a.nterm.isSome then [] else termOffered nt 0).map fun g => { a with nterm := some g } := by
  unfold nBases termOffered
  have key : ∀ p ∈ termPairs nt,
      (if annotEq (nWith .skip a p) a then none else some (nWith .skip a p)) =
        if a.nterm.isSome then none else if (0 : Int) ∈ p.1 then some { a with nterm := some p.2 } else none := by
    intro p hp
    obtain ⟨r, hr, h1, h2⟩ := mem_termPairs hp
    have hne : p.2 ≠ [] := (hg r hr).2 _ h2
    have hnd : p.1.Nodup := h1 ▸ (hg r hr).1
    rw [nWith_eq, annotEq_nterm, term_variant_skip _ p hne hnd]
    cases hn : a.nterm with
    | some o => simp [modsEq_refl]
    | none =>
      by_cases h0 : (0 : Int) ∈ p.1
      · simp [h0, modsEq]
      · simp only [Option.isSome_none, Bool.false_eq_true, if_false, h0, modsEq, if_true]
  rw [List.filterMap_congr key]
  cases hn : a.nterm.isSome
  · simp only [Bool.false_eq_true, if_false, List.map_filterMap]
    refine List.filterMap_congr ?_
    intro p _; split <;> simp
  · simp

theorem cVariants_skip (a b : Annotation) (ct : List (Rule (List Group))) (hg : GoodRules ct)
    (hc : b.cterm = a.cterm) (hs : b.seq = a.seq) :
    ((termPairs ct).filterMap fun p => if annotEq (cWith .skip b p) b then none else some (cWith .skip b p)) =
      (if a.cterm.isSome then [] else termOffered ct ((a.seq.length : Int) - 1)).map
        fun g => { b with cterm := some g } := by
  unfold termOffered
  have key : ∀ p ∈ termPairs ct,
      (if annotEq (cWith .skip b p) b then none else some (cWith .skip b p)) =
        if a.cterm.isSome then none else
          if ((a.seq.length : Int) - 1) ∈ p.1 then some { b with cterm := some p.2 } else none := by
    intro p hp
    obtain ⟨r, hr, h1, h2⟩ := mem_termPairs hp
    have hne : p.2 ≠ [] := (hg r hr).2 _ h2
    have hnd : p.1.Nodup := h1 ▸ (hg r hr).1
    rw [cWith_eq, annotEq_cterm, term_variant_skip _ p hne hnd, hs, hc]
    cases hn : a.cterm with
    | some o => simp [modsEq_refl]
    | none =>
      by_cases h0 : ((a.seq.length : Int) - 1) ∈ p.1
      · simp [h0, modsEq]
      · have : ({ b with cterm := none } : Annotation) = b := by rw [← hn, ← hc]
        simp only [Option.isSome_none, Bool.false_eq_true, if_false, h0, modsEq, if_true]
  rw [List.filterMap_congr key]
  cases hn : a.cterm.isSome
  · simp only [Bool.false_eq_true, if_false, List.map_filterMap]
    refine List.filterMap_congr ?_
    intro p _; split <;> simp
  · simp

/-- the bases of mode skip are the terminal variants of the specification (as a multiset) -/
theorem variantBases_skip_perm (a : Annotation) (nt ct : List (Rule (List Group)))
    (hn : GoodRules nt) (hc : GoodRules ct) :
    (variantBases .skip a nt ct).Perm
      ((nVariants a nt).flatMap fun n => (cVariants a ct).map fun c => withTerm a n c) := by
  unfold variantBases nVariants cVariants
  rw [nBases_skip a nt hn]
  have hmapC : (if a.cterm.isSome = true then [] else List.map some (termOffered ct ((a.seq.length : Int) - 1)))
      = (if a.cterm.isSome then [] else termOffered ct ((a.seq.length : Int) - 1)).map some := by
    split <;> simp
  have hmapN : (if a.nterm.isSome = true then [] else List.map some (termOffered nt 0))
      = (if a.nterm.isSome then [] else termOffered nt 0).map some := by
    split <;> simp
  rw [hmapC, hmapN]
  generalize (if a.nterm.isSome then [] else termOffered nt 0) = N'
  -- per base: its C-terminal variants
  have hC : ∀ b : Annotation, b.cterm = a.cterm → b.seq = a.seq →
      ((termPairs ct).flatMap fun p => (if annotEq (cWith .skip b p) b then none else some (cWith .skip b p)).toList)
        = (if a.cterm.isSome then [] else termOffered ct ((a.seq.length : Int) - 1)).map
            fun g => { b with cterm := some g } := by
    intro b h1 h2
    rw [← List.filterMap_eq_flatMap_toList]
    exact cVariants_skip a b ct hc h1 h2
  generalize (if a.cterm.isSome then [] else termOffered ct ((a.seq.length : Int) - 1)) = C' at hC
  generalize hNB : (N'.map fun g => ({ a with nterm := some g } : Annotation)) = NB
  -- split the C-terminal loop
  have h1 : ((termPairs ct).flatMap fun p =>
        (NB.filterMap fun nb => if annotEq (cWith .skip nb p) nb then none else some (cWith .skip nb p))
        ++ (if annotEq (cWith .skip a p) a then [] else [cWith .skip a p])).Perm
      ((NB.flatMap fun nb => C'.map fun g => ({ nb with cterm := some g } : Annotation))
        ++ C'.map fun g => ({ a with cterm := some g } : Annotation)) := by
    refine (List.flatMap_append_perm _ _ _).symm.trans (List.Perm.append ?_ ?_)
    · simp only [List.filterMap_eq_flatMap_toList]
      refine (flatMap_swap _ _ _).trans ?_
      refine List.Perm.of_eq (List.flatMap_congr ?_)
      intro nb hnb
      rw [← hNB] at hnb
      obtain ⟨g, -, rfl⟩ := List.mem_map.mp hnb
      exact hC _ rfl rfl
    · refine List.Perm.of_eq ?_
      rw [← hC a rfl rfl]
      refine List.flatMap_congr ?_
      intro p _; split <;> simp
  refine (List.Perm.append_left _ (List.Perm.append_right _ h1)).trans ?_
  -- the specification side
  have h2 : ((none :: N'.map some).flatMap fun n => (none :: C'.map some).map fun c => withTerm a n c) =
      (a :: C'.map fun g => ({ a with cterm := some g } : Annotation)) ++
        NB.flatMap fun nb => nb :: C'.map fun g => ({ nb with cterm := some g } : Annotation) := by
    rw [← hNB]
    simp [withTerm, List.flatMap_map, Function.comp_def]
  rw [h2]
  have h3 : (NB.flatMap fun nb => nb :: C'.map fun g => ({ nb with cterm := some g } : Annotation)).Perm
      (NB ++ NB.flatMap fun nb => C'.map fun g => ({ nb with cterm := some g } : Annotation)) := by
    have := (List.flatMap_append_perm NB (fun nb => [nb])
      (fun nb => C'.map fun g => ({ nb with cterm := some g } : Annotation))).symm
    simpa using this
  refine List.Perm.trans ?_ (List.Perm.append_left _ h3.symm)
  rw [← Multiset.coe_eq_coe]
  simp only [← Multiset.coe_add, ← Multiset.cons_coe, ← Multiset.singleton_add, Multiset.coe_nil, Multiset.add_zero]
  ac_rfl

theorem specForms_eq (a : Annotation) (internal nt ct : List (Rule (List Group))) (maxMods : Int) :
    specForms a internal nt ct maxMods =
      ((nVariants a nt).flatMap fun n => (cVariants a ct).map fun c => withTerm a n c).flatMap
        fun b => internalForms b internal maxMods := by
  unfold specForms
  rw [List.flatMap_assoc]
  refine List.flatMap_congr ?_
  intro n _
  rw [List.flatMap_map]

/-- **mode skip**: `apply_variable_mods` returns the forms of the specification, each as often -/
theorem applyVariableCore_skip_perm (a : Annotation) (internal nt ct : List (Rule (List Group))) (maxMods : Int)
    (h0 : 0 ≤ maxMods) (hi : ∀ r ∈ internal, r.1.Nodup) (hn : GoodRules nt) (hc : GoodRules ct) :
    (applyVariableCore a internal nt ct maxMods .skip).Perm (specForms a internal nt ct maxMods) := by
  rw [applyVariableCore_eq, specForms_eq]
  refine (List.Perm.flatMap_left _ fun b _ => variableBuilder_skip_perm b internal maxMods h0 hi).trans ?_
  exact List.Perm.flatMap_right _ (variantBases_skip_perm a nt ct hn hc)

theorem nodup_product_map {α β γ δ : Type} (l₁ : List α) (l₂ : List β) (f : α → γ) (g : β → δ)
    (h₁ : (l₁.map f).Nodup) (h₂ : (l₂.map g).Nodup) :
    (l₁.flatMap fun x => l₂.map fun y => (f x, g y)).Nodup := by
  rw [List.nodup_flatMap]
  refine ⟨fun x _ => ?_, ?_⟩
  · have : (l₂.map fun y => (f x, g y)) = (l₂.map g).map fun d => (f x, d) := by simp
    rw [this]
    exact h₂.map (fun d d' h => by simpa using h)
  · refine (List.pairwise_map.mp h₁).imp ?_
    intro x x' hne
    simp only [Function.onFun]
    intro p hp hp'
    obtain ⟨y, -, rfl⟩ := List.mem_map.mp hp
    obtain ⟨y', -, h⟩ := List.mem_map.mp hp'
    exact hne (by simpa using (congrArg Prod.fst h).symm)

theorem tkey_withTerm (a : Annotation) (n c : Option Group) :
    tkey (withTerm a n c) = ((match n with | some g => some g | none => a.nterm),
      (match c with | some g => some g | none => a.cterm)) := by
  cases n <;> cases c <;> rfl

theorem variantBases_skip_keys_nodup (a : Annotation) (nt ct : List (Rule (List Group)))
    (hn : GoodRules nt) (hc : GoodRules ct)
    (hdn : (termOffered nt 0).Nodup) (hdc : (termOffered ct ((a.seq.length : Int) - 1)).Nodup) :
    ((variantBases .skip a nt ct).map tkey).Nodup := by
  refine ((variantBases_skip_perm a nt ct hn hc).map tkey).nodup_iff.mpr ?_
  rw [List.map_flatMap]
  simp only [List.map_map, Function.comp_def, tkey_withTerm]
  refine nodup_product_map _ _ (fun n : Option Group => match n with | some g => some g | none => a.nterm)
    (fun c : Option Group => match c with | some g => some g | none => a.cterm) ?_ ?_
  · unfold nVariants
    cases h : a.nterm with
    | some o => simp
    | none =>
      simp only [Option.isSome_none, Bool.false_eq_true, if_false, List.map_cons, List.map_map]
      refine List.nodup_cons.mpr ⟨by simp, ?_⟩
      exact hdn.map (fun g g' h => by simpa using h)
  · unfold cVariants
    cases h : a.cterm with
    | some o => simp
    | none =>
      simp only [Option.isSome_none, Bool.false_eq_true, if_false, List.map_cons, List.map_map]
      refine List.nodup_cons.mpr ⟨by simp, ?_⟩
      exact hdc.map (fun g g' h => by simpa using h)

theorem siteOK_skip (old : Option (List Mod)) (gs : List Group) (h : gs.Nodup) : SiteOK .skip old gs := by
  cases old with
  | some o => exact Or.inl ⟨rfl, rfl⟩
  | none =>
    refine Or.inr ⟨?_, fun g _ => by simp⟩
    have : gs.map (newVal .skip none) = gs :=
      (List.map_congr_left (fun g _ => (rfl : newVal .skip none g = id g))).trans (List.map_id _)
    rw [this]; exact h

theorem siteOK_append (old : Option (List Mod)) (gs : List Group) (h : gs.Nodup) (hne : [] ∉ gs) :
    SiteOK .append old gs := by
  cases old with
  | none =>
    refine Or.inr ⟨?_, fun g _ => by simp⟩
    have : gs.map (newVal .append none) = gs :=
      (List.map_congr_left (fun g _ => (rfl : newVal .append none g = id g))).trans (List.map_id _)
    rw [this]; exact h
  | some o =>
    refine Or.inr ⟨?_, fun g hg => ?_⟩
    · exact h.map (fun g g' hgg => by simpa [newVal] using hgg)
    · simp only [newVal, ne_eq, Option.some.injEq, List.append_right_eq_self]
      intro h'; exact hne (h' ▸ hg)

theorem siteOK_overwrite (old : Option (List Mod)) (gs : List Group) (h : gs.Nodup)
    (hne : ∀ o, old = some o → o ∉ gs) : SiteOK .overwrite old gs := by
  cases old with
  | none =>
    refine Or.inr ⟨?_, fun g _ => by simp⟩
    have : gs.map (newVal .overwrite none) = gs :=
      (List.map_congr_left (fun g _ => (rfl : newVal .overwrite none g = id g))).trans (List.map_id _)
    rw [this]; exact h
  | some o =>
    refine Or.inr ⟨?_, fun g hg => ?_⟩
    · have : gs.map (newVal .overwrite (some o)) = gs :=
        (List.map_congr_left (fun g _ => (rfl : newVal .overwrite (some o) g = id g))).trans (List.map_id _)
      rw [this]; exact h
    · simp only [newVal, ne_eq, Option.some.injEq]
      intro h'; exact hne o rfl (h' ▸ hg)

/-! ### terminal variants, every mode -/

/-- the N-terminal states (other than the current one) that `apply_variable_mods` expands -/
def nVals (mode : Mode) (a : Annotation) (nt : List (Rule (List Group))) : List (Option (List Mod)) :=
  (termPairs nt).filterMap fun p =>
    let v := staticTable mode a.nterm (staticOffers [p] 0)
    if modsEq v a.nterm then none else some v

/-- the C-terminal states (other than the current one) that `apply_variable_mods` expands -/
def cVals (mode : Mode) (a : Annotation) (ct : List (Rule (List Group))) : List (Option (List Mod)) :=
  (termPairs ct).filterMap fun p =>
    let v := staticTable mode a.cterm (staticOffers [p] ((a.seq.length : Int) - 1))
    if modsEq v a.cterm then none else some v

theorem nBases_eq (mode : Mode) (a : Annotation) (nt : List (Rule (List Group))) :
    nBases mode a nt = (nVals mode a nt).map fun v => { a with nterm := v } := by
  unfold nBases nVals
  rw [List.map_filterMap]
  refine List.filterMap_congr ?_
  intro p _
  simp only [nWith_eq, annotEq_nterm]
  split <;> simp

theorem cVariants_eq (mode : Mode) (a b : Annotation) (ct : List (Rule (List Group)))
    (hc : b.cterm = a.cterm) (hs : b.seq = a.seq) :
    ((termPairs ct).filterMap fun p => if annotEq (cWith mode b p) b then none else some (cWith mode b p)) =
      (cVals mode a ct).map fun v => { b with cterm := v } := by
  unfold cVals
  rw [List.map_filterMap]
  refine List.filterMap_congr ?_
  intro p _
  simp only [cWith_eq, annotEq_cterm]
  rw [hc, hs]
  split <;> simp

/-- the bases are the products of terminal states (as a multiset), in every mode -/
theorem variantBases_perm (mode : Mode) (a : Annotation) (nt ct : List (Rule (List Group))) :
    (variantBases mode a nt ct).Perm
      ((a.nterm :: nVals mode a nt).flatMap fun vn => (a.cterm :: cVals mode a ct).map fun vc =>
        ({ a with nterm := vn, cterm := vc } : Annotation)) := by
  unfold variantBases
  rw [nBases_eq]
  have hC : ∀ b : Annotation, b.cterm = a.cterm → b.seq = a.seq →
      ((termPairs ct).flatMap fun p => (if annotEq (cWith mode b p) b then none else some (cWith mode b p)).toList)
        = (cVals mode a ct).map fun v => { b with cterm := v } := by
    intro b h1 h2
    rw [← List.filterMap_eq_flatMap_toList]
    exact cVariants_eq mode a b ct h1 h2
  generalize cVals mode a ct = C' at hC
  generalize nVals mode a nt = N'
  generalize hNB : (N'.map fun v => ({ a with nterm := v } : Annotation)) = NB
  have h1 : ((termPairs ct).flatMap fun p =>
        (NB.filterMap fun nb => if annotEq (cWith mode nb p) nb then none else some (cWith mode nb p))
        ++ (if annotEq (cWith mode a p) a then [] else [cWith mode a p])).Perm
      ((NB.flatMap fun nb => C'.map fun v => ({ nb with cterm := v } : Annotation))
        ++ C'.map fun v => ({ a with cterm := v } : Annotation)) := by
    refine (List.flatMap_append_perm _ _ _).symm.trans (List.Perm.append ?_ ?_)
    · simp only [List.filterMap_eq_flatMap_toList]
      refine (flatMap_swap _ _ _).trans ?_
      refine List.Perm.of_eq (List.flatMap_congr ?_)
      intro nb hnb
      rw [← hNB] at hnb
      obtain ⟨g, -, rfl⟩ := List.mem_map.mp hnb
      exact hC _ rfl rfl
    · refine List.Perm.of_eq ?_
      rw [← hC a rfl rfl]
      refine List.flatMap_congr ?_
      intro p _; split <;> simp
  refine (List.Perm.append_left _ (List.Perm.append_right _ h1)).trans ?_
  have h2 : ((a.nterm :: N').flatMap fun vn => (a.cterm :: C').map fun vc =>
        ({ a with nterm := vn, cterm := vc } : Annotation)) =
      (a :: C'.map fun v => ({ a with cterm := v } : Annotation)) ++
        NB.flatMap fun nb => nb :: C'.map fun v => ({ nb with cterm := v } : Annotation) := by
    rw [← hNB]
    simp [List.flatMap_map, Function.comp_def]
  rw [h2]
  have h3 : (NB.flatMap fun nb => nb :: C'.map fun v => ({ nb with cterm := v } : Annotation)).Perm
      (NB ++ NB.flatMap fun nb => C'.map fun v => ({ nb with cterm := v } : Annotation)) := by
    have := (List.flatMap_append_perm NB (fun nb => [nb])
      (fun nb => C'.map fun v => ({ nb with cterm := v } : Annotation))).symm
    simpa using this
  refine List.Perm.trans ?_ (List.Perm.append_left _ h3.symm)
  rw [← Multiset.coe_eq_coe]
  simp only [← Multiset.coe_add, ← Multiset.cons_coe, ← Multiset.singleton_add, Multiset.coe_nil, Multiset.add_zero]
  ac_rfl

theorem variantBases_keys_nodup (mode : Mode) (a : Annotation) (nt ct : List (Rule (List Group)))
    (hn : (a.nterm :: nVals mode a nt).Nodup) (hc : (a.cterm :: cVals mode a ct).Nodup) :
    ((variantBases mode a nt ct).map tkey).Nodup := by
  refine ((variantBases_perm mode a nt ct).map tkey).nodup_iff.mpr ?_
  rw [List.map_flatMap]
  simp only [List.map_map, Function.comp_def, tkey]
  exact nodup_product_map _ _ id id (by simpa using hn) (by simpa using hc)

theorem staticTable_single (mode : Mode) (old : Option (List Mod)) (g : Group) :
    staticTable mode old [g] = some (newVal mode old g) := by
  unfold staticTable newVal
  cases old <;> cases mode <;> simp

/-- the terminal states offered by well-formed rules with pairwise different groups are pairwise different, and
different from the current state – in every mode -/
theorem termVals_nodup (mode : Mode) (old : Option (List Mod)) (rules : List (Rule (List Group))) (pos : Int)
    (hg : GoodRules rules) (hd : (termOffered rules pos).Nodup) :
    (old :: (termPairs rules).filterMap fun p =>
      let v := staticTable mode old (staticOffers [p] pos)
      if modsEq v old then none else some v).Nodup := by
  -- rewrite over the offered groups
  have hrew : ((termPairs rules).filterMap fun p =>
        let v := staticTable mode old (staticOffers [p] pos)
        if modsEq v old then none else some v)
      = (termOffered rules pos).filterMap fun g =>
          if modsEq (some (newVal mode old g)) old then none else some (some (newVal mode old g)) := by
    unfold termOffered
    rw [List.filterMap_filterMap]
    refine List.filterMap_congr ?_
    intro p hp
    obtain ⟨r, hr, h1, h2⟩ := mem_termPairs hp
    have hne : p.2 ≠ [] := (hg r hr).2 _ h2
    have hnd : p.1.Nodup := h1 ▸ (hg r hr).1
    simp only [staticOffers_single p hne hnd]
    by_cases hpos : pos ∈ p.1
    · simp [hpos, staticTable_single]
    · simp [hpos, staticTable, modsEq_refl]
  rw [hrew]
  refine List.nodup_cons.mpr ⟨?_, ?_⟩
  · intro hmem
    obtain ⟨g, -, hg'⟩ := List.mem_filterMap.mp hmem
    split at hg'
    · simp at hg'
    · rename_i hne
      simp only [Option.some.injEq] at hg'
      rw [hg'] at hne
      exact hne (modsEq_refl _)
  · refine List.Nodup.filterMap ?_ hd
    intro g g' v hv hv'
    simp only [Option.mem_def] at hv hv'
    split at hv
    · simp at hv
    · rename_i hkeep
      split at hv'
      · simp at hv'
      · simp only [Option.some.injEq] at hv hv'
        have heq : newVal mode old g = newVal mode old g' := by
          have := hv.trans hv'.symm; simpa using this
        cases old with
        | none => simpa [newVal] using heq
        | some o =>
          cases mode with
          | skip => exact absurd (by simp [newVal, modsEq_refl]) hkeep
          | append => simpa [newVal] using heq
          | overwrite => simpa [newVal] using heq

/-! ### what the enumeration of the specification contains -/

theorem mem_sublists {α : Type} (l S : List α) : S ∈ sublists l ↔ S.Sublist l := by
  induction l generalizing S with
  | nil => simp [sublists]
  | cons x r ih =>
    simp only [sublists, List.mem_append, List.mem_map]
    constructor
    · rintro (⟨S', hS', rfl⟩ | h)
      · exact ((ih S').mp hS').cons_cons x
      · exact ((ih S).mp h).cons x
    · intro h
      cases h with
      | cons _ h => exact Or.inr ((ih S).mpr h)
      | cons_cons _ h => exact Or.inl ⟨_, (ih _).mpr h, rfl⟩

theorem mem_assignments (S : List (Int × List Group)) (T : List (Int × Group)) :
    T ∈ assignments S ↔ List.Forall₂ (fun t s => t.1 = s.1 ∧ t.2 ∈ s.2) T S := by
  induction S generalizing T with
  | nil => simp [assignments]
  | cons p r ih =>
    obtain ⟨i, gs⟩ := p
    simp only [assignments, List.mem_flatMap, List.mem_map, List.forall₂_cons_right_iff]
    constructor
    · rintro ⟨g, hg, T', hT', rfl⟩
      exact ⟨(i, g), T', ⟨rfl, hg⟩, (ih T').mp hT', rfl⟩
    · rintro ⟨⟨i', g⟩, T', ⟨hi, hg⟩, hT', rfl⟩
      simp only at hi hg
      subst hi
      exact ⟨g, hg, T', (ih T').mpr hT', rfl⟩

theorem mem_eligible (a : Annotation) (rules : List (Rule (List Group))) (i : Int) (gs : List Group) :
    (i, gs) ∈ eligible a rules ↔
      0 ≤ i ∧ i < (a.seq.length : Int) ∧ modsAt a i = none ∧ gs = offered rules i ∧ gs ≠ [] := by
  unfold eligible
  simp only [List.mem_filterMap, List.mem_range]
  constructor
  · rintro ⟨k, hk, h⟩
    split at h
    · rename_i hc
      simp only [Option.some.injEq, Prod.mk.injEq] at h
      obtain ⟨rfl, rfl⟩ := h
      exact ⟨by omega, by omega, hc.1, rfl, hc.2⟩
    · simp at h
  · rintro ⟨h0, h1, h2, rfl, h4⟩
    refine ⟨i.toNat, by omega, ?_⟩
    have : ((i.toNat : Nat) : Int) = i := by omega
    rw [this]
    simp [h2, h4]

theorem mem_internalForms (a : Annotation) (rules : List (Rule (List Group))) (maxMods : Int) (x : Annotation) :
    x ∈ internalForms a rules maxMods ↔
      ∃ S T, S.Sublist (eligible a rules) ∧ (S.length : Int) ≤ maxMods ∧
        List.Forall₂ (fun t s => t.1 = s.1 ∧ t.2 ∈ s.2) T S ∧ x = withChoice a T := by
  unfold internalForms
  simp only [List.mem_map, List.mem_flatMap, List.mem_filter, mem_sublists, mem_assignments, decide_eq_true_eq]
  constructor
  · rintro ⟨T, ⟨S, ⟨h1, h2⟩, h3⟩, rfl⟩
    exact ⟨S, T, h1, h2, h3, rfl⟩
  · rintro ⟨S, T, h1, h2, h3, rfl⟩
    exact ⟨T, ⟨S, ⟨h1, h2⟩, h3⟩, rfl⟩

/-! ### argument conversion -/

theorem removeEmpty_some {l gs : List (List Mod)} (h : removeEmpty l = some gs) : ∀ g ∈ gs, g ≠ [] := by
  unfold removeEmpty at h
  simp only at h
  split at h
  · simp at h
  · simp only [Option.some.injEq] at h
    subst h
    intro g hg
    have := (List.mem_filter.mp hg).2
    simpa using this

theorem goodRules_varRules (rules : List (Rule VarIn)) (h : ∀ r ∈ rules, r.1.Nodup) : GoodRules (varRules rules) := by
  intro r hr
  unfold varRules at hr
  obtain ⟨r0, hr0, hx⟩ := List.mem_filterMap.mp hr
  cases hre : removeEmpty (fixListOfListOfMods r0.2) with
  | none => simp [hre] at hx
  | some gs =>
    simp only [hre, Option.some.injEq] at hx
    subst hx
    exact ⟨h r0 hr0, removeEmpty_some hre⟩

theorem goodRules_varTermRules (es : List Int) (hes : es.Nodup) (t : TermIn VarIn)
    (h : ∀ rules, t = .dict rules → ∀ r ∈ rules, r.1.Nodup) : GoodRules (varTermRules es t) := by
  cases t with
  | none => intro r hr; simp [varTermRules] at hr
  | dict rules => exact goodRules_varRules rules (h rules rfl)
  | direct v =>
    simp only [varTermRules]
    split
    · exact goodRules_varRules _ (fun r hr => by
        simp only [List.mem_singleton] at hr; subst hr; exact hes)
    · intro r hr; cases hr

end ModBuilder
end Pept
