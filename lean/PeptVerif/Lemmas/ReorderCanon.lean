import PeptVerif.Lemmas.Reorder
import PeptVerif.Spec.ProForma
import PeptVerif.Lemmas.AnnotEq
import PeptVerif.Model.C07Strings
/-!
Helper lemmas tying the editors of `Model/Reorder.lean` to the ProForma round trip of C01 (`Pept.canon`,
`Pept.parse_serialize`, imported read-only): the result of slice / reverse / shift / shuffle / sort_residues is, after the
unobservable normalisation of the residue-modification dict (`{}` ↦ `None`, entries in key order), again a canonical
annotation, and the serializer does not see the normalisation. Mathlib-free.
-/
namespace Pept.Reorder
open Pept

/-! ### normal form of the residue-modification dict -/

/-- `{}` ↦ `None`, entries ordered by key (Python dict order and emptiness are not observable: `==` and the serializer
look entries up by key and treat `{}` like `None`) -/
def normInternal : Option Dict → Option Dict
  | none => none
  | some d =>
    match sortBy (fun (p : Int × List Mod) => p.1.toNat) d with
    | [] => none
    | l => some l

def normalize (a : Annotation) : Annotation := { a with internal := normInternal a.internal }

/-! ### `canon` in propositional form -/

theorem canonInternalList_iff (n lo : Int) (d : List (Int × List Mod)) :
    canonInternalList n lo d = true ↔
      (∀ p ∈ d, lo ≤ p.1 ∧ p.1 < n ∧ p.2.isEmpty = false ∧ p.2.all (canonMod '[' ']') = true) ∧
      d.Pairwise (fun p q => p.1 < q.1) := by
  induction d generalizing lo with
  | nil => simp [canonInternalList]
  | cons p t ih =>
    obtain ⟨k, ms⟩ := p
    simp only [canonInternalList, Bool.and_eq_true, decide_eq_true_eq, Bool.not_eq_eq_eq_not, Bool.not_true,
      List.mem_cons, forall_eq_or_imp, List.pairwise_cons, ih]
    constructor
    · rintro ⟨⟨⟨⟨h1, h2⟩, h3⟩, h4⟩, h5, h6⟩
      refine ⟨⟨⟨h1, h2, h3, h4⟩, ?_⟩, ?_, h6⟩
      · intro q hq
        have := h5 q hq
        exact ⟨by omega, this.2⟩
      · intro q hq
        have := h5 q hq
        omega
    · rintro ⟨⟨⟨h1, h2, h3, h4⟩, h5⟩, h6, h7⟩
      refine ⟨⟨⟨⟨h1, h2⟩, h3⟩, h4⟩, ?_, h7⟩
      intro q hq
      have := h5 q hq
      have := h6 q hq
      exact ⟨by omega, (h5 q hq).2⟩

theorem canonIntervalList_iff (n lo : Int) (L : List Interval) :
    canonIntervalList n lo L = true ↔
      (∀ iv ∈ L, lo ≤ iv.start ∧ iv.start < iv.stop ∧ iv.stop ≤ n ∧ canonOptMods '[' ']' iv.mods = true) ∧
      L.Pairwise (fun x y => x.stop ≤ y.start) := by
  induction L generalizing lo with
  | nil => simp [canonIntervalList]
  | cons iv t ih =>
    simp only [canonIntervalList, Bool.and_eq_true, decide_eq_true_eq, List.mem_cons, forall_eq_or_imp,
      List.pairwise_cons, ih]
    constructor
    · rintro ⟨⟨⟨⟨h1, h2⟩, h3⟩, h4⟩, h5, h6⟩
      refine ⟨⟨⟨h1, h2, h3, h4⟩, ?_⟩, ?_, h6⟩
      · intro q hq
        have := h5 q hq
        exact ⟨by omega, this.2⟩
      · intro q hq
        exact (h5 q hq).1
    · rintro ⟨⟨⟨h1, h2, h3, h4⟩, h5⟩, h6, h7⟩
      refine ⟨⟨⟨⟨h1, h2⟩, h3⟩, h4⟩, ?_, h7⟩
      intro q hq
      exact ⟨h6 q hq, (h5 q hq).2⟩

/-- the conjuncts of `canon` (the only place that depends on the shape of its definition) -/
theorem canon_iff (a : Annotation) : canon a = true ↔
    a.seq.isEmpty = false ∧ a.seq.all isAA = true ∧ canonOptMods '{' '}' a.labile = true ∧
    canonGlobal canonStatic a.static = true ∧ canonGlobal canonIsotope a.isotope = true ∧
    canonOptMods '[' ']' a.unknown = true ∧ canonOptMods '[' ']' a.nterm = true ∧
    canonInternal (Int.ofNat a.seq.length) a.internal = true ∧
    canonIntervals (Int.ofNat a.seq.length) a.intervals = true ∧
    canonOptMods '[' ']' a.cterm = true ∧
    canonAdducts a.charge a.adducts = true := by
  simp only [canon, Bool.and_eq_true, Bool.not_eq_eq_eq_not, Bool.not_true, and_assoc]


/-! ### the dict part -/

def entryKey (p : Int × List Mod) : Nat := p.1.toNat

theorem sorted_strict_of_nodup (d : Dict) (hnn : ∀ p ∈ d, 0 ≤ p.1) (hnd : (d.map (·.1)).Nodup)
    (hs : d.Pairwise (fun p q => entryKey p ≤ entryKey q)) : d.Pairwise (fun p q => p.1 < q.1) := by
  have hne : d.Pairwise (fun p q => p.1 ≠ q.1) := by
    rw [List.nodup_iff_pairwise_ne, List.pairwise_map] at hnd; exact hnd
  refine (hs.and hne).imp_of_mem ?_
  intro p q hp hq h
  have := hnn p hp
  have := hnn q hq
  unfold entryKey at h
  omega

theorem canonInternal_normInternal (n : Int) (d : Dict)
    (hall : ∀ p ∈ d, 0 ≤ p.1 ∧ p.1 < n ∧ p.2.isEmpty = false ∧ p.2.all (canonMod '[' ']') = true)
    (hnd : (d.map (·.1)).Nodup) : canonInternal n (normInternal (some d)) = true := by
  have hperm := sortBy_perm entryKey d
  have hsorted := sortBy_sorted entryKey d
  have hnd' : ((sortBy entryKey d).map (·.1)).Nodup := ((hperm.map (·.1)).nodup_iff).2 hnd
  have hall' : ∀ p ∈ sortBy entryKey d, 0 ≤ p.1 ∧ p.1 < n ∧ p.2.isEmpty = false ∧ p.2.all (canonMod '[' ']') = true :=
    fun p hp => hall p (hperm.mem_iff.1 hp)
  have hstrict := sorted_strict_of_nodup _ (fun p hp => (hall' p hp).1) hnd' hsorted
  unfold normInternal
  show canonInternal n (match sortBy entryKey d with | [] => none | l => some l) = true
  cases hS : sortBy entryKey d with
  | nil => rfl
  | cons x t =>
    rw [hS] at hall' hstrict
    simp only [canonInternal, List.isEmpty_cons, Bool.not_false, Bool.true_and]
    rw [canonInternalList_iff]
    exact ⟨hall', hstrict⟩

/-- what `canon` says about the entries of the dict -/
theorem canonInternal_some (n : Int) (d : Dict) (h : canonInternal n (some d) = true) :
    (∀ p ∈ d, 0 ≤ p.1 ∧ p.1 < n ∧ p.2.isEmpty = false ∧ p.2.all (canonMod '[' ']') = true) ∧
    d.Pairwise (fun p q => p.1 < q.1) ∧ d ≠ [] := by
  simp only [canonInternal, Bool.and_eq_true, Bool.not_eq_eq_eq_not, Bool.not_true] at h
  have := (canonInternalList_iff n 0 d).1 h.2
  refine ⟨this.1, this.2, ?_⟩
  intro hd; rw [hd] at h; simp at h

theorem nodup_keys_of_strict (d : Dict) (h : d.Pairwise (fun p q => p.1 < q.1)) : (d.map (·.1)).Nodup := by
  rw [List.nodup_iff_pairwise_ne, List.pairwise_map]
  exact h.imp (fun h => by omega)


/-! ### slice -/

theorem canonIntervals_some (n : Int) (L : List Interval) (h : canonIntervals n (some L) = true) :
    (∀ iv ∈ L, 0 ≤ iv.start ∧ iv.start < iv.stop ∧ iv.stop ≤ n ∧ canonOptMods '[' ']' iv.mods = true) ∧
    L.Pairwise (fun x y => x.stop ≤ y.start) ∧ L ≠ [] := by
  simp only [canonIntervals, Bool.and_eq_true, Bool.not_eq_eq_eq_not, Bool.not_true] at h
  have := (canonIntervalList_iff n 0 L).1 h.2
  refine ⟨this.1, this.2, ?_⟩
  intro hd; rw [hd] at h; simp at h

theorem canonIntervals_of (n : Int) (L : List Interval)
    (h1 : ∀ iv ∈ L, 0 ≤ iv.start ∧ iv.start < iv.stop ∧ iv.stop ≤ n ∧ canonOptMods '[' ']' iv.mods = true)
    (h2 : L.Pairwise (fun x y => x.stop ≤ y.start)) : canonIntervals n (noneIfEmpty (some L)) = true := by
  cases L with
  | nil => rfl
  | cons x t =>
    simp only [noneIfEmpty, canonIntervals, List.isEmpty_cons, Bool.not_false, Bool.true_and]
    rw [canonIntervalList_iff]
    exact ⟨h1, h2⟩

theorem all_isAA_of_subset (l l' : List Char) (h : l.all isAA = true) (hsub : ∀ c ∈ l', c ∈ l) : l'.all isAA = true := by
  rw [List.all_eq_true] at h ⊢
  exact fun c hc => h c (hsub c hc)

theorem slice_canon' (a : Annotation) (s e : Nat) (hs : s < e) (he : e ≤ a.seq.length) (hca : canon a = true)
    (hc : CutsOK a.intervals a.seq.length [s, e]) : canon (normalize (slice a (s : Int) (e : Int))) = true := by
  rw [slice_eq_general]
  obtain ⟨c1, c2, c3, c4, c5, c6, c7, c8, c9, c10, c12⟩ := (canon_iff a).1 hca
  have hlen : (pySlice a.seq (s : Int) (e : Int)).length = e - s := pySlice_length_nat a.seq s e (by omega) he
  rw [canon_iff]
  simp only [normalize, sliceGeneral]
  refine ⟨?_, ?_, c3, c4, c5, c6, ?_, ?_, ?_, ?_, c12⟩
  · cases h : pySlice a.seq (s : Int) (e : Int) with
    | nil => rw [h] at hlen; simp at hlen; omega
    | cons x t => rfl
  · apply all_isAA_of_subset a.seq _ c2
    intro c hcm
    rw [pySlice_nat] at hcm
    exact List.mem_of_mem_drop (List.mem_of_mem_take hcm)
  · split
    · rfl
    · exact c7
  · rw [hlen]
    cases hd : a.internal with
    | none => rfl
    | some d =>
      rw [hd] at c8
      obtain ⟨hall, hstrict, _⟩ := canonInternal_some _ d c8
      simp only [Option.map_some]
      apply canonInternal_normInternal
      · intro p' hp'
        obtain ⟨p, hp, hpe⟩ := List.mem_filterMap.1 hp'
        unfold sliceEntry at hpe
        split at hpe
        · rename_i hr
          cases hpe
          have := hall p hp
          exact ⟨by simp only; omega, by simp only [Int.ofNat_eq_natCast]; omega, this.2.2.1, this.2.2.2⟩
        · cases hpe
      · apply nodup_keys_of_strict
        refine List.Pairwise.filterMap _ ?_ hstrict
        intro p q hpq p' hp' q' hq'
        unfold sliceEntry at hp' hq'
        split at hp' <;> split at hq'
        · cases hp'; cases hq'; simp only; omega
        · cases hq'
        · cases hp'
        · cases hp'
  · rw [hlen]
    cases hL : a.intervals with
    | none => rfl
    | some L =>
      rw [hL] at c9
      obtain ⟨hall, hpw, _⟩ := canonIntervals_some _ L c9
      have hcut := hc L hL
      simp only [Option.map_some]
      apply canonIntervals_of
      · intro iv' hiv'
        obtain ⟨iv, hiv, hive⟩ := List.mem_filterMap.1 hiv'
        have hw := hcut iv hiv
        rw [sliceInterval_contained (s : Int) (e : Int) iv hw.2.1 (hw.2.2.2 s (by simp)) (hw.2.2.2 e (by simp))] at hive
        split at hive
        · rename_i hcont
          cases hive
          exact ⟨by simp only; omega, by simp only; omega, by simp only [Int.ofNat_eq_natCast]; omega, (hall iv hiv).2.2.2⟩
        · cases hive
      · refine List.Pairwise.filterMap _ ?_ hpw
        intro x y hxy x' hx' y' hy'
        unfold sliceInterval at hx' hy'
        split at hx' <;> split at hy'
        · cases hx'; cases hy'; simp only; omega
        · cases hy'
        · cases hx'
        · cases hx'
  · split
    · rfl
    · exact c10


/-! ### the serializer does not see the normalisation -/

theorem dictGet_eq_some_iff (k : Int) (v : List Mod) (l : List (Int × List Mod)) (hnd : (l.map (·.1)).Nodup) :
    Pept.dictGet k l = some v ↔ (k, v) ∈ l := by
  induction l with
  | nil => simp [Pept.dictGet]
  | cons p t ih =>
    obtain ⟨k', v'⟩ := p
    simp only [List.map_cons, List.nodup_cons] at hnd
    simp only [Pept.dictGet, List.mem_cons, Prod.mk.injEq]
    by_cases hk : k' = k
    · subst hk
      simp only [if_true, Option.some.injEq, true_and]
      constructor
      · intro h; exact Or.inl h.symm
      · rintro (h | h)
        · exact h.symm
        · exact absurd (List.mem_map_of_mem (f := (·.1)) h) hnd.1
    · simp only [hk, if_false, ih hnd.2]
      constructor
      · intro h; exact Or.inr h
      · rintro (h | h)
        · exact absurd h.1.symm hk
        · exact h

theorem dictGet_perm (k : Int) (l1 l2 : List (Int × List Mod)) (hp : l1.Perm l2) (hnd : (l1.map (·.1)).Nodup) :
    Pept.dictGet k l1 = Pept.dictGet k l2 := by
  have hnd2 : (l2.map (·.1)).Nodup := ((hp.map (·.1)).nodup_iff).1 hnd
  cases h1 : Pept.dictGet k l1 with
  | some v =>
    have := (dictGet_eq_some_iff k v l1 hnd).1 h1
    exact ((dictGet_eq_some_iff k v l2 hnd2).2 (hp.mem_iff.1 this)).symm
  | none =>
    cases h2 : Pept.dictGet k l2 with
    | none => rfl
    | some v =>
      have := (dictGet_eq_some_iff k v l2 hnd2).1 h2
      have := (dictGet_eq_some_iff k v l1 hnd).2 (hp.mem_iff.2 this)
      rw [h1] at this; cases this

theorem internalAt_normInternal (plus : Plus) (d : Option Dict) (i : Int)
    (hnd : ∀ l, d = some l → (l.map (·.1)).Nodup) :
    internalAt plus (normInternal d) i = internalAt plus d i := by
  cases d with
  | none => rfl
  | some l =>
    have hperm := sortBy_perm entryKey l
    unfold normInternal
    show internalAt plus (match sortBy entryKey l with | [] => none | x => some x) i = _
    cases hS : sortBy entryKey l with
    | nil =>
      rw [hS] at hperm
      have : l = [] := hperm.symm.eq_nil
      subst this
      rfl
    | cons x t =>
      simp only [internalAt]
      rw [← hS, dictGet_perm i _ _ hperm (((hperm.map (·.1)).nodup_iff).2 (hnd l rfl))]

theorem serializeResidues_normalize (plus : Plus) (a : Annotation)
    (hnd : ∀ l, a.internal = some l → (l.map (·.1)).Nodup) (i : Int) (rest : List Char) :
    serializeResidues plus (normalize a) i rest = serializeResidues plus a i rest := by
  induction rest generalizing i with
  | nil => rfl
  | cons c t ih =>
    simp only [serializeResidues]
    rw [ih]
    show ivMarks plus a.intervals i true ++ c :: (internalAt plus (normInternal a.internal) i ++ _) = _
    rw [internalAt_normInternal plus a.internal i hnd]

theorem serialize_normalize (plus : Plus) (a : Annotation)
    (hnd : ∀ l, a.internal = some l → (l.map (·.1)).Nodup) :
    serialize plus (normalize a) = serialize plus a := by
  unfold serialize serializeMiddle
  rw [show (normalize a).seq = a.seq from rfl, serializeResidues_normalize plus a hnd]
  rfl


/-! ### reverse -/

theorem canonIntervals_of_ne (n : Int) (L : List Interval) (hne : L ≠ [])
    (h1 : ∀ iv ∈ L, 0 ≤ iv.start ∧ iv.start < iv.stop ∧ iv.stop ≤ n ∧ canonOptMods '[' ']' iv.mods = true)
    (h2 : L.Pairwise (fun x y => x.stop ≤ y.start)) : canonIntervals n (some L) = true := by
  have := canonIntervals_of n L h1 h2
  cases L with
  | nil => exact absurd rfl hne
  | cons x t => exact this

theorem reverse_canon' (a : Annotation) (sw : Bool) (hca : canon a = true) :
    canon (normalize (reverse a sw)) = true := by
  obtain ⟨c1, c2, c3, c4, c5, c6, c7, c8, c9, c10, c12⟩ := (canon_iff a).1 hca
  rw [canon_iff]
  simp only [normalize, reverse, List.length_reverse]
  refine ⟨?_, ?_, c3, c4, c5, c6, ?_, ?_, ?_, ?_, c12⟩
  · cases h : a.seq with
    | nil => rw [h] at c1; simp at c1
    | cons x t => simp
  · exact all_isAA_of_subset a.seq _ c2 (fun c hc => List.mem_reverse.1 hc)
  · cases sw
    · exact c7
    · exact c10
  · cases hd : a.internal with
    | none => rfl
    | some d =>
      cases d with
      | nil => rfl
      | cons p t =>
        rw [hd] at c8
        obtain ⟨hall, hstrict, _⟩ := canonInternal_some _ _ c8
        simp only
        apply canonInternal_normInternal
        · intro p' hp'
          obtain ⟨q, hq, rfl⟩ := List.mem_map.1 hp'
          have := hall q hq
          simp only [Int.ofNat_eq_natCast] at this
          unfold reverseEntry
          exact ⟨by simp only; omega, by simp only [Int.ofNat_eq_natCast]; omega, this.2.2.1, this.2.2.2⟩
        · rw [List.map_map, List.nodup_iff_pairwise_ne, List.pairwise_map]
          exact hstrict.imp (fun h => by simp only [Function.comp, reverseEntry]; omega)
  · cases hL : a.intervals with
    | none => rfl
    | some L =>
      rw [hL] at c9
      obtain ⟨hall, hpw, hne⟩ := canonIntervals_some _ L c9
      simp only [Option.map_some]
      have hform : ∀ iv ∈ L, reverseInterval (a.seq.length : Int) iv =
          { iv with start := (a.seq.length : Int) - iv.stop, stop := (a.seq.length : Int) - iv.start } := by
        intro iv hiv
        have := hall iv hiv
        unfold reverseInterval
        have h1 : ¬ ((a.seq.length : Int) - iv.stop > (a.seq.length : Int) - iv.start) := by omega
        simp only [h1, if_false]
      apply canonIntervals_of_ne
      · intro h
        have := congrArg List.length h
        simp at this
        exact hne this
      · intro iv' hiv'
        obtain ⟨iv, hiv, rfl⟩ := List.mem_map.1 hiv'
        have hiv2 : iv ∈ L := List.mem_reverse.1 hiv
        have := hall iv hiv2
        simp only [Int.ofNat_eq_natCast] at this
        rw [hform iv hiv2]
        exact ⟨by simp only; omega, by simp only; omega, by simp only [Int.ofNat_eq_natCast]; omega, this.2.2.2⟩
      · rw [List.pairwise_map, List.pairwise_reverse]
        refine hpw.imp_of_mem ?_
        intro x y hx hy hxy
        rw [hform x hx, hform y hy]
        simp only; omega
  · cases sw
    · exact c10
    · exact c7


/-! ### shuffle, sort_residues -/

theorem keysOK_of_canon (a : Annotation) (hca : canon a = true) : KeysOK a := by
  intro d hd
  have c8 := ((canon_iff a).1 hca).2.2.2.2.2.2.2.1
  rw [hd] at c8
  obtain ⟨hall, hstrict, _⟩ := canonInternal_some _ d c8
  exact ⟨nodup_keys_of_strict d hstrict, fun p hp => ⟨(hall p hp).1, by have := (hall p hp).2.1; simpa using this⟩⟩

theorem permuteWith_fields (a : Annotation) (perm : List Nat) (newSeq : List Char)
    (hp : perm.Perm (List.range a.seq.length)) (hk : KeysOK a) :
    ∃ b, permuteWith a perm newSeq = .ok b ∧ b.seq = newSeq ∧
      b.internal = (match a.internal with
        | none => none
        | some [] => none
        | some d => some (d.map (permEntry perm))) ∧
      b.isotope = a.isotope ∧ b.static = a.static ∧ b.labile = a.labile ∧ b.unknown = a.unknown ∧
      b.charge = a.charge ∧ b.adducts = a.adducts ∧ b.nterm = a.nterm ∧ b.cterm = a.cterm ∧
      b.intervals = a.intervals := by
  unfold permuteWith
  cases hd : a.internal with
  | none => exact ⟨_, rfl, rfl, rfl, rfl, rfl, rfl, rfl, rfl, rfl, rfl, rfl, rfl⟩
  | some d =>
    cases d with
    | nil => exact ⟨_, rfl, rfl, rfl, rfl, rfl, rfl, rfl, rfl, rfl, rfl, rfl, rfl⟩
    | cons q t =>
      obtain ⟨_, hr⟩ := hk _ hd
      have hall : (q :: t).all (fun p => (posOf? perm p.1).isSome) = true := by
        rw [List.all_eq_true]
        intro x hx
        rw [posOf?_of_mem perm _ hp x.1 (hr x hx).1 (hr x hx).2]; rfl
      simp only [permDict, hall, if_true]
      exact ⟨_, rfl, rfl, rfl, rfl, rfl, rfl, rfl, rfl, rfl, rfl, rfl, rfl⟩

theorem idxOf_inj_of_mem (l : List Nat) (x y : Nat) (hx : x ∈ l) (hy : y ∈ l) (h : l.idxOf x = l.idxOf y) : x = y := by
  have h1 := List.getElem_idxOf (List.idxOf_lt_length_iff.2 hx)
  have h2 := List.getElem_idxOf (List.idxOf_lt_length_iff.2 hy)
  rw [← h1, ← h2]
  simp only [h]

/-- a permutation of the residues (shuffle / sort_residues) of a canonical annotation is canonical after normalisation -/
theorem permuted_canon (a b : Annotation) (perm : List Nat) (hca : canon a = true)
    (hp : perm.Perm (List.range a.seq.length)) (hseq : b.seq.Perm a.seq)
    (hint : b.internal = (match a.internal with
        | none => none
        | some [] => none
        | some d => some (d.map (permEntry perm))))
    (g1 : b.isotope = a.isotope) (g2 : b.static = a.static) (g3 : b.labile = a.labile) (g4 : b.unknown = a.unknown)
    (g5 : b.charge = a.charge) (g6 : b.adducts = a.adducts) (g7 : b.nterm = a.nterm) (g8 : b.cterm = a.cterm)
    (g9 : b.intervals = a.intervals) : canon (normalize b) = true := by
  obtain ⟨c1, c2, c3, c4, c5, c6, c7, c8, c9, c10, c12⟩ := (canon_iff a).1 hca
  have hlen : b.seq.length = a.seq.length := hseq.length_eq
  have hplen : perm.length = a.seq.length := by rw [hp.length_eq]; simp
  rw [canon_iff]
  simp only [normalize]
  rw [g1, g2, g3, g4, g5, g6, g7, g8, g9, hlen]
  refine ⟨?_, ?_, c3, c4, c5, c6, c7, ?_, c9, c10, c12⟩
  · cases h : b.seq with
    | nil => rw [h] at hlen; cases h2 : a.seq with
      | nil => rw [h2] at c1; simp at c1
      | cons x t => rw [h2] at hlen; simp at hlen
    | cons x t => rfl
  · exact all_isAA_of_subset a.seq _ c2 (fun c hc => hseq.mem_iff.1 hc)
  · rw [hint]
    cases hd : a.internal with
    | none => rfl
    | some d =>
      cases d with
      | nil => rfl
      | cons q t =>
        rw [hd] at c8
        obtain ⟨hall, hstrict, _⟩ := canonInternal_some _ _ c8
        have hmem : ∀ x ∈ q :: t, x.1.toNat ∈ perm := fun x hx => by
          have := hall x hx
          exact hp.mem_iff.2 (by simp only [Int.ofNat_eq_natCast] at this; simp; omega)
        have hpos : ∀ x ∈ q :: t, permEntry perm x = (((perm.idxOf x.1.toNat : Nat) : Int), x.2) := fun x hx => by
          have := hall x hx
          simp only [Int.ofNat_eq_natCast] at this
          unfold permEntry
          rw [posOf?_of_mem perm _ hp x.1 this.1 this.2.1]; rfl
        simp only
        apply canonInternal_normInternal
        · intro p' hp'
          obtain ⟨x, hx, rfl⟩ := List.mem_map.1 hp'
          rw [hpos x hx]
          have := hall x hx
          have hlt := List.idxOf_lt_length_iff.2 (hmem x hx)
          exact ⟨by simp only; omega, by simp only [Int.ofNat_eq_natCast]; omega, this.2.2.1, this.2.2.2⟩
        · rw [List.map_map, List.nodup_iff_pairwise_ne, List.pairwise_map]
          refine hstrict.imp_of_mem ?_
          intro x y hx hy hxy
          simp only [Function.comp]
          rw [hpos x hx, hpos y hy]
          simp only
          intro heq
          have h1 := hall x hx
          have h2 := hall y hy
          have := idxOf_inj_of_mem perm _ _ (hmem x hx) (hmem y hy) (by omega)
          omega


/-! ### shift (no interval wraps) -/

theorem shifted_intervals_canon (n eff : Int) (L : List Interval) (he0 : 0 ≤ eff) (he : eff < n) (hne : L ≠ [])
    (hall : ∀ iv ∈ L, 0 ≤ iv.start ∧ iv.start < iv.stop ∧ iv.stop ≤ n ∧ canonOptMods '[' ']' iv.mods = true)
    (hpw : L.Pairwise (fun x y => x.stop ≤ y.start)) (hnw : ∀ iv ∈ L, ¬ wraps eff iv) :
    canonIntervals n (some (sortBy (fun (iv : Interval) => iv.start.toNat) (L.map (shiftInterval eff n)))) = true := by
  have hform : ∀ iv ∈ L, shiftInterval eff n iv =
      { iv with start := if eff ≤ iv.start then iv.start - eff else iv.start - eff + n,
                stop := if eff ≤ iv.start then iv.stop - eff else iv.stop - eff + n } := fun iv hiv =>
    shiftInterval_nowrap eff n iv he0 he ⟨(hall iv hiv).1, (hall iv hiv).2.1, (hall iv hiv).2.2.1⟩ (hnw iv hiv)
  have hperm := sortBy_perm (fun (iv : Interval) => iv.start.toNat) (L.map (shiftInterval eff n))
  -- every shifted interval is well-formed
  have hall' : ∀ iv' ∈ L.map (shiftInterval eff n),
      0 ≤ iv'.start ∧ iv'.start < iv'.stop ∧ iv'.stop ≤ n ∧ canonOptMods '[' ']' iv'.mods = true := by
    intro iv' hiv'
    obtain ⟨iv, hiv, rfl⟩ := List.mem_map.1 hiv'
    have h := hall iv hiv
    have hw := hnw iv hiv
    unfold wraps at hw
    rw [hform iv hiv]
    by_cases hc : eff ≤ iv.start
    · simp only [hc, if_true]; exact ⟨by omega, by omega, by omega, h.2.2.2⟩
    · simp only [hc, if_false]; exact ⟨by omega, by omega, by omega, h.2.2.2⟩
  -- shifted intervals are pairwise disjoint (in either order)
  have hdis : (L.map (shiftInterval eff n)).Pairwise (fun x y => x.stop ≤ y.start ∨ y.stop ≤ x.start) := by
    rw [List.pairwise_map]
    refine hpw.imp_of_mem ?_
    intro x y hx hy hxy
    have h1 := hall x hx
    have h2 := hall y hy
    have w1 := hnw x hx
    have w2 := hnw y hy
    unfold wraps at w1 w2
    rw [hform x hx, hform y hy]
    by_cases c1 : eff ≤ x.start <;> by_cases c2 : eff ≤ y.start <;> simp only [c1, c2, if_true, if_false] <;> omega
  have hdis' := hperm.symm.pairwise hdis (fun h => h.symm)
  have hsorted := sortBy_sorted (fun (iv : Interval) => iv.start.toNat) (L.map (shiftInterval eff n))
  apply canonIntervals_of_ne
  · intro h
    have := sortBy_length (fun (iv : Interval) => iv.start.toNat) (L.map (shiftInterval eff n))
    rw [h] at this
    simp at this
    exact hne (List.eq_nil_of_length_eq_zero this.symm)
  · exact fun iv hiv => hall' iv (hperm.mem_iff.1 hiv)
  · refine (hsorted.and hdis').imp_of_mem ?_
    intro x y hx hy h
    have h1 := hall' x (hperm.mem_iff.1 hx)
    have h2 := hall' y (hperm.mem_iff.1 hy)
    omega

theorem shift_canon' (a : Annotation) (k : Int) (hca : canon a = true) (hnw : NoWrap a k) :
    ∃ b, shift a k = .ok b ∧ canon (normalize b) = true := by
  obtain ⟨c1, c2, c3, c4, c5, c6, c7, c8, c9, c10, c12⟩ := (canon_iff a).1 hca
  have hn : a.seq ≠ [] := by intro h; rw [h] at c1; simp at c1
  have hk := keysOK_of_canon a hca
  obtain ⟨b, hb, hseq, hbint, hbiv, g1, g2, g3, g4, g5, g6, g7, g8⟩ := shift_spec a k hn hk
  refine ⟨b, hb, ?_⟩
  have hlen : 0 < a.seq.length := List.length_pos_iff.mpr hn
  have he0 : 0 ≤ k % (a.seq.length : Int) := Int.emod_nonneg _ (by omega)
  have he : k % (a.seq.length : Int) < a.seq.length := Int.emod_lt_of_pos _ (by omega)
  have hperm : b.seq.Perm a.seq := by
    rw [hseq]
    exact List.perm_append_comm.trans (by rw [List.take_append_drop])
  have hblen : b.seq.length = a.seq.length := hperm.length_eq
  rw [canon_iff]
  simp only [normalize]
  rw [g1, g2, g3, g4, g5, g6, g7, g8, hblen]
  refine ⟨?_, ?_, c3, c4, c5, c6, c7, ?_, ?_, c10, c12⟩
  · cases h : b.seq with
    | nil => rw [h] at hblen; simp at hblen; omega
    | cons x t => rfl
  · exact all_isAA_of_subset a.seq _ c2 (fun c hc => hperm.mem_iff.1 hc)
  · rw [hbint]
    cases hd : a.internal with
    | none => rfl
    | some d =>
      cases d with
      | nil => rfl
      | cons q t =>
        rw [hd] at c8
        obtain ⟨hall, hstrict, _⟩ := canonInternal_some _ _ c8
        obtain ⟨hnd, hr⟩ := hk _ hd
        simp only
        apply canonInternal_normInternal
        · intro p' hp'
          obtain ⟨x, hx, rfl⟩ := List.mem_map.1 hp'
          have := hall x hx
          unfold shiftEntry
          exact ⟨Int.emod_nonneg _ (by omega), by simp only [Int.ofNat_eq_natCast]; exact Int.emod_lt_of_pos _ (by omega),
            this.2.2.1, this.2.2.2⟩
        · exact shift_keys_nodup _ _ _ he0 he hnd hr
  · rw [hbiv]
    cases hL : a.intervals with
    | none => rfl
    | some L =>
      cases L with
      | nil => rfl
      | cons iv t =>
        rw [hL] at c9
        obtain ⟨hall, hpw, hne⟩ := canonIntervals_some _ _ c9
        simp only
        exact shifted_intervals_canon _ _ _ he0 he hne (by simpa using hall) hpw (hnw _ hL)


/-! ### the normalisation is invisible to the library's `==` and recoverable from `canon` -/

theorem nodup_of_canon_normalize (x : Annotation) (h : canon (normalize x) = true) :
    ∀ l, x.internal = some l → (l.map (·.1)).Nodup := by
  intro l hl
  have c8 := ((canon_iff (normalize x)).1 h).2.2.2.2.2.2.2.1
  simp only [normalize, hl] at c8
  have hperm := sortBy_perm entryKey l
  unfold normInternal at c8
  change canonInternal _ (match sortBy entryKey l with | [] => none | y => some y) = true at c8
  cases hS : sortBy entryKey l with
  | nil =>
    rw [hS] at hperm
    have : l = [] := hperm.symm.eq_nil
    subst this; simp
  | cons y t =>
    rw [hS] at c8
    obtain ⟨_, hstrict, _⟩ := canonInternal_some _ _ c8
    have := nodup_keys_of_strict _ hstrict
    rw [← hS] at this
    exact ((hperm.map (·.1)).nodup_iff).1 this

theorem lookup_eq_dictGet (k : Int) (d : List (Int × List Mod)) : d.lookup k = Pept.dictGet k d := by
  induction d with
  | nil => rfl
  | cons p t ih =>
    obtain ⟨k', v⟩ := p
    simp only [List.lookup_cons, Pept.dictGet]
    by_cases h : k' = k
    · subst h; simp
    · have : (k == k') = false := by simp; omega
      simp [this, h, ih]

theorem getInternal_normalize (x : Annotation) (hnd : ∀ l, x.internal = some l → (l.map (·.1)).Nodup) (k : Int) :
    getInternal (normalize x) k = getInternal x k := by
  unfold getInternal
  simp only [normalize]
  cases hd : x.internal with
  | none => rfl
  | some l =>
    have hperm := sortBy_perm entryKey l
    unfold normInternal
    show (match (match sortBy entryKey l with | [] => none | y => some y) with
      | none => none | some d => d.lookup k) = l.lookup k
    cases hS : sortBy entryKey l with
    | nil =>
      rw [hS] at hperm
      have : l = [] := hperm.symm.eq_nil
      subst this; rfl
    | cons y t =>
      simp only
      rw [← hS, lookup_eq_dictGet, lookup_eq_dictGet,
        dictGet_perm k _ _ hperm (((hperm.map (·.1)).nodup_iff).2 (hnd l hd))]

/-- the library's `==` does not distinguish an annotation from its normal form -/
theorem annEq_normalize (x : Annotation) (hnd : ∀ l, x.internal = some l → (l.map (·.1)).Nodup) :
    annEq (normalize x) x = true := by
  rw [annEq_iff]
  refine ⟨rfl, areModsEqual_bequiv.refl _, areModsEqual_bequiv.refl _, areModsEqual_bequiv.refl _,
    areModsEqual_bequiv.refl _, areModsEqual_bequiv.refl _, areModsEqual_bequiv.refl _, areModsEqual_bequiv.refl _,
    ?_, areIntervalsEqual_bequiv.refl _, rfl⟩
  intro k
  rw [getInternal_normalize x hnd k]
  exact areModsEqual_bequiv.refl _

/-- residue modifications already in key order and not `{}`: the normal form is the annotation itself -/
theorem normalize_of_sorted (x : Annotation)
    (hs : ∀ l, x.internal = some l → l.Pairwise (fun p q => p.1 < q.1) ∧ l ≠ [] ∧ ∀ p ∈ l, 0 ≤ p.1) : normalize x = x := by
  cases hd : x.internal with
  | none =>
    cases x; simp_all [normalize, normInternal]
  | some l =>
    obtain ⟨h1, h2, h3⟩ := hs l hd
    have hsorted : sortBy entryKey l = l := by
      apply sortBy_of_sorted
      refine h1.imp_of_mem ?_
      intro p q hp hq h
      have := h3 p hp; have := h3 q hq
      unfold entryKey; omega
    have : normInternal (some l) = some l := by
      unfold normInternal
      show (match sortBy entryKey l with | [] => none | y => some y) = some l
      rw [hsorted]
      cases l with
      | nil => exact absurd rfl h2
      | cons y t => rfl
    cases x
    simp only [normalize] at hd ⊢
    subst hd
    simp only [this]


/-! ### unmodified annotations -/

theorem serializeResidues_plain (plus : Plus) (s : List Char) (i : Int) (rest : List Char) :
    serializeResidues plus (plain s) i rest = rest := by
  induction rest generalizing i with
  | nil => rfl
  | cons c t ih =>
    simp only [serializeResidues, ih]
    rfl

/-- an unmodified annotation is written as its residue string -/
theorem serialize_plain (plus : Plus) (s : List Char) : serialize plus (plain s) = s := by
  unfold serialize serializeMiddle
  rw [show (plain s).seq = s from rfl, serializeResidues_plain]
  simp [serializeStart, serializeEnd, plain, optMods]

end Pept.Reorder
