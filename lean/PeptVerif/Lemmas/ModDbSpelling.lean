import PeptVerif.Lemmas.ModDbLemmas
/-!
Spelling invariance of the resolver model for ANY tables that satisfy the (kernel-checkable) hygiene facts
`VocabFacts`; instantiated with the generated tables in `Props/C10.lean`.  Mathlib-free.
-/
namespace ModDb
open Formula KSort

/-- what the table checks of `Props/C10Tab*.lean` establish -/
structure VocabFacts (T : Tables) : Prop where
  uKeys : KeysOK T.unimod
  pKeys : KeysOK T.psimod
  xKeys : KeysOK T.xlmod
  uClean : ∀ e ∈ T.unimod, keyClean e.id = true ∧ keyClean e.name = true
  pClean : ∀ e ∈ T.psimod, keyClean e.id = true ∧ keyClean e.name = true
  xClean : ∀ e ∈ T.xlmod, keyClean e.id = true ∧ keyClean e.name = true
  uNum : ∀ e ∈ T.unimod, convertType e.name = .str
  pNum : ∀ e ∈ T.psimod, convertType e.name = .str
  cross : ∀ e ∈ T.unimod, e.name ∉ collisions → notPsiKey T e.name

theorem hasPrefix_reserved_spelled {ps : List Str} (hsub : ∀ p ∈ ps, p ∈ reserved) {p p' : Str} (hp : p ∈ ps)
    (hl : lower p' = p) (k : Str) : hasPrefix reserved (p' ++ k) = true :=
  hasPrefix_spelled (hsub p hp) hl k

/-- a prefixed spelling is never a key of a clean vocabulary -/
theorem notKey_of_prefixed {db : List Entry} (hclean : ∀ e ∈ db, keyClean e.id = true ∧ keyClean e.name = true)
    {s : Str} (hs : hasPrefix reserved s = true) : byId db s = none ∧ byName db s = none := by
  constructor
  · apply lookupLast_none
    intro e he heq
    have := (keyClean_unpack (hclean e he).1).2.2.1
    rw [heq, hs] at this; cases this
  · apply lookupLast_none
    intro e he heq
    have := (keyClean_unpack (hclean e he).2).2.2.1
    rw [heq, hs] at this; cases this

theorem not_mem_append {x : Nat} {a b : Str} (ha : x ∉ a) (hb : x ∉ b) : x ∉ a ++ b := by
  simp [ha, hb]

section
variable {T : Tables} (F : VocabFacts T)
include F

/-- Unimod: every prefixed spelling of name or accession resolves to the entry's own mass (or its own error) -/
theorem unimod_prefixed_mass {e : Entry} (he : e ∈ T.unimod) {p p' : Str} (hp : p ∈ pUnimod) (hl : lower p' = p)
    (mono : Bool) :
    modMass T (p' ++ e.name) mono = entryMass T e mono ∧ modMass T (p' ++ e.id) mono = entryMass T e mono := by
  have hg := pUnimod_good p hp
  obtain ⟨_, _, _, hp35, hp124⟩ := spelled_decomp hg hl
  have hcn := keyClean_unpack (F.uClean e he).2
  have hci := keyClean_unpack (F.uClean e he).1
  have hres := fun k => hasPrefix_reserved_spelled (ps := pUnimod) (by decide) hp hl k
  constructor
  · apply modMass_single mono (not_mem_append hp124 hcn.2.1)
    rw [parseModMass_unimod_prefixed mono hp hl hcn.1 (notKey_of_prefixed F.pClean (hres _)),
      getMass_of_find mono hcn.2.2.2 (findEntry_name F.uKeys he)]
  · apply modMass_single mono (not_mem_append hp124 hci.2.1)
    rw [parseModMass_unimod_prefixed mono hp hl hci.1 (notKey_of_prefixed F.pClean (hres _)),
      getMass_of_find mono hci.2.2.2 (findEntry_id F.uKeys he)]

theorem unimod_prefixed_comp {e : Entry} (he : e ∈ T.unimod) {p p' : Str} (hp : p ∈ pUnimod) (hl : lower p' = p) :
    modComp T (p' ++ e.name) = entryCompParsed e ∧ modComp T (p' ++ e.id) = entryCompParsed e := by
  have hg := pUnimod_good p hp
  obtain ⟨_, _, _, hp35, hp124⟩ := spelled_decomp hg hl
  have hcn := keyClean_unpack (F.uClean e he).2
  have hci := keyClean_unpack (F.uClean e he).1
  have hres := fun k => hasPrefix_reserved_spelled (ps := pUnimod) (by decide) hp hl k
  constructor
  · apply modComp_single (not_mem_append hp124 hcn.2.1)
    rw [parseModComp_unimod_prefixed hp hl hcn.1 (notKey_of_prefixed F.pClean (hres _)),
      compOfKey_of_find hcn.2.2.2 (findEntry_name F.uKeys he)]
  · apply modComp_single (not_mem_append hp124 hci.2.1)
    rw [parseModComp_unimod_prefixed hp hl hci.1 (notKey_of_prefixed F.pClean (hres _)),
      compOfKey_of_find hci.2.2.2 (findEntry_id F.uKeys he)]

/-- Unimod: the bare name resolves to the entry's own mass unless the name is also a PSI-MOD name -/
theorem unimod_bare_mass {e : Entry} (he : e ∈ T.unimod) (hn : e.name ∉ collisions) (mono : Bool) :
    modMass T e.name mono = entryMass T e mono := by
  have hcn := keyClean_unpack (F.uClean e he).2
  have hfind := findEntry_name F.uKeys he
  have hin : ((byId T.unimod e.name).isSome || (byName T.unimod e.name).isSome) = true := by
    have h2 : byName T.unimod e.name = some e :=
      lookupLast_unique T.unimod e he (fun e' he' h => F.uKeys.nameInj e' he' e he h)
    simp [h2]
  apply modMass_single mono hcn.2.1
  rw [parseModMass_bare_unimod mono (F.uClean e he).2 (F.uNum e he) (F.cross e he hn) hin,
    getMass_of_find mono hcn.2.2.2 hfind]

theorem unimod_bare_comp {e : Entry} (he : e ∈ T.unimod) (hn : e.name ∉ collisions) :
    modComp T e.name = entryCompParsed e := by
  have hcn := keyClean_unpack (F.uClean e he).2
  have hfind := findEntry_name F.uKeys he
  have hin : ((byId T.unimod e.name).isSome || (byName T.unimod e.name).isSome) = true := by
    have h2 : byName T.unimod e.name = some e :=
      lookupLast_unique T.unimod e he (fun e' he' h => F.uKeys.nameInj e' he' e he h)
    simp [h2]
  apply modComp_single hcn.2.1
  rw [parseModComp_bare_unimod (F.uClean e he).2 (F.uNum e he) (F.cross e he hn) hin,
    compOfKey_of_find hcn.2.2.2 hfind]

/-- PSI-MOD: bare name and every prefixed spelling of name or accession resolve to the entry's own mass / error -/
theorem psi_prefixed_mass {e : Entry} (he : e ∈ T.psimod) {p p' : Str} (hp : p ∈ pPsi) (hl : lower p' = p)
    (mono : Bool) :
    modMass T (p' ++ e.name) mono = entryMass T e mono ∧ modMass T (p' ++ e.id) mono = entryMass T e mono := by
  have hg := pPsi_good p hp
  obtain ⟨_, _, _, hp35, hp124⟩ := spelled_decomp hg hl
  have hcn := keyClean_unpack (F.pClean e he).2
  have hci := keyClean_unpack (F.pClean e he).1
  constructor
  · apply modMass_single mono (not_mem_append hp124 hcn.2.1)
    rw [parseModMass_psi_prefixed mono hp hl hcn.1, getMass_of_find mono hcn.2.2.2 (findEntry_name F.pKeys he)]
  · apply modMass_single mono (not_mem_append hp124 hci.2.1)
    rw [parseModMass_psi_prefixed mono hp hl hci.1, getMass_of_find mono hci.2.2.2 (findEntry_id F.pKeys he)]

theorem psi_prefixed_comp {e : Entry} (he : e ∈ T.psimod) {p p' : Str} (hp : p ∈ pPsi) (hl : lower p' = p) :
    modComp T (p' ++ e.name) = entryCompParsed e ∧ modComp T (p' ++ e.id) = entryCompParsed e := by
  have hg := pPsi_good p hp
  obtain ⟨_, _, _, hp35, hp124⟩ := spelled_decomp hg hl
  have hcn := keyClean_unpack (F.pClean e he).2
  have hci := keyClean_unpack (F.pClean e he).1
  constructor
  · apply modComp_single (not_mem_append hp124 hcn.2.1)
    rw [parseModComp_psi_prefixed hp hl hcn.1, compOfKey_of_find hcn.2.2.2 (findEntry_name F.pKeys he)]
  · apply modComp_single (not_mem_append hp124 hci.2.1)
    rw [parseModComp_psi_prefixed hp hl hci.1, compOfKey_of_find hci.2.2.2 (findEntry_id F.pKeys he)]

theorem psi_bare_mass {e : Entry} (he : e ∈ T.psimod) (mono : Bool) : modMass T e.name mono = entryMass T e mono := by
  have hcn := keyClean_unpack (F.pClean e he).2
  have hin : ((byId T.psimod e.name).isSome || (byName T.psimod e.name).isSome) = true := by
    have h2 : byName T.psimod e.name = some e :=
      lookupLast_unique T.psimod e he (fun e' he' h => F.pKeys.nameInj e' he' e he h)
    simp [h2]
  apply modMass_single mono hcn.2.1
  rw [parseModMass_bare_psi mono (F.pClean e he).2 (F.pNum e he) hin,
    getMass_of_find mono hcn.2.2.2 (findEntry_name F.pKeys he)]

theorem psi_bare_comp {e : Entry} (he : e ∈ T.psimod) : modComp T e.name = entryCompParsed e := by
  have hcn := keyClean_unpack (F.pClean e he).2
  have hin : ((byId T.psimod e.name).isSome || (byName T.psimod e.name).isSome) = true := by
    have h2 : byName T.psimod e.name = some e :=
      lookupLast_unique T.psimod e he (fun e' he' h => F.pKeys.nameInj e' he' e he h)
    simp [h2]
  apply modComp_single hcn.2.1
  rw [parseModComp_bare_psi (F.pClean e he).2 (F.pNum e he) hin,
    compOfKey_of_find hcn.2.2.2 (findEntry_name F.pKeys he)]

/-- XLMOD (prefixed spellings only) -/
theorem xlmod_prefixed_mass {e : Entry} (he : e ∈ T.xlmod) {p p' : Str} (hp : p ∈ pXlmod) (hl : lower p' = p)
    (mono : Bool) :
    modMass T (p' ++ e.name) mono = entryMass T e mono ∧ modMass T (p' ++ e.id) mono = entryMass T e mono := by
  have hg := pXlmod_good p hp
  obtain ⟨_, _, _, hp35, hp124⟩ := spelled_decomp hg hl
  have hcn := keyClean_unpack (F.xClean e he).2
  have hci := keyClean_unpack (F.xClean e he).1
  constructor
  · apply modMass_single mono (not_mem_append hp124 hcn.2.1)
    rw [parseModMass_xlmod_prefixed mono hp hl hcn.1, getMass_of_find mono hcn.2.2.2 (findEntry_name F.xKeys he)]
  · apply modMass_single mono (not_mem_append hp124 hci.2.1)
    rw [parseModMass_xlmod_prefixed mono hp hl hci.1, getMass_of_find mono hci.2.2.2 (findEntry_id F.xKeys he)]

theorem xlmod_prefixed_comp {e : Entry} (he : e ∈ T.xlmod) {p p' : Str} (hp : p ∈ pXlmod) (hl : lower p' = p) :
    modComp T (p' ++ e.name) = entryCompParsed e ∧ modComp T (p' ++ e.id) = entryCompParsed e := by
  have hg := pXlmod_good p hp
  obtain ⟨_, _, _, hp35, hp124⟩ := spelled_decomp hg hl
  have hcn := keyClean_unpack (F.xClean e he).2
  have hci := keyClean_unpack (F.xClean e he).1
  constructor
  · apply modComp_single (not_mem_append hp124 hcn.2.1)
    rw [parseModComp_xlmod_prefixed hp hl hcn.1, compOfKey_of_find hcn.2.2.2 (findEntry_name F.xKeys he)]
  · apply modComp_single (not_mem_append hp124 hci.2.1)
    rw [parseModComp_xlmod_prefixed hp hl hci.1, compOfKey_of_find hci.2.2.2 (findEntry_id F.xKeys he)]

end

end ModDb
