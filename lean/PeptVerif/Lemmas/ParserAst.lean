import PeptVerif.Lemmas.ParserSurface
/-!
Helper lemmas for C01: the parser reads the text of a surface-syntax tree (`Spec/ProForma.lean`: `SMod` … `SText`) into
what the tree denotes. No Mathlib.
-/
namespace Pept

/-! ### modifications in any spelling -/

theorem SMod.render_eq_cons (o c : Char) (s : SMod) : s.render o c = o :: (s.render o c).tail := rfl

/-- `_parse_modification` on `txt]^n…` -/
theorem parseModBody_text (o c : Char) (hoc : o ≠ c) (s : SMod) (hw : s.wf o c = true) (rest : List Char)
    (hrest : ModStop rest) : parseModBody o c ((s.render o c).tail ++ rest) = .ok (s.denote, rest) := by
  obtain ⟨txt, mult⟩ := s
  simp only [SMod.wf, Bool.and_eq_true] at hw
  obtain ⟨hbal, hm⟩ := hw
  simp only [SMod.render, List.tail_cons, List.append_assoc, List.cons_append]
  unfold parseModBody
  rw [scan_balanced o c hoc _ _ hbal]
  cases mult with
  | none =>
    simp only [List.nil_append, SMod.denote]
    cases rest with
    | nil => rfl
    | cons x t =>
      have := (hrest x rfl).1
      split
      · rename_i r heq; cases heq; exact absurd rfl this
      · rfl
  | some n =>
    simp only [decide_eq_true_eq] at hm
    simp only [List.cons_append, SMod.denote]
    have htw := takeWhile_append_stop Char.isDigit (natText n) rest (natText_digits _) (fun x hx => (hrest x hx).2)
    have hdw := dropWhile_append_stop Char.isDigit (natText n) rest (natText_digits _) (fun x hx => (hrest x hx).2)
    rw [htw, hdw, if_neg (natText_ne_nil _), natText_value, if_neg (by omega)]

theorem renderMods_cons (o c : Char) (s : SMod) (t : List SMod) :
    renderMods o c (s :: t) = s.render o c ++ renderMods o c t := by simp [renderMods]

theorem renderMods_head (o c : Char) (s : SMod) (t : List SMod) (r : List Char) :
    (renderMods o c (s :: t) ++ r).head? = some o := by
  rw [renderMods_cons, SMod.render_eq_cons]; rfl

theorem modStop_renderMods (o c : Char) (ho1 : o ≠ '^') (ho2 : o.isDigit = false) (l : List SMod) (rest : List Char)
    (hrest : ModStop rest) : ModStop (renderMods o c l ++ rest) := by
  cases l with
  | nil => simpa [renderMods] using hrest
  | cons s t =>
    intro x hx
    rw [renderMods_head] at hx
    cases hx; exact ⟨ho1, ho2⟩

/-- `_parse_modifications` on a run of modifications in any spelling -/
theorem parseMods_text (o c : Char) (hoc : o ≠ c) (ho1 : o ≠ '^') (ho2 : o.isDigit = false) (l : List SMod)
    (hl : l.all (SMod.wf o c) = true) (rest : List Char) (hrest : ModStop rest) (hro : rest.head? ≠ some o) :
    parseMods o c (renderMods o c l ++ rest) = .ok (l.map SMod.denote, rest) := by
  induction l with
  | nil =>
    simp only [renderMods, List.flatMap_nil, List.nil_append, List.map_nil]
    rw [parseMods.eq_def]
    cases rest with
    | nil => rfl
    | cons x xs =>
      have : x ≠ o := by intro h; apply hro; simp [h]
      simp [this]
  | cons s t ih =>
    simp only [List.all_cons, Bool.and_eq_true] at hl
    rw [renderMods_cons, SMod.render_eq_cons]
    simp only [List.cons_append, List.append_assoc]
    rw [parseMods.eq_def]
    simp only [↓reduceIte]
    have h1 := parseModBody_text o c hoc s hl.1 (renderMods o c t ++ rest) (modStop_renderMods o c ho1 ho2 t rest hrest)
    split
    · rename_i e he; rw [h1] at he; cases he
    · rename_i m' rest' hb
      rw [h1] at hb; cases hb
      rw [ih hl.2]; rfl

/-! ### text interface: a block `T` that `_parse_modifications` reads as the list `l` -/

/-- `T` is the text of a non-empty run of `[`-modifications denoting `l`, whatever follows it (`MidStop`) -/
def BracketRun (T : List Char) (l : List Mod) : Prop :=
  T.head? = some '[' ∧ l ≠ [] ∧ ∀ t, MidStop t → parseMods '[' ']' (T ++ t) = .ok (l, t)

theorem bracketRun_renderMods (l : List SMod) (hne : l ≠ []) (hl : l.all (SMod.wf '[' ']') = true) :
    BracketRun (renderMods '[' ']' l) (l.map SMod.denote) := by
  refine ⟨?_, by simpa using hne, fun t ht => parseMods_text '[' ']' (by decide) (by decide) (by decide) l hl t ht.1 ht.2⟩
  cases l with
  | nil => exact absurd rfl hne
  | cons s t => simpa using renderMods_head '[' ']' s t []

theorem BracketRun.cons {T : List Char} {l : List Mod} (h : BracketRun T l) : ∃ T', T = '[' :: T' := by
  obtain ⟨hh, _, _⟩ := h
  cases T with
  | nil => simp at hh
  | cons x T' => simp at hh; exact ⟨T', by rw [hh]⟩

theorem pm_modsT (acc : Annotation) (hseq : acc.seq ≠ []) (dm : Option (Int × Bool)) (T : List Char) (l : List Mod)
    (hT : BracketRun T l) (t : List Char) (ht : MidStop t) :
    parseMiddle acc dm (T ++ t) = parseMiddle (addInternal acc l) dm t := by
  obtain ⟨T', rfl⟩ := hT.cons
  have h2 := hT.2.2 t ht
  simp only [List.cons_append] at h2 ⊢
  rw [parseMiddle.eq_def]
  have hA : isAA '[' = false := by decide
  simp [hA, hseq]
  split
  · rename_i e he; rw [h2] at he; cases he
  · rename_i ms' rest' hb
    rw [h2] at hb; cases hb; rfl

theorem pm_close_modsT (acc : Annotation) (st : Int) (hst : st ≠ Int.ofNat acc.seq.length) (amb : Bool)
    (T : List Char) (l : List Mod) (hT : BracketRun T l) (t : List Char) (ht : MidStop t) :
    parseMiddle acc (some (st, amb)) (')' :: (T ++ t)) =
      parseMiddle (addInterval acc ⟨st, Int.ofNat acc.seq.length, amb, some l⟩) none t := by
  have h2 := hT.2.2 t ht
  have hh : (T ++ t).head? = some '[' := by
    obtain ⟨T', rfl⟩ := hT.cons; rfl
  rw [parseMiddle.eq_def]
  have hA : isAA ')' = false := by decide
  have hst' : ¬ st = (acc.seq.length : Int) := by simpa [Int.ofNat_eq_natCast] using hst
  simp [hA, hh, hst']
  split
  · rename_i e he; rw [h2] at he; cases he
  · rename_i ms' rest' hb
    rw [h2] at hb; cases hb; rfl

theorem pm_ctermT (acc : Annotation) (T : List Char) (l : List Mod) (hT : BracketRun T l) (t : List Char)
    (ht : MidStop t) :
    parseMiddle acc none ('-' :: (T ++ t)) = .ok ({ acc with cterm := addMods acc.cterm l }, t) := by
  have h2 := hT.2.2 t ht
  rw [parseMiddle.eq_def]
  have hA : isAA '-' = false := by decide
  simp [hA, h2, hT.2.1]

/-! ### residues, residue modifications, intervals -/

/-- every key of the residue-modification dict is below the number of residues read so far -/
def KeysBelow (a : Annotation) : Prop := ∀ p ∈ a.internal.getD [], p.1 < Int.ofNat a.seq.length

theorem midStop_of_AA (c : Char) (t : List Char) (hc : isAA c = true) : MidStop (c :: t) :=
  ⟨ModStop.cons (isAA_ne c '^' hc (by decide)) (isAA_not_digit c hc), by simp; exact isAA_ne c '[' hc (by decide)⟩

theorem midStop_inner (l : List SRes) (hl : l.all SRes.wf = true) (rest : List Char) (hrest : MidStop rest) :
    MidStop (l.flatMap SRes.render ++ rest) := by
  cases l with
  | nil => simpa using hrest
  | cons r t =>
    simp only [List.all_cons, Bool.and_eq_true, SRes.wf] at hl
    simp only [List.flatMap_cons, SRes.render, List.cons_append, List.append_assoc]
    exact midStop_of_AA _ _ hl.1.1

theorem optList_map_isEmpty {α β} (f : α → β) (l : List α) : (l.map f).isEmpty = l.isEmpty := by
  cases l <;> rfl

theorem res_step (acc : Annotation) (hk : KeysBelow acc) (dm : Option (Int × Bool)) (r : SRes) (hr : r.wf = true)
    (rest : List Char) (hrest : MidStop rest) :
    parseMiddle acc dm (r.render ++ rest) = parseMiddle (r.denote acc) dm rest ∧ KeysBelow (r.denote acc) := by
  obtain ⟨c, mods⟩ := r
  simp only [SRes.wf, Bool.and_eq_true] at hr
  simp only [SRes.render, List.cons_append]
  rw [pm_res _ _ _ _ hr.1]
  cases hm : mods with
  | nil =>
    refine ⟨?_, ?_⟩
    · simp [renderMods, SRes.denote]
    · intro p hp
      have := hk p (by simpa [SRes.denote] using hp)
      simp only [SRes.denote, List.length_append, List.length_cons, List.length_nil, Int.ofNat_eq_natCast] at this ⊢
      omega
  | cons s t =>
    have hrun := bracketRun_renderMods (s :: t) (by simp) (by rw [← hm]; exact hr.2)
    rw [pm_modsT _ (by simp) dm _ _ hrun rest hrest]
    have hext : dictExtend (Int.ofNat (acc.seq ++ [c]).length - 1) ((s :: t).map SMod.denote) (acc.internal.getD []) =
        acc.internal.getD [] ++ [(Int.ofNat acc.seq.length, (s :: t).map SMod.denote)] := by
      have : Int.ofNat (acc.seq ++ [c]).length - 1 = Int.ofNat acc.seq.length := by
        simp only [List.length_append, List.length_cons, List.length_nil, Int.ofNat_eq_natCast]; omega
      rw [this]
      exact dictExtend_new _ _ _ hk
    refine ⟨?_, ?_⟩
    · congr 1
      simp only [addInternal, SRes.denote, List.isEmpty_cons, Bool.false_eq_true, ↓reduceIte]
      rw [hext]
    · intro p hp
      simp only [SRes.denote, List.isEmpty_cons, Bool.false_eq_true, ↓reduceIte, Option.getD_some, List.mem_append,
        List.mem_singleton] at hp
      simp only [SRes.denote, List.length_append, List.length_cons, List.length_nil, Int.ofNat_eq_natCast]
      rcases hp with hp | hp
      · have := hk p hp; simp only [Int.ofNat_eq_natCast] at this; omega
      · subst hp; simp only [Int.ofNat_eq_natCast]; omega

theorem SRes.denote_seq (a : Annotation) (r : SRes) : (r.denote a).seq = a.seq ++ [r.c] := rfl
theorem SRes.denote_intervals (a : Annotation) (r : SRes) : (r.denote a).intervals = a.intervals := rfl

theorem foldl_res_length (l : List SRes) (a : Annotation) :
    (l.foldl SRes.denote a).seq.length = a.seq.length + l.length := by
  induction l generalizing a with
  | nil => simp
  | cons r t ih => rw [List.foldl_cons, ih, SRes.denote_seq]; simp; omega

theorem foldl_res_intervals (l : List SRes) (a : Annotation) : (l.foldl SRes.denote a).intervals = a.intervals := by
  induction l generalizing a with
  | nil => rfl
  | cons r t ih => rw [List.foldl_cons, ih, SRes.denote_intervals]

theorem inner_steps (l : List SRes) (hl : l.all SRes.wf = true) (acc : Annotation) (hk : KeysBelow acc)
    (dm : Option (Int × Bool)) (rest : List Char) (hrest : MidStop rest) :
    parseMiddle acc dm (l.flatMap SRes.render ++ rest) = parseMiddle (l.foldl SRes.denote acc) dm rest ∧
      KeysBelow (l.foldl SRes.denote acc) := by
  induction l generalizing acc with
  | nil => exact ⟨rfl, hk⟩
  | cons r t ih =>
    simp only [List.all_cons, Bool.and_eq_true] at hl
    obtain ⟨h1, hk1⟩ := res_step acc hk dm r hl.1 (t.flatMap SRes.render ++ rest) (midStop_inner t hl.2 rest hrest)
    obtain ⟨h2, hk2⟩ := ih hl.2 (r.denote acc) hk1
    simp only [List.flatMap_cons, List.append_assoc, List.foldl_cons]
    rw [h1, h2]
    exact ⟨rfl, hk2⟩

theorem KeysBelow_intervals (a : Annotation) (x : Option (List Interval)) (h : KeysBelow a) :
    KeysBelow { a with intervals := x } := h

theorem seg_step (acc : Annotation) (hk : KeysBelow acc) (sg : SSeg) (hw : sg.wf = true) (rest : List Char)
    (hrest : MidStop rest) :
    parseMiddle acc none (sg.render ++ rest) = parseMiddle (sg.denote acc) none rest ∧ KeysBelow (sg.denote acc) := by
  cases sg with
  | res r => exact res_step acc hk none r hw rest hrest
  | group amb inner mods =>
    simp only [SSeg.wf, Bool.and_eq_true, Bool.not_eq_eq_eq_not, Bool.not_true] at hw
    obtain ⟨⟨hne, hin⟩, hmods⟩ := hw
    have hne' : inner ≠ [] := by intro h; subst h; simp at hne
    simp only [SSeg.render, List.cons_append, List.append_assoc]
    rw [pm_open]
    have hamb : parseMiddle acc (some (Int.ofNat acc.seq.length, false))
        ((if amb = true then ['?'] else []) ++ (inner.flatMap SRes.render ++ (')' :: (renderMods '[' ']' mods ++ rest)))) =
        parseMiddle acc (some (Int.ofNat acc.seq.length, amb))
          (inner.flatMap SRes.render ++ (')' :: (renderMods '[' ']' mods ++ rest))) := by
      cases amb with
      | false => rfl
      | true => simp [pm_amb]
    rw [hamb]
    have hclose : MidStop (')' :: (renderMods '[' ']' mods ++ rest)) :=
      ⟨ModStop.cons (by decide) (by decide), by simp⟩
    obtain ⟨h1, hk1⟩ := inner_steps inner hin acc hk (some (Int.ofNat acc.seq.length, amb)) _ hclose
    rw [h1]
    have hlen := foldl_res_length inner acc
    have hst : Int.ofNat acc.seq.length ≠ Int.ofNat (inner.foldl SRes.denote acc).seq.length := by
      rw [hlen]
      have : 0 < inner.length := List.length_pos_iff.mpr hne'
      simp only [Int.ofNat_eq_natCast]; omega
    cases hm : mods with
    | nil =>
      simp only [renderMods, List.flatMap_nil, List.nil_append]
      rw [pm_close_none _ _ hst _ _ hrest.2]
      exact ⟨rfl, hk1⟩
    | cons s t =>
      have hrun := bracketRun_renderMods (s :: t) (by simp) (by rw [← hm]; exact hmods)
      rw [pm_close_modsT _ _ hst _ _ _ hrun rest hrest]
      exact ⟨rfl, hk1⟩

theorem midStop_segs (l : List SSeg) (hl : l.all SSeg.wf = true) (rest : List Char) (hrest : MidStop rest) :
    MidStop (l.flatMap SSeg.render ++ rest) := by
  cases l with
  | nil => simpa using hrest
  | cons sg t =>
    simp only [List.all_cons, Bool.and_eq_true] at hl
    cases sg with
    | res r =>
      simp only [SSeg.wf, SRes.wf, Bool.and_eq_true] at hl
      simp only [List.flatMap_cons, SSeg.render, SRes.render, List.cons_append, List.append_assoc]
      exact midStop_of_AA _ _ hl.1.1
    | group amb inner mods =>
      simp only [List.flatMap_cons, SSeg.render, List.cons_append, List.append_assoc]
      exact ⟨ModStop.cons (by decide) (by decide), by simp⟩

/-- **the residue sequence with its modifications and intervals**, any spellings -/
theorem segs_steps (l : List SSeg) (hl : l.all SSeg.wf = true) (acc : Annotation) (hk : KeysBelow acc)
    (rest : List Char) (hrest : MidStop rest) :
    parseMiddle acc none (l.flatMap SSeg.render ++ rest) = parseMiddle (l.foldl SSeg.denote acc) none rest := by
  induction l generalizing acc with
  | nil => rfl
  | cons sg t ih =>
    simp only [List.all_cons, Bool.and_eq_true] at hl
    obtain ⟨h1, hk1⟩ := seg_step acc hk sg hl.1 (t.flatMap SSeg.render ++ rest) (midStop_segs t hl.2 rest hrest)
    simp only [List.flatMap_cons, List.append_assoc, List.foldl_cons]
    rw [h1, ih hl.2 _ hk1]

/-! ### the leading sections -/

theorem addGlobals_str (ms : List Mod) (h : ∀ m ∈ ms, isStr m.val = true ∧ m.mult = 1) (acc : Annotation) :
    addGlobals true acc ms =
      .ok { acc with static := appendRun acc.static (ms.filter fun m => strHasAt m.val),
                     isotope := appendRun acc.isotope (ms.filter fun m => !strHasAt m.val) } := by
  induction ms generalizing acc with
  | nil => simp [addGlobals, appendRun]
  | cons m t ih =>
    obtain ⟨v, mult⟩ := m
    obtain ⟨hs, hm⟩ := h ⟨v, mult⟩ (by simp)
    simp only at hm
    subst hm
    cases v with
    | int i => simp [isStr] at hs
    | flt r => simp [isStr] at hs
    | str tx =>
      have ht := ih (fun m hm => h m (by simp [hm]))
      by_cases hat : tx.contains '@' = true
      · simp only [addGlobals, hat, ↓reduceIte, show ¬ ((1 : Int) > 1) by decide]
        rw [ht]
        simp only [List.filter_cons, strHasAt, hat, Bool.not_true, Bool.false_eq_true, ↓reduceIte]
        congr 2
        cases hf : List.filter (fun m => strHasAt m.val) t <;> simp [appendRun, addMods, strHasAt] at * <;> simp_all
      · have hat' : tx.contains '@' = false := by simpa using hat
        simp only [addGlobals, hat', Bool.false_eq_true, ↓reduceIte, show ¬ ((1 : Int) > 1) by decide]
        rw [ht]
        simp only [List.filter_cons, strHasAt, hat', Bool.not_false, Bool.false_eq_true, ↓reduceIte]
        congr 2
        cases hf : List.filter (fun m => !strHasAt m.val) t <;> simp [appendRun, addMods, strHasAt] at * <;> simp_all

theorem sstart_step (acc : Annotation) (it : SStart) (hw : it.wf = true) (rest : List Char) (hrest : ModStop rest)
    (hlt : it.isGlobals = true → rest.head? ≠ some '<') :
    parseStart true acc (it.render ++ rest) = parseStart true (it.denote acc) rest := by
  cases it with
  | labile m =>
    simp only [SStart.wf] at hw
    have h1 := parseModBody_text '{' '}' (by decide) m hw rest hrest
    rw [SStart.render, SMod.render_eq_cons]
    simp only [List.cons_append]
    rw [parseStart.eq_def]
    have hA : isAA '{' = false := by decide
    simp [hA]
    split
    · rename_i e he; rw [h1] at he; cases he
    · rename_i m' rest' hb
      rw [h1] at hb; cases hb; rfl
  | globals g =>
    simp only [SStart.wf, Bool.and_eq_true, Bool.not_eq_eq_eq_not, Bool.not_true] at hw
    obtain ⟨hne, hall⟩ := hw
    cases g with
    | nil => simp at hne
    | cons s t =>
      have hwf : (s :: t).all (SMod.wf '<' '>') = true := by
        rw [List.all_eq_true] at hall ⊢
        intro m hm
        have := hall m hm
        simp only [SMod.wfGlobal, Bool.and_eq_true] at this
        exact this.1.1
      have h2 := parseMods_text '<' '>' (by decide) (by decide) (by decide) (s :: t) hwf rest hrest (hlt rfl)
      have hstr : ∀ m ∈ (s :: t).map SMod.denote, isStr m.val = true ∧ m.mult = 1 := by
        intro m hm
        rw [List.mem_map] at hm
        obtain ⟨x, hx, rfl⟩ := hm
        have := (List.all_eq_true.mp hall) x hx
        simp only [SMod.wfGlobal, Bool.and_eq_true] at this
        refine ⟨this.1.2, ?_⟩
        obtain ⟨txt, mult⟩ := x
        cases mult with
        | none => rfl
        | some n =>
          have h3 := this.2
          simp only [decide_eq_true_eq] at h3
          subst h3; rfl
      rw [SStart.render]
      rw [renderMods_cons, SMod.render_eq_cons] at h2 ⊢
      simp only [List.cons_append, List.append_assoc] at h2 ⊢
      rw [parseStart.eq_def]
      have hA : isAA '<' = false := by decide
      simp [hA]
      split
      · rename_i e he; rw [h2] at he; cases he
      · rename_i ms rest' hb
        rw [h2] at hb; cases hb
        rw [addGlobals_str _ hstr]
        rfl
  | unknown l =>
    simp only [SStart.wf, Bool.and_eq_true, Bool.not_eq_eq_eq_not, Bool.not_true] at hw
    obtain ⟨hne, hall⟩ := hw
    cases l with
    | nil => simp at hne
    | cons s t =>
      have h2 := parseMods_text '[' ']' (by decide) (by decide) (by decide) (s :: t) hall ('?' :: rest)
        (ModStop.cons (by decide) (by decide)) (by simp)
      rw [SStart.render]
      rw [renderMods_cons, SMod.render_eq_cons] at h2 ⊢
      simp only [List.cons_append, List.append_assoc, List.nil_append] at h2 ⊢
      rw [parseStart.eq_def]
      have hA : isAA '[' = false := by decide
      simp [hA]
      split
      · rename_i e he; rw [h2] at he; cases he
      · rename_i ms rest' hb
        rw [h2] at hb; cases hb
        simp [SStart.denote, addMods]
  | nterm l =>
    simp only [SStart.wf, Bool.and_eq_true, Bool.not_eq_eq_eq_not, Bool.not_true] at hw
    obtain ⟨hne, hall⟩ := hw
    cases l with
    | nil => simp at hne
    | cons s t =>
      have h2 := parseMods_text '[' ']' (by decide) (by decide) (by decide) (s :: t) hall ('-' :: rest)
        (ModStop.cons (by decide) (by decide)) (by simp)
      rw [SStart.render]
      rw [renderMods_cons, SMod.render_eq_cons] at h2 ⊢
      simp only [List.cons_append, List.append_assoc, List.nil_append] at h2 ⊢
      rw [parseStart.eq_def]
      have hA : isAA '[' = false := by decide
      simp [hA]
      split
      · rename_i e he; rw [h2] at he; cases he
      · rename_i ms rest' hb
        rw [h2] at hb; cases hb
        simp [SStart.denote, addMods]

theorem sstart_head (it : SStart) (hw : it.wf = true) (r : List Char) :
    ∃ x t, it.render ++ r = x :: t ∧ (x = '{' ∨ x = '<' ∨ x = '[') ∧ (x = '<' → it.isGlobals = true) := by
  cases it with
  | labile m => exact ⟨'{', _, rfl, Or.inl rfl, fun h => absurd h (by decide)⟩
  | globals g =>
    cases g with
    | nil => simp [SStart.wf] at hw
    | cons s t => exact ⟨'<', _, by rw [SStart.render, renderMods_cons, SMod.render_eq_cons]; rfl, Or.inr (Or.inl rfl), fun _ => rfl⟩
  | unknown l =>
    cases l with
    | nil => simp [SStart.wf] at hw
    | cons s t => exact ⟨'[', _, by rw [SStart.render, renderMods_cons, SMod.render_eq_cons]; rfl, Or.inr (Or.inr rfl),
        fun h => absurd h (by decide)⟩
  | nterm l =>
    cases l with
    | nil => simp [SStart.wf] at hw
    | cons s t => exact ⟨'[', _, by rw [SStart.render, renderMods_cons, SMod.render_eq_cons]; rfl, Or.inr (Or.inr rfl),
        fun h => absurd h (by decide)⟩

theorem sstarts_stop (items : List SStart) (hok : items.all SStart.wf = true) (rest : List Char) (hrest : StartStop rest) :
    ModStop (items.flatMap SStart.render ++ rest) ∧
      ((items.flatMap SStart.render ++ rest).head? = some '<' → ∃ it t, items = it :: t ∧ it.isGlobals = true) := by
  cases items with
  | nil =>
    simp only [List.flatMap_nil, List.nil_append]
    exact ⟨hrest.modStop, fun h => absurd h (hrest.head_ne '<' (by decide) (by decide))⟩
  | cons it t =>
    simp only [List.all_cons, Bool.and_eq_true] at hok
    obtain ⟨x, tl, hx, hx1, hx2⟩ := sstart_head it hok.1 (t.flatMap SStart.render ++ rest)
    have : (it :: t).flatMap SStart.render ++ rest = x :: tl := by rw [← hx]; simp
    rw [this]
    refine ⟨?_, fun h => ⟨it, t, rfl, hx2 (by simpa using h)⟩⟩
    rcases hx1 with h | h | h <;> subst h <;> exact ModStop.cons (by decide) (by decide)

/-- **the leading sections of a tree**, in any order, any spellings -/
theorem sstarts_steps (items : List SStart) (hok : items.all SStart.wf = true) (hadj : sNoAdjacentGlobals items = true)
    (acc : Annotation) (rest : List Char) (hrest : StartStop rest) :
    parseStart true acc (items.flatMap SStart.render ++ rest) = .ok (items.foldl SStart.denote acc, rest) := by
  induction items generalizing acc with
  | nil => simpa using parseStart_stop acc rest hrest
  | cons it t ih =>
    simp only [List.all_cons, Bool.and_eq_true] at hok
    have hadjt : sNoAdjacentGlobals t = true := by
      cases t with
      | nil => rfl
      | cons b t' => simp only [sNoAdjacentGlobals, Bool.and_eq_true] at hadj; exact hadj.2
    obtain ⟨hstop, hlt⟩ := sstarts_stop t hok.2 rest hrest
    have hnl : it.isGlobals = true → (t.flatMap SStart.render ++ rest).head? ≠ some '<' := by
      intro hg h
      obtain ⟨b, t', ht, hb⟩ := hlt h
      subst ht
      cases it <;> cases b <;> simp [sNoAdjacentGlobals, SStart.isGlobals] at hadj hg hb
    simp only [List.flatMap_cons, List.append_assoc, List.foldl_cons]
    rw [sstart_step acc it hok.1 _ hstop hnl, ih hok.2 hadjt]

/-! ### charge, adducts -/

theorem pyInt_plus_natText (n : Nat) : pyInt? ('+' :: natText n) = some (Int.ofNat n) := by
  unfold pyInt?
  have hs : pyStrip ('+' :: natText n) = '+' :: natText n := by
    apply pyStrip_id
    · intro x hx; simp at hx; subst hx; decide
    · intro x hx
      rw [List.getLast?_cons_of_ne_nil (natText_ne_nil _)] at hx
      exact isDigit_not_space x (natText_last_digit _ x hx)
  rw [hs]
  simp only [splitSign, digitsUS_digits false _ (natText_digits _), natText_value]
  simp [natText_ne_nil]

def chargeDigits (q : SCharge) : List Char := (if q.explicitPlus ∧ q.ch ≥ 0 then ['+'] else []) ++ intText q.ch

theorem parseInteger_chargeDigits (q : SCharge) (r : List Char) (hr : IntStop r) :
    parseInteger (chargeDigits q ++ r) = .ok (q.ch, r) := by
  unfold chargeDigits
  by_cases hp : q.explicitPlus ∧ q.ch ≥ 0
  · rw [if_pos hp]
    have hnat : intText q.ch = natText q.ch.natAbs := by unfold intText; rw [if_neg (by omega)]
    rw [hnat]
    have hspan : intSpan 0 (['+'] ++ natText q.ch.natAbs ++ r) = ('+' :: natText q.ch.natAbs, r) := by
      simp only [List.cons_append, List.nil_append, intSpan]
      have h1 : ('+' : Char).isDigit = false := by decide
      simp only [h1, Bool.false_eq_true, ↓reduceIte, true_or, and_self]
      rw [intSpan_digits 0 _ r (natText_digits _),
        intSpan_stop _ r (by have := natText_ne_nil q.ch.natAbs; cases h : natText q.ch.natAbs <;> simp_all) hr]
      simp
    unfold parseInteger
    rw [hspan]
    simp only [pyInt_plus_natText]
    congr 2
    simp only [Int.ofNat_eq_natCast]; omega
  · rw [if_neg hp]
    exact parseInteger_intText q.ch r hr

theorem chargeDigits_head (q : SCharge) : ∀ x, (chargeDigits q).head? = some x → x ≠ '/' := by
  intro x hx
  unfold chargeDigits at hx
  by_cases hp : q.explicitPlus ∧ q.ch ≥ 0
  · rw [if_pos hp] at hx; simp at hx; subst hx; decide
  · rw [if_neg hp] at hx; exact intText_head q.ch x (by simpa using hx)

theorem chargeDigits_ne_nil (q : SCharge) : chargeDigits q ≠ [] := by
  unfold chargeDigits
  intro h
  simp at h
  exact intText_ne_nil _ h.2

/-- `/z[adducts]` in any spelling, up to the end of the input or the joiner of the next chain -/
theorem parseEnd_chargeT (a : Annotation) (ha0 : a.adducts = none) (conn : Option Bool) (q : SCharge) (hq : q.wf = true)
    (rest : List Char) (hrest : ChainStop rest) :
    parseEnd a conn (q.render ++ rest) =
      .ok ({ a with charge := some q.ch, adducts := optList (q.adducts.map SMod.denote) }, stopConn conn rest,
           stopRest rest) := by
  have htext : q.render ++ rest = '/' :: (chargeDigits q ++ (renderMods '[' ']' q.adducts ++ rest)) := by
    simp [SCharge.render, chargeDigits]
  rw [htext, parseEnd.eq_def]
  simp only [↓reduceIte]
  have hh : (chargeDigits q ++ (renderMods '[' ']' q.adducts ++ rest)).head? ≠ some '/' := by
    cases hcd : chargeDigits q with
    | nil => exact absurd hcd (chargeDigits_ne_nil q)
    | cons c t =>
      simp only [List.cons_append, List.head?_cons, ne_eq, Option.some.injEq]
      exact chargeDigits_head q c (by simp [hcd])
  rw [if_neg hh]
  have hstop : IntStop (renderMods '[' ']' q.adducts ++ rest) := fun x hx =>
    ((modStop_renderMods '[' ']' (by decide) (by decide) q.adducts rest hrest.modStop) x hx).2
  have hpi := parseInteger_chargeDigits q _ hstop
  split
  · rename_i e he; rw [hpi] at he; cases he
  · rename_i ch' rest' hb
    rw [hpi] at hb; cases hb
    cases had : q.adducts with
    | nil =>
      have : (renderMods '[' ']' [] ++ rest).head? ≠ some '[' := by
        simpa [renderMods] using hrest.head_ne '[' (by decide) (by decide)
      rw [if_neg this]
      simp only [renderMods, List.flatMap_nil, List.nil_append, List.map_nil, optList, List.isEmpty_nil, ↓reduceIte]
      rw [parseEnd_stop _ _ _ hrest, ← ha0]
    | cons s t =>
      simp only [SCharge.wf, had] at hq
      have hwf : (s :: t).all (SMod.wf '[' ']') = true := by
        rw [List.all_eq_true] at hq ⊢
        intro m hm; have := hq m hm; simp only [Bool.and_eq_true] at this; exact this.1
      have hhead : (renderMods '[' ']' (s :: t) ++ rest).head? = some '[' := renderMods_head _ _ _ _ _
      rw [if_pos hhead]
      have hpm := parseMods_text '[' ']' (by decide) (by decide) (by decide) (s :: t) hwf rest hrest.modStop
        (hrest.head_ne '[' (by decide) (by decide))
      split
      · rename_i e he; rw [hpm] at he; cases he
      · rename_i ms rest'' hb
        rw [hpm] at hb; cases hb
        have hany : (((s :: t).map SMod.denote).any fun m => decide (m.mult > 1)) = false := by
          rw [List.any_eq_false]; intro m hm
          rw [List.mem_map] at hm
          obtain ⟨x, hx, rfl⟩ := hm
          have := (List.all_eq_true.mp hq) x hx
          simp only [Bool.and_eq_true] at this
          obtain ⟨txt, mult⟩ := x
          cases mult with
          | none => simp [SMod.denote]
          | some n =>
            have h3 := this.2
            simp only [decide_eq_true_eq] at h3
            subst h3; simp [SMod.denote]
        simp only [hany, Bool.false_eq_true, ↓reduceIte]
        rw [parseEnd_stop _ _ _ hrest]
        simp [addMods, ha0, optList]

/-! ### one chain -/

/-- the accumulator fields the start and middle sections never touch -/
def EndEmpty (a : Annotation) : Prop := a.cterm = none ∧ a.charge = none ∧ a.adducts = none

theorem sstart_frame (acc : Annotation) (it : SStart) :
    (it.denote acc).seq = acc.seq ∧ (it.denote acc).internal = acc.internal ∧
      (it.denote acc).intervals = acc.intervals ∧ (EndEmpty acc → EndEmpty (it.denote acc)) := by
  cases it <;> exact ⟨rfl, rfl, rfl, fun h => h⟩

theorem sstarts_frame (items : List SStart) (acc : Annotation) :
    (items.foldl SStart.denote acc).seq = acc.seq ∧ (items.foldl SStart.denote acc).internal = acc.internal ∧
      (EndEmpty acc → EndEmpty (items.foldl SStart.denote acc)) := by
  induction items generalizing acc with
  | nil => exact ⟨rfl, rfl, fun h => h⟩
  | cons it t ih =>
    obtain ⟨h1, h2, _, h4⟩ := sstart_frame acc it
    obtain ⟨g1, g2, g3⟩ := ih (it.denote acc)
    rw [List.foldl_cons]
    exact ⟨g1.trans h1, g2.trans h2, fun h => g3 (h4 h)⟩

theorem sres_endEmpty (l : List SRes) (a : Annotation) (h : EndEmpty a) : EndEmpty (l.foldl SRes.denote a) := by
  induction l generalizing a with
  | nil => exact h
  | cons r t ih => exact ih _ h

theorem ssegs_endEmpty (l : List SSeg) (a : Annotation) (h : EndEmpty a) : EndEmpty (l.foldl SSeg.denote a) := by
  induction l generalizing a with
  | nil => exact h
  | cons sg t ih =>
    rw [List.foldl_cons]
    apply ih
    cases sg with
    | res r => exact h
    | group amb inner mods => exact sres_endEmpty inner a h

theorem exists_cons_of_head {α} (L : List α) (x : α) (h : L.head? = some x) : ∃ t, L = x :: t := by
  cases L with
  | nil => simp at h
  | cons y t => simp at h; exact ⟨t, by rw [h]⟩

theorem startStop_segs (l : List SSeg) (hne : l ≠ []) (hl : l.all SSeg.wf = true) (rest : List Char) :
    StartStop (l.flatMap SSeg.render ++ rest) := by
  cases l with
  | nil => exact absurd rfl hne
  | cons sg t =>
    simp only [List.all_cons, Bool.and_eq_true] at hl
    right
    cases sg with
    | res r =>
      simp only [SSeg.wf, SRes.wf, Bool.and_eq_true] at hl
      obtain ⟨tl, htl⟩ := exists_cons_of_head ((SSeg.res r :: t).flatMap SSeg.render ++ rest) r.c
        (by simp [SSeg.render, SRes.render])
      exact ⟨r.c, tl, htl, Or.inl hl.1.1⟩
    | group amb inner mods =>
      obtain ⟨tl, htl⟩ := exists_cons_of_head ((SSeg.group amb inner mods :: t).flatMap SSeg.render ++ rest) '('
        (by simp [SSeg.render])
      exact ⟨'(', tl, htl, Or.inr rfl⟩

theorem segs_render_ne_nil (l : List SSeg) (hne : l ≠ []) : l.flatMap SSeg.render ≠ [] := by
  cases l with
  | nil => exact absurd rfl hne
  | cons sg t => cases sg <;> simp [SSeg.render, SRes.render]

def SChain.endText (t : SChain) : List Char :=
  (if t.cterm.isEmpty then [] else '-' :: renderMods '[' ']' t.cterm) ++
    (match t.charge with | none => [] | some q => q.render)

theorem chargePart_stop (ch : Option SCharge) (rest : List Char) (hrest : ChainStop rest) :
    ((match ch with | none => [] | some q => q.render) ++ rest = [] ∨
      ∃ c r, (match ch with | none => [] | some q => q.render) ++ rest = c :: r ∧ (c = '/' ∨ c = '+')) := by
  cases ch with
  | none =>
    simp only [List.nil_append]
    rcases hrest with h | ⟨t, h⟩ | ⟨t, h⟩ <;> subst h
    · exact Or.inl rfl
    · exact Or.inr ⟨'+', t, rfl, Or.inr rfl⟩
    · exact Or.inr ⟨'/', _, rfl, Or.inl rfl⟩
  | some q =>
    obtain ⟨tl, htl⟩ := exists_cons_of_head (q.render ++ rest) '/' (by simp [SCharge.render])
    exact Or.inr ⟨'/', tl, htl, Or.inl rfl⟩

theorem midStop_of_stop (T : List Char) (h : T = [] ∨ ∃ c r, T = c :: r ∧ (c = '/' ∨ c = '+')) : MidStop T := by
  rcases h with h | ⟨c, r, h, hc⟩
  · rw [h]; exact ⟨ModStop.nil, by simp⟩
  · rw [h]
    rcases hc with hc | hc <;> subst hc
    · exact ⟨ModStop.cons (by decide) (by decide), by simp⟩
    · exact ⟨ModStop.cons (by decide) (by decide), by simp⟩

/-- the three phases on the text of one well-formed chain -/
theorem schain_phases (t : SChain) (hw : t.wf = true) (conn : Option Bool) (rest : List Char) (hrest : ChainStop rest) :
    ∃ a1 r1 a2 r2,
      parseStart true { seq := [] } (t.render ++ rest) = .ok (a1, r1) ∧
      parseMiddle a1 none r1 = .ok (a2, r2) ∧
      parseEnd a2 conn r2 = .ok (t.denote, stopConn conn rest, stopRest rest) := by
  simp only [SChain.wf, Bool.and_eq_true, Bool.not_eq_eq_eq_not, Bool.not_true] at hw
  obtain ⟨⟨⟨⟨⟨hst, hadj⟩, hne⟩, hsegs⟩, hct⟩, hq⟩ := hw
  have hne' : t.segs ≠ [] := by intro h; rw [h] at hne; simp at hne
  let Q : List Char := (match t.charge with | none => [] | some q => q.render) ++ rest
  let T2 : List Char := (if t.cterm.isEmpty then [] else '-' :: renderMods '[' ']' t.cterm) ++ Q
  have htext : t.render ++ rest = t.start.flatMap SStart.render ++ (t.segs.flatMap SSeg.render ++ T2) := by
    simp only [SChain.render, T2, Q, List.append_assoc]
    cases t.charge <;> rfl
  have hQ := chargePart_stop t.charge rest hrest
  have hQstop : MidStop Q := midStop_of_stop Q hQ
  have hT2 : MidStop T2 := by
    by_cases hc : t.cterm.isEmpty = true
    · simpa [T2, hc] using hQstop
    · simp only [T2, hc, Bool.false_eq_true, ↓reduceIte, List.cons_append]
      exact ⟨ModStop.cons (by decide) (by decide), by simp⟩
  let A := t.start.foldl SStart.denote { seq := [] }
  obtain ⟨hAseq, hAint, hAend⟩ := sstarts_frame t.start { seq := [] }
  have hAk : KeysBelow A := by
    intro p hp
    have : A.internal = none := hAint
    simp [this] at hp
  let B := t.segs.foldl SSeg.denote A
  have hBend : EndEmpty B := ssegs_endEmpty t.segs A (hAend ⟨rfl, rfl, rfl⟩)
  have hS := sstarts_steps t.start hst hadj { seq := [] } _ (startStop_segs t.segs hne' hsegs T2)
  have hM := segs_steps t.segs hsegs A hAk T2 hT2
  -- C-terminal block
  have hC : parseMiddle B none T2 = .ok ({ B with cterm := optList (t.cterm.map SMod.denote) }, Q) := by
    by_cases hc : t.cterm.isEmpty = true
    · have : t.cterm = [] := by simpa using hc
      simp only [T2, hc, ↓reduceIte, List.nil_append]
      rw [pm_stop _ _ hQ, this]
      simp only [List.map_nil, optList, List.isEmpty_nil, ↓reduceIte]
      rw [← hBend.1]
    · have hcne : t.cterm ≠ [] := by intro h; rw [h] at hc; simp at hc
      simp only [T2, hc, Bool.false_eq_true, ↓reduceIte, List.cons_append]
      rw [pm_ctermT _ _ _ (bracketRun_renderMods t.cterm hcne hct) Q hQstop]
      simp [addMods, hBend.1, optList, hcne]
  refine ⟨A, _, { B with cterm := optList (t.cterm.map SMod.denote) }, Q, by rw [htext]; exact hS, by rw [hM, hC], ?_⟩
  -- charge
  cases hch : t.charge with
  | none =>
    simp only [Q, hch, List.nil_append]
    rw [parseEnd_stop _ _ _ hrest]
    simp only [SChain.denote, hch, Option.map_none]
    congr 2
    exact Annotation.ext11 _ _ rfl rfl rfl rfl rfl rfl rfl rfl rfl hBend.2.1 hBend.2.2
  | some q =>
    rw [hch] at hq
    simp only [Q, hch]
    rw [parseEnd_chargeT { B with cterm := optList (t.cterm.map SMod.denote) } hBend.2.2 conn q hq rest hrest]
    simp only [SChain.denote, hch, Option.map_some]
    rfl

theorem schain_render_ne_nil (t : SChain) (hw : t.wf = true) : t.render ≠ [] := by
  simp only [SChain.wf, Bool.and_eq_true, Bool.not_eq_eq_eq_not, Bool.not_true] at hw
  have hne' : t.segs ≠ [] := by intro h; rw [h] at hw; simp at hw
  have := segs_render_ne_nil t.segs hne'
  intro h
  simp only [SChain.render, List.append_eq_nil_iff] at h
  exact this h.2.1

/-- one iteration of the chain loop on the text of a well-formed chain -/
theorem parseChains_schain (t : SChain) (hw : t.wf = true) (conn : Option Bool) (rest : List Char)
    (hrest : ChainStop rest) :
    parseChains true conn (t.render ++ rest) =
      match parseChains true (stopConn conn rest) (stopRest rest) with
      | .error e => .error e
      | .ok l => .ok ((t.denote, stopConn conn rest) :: l) := by
  obtain ⟨a1, r1, a2, r2, h1, h2, h3⟩ := schain_phases t hw conn rest hrest
  have hlen : (stopRest rest).length < (t.render ++ rest).length := by
    have h4 := stopRest_length rest
    have h5 := schain_render_ne_nil t hw
    cases hr : t.render with
    | nil => exact absurd hr h5
    | cons x xs => simp; omega
  exact parseChains_of_phases conn _ a1 r1 a2 r2 _ _ _ h1 h2 h3 hlen

/-! ### several chains -/

def restText (l : List (Bool × SChain)) : List Char :=
  l.flatMap fun p => (if p.1 then ['/', '/'] else ['+']) ++ p.2.render

/-- what the chain loop yields on the text of a tree; the connection of the last chain is the stale previous value -/
def stextResult (conn : Option Bool) (c : SChain) : List (Bool × SChain) → List (Annotation × Option Bool)
  | [] => [(c.denote, conn)]
  | (x, c2) :: t => (c.denote, some x) :: stextResult (some x) c2 t

theorem restText_chainStop (l : List (Bool × SChain)) : ChainStop (restText l) := by
  cases l with
  | nil => exact Or.inl rfl
  | cons p t =>
    obtain ⟨x, c2⟩ := p
    cases x
    · exact Or.inr (Or.inl ⟨c2.render ++ restText t, by simp [restText]⟩)
    · exact Or.inr (Or.inr ⟨c2.render ++ restText t, by simp [restText]⟩)

theorem parseChains_stext (c : SChain) (l : List (Bool × SChain)) (hc : c.wf = true) (hl : l.all (fun p => p.2.wf) = true)
    (conn : Option Bool) :
    parseChains true conn (c.render ++ restText l) = .ok (stextResult conn c l) := by
  induction l generalizing c conn with
  | nil =>
    have := parseChains_schain c hc conn [] (Or.inl rfl)
    simp only [stopConn, stopRest] at this
    simp only [restText, List.flatMap_nil]
    rw [this, parseChains.eq_def]
    rfl
  | cons p t ih =>
    obtain ⟨x, c2⟩ := p
    simp only [List.all_cons, Bool.and_eq_true] at hl
    have := parseChains_schain c hc conn (restText ((x, c2) :: t)) (restText_chainStop _)
    have hst : stopConn conn (restText ((x, c2) :: t)) = some x ∧
        stopRest (restText ((x, c2) :: t)) = c2.render ++ restText t := by
      cases x <;> simp [restText, stopConn, stopRest]
    rw [hst.1, hst.2, ih c2 hl.1 hl.2] at this
    rw [this]
    rfl

theorem stextResult_fst (conn : Option Bool) (c : SChain) (l : List (Bool × SChain)) :
    (stextResult conn c l).map (·.1) = c.denote :: l.map fun p => p.2.denote := by
  induction l generalizing c conn with
  | nil => rfl
  | cons p t ih => obtain ⟨x, c2⟩ := p; simp only [stextResult, List.map_cons]; rw [ih]

theorem stextResult_ne_nil (conn : Option Bool) (c : SChain) (l : List (Bool × SChain)) : stextResult conn c l ≠ [] := by
  cases l with
  | nil => simp [stextResult]
  | cons p t => obtain ⟨x, c2⟩ := p; simp [stextResult]

theorem stextResult_snd (conn : Option Bool) (c : SChain) (l : List (Bool × SChain)) :
    ((stextResult conn c l).map (·.2)).dropLast = l.map fun p => some p.1 := by
  induction l generalizing c conn with
  | nil => rfl
  | cons p t ih =>
    obtain ⟨x, c2⟩ := p
    have := ih (some x) c2
    simp only [stextResult, List.map_cons]
    cases hr : stextResult (some x) c2 t with
    | nil => exact absurd hr (stextResult_ne_nil _ _ _)
    | cons a b =>
      rw [hr] at this
      simp only [List.map_cons, List.dropLast_cons_cons] at this ⊢
      rw [this]

theorem stext_not_unmodified (c : SChain) (p : Bool × SChain) (t : List (Bool × SChain)) :
    isUnmodified (c.render ++ restText (p :: t)) = false := by
  obtain ⟨x, c2⟩ := p
  have h1 : isAA '+' = false := by decide
  have h2 : isAA '/' = false := by decide
  cases x <;> simp [restText, isUnmodified, h1, h2]

/-! ### annotations that carry leading sections only -/

theorem serializeMods_ne_nil (o c : Char) (plus : Plus) (l : List Mod) (h : l ≠ []) : serializeMods o c plus l ≠ [] := by
  cases l with
  | nil => exact absurd rfl h
  | cons m t => rw [serializeMods_cons, Mod.serialize_eq_cons]; simp

theorem optMods_nil_of_canon (o c : Char) (plus : Plus) (x : Option (List Mod)) (hc : canonOptMods o c x = true)
    (h : optMods o c plus x = []) : x = none := by
  cases x with
  | none => rfl
  | some l => exact absurd h (serializeMods_ne_nil o c plus l (canonOptMods_some o c l hc).1)

theorem optMods_nil_of_global (p : Mod → Bool) (plus : Plus) (x : Option (List Mod)) (hc : canonGlobal p x = true)
    (h : optMods '<' '>' plus x = []) : x = none := by
  cases x with
  | none => rfl
  | some l =>
    simp only [canonGlobal, Bool.and_eq_true, Bool.not_eq_eq_eq_not, Bool.not_true] at hc
    have : l ≠ [] := by intro hl; subst hl; simp at hc
    exact absurd h (serializeMods_ne_nil _ _ plus l this)

theorem optSection_nil (plus : Plus) (sep : Char) (x : Option (List Mod)) (h : optSection plus sep x = []) : x = none := by
  cases x with
  | none => rfl
  | some l => simp [optSection] at h

theorem parse_serialize_startOnly' (plus : Plus) (a : Annotation) (hc : canonStartOnly a = true) :
    parse true (serialize plus a) = .ok (.single a) := by
  simp only [canonStartOnly, Bool.and_eq_true, List.isEmpty_iff, Option.isNone_iff_eq_none] at hc
  obtain ⟨⟨⟨⟨⟨⟨⟨⟨⟨⟨hseq, hlab⟩, hst⟩, hiso⟩, hunk⟩, hnt⟩, hD⟩, hL⟩, hct⟩, hch⟩, had⟩ := hc
  have ha : a = { seq := [], labile := a.labile, static := a.static, isotope := a.isotope, unknown := a.unknown,
                  nterm := a.nterm } :=
    Annotation.ext11 _ _ hseq rfl rfl rfl rfl rfl hct hD hL hch had
  have htext : serialize plus a = optMods '{' '}' plus a.labile ++ (optMods '<' '>' plus a.static ++
      (optMods '<' '>' plus a.isotope ++ (optSection plus '?' a.unknown ++ (optSection plus '-' a.nterm ++ [])))) := by
    simp [serialize, serializeMiddle, serializeEnd, serializeStart_eq, hseq, hct, hch, had, hL, serializeResidues,
      ivMarks, optMods]
  have hS := parseStart_sections plus a.labile a.static a.isotope a.unknown a.nterm hlab hst hiso hunk hnt [] (Or.inl rfl)
  rw [← htext] at hS
  unfold parse
  split
  · -- all residues and no residues: the empty string
    rename_i hun
    cases hs : serialize plus a with
    | nil =>
      rw [hs] at htext
      have h0 := htext.symm
      simp only [List.append_eq_nil_iff] at h0
      obtain ⟨e1, e2, e3, e4, e5, _⟩ := h0
      have f1 := optMods_nil_of_canon _ _ plus _ hlab e1
      have f2 := optMods_nil_of_global _ plus _ hst e2
      have f3 := optMods_nil_of_global _ plus _ hiso e3
      have f4 := optSection_nil plus _ _ e4
      have f5 := optSection_nil plus _ _ e5
      congr 2
      exact Annotation.ext11 _ _ hseq.symm f3.symm f2.symm f1.symm f4.symm f5.symm hct.symm hD.symm hL.symm hch.symm had.symm
    | cons c cs =>
      -- a non-empty text of leading sections starts with a bracket, which is not a residue
      exfalso
      rw [hs] at hS
      rw [parseStart.eq_def] at hS
      simp only [isUnmodified, hs, List.all_cons, Bool.and_eq_true] at hun
      simp [hun.1] at hS
  · rename_i hun
    cases hs : serialize plus a with
    | nil => rw [hs] at hun; simp [isUnmodified] at hun
    | cons c cs =>
      rw [hs] at hS
      have hm : ∀ X : Annotation, parseMiddle X none [] = .ok (X, []) := by
        intro X; rw [parseMiddle.eq_def]; rfl
      have he : ∀ X : Annotation, parseEnd X none [] = .ok (X, none, []) := by
        intro X; rw [parseEnd.eq_def]
      have hn : parseChains true none [] = .ok [] := by rw [parseChains.eq_def]
      rw [parseChains.eq_def]
      simp only [hS, hm, he, List.length_nil, List.length_cons, Nat.zero_lt_succ, ↓reduceDIte, hn]
      rw [← ha]
end Pept
