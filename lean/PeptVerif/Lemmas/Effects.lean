import PeptVerif.Model.Effects
/-! helper lemmas for C08: list-set algebra, monotonicity of every statement, post-fixpoints bound all traces -/

namespace Effects

theorem mem_union {a b : List Obj} {o : Obj} : o ∈ union a b ↔ o ∈ a ∨ o ∈ b := by
  unfold union
  simp only [List.mem_append, List.mem_filter, Bool.not_eq_true']
  constructor
  · rintro (h | ⟨h, _⟩)
    · exact Or.inl h
    · exact Or.inr h
  · intro h
    by_cases ha : o ∈ a
    · exact Or.inl ha
    · rcases h with h | h
      · exact Or.inl h
      · exact Or.inr ⟨h, by simpa using ha⟩

theorem sub_iff {a b : List Obj} : sub a b = true ↔ a ⊆ b := by
  unfold sub
  simp only [List.all_eq_true, List.contains_iff_mem]
  constructor
  · intro h o ho; exact h o ho
  · intro h o ho; exact h ho

theorem overlaps_iff {a b : List Obj} : overlaps a b = true ↔ ∃ o, o ∈ a ∧ ∃ o', o' ∈ b ∧ norm o = norm o' := by
  unfold overlaps
  simp only [List.any_eq_true, beq_iff_eq]

def CellLe (c d : Cell) : Prop := c.top ⊆ d.top ∧ c.kids ⊆ d.kids ∧ c.deep ⊆ d.deep

def Le (P A : Pts) : Prop := ∀ z, CellLe (P.get z) (A.get z)

theorem CellLe.refl (c : Cell) : CellLe c c := ⟨fun _ h => h, fun _ h => h, fun _ h => h⟩

theorem CellLe.trans {a b c : Cell} (h1 : CellLe a b) (h2 : CellLe b c) : CellLe a c :=
  ⟨fun _ h => h2.1 (h1.1 h), fun _ h => h2.2.1 (h1.2.1 h), fun _ h => h2.2.2 (h1.2.2 h)⟩

theorem Le.refl (P : Pts) : Le P P := fun _ => CellLe.refl _

theorem Le.trans {P Q R : Pts} (h1 : Le P Q) (h2 : Le Q R) : Le P R := fun z => (h1 z).trans (h2 z)

theorem get_nil (z : Var) : Pts.get [] z = {} := by
  simp [Pts.get]

theorem get_cons_zero (d : Cell) (P : Pts) : Pts.get (d :: P) 0 = d := by
  simp [Pts.get]

theorem get_cons_succ (d : Cell) (P : Pts) (z : Var) : Pts.get (d :: P) (z + 1) = Pts.get P z := by
  simp [Pts.get]

theorem get_add (P : Pts) (x : Var) (c : Cell) (z : Var) :
    Pts.get (Pts.add P x c) z = if z = x then Cell.join (Pts.get P x) c else Pts.get P z := by
  induction P generalizing x z with
  | nil =>
    induction x generalizing z with
    | zero =>
      cases z with
      | zero => simp [Pts.add, get_cons_zero, get_nil]
      | succ z => simp [Pts.add, get_cons_succ, get_nil]
    | succ x ih =>
      cases z with
      | zero => simp [Pts.add, get_cons_zero, get_nil]
      | succ z =>
        simp only [Pts.add, get_cons_succ, ih z, get_nil]
        by_cases h : z = x <;> simp [h]
  | cons d P ih =>
    cases x with
    | zero =>
      cases z with
      | zero => simp [Pts.add, get_cons_zero]
      | succ z => simp [Pts.add, get_cons_succ]
    | succ x =>
      cases z with
      | zero => simp [Pts.add, get_cons_zero]
      | succ z =>
        simp only [Pts.add, get_cons_succ, ih x z]
        by_cases h : z = x <;> simp [h]

theorem overlaps_nil (t : List Obj) : overlaps ([] : List Obj) t = false := by
  simp [overlaps]

theorem linkCell_empty (tgt a b : List Obj) : linkCell tgt a b {} = {} := by
  simp [linkCell, overlaps_nil, cond, union]

theorem get_link (P : Pts) (t a b : List Obj) (z : Var) :
    Pts.get (link P t a b) z = linkCell t a b (Pts.get P z) := by
  induction P generalizing z with
  | nil => simp [link, get_nil, linkCell_empty]
  | cons d P ih =>
    cases z with
    | zero => simp [link, get_cons_zero, linkCell]
    | succ z =>
      have := ih z
      simp only [link] at this
      simp only [link, List.map_cons, get_cons_succ]
      exact this

theorem union_mono {a a' b b' : List Obj} (ha : a ⊆ a') (hb : b ⊆ b') : union a b ⊆ union a' b' := by
  intro o ho
  rcases mem_union.1 ho with ho | ho
  · exact mem_union.2 (Or.inl (ha ho))
  · exact mem_union.2 (Or.inr (hb ho))

theorem join_mono {d d' c c' : Cell} (hd : CellLe d d') (hc : CellLe c c') : CellLe (Cell.join d c) (Cell.join d' c') :=
  ⟨union_mono hd.1 hc.1, union_mono hd.2.1 hc.2.1, union_mono hd.2.2 hc.2.2⟩

theorem le_join (d c : Cell) : CellLe d (Cell.join d c) :=
  ⟨fun _ h => mem_union.2 (Or.inl h), fun _ h => mem_union.2 (Or.inl h), fun _ h => mem_union.2 (Or.inl h)⟩

theorem add_mono {Q Q' : Pts} {c c' : Cell} (x : Var) (hQ : Le Q Q') (hc : CellLe c c') :
    Le (Pts.add Q x c) (Pts.add Q' x c') := by
  intro z
  rw [get_add, get_add]
  by_cases h : z = x
  · simp only [h, if_true]
    exact join_mono (hQ x) hc
  · simp only [h, if_false]
    exact hQ z

theorem le_add (Q : Pts) (x : Var) (c : Cell) : Le Q (Pts.add Q x c) := by
  intro z
  rw [get_add]
  by_cases h : z = x
  · subst h
    simp only [if_true]
    exact le_join _ _
  · simp only [h, if_false]; exact CellLe.refl _

theorem cond_mono {t t' : Bool} {l l' : List Obj} (ht : t = true → t' = true) (hl : l ⊆ l') : cond t l ⊆ cond t' l' := by
  unfold cond
  cases t with
  | false => intro o ho; cases ho
  | true => simp only [ht rfl, if_true]; exact hl

theorem append_mono {a a' b b' : List Obj} (ha : a ⊆ a') (hb : b ⊆ b') : a ++ b ⊆ a' ++ b' := by
  intro o ho
  rcases List.mem_append.1 ho with ho | ho
  · exact List.mem_append.2 (Or.inl (ha ho))
  · exact List.mem_append.2 (Or.inr (hb ho))

theorem overlaps_mono {a a' b b' : List Obj} (ha : a ⊆ a') (hb : b ⊆ b') : overlaps a b = true → overlaps a' b' = true := by
  intro h
  rcases overlaps_iff.1 h with ⟨o, ho, o', ho', hn⟩
  exact overlaps_iff.2 ⟨o, ha ho, o', hb ho', hn⟩

theorem linkCell_mono {c c' : Cell} {t t' a a' b b' : List Obj} (hc : CellLe c c') (ht : t ⊆ t') (ha : a ⊆ a') (hb : b ⊆ b') :
    CellLe (linkCell t a b c) (linkCell t' a' b' c') := by
  refine ⟨hc.1, ?_, ?_⟩
  · exact union_mono hc.2.1 (cond_mono (overlaps_mono hc.1 ht) ha)
  · exact union_mono (union_mono hc.2.2 (cond_mono (overlaps_mono hc.1 ht) hb))
      (cond_mono (overlaps_mono (append_mono hc.2.1 hc.2.2) ht) (append_mono ha hb))

theorem link_mono {Q Q' : Pts} {t t' a a' b b' : List Obj} (hQ : Le Q Q') (ht : t ⊆ t') (ha : a ⊆ a') (hb : b ⊆ b') :
    Le (link Q t a b) (link Q' t' a' b') := by
  intro z
  rw [get_link, get_link]
  exact linkCell_mono (hQ z) ht ha hb

theorem list_map_mono {a b : List Obj} (f : Obj → Obj) (h : a ⊆ b) : a.map f ⊆ b.map f := by
  intro y hy
  rcases List.mem_map.1 hy with ⟨x, hx, hf⟩
  exact List.mem_map.2 ⟨x, h hx, hf⟩

theorem cellMap_mono {c d : Cell} (k : Nat) (f : Obj → Obj) (h : CellLe c d) : CellLe (c.mapFrom k f) (d.mapFrom k f) := by
  unfold Cell.mapFrom
  refine ⟨?_, ?_, list_map_mono f h.2.2⟩
  · by_cases hk : k = 0 <;> simp only [hk, if_true, if_false]
    · exact list_map_mono f h.1
    · exact h.1
  · by_cases hk : k ≤ 1 <;> simp only [hk, if_true, if_false]
    · exact list_map_mono f h.2.1
    · exact h.2.1

theorem flatMap_mono {α : Type} {l : List α} {f g : α → List Obj} (h : ∀ a, f a ⊆ g a) :
    l.flatMap f ⊆ l.flatMap g := by
  intro o ho
  rcases List.mem_flatMap.1 ho with ⟨a, ha, hoa⟩
  exact List.mem_flatMap.2 ⟨a, ha, h a hoa⟩

theorem argCell_mono {P A : Pts} (h : Le P A) (args : List (Option Var)) (j : Nat) :
    CellLe (argCell P args j) (argCell A args j) := by
  unfold argCell
  cases args.getD j none with
  | none => exact CellLe.refl _
  | some v => exact h v

theorem sel_mono {P A : Pts} (h : Le P A) (args : List (Option Var)) (ret : Var) (s : Src) :
    sel P args ret s ⊆ sel A args ret s := by
  cases s with
  | top j => exact (argCell_mono h args j).1
  | below j => exact append_mono (argCell_mono h args j).2.1 (argCell_mono h args j).2.2
  | recs j => exact list_map_mono _ (append_mono (argCell_mono h args j).2.1 (argCell_mono h args j).2.2)
  | recTop j => exact list_map_mono _ (argCell_mono h args j).1
  | fresh => exact fun _ ho => ho
  | glob g => exact fun _ ho => ho

theorem alias_fold_mono {P P' : Pts} (hP : Le P P') (x : Var) (ys : List Var) :
    ∀ {Q Q' : Pts}, Le Q Q' →
      Le (ys.foldl (fun Q y => Pts.add Q x (Pts.get P y)) Q) (ys.foldl (fun Q y => Pts.add Q x (Pts.get P' y)) Q') := by
  induction ys with
  | nil => intro Q Q' h; exact h
  | cons y ys ih =>
    intro Q Q' h
    simp only [List.foldl_cons]
    exact ih (add_mono x h (hP y))

theorem links_fold_mono {P P' : Pts} (hP : Le P P') (args : List (Option Var)) (ret : Var) (ls : List (Nat × Bool × Src)) :
    ∀ {Q Q' : Pts}, Le Q Q' →
      Le (ls.foldl (fun Q l => link Q (argCell P args l.1).top (cond l.2.1 (sel P args ret l.2.2))
            (cond (!l.2.1) (sel P args ret l.2.2))) Q)
         (ls.foldl (fun Q l => link Q (argCell P' args l.1).top (cond l.2.1 (sel P' args ret l.2.2))
            (cond (!l.2.1) (sel P' args ret l.2.2))) Q') := by
  induction ls with
  | nil => intro Q Q' h; exact h
  | cons l ls ih =>
    intro Q Q' h
    simp only [List.foldl_cons]
    exact ih (link_mono h (argCell_mono hP args l.1).1 (cond_mono (fun x => x) (sel_mono hP args ret l.2.2))
      (cond_mono (fun x => x) (sel_mono hP args ret l.2.2)))

/-- every statement is monotone in the name table -/
theorem step_mono (S : List Summary) (s : Stmt) {P A : Pts} (h : Le P A) : Le (step S s P) (step S s A) := by
  cases s with
  | param x i => exact add_mono x h (CellLe.refl _)
  | global x g => exact add_mono x h (CellLe.refl _)
  | alias x ys => exact alias_fold_mono h x ys h
  | elem x y => exact add_mono x h ⟨(h y).2.1, (h y).2.2, (h y).2.2⟩
  | asRec x y d => exact add_mono x h (cellMap_mono d _ (h y))
  | leaf x y => exact add_mono x h ⟨(h y).1, fun _ ho => ho, fun _ ho => ho⟩
  | fresh x => exact add_mono x h (CellLe.refl _)
  | shallow x ys =>
    exact add_mono x h ⟨fun _ ho => ho, flatMap_mono (fun y => (h y).2.1), flatMap_mono (fun y => (h y).2.2)⟩
  | pack x ys =>
    exact add_mono x h ⟨fun _ ho => ho, flatMap_mono (fun y => (h y).1),
      flatMap_mono (fun y => append_mono (h y).2.1 (h y).2.2)⟩
  | store x y => exact link_mono h (h x).1 (h y).1 (append_mono (h y).2.1 (h y).2.2)
  | write x => exact h
  | gwrite g => exact h
  | call ret f args =>
    simp only [step]
    refine add_mono ret (links_fold_mono h args ret _ h) ⟨?_, ?_, ?_⟩
    · exact flatMap_mono (fun s => sel_mono h args ret s)
    · exact flatMap_mono (fun s => sel_mono h args ret s)
    · exact flatMap_mono (fun s => sel_mono h args ret s)

/-- and so is the set of objects it writes -/
theorem targets_mono (S : List Summary) (s : Stmt) {P A : Pts} (h : Le P A) : targets S s P ⊆ targets S s A := by
  cases s with
  | store x y => exact (h x).1
  | write x => exact (h x).1
  | call ret f args =>
    simp only [targets]
    refine append_mono (flatMap_mono (fun w => ?_)) (fun _ ho => ho)
    by_cases hw : w.2 = true
    · simp only [hw, if_true]; exact append_mono (argCell_mono h args w.1).2.1 (argCell_mono h args w.1).2.2
    · have : w.2 = false := by simpa using hw
      simp only [this, Bool.false_eq_true, if_false]; exact (argCell_mono h args w.1).1
  | param x i => exact fun _ ho => ho
  | global x g => exact fun _ ho => ho
  | alias x ys => exact fun _ ho => ho
  | elem x y => exact fun _ ho => ho
  | asRec x y d => exact fun _ ho => ho
  | leaf x y => exact fun _ ho => ho
  | fresh x => exact fun _ ho => ho
  | shallow x ys => exact fun _ ho => ho
  | pack x ys => exact fun _ ho => ho
  | gwrite g => exact fun _ ho => ho

theorem nil_cellLe (c : Cell) : CellLe {} c :=
  ⟨fun _ ho => (by cases ho), fun _ ho => (by cases ho), fun _ ho => (by cases ho)⟩

theorem get_of_length_le (P : Pts) (z : Var) (h : P.length ≤ z) : Pts.get P z = {} := by
  unfold Pts.get
  simp [List.getD, List.getElem?_eq_none h]

theorem leB_sound {P A : Pts} (h : leB P A = true) : Le P A := by
  intro z
  by_cases hz : z < P.length
  · unfold leB at h
    rw [List.all_eq_true] at h
    have := h z (List.mem_range.2 hz)
    unfold cellSub at this
    rw [Bool.and_eq_true, Bool.and_eq_true] at this
    exact ⟨sub_iff.1 this.1.1, sub_iff.1 this.1.2, sub_iff.1 this.2⟩
  · rw [get_of_length_le P z (Nat.le_of_not_lt hz)]
    exact nil_cellLe _

theorem isPost_sound {S : List Summary} {p : List Stmt} {A : Pts} (h : isPost S p A = true) :
    ∀ s, s ∈ p → Le (step S s A) A := by
  intro s hs
  unfold isPost at h
  rw [List.all_eq_true] at h
  exact leB_sound (h s hs)

theorem le_linkCell (t a b : List Obj) (c : Cell) : CellLe c (linkCell t a b c) :=
  ⟨fun _ h => h, fun _ h => mem_union.2 (Or.inl h), fun _ h => mem_union.2 (Or.inl (mem_union.2 (Or.inl h)))⟩

theorem le_link (Q : Pts) (t a b : List Obj) : Le Q (link Q t a b) := by
  intro z
  rw [get_link]
  exact le_linkCell t a b _

theorem le_alias_fold (P : Pts) (x : Var) (ys : List Var) :
    ∀ (Q : Pts), Le Q (ys.foldl (fun Q y => Pts.add Q x (Pts.get P y)) Q) := by
  induction ys with
  | nil => intro Q; exact Le.refl Q
  | cons y ys ih =>
    intro Q
    simp only [List.foldl_cons]
    exact (le_add Q x _).trans (ih _)

theorem le_links_fold (P : Pts) (args : List (Option Var)) (ret : Var) (ls : List (Nat × Bool × Src)) :
    ∀ (Q : Pts), Le Q (ls.foldl (fun Q l => link Q (argCell P args l.1).top (cond l.2.1 (sel P args ret l.2.2))
            (cond (!l.2.1) (sel P args ret l.2.2))) Q) := by
  induction ls with
  | nil => intro Q; exact Le.refl Q
  | cons l ls ih =>
    intro Q
    simp only [List.foldl_cons]
    exact (le_link Q _ _ _).trans (ih _)

/-- every statement only adds to the name table -/
theorem step_extensive (S : List Summary) (s : Stmt) (P : Pts) : Le P (step S s P) := by
  cases s with
  | param x i => exact le_add P x _
  | global x g => exact le_add P x _
  | alias x ys => exact le_alias_fold P x ys P
  | elem x y => exact le_add P x _
  | asRec x y d => exact le_add P x _
  | leaf x y => exact le_add P x _
  | fresh x => exact le_add P x _
  | shallow x ys => exact le_add P x _
  | pack x ys => exact le_add P x _
  | store x y => exact le_link P _ _ _
  | write x => exact Le.refl P
  | gwrite g => exact Le.refl P
  | call ret f args =>
    simp only [step]
    exact (le_links_fold P args ret _ P).trans (le_add _ ret _)

theorem pass_extensive (S : List Summary) (p : List Stmt) : ∀ (P : Pts), Le P (pass S p P) := by
  induction p with
  | nil => intro P; exact Le.refl P
  | cons s p ih =>
    intro P
    simp only [pass, List.foldl_cons]
    exact (step_extensive S s P).trans (ih _)

theorem step_le_pass (S : List Summary) (s : Stmt) (p : List Stmt) (hs : s ∈ p) :
    ∀ {A B : Pts}, Le A B → Le (step S s A) (pass S p B) := by
  induction p with
  | nil => cases hs
  | cons t p ih =>
    intro A B hAB
    simp only [pass, List.foldl_cons]
    rcases List.mem_cons.1 hs with h | h
    · subst h
      exact (step_mono S s hAB).trans (pass_extensive S p _)
    · exact ih h (hAB.trans (step_extensive S t B))

theorem passClosed_sound {S : List Summary} {p : List Stmt} {A : Pts} (h : passClosed S p A = true) :
    ∀ s, s ∈ p → Le (step S s A) A := by
  intro s hs
  exact (step_le_pass S s p hs (Le.refl A)).trans (leB_sound h)

theorem cellSub_sound {c d : Cell} (h : cellSub c d = true) : CellLe c d := by
  unfold cellSub at h
  rw [Bool.and_eq_true, Bool.and_eq_true] at h
  exact ⟨sub_iff.1 h.1.1, sub_iff.1 h.1.2, sub_iff.1 h.2⟩

theorem add_le {Q A : Pts} {c : Cell} (x : Var) (hQ : Le Q A) (hc : CellLe c (Pts.get A x)) : Le (Pts.add Q x c) A := by
  intro z
  rw [get_add]
  by_cases h : z = x
  · subst h
    simp only [if_true]
    have := hQ z
    exact ⟨fun o ho => (mem_union.1 ho).elim (fun h => this.1 h) (fun h => hc.1 h),
           fun o ho => (mem_union.1 ho).elim (fun h => this.2.1 h) (fun h => hc.2.1 h),
           fun o ho => (mem_union.1 ho).elim (fun h => this.2.2 h) (fun h => hc.2.2 h)⟩
  · simp only [h, if_false]
    exact hQ z

theorem get_mem_or_empty (A : Pts) (z : Var) : Pts.get A z ∈ A ∨ Pts.get A z = {} := by
  by_cases hz : z < A.length
  · left
    unfold Pts.get
    simp [List.getD, List.getElem?_eq_getElem hz]
  · right
    exact get_of_length_le A z (Nat.le_of_not_lt hz)

theorem linkClosed_sound {A : Pts} {t a b : List Obj} (h : linkClosed A t a b = true) : Le (link A t a b) A := by
  intro z
  rw [get_link]
  rcases get_mem_or_empty A z with hm | he
  · unfold linkClosed at h
    rw [List.all_eq_true] at h
    exact cellSub_sound (h _ hm)
  · rw [he, linkCell_empty]
    exact CellLe.refl _

theorem alias_fold_le {A : Pts} (x : Var) (ys : List Var) (h : ∀ y, y ∈ ys → CellLe (Pts.get A y) (Pts.get A x)) :
    ∀ {Q : Pts}, Le Q A → Le (ys.foldl (fun Q y => Pts.add Q x (Pts.get A y)) Q) A := by
  induction ys with
  | nil => intro Q hQ; exact hQ
  | cons y ys ih =>
    intro Q hQ
    simp only [List.foldl_cons]
    exact ih (fun y' hy' => h y' (List.mem_cons_of_mem _ hy')) (add_le x hQ (h y List.mem_cons_self))

theorem links_fold_le {A : Pts} (args : List (Option Var)) (ret : Var) (ls : List (Nat × Bool × Src))
    (h : ∀ l, l ∈ ls → Le (link A (argCell A args l.1).top (cond l.2.1 (sel A args ret l.2.2))
        (cond (!l.2.1) (sel A args ret l.2.2))) A) :
    ∀ {Q : Pts}, Le Q A →
      Le (ls.foldl (fun Q l => link Q (argCell A args l.1).top (cond l.2.1 (sel A args ret l.2.2))
            (cond (!l.2.1) (sel A args ret l.2.2))) Q) A := by
  induction ls with
  | nil => intro Q hQ; exact hQ
  | cons l ls ih =>
    intro Q hQ
    simp only [List.foldl_cons]
    refine ih (fun l' hl' => h l' (List.mem_cons_of_mem _ hl')) ?_
    exact (link_mono hQ (fun _ ho => ho) (fun _ ho => ho) (fun _ ho => ho)).trans (h l List.mem_cons_self)

/-- the statement-wise check of a given table establishes closedness -/
theorem closedStmt_sound (S : List Summary) (s : Stmt) (A : Pts) (h : closedStmt S s A = true) : Le (step S s A) A := by
  cases s with
  | param x i => exact add_le x (Le.refl A) (cellSub_sound h)
  | global x g => exact add_le x (Le.refl A) (cellSub_sound h)
  | alias x ys =>
    simp only [closedStmt, List.all_eq_true] at h
    exact alias_fold_le x ys (fun y hy => cellSub_sound (h y hy)) (Le.refl A)
  | elem x y => exact add_le x (Le.refl A) (cellSub_sound h)
  | asRec x y d => exact add_le x (Le.refl A) (cellSub_sound h)
  | leaf x y => exact add_le x (Le.refl A) (cellSub_sound h)
  | fresh x => exact add_le x (Le.refl A) (cellSub_sound h)
  | shallow x ys => exact add_le x (Le.refl A) (cellSub_sound h)
  | pack x ys => exact add_le x (Le.refl A) (cellSub_sound h)
  | store x y => exact linkClosed_sound h
  | write x => exact Le.refl A
  | gwrite g => exact Le.refl A
  | call ret f args =>
    simp only [closedStmt, Bool.and_eq_true, List.all_eq_true] at h
    simp only [step]
    exact add_le ret (links_fold_le args ret _ (fun l hl => linkClosed_sound (h.1 l hl)) (Le.refl A)) (cellSub_sound h.2)

theorem closedB_sound {S : List Summary} {p : List Stmt} {A : Pts} (h : closedB S p A = true) :
    ∀ s, s ∈ p → Le (step S s A) A := by
  intro s hs
  unfold closedB at h
  rw [List.all_eq_true] at h
  exact closedStmt_sound S s A (h s hs)

theorem sameSet_nil {a : List Nat} (h : sameSet a [] = true) : a = [] := by
  unfold sameSet at h
  rw [Bool.and_eq_true, List.all_eq_true] at h
  cases a with
  | nil => rfl
  | cons x l => have := h.1 x List.mem_cons_self; simp at this

theorem sameSet_sub {a b : List Nat} (h : sameSet a b = true) : a ⊆ b := by
  unfold sameSet at h
  rw [Bool.and_eq_true, List.all_eq_true] at h
  intro x hx
  simpa using h.1 x hx

/-- in a list of (id, data) pairs whose ids are the positions, looking up position `f` in the data gives the pair `(f, ·)` -/
theorem mem_of_idx {α : Type} (l : List (Nat × α)) (h : l.map (·.1) = List.range l.length) (f : Nat) (i : α)
    (hf : (l.map (·.2))[f]? = some i) : (f, i) ∈ l := by
  rw [List.getElem?_map] at hf
  cases hl : l[f]? with
  | none => rw [hl] at hf; simp at hf
  | some p =>
    rw [hl] at hf
    simp only [Option.map_some, Option.some.injEq] at hf
    have hlt : f < l.length := (List.getElem?_eq_some_iff.1 hl).1
    have h1 : (l.map (·.1))[f]? = some p.1 := by rw [List.getElem?_map, hl]; rfl
    rw [h, List.getElem?_range hlt] at h1
    have hp : p = (f, i) := by
      cases p with
      | mk a b =>
        simp only [Option.some.injEq] at h1
        simp only at hf
        rw [← h1, ← hf]
    rw [← hp]
    exact List.mem_of_getElem? hl

theorem nil_le (A : Pts) : Le [] A := by
  intro z
  rw [get_nil]
  exact nil_cellLe _

theorem bump_of_not_mem (ver : Obj → Nat) (os : List Obj) (o : Obj) (h : o ∉ os) : bump ver os o = ver o := by
  unfold bump
  simp [h]

/-- a closed name table bounds every trace: the names stay below it and only objects of its write set change version -/
theorem trace_bounded (S : List Summary) (p : List Stmt) (A : Pts) (hpost : ∀ s, s ∈ p → Le (step S s A) A) :
    ∀ (tr : List Nat) (σ : State), Le σ.pts A →
      Le (execTrace S p tr σ).pts A ∧ ∀ o, o ∉ writeSet S p A → (execTrace S p tr σ).ver o = σ.ver o := by
  intro tr
  induction tr with
  | nil => intro σ h; exact ⟨h, fun _ _ => rfl⟩
  | cons k tr ih =>
    intro σ h
    simp only [execTrace]
    cases hk : p[k]? with
    | none => exact ih σ h
    | some s =>
      have hs : s ∈ p := List.mem_of_getElem? hk
      have h1 : Le (execStmt S s σ).pts A := (step_mono S s h).trans (hpost s hs)
      obtain ⟨ih1, ih2⟩ := ih (execStmt S s σ) h1
      refine ⟨ih1, fun o ho => ?_⟩
      rw [ih2 o ho]
      simp only [execStmt]
      apply bump_of_not_mem
      intro hmem
      apply ho
      unfold writeSet
      exact List.mem_flatMap.2 ⟨s, hs, targets_mono S s h hmem⟩

end Effects
