import PeptVerif.Model.Combinatoric
import PeptVerif.Spec.Combinatoric
import Mathlib.Data.Nat.Choose.Basic
import Mathlib.Data.Nat.Factorial.Basic
/-! Helper lemmas for C19: lengths and naturality of the four enumerations, pieces of `split`. -/
namespace Pept

/-! ### lengths -/

theorem length_flatMap_const {α β : Type} (l : List α) (f : α → List β) (c : Nat) (h : ∀ x ∈ l, (f x).length = c) :
    (l.flatMap f).length = l.length * c := by
  induction l with
  | nil => simp
  | cons x xs ih =>
    simp only [List.flatMap_cons, List.length_append, List.length_cons]
    rw [h x (by simp), ih (fun y hy => h y (by simp [hy]))]
    rw [Nat.add_mul, Nat.one_mul, Nat.add_comm]

theorem length_prodK {α : Type} (k : Nat) (l : List α) : (prodK k l).length = l.length ^ k := by
  induction k with
  | zero => simp [prodK]
  | succ k ih =>
    simp only [prodK]
    rw [length_flatMap_const l _ (l.length ^ k) (by intro x _; simp [ih])]
    rw [Nat.pow_succ, Nat.mul_comm]

theorem length_picks {α : Type} (l : List α) : (picks l).length = l.length := by
  induction l with
  | nil => simp [picks]
  | cons x xs ih => simp [picks, ih]

theorem length_of_mem_picks {α : Type} (l : List α) (p : α × List α) (h : p ∈ picks l) : p.2.length + 1 = l.length := by
  induction l generalizing p with
  | nil => simp [picks] at h
  | cons x xs ih =>
    simp only [picks, List.mem_cons, List.mem_map] at h
    rcases h with h | ⟨q, hq, rfl⟩
    · subst h; simp
    · have := ih q hq
      simp [this]

theorem length_permsK {α : Type} (k : Nat) (l : List α) : (permsK k l).length = l.length.descFactorial k := by
  induction k generalizing l with
  | zero => simp [permsK]
  | succ k ih =>
    simp only [permsK]
    cases hl : l.length with
    | zero =>
      have : l = [] := List.eq_nil_of_length_eq_zero hl
      subst this
      simp [picks]
    | succ n =>
      rw [length_flatMap_const (picks l) _ (n.descFactorial k)]
      · rw [length_picks, hl, Nat.succ_descFactorial_succ]
      · intro p hp
        have h1 := length_of_mem_picks l p hp
        have : p.2.length = n := by omega
        simp [ih, this]

theorem length_combsK {α : Type} (k : Nat) (l : List α) : (combsK k l).length = l.length.choose k := by
  induction l generalizing k with
  | nil => cases k <;> simp [combsK]
  | cons x xs ih =>
    cases k with
    | zero => simp [combsK]
    | succ k =>
      simp only [combsK, List.length_append, List.length_map, List.length_cons, ih]
      rw [Nat.choose_succ_succ]

theorem length_cwrAux {α : Type} (x : α) (tail : Nat → List (List α)) (n : Nat)
    (ht : ∀ k, (tail k).length = (n + k - 1).choose k) (k : Nat) :
    (cwrAux x tail k).length = (n + 1 + k - 1).choose k := by
  induction k with
  | zero => simp [cwrAux]
  | succ k ih =>
    simp only [cwrAux, List.length_append, List.length_map, ih, ht]
    have e1 : n + 1 + k - 1 = n + k := by omega
    have e2 : n + (k + 1) - 1 = n + k := by omega
    have e3 : n + 1 + (k + 1) - 1 = (n + k) + 1 := by omega
    rw [e1, e2, e3, Nat.choose_succ_succ]

theorem length_cwrL {α : Type} (l : List α) (k : Nat) : (cwrL l k).length = (l.length + k - 1).choose k := by
  induction l generalizing k with
  | nil =>
    cases k with
    | zero => simp [cwrL]
    | succ k => simp [cwrL]
  | cons x xs ih =>
    simp only [cwrL, List.length_cons]
    exact length_cwrAux x (cwrL xs) xs.length ih k

theorem length_cwrK {α : Type} (k : Nat) (l : List α) : (cwrK k l).length = (l.length + k - 1).choose k :=
  length_cwrL l k

/-! ### naturality -/


theorem prodK_map {α β : Type} (f : α → β) (k : Nat) (l : List α) :
    prodK k (l.map f) = (prodK k l).map (List.map f) := by
  induction k with
  | zero => simp [prodK]
  | succ k ih =>
    simp only [prodK, ih, List.flatMap_map, List.map_flatMap, List.map_map]
    congr 1

theorem picks_map {α β : Type} (f : α → β) (l : List α) :
    picks (l.map f) = (picks l).map (fun p => (f p.1, p.2.map f)) := by
  induction l with
  | nil => simp [picks]
  | cons x xs ih => simp [picks, ih, Function.comp_def]

theorem permsK_map {α β : Type} (f : α → β) (k : Nat) (l : List α) :
    permsK k (l.map f) = (permsK k l).map (List.map f) := by
  induction k generalizing l with
  | zero => simp [permsK]
  | succ k ih =>
    simp only [permsK, picks_map, List.flatMap_map, List.map_flatMap, List.map_map, ih]
    congr 1

theorem combsK_map {α β : Type} (f : α → β) (k : Nat) (l : List α) :
    combsK k (l.map f) = (combsK k l).map (List.map f) := by
  induction l generalizing k with
  | nil => cases k <;> simp [combsK]
  | cons x xs ih =>
    cases k with
    | zero => simp [combsK]
    | succ k => simp [combsK, ih, Function.comp_def]

theorem cwrAux_map {α β : Type} (f : α → β) (x : α) (t : Nat → List (List α)) (t' : Nat → List (List β))
    (h : ∀ k, t' k = (t k).map (List.map f)) (k : Nat) :
    cwrAux (f x) t' k = (cwrAux x t k).map (List.map f) := by
  induction k with
  | zero => simp [cwrAux]
  | succ k ih => simp [cwrAux, ih, h, Function.comp_def]

theorem cwrL_map {α β : Type} (f : α → β) (l : List α) (k : Nat) :
    cwrL (l.map f) k = (cwrL l k).map (List.map f) := by
  induction l generalizing k with
  | nil => cases k <;> simp [cwrL]
  | cons x xs ih =>
    simp only [List.map_cons, cwrL]
    exact cwrAux_map f x (cwrL xs) (cwrL (xs.map f)) (fun k => ih k) k

theorem cwrK_map {α β : Type} (f : α → β) (k : Nat) (l : List α) :
    cwrK k (l.map f) = (cwrK k l).map (List.map f) := cwrL_map f l k

/-! ### the pieces of `split` on the popped object -/


theorem lookup_slice_filter (d : List (Int × List Mod)) (i : Nat) :
    (d.filterMap fun p => if (i : Int) ≤ p.1 ∧ p.1 < (i : Int) + 1 then some (p.1 - (i : Int), p.2) else none).lookup 0
      = d.lookup (i : Int) := by
  induction d with
  | nil => simp
  | cons p ps ih =>
    obtain ⟨k, v⟩ := p
    by_cases h : (i : Int) ≤ k ∧ k < (i : Int) + 1
    · have hk : k = (i : Int) := by omega
      subst hk
      have h2 : (i : Int) < (i : Int) + 1 := by omega
      simp [h2]
    · have hk : ¬ (k = (i : Int)) := by omega
      have hk' : ((i : Int) == k) = false := by
        simp; omega
      simp only [List.filterMap_cons, h, if_false, List.lookup_cons, hk', ih]

theorem take_one_drop {α : Type} (l : List α) (i : Nat) (h : i < l.length) : (l.drop i).take 1 = [l[i]] := by
  rw [List.drop_eq_getElem_cons h]; rfl

/-- one piece of the popped object, as the text `serialize()` writes: the residue with its own mods -/
theorem residues_piece (a : Annotation) (i : Nat) (h : i < a.seq.length) :
    residues ({ sliceOne (afterPop a) i with labile := none }) = [(a.seq[i], (getInternal a (i : Int)).getD [])] := by
  cases hint : a.internal with
  | none =>
    simp [sliceOne, afterPop, hasMods, hint, residues, take_one_drop _ _ h, getInternal, List.zipIdx]
  | some d =>
    simp [sliceOne, afterPop, hasMods, hint, residues, take_one_drop _ _ h, getInternal, List.zipIdx]
    exact congrArg (fun o => o.getD []) (lookup_slice_filter d i)

theorem components_eq (a : Annotation) : components a = (residues a).map fun r => [r] := by
  apply List.ext_getElem
  · simp [components, split, residues, afterPop]
  · intro i h1 h2
    have hi : i < a.seq.length := by simpa [components, split, afterPop] using h1
    simp only [components, split, List.getElem_map, List.getElem_range]
    have : (afterPop a).labile = none := rfl
    simp only [this, Bool.not_false, Bool.or_true, if_true]
    rw [residues_piece a i hi]
    simp [residues, List.getElem_zipIdx]

/-! ### assembling the selected residues -/


theorem flatten_map_singleton' {α : Type} (l : List α) : (l.map fun r => [r]).flatten = l := by
  induction l with
  | nil => rfl
  | cons x xs ih => simp [ih]

theorem assemble_singletons (a : Annotation) (sel : List (Char × List Mod)) :
    assemble a (sel.map fun r => [r]) = wrap a sel := by
  simp [assemble, wrap, flatten_map_singleton']

abbrev entF : (Char × List Mod) × Nat → Option (Int × List Mod) :=
  fun p => if p.1.2.isEmpty then none else some ((p.2 : Int), p.1.2.map normMult)

theorem lookup_ents_lt (rs : List (Char × List Mod)) (k m : Nat) (h : m < k) :
    ((rs.zipIdx k).filterMap entF).lookup (m : Int) = none := by
  induction rs generalizing k with
  | nil => simp
  | cons r rs ih =>
    simp only [List.zipIdx_cons, List.filterMap_cons, entF]
    split
    · exact ih (k + 1) (by omega)
    · rename_i b hb
      split at hb
      · cases hb
      · cases hb
        have : ((m : Int) == (k : Int)) = false := by simp; omega
        simp only [List.lookup_cons, this]
        exact ih (k + 1) (by omega)

theorem lookup_ents (rs : List (Char × List Mod)) (k j : Nat) (h : j < rs.length) :
    ((rs.zipIdx k).filterMap entF).lookup ((k + j : Nat) : Int)
      = if rs[j].2.isEmpty then none else some (rs[j].2.map normMult) := by
  induction rs generalizing k j with
  | nil => simp at h
  | cons r rs ih =>
    simp only [List.zipIdx_cons, List.filterMap_cons, entF]
    cases j with
    | zero =>
      by_cases he : r.2.isEmpty
      · simp only [he, if_true, List.getElem_cons_zero, Nat.add_zero]
        exact lookup_ents_lt rs (k + 1) k (by omega)
      · simp [he]
    | succ j =>
      have hj : j < rs.length := by simpa using h
      have e : ((k + (j + 1) : Nat) : Int) = ((k + 1 + j : Nat) : Int) := by congr 1; omega
      by_cases he : r.2.isEmpty
      · simp only [he, if_true, List.getElem_cons_succ]
        rw [e]; exact ih (k + 1) j hj
      · have hne : (((k + (j + 1) : Nat) : Int) == (k : Int)) = false := by simp; omega
        have he' : r.2.isEmpty = false := by simpa using he
        simp only [he', Bool.false_eq_true, if_false, List.lookup_cons, hne, List.getElem_cons_succ]
        rw [e]; exact ih (k + 1) j hj

theorem modsAt_wrap (a : Annotation) (sel : List (Char × List Mod)) (i : Nat) (h : i < sel.length) :
    modsAt (wrap a sel) i = sel[i].2.map normMult := by
  have key := lookup_ents sel 0 i h
  simp only [Nat.zero_add] at key
  unfold modsAt getInternal wrap internalOf
  simp only
  split
  · rename_i hint
    split at hint
    · -- no entries at all: the residue has no mods
      rename_i hemp
      have : (sel.zipIdx.filterMap entF) = [] := by simpa using hemp
      rw [this] at key
      simp only [List.lookup_nil] at key
      split at key
      · rename_i he
        have : sel[i].2 = [] := by simpa using he
        simp [this]
      · cases key
    · cases hint
  · rename_i d hint
    split at hint
    · cases hint
    · cases hint
      change (List.lookup (i : Int) (sel.zipIdx.filterMap entF)).getD [] = _
      rw [key]
      split
      · rename_i he
        have : sel[i].2 = [] := by simpa using he
        simp [this]
      · rfl

/-! ### the text round trip is the identity on the domain -/


theorem normMult_id (m : Mod) (h : m.mult ≥ 1) : normMult m = m := by
  unfold normMult
  split
  · rfl
  · have : m.mult = 1 := by omega
    cases m; simp_all

theorem map_normMult_id (l : List Mod) (h : l.all (fun m => decide (m.mult ≥ 1)) = true) : l.map normMult = l := by
  induction l with
  | nil => rfl
  | cons m ms ih =>
    simp only [List.all_cons, Bool.and_eq_true, decide_eq_true_eq] at h
    simp [normMult_id m h.1, ih h.2]

theorem normList_id (o : Option (List Mod)) (h : okList o = true) : normList o = o := by
  cases o with
  | none => rfl
  | some l =>
    cases l with
    | nil => simp [okList] at h
    | cons m ms =>
      simp only [okList, List.isEmpty_cons, Bool.not_false, Bool.true_and] at h
      simp only [normList]
      rw [map_normMult_id _ h]

end Pept
