import PeptVerif.Lemmas.CombinatoricText
import PeptVerif.Props.C01
/-! Helper lemmas for C19: the literal text-level expansions re-parse to the assembled annotations (uses the C01 round trip `parse_serialize`). -/
namespace Pept

theorem assemble_eq_wrap (a : Annotation) (comps : List (List (Char × List Mod))) : assemble a comps = wrap a comps.flatten := rfl

theorem residues_of_mem_pieces (a p : Annotation) (h : p ∈ pieces a) : ∃ r ∈ residues a, residues p = [r] := by
  have hc : (pieces a).map residues = (residues a).map fun r => [r] := components_eq a
  have : residues p ∈ (pieces a).map residues := List.mem_map.2 ⟨p, h, rfl⟩
  rw [hc] at this
  obtain ⟨r, hr, e⟩ := List.mem_map.1 this
  exact ⟨r, hr, e.symm⟩

theorem flatten_residues_mem (a : Annotation) (sel : List Annotation) (h : ∀ p ∈ sel, p ∈ pieces a) :
    ∀ r ∈ (sel.map residues).flatten, r ∈ residues a := by
  intro r hr
  obtain ⟨l, hl, hrl⟩ := List.mem_flatten.1 hr
  obtain ⟨p, hp, rfl⟩ := List.mem_map.1 hl
  obtain ⟨r', hr', e⟩ := residues_of_mem_pieces a p (h p hp)
  rw [e] at hrl
  simp at hrl; subst hrl; exact hr'

theorem flatten_residues_ne_nil (a : Annotation) (sel : List Annotation) (h : ∀ p ∈ sel, p ∈ pieces a) (hne : sel ≠ []) :
    (sel.map residues).flatten ≠ [] := by
  cases sel with
  | nil => exact absurd rfl hne
  | cons p ps =>
    obtain ⟨r, _, e⟩ := residues_of_mem_pieces a p (h p (by simp))
    simp [e]

/-- (b) the string the Python builds is the serialization of the assembled annotation -/
theorem expansionText_eq' (plus : Plus) (a : Annotation) (hc : canon a = true) (sel : List Annotation)
    (h : ∀ p ∈ sel, p ∈ pieces a) :
    expansionText plus a sel = serialize plus (assemble a (sel.map residues)) := by
  rw [assemble_eq_wrap, serialize_wrap plus a hc _ (flatten_residues_mem a sel h), expansionText,
    flatten_serialize_pieces plus a sel h]

theorem reparse_eq' (a : Annotation) (hc : canon a = true) (sel : List Annotation) (h : ∀ p ∈ sel, p ∈ pieces a)
    (hne : sel ≠ []) : reparse a sel = .ok (.single (assemble a (sel.map residues))) := by
  unfold reparse
  rw [expansionText_eq' _ a hc sel h]
  apply parse_serialize
  rw [assemble_eq_wrap]
  exact canon_wrap a hc _ (flatten_residues_ne_nil a sel h hne) (flatten_residues_mem a sel h)

/-- generic step: an enumeration `E` that only selects from its pool and commutes with `map` -/
theorem text_eq_of_enum (E : ∀ {α : Type}, Nat → List α → List (List α))
    (hmem : ∀ {α : Type} (k : Nat) (l t : List α), t ∈ E k l → t.length = k ∧ ∀ x ∈ t, x ∈ l)
    (hmap : ∀ {α β : Type} (f : α → β) (k : Nat) (l : List α), E k (l.map f) = (E k l).map (List.map f))
    (a : Annotation) (hc : canon a = true) (k : Nat) (hk : 1 ≤ k) :
    (E k (pieces a)).map (reparse a) = ((E k (components a)).map (assemble a)).map fun r => .ok (.single r) := by
  have hcomp : components a = (pieces a).map residues := rfl
  rw [hcomp, hmap, List.map_map, List.map_map]
  apply List.map_congr_left
  intro sel hsel
  obtain ⟨hl, hm⟩ := hmem k (pieces a) sel hsel
  have hne : sel ≠ [] := by intro e; subst e; simp at hl; omega
  simp only [Function.comp_def]
  exact reparse_eq' a hc sel hm hne

theorem canon_of_enum (E : ∀ {α : Type}, Nat → List α → List (List α))
    (hmem : ∀ {α : Type} (k : Nat) (l t : List α), t ∈ E k l → t.length = k ∧ ∀ x ∈ t, x ∈ l)
    (a : Annotation) (hc : canon a = true) (k : Nat) (hk : 1 ≤ k) :
    ∀ r ∈ (E k (residues a)).map (wrap a), canon r = true := by
  intro r hr
  obtain ⟨sel, hsel, rfl⟩ := List.mem_map.1 hr
  obtain ⟨hl, hm⟩ := hmem k (residues a) sel hsel
  have hne : sel ≠ [] := by intro e; subst e; simp at hl; omega
  exact canon_wrap a hc sel hne hm

/-! ### string in, strings out -/


theorem collect_map_ok (l : List Annotation) : collect (l.map fun r => (.ok (.single r) : Except Err Parsed)) = .ok (l.map .single) := by
  induction l with
  | nil => rfl
  | cons x xs ih => simp [collect, ih]

theorem serializeAll_map_single (l : List Annotation) :
    serializeAll (l.map .single) = .ok (l.map (serialize (constPlus false))) := by
  induction l with
  | nil => rfl
  | cons x xs ih => simp [serializeAll, serializeParsed, ih]

theorem expandStr_eq (f : Annotation → Option Nat → List (Except Err Parsed)) (g : Annotation → Option Nat → List Annotation)
    (plus : Plus) (a : Annotation) (hc : canon a = true) (size : Option Nat)
    (h : f a size = (g a size).map fun r => .ok (.single r)) :
    expandStr f (serialize plus a) size = .ok ((g a size).map (serialize (constPlus false))) := by
  simp only [expandStr, sequenceToAnnotation, parse_serialize plus a hc, h, collect_map_ok, serializeAll_map_single]

end Pept
