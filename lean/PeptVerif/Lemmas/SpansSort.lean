import PeptVerif.Model.Spans
/-! C06 helper lemmas: the stable insertion sort `sortBy` and `groupByKey` (`itertools.groupby`). Core Lean only. -/
namespace Spans

section sort
variable {α : Type} (le : α → α → Bool)

theorem perm_insertBy (x : α) (l : List α) : (insertBy le x l).Perm (x :: l) := by
  induction l with
  | nil => simp [insertBy]
  | cons y ys ih =>
    simp only [insertBy]
    split
    · exact List.Perm.refl _
    · exact ((List.Perm.cons y ih).trans (List.Perm.swap x y ys))

theorem perm_sortBy (l : List α) : (sortBy le l).Perm l := by
  induction l with
  | nil => simp [sortBy]
  | cons a l ih =>
    have : sortBy le (a :: l) = insertBy le a (sortBy le l) := rfl
    rw [this]
    exact (perm_insertBy le a _).trans (List.Perm.cons a ih)

theorem mem_sortBy (x : α) (l : List α) : x ∈ sortBy le l ↔ x ∈ l := (perm_sortBy le l).mem_iff

theorem pairwise_insertBy (htot : ∀ a b, le a b = false → le b a = true)
    (htr : ∀ a b c, le a b = true → le b c = true → le a c = true)
    (x : α) (l : List α) (h : l.Pairwise (fun a b => le a b = true)) :
    (insertBy le x l).Pairwise (fun a b => le a b = true) := by
  induction l with
  | nil => simp [insertBy]
  | cons y ys ih =>
    rw [List.pairwise_cons] at h
    simp only [insertBy]
    split
    · rename_i hxy
      rw [List.pairwise_cons]
      refine ⟨?_, List.pairwise_cons.mpr h⟩
      intro b hb
      rcases List.mem_cons.mp hb with rfl | hb
      · exact hxy
      · exact htr _ _ _ hxy (h.1 b hb)
    · rename_i hxy
      rw [List.pairwise_cons]
      refine ⟨?_, ih h.2⟩
      intro b hb
      rcases List.mem_cons.mp ((perm_insertBy le x ys).mem_iff.mp hb) with rfl | hb
      · exact htot _ _ (by simpa using hxy)
      · exact h.1 b hb

theorem pairwise_sortBy (htot : ∀ a b, le a b = false → le b a = true)
    (htr : ∀ a b c, le a b = true → le b c = true → le a c = true) (l : List α) :
    (sortBy le l).Pairwise (fun a b => le a b = true) := by
  induction l with
  | nil => simp [sortBy]
  | cons a l ih => exact pairwise_insertBy le htot htr a _ ih

end sort

section group
variable {α : Type} (key : α → Int)

/-- structural facts about `groupByKey`: the groups concatenate to the input, none is empty, the
first group starts with the head of the input -/
theorem groupByKey_cons (x : α) (xs : List α) :
    ∃ g gs, groupByKey key (x :: xs) = (x :: g) :: gs := by
  induction xs generalizing x with
  | nil => exact ⟨[], [], by simp [groupByKey]⟩
  | cons y ys ih =>
    obtain ⟨g, gs, h⟩ := ih y
    unfold groupByKey
    rw [h]
    simp only
    split
    · exact ⟨_, _, rfl⟩
    · exact ⟨_, _, rfl⟩

theorem groupByKey_flatten (l : List α) : (groupByKey key l).flatten = l := by
  induction l with
  | nil => simp [groupByKey]
  | cons x xs ih =>
    cases xs with
    | nil => simp [groupByKey]
    | cons y ys =>
      obtain ⟨g, gs, h⟩ := groupByKey_cons key y ys
      unfold groupByKey
      rw [h] at ih ⊢
      simp only
      split
      · simpa using ih
      · simpa using ih

/-- each group has a constant key -/
theorem groupByKey_const (l : List α) : ∀ G ∈ groupByKey key l, ∀ a ∈ G, ∀ b ∈ G, key a = key b := by
  induction l with
  | nil => simp [groupByKey]
  | cons x xs ih =>
    cases xs with
    | nil => simp [groupByKey]
    | cons y ys =>
      obtain ⟨g, gs, h⟩ := groupByKey_cons key y ys
      unfold groupByKey
      rw [h] at ih ⊢
      simp only
      have hg : ∀ a ∈ y :: g, key a = key y := fun a ha => ih _ (by simp) a ha y (by simp)
      split
      · rename_i hxy
        intro G hG
        rcases List.mem_cons.mp hG with rfl | hG
        · have : ∀ a ∈ x :: y :: g, key a = key y := by
            intro a ha
            rcases List.mem_cons.mp ha with rfl | ha
            · exact hxy
            · exact hg a ha
          intro a ha b hb; rw [this a ha, this b hb]
        · exact ih G (by simp [hG])
      · intro G hG
        rcases List.mem_cons.mp hG with rfl | hG
        · intro a ha b hb; simp at ha hb; rw [ha, hb]
        · exact ih G hG

/-- on input sorted by key, different groups have strictly increasing keys -/
theorem groupByKey_pairwise (l : List α) (hs : l.Pairwise (fun a b => key a ≤ key b)) :
    (groupByKey key l).Pairwise (fun G H => ∀ a ∈ G, ∀ b ∈ H, key a < key b) := by
  induction l with
  | nil => simp [groupByKey]
  | cons x xs ih =>
    rw [List.pairwise_cons] at hs
    cases xs with
    | nil => simp [groupByKey]
    | cons y ys =>
      obtain ⟨g, gs, h⟩ := groupByKey_cons key y ys
      have hconst := groupByKey_const key (y :: ys)
      have hflat := groupByKey_flatten key (y :: ys)
      have ih := ih hs.2
      unfold groupByKey
      rw [h] at ih hconst hflat ⊢
      simp only
      have hg : ∀ a ∈ y :: g, key a = key y := fun a ha => hconst _ (by simp) a ha y (by simp)
      rw [List.pairwise_cons] at ih
      split
      · rename_i hxy
        rw [List.pairwise_cons]
        refine ⟨?_, ih.2⟩
        intro H hH a ha b hb
        rcases List.mem_cons.mp ha with rfl | ha
        · rw [hxy]; exact ih.1 H hH y (by simp) b hb
        · exact ih.1 H hH a ha b hb
      · rename_i hxy
        rw [List.pairwise_cons]
        refine ⟨?_, List.pairwise_cons.mpr ih⟩
        intro H hH a ha b hb
        simp only [List.mem_singleton] at ha; subst ha
        have hxy' : key a < key y := by
          have := hs.1 y (by simp); omega
        rcases List.mem_cons.mp hH with rfl | hH
        · rw [hg b hb]; exact hxy'
        · have := ih.1 H hH y (by simp) b hb; omega

theorem pairwise_mem_cases {β : Type} {R : β → β → Prop} {l : List β} (h : l.Pairwise R) {a b : β}
    (ha : a ∈ l) (hb : b ∈ l) : a = b ∨ R a b ∨ R b a := by
  induction l with
  | nil => simp at ha
  | cons x xs ih =>
    rw [List.pairwise_cons] at h
    rcases List.mem_cons.mp ha with rfl | ha'
    · rcases List.mem_cons.mp hb with rfl | hb'
      · exact Or.inl rfl
      · exact Or.inr (Or.inl (h.1 b hb'))
    · rcases List.mem_cons.mp hb with rfl | hb'
      · exact Or.inr (Or.inr (h.1 a ha'))
      · exact ih h.2 ha' hb'

/-- on input sorted by key, a group contains every element of the input with its key -/
theorem groupByKey_complete (l : List α) (hs : l.Pairwise (fun a b => key a ≤ key b))
    (G : List α) (hG : G ∈ groupByKey key l) (p : α) (hp : p ∈ G) (q : α) (hq : q ∈ l)
    (hk : key q = key p) : q ∈ G := by
  have hq' : q ∈ (groupByKey key l).flatten := by rw [groupByKey_flatten]; exact hq
  obtain ⟨H, hH, hqH⟩ := List.mem_flatten.mp hq'
  rcases pairwise_mem_cases (groupByKey_pairwise key l hs) hG hH with rfl | h | h
  · exact hqH
  · have := h p hp q hqH; omega
  · have := h q hqH p hp; omega

theorem groupByKey_mem (l : List α) (p : α) : (∃ G ∈ groupByKey key l, p ∈ G) ↔ p ∈ l := by
  conv => rhs; rw [← groupByKey_flatten key l]
  simp [List.mem_flatten]

theorem groupByKey_sublist (l : List α) (G : List α) (hG : G ∈ groupByKey key l) : G.Sublist l := by
  have := List.sublist_flatten_of_mem hG
  rwa [groupByKey_flatten] at this

end group
end Spans
