import PeptVerif.Model.Formula
/-!
Interface between the number-text lemmas (`Lemmas/NumText.lean`: printing and re-reading a count) and the
formula / glycan round-trip proofs (`Lemmas/FormulaRT.lean`, `Lemmas/GlycanRT.lean`), so that both sides can be
developed independently.  Mathlib-free.
-/
namespace Formula
open ModDb

/-- a count the writers can print in positional notation: a Python int, or a float that is a finite decimal
with at most 399 fractional digits (every sum/product of decimals is one) -/
def NumWF (v : Num) : Prop :=
  (v.isFloat = false → v.val.den = 1) ∧ (v.isFloat = true → ∃ s, s ≤ 399 ∧ v.val.den ∣ 10 ^ s)

/-- what the round-trip proofs need to know about the printed text `v.show` of a count -/
structure NumOK (v : Num) : Prop where
  /-- reading the printed text gives the number back (value and int/float kind) -/
  conv : convertType v.show = .num v
  /-- the text is not empty -/
  ne : v.show ≠ []
  /-- it consists of `-`, digits and `.` only -/
  chars : ∀ c ∈ v.show, (isDigit c || c == 45 || c == 46) = true
  /-- the tokenizer's count pattern `-?\d*\.?\d*` matches exactly the printed text when what follows does not start
  with a digit or a dot -/
  count : ∀ rest : Str, (∀ c r, rest = c :: r → (isDigit c || c == 46) = false) → countStr (v.show ++ rest) = v.show
  /-- `float(text)` succeeds (`is_number` of `_parse_split_chem_formula`) -/
  isNum : isNumber v.show = true

end Formula
