import PeptVerif.Model.SerializeC
/-!
The combinator form of the serializer (`Model/SerializeC.lean`, = what the translator reads off the Python source) equals the
hand-written model of `Model/Serialize.lean`. No Mathlib.
-/
namespace Pept.SerC

theorem modSerialize_eq : modSerialize = Mod.serialize := by
  funext o c plus m
  unfold modSerialize Mod.serialize ModVal.shown
  cases plus <;> cases hp : m.val.positive <;> by_cases hm : m.mult > 1 <;> simp [hm]

theorem forEach_mods (o c : Char) (plus : Plus) (l : List Mod) :
    forEach l (fun mod => modSerialize o c (plus mod) mod) = serializeMods o c plus l := by
  rw [modSerialize_eq]; rfl

theorem ifSome_mods (o c : Char) (plus : Plus) (x : Option (List Mod)) :
    ifSome x (fun v => forEach v (fun mod => modSerialize o c (plus mod) mod)) = optMods o c plus x := by
  cases x with
  | none => rfl
  | some l => exact forEach_mods o c plus l

theorem ifTruthy_mods (o c : Char) (plus : Plus) (x : Option (List Mod)) :
    ifTruthy x (fun v => forEach v (fun mod => modSerialize o c (plus mod) mod)) = optMods o c plus x := by
  cases x with
  | none => rfl
  | some l =>
    cases l with
    | nil => rfl
    | cons m t => exact forEach_mods o c plus (m :: t)

theorem serializeStart_eq : serializeStart = Pept.serializeStart := by
  funext plus a
  unfold serializeStart Pept.serializeStart
  simp only [ifSome_mods]
  cases a.unknown <;> cases a.nterm <;> simp [ifSome, forEach_mods]

/-- what one interval contributes in front of residue `i` -/
theorem mark_eq (plus : Plus) (i : Int) (iv : Interval) :
    ifB (decide (iv.start = i)) (['('] ++ ifB iv.ambiguous ['?']) ++
      ifB (decide (iv.stop = i)) ([')'] ++ ifTruthy iv.mods (fun ms => forEach ms (fun mod => modSerialize '[' ']' (plus mod) mod)))
      = ivMark plus i true iv := by
  rw [ifTruthy_mods]
  unfold ivMark ifB
  by_cases h1 : iv.start = i <;> by_cases h2 : iv.stop = i <;> cases iv.ambiguous <;> simp [h1, h2]

theorem markClose_eq (plus : Plus) (i : Int) (iv : Interval) :
    ifB (decide (iv.stop = i)) ([')'] ++ ifTruthy iv.mods (fun ms => forEach ms (fun mod => modSerialize '[' ']' (plus mod) mod)))
      = ivMark plus i false iv := by
  rw [ifTruthy_mods]
  unfold ivMark ifB
  by_cases h2 : iv.stop = i <;> simp [h2]

theorem ifTruthy_intervals (ivs : Option (List Interval)) (g : Interval → List Char) :
    ifTruthy ivs (fun v => forEach v g) = (ivs.getD []).flatMap g := by
  cases ivs with
  | none => rfl
  | some l => cases l <;> rfl

theorem ifInDict_eq (plus : Plus) (d : Option (List (Int × List Mod))) (i : Int) :
    ifInDict d i (fun ms => forEach ms (fun mod => modSerialize '[' ']' (plus mod) mod)) = internalAt plus d i := by
  unfold ifInDict internalAt
  cases d with
  | none => rfl
  | some l =>
    simp only
    cases dictGet i l with
    | none => rfl
    | some v => exact forEach_mods '[' ']' plus v

theorem forEnum_residues (plus : Plus) (a : Annotation) (seq : List Char) (i : Int) :
    forEnum seq i (fun i aa => (a.intervals.getD []).flatMap (ivMark plus i true) ++ ([aa] ++ internalAt plus a.internal i)) ++
      (a.intervals.getD []).flatMap (ivMark plus (i + Int.ofNat seq.length) false) = serializeResidues plus a i seq := by
  induction seq generalizing i with
  | nil => simp [forEnum, serializeResidues, ivMarks]
  | cons c t ih =>
    have := ih (i + 1)
    simp only [forEnum, serializeResidues, ivMarks, List.length_cons, List.append_assoc, List.cons_append, List.nil_append] at this ⊢
    have hlen : i + Int.ofNat (t.length + 1) = i + 1 + Int.ofNat t.length := by
      simp only [Int.ofNat_eq_natCast]; omega
    rw [hlen, this]

theorem serializeMiddle_eq : serializeMiddle = Pept.serializeMiddle := by
  funext plus a
  unfold serializeMiddle Pept.serializeMiddle
  simp only [ifTruthy_intervals, mark_eq, ifInDict_eq]
  simp only [markClose_eq]
  have := forEnum_residues plus a a.seq 0
  simp only [Int.zero_add] at this
  exact this

theorem serializeEnd_eq : serializeEnd = Pept.serializeEnd := by
  funext plus a
  unfold serializeEnd Pept.serializeEnd
  rw [ifTruthy_mods]
  cases a.cterm with
  | none => cases a.charge <;> simp [ifTruthy, ifSome]
  | some l =>
    cases l with
    | nil => cases a.charge <;> simp [ifTruthy, ifSome]
    | cons m t => cases a.charge <;> simp [ifTruthy, ifSome, forEach_mods]

theorem serialize_eq : serialize = Pept.serialize := by
  funext plus a
  unfold serialize Pept.serialize
  rw [serializeStart_eq, serializeMiddle_eq, serializeEnd_eq]

theorem joinChains_eq (xj : List Char) (plus : Plus) :
    joinChains xj ['+'] (Pept.serialize plus) = serializeMultiWith xj plus := by
  funext as conns
  induction as generalizing conns with
  | nil => rfl
  | cons a t ih =>
    cases t with
    | nil => rfl
    | cons b t' =>
      cases conns with
      | nil => rfl
      | cons cn cs =>
        simp only [joinChains, serializeMultiWith, ih cs]
        cases serializeMultiWith xj plus (b :: t') cs <;> rfl

theorem serializeMulti_eq : serializeMulti = Pept.serializeMulti := by
  funext plus
  unfold serializeMulti Pept.serializeMulti
  rw [serialize_eq]
  exact joinChains_eq _ plus

end Pept.SerC
