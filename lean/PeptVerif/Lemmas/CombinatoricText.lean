import PeptVerif.Lemmas.Combinatoric
import PeptVerif.Lemmas.CombinatoricSpec
import PeptVerif.Model.CombinatoricText
import PeptVerif.Spec.ProForma
import PeptVerif.Lemmas.CanonFields
/-! Helper lemmas for C19 at text level: membership in the enumerations, the text of interval-free annotations, canonicity of the results. -/
set_option linter.unusedSimpArgs false
namespace Pept

/-! ### membership in the enumerations -/

theorem mem_prodK {α : Type} (k : Nat) (l t : List α) (h : t ∈ prodK k l) : t.length = k ∧ ∀ x ∈ t, x ∈ l := by
  induction k generalizing t with
  | zero => simp [prodK] at h; subst h; simp
  | succ k ih =>
    simp only [prodK, List.mem_flatMap, List.mem_map] at h
    obtain ⟨x, hx, t', ht', rfl⟩ := h
    obtain ⟨h1, h2⟩ := ih t' ht'
    refine ⟨by simp [h1], ?_⟩
    intro y hy
    rcases List.mem_cons.1 hy with rfl | hy
    · exact hx
    · exact h2 y hy

theorem specFilter_subset_prodK {α : Type} (p : List Nat → Bool) (k : Nat) (l t : List α)
    (h : t ∈ ((tuples k l.length).filter p).map (pick l)) : t ∈ prodK k l := by
  rw [prodK_eq_spec, specProd]
  obtain ⟨idx, hidx, rfl⟩ := List.mem_map.1 h
  exact List.mem_map.2 ⟨idx, (List.mem_filter.1 hidx).1, rfl⟩

theorem mem_permsK {α : Type} (k : Nat) (l t : List α) (h : t ∈ permsK k l) : t.length = k ∧ ∀ x ∈ t, x ∈ l := by
  rw [permsK_eq_spec] at h; exact mem_prodK k l t (specFilter_subset_prodK _ k l t h)

theorem mem_combsK {α : Type} (k : Nat) (l t : List α) (h : t ∈ combsK k l) : t.length = k ∧ ∀ x ∈ t, x ∈ l := by
  rw [combsK_eq_spec] at h; exact mem_prodK k l t (specFilter_subset_prodK _ k l t h)

theorem mem_cwrK {α : Type} (k : Nat) (l t : List α) (h : t ∈ cwrK k l) : t.length = k ∧ ∀ x ∈ t, x ∈ l := by
  rw [cwrK_eq_spec] at h; exact mem_prodK k l t (specFilter_subset_prodK _ k l t h)

/-! ### the text of an annotation without intervals -/

/-- residues with their own mods, written out -/
def resText (plus : Plus) (rs : List (Char × List Mod)) : List Char :=
  rs.flatMap fun r => r.1 :: serializeMods '[' ']' plus r.2

theorem dictGet_eq_lookup (k : Int) (l : List (Int × List Mod)) : dictGet k l = l.lookup k := by
  induction l with
  | nil => rfl
  | cons p ps ih =>
    obtain ⟨k', v⟩ := p
    simp only [dictGet, List.lookup_cons]
    by_cases h : k' = k
    · subst h; simp
    · have : (k == k') = false := by simpa using fun e => h e.symm
      simp [h, this, ih]

theorem internalAt_eq (plus : Plus) (p : Annotation) (i : Int) :
    internalAt plus p.internal i = serializeMods '[' ']' plus ((getInternal p i).getD []) := by
  unfold internalAt getInternal
  cases p.internal with
  | none => simp [serializeMods]
  | some d =>
    simp only [dictGet_eq_lookup]
    cases List.lookup i d <;> simp [optMods, serializeMods]

theorem serializeResidues_noiv (plus : Plus) (p : Annotation) (h : p.intervals = none) (i : Nat) (rest : List Char) :
    serializeResidues plus p (i : Int) rest =
      resText plus ((rest.zipIdx i).map fun q => (q.1, (getInternal p (q.2 : Int)).getD [])) := by
  induction rest generalizing i with
  | nil => simp [serializeResidues, ivMarks, h, resText]
  | cons c cs ih =>
    simp only [serializeResidues, ivMarks, h, Option.getD_none, List.flatMap_nil, List.nil_append, internalAt_eq,
      List.zipIdx_cons, List.map_cons, resText, List.flatMap_cons, List.cons_append, List.append_assoc]
    have : (i : Int) + 1 = ((i + 1 : Nat) : Int) := by push_cast; rfl
    rw [this, ih (i + 1)]
    rfl

/-- only residues and their mods -/
def Bare (p : Annotation) : Prop :=
  p.isotope = none ∧ p.static = none ∧ p.labile = none ∧ p.unknown = none ∧ p.nterm = none ∧ p.cterm = none ∧
  p.intervals = none ∧ p.charge = none ∧ p.adducts = none

theorem serializeMiddle_noiv (plus : Plus) (p : Annotation) (h : p.intervals = none) :
    serializeMiddle plus p = resText plus (residues p) := by
  unfold serializeMiddle residues
  have := serializeResidues_noiv plus p h 0 p.seq
  simpa using this

theorem serialize_bare (plus : Plus) (p : Annotation) (h : Bare p) : serialize plus p = resText plus (residues p) := by
  obtain ⟨h1, h2, h3, h4, h5, h6, h7, h8, h9⟩ := h
  simp [serialize, serializeStart, serializeEnd, h1, h2, h3, h4, h5, h6, h8, h9, optMods, serializeMiddle_noiv plus p h7]

theorem bare_of_mem_pieces (a p : Annotation) (h : p ∈ pieces a) : Bare p := by
  simp only [pieces, split, List.mem_map, List.mem_range] at h
  obtain ⟨i, _, rfl⟩ := h
  have hl : (afterPop a).labile = none := rfl
  simp only [hl, Bool.not_false, Bool.or_true, if_true]
  unfold sliceOne
  split
  · simp [Bare]
  · simp [Bare, afterPop]
    exact ite_self _

theorem resText_flatten (plus : Plus) (L : List (List (Char × List Mod))) :
    (L.map (resText plus)).flatten = resText plus L.flatten := by
  induction L with
  | nil => rfl
  | cons x xs ih => simp [resText, List.flatMap_append] at ih ⊢; rw [ih]

theorem flatten_serialize_pieces (plus : Plus) (a : Annotation) (sel : List Annotation) (h : ∀ p ∈ sel, p ∈ pieces a) :
    (sel.map (serialize plus)).flatten = resText plus (sel.map residues).flatten := by
  rw [← resText_flatten, List.map_map]
  congr 1
  apply List.map_congr_left
  intro p hp
  exact serialize_bare plus p (bare_of_mem_pieces a p (h p hp))

/-! ### canonical annotations -/


theorem canonMod_mult (o c : Char) (m : Mod) (h : canonMod o c m = true) : m.mult ≥ 1 := by
  simp only [canonMod, Bool.and_eq_true, decide_eq_true_eq] at h; exact h.1

theorem normList_of_all (p : Mod → Bool) (hp : ∀ m, p m = true → m.mult ≥ 1) (x : Option (List Mod))
    (h : match x with | none => True | some l => l ≠ [] ∧ l.all p = true) : normList x = x := by
  apply normList_id
  cases x with
  | none => rfl
  | some l =>
    obtain ⟨h1, h2⟩ := h
    simp only [okList, Bool.and_eq_true, Bool.not_eq_eq_eq_not, Bool.not_true, List.isEmpty_eq_false_iff, List.all_eq_true,
      decide_eq_true_eq]
    exact ⟨h1, fun m hm => hp m (List.all_eq_true.1 h2 m hm)⟩

theorem normList_canonOptMods (o c : Char) (x : Option (List Mod)) (h : canonOptMods o c x = true) : normList x = x := by
  apply normList_of_all (canonMod o c) (canonMod_mult o c)
  cases x with
  | none => trivial
  | some l =>
    simp only [canonOptMods, Bool.and_eq_true, Bool.not_eq_eq_eq_not, Bool.not_true, List.isEmpty_eq_false_iff] at h
    exact h

theorem normList_canonGlobal (p : Mod → Bool) (hp : ∀ m, p m = true → m.mult ≥ 1) (x : Option (List Mod))
    (h : canonGlobal p x = true) : normList x = x := by
  apply normList_of_all p hp
  cases x with
  | none => trivial
  | some l =>
    simp only [canonGlobal, Bool.and_eq_true, Bool.not_eq_eq_eq_not, Bool.not_true, List.isEmpty_eq_false_iff] at h
    exact h

theorem canonStatic_mult (m : Mod) (h : canonStatic m = true) : m.mult ≥ 1 := by
  simp only [canonStatic, Bool.and_eq_true, decide_eq_true_eq] at h; omega

theorem canonIsotope_mult (m : Mod) (h : canonIsotope m = true) : m.mult ≥ 1 := by
  simp only [canonIsotope, Bool.and_eq_true, decide_eq_true_eq] at h; omega

theorem normList_canonAdducts (ch : Option Int) (x : Option (List Mod)) (h : canonAdducts ch x = true) : normList x = x := by
  apply normList_of_all (fun m => decide (m.mult = 1) && canonVal '[' ']' m.val)
  · intro m hm
    simp only [Bool.and_eq_true, decide_eq_true_eq] at hm; omega
  · cases x with
    | none => trivial
    | some l =>
      simp only [canonAdducts, Bool.and_eq_true, Bool.not_eq_eq_eq_not, Bool.not_true, List.isEmpty_eq_false_iff] at h
      exact ⟨h.1.2, h.2⟩

theorem mem_canonInternalList (n lo : Int) (d : List (Int × List Mod)) (h : canonInternalList n lo d = true) :
    ∀ p ∈ d, p.2.all (canonMod '[' ']') = true := by
  induction d generalizing lo with
  | nil => intro p hp; simp at hp
  | cons q qs ih =>
    obtain ⟨k, ms⟩ := q
    simp only [canonInternalList, Bool.and_eq_true] at h
    intro p hp
    rcases List.mem_cons.1 hp with rfl | hp
    · exact h.1.2
    · exact ih (k + 1) h.2 p hp

theorem lookup_mem {β : Type} (d : List (Int × β)) (k : Int) (v : β) (h : d.lookup k = some v) : (k, v) ∈ d := by
  induction d with
  | nil => simp at h
  | cons p ps ih =>
    obtain ⟨k', v'⟩ := p
    simp only [List.lookup_cons] at h
    split at h
    · rename_i hk
      have : k = k' := by simpa using hk
      cases h; subst this; simp
    · exact List.mem_cons_of_mem _ (ih h)

/-- every residue of a canonical annotation is a letter carrying canonical mods -/
theorem mem_residues_canon (a : Annotation) (hc : canon a = true) (r : Char × List Mod) (hr : r ∈ residues a) :
    isAA r.1 = true ∧ r.2.all (canonMod '[' ']') = true := by
  obtain ⟨_, hAA, _, _, _, _, _, hint, _⟩ := canon_fields a hc
  simp only [residues, List.mem_map] at hr
  obtain ⟨⟨c, i⟩, hq, rfl⟩ := hr
  have hcm : c ∈ a.seq := by
    have := List.mem_zipIdx hq
    exact (List.mem_iff_getElem.2 ⟨i - 0, by omega, by simpa using this.2.2.symm⟩)
  refine ⟨List.all_eq_true.1 hAA c hcm, ?_⟩
  simp only [getInternal]
  cases hi : a.internal with
  | none => simp
  | some d =>
    simp only
    cases hl : List.lookup (i : Int) d with
    | none => simp
    | some v =>
      simp only [Option.getD_some]
      rw [hi] at hint
      simp only [canonInternal, Bool.and_eq_true] at hint
      exact mem_canonInternalList _ 0 d hint.2 _ (lookup_mem d _ v hl)

/-! ### the wrapped selection: canonical, and its text -/


theorem map_normMult_canon (ms : List Mod) (h : ms.all (canonMod '[' ']') = true) : ms.map normMult = ms := by
  apply map_normMult_id
  apply List.all_eq_true.2
  intro m hm
  simpa using canonMod_mult _ _ m (List.all_eq_true.1 h m hm)

/-- keys of the entries built from residues `k, k+1, …` are increasing, below the length, with canonical mods -/
theorem canonInternalList_ents (rs : List (Char × List Mod)) (n : Int) (k : Nat) (lo : Int) (hlo : lo ≤ k)
    (hn : (k : Int) + rs.length ≤ n) (hall : ∀ r ∈ rs, r.2.all (canonMod '[' ']') = true) :
    canonInternalList n lo ((rs.zipIdx k).filterMap entF) = true := by
  induction rs generalizing k lo with
  | nil => rfl
  | cons r rs ih =>
    have hr := hall r (by simp)
    have hrest : ∀ r' ∈ rs, r'.2.all (canonMod '[' ']') = true := fun r' h' => hall r' (by simp [h'])
    have hlen : ((k + 1 : Nat) : Int) + rs.length ≤ n := by simp at hn ⊢; omega
    simp only [List.zipIdx_cons, List.filterMap_cons, entF]
    by_cases he : r.2.isEmpty
    · simp only [he, if_true]
      exact ih (k + 1) lo (by push_cast; omega) hlen hrest
    · have he' : r.2.isEmpty = false := by simpa using he
      simp only [he', Bool.false_eq_true, if_false, canonInternalList, Bool.and_eq_true, decide_eq_true_eq,
        Bool.not_eq_eq_eq_not, Bool.not_true, List.isEmpty_map]
      rw [map_normMult_canon r.2 hr]
      refine ⟨⟨⟨⟨hlo, ?_⟩, ?_⟩, hr⟩, ih (k + 1) ((k : Int) + 1) (by push_cast; omega) hlen hrest⟩
      · simp at hn; omega
      · first | exact he' | trivial

theorem canonInternal_internalOf (sel : List (Char × List Mod)) (hall : ∀ r ∈ sel, r.2.all (canonMod '[' ']') = true) :
    canonInternal (Int.ofNat sel.length) (internalOf sel) = true := by
  unfold internalOf
  simp only
  split
  · rfl
  · rename_i hne
    simp only [canonInternal, Bool.and_eq_true, Bool.not_eq_eq_eq_not, Bool.not_true]
    refine ⟨by simpa using hne, ?_⟩
    exact canonInternalList_ents sel _ 0 0 (by simp) (by simp) hall

theorem residues_wrap (a : Annotation) (sel : List (Char × List Mod)) :
    residues (wrap a sel) = sel.map fun r => (r.1, r.2.map normMult) := by
  apply List.ext_getElem
  · simp [residues, wrap]
  · intro i h1 h2
    have hi : i < sel.length := by simpa using h2
    have := modsAt_wrap a sel i hi
    simp only [modsAt] at this
    simp only [residues, List.getElem_map, List.getElem_zipIdx, Nat.zero_add]
    rw [this]
    simp [wrap]

theorem residues_wrap_canon (a : Annotation) (sel : List (Char × List Mod))
    (hall : ∀ r ∈ sel, r.2.all (canonMod '[' ']') = true) : residues (wrap a sel) = sel := by
  rw [residues_wrap]
  conv => rhs; rw [← List.map_id sel]
  apply List.map_congr_left
  intro r hr
  simp [map_normMult_canon r.2 (hall r hr)]

/-- a non-empty selection of residues of a canonical annotation, wrapped in its globals, is canonical -/
theorem canon_wrap (a : Annotation) (hc : canon a = true) (sel : List (Char × List Mod)) (hne : sel ≠ [])
    (hsel : ∀ r ∈ sel, r ∈ residues a) : canon (wrap a sel) = true := by
  obtain ⟨_, _, h3, h4, h5, h6, h7, _, _, h10, h12⟩ := canon_fields a hc
  have hres := fun r hr => mem_residues_canon a hc r (hsel r hr)
  have hint := canonInternal_internalOf sel (fun r hr => (hres r hr).2)
  simp only [canon, wrap, Bool.and_eq_true]
  rw [normList_canonOptMods _ _ _ h3, normList_canonGlobal _ canonStatic_mult _ h4,
    normList_canonGlobal _ canonIsotope_mult _ h5, normList_canonOptMods _ _ _ h6, normList_canonOptMods _ _ _ h7,
    normList_canonOptMods _ _ _ h10, normList_canonAdducts _ _ h12]
  refine ⟨⟨⟨⟨⟨⟨⟨⟨⟨⟨?_, ?_⟩, h3⟩, h4⟩, h5⟩, h6⟩, h7⟩, ?_⟩, rfl⟩, h10⟩, h12⟩
  · cases sel with
    | nil => exact absurd rfl hne
    | cons x xs => simp
  · apply List.all_eq_true.2
    intro c hcm
    obtain ⟨r, hr, rfl⟩ := List.mem_map.1 hcm
    exact (hres r hr).1
  · simpa using hint

/-- the text the Python puts together is the serialization of the wrapped selection -/
theorem serialize_wrap (plus : Plus) (a : Annotation) (hc : canon a = true) (sel : List (Char × List Mod))
    (hsel : ∀ r ∈ sel, r ∈ residues a) :
    serialize plus (wrap a sel) = serializeStart plus a ++ resText plus sel ++ serializeEnd plus a := by
  obtain ⟨_, _, h3, h4, h5, h6, h7, _, _, h10, h12⟩ := canon_fields a hc
  have hres := fun r hr => (mem_residues_canon a hc r (hsel r hr)).2
  unfold serialize
  rw [serializeMiddle_noiv plus (wrap a sel) rfl, residues_wrap_canon a sel hres]
  have hs : serializeStart plus (wrap a sel) = serializeStart plus a := by
    simp only [serializeStart, wrap]
    rw [normList_canonOptMods _ _ _ h3, normList_canonGlobal _ canonStatic_mult _ h4,
      normList_canonGlobal _ canonIsotope_mult _ h5, normList_canonOptMods _ _ _ h6, normList_canonOptMods _ _ _ h7]
  have he : serializeEnd plus (wrap a sel) = serializeEnd plus a := by
    simp only [serializeEnd, wrap]
    rw [normList_canonOptMods _ _ _ h10, normList_canonAdducts _ _ h12]
  rw [hs, he]

end Pept
