import PeptVerif.Lemmas.Mass
/-!
Helper lemmas for `Props/C05Ext.lean` (round-5 extension of C05): neutral offsets of the forward / backward terminal series in
`seriesOffset` form, positivity of residue sums, `mz` in terms of `mass`.
-/
namespace Pept.Mass
open Pept Pept.Chem Pept.Spec

set_option maxRecDepth 8000 in
theorem offset_forward (mono : Bool) (f : Key) (hf : f ∈ [k "a", k "b", k "c"]) :
    neutralOffset lib mono f = some ((seriesOffset lib mono f).getD 0) ∧ f ≠ ionP ∧ f ≠ ionN := by
  simp only [List.mem_cons, List.mem_nil_iff, or_false] at hf
  rcases hf with rfl | rfl | rfl <;> exact ⟨rfl, by decide, by decide⟩

set_option maxRecDepth 8000 in
theorem offset_backward (mono : Bool) (g : Key) (hg : g ∈ [k "x", k "y", k "z"]) :
    neutralOffset lib mono g = some ((seriesOffset lib mono g).getD 0 + lib.compMass mono fH2O) ∧ g ≠ ionP ∧ g ≠ ionN := by
  simp only [List.mem_cons, List.mem_nil_iff, or_false] at hg
  rcases hg with rfl | rfl | rfl <;> exact ⟨rfl, by decide, by decide⟩

/-- every residue of the hand-typed table has a non-negative mass in the library's element tables, both modes, and a
positive one unless it is `X` (whose composition is empty in `AA_COMPOSITIONS`: mass 0).  Stated on the numerator: an
`Int` comparison the kernel evaluates; `Rat.num_pos` / `Rat.num_nonneg` turn it into a statement about the mass. -/
def residuesPositive : Bool :=
  [true, false].all (fun mono => residueFormula.all (fun p =>
    decide (0 ≤ (lib.compMass mono p.2).num) && (p.1 == 88 || decide (0 < (lib.compMass mono p.2).num))))

theorem residueSum_cons (mono : Bool) (c : Char) (s : List Char) :
    residueSum lib mono (c :: s) = lib.compMass mono ((lookup c.toNat residueFormula).getD []) + residueSum lib mono s := rfl

theorem residueSum_append (mono : Bool) (s t : List Char) :
    residueSum lib mono (s ++ t) = residueSum lib mono s + residueSum lib mono t := by
  unfold residueSum
  rw [List.map_append, sumR_append]

theorem residue_entry (hP : residuesPositive = true) (mono : Bool) (c : Char) (f : Comp)
    (hf : lookup c.toNat residueFormula = some f) :
    0 ≤ lib.compMass mono f ∧ (c ≠ 'X' → 0 < lib.compMass mono f) := by
  have hm := chem_lookup_mem _ _ _ hf
  unfold residuesPositive at hP
  have h1 := List.all_eq_true.mp hP mono (by cases mono <;> simp)
  have h2 := List.all_eq_true.mp h1 _ hm
  simp only [Bool.and_eq_true, Bool.or_eq_true, decide_eq_true_eq, beq_iff_eq] at h2
  refine ⟨Rat.num_nonneg.mp h2.1, fun hc => ?_⟩
  rcases h2.2 with h | h
  · exfalso
    apply hc
    have : c = Char.ofNat c.toNat := (Char.ofNat_toNat c).symm
    rw [this, h]
  · exact Rat.num_pos.mp h

theorem residueSum_nonneg (hP : residuesPositive = true) (mono : Bool) (s : List Char)
    (hk : s.all (fun c => (lookup c.toNat residueFormula).isSome) = true) : 0 ≤ residueSum lib mono s := by
  induction s with
  | nil => exact le_refl _
  | cons c s ih =>
    rw [List.all_cons, Bool.and_eq_true] at hk
    obtain ⟨f, hf⟩ := Option.isSome_iff_exists.mp hk.1
    have hp := (residue_entry hP mono c f hf).1
    rw [residueSum_cons, hf]
    have := ih hk.2
    simp only [Option.getD_some]
    linarith

theorem residueSum_pos (hP : residuesPositive = true) (mono : Bool) (s : List Char) (hs : s ≠ []) (hx : 'X' ∉ s)
    (hk : s.all (fun c => (lookup c.toNat residueFormula).isSome) = true) : 0 < residueSum lib mono s := by
  cases s with
  | nil => exact absurd rfl hs
  | cons c s =>
    rw [List.all_cons, Bool.and_eq_true] at hk
    obtain ⟨f, hf⟩ := Option.isSome_iff_exists.mp hk.1
    have hc : c ≠ 'X' := fun h => hx (by rw [h]; exact List.mem_cons_self)
    have hp := (residue_entry hP mono c f hf).2 hc
    rw [residueSum_cons, hf]
    have := residueSum_nonneg hP mono s hk.2
    simp only [Option.getD_some]
    linarith

/-- `mz(...)` of a plain ion query is `adjust_mz` of `mass(...)` of the same query -/
theorem mz_of_mass (env : Env) (a : Annotation) (t : Key) (z : Int) (mono : Bool) (iso : Int) (loss m : Rat)
    (h : mass env a (ionQuery t z mono iso loss) = .ok m) :
    mz env a (ionQuery t z mono iso loss) = .ok (if z = 0 then m else m / (z : Rat)) := by
  have h' : massWith CompCalc.compMass env a (ionQuery t z mono iso loss) = .ok m := h
  unfold mz mzWith
  change (massWith CompCalc.compMass env a (ionQuery t z mono iso loss) >>= fun m => pure (adjustMz m (some z) none)) = _
  rw [h']
  rfl

end Pept.Mass
