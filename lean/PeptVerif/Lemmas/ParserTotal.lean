import PeptVerif.Model.Serialize
/-!
Helper lemmas for C09: every error of the (repaired) parser model is of the ValueError family, and every phase
makes the progress the chain loop needs. No Mathlib.
-/
namespace Pept

/-- the result is `ok` or an error of the ValueError family -/
def VF {α} (r : Except Err α) : Prop := ∀ e, r = .error e → e.valueFamily = true

theorem VF_ok {α} (x : α) : VF (Except.ok x : Except Err α) := by intro e h; cases h
theorem VF_format {α} : VF (Except.error .format : Except Err α) := by intro e h; cases h; rfl
theorem VF_value {α} : VF (Except.error .value : Except Err α) := by intro e h; cases h; rfl

theorem parseModBody_vf (o c : Char) (s : List Char) : VF (parseModBody o c s) := by
  intro e h
  unfold parseModBody at h
  split at h
  · cases h; rfl
  · split at h
    · split at h
      · cases h; rfl
      · split at h
        · cases h; rfl
        · cases h
    · cases h

/-- closes the goals `fun_induction` leaves for a "no foreign error" statement -/
syntax "vf_close" : tactic
macro_rules
  | `(tactic| vf_close) => `(tactic|
      first
      | (intro e h; cases h; done)
      | (intro e h; cases h; rfl)
      | (intro e h; cases h; apply_assumption; assumption)
      | (intro e h; cases h; exact parseModBody_vf _ _ _ _ (by assumption))
      | assumption)

theorem parseMods_vf (o c : Char) (s : List Char) : VF (parseMods o c s) := by
  fun_induction parseMods o c s <;> vf_close

theorem addGlobals_vf (a : Annotation) (ms : List Mod) : VF (addGlobals true a ms) := by
  fun_induction addGlobals true a ms <;> first | vf_close | (intro e h; simp at h; cases h; rfl)

theorem parseStart_vf (a : Annotation) (s : List Char) : VF (parseStart true a s) := by
  fun_induction parseStart true a s
  all_goals first
    | vf_close
    | (intro e h; cases h; exact parseMods_vf _ _ _ _ (by assumption))
    | (intro e h; cases h; exact addGlobals_vf _ _ _ (by assumption))
    | (intro e h; simp at h; cases h; rfl)

theorem parseMiddle_vf (a : Annotation) (d : Option (Int × Bool)) (s : List Char) : VF (parseMiddle a d s) := by
  fun_induction parseMiddle a d s
  all_goals first
    | vf_close
    | (intro e h; cases h; exact parseMods_vf _ _ _ _ (by assumption))

theorem parseInteger_vf (s : List Char) : VF (parseInteger s) := by
  intro e h; unfold parseInteger at h; split at h
  · cases h
  · cases h; rfl

theorem parseEnd_vf (a : Annotation) (cn : Option Bool) (s : List Char) : VF (parseEnd a cn s) := by
  fun_induction parseEnd a cn s
  all_goals first
    | vf_close
    | (intro e h; cases h; exact parseMods_vf _ _ _ _ (by assumption))
    | (intro e h; cases h; exact parseInteger_vf _ _ (by assumption))

end Pept

namespace Pept

/-! ### progress -/

/-- where `_parse_sequence_start` stops: at the end of the input, or in front of a residue / an interval -/
def StartStop (r : List Char) : Prop := r = [] ∨ ∃ c t, r = c :: t ∧ (isAA c = true ∨ c = '(')

theorem parseStart_progress (fixed : Bool) (a : Annotation) (s : List Char) (a' : Annotation) (r : List Char) :
    parseStart fixed a s = .ok (a', r) → r.length ≤ s.length ∧ StartStop r := by
  fun_induction parseStart fixed a s generalizing a' r
  all_goals intro h
  all_goals try (cases h; done)
  · cases h; exact ⟨by simp, Or.inl rfl⟩
  · cases h; rename_i hc; exact ⟨by simp, Or.inr ⟨_, _, rfl, hc⟩⟩
  all_goals
    rename_i ih
    have := ih _ _ h
    simp only [List.length_cons] at *
    exact ⟨by omega, this.2⟩

theorem parseMiddle_length (a : Annotation) (d : Option (Int × Bool)) (s : List Char) (a' : Annotation)
    (r : List Char) : parseMiddle a d s = .ok (a', r) → r.length ≤ s.length := by
  fun_induction parseMiddle a d s generalizing a' r
  all_goals intro h
  all_goals try (cases h; done)
  all_goals first
    | (cases h; simp; done)
    | (cases h; have := parseMods_length _ _ _ _ _ (by assumption); simp only [List.length_cons]; omega)
    | (rename_i ih; have := ih _ _ h; simp only [List.length_cons] at *; omega)

/-- a residue or an interval opening at the cursor is consumed -/
theorem parseMiddle_progress (a : Annotation) (c : Char) (t : List Char) (a' : Annotation) (r : List Char)
    (hc : isAA c = true ∨ c = '(') (h : parseMiddle a none (c :: t) = .ok (a', r)) :
    r.length < (c :: t).length := by
  rw [parseMiddle.eq_def] at h
  simp only at h
  rcases hc with hc | hc
  · simp only [hc, ↓reduceIte] at h
    have := parseMiddle_length _ _ _ _ _ h
    simp only [List.length_cons]; omega
  · subst hc
    have h1 : isAA '(' = false := by decide
    simp only [h1] at h
    simp at h
    have := parseMiddle_length _ _ _ _ _ h
    simp only [List.length_cons]; omega

theorem parseEnd_length (a : Annotation) (cn : Option Bool) (s : List Char) (a' : Annotation) (cn' : Option Bool)
    (r : List Char) : parseEnd a cn s = .ok (a', cn', r) → r.length ≤ s.length := by
  fun_induction parseEnd a cn s generalizing a' cn' r
  all_goals intro h
  all_goals try (cases h; done)
  all_goals first
    | (cases h; simp; done)
    | (cases h; simp only [List.length_cons, List.length_tail]; omega)
    | (rename_i ih; have := ih _ _ _ h; simp only [List.length_cons] at *; omega)

end Pept

namespace Pept

/-! ### `hang` is produced only by the progress test of the chain loop -/

def NoHang {α} (r : Except Err α) : Prop := r ≠ .error .hang

theorem VF.noHang {α} {r : Except Err α} (h : VF r) : NoHang r := by
  intro h'; have := h _ h'; simp [Err.valueFamily] at this

theorem addGlobals_noHang (fixed : Bool) (a : Annotation) (ms : List Mod) : NoHang (addGlobals fixed a ms) := by
  fun_induction addGlobals fixed a ms <;> first
    | assumption
    | (intro h; cases h; done)
    | (intro h; split at h <;> cases h)

theorem parseStart_noHang (fixed : Bool) (a : Annotation) (s : List Char) : NoHang (parseStart fixed a s) := by
  fun_induction parseStart fixed a s <;> first
    | assumption
    | (intro h; cases h; done)
    | (intro h; cases h; exact (parseMods_vf _ _ _).noHang (by assumption))
    | (intro h; cases h; exact (parseModBody_vf _ _ _).noHang (by assumption))
    | (intro h; cases h; exact addGlobals_noHang _ _ _ (by assumption))
    | (intro h; split at h <;> cases h)

end Pept
