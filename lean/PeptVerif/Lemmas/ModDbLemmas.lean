import PeptVerif.Model.ModDbFacts
/-!
Table-independent lemmas about the resolver model (`Model/ModDb.lean`): look-ups in a vocabulary whose keys are
pairwise distinct, prefix stripping, and the branch taken by `parseModMass` / `parseModComp` for prefixed and bare
spellings.  Mathlib-free.
-/
namespace ModDb
open Formula KSort

/-! ### look-ups -/

theorem lookupLast_none {key : Entry → Str} {s : Str} :
    ∀ db : List Entry, (∀ e ∈ db, key e ≠ s) → lookupLast key s db = none
  | [], _ => rfl
  | x :: xs, h => by
    have ih := lookupLast_none xs (fun e he => h e (List.mem_cons_of_mem _ he))
    have hx : (key x == s) = false := by
      have := h x (List.mem_cons_self)
      simpa using this
    simp [lookupLast, ih, hx]

theorem lookupLast_unique {key : Entry → Str} :
    ∀ (db : List Entry) (e : Entry), e ∈ db → (∀ e' ∈ db, key e' = key e → e' = e) →
      lookupLast key (key e) db = some e
  | [], _, h, _ => by cases h
  | x :: xs, e, hmem, huniq => by
    by_cases hin : e ∈ xs
    · have ih := lookupLast_unique xs e hin (fun e' he' => huniq e' (List.mem_cons_of_mem _ he'))
      simp [lookupLast, ih]
    · have hxe : x = e := by
        rcases List.mem_cons.mp hmem with h | h
        · exact h.symm
        · exact absurd h hin
      have hnone : lookupLast key (key e) xs = none := by
        apply lookupLast_none
        intro e' he' hk
        have := huniq e' (List.mem_cons_of_mem _ he') hk
        exact hin (this ▸ he')
      subst hxe
      simp [lookupLast, hnone]

theorem inj_of_nodup_map {α β : Type} (f : α → β) :
    ∀ l : List α, (l.map f).Nodup → ∀ x ∈ l, ∀ y ∈ l, f x = f y → x = y
  | [], _, _, hx, _, _, _ => by cases hx
  | a :: t, hnd, x, hx, y, hy, hxy => by
    simp only [List.map_cons, List.nodup_cons] at hnd
    have ih := inj_of_nodup_map f t hnd.2
    rcases List.mem_cons.mp hx with rfl | hx'
    · rcases List.mem_cons.mp hy with rfl | hy'
      · rfl
      · exact absurd (hxy ▸ List.mem_map_of_mem (f := f) hy') hnd.1
    · rcases List.mem_cons.mp hy with rfl | hy'
      · exact absurd (hxy ▸ List.mem_map_of_mem (f := f) hx') hnd.1
      · exact ih x hx' y hy' hxy

/-- what `keysDistinct db = true` gives -/
structure KeysOK (db : List Entry) : Prop where
  idInj : ∀ x ∈ db, ∀ y ∈ db, x.id = y.id → x = y
  nameInj : ∀ x ∈ db, ∀ y ∈ db, x.name = y.name → x = y
  idNotName : ∀ x ∈ db, ∀ y ∈ db, x.id ≠ y.name

theorem keysOK_of_nodup {db : List Entry} (h : (keysOf db).Nodup) : KeysOK db := by
  unfold keysOf at h
  have h' := List.nodup_append.mp h
  refine ⟨inj_of_nodup_map _ db h'.1, inj_of_nodup_map _ db h'.2.1, ?_⟩
  intro x hx y hy hxy
  exact h'.2.2 x.id (List.mem_map_of_mem (f := fun e => e.id) hx) y.name (List.mem_map_of_mem (f := fun e => e.name) hy) hxy

theorem keysOK_of_check {db : List Entry} (h : keysDistinct db = true) : KeysOK db :=
  keysOK_of_nodup (nodup_of_msort _ h)

theorem findEntry_id {db : List Entry} (hk : KeysOK db) {e : Entry} (he : e ∈ db) : findEntry db e.id = some e := by
  have : byId db e.id = some e := lookupLast_unique db e he (fun e' he' h => hk.idInj e' he' e he h)
  simp [findEntry, this]

theorem findEntry_name {db : List Entry} (hk : KeysOK db) {e : Entry} (he : e ∈ db) : findEntry db e.name = some e := by
  have h1 : byId db e.name = none := lookupLast_none db (fun e' he' => hk.idNotName e' he' e he)
  have h2 : byName db e.name = some e := lookupLast_unique db e he (fun e' he' h => hk.nameInj e' he' e he h)
  simp [findEntry, h1, h2]

theorem findEntry_none {db : List Entry} {s : Str} (h1 : ∀ e ∈ db, e.id ≠ s) (h2 : ∀ e ∈ db, e.name ≠ s) :
    findEntry db s = none := by
  simp [findEntry, byId, byName, lookupLast_none db h1, lookupLast_none db h2]


/-! ### `_get_mass` / `_get_comp` on a key that is not a signed number -/

/-- first character is neither `+` nor `-` -/
def notSigned (k : Str) : Prop := ∀ c r, k = c :: r → c ≠ 43 ∧ c ≠ 45

theorem getMass_of_find {T : Tables} {db : List Entry} {k : Str} {e : Entry} (mono : Bool)
    (hs : notSigned k) (hf : findEntry db k = some e) : getMass T db k mono = entryMass T e mono := by
  unfold getMass
  cases k with
  | nil => simp [hf]
  | cons c r =>
    have := hs c r rfl
    simp [this.1, this.2, hf]

theorem getMass_unknown {T : Tables} {db : List Entry} {k : Str} (mono : Bool)
    (hs : notSigned k) (hf : findEntry db k = none) : getMass T db k mono = .error .unknownMod := by
  unfold getMass
  cases k with
  | nil => simp [hf]
  | cons c r =>
    have := hs c r rfl
    simp [this.1, this.2, hf]

/-- the composition string of an entry, as `_get_comp` reports it -/
def entryComp (e : Entry) : Except Err Str :=
  match e.comp with
  | none => .error .invalidComp
  | some c => .ok c

theorem getComp_of_find {db : List Entry} {k : Str} {e : Entry}
    (hs : notSigned k) (hf : findEntry db k = some e) : getComp db k = entryComp e := by
  unfold getComp entryComp
  cases k with
  | nil => simp [hf]; cases e.comp <;> rfl
  | cons c r =>
    have := hs c r rfl
    simp [this.1, this.2, hf]; cases e.comp <;> rfl


/-! ### characters, lower-casing, prefixes -/

theorem toLowerC_fix {c d : Nat} (h : toLowerC c = d) (hd : isLower d = false) : c = d := by
  unfold toLowerC at h
  split at h
  · rename_i hu
    simp [isUpper] at hu
    simp [isLower] at hd
    omega
  · exact h

theorem toLowerC_self {d : Nat} (hd : isUpper d = false) : toLowerC d = d := by
  simp [toLowerC, hd]

theorem lower_append (a b : Str) : lower (a ++ b) = lower a ++ lower b := by simp [lower]

theorem lower_length (a : Str) : (lower a).length = a.length := by simp [lower]

/-- a non-letter character occurs in `lower s` iff it occurs in `s` -/
theorem mem_lower_iff {x : Nat} (hl : isLower x = false) (hu : isUpper x = false) {s : Str} : x ∈ lower s ↔ x ∈ s := by
  simp only [lower, List.mem_map]
  constructor
  · rintro ⟨c, hc, h⟩
    have := toLowerC_fix h hl
    exact this ▸ hc
  · intro h
    exact ⟨x, h, toLowerC_self hu⟩

theorem spanP_ne (x : Nat) : ∀ (q r : Str), x ∉ q → spanP (· != x) (q ++ x :: r) = (q, x :: r)
  | [], r, _ => by simp [spanP]
  | c :: q, r, h => by
    have hc : c ≠ x := fun e => h (e ▸ List.mem_cons_self)
    have hq : x ∉ q := fun e => h (List.mem_cons_of_mem _ e)
    simp [spanP, hc, spanP_ne x q r hq]

theorem spanP_all (x : Nat) : ∀ (q : Str), x ∉ q → spanP (· != x) q = (q, [])
  | [], _ => by simp [spanP]
  | c :: q, h => by
    have hc : c ≠ x := fun e => h (e ▸ List.mem_cons_self)
    have hq : x ∉ q := fun e => h (List.mem_cons_of_mem _ e)
    simp [spanP, hc, spanP_all x q hq]

theorem afterColon_append {q k : Str} (h : 58 ∉ q) : afterColon (q ++ 58 :: k) = some k := by
  simp [afterColon, spanP_ne 58 q k h]

theorem beforeHash_noHash {m : Str} (h : 35 ∉ m) : beforeHash m = m := by
  simp [beforeHash, spanP_all 35 m h]

/-- a documented prefix: ends with its only colon -/
def goodPrefix (p : Str) : Bool :=
  match p.reverse with
  | 58 :: q => !(q.contains 58) && !(p.contains 35) && !(p.contains 124)
  | _ => false

theorem goodPrefix_decomp {p : Str} (h : goodPrefix p = true) : ∃ q, p = q ++ [58] ∧ 58 ∉ q ∧ 35 ∉ p ∧ 124 ∉ p := by
  unfold goodPrefix at h
  split at h
  · rename_i q hq
    simp only [Bool.and_eq_true, Bool.not_eq_true'] at h
    obtain ⟨⟨h2, h3⟩, h4⟩ := h
    have hp : p = q.reverse ++ [58] := by
      have : p = (58 :: q).reverse := by rw [← hq, List.reverse_reverse]
      simpa using this
    refine ⟨q.reverse, hp, ?_, ?_, ?_⟩
    · simpa using h2
    · simpa using h3
    · simpa using h4
  · cases h

/-- any letter-case spelling `p'` of a documented prefix `p` -/
theorem spelled_decomp {p p' : Str} (hg : goodPrefix p = true) (hl : lower p' = p) :
    ∃ q', p' = q' ++ [58] ∧ 58 ∉ q' ∧ 35 ∉ p' ∧ 124 ∉ p' := by
  obtain ⟨q, hq, h58, h35, h124⟩ := goodPrefix_decomp hg
  have h35' : 35 ∉ p' := by
    intro h; exact h35 (hl ▸ (mem_lower_iff (by decide) (by decide)).mpr h)
  have h124' : 124 ∉ p' := by
    intro h; exact h124 (hl ▸ (mem_lower_iff (by decide) (by decide)).mpr h)
  rw [hq] at hl
  unfold lower at hl
  obtain ⟨l1, l2, hp', hl1, hl2⟩ := List.map_eq_append_iff.mp hl
  cases l2 with
  | nil => simp at hl2
  | cons c t =>
    cases t with
    | cons _ _ => simp at hl2
    | nil =>
      simp only [List.map_cons, List.map_nil, List.cons.injEq, and_true] at hl2
      have : c = 58 := toLowerC_fix hl2 (by decide)
      subst this
      refine ⟨l1, hp', ?_, h35', h124'⟩
      intro h
      have : (58 : Nat) ∈ List.map toLowerC l1 := List.mem_map.mpr ⟨58, h, by decide⟩
      exact h58 (hl1 ▸ this)

theorem startsWith_append (p x : Str) : startsWith (p ++ x) p = true := by
  simp [startsWith]

theorem hasPrefix_spelled {ps : List Str} {p p' : Str} (hp : p ∈ ps) (hl : lower p' = p) (k : Str) :
    hasPrefix ps (p' ++ k) = true := by
  simp only [hasPrefix, List.any_eq_true]
  exact ⟨p, hp, by rw [lower_append, hl]; exact startsWith_append p _⟩

/-- obligation 1 of C10 (table independent): stripping any letter-case spelling of a documented prefix returns the key,
whatever the key contains (colons, brackets, …) -/
theorem stripPrefix_spelled {ps : List Str} {p p' : Str} (hp : p ∈ ps) (hg : goodPrefix p = true) (hl : lower p' = p)
    (k : Str) : stripPrefix ps (p' ++ k) = k := by
  obtain ⟨q', hq', h58, _, _⟩ := spelled_decomp hg hl
  simp only [stripPrefix, hasPrefix_spelled hp hl k, if_true]
  subst hq'
  simp [List.append_assoc, afterColon_append h58]

end ModDb
