import PeptVerif.Model.ModDbFacts
/-!
Table-independent lemmas about the resolver model (`Model/ModDb.lean`): look-ups in a vocabulary whose keys are
pairwise distinct, prefix stripping, and the branch taken by `parseModMass` / `parseModComp` for prefixed and bare
spellings.  Mathlib-free.
-/
namespace ModDb
open Formula KSort

/-! ### look-ups -/

theorem lookupLast_none {key : Entry → Str} {s : Str} :
    ∀ db : List Entry, (∀ e ∈ db, key e ≠ s) → lookupLast key s db = none
  | [], _ => rfl
  | x :: xs, h => by
    have ih := lookupLast_none xs (fun e he => h e (List.mem_cons_of_mem _ he))
    have hx : (key x == s) = false := by
      have := h x (List.mem_cons_self)
      simpa using this
    simp [lookupLast, ih, hx]

theorem lookupLast_unique {key : Entry → Str} :
    ∀ (db : List Entry) (e : Entry), e ∈ db → (∀ e' ∈ db, key e' = key e → e' = e) →
      lookupLast key (key e) db = some e
  | [], _, h, _ => by cases h
  | x :: xs, e, hmem, huniq => by
    by_cases hin : e ∈ xs
    · have ih := lookupLast_unique xs e hin (fun e' he' => huniq e' (List.mem_cons_of_mem _ he'))
      simp [lookupLast, ih]
    · have hxe : x = e := by
        rcases List.mem_cons.mp hmem with h | h
        · exact h.symm
        · exact absurd h hin
      have hnone : lookupLast key (key e) xs = none := by
        apply lookupLast_none
        intro e' he' hk
        have := huniq e' (List.mem_cons_of_mem _ he') hk
        exact hin (this ▸ he')
      subst hxe
      simp [lookupLast, hnone]

theorem inj_of_nodup_map {α β : Type} (f : α → β) :
    ∀ l : List α, (l.map f).Nodup → ∀ x ∈ l, ∀ y ∈ l, f x = f y → x = y
  | [], _, _, hx, _, _, _ => by cases hx
  | a :: t, hnd, x, hx, y, hy, hxy => by
    simp only [List.map_cons, List.nodup_cons] at hnd
    have ih := inj_of_nodup_map f t hnd.2
    rcases List.mem_cons.mp hx with rfl | hx'
    · rcases List.mem_cons.mp hy with rfl | hy'
      · rfl
      · exact absurd (hxy ▸ List.mem_map_of_mem (f := f) hy') hnd.1
    · rcases List.mem_cons.mp hy with rfl | hy'
      · exact absurd (hxy ▸ List.mem_map_of_mem (f := f) hx') hnd.1
      · exact ih x hx' y hy' hxy

/-- what `keysDistinct db = true` gives -/
structure KeysOK (db : List Entry) : Prop where
  idInj : ∀ x ∈ db, ∀ y ∈ db, x.id = y.id → x = y
  nameInj : ∀ x ∈ db, ∀ y ∈ db, x.name = y.name → x = y
  idNotName : ∀ x ∈ db, ∀ y ∈ db, x.id ≠ y.name

theorem keysOK_of_nodup {db : List Entry} (h : (keysOf db).Nodup) : KeysOK db := by
  unfold keysOf at h
  have h' := List.nodup_append.mp h
  refine ⟨inj_of_nodup_map _ db h'.1, inj_of_nodup_map _ db h'.2.1, ?_⟩
  intro x hx y hy hxy
  exact h'.2.2 x.id (List.mem_map_of_mem (f := fun e => e.id) hx) y.name (List.mem_map_of_mem (f := fun e => e.name) hy) hxy

theorem keysOK_of_check {db : List Entry} (h : keysDistinct db = true) : KeysOK db :=
  keysOK_of_nodup (nodup_of_msort _ h)

theorem findEntry_id {db : List Entry} (hk : KeysOK db) {e : Entry} (he : e ∈ db) : findEntry db e.id = some e := by
  have : byId db e.id = some e := lookupLast_unique db e he (fun e' he' h => hk.idInj e' he' e he h)
  simp [findEntry, this]

theorem findEntry_name {db : List Entry} (hk : KeysOK db) {e : Entry} (he : e ∈ db) : findEntry db e.name = some e := by
  have h1 : byId db e.name = none := lookupLast_none db (fun e' he' => hk.idNotName e' he' e he)
  have h2 : byName db e.name = some e := lookupLast_unique db e he (fun e' he' h => hk.nameInj e' he' e he h)
  simp [findEntry, h1, h2]

theorem findEntry_none {db : List Entry} {s : Str} (h1 : ∀ e ∈ db, e.id ≠ s) (h2 : ∀ e ∈ db, e.name ≠ s) :
    findEntry db s = none := by
  simp [findEntry, byId, byName, lookupLast_none db h1, lookupLast_none db h2]


/-! ### `_get_mass` / `_get_comp` on a key that is not a signed number -/

/-- first character is neither `+` nor `-` -/
def notSigned (k : Str) : Prop := ∀ c r, k = c :: r → c ≠ 43 ∧ c ≠ 45

theorem getMass_of_find {T : Tables} {db : List Entry} {k : Str} {e : Entry} (mono : Bool)
    (hs : notSigned k) (hf : findEntry db k = some e) : getMass T db k mono = entryMass T e mono := by
  unfold getMass
  cases k with
  | nil => simp [hf]
  | cons c r =>
    have := hs c r rfl
    simp [this.1, this.2, hf]

theorem getMass_unknown {T : Tables} {db : List Entry} {k : Str} (mono : Bool)
    (hs : notSigned k) (hf : findEntry db k = none) : getMass T db k mono = .error .unknownMod := by
  unfold getMass
  cases k with
  | nil => simp [hf]
  | cons c r =>
    have := hs c r rfl
    simp [this.1, this.2, hf]

/-- the composition string of an entry, as `_get_comp` reports it -/
def entryComp (e : Entry) : Except Err Str :=
  match e.comp with
  | none => .error .invalidComp
  | some c => .ok c

theorem getComp_of_find {db : List Entry} {k : Str} {e : Entry}
    (hs : notSigned k) (hf : findEntry db k = some e) : getComp db k = entryComp e := by
  unfold getComp entryComp
  cases k with
  | nil => simp [hf]; cases e.comp <;> rfl
  | cons c r =>
    have := hs c r rfl
    simp [this.1, this.2, hf]; cases e.comp <;> rfl


/-! ### characters, lower-casing, prefixes -/

theorem toLowerC_fix {c d : Nat} (h : toLowerC c = d) (hd : isLower d = false) : c = d := by
  unfold toLowerC at h
  split at h
  · rename_i hu
    simp [isUpper] at hu
    simp [isLower] at hd
    omega
  · exact h

theorem toLowerC_self {d : Nat} (hd : isUpper d = false) : toLowerC d = d := by
  simp [toLowerC, hd]

theorem lower_append (a b : Str) : lower (a ++ b) = lower a ++ lower b := by simp [lower]

theorem lower_length (a : Str) : (lower a).length = a.length := by simp [lower]

/-- a non-letter character occurs in `lower s` iff it occurs in `s` -/
theorem mem_lower_iff {x : Nat} (hl : isLower x = false) (hu : isUpper x = false) {s : Str} : x ∈ lower s ↔ x ∈ s := by
  simp only [lower, List.mem_map]
  constructor
  · rintro ⟨c, hc, h⟩
    have := toLowerC_fix h hl
    exact this ▸ hc
  · intro h
    exact ⟨x, h, toLowerC_self hu⟩

theorem spanP_ne (x : Nat) : ∀ (q r : Str), x ∉ q → spanP (· != x) (q ++ x :: r) = (q, x :: r)
  | [], r, _ => by simp [spanP]
  | c :: q, r, h => by
    have hc : c ≠ x := fun e => h (e ▸ List.mem_cons_self)
    have hq : x ∉ q := fun e => h (List.mem_cons_of_mem _ e)
    simp [spanP, hc, spanP_ne x q r hq]

theorem spanP_all (x : Nat) : ∀ (q : Str), x ∉ q → spanP (· != x) q = (q, [])
  | [], _ => by simp [spanP]
  | c :: q, h => by
    have hc : c ≠ x := fun e => h (e ▸ List.mem_cons_self)
    have hq : x ∉ q := fun e => h (List.mem_cons_of_mem _ e)
    simp [spanP, hc, spanP_all x q hq]

theorem afterColon_append {q k : Str} (h : 58 ∉ q) : afterColon (q ++ 58 :: k) = some k := by
  simp [afterColon, spanP_ne 58 q k h]

theorem beforeHash_noHash {m : Str} (h : 35 ∉ m) : beforeHash m = m := by
  simp [beforeHash, spanP_all 35 m h]

/-- a documented prefix: ends with its only colon -/
def goodPrefix (p : Str) : Bool :=
  match p.reverse with
  | 58 :: q => !(q.contains 58) && !(p.contains 35) && !(p.contains 124)
  | _ => false

theorem goodPrefix_decomp {p : Str} (h : goodPrefix p = true) : ∃ q, p = q ++ [58] ∧ 58 ∉ q ∧ 35 ∉ p ∧ 124 ∉ p := by
  unfold goodPrefix at h
  split at h
  · rename_i q hq
    simp only [Bool.and_eq_true, Bool.not_eq_true'] at h
    obtain ⟨⟨h2, h3⟩, h4⟩ := h
    have hp : p = q.reverse ++ [58] := by
      have : p = (58 :: q).reverse := by rw [← hq, List.reverse_reverse]
      simpa using this
    refine ⟨q.reverse, hp, ?_, ?_, ?_⟩
    · simpa using h2
    · simpa using h3
    · simpa using h4
  · cases h

/-- any letter-case spelling `p'` of a documented prefix `p` -/
theorem spelled_decomp {p p' : Str} (hg : goodPrefix p = true) (hl : lower p' = p) :
    ∃ q', p' = q' ++ [58] ∧ 58 ∉ q' ∧ 35 ∉ p' ∧ 124 ∉ p' := by
  obtain ⟨q, hq, h58, h35, h124⟩ := goodPrefix_decomp hg
  have h35' : 35 ∉ p' := by
    intro h; exact h35 (hl ▸ (mem_lower_iff (by decide) (by decide)).mpr h)
  have h124' : 124 ∉ p' := by
    intro h; exact h124 (hl ▸ (mem_lower_iff (by decide) (by decide)).mpr h)
  rw [hq] at hl
  unfold lower at hl
  obtain ⟨l1, l2, hp', hl1, hl2⟩ := List.map_eq_append_iff.mp hl
  cases l2 with
  | nil => simp at hl2
  | cons c t =>
    cases t with
    | cons _ _ => simp at hl2
    | nil =>
      simp only [List.map_cons, List.map_nil, List.cons.injEq, and_true] at hl2
      have : c = 58 := toLowerC_fix hl2 (by decide)
      subst this
      refine ⟨l1, hp', ?_, h35', h124'⟩
      intro h
      have : (58 : Nat) ∈ List.map toLowerC l1 := List.mem_map.mpr ⟨58, h, by decide⟩
      exact h58 (hl1 ▸ this)

theorem startsWith_append (p x : Str) : startsWith (p ++ x) p = true := by
  simp [startsWith]

theorem hasPrefix_spelled {ps : List Str} {p p' : Str} (hp : p ∈ ps) (hl : lower p' = p) (k : Str) :
    hasPrefix ps (p' ++ k) = true := by
  simp only [hasPrefix, List.any_eq_true]
  exact ⟨p, hp, by rw [lower_append, hl]; exact startsWith_append p _⟩

/-- obligation 1 of C10 (table independent): stripping any letter-case spelling of a documented prefix returns the key,
whatever the key contains (colons, brackets, …) -/
theorem stripPrefix_spelled {ps : List Str} {p p' : Str} (hp : p ∈ ps) (hg : goodPrefix p = true) (hl : lower p' = p)
    (k : Str) : stripPrefix ps (p' ++ k) = k := by
  obtain ⟨q', hq', h58, _, _⟩ := spelled_decomp hg hl
  simp only [stripPrefix, hasPrefix_spelled hp hl k, if_true]
  subst hq'
  simp [List.append_assoc, afterColon_append h58]


/-! ### a text that starts with a letter and contains a colon is not a number -/

theorem stripL_nonws {c : Nat} (r : Str) (h : isWs c = false) : stripL (c :: r) = c :: r := by
  simp [stripL, h]

theorem stripL_append_nonws {c : Nat} (h : isWs c = false) : ∀ (a b : Str), stripL (a ++ c :: b) = stripL a ++ c :: b
  | [], b => by simp [stripL, h]
  | x :: a, b => by
    by_cases hx : isWs x = true
    · simp [stripL, hx, stripL_append_nonws h a b]
    · simp [stripL, hx]

theorem mem_stripL {x : Nat} (hx : isWs x = false) : ∀ l : Str, x ∈ l → x ∈ stripL l
  | [], h => h
  | c :: l, h => by
    by_cases hc : isWs c = true
    · simp only [stripL, hc, if_true]
      rcases List.mem_cons.mp h with rfl | h'
      · rw [hx] at hc; cases hc
      · exact mem_stripL hx l h'
    · simp only [stripL, hc]
      exact h

theorem strip_alpha {c : Nat} (r : Str) (h : isWs c = false) :
    ∃ r', strip (c :: r) = c :: r' ∧ ∀ x, isWs x = false → x ∈ r → x ∈ r' := by
  refine ⟨(stripL r.reverse).reverse, ?_, ?_⟩
  · unfold strip
    rw [stripL_nonws r h, List.reverse_cons, stripL_append_nonws h]
    simp
  · intro x hx hm
    simp only [List.mem_reverse]
    exact mem_stripL hx _ (List.mem_reverse.mpr hm)

theorem isAlpha_facts {c : Nat} (h : isAlpha c = true) :
    isWs c = false ∧ isDigit c = false ∧ c ≠ 43 ∧ c ≠ 45 ∧ c ≠ 46 ∧ c ≠ 95 := by
  simp only [isAlpha, isUpper, isLower, Bool.or_eq_true, Bool.and_eq_true, decide_eq_true_eq] at h
  refine ⟨?_, ?_, ?_, ?_, ?_, ?_⟩
  · simp only [isWs, Bool.or_eq_false_iff, Bool.and_eq_false_iff, beq_eq_false_iff_ne, decide_eq_false_iff_not]
    omega
  · simp only [isDigit, Bool.and_eq_false_iff, decide_eq_false_iff_not]
    omega
  all_goals omega

theorem signOf_alpha {c : Nat} (r : Str) (h : isAlpha c = true) : signOf (c :: r) = (1, c :: r) := by
  have := isAlpha_facts h
  unfold signOf
  split
  · rename_i heq; simp only [List.cons.injEq] at heq; omega
  · rename_i heq; simp only [List.cons.injEq] at heq; omega
  · rfl

theorem digitRun_alpha {c : Nat} (r : Str) (h : isAlpha c = true) : digitRun (c :: r) false [] = ([], c :: r) := by
  have := isAlpha_facts h
  simp [digitRun, this.2.1]

/-- `convert_type` leaves a text alone that starts with a letter and contains a colon -/
theorem convertType_alpha_colon {c : Nat} {r : Str} (hc : isAlpha c = true) (h58 : 58 ∈ r) :
    convertType (c :: r) = .str := by
  have hf := isAlpha_facts hc
  obtain ⟨r', hs, hmem⟩ := strip_alpha r hf.1
  have h58' : 58 ∈ r' := hmem 58 (by decide) h58
  have hint : parseInt (c :: r) = none := by
    simp [parseInt, hs, signOf_alpha r' hc, digitRun_alpha r' hc]
  have hlow : (58 : Nat) ∈ lower (c :: r') := (mem_lower_iff (by decide) (by decide)).mpr (List.mem_cons_of_mem _ h58')
  have hne : ∀ w : Str, 58 ∉ w → (lower (c :: r') == w) = false := by
    intro w hw
    apply beq_eq_false_iff_ne.mpr
    intro e; exact hw (e ▸ hlow)
  have hfl : parseFloat (c :: r) = .bad := by
    unfold parseFloat
    simp only [hs, signOf_alpha r' hc, hne _ (by decide : (58:Nat) ∉ str% "inf"), hne _ (by decide : (58:Nat) ∉ str% "infinity"),
      hne _ (by decide : (58:Nat) ∉ str% "nan"), Bool.or_false, digitRun_alpha r' hc]
    split
    · rename_i hcond
      exact absurd hcond (by decide)
    · split
      · rename_i h; simp only [List.cons.injEq] at h; omega
      · simp
  simp [convertType, hint, hfl]


/-! ### which branch of `_parse_mod_mass` / `_parse_mod_comp` a spelling takes -/

theorem startsWith_head_ne {c d : Nat} (r q : Str) (h : c ≠ d) : startsWith (c :: r) (d :: q) = false := by
  simp [startsWith, List.isPrefixOf, Ne.symm h]

/-- all prefixes of the family start with a character different from `c` -/
def headsAvoid (ps : List Str) (c : Nat) : Bool := ps.all (fun p => match p with | d :: _ => d != c | [] => false)

theorem hasPrefix_head_false {ps : List Str} {c : Nat} {m r : Str} (hps : headsAvoid ps c = true)
    (hm : lower m = c :: r) : hasPrefix ps m = false := by
  simp only [hasPrefix, hm]
  apply List.any_eq_false.mpr
  intro p hp
  simp only [headsAvoid, List.all_eq_true] at hps
  have := hps p hp
  cases p with
  | nil => simp at this
  | cons d q =>
    simp only [bne_iff_ne, ne_eq] at this
    simp [startsWith_head_ne r q (Ne.symm this)]

theorem startsWith_lower_head_false {c d : Nat} {m r q : Str} (hm : lower m = c :: r) (h : c ≠ d) :
    startsWith (lower m) (d :: q) = false := by
  rw [hm]; exact startsWith_head_ne r q h

theorem contains_false {x : Nat} {m : Str} (h : x ∉ m) : m.contains x = false := by
  simpa using h

/-- the head of `lower (p' ++ k)` when `lower p' = d :: q` -/
theorem lower_head {p' k q : Str} {d : Nat} (hl : lower p' = d :: q) : lower (p' ++ k) = d :: (q ++ lower k) := by
  rw [lower_append, hl]; rfl

/-- a spelled prefix starts with a letter and the whole spelling contains a colon: not a number -/
theorem convertType_spelled {p p' : Str} (hg : goodPrefix p = true) (hl : lower p' = p) {d : Nat} {q : Str}
    (hp : p = d :: q) (hd : isLower d = true) (k : Str) : convertType (p' ++ k) = .str := by
  obtain ⟨q', hq', _, _, _⟩ := spelled_decomp hg hl
  cases p' with
  | nil => simp at hq'
  | cons c r =>
    have hc : toLowerC c = d := by
      rw [hp] at hl; simp [lower] at hl; exact hl.1
    have halpha : isAlpha c = true := by
      unfold toLowerC at hc
      simp only [isAlpha, Bool.or_eq_true]
      split at hc
      · left; assumption
      · right; rw [hc]; exact hd
    have h58 : (58 : Nat) ∈ r ++ k := by
      have : (58 : Nat) ∈ c :: r := by rw [hq']; simp
      rcases List.mem_cons.mp this with h | h
      · subst h; simp [isAlpha, isUpper, isLower] at halpha
      · exact List.mem_append_left _ h
    exact convertType_alpha_colon halpha h58


theorem pUnimod_good : ∀ p ∈ pUnimod, goodPrefix p = true := by decide
theorem pPsi_good : ∀ p ∈ pPsi, goodPrefix p = true := by decide
theorem pXlmod_good : ∀ p ∈ pXlmod, goodPrefix p = true := by decide

/-- the string is neither a PSI-MOD accession nor a PSI-MOD name -/
def notPsiKey (T : Tables) (s : Str) : Prop := byId T.psimod s = none ∧ byName T.psimod s = none

/-- `U:` / `UNIMOD:` spellings (any letter case) reach `parse_unimod_mass` with the key -/
theorem parseModMass_unimod_prefixed {T : Tables} {p p' k : Str} (mono : Bool) (hp : p ∈ pUnimod) (hl : lower p' = p)
    (hk : 35 ∉ k) (hpsi : notPsiKey T (p' ++ k)) :
    parseModMass T (p' ++ k) mono = (getMass T T.unimod k mono).map some := by
  have hg := pUnimod_good p hp
  obtain ⟨_, _, _, h35, _⟩ := spelled_decomp hg hl
  have hm35 : (p' ++ k).contains 35 = false := contains_false (by simp [h35, hk])
  have hstrip := stripPrefix_spelled hp hg hl k
  have hpre := hasPrefix_spelled hp hl k
  obtain ⟨q, hq⟩ : ∃ q, p = 117 :: q := by
    simp only [pUnimod, List.mem_cons, List.not_mem_nil, or_false] at hp
    rcases hp with rfl | rfl <;> exact ⟨_, rfl⟩
  have hconv := convertType_spelled hg hl hq (by decide) k
  have hlow := lower_head (k := k) (hq ▸ hl)
  have hPsiPre : hasPrefix pPsi (p' ++ k) = false := hasPrefix_head_false (by decide) hlow
  unfold parseModMass
  simp only [hm35, Bool.false_and, hconv, if_false, Bool.false_eq_true]
  rw [startsWith_lower_head_false hlow (by decide), hasPrefix_head_false (c := 117) (by decide) hlow,
    hasPrefix_head_false (c := 117) (by decide) hlow, hasPrefix_head_false (c := 117) (by decide) hlow,
    startsWith_lower_head_false hlow (by decide)]
  simp only [isDbStr, hPsiPre, hpsi.1, hpsi.2, hpre, hstrip, Option.isSome_none, Bool.or_false, Bool.false_eq_true, if_false,
    Bool.true_or, if_true]


/-- `M:` / `MOD:` / `PSI-MOD:` spellings reach `parse_psi_mass` with the key (no condition on the tables) -/
theorem parseModMass_psi_prefixed {T : Tables} {p p' k : Str} (mono : Bool) (hp : p ∈ pPsi) (hl : lower p' = p)
    (hk : 35 ∉ k) : parseModMass T (p' ++ k) mono = (getMass T T.psimod k mono).map some := by
  have hg := pPsi_good p hp
  obtain ⟨_, _, _, h35, _⟩ := spelled_decomp hg hl
  have hm35 : (p' ++ k).contains 35 = false := contains_false (by simp [h35, hk])
  have hstrip := stripPrefix_spelled hp hg hl k
  have hpre := hasPrefix_spelled hp hl k
  obtain ⟨d, q, hq, hd⟩ : ∃ d q, p = d :: q ∧ (d = 109 ∨ d = 112) := by
    simp only [pPsi, List.mem_cons, List.not_mem_nil, or_false] at hp
    rcases hp with rfl | rfl | rfl
    · exact ⟨_, _, rfl, Or.inl rfl⟩
    · exact ⟨_, _, rfl, Or.inl rfl⟩
    · exact ⟨_, _, rfl, Or.inr rfl⟩
  have hlow := lower_head (k := k) (hq ▸ hl)
  unfold parseModMass
  rcases hd with rfl | rfl
  · have hconv := convertType_spelled hg hl hq (by decide) k
    simp only [hm35, Bool.false_and, hconv, if_false, Bool.false_eq_true]
    rw [startsWith_lower_head_false hlow (by decide), hasPrefix_head_false (c := 109) (by decide) hlow,
      hasPrefix_head_false (c := 109) (by decide) hlow, hasPrefix_head_false (c := 109) (by decide) hlow,
      startsWith_lower_head_false hlow (by decide)]
    simp only [isDbStr, hpre, hstrip, Bool.true_or, Bool.false_eq_true, if_false, if_true]
  · have hconv := convertType_spelled hg hl hq (by decide) k
    simp only [hm35, Bool.false_and, hconv, if_false, Bool.false_eq_true]
    rw [startsWith_lower_head_false hlow (by decide), hasPrefix_head_false (c := 112) (by decide) hlow,
      hasPrefix_head_false (c := 112) (by decide) hlow, hasPrefix_head_false (c := 112) (by decide) hlow,
      startsWith_lower_head_false hlow (by decide)]
    simp only [isDbStr, hpre, hstrip, Bool.true_or, Bool.false_eq_true, if_false, if_true]

/-- `X:` / `XLMOD:` spellings reach `parse_xlmod_mass` with the key -/
theorem parseModMass_xlmod_prefixed {T : Tables} {p p' k : Str} (mono : Bool) (hp : p ∈ pXlmod) (hl : lower p' = p)
    (hk : 35 ∉ k) : parseModMass T (p' ++ k) mono = (getMass T T.xlmod k mono).map some := by
  have hg := pXlmod_good p hp
  obtain ⟨_, _, _, h35, _⟩ := spelled_decomp hg hl
  have hm35 : (p' ++ k).contains 35 = false := contains_false (by simp [h35, hk])
  have hstrip := stripPrefix_spelled hp hg hl k
  have hpre := hasPrefix_spelled hp hl k
  obtain ⟨q, hq⟩ : ∃ q, p = 120 :: q := by
    simp only [pXlmod, List.mem_cons, List.not_mem_nil, or_false] at hp
    rcases hp with rfl | rfl <;> exact ⟨_, rfl⟩
  have hconv := convertType_spelled hg hl hq (by decide) k
  have hlow := lower_head (k := k) (hq ▸ hl)
  unfold parseModMass
  simp only [hm35, Bool.false_and, hconv, if_false, Bool.false_eq_true]
  rw [startsWith_lower_head_false hlow (by decide), hasPrefix_head_false (c := 120) (by decide) hlow]
  simp only [hpre, hstrip, Bool.false_eq_true, if_false, if_true]

/-! compositions -/

/-- `parse_chem_formula(parse_*_comp(key))` -/
def compOfKey (db : List Entry) (k : Str) : Except Err (Option Comp) :=
  match getComp db k with
  | .error e => .error e
  | .ok f => (parseChem f []).map some

theorem dbComp_eq (db : List Entry) (ps : List Str) (m : Str) : dbComp db ps m = compOfKey db (stripPrefix ps m) := rfl

theorem parseModComp_unimod_prefixed {T : Tables} {p p' k : Str} (hp : p ∈ pUnimod) (hl : lower p' = p)
    (hk : 35 ∉ k) (hpsi : notPsiKey T (p' ++ k)) : parseModComp T (p' ++ k) = compOfKey T.unimod k := by
  have hg := pUnimod_good p hp
  obtain ⟨_, _, _, h35, _⟩ := spelled_decomp hg hl
  have hm35 : (p' ++ k).contains 35 = false := contains_false (by simp [h35, hk])
  have hstrip := stripPrefix_spelled hp hg hl k
  have hpre := hasPrefix_spelled hp hl k
  obtain ⟨q, hq⟩ : ∃ q, p = 117 :: q := by
    simp only [pUnimod, List.mem_cons, List.not_mem_nil, or_false] at hp
    rcases hp with rfl | rfl <;> exact ⟨_, rfl⟩
  have hconv := convertType_spelled hg hl hq (by decide) k
  have hlow := lower_head (k := k) (hq ▸ hl)
  have hPsiPre : hasPrefix pPsi (p' ++ k) = false := hasPrefix_head_false (by decide) hlow
  unfold parseModComp
  simp only [hm35, Bool.false_and, hconv, if_false, Bool.false_eq_true]
  rw [startsWith_lower_head_false hlow (by decide), hasPrefix_head_false (c := 117) (by decide) hlow,
    hasPrefix_head_false (c := 117) (by decide) hlow, hasPrefix_head_false (c := 117) (by decide) hlow,
    startsWith_lower_head_false hlow (by decide), startsWith_lower_head_false hlow (by decide)]
  simp only [isDbStr, hPsiPre, hpsi.1, hpsi.2, hpre, dbComp_eq, hstrip, Option.isSome_none, Bool.or_false, Bool.false_eq_true,
    if_false, Bool.true_or, if_true]

theorem parseModComp_psi_prefixed {T : Tables} {p p' k : Str} (hp : p ∈ pPsi) (hl : lower p' = p)
    (hk : 35 ∉ k) : parseModComp T (p' ++ k) = compOfKey T.psimod k := by
  have hg := pPsi_good p hp
  obtain ⟨_, _, _, h35, _⟩ := spelled_decomp hg hl
  have hm35 : (p' ++ k).contains 35 = false := contains_false (by simp [h35, hk])
  have hstrip := stripPrefix_spelled hp hg hl k
  have hpre := hasPrefix_spelled hp hl k
  obtain ⟨d, q, hq, hd⟩ : ∃ d q, p = d :: q ∧ (d = 109 ∨ d = 112) := by
    simp only [pPsi, List.mem_cons, List.not_mem_nil, or_false] at hp
    rcases hp with rfl | rfl | rfl
    · exact ⟨_, _, rfl, Or.inl rfl⟩
    · exact ⟨_, _, rfl, Or.inl rfl⟩
    · exact ⟨_, _, rfl, Or.inr rfl⟩
  have hlow := lower_head (k := k) (hq ▸ hl)
  unfold parseModComp
  rcases hd with rfl | rfl
  · have hconv := convertType_spelled hg hl hq (by decide) k
    simp only [hm35, Bool.false_and, hconv, if_false, Bool.false_eq_true]
    rw [startsWith_lower_head_false hlow (by decide), hasPrefix_head_false (c := 109) (by decide) hlow,
      hasPrefix_head_false (c := 109) (by decide) hlow, hasPrefix_head_false (c := 109) (by decide) hlow,
      startsWith_lower_head_false hlow (by decide), startsWith_lower_head_false hlow (by decide)]
    simp only [isDbStr, hpre, dbComp_eq, hstrip, Bool.true_or, Bool.false_eq_true, if_false, if_true]
  · have hconv := convertType_spelled hg hl hq (by decide) k
    simp only [hm35, Bool.false_and, hconv, if_false, Bool.false_eq_true]
    rw [startsWith_lower_head_false hlow (by decide), hasPrefix_head_false (c := 112) (by decide) hlow,
      hasPrefix_head_false (c := 112) (by decide) hlow, hasPrefix_head_false (c := 112) (by decide) hlow,
      startsWith_lower_head_false hlow (by decide), startsWith_lower_head_false hlow (by decide)]
    simp only [isDbStr, hpre, dbComp_eq, hstrip, Bool.true_or, Bool.false_eq_true, if_false, if_true]

theorem parseModComp_xlmod_prefixed {T : Tables} {p p' k : Str} (hp : p ∈ pXlmod) (hl : lower p' = p)
    (hk : 35 ∉ k) : parseModComp T (p' ++ k) = compOfKey T.xlmod k := by
  have hg := pXlmod_good p hp
  obtain ⟨_, _, _, h35, _⟩ := spelled_decomp hg hl
  have hm35 : (p' ++ k).contains 35 = false := contains_false (by simp [h35, hk])
  have hstrip := stripPrefix_spelled hp hg hl k
  have hpre := hasPrefix_spelled hp hl k
  obtain ⟨q, hq⟩ : ∃ q, p = 120 :: q := by
    simp only [pXlmod, List.mem_cons, List.not_mem_nil, or_false] at hp
    rcases hp with rfl | rfl <;> exact ⟨_, rfl⟩
  have hconv := convertType_spelled hg hl hq (by decide) k
  have hlow := lower_head (k := k) (hq ▸ hl)
  unfold parseModComp
  simp only [hm35, Bool.false_and, hconv, if_false, Bool.false_eq_true]
  rw [startsWith_lower_head_false hlow (by decide), hasPrefix_head_false (c := 120) (by decide) hlow]
  simp only [hpre, dbComp_eq, hstrip, Bool.false_eq_true, if_false, if_true]


/-! ### bare names -/

theorem hasPrefix_sub {ps qs : List Str} {m : Str} (hsub : ∀ p ∈ ps, p ∈ qs) (h : hasPrefix qs m = false) :
    hasPrefix ps m = false := by
  simp only [hasPrefix] at h ⊢
  apply List.any_eq_false.mpr
  intro p hp
  have := List.any_eq_false.mp h p (hsub p hp)
  simpa using this

theorem startsWith_of_reserved {p m : Str} (hp : p ∈ reserved) (h : hasPrefix reserved m = false) :
    startsWith (lower m) p = false := by
  simp only [hasPrefix] at h
  have := List.any_eq_false.mp h p hp
  simpa using this

theorem keyClean_unpack {k : Str} (h : keyClean k = true) :
    35 ∉ k ∧ 124 ∉ k ∧ hasPrefix reserved k = false ∧ notSigned k := by
  unfold keyClean at h
  simp only [Bool.and_eq_true, Bool.not_eq_true'] at h
  obtain ⟨⟨⟨h1, h2⟩, h3⟩, h4⟩ := h
  refine ⟨by simpa using h1, by simpa using h2, h3, ?_⟩
  intro c r hk
  subst hk
  simpa using h4

theorem stripPrefix_noPrefix {ps : List Str} {m : Str} (h : hasPrefix ps m = false) : stripPrefix ps m = m := by
  simp [stripPrefix, h]

/-- a clean, non numeric string that is a PSI-MOD accession or name reaches `parse_psi_mass` unchanged -/
theorem parseModMass_bare_psi {T : Tables} {n : Str} (mono : Bool) (hc : keyClean n = true)
    (hnum : convertType n = .str) (hin : ((byId T.psimod n).isSome || (byName T.psimod n).isSome) = true) :
    parseModMass T n mono = (getMass T T.psimod n mono).map some := by
  obtain ⟨h35, _, hres, _⟩ := keyClean_unpack hc
  have hm35 := contains_false h35
  unfold parseModMass
  simp only [hm35, Bool.false_and, hnum, if_false, Bool.false_eq_true]
  rw [startsWith_of_reserved (by decide) hres, hasPrefix_sub (ps := pGno) (by decide) hres,
    hasPrefix_sub (ps := pXlmod) (by decide) hres, hasPrefix_sub (ps := pResid) (by decide) hres,
    startsWith_of_reserved (by decide) hres]
  simp only [isDbStr, hin, Bool.or_true, Bool.or_assoc, stripPrefix_noPrefix (hasPrefix_sub (ps := pPsi) (by decide) hres),
    Bool.false_eq_true, if_false, if_true]

/-- a clean, non numeric string that is no PSI-MOD key but a Unimod accession or name reaches `parse_unimod_mass` -/
theorem parseModMass_bare_unimod {T : Tables} {n : Str} (mono : Bool) (hc : keyClean n = true)
    (hnum : convertType n = .str) (hpsi : notPsiKey T n)
    (hin : ((byId T.unimod n).isSome || (byName T.unimod n).isSome) = true) :
    parseModMass T n mono = (getMass T T.unimod n mono).map some := by
  obtain ⟨h35, _, hres, _⟩ := keyClean_unpack hc
  have hm35 := contains_false h35
  unfold parseModMass
  simp only [hm35, Bool.false_and, hnum, if_false, Bool.false_eq_true]
  rw [startsWith_of_reserved (by decide) hres, hasPrefix_sub (ps := pGno) (by decide) hres,
    hasPrefix_sub (ps := pXlmod) (by decide) hres, hasPrefix_sub (ps := pResid) (by decide) hres,
    startsWith_of_reserved (by decide) hres]
  simp only [isDbStr, hasPrefix_sub (ps := pPsi) (by decide) hres, hpsi.1, hpsi.2, Option.isSome_none, Bool.or_false,
    hasPrefix_sub (ps := pUnimod) (by decide) hres, Bool.false_or, hin,
    stripPrefix_noPrefix (hasPrefix_sub (ps := pUnimod) (by decide) hres), Bool.false_eq_true, if_false, if_true]

theorem parseModComp_bare_psi {T : Tables} {n : Str} (hc : keyClean n = true)
    (hnum : convertType n = .str) (hin : ((byId T.psimod n).isSome || (byName T.psimod n).isSome) = true) :
    parseModComp T n = compOfKey T.psimod n := by
  obtain ⟨h35, _, hres, _⟩ := keyClean_unpack hc
  have hm35 := contains_false h35
  unfold parseModComp
  simp only [hm35, Bool.false_and, hnum, if_false, Bool.false_eq_true]
  rw [startsWith_of_reserved (by decide) hres, hasPrefix_sub (ps := pGno) (by decide) hres,
    hasPrefix_sub (ps := pXlmod) (by decide) hres, hasPrefix_sub (ps := pResid) (by decide) hres,
    startsWith_of_reserved (by decide) hres, startsWith_of_reserved (by decide) hres]
  simp only [isDbStr, hin, Bool.or_true, Bool.or_assoc, dbComp_eq,
    stripPrefix_noPrefix (hasPrefix_sub (ps := pPsi) (by decide) hres), Bool.false_eq_true, if_false, if_true]

theorem parseModComp_bare_unimod {T : Tables} {n : Str} (hc : keyClean n = true)
    (hnum : convertType n = .str) (hpsi : notPsiKey T n)
    (hin : ((byId T.unimod n).isSome || (byName T.unimod n).isSome) = true) :
    parseModComp T n = compOfKey T.unimod n := by
  obtain ⟨h35, _, hres, _⟩ := keyClean_unpack hc
  have hm35 := contains_false h35
  unfold parseModComp
  simp only [hm35, Bool.false_and, hnum, if_false, Bool.false_eq_true]
  rw [startsWith_of_reserved (by decide) hres, hasPrefix_sub (ps := pGno) (by decide) hres,
    hasPrefix_sub (ps := pXlmod) (by decide) hres, hasPrefix_sub (ps := pResid) (by decide) hres,
    startsWith_of_reserved (by decide) hres, startsWith_of_reserved (by decide) hres]
  simp only [isDbStr, hasPrefix_sub (ps := pPsi) (by decide) hres, hpsi.1, hpsi.2, Option.isSome_none, Bool.or_false,
    hasPrefix_sub (ps := pUnimod) (by decide) hres, Bool.false_or, hin, dbComp_eq,
    stripPrefix_noPrefix (hasPrefix_sub (ps := pUnimod) (by decide) hres), Bool.false_eq_true, if_false, if_true]

/-! ### one alternative -/

theorem splitOnAux_noSep {x : Nat} : ∀ (s acc : Str), x ∉ s → splitOnAux [x] 0 acc s = [acc.reverse ++ s]
  | [], acc, _ => by simp [splitOnAux]
  | c :: r, acc, h => by
    have hc : x ≠ c := fun e => h (e ▸ List.mem_cons_self)
    have hr : x ∉ r := fun e => h (List.mem_cons_of_mem _ e)
    simp [splitOnAux, List.isPrefixOf, hc, splitOnAux_noSep r (c :: acc) hr]

theorem splitBar_single {s : Str} (h : 124 ∉ s) : splitBar s = [s] := by
  simp [splitBar, splitOn, splitOnAux_noSep s [] h]

theorem modMass_single {T : Tables} {s : Str} (mono : Bool) (h : 124 ∉ s) {r : Except Err Mass}
    (hp : parseModMass T s mono = r.map some) : modMass T s mono = r := by
  simp only [modMass, splitBar_single h, firstMass, hp]
  cases r <;> rfl

theorem modComp_single {T : Tables} {s : Str} (h : 124 ∉ s) {r : Except Err Comp}
    (hp : parseModComp T s = r.map some) : modComp T s = r := by
  simp only [modComp, splitBar_single h, firstComp, hp]
  cases r <;> rfl

/-- the composition of an entry as `mod_comp` reports it -/
def entryCompParsed (e : Entry) : Except Err Comp :=
  match entryComp e with
  | .error er => .error er
  | .ok f => parseChem f []

theorem compOfKey_of_find {db : List Entry} {k : Str} {e : Entry}
    (hs : notSigned k) (hf : findEntry db k = some e) : compOfKey db k = (entryCompParsed e).map some := by
  simp only [compOfKey, getComp_of_find hs hf, entryCompParsed]
  cases entryComp e <;> rfl

end ModDb
