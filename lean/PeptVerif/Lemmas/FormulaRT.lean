import PeptVerif.Lemmas.NumSpec
import PeptVerif.Lemmas.NumText
/-!
Helper lemmas for C15 (chemical formula write / parse round trip, additivity, mass).
Everything here is about the executable model `PeptVerif/Model/Formula.lean`.
-/
namespace Formula
open ModDb

/-! ## character classes -/

theorem cc_not_lower {c : Nat} (h : (isDigit c || c == 45 || c == 46) = true) : isLower c = false := by
  simp [isDigit, isLower] at *; omega
theorem cc_not_alpha {c : Nat} (h : (isDigit c || c == 45 || c == 46) = true) : isAlpha c = false := by
  simp [isDigit, isAlpha, isUpper, isLower] at *; omega
theorem cc_not_br {c : Nat} (h : (isDigit c || c == 45 || c == 46) = true) : c ≠ 91 ∧ c ≠ 93 := by
  simp [isDigit] at *; omega
theorem alpha_not_digit {c : Nat} (h : isAlpha c = true) : isDigit c = false := by
  simp [isDigit, isAlpha, isUpper, isLower] at *; omega
theorem alpha_not_br {c : Nat} (h : isAlpha c = true) : c ≠ 91 ∧ c ≠ 93 := by
  simp [isAlpha, isUpper, isLower] at *; omega
theorem digit_not_br {c : Nat} (h : isDigit c = true) : c ≠ 91 ∧ c ≠ 93 := by
  simp [isDigit] at *; omega
theorem alpha_not_dd {c : Nat} (h : isAlpha c = true) : (isDigit c || c == 46) = false := by
  simp [isDigit, isAlpha, isUpper, isLower] at *; omega
theorem upper_alpha {c : Nat} (h : isUpper c = true) : isAlpha c = true := by simp [isAlpha, h]
theorem lower_alpha {c : Nat} (h : isLower c = true) : isAlpha c = true := by simp [isAlpha, h]

/-! ## `spanP` -/

theorem spanP_append (p : Nat → Bool) (a b : Str) (ha : ∀ c ∈ a, p c = true)
    (hb : ∀ c r, b = c :: r → p c = false) : spanP p (a ++ b) = (a, b) := by
  induction a with
  | nil =>
    cases b with
    | nil => rfl
    | cons c r => simp [spanP, hb c r rfl]
  | cons x a ih =>
    have hx : p x = true := ha x (by simp)
    have := ih (fun c hc => ha c (by simp [hc]))
    simp [spanP, hx, this]

theorem spanP_spec (p : Nat → Bool) (s : Str) :
    s = (spanP p s).1 ++ (spanP p s).2 ∧ (∀ c ∈ (spanP p s).1, p c = true) := by
  induction s with
  | nil => simp [spanP]
  | cons c r ih =>
    by_cases h : p c = true
    · simp only [spanP, h, if_true]
      refine ⟨by simpa using ih.1, ?_⟩
      intro x hx
      simp at hx
      rcases hx with rfl | hx
      · exact h
      · exact ih.2 x hx
    · simp [spanP, h]

/-! ## the condensed tokenizer -/

theorem finditer_skip (pre rest : Str) :
    finditerCondensed pre.length (pre ++ rest) = finditerCondensed 0 rest := by
  induction pre with
  | nil => simp
  | cons x pre ih => simpa [finditerCondensed] using ih

/-- a match `Upper lower* count` at the start of the text -/
theorem finditer_tok_upper (c : Nat) (lows cnt rest : Str) (hc : isUpper c = true)
    (hl : ∀ x ∈ lows, isLower x = true) (hne : cnt ≠ [])
    (hcc : ∀ x ∈ cnt, (isDigit x || x == 45 || x == 46) = true)
    (hcs : countStr (cnt ++ rest) = cnt) :
    finditerCondensed 0 (c :: lows ++ cnt ++ rest) = (c :: lows, cnt) :: finditerCondensed 0 rest := by
  have hsp : spanP isLower (lows ++ (cnt ++ rest)) = (lows, cnt ++ rest) := by
    apply spanP_append _ _ _ hl
    intro x r hx
    cases cnt with
    | nil => exact absurd rfl hne
    | cons y ys =>
      simp at hx
      exact cc_not_lower (hx.1 ▸ hcc y (by simp))
  have hskip := finditer_skip (lows ++ cnt) rest
  simp only [List.cons_append, List.append_assoc, finditerCondensed, hc, if_true, hsp, List.drop_left, hcs]
  simp only [List.length_append, List.append_assoc] at hskip
  rw [hskip]

/-- a match `e|p|n count` at the start of the text -/
theorem finditer_tok_particle (c : Nat) (cnt rest : Str) (hc : c = 101 ∨ c = 112 ∨ c = 110)
    (hcs : countStr (cnt ++ rest) = cnt) :
    finditerCondensed 0 (c :: cnt ++ rest) = ([c], cnt) :: finditerCondensed 0 rest := by
  have hu : isUpper c = false := by rcases hc with rfl | rfl | rfl <;> decide
  have hp : (c == 101 || c == 112 || c == 110) = true := by rcases hc with rfl | rfl | rfl <;> decide
  have hskip := finditer_skip cnt rest
  simp only [List.cons_append, finditerCondensed, hu, hp, if_true, hcs, hskip]
  simp

/-! ## keys and tokens -/

/-- a key the writer prints bare: `Upper lower*` other than `D` / `T`, or a particle `e` / `p` / `n` -/
def plainKeyB : Str → Bool
  | [] => false
  | c :: lows =>
    (isUpper c && lows.all isLower && !((c == 68 || c == 84) && lows.isEmpty))
      || ((c == 101 || c == 112 || c == 110) && lows.isEmpty)

/-- a key the writer prints in brackets: `D`, `T`, or `digit+ letter+` -/
def isoKeyB (k : Str) : Bool :=
  k == [68] || k == [84] ||
    (!(spanP isDigit k).1.isEmpty && !(spanP isDigit k).2.isEmpty && (spanP isDigit k).2.all isAlpha)

def PlainKey (k : Str) : Prop := plainKeyB k = true
def IsoKey (k : Str) : Prop := isoKeyB k = true
instance (k : Str) : Decidable (PlainKey k) := by unfold PlainKey; infer_instance
instance (k : Str) : Decidable (IsoKey k) := by unfold IsoKey; infer_instance

theorem plainKey_cases {k : Str} (h : PlainKey k) :
    (∃ c lows, k = c :: lows ∧ isUpper c = true ∧ (∀ x ∈ lows, isLower x = true) ∧ k ≠ [68] ∧ k ≠ [84])
    ∨ (∃ c, k = [c] ∧ (c = 101 ∨ c = 112 ∨ c = 110)) := by
  cases k with
  | nil => simp [PlainKey, plainKeyB] at h
  | cons c lows =>
    simp only [PlainKey, plainKeyB, Bool.or_eq_true, Bool.and_eq_true, List.all_eq_true, beq_iff_eq,
      Bool.not_eq_true', List.isEmpty_iff] at h
    rcases h with ⟨⟨hu, hl⟩, hdt⟩ | ⟨hp, hn⟩
    · left
      refine ⟨c, lows, rfl, hu, hl, ?_, ?_⟩
      · intro he; simp at he; simp [he] at hdt
      · intro he; simp at he; simp [he] at hdt
    · right
      subst hn
      exact ⟨c, rfl, by rcases hp with (hp | hp) | hp <;> simp [hp]⟩

theorem isoKey_cases {k : Str} (h : IsoKey k) :
    k = [68] ∨ k = [84] ∨ ∃ ds ls, k = ds ++ ls ∧ ds ≠ [] ∧ ls ≠ [] ∧ (∀ x ∈ ds, isDigit x = true)
      ∧ (∀ x ∈ ls, isAlpha x = true) := by
  simp only [IsoKey, isoKeyB, Bool.or_eq_true, Bool.and_eq_true, beq_iff_eq, List.all_eq_true,
    Bool.not_eq_true', List.isEmpty_eq_false_iff] at h
  rcases h with (h | h) | ⟨⟨h1, h2⟩, h3⟩
  · exact .inl h
  · exact .inr (.inl h)
  · exact .inr (.inr ⟨_, _, (spanP_spec isDigit k).1, h1, h2, (spanP_spec isDigit k).2, h3⟩)

theorem plainKey_not_iso {k : Str} (h : PlainKey k) : isIsoKey k = false := by
  rcases plainKey_cases h with ⟨c, lows, rfl, hu, _, h68, h84⟩ | ⟨c, rfl, hc⟩
  · have : isDigit c = false := alpha_not_digit (upper_alpha hu)
    simp [isIsoKey, this]
    exact ⟨by simpa using h68, by simpa using h84⟩
  · rcases hc with rfl | rfl | rfl <;> decide

theorem isoKey_iso {k : Str} (h : IsoKey k) : isIsoKey k = true := by
  rcases isoKey_cases h with rfl | rfl | ⟨ds, ls, rfl, hd, _, hdd, _⟩
  · decide
  · decide
  · cases ds with
    | nil => exact absurd rfl hd
    | cons d ds => simp [isIsoKey, hdd d (by simp)]

theorem plainKey_ne {k : Str} (h : PlainKey k) : k ≠ [] := by
  intro he; subst he; simp [PlainKey, plainKeyB] at h
theorem isoKey_ne {k : Str} (h : IsoKey k) : k ≠ [] := by
  intro he; subst he; simp [IsoKey, isoKeyB, spanP] at h

theorem plainKey_alpha {k : Str} (h : PlainKey k) : ∀ x ∈ k, isAlpha x = true := by
  rcases plainKey_cases h with ⟨c, lows, rfl, hu, hl, _, _⟩ | ⟨c, rfl, hc⟩
  · intro x hx
    simp at hx
    rcases hx with rfl | hx
    · exact upper_alpha hu
    · exact lower_alpha (hl x hx)
  · intro x hx
    simp at hx
    subst hx
    rcases hc with rfl | rfl | rfl <;> decide

theorem isoKey_alnum {k : Str} (h : IsoKey k) : ∀ x ∈ k, (isAlpha x || isDigit x) = true := by
  rcases isoKey_cases h with rfl | rfl | ⟨ds, ls, rfl, _, _, hdd, hll⟩
  · decide
  · decide
  · intro x hx
    simp at hx
    rcases hx with hx | hx
    · simp [hdd x hx]
    · simp [hll x hx]

/-- a written token: key and count -/
abbrev Tok := Str × Num

/-- what `write_chem_formula` (sep = '') emits for one entry -/
def tokStr (t : Tok) : Str :=
  if isIsoKey t.1 then [91] ++ t.1 ++ t.2.show ++ [93] else t.1 ++ t.2.show

/-- concatenation of the written tokens -/
def render (ts : List Tok) : Str := (ts.map tokStr).flatten

@[simp] theorem render_nil : render [] = [] := rfl
@[simp] theorem render_cons (t : Tok) (ts : List Tok) : render (t :: ts) = tokStr t ++ render ts := rfl
theorem render_append (a b : List Tok) : render (a ++ b) = render a ++ render b := by
  simp [render]

def PlainTok (t : Tok) : Prop := PlainKey t.1 ∧ NumOK t.2
def IsoTok (t : Tok) : Prop := IsoKey t.1 ∧ NumOK t.2
/-- well-formed token: key of the domain, printable count -/
def WFTok (t : Tok) : Prop := (PlainKey t.1 ∨ IsoKey t.1) ∧ NumOK t.2

theorem tokStr_plain {t : Tok} (h : PlainTok t) : tokStr t = t.1 ++ t.2.show := by
  simp [tokStr, plainKey_not_iso h.1]
theorem tokStr_iso {t : Tok} (h : IsoTok t) : tokStr t = 91 :: (t.1 ++ t.2.show) ++ [93] := by
  simp [tokStr, isoKey_iso h.1]

/-- the first character of a run of plain tokens is a letter -/
theorem render_plain_head {ps : List Tok} (h : ∀ t ∈ ps, PlainTok t) :
    ∀ c r, render ps = c :: r → isAlpha c = true := by
  intro c r hr
  cases ps with
  | nil => simp at hr
  | cons t ps =>
    have ht := h t (by simp)
    rw [render_cons, tokStr_plain ht] at hr
    have hk := plainKey_alpha ht.1
    cases hkk : t.1 with
    | nil => exact absurd hkk (plainKey_ne ht.1)
    | cons a as =>
      rw [hkk] at hr hk
      simp at hr
      exact hr.1 ▸ hk a (by simp)

theorem render_plain_ne {ps : List Tok} (h : ∀ t ∈ ps, PlainTok t) (hne : ps ≠ []) : render ps ≠ [] := by
  cases ps with
  | nil => exact absurd rfl hne
  | cons t ps =>
    have ht := h t (by simp)
    rw [render_cons, tokStr_plain ht]
    have := plainKey_ne ht.1
    simp [this]

theorem finditer_plain {t : Tok} (h : PlainTok t) (rest : Str)
    (hr : ∀ c r, rest = c :: r → (isDigit c || c == 46) = false) :
    finditerCondensed 0 (tokStr t ++ rest) = (t.1, t.2.show) :: finditerCondensed 0 rest := by
  rw [tokStr_plain h]
  have hcs := h.2.count rest hr
  rcases plainKey_cases h.1 with ⟨c, lows, hk, hu, hl, _, _⟩ | ⟨c, hk, hc⟩
  · rw [hk]
    exact finditer_tok_upper c lows _ rest hu hl h.2.ne h.2.chars hcs
  · rw [hk]
    exact finditer_tok_particle c _ rest hc hcs

theorem finditer_run {ps : List Tok} (h : ∀ t ∈ ps, PlainTok t) :
    finditerCondensed 0 (render ps) = ps.map (fun t => (t.1, t.2.show)) := by
  induction ps with
  | nil => rfl
  | cons t ps ih =>
    have hps : ∀ t ∈ ps, PlainTok t := fun t ht => h t (by simp [ht])
    rw [render_cons, finditer_plain (h t (by simp)) _ (fun c r hc => alpha_not_dd (render_plain_head hps c r hc)),
      ih hps]
    rfl

theorem countOf_show {v : Num} (h : NumOK v) : countOf v.show = some v := by
  have := h.ne
  simp [countOf, h.conv, this]

theorem tokStr_plain_length {t : Tok} (h : PlainTok t) : (tokStr t).length = t.1.length + t.2.show.length := by
  simp [tokStr_plain h]

theorem condensedFold_run {ps : List Tok} (h : ∀ t ∈ ps, PlainTok t) (d : Comp) (n : Nat) :
    condensedFold (ps.map (fun t => (t.1, t.2.show))) d n = some (addAll d ps, n + (render ps).length) := by
  induction ps generalizing d n with
  | nil => simp [condensedFold, addAll]
  | cons t ps ih =>
    have hps : ∀ t ∈ ps, PlainTok t := fun t ht => h t (by simp [ht])
    have ht := h t (by simp)
    simp only [List.map_cons, condensedFold, countOf_show ht.2, ih hps, render_cons, List.length_append,
      tokStr_plain_length ht]
    simp [addAll, Nat.add_assoc]

/-- a bracket-free run of plain tokens parses to the accumulated counts -/
theorem parseCondensed_run {ps : List Tok} (h : ∀ t ∈ ps, PlainTok t) :
    parseCondensed (render ps) = .ok (addAll [] ps) := by
  cases hps : ps with
  | nil => rfl
  | cons t ps' =>
    rw [← hps]
    have hne : ps ≠ [] := by simp [hps]
    have h1 := render_plain_ne h hne
    unfold parseCondensed
    simp only [finditer_run h, condensedFold_run h]
    simp [h1, hne]

/-! ## bracketed isotope components -/

theorem countStr_show {v : Num} (h : NumOK v) : countStr v.show = v.show := by
  have := h.count [] (by intro c r hc; cases hc)
  simpa using this

theorem show_head_cc {v : Num} (h : NumOK v) :
    ∀ c r, v.show = c :: r → (isDigit c || c == 45 || c == 46) = true := by
  intro c r hc
  exact h.chars c (by simp [hc])

theorem parseIsotope_tok {t : Tok} (h : IsoTok t) :
    parseIsotope (t.1 ++ t.2.show) = .ok (addAll [] [t]) := by
  obtain ⟨k, v⟩ := t
  have hv : NumOK v := h.2
  have hk : IsoKey k := h.1
  have hDT : ∀ c, c = 68 ∨ c = 84 → parseIsotope ([c] ++ v.show) = .ok (addAll [] [([c], v)]) := by
    intro c hc
    have hu : isUpper c = true := by rcases hc with rfl | rfl <;> decide
    have hcc : (c == 68 || c == 84) = true := by rcases hc with rfl | rfl <;> decide
    have hf := finditer_tok_upper c [] v.show [] hu (by simp) hv.ne hv.chars (by simpa using countStr_show hv)
    simp only [List.append_nil, List.cons_append, List.nil_append] at hf
    simp only [parseIsotope, List.cons_append, List.nil_append, hcc, if_true, parseCondensed, hf]
    simp [condensedFold, countOf_show hv, finditerCondensed, addAll]
    omega
  rcases isoKey_cases hk with rfl | rfl | ⟨ds, ls, rfl, hd, hl, hdd, hll⟩
  · exact hDT 68 (.inl rfl)
  · exact hDT 84 (.inr rfl)
  · cases ds with
    | nil => exact absurd rfl hd
    | cons d ds =>
      have hd0 : isDigit d = true := hdd d (by simp)
      have hne : (d == 68 || d == 84) = false := by
        simp [isDigit] at hd0 ⊢; omega
      have h1 : spanP isDigit (d :: ds ++ (ls ++ v.show)) = (d :: ds, ls ++ v.show) := by
        apply spanP_append _ _ _ hdd
        intro c r hc
        cases ls with
        | nil => exact absurd rfl hl
        | cons a as =>
          simp at hc
          exact alpha_not_digit (hc.1 ▸ hll a (by simp))
      have h2 : spanP isAlpha (ls ++ v.show) = (ls, v.show) := by
        apply spanP_append _ _ _ hll
        intro c r hc
        exact cc_not_alpha (show_head_cc hv c r hc)
      have hls : ls.isEmpty = false := by simp [hl]
      show parseIsotope ((d :: ds ++ ls) ++ v.show) = _
      rw [List.append_assoc]
      simp only [parseIsotope, List.cons_append, hne]
      simp only [← List.cons_append, h1, h2, hls, countStr_show hv, countOf_show hv]
      simp [addAll, addTo]

theorem parseComponent_iso {t : Tok} (h : IsoTok t) :
    parseComponent (tokStr t) = .ok (addAll [] [t]) := by
  rw [tokStr_iso h]
  simp only [List.cons_append, parseComponent, List.dropLast_concat]
  exact parseIsotope_tok h

theorem parseComponent_run {ps : List Tok} (h : ∀ t ∈ ps, PlainTok t) :
    parseComponent (render ps) = .ok (addAll [] ps) := by
  cases hr : render ps with
  | nil =>
    cases ps with
    | nil => rfl
    | cons t ps => exact absurd hr (render_plain_ne h (by simp))
  | cons c r =>
    have hc := (alpha_not_br (render_plain_head h c r hr)).1
    rw [← hr]
    unfold parseComponent
    split
    · next r' heq => rw [hr] at heq; simp at heq; exact absurd heq.1 hc
    · exact parseCondensed_run h

/-! ## `Num` and dict algebra -/

theorem Num.zero_add (v : Num) : Num.add Num.zero v = v := by
  cases v
  simp [Num.add, Num.zero, Num.ofInt]

theorem Num.add_assoc (a b c : Num) : Num.add (Num.add a b) c = Num.add a (Num.add b c) := by
  simp [Num.add, Rat.add_assoc, Bool.or_assoc]

theorem Num.add_comm (a b : Num) : Num.add a b = Num.add b a := by
  simp [Num.add, Rat.add_comm, Bool.or_comm]

theorem Num.add_right_comm (a b c : Num) : Num.add (Num.add a b) c = Num.add (Num.add a c) b := by
  rw [Num.add_assoc, Num.add_comm b c, ← Num.add_assoc]

/-- the keys of a dict -/
def keys (d : Comp) : List Str := d.map (·.1)

theorem addAll_nil (d : Comp) : addAll d [] = d := rfl
theorem addAll_cons (d : Comp) (t : Tok) (ts : List Tok) : addAll d (t :: ts) = addAll (addTo d t.1 t.2) ts := rfl
theorem addAll_append (d : Comp) (a b : List Tok) : addAll d (a ++ b) = addAll (addAll d a) b := by
  simp [addAll, List.foldl_append]

theorem addTo_zero_add (d : Comp) (k : Str) (v : Num) : addTo d k (Num.add Num.zero v) = addTo d k v := by
  rw [Num.zero_add]

theorem addTo_addTo_same (d : Comp) (k : Str) (w v : Num) :
    addTo (addTo d k w) k v = addTo d k (Num.add w v) := by
  induction d with
  | nil => simp [addTo, Num.add_assoc]
  | cons a d ih =>
    by_cases h : a.1 = k
    · simp [addTo, h, Num.add_assoc]
    · simp [addTo, h, ih]

theorem keys_addTo_mem {d : Comp} {k k' : Str} {w : Num} (h : k ∈ keys d) : k ∈ keys (addTo d k' w) := by
  induction d with
  | nil => simp [keys] at h
  | cons a d ih =>
    by_cases hk : a.1 = k'
    · simpa [addTo, hk, keys] using h
    · simp only [addTo, beq_iff_eq, hk, if_false, keys, List.map_cons, List.mem_cons] at h ⊢
      rcases h with h | h
      · exact .inl h
      · exact .inr (ih h)

theorem keys_addTo_self (d : Comp) (k : Str) (w : Num) : k ∈ keys (addTo d k w) := by
  induction d with
  | nil => simp [addTo, keys]
  | cons a d ih =>
    by_cases hk : a.1 = k
    · simp [addTo, hk, keys]
    · simp only [addTo, beq_iff_eq, hk, if_false, keys, List.map_cons, List.mem_cons]
      exact .inr ih

theorem addTo_comm_of_mem {d : Comp} {k : Str} (h : k ∈ keys d) (k' : Str) (w v : Num) :
    addTo (addTo d k' w) k v = addTo (addTo d k v) k' w := by
  induction d with
  | nil => simp [keys] at h
  | cons a d ih =>
    obtain ⟨ak, av⟩ := a
    by_cases h1 : ak = k' <;> by_cases h2 : ak = k
    · subst h1; subst h2
      simp [addTo, Num.add_right_comm]
    · subst h1
      simp [addTo, h2]
    · subst h2
      simp [addTo, h1]
    · have hk : k ∈ keys d := by
        simp only [keys, List.map_cons, List.mem_cons] at h
        rcases h with h | h
        · exact absurd h.symm h2
        · exact h
      simp [addTo, h1, h2, ih hk]

theorem addTo_addAll_of_mem {d : Comp} {k : Str} (h : k ∈ keys d) (v : Num) (e : List Tok) :
    addTo (addAll d e) k v = addAll (addTo d k v) e := by
  induction e generalizing d with
  | nil => rfl
  | cons t e ih =>
    rw [addAll_cons, addAll_cons, ih (keys_addTo_mem h), addTo_comm_of_mem h]

theorem addAll_addTo (d e : Comp) (k : Str) (v : Num) :
    addAll d (addTo e k v) = addTo (addAll d e) k v := by
  induction e generalizing d with
  | nil => simp [addTo, addAll, Num.zero_add]
  | cons a e ih =>
    by_cases h : a.1 = k
    · simp only [addTo, beq_iff_eq, h, if_true, addAll_cons]
      rw [addTo_addAll_of_mem (keys_addTo_self d k a.2), addTo_addTo_same]
    · simp only [addTo, beq_iff_eq, h, if_false, addAll_cons]
      exact ih _

/-- dict addition is associative -/
theorem addAll_assoc (d e : Comp) (ps : List Tok) : addAll d (addAll e ps) = addAll (addAll d e) ps := by
  induction ps generalizing e with
  | nil => rfl
  | cons t ps ih => rw [addAll_cons, ih, addAll_addTo, addAll_cons]

theorem addAll_addAll_nil (d : Comp) (ps : List Tok) : addAll d (addAll [] ps) = addAll d ps := by
  rw [addAll_assoc]; rfl

theorem foldl_addAll_groups (L : List (List Tok)) (d : Comp) :
    (L.map (addAll [])).foldl addAll d = addAll d L.flatten := by
  induction L generalizing d with
  | nil => rfl
  | cons g L ih =>
    simp only [List.map_cons, List.foldl_cons, List.flatten_cons, ih, addAll_addAll_nil, addAll_append]

/-! ## the component splitter -/

theorem splitChem_run (s acc rest : Str) (h : ∀ c ∈ s, c ≠ 91 ∧ c ≠ 93) :
    splitChem false acc (s ++ rest) = splitChem false (s.reverse ++ acc) rest := by
  induction s generalizing acc with
  | nil => rfl
  | cons c s ih =>
    have hc := h c (by simp)
    have := ih (c :: acc) (fun x hx => h x (by simp [hx]))
    simp only [List.cons_append, splitChem, beq_iff_eq, hc.1, hc.2, if_false, this]
    simp

theorem splitChem_inside (s acc rest : Str) (h : ∀ c ∈ s, c ≠ 93) :
    splitChem true acc (s ++ 93 :: rest) =
      match splitChem false [] rest with
      | .ok l => .ok ((93 :: (s.reverse ++ acc)).reverse :: l)
      | .error e => .error e := by
  induction s generalizing acc with
  | nil => cases h' : splitChem false [] rest <;> simp [splitChem, h']
  | cons c s ih =>
    have hc := h c (by simp)
    have := ih (c :: acc) (fun x hx => h x (by simp [hx]))
    simp only [List.cons_append, splitChem, beq_iff_eq, hc, if_false, this]
    simp

theorem plainTok_chars {t : Tok} (h : PlainTok t) : ∀ c ∈ tokStr t, c ≠ 91 ∧ c ≠ 93 := by
  rw [tokStr_plain h]
  intro c hc
  simp at hc
  rcases hc with hc | hc
  · exact alpha_not_br (plainKey_alpha h.1 c hc)
  · exact cc_not_br (h.2.chars c hc)

theorem isoTok_chars {t : Tok} (h : IsoTok t) : ∀ c ∈ t.1 ++ t.2.show, c ≠ 93 := by
  intro c hc
  simp at hc
  rcases hc with hc | hc
  · have := isoKey_alnum h.1 c hc
    simp at this
    rcases this with h1 | h1
    · exact (alpha_not_br h1).2
    · exact (digit_not_br h1).2
  · exact (cc_not_br (h.2.chars c hc)).2

/-- the components `_split_chem_formula` cuts a rendered token list into: maximal runs of plain tokens and single
bracketed tokens (`ps` = the run being accumulated) -/
def groups : List Tok → List Tok → List (List Tok)
  | ps, [] => if ps.isEmpty then [] else [ps]
  | ps, t :: ts =>
    if isIsoKey t.1 then (if ps.isEmpty then [t] :: groups [] ts else ps :: [t] :: groups [] ts)
    else groups (ps ++ [t]) ts

theorem groups_flatten (ps ts : List Tok) : (groups ps ts).flatten = ps ++ ts := by
  induction ts generalizing ps with
  | nil => cases ps <;> simp [groups]
  | cons t ts ih =>
    by_cases h : isIsoKey t.1 = true
    · cases ps <;> simp [groups, h, ih]
    · simp [groups, h, ih]

def GoodGroup (g : List Tok) : Prop := (∀ t ∈ g, PlainTok t) ∨ ∃ t, g = [t] ∧ IsoTok t

theorem wfTok_cases {t : Tok} (h : WFTok t) :
    (PlainTok t ∧ isIsoKey t.1 = false) ∨ (IsoTok t ∧ isIsoKey t.1 = true) := by
  rcases h.1 with hk | hk
  · exact .inl ⟨⟨hk, h.2⟩, plainKey_not_iso hk⟩
  · exact .inr ⟨⟨hk, h.2⟩, isoKey_iso hk⟩

theorem groups_good {ps ts : List Tok} (hps : ∀ t ∈ ps, PlainTok t) (hts : ∀ t ∈ ts, WFTok t) :
    ∀ g ∈ groups ps ts, GoodGroup g := by
  induction ts generalizing ps with
  | nil =>
    intro g hg
    cases ps with
    | nil => simp [groups] at hg
    | cons p ps => simp [groups] at hg; subst hg; exact .inl hps
  | cons t ts ih =>
    have hts' : ∀ t ∈ ts, WFTok t := fun t ht => hts t (by simp [ht])
    rcases wfTok_cases (hts t (by simp)) with ⟨hp, hi⟩ | ⟨hp, hi⟩
    · simp only [groups, hi]
      apply ih _ hts'
      intro x hx
      simp at hx
      rcases hx with hx | rfl
      · exact hps x hx
      · exact hp
    · intro g hg
      have h0 := ih (ps := []) (by simp) hts'
      cases ps with
      | nil =>
        simp [groups, hi] at hg
        rcases hg with rfl | hg
        · exact .inr ⟨t, rfl, hp⟩
        · exact h0 g hg
      | cons p ps =>
        simp [groups, hi] at hg
        rcases hg with rfl | rfl | hg
        · exact .inl hps
        · exact .inr ⟨t, rfl, hp⟩
        · exact h0 g hg

theorem rev_isEmpty_false {s : Str} (h : s ≠ []) : s.reverse.isEmpty = false := by
  cases s with
  | nil => exact absurd rfl h
  | cons a as => simp

theorem splitChem_render {ps ts : List Tok} (hps : ∀ t ∈ ps, PlainTok t) (hts : ∀ t ∈ ts, WFTok t) :
    splitChem false (render ps).reverse (render ts) = .ok ((groups ps ts).map render) := by
  induction ts generalizing ps with
  | nil =>
    cases ps with
    | nil => rfl
    | cons p ps =>
      have h2 := rev_isEmpty_false (render_plain_ne hps (by simp))
      simp only [render_nil, splitChem, h2, groups, List.isEmpty_cons, Bool.false_eq_true, if_false,
        List.reverse_reverse, List.map_cons, List.map_nil]
  | cons t ts ih =>
    have hts' : ∀ t ∈ ts, WFTok t := fun t ht => hts t (by simp [ht])
    rcases wfTok_cases (hts t (by simp)) with ⟨hp, hi⟩ | ⟨hp, hi⟩
    · have hps' : ∀ x ∈ ps ++ [t], PlainTok x := by
        intro x hx
        simp at hx
        rcases hx with hx | rfl
        · exact hps x hx
        · exact hp
      have := ih hps' hts'
      simp only [groups, hi, Bool.false_eq_true, if_false, render_cons, splitChem_run _ _ _ (plainTok_chars hp)]
      rw [← this, render_append]
      simp
    · have h0 := ih (ps := []) (by simp) hts'
      simp only [render_nil, List.reverse_nil] at h0
      have e : tokStr t ++ render ts = 91 :: ((t.1 ++ t.2.show) ++ 93 :: render ts) := by
        rw [tokStr_iso hp]; simp
      have e2 : (93 :: ((t.1 ++ t.2.show).reverse ++ [91])).reverse = tokStr t := by
        rw [tokStr_iso hp]; simp
      rw [render_cons, e]
      simp only [splitChem, beq_self_eq_true, if_true]
      rw [splitChem_inside _ _ _ (isoTok_chars hp), h0]
      simp only [e2]
      cases ps with
      | nil => simp [groups, hi]
      | cons p ps =>
        have h2 := rev_isEmpty_false (render_plain_ne hps (by simp))
        rw [render_cons] at h2
        simp only [h2, groups, hi, if_true, List.isEmpty_cons, Bool.false_eq_true, if_false,
          List.reverse_reverse, List.map_cons, render_cons, render_nil, List.append_nil]

theorem parseComponent_group {g : List Tok} (h : GoodGroup g) : parseComponent (render g) = .ok (addAll [] g) := by
  rcases h with h | ⟨t, rfl, h⟩
  · exact parseComponent_run h
  · simpa using parseComponent_iso h

theorem parseComponents_groups {L : List (List Tok)} (h : ∀ g ∈ L, GoodGroup g) :
    parseComponents (L.map render) = .ok (L.map (addAll [])) := by
  induction L with
  | nil => rfl
  | cons g L ih =>
    simp [parseComponents, parseComponent_group (h g (by simp)), ih (fun g hg => h g (by simp [hg]))]

/-- **write → parse for arbitrary token lists** (repeated keys allowed): the parse of the rendered tokens is the
left-to-right accumulation of the tokens into an empty dict -/
theorem parseChem_render {ts : List Tok} (h : ∀ t ∈ ts, WFTok t) :
    parseChem (render ts) [] = .ok (addAll [] ts) := by
  have h1 := splitChem_render (ps := []) (by simp) h
  simp only [render_nil, List.reverse_nil] at h1
  have h2 := parseComponents_groups (groups_good (ps := []) (by simp) h)
  simp only [parseChem, bne_self_eq_false, Bool.false_eq_true, if_false, h1, h2, foldl_addAll_groups,
    groups_flatten, List.nil_append]

/-! ## the writer -/

/-- zero-count entries are not written -/
def dropZeros (c : Comp) : Comp := c.filter (fun kv => !kv.2.isZero)

/-- the order in which `write_chem_formula` visits the entries -/
def hillSort (elems : List Elem) (hill : Bool) (c : Comp) : Comp :=
  if hill then sortBy (fun kv => hillIndex elems kv.1) c else c

theorem insertBy_perm {α : Type} (key : α → Nat) (x : α) (l : List α) : (insertBy key x l).Perm (x :: l) := by
  induction l with
  | nil => exact List.Perm.refl _
  | cons y l ih =>
    by_cases h : key x < key y
    · simp [insertBy, h]
    · simp only [insertBy, h, if_false]
      exact (List.Perm.cons y ih).trans (List.Perm.swap x y l)

theorem foldl_insertBy_perm {α : Type} (key : α → Nat) (l acc : List α) :
    (l.foldl (fun acc x => insertBy key x acc) acc).Perm (l ++ acc) := by
  induction l generalizing acc with
  | nil => exact List.Perm.refl _
  | cons x l ih =>
    simp only [List.foldl_cons, List.cons_append]
    exact (ih _).trans ((List.Perm.append_left l (insertBy_perm key x acc)).trans List.perm_middle)

theorem sortBy_perm {α : Type} (key : α → Nat) (l : List α) : (sortBy key l).Perm l := by
  simpa [sortBy] using foldl_insertBy_perm key l []

theorem hillSort_perm (elems : List Elem) (hill : Bool) (c : Comp) : (hillSort elems hill c).Perm c := by
  unfold hillSort
  split
  · exact sortBy_perm _ _
  · exact List.Perm.refl _

theorem flatten_write (l : Comp) (h : ∀ kv ∈ l, kv.1 ≠ []) :
    (l.map (fun kv =>
      if kv.2.isZero || kv.1 == [] then []
      else if isIsoKey kv.1 then [91] ++ kv.1 ++ kv.2.show ++ [93]
      else kv.1 ++ kv.2.show)).flatten = render (dropZeros l) := by
  induction l with
  | nil => rfl
  | cons a l ih =>
    have ha : (a.1 == []) = false := by simpa using h a (by simp)
    have := ih (fun kv hkv => h kv (by simp [hkv]))
    by_cases hz : a.2.isZero = true
    · simp only [List.map_cons, List.flatten_cons, this, hz, Bool.true_or, if_true, dropZeros, List.filter_cons,
        Bool.not_true, Bool.false_eq_true, if_false, List.nil_append]
    · simp only [Bool.not_eq_true] at hz
      simp only [List.map_cons, List.flatten_cons, this, hz, ha, Bool.or_false, Bool.false_eq_true, if_false,
        dropZeros, List.filter_cons, Bool.not_false, if_true, render_cons, tokStr]

theorem writeChem_nosep (elems : List Elem) (c : Comp) (hill : Bool) (h : ∀ kv ∈ c, kv.1 ≠ []) :
    writeChem elems c [] hill = render (dropZeros (hillSort elems hill c)) := by
  have h' : ∀ kv ∈ hillSort elems hill c, kv.1 ≠ [] :=
    fun kv hkv => h kv ((hillSort_perm elems hill c).mem_iff.1 hkv)
  have := flatten_write _ h'
  simpa [writeChem, hillSort] using this

theorem writeChem_sep (elems : List Elem) (c : Comp) (sep : Str) (hill : Bool) (h : sep ≠ []) :
    writeChem elems c sep hill =
      intercalate sep ((dropZeros (hillSort elems hill c)).map (fun kv => kv.1 ++ sep ++ kv.2.show)) := by
  simp [writeChem, hillSort, dropZeros, h]

/-- well-formed composition: pairwise distinct keys of the domain, printable counts -/
def WFComp (c : Comp) : Prop := (keys c).Nodup ∧ ∀ kv ∈ c, WFTok kv

theorem WFComp.perm {c c' : Comp} (h : WFComp c) (p : c'.Perm c) : WFComp c' :=
  ⟨(p.map _).nodup_iff.2 h.1, fun kv hkv => h.2 kv (p.mem_iff.1 hkv)⟩

theorem WFComp.dropZeros {c : Comp} (h : WFComp c) : WFComp (dropZeros c) :=
  ⟨h.1.sublist (List.Sublist.map _ List.filter_sublist), fun kv hkv => h.2 kv (List.mem_filter.1 hkv).1⟩

theorem wfTok_key_ne {t : Tok} (h : WFTok t) : t.1 ≠ [] := by
  rcases h.1 with h | h
  · exact plainKey_ne h
  · exact isoKey_ne h

theorem addTo_new {d : Comp} {k : Str} (h : k ∉ keys d) (v : Num) : addTo d k v = d ++ [(k, v)] := by
  induction d with
  | nil => simp [addTo, Num.zero_add]
  | cons a d ih =>
    simp only [keys, List.map_cons, List.mem_cons, not_or] at h
    have h1 : ¬ a.1 = k := fun e => h.1 e.symm
    simp [addTo, h1, ih h.2]

theorem addAll_distinct {d l : Comp} (hl : (keys l).Nodup) (hd : ∀ k ∈ keys l, k ∉ keys d) :
    addAll d l = d ++ l := by
  induction l generalizing d with
  | nil => simp [addAll]
  | cons t l ih =>
    simp only [keys, List.map_cons, List.nodup_cons] at hl
    rw [addAll_cons, addTo_new (hd t.1 (by simp [keys])), ih hl.2]
    · simp
    · intro k hk hk'
      simp only [keys, List.map_append, List.map_cons, List.map_nil, List.mem_append, List.mem_singleton] at hk'
      rcases hk' with hk' | rfl
      · exact hd k (by simp [keys] at hk ⊢; exact .inr hk) hk'
      · exact hl.1 hk

theorem parseChem_write {c : Comp} (elems : List Elem) (hill : Bool) (h : WFComp c) :
    parseChem (writeChem elems c [] hill) [] = .ok (dropZeros (hillSort elems hill c)) := by
  have hw : WFComp (dropZeros (hillSort elems hill c)) := (h.perm (hillSort_perm elems hill c)).dropZeros
  rw [writeChem_nosep elems c hill (fun kv hkv => wfTok_key_ne (h.2 kv hkv)), parseChem_render hw.2,
    addAll_distinct hw.1 (by simp [keys])]
  rfl

/-! ## reading the result: the count at a key -/

/-- sum (from `w`) of the counts of the tokens whose key is exactly `k` -/
def sumAt (k : Str) (ts : List Tok) (w : Num) : Num :=
  (ts.filter (fun t => t.1 == k)).foldl (fun a t => Num.add a t.2) w

theorem get?_nil (k : Str) : Comp.get? [] k = none := rfl

theorem get?_cons (a : Str × Num) (d : Comp) (k : Str) :
    Comp.get? (a :: d) k = if a.1 = k then some a.2 else Comp.get? d k := by
  by_cases h : a.1 = k <;> simp [Comp.get?, h]

theorem get?_addTo (d : Comp) (k k' : Str) (v : Num) :
    (addTo d k v).get? k' =
      if k = k' then some (Num.add ((d.get? k).getD Num.zero) v) else d.get? k' := by
  induction d with
  | nil =>
    by_cases h : k = k' <;> simp [addTo, get?_cons, get?_nil, h]
  | cons a d ih =>
    obtain ⟨ak, av⟩ := a
    by_cases h1 : ak = k
    · subst h1
      by_cases h2 : ak = k' <;> simp [addTo, get?_cons, h2]
    · have h1' : ¬ k = ak := fun e => h1 e.symm
      by_cases h2 : k = k'
      · subst h2
        simp [addTo, get?_cons, h1, ih]
      · by_cases h3 : ak = k'
        · subst h3; simp [addTo, get?_cons, h1, h2]
        · simp [addTo, get?_cons, h1, h2, h3, ih]

theorem get?_addAll (d : Comp) (ts : List Tok) (k : Str) :
    (addAll d ts).get? k =
      if (d.get? k).isSome || ts.any (fun t => t.1 == k) then some (sumAt k ts ((d.get? k).getD Num.zero))
      else none := by
  induction ts generalizing d with
  | nil =>
    cases h : d.get? k <;> simp [addAll, sumAt, h]
  | cons t ts ih =>
    rw [addAll_cons, ih, get?_addTo]
    by_cases h : t.1 = k
    · simp [h, sumAt]
    · have hb : (t.1 == k) = false := by simpa using h
      simp only [h, if_false, sumAt, List.any_cons, hb, Bool.false_or, List.filter_cons, Bool.false_eq_true]

/-- the count the parse result holds at key `k`: present iff some token has exactly that key, and then the sum of
the counts of those tokens -/
theorem get?_addAll_nil (ts : List Tok) (k : Str) :
    (addAll [] ts).get? k = if ts.any (fun t => t.1 == k) then some (sumAt k ts Num.zero) else none := by
  have := get?_addAll [] ts k
  simpa only [get?_nil, Option.isSome_none, Bool.false_or, Option.getD_none] using this

/-! ## masses -/

/-- the mass the table gives for a key (0 where `chem_mass` raises) -/
def em (T : MassTable) (mono : Bool) (k : Str) : Rat :=
  match elemMass T mono k with
  | .ok m => m
  | .error _ => 0

def Known (T : MassTable) (mono : Bool) (k : Str) : Prop := ∃ m, elemMass T mono k = .ok m

def msum (T : MassTable) (mono : Bool) : Comp → Rat
  | [] => 0
  | kv :: r => em T mono kv.1 * kv.2.val + msum T mono r

/-- decidable form of `Known` (for concrete tables) -/
def knownB (T : MassTable) (mono : Bool) (k : Str) : Bool :=
  match elemMass T mono k with
  | .ok _ => true
  | .error _ => false

theorem known_of_all {T : MassTable} {mono : Bool} {c : Comp}
    (h : c.all (fun kv => knownB T mono kv.1) = true) : ∀ kv ∈ c, ∃ m, elemMass T mono kv.1 = .ok m := by
  intro kv hkv
  have := List.all_eq_true.1 h kv hkv
  unfold knownB at this
  split at this
  · next m hm => exact ⟨m, hm⟩
  · cases this

/-- `chem_mass` knows every symbol of the table and the three particles, provided every non-isotope row has an average
mass (a linear check on the table) -/
theorem known_of_table {T : MassTable} (mono : Bool) {k : Str}
    (hall : T.elems.all (fun e => isIsoKey e.sym || e.avg.isSome) = true)
    (hk : k ∈ T.elems.map (·.sym) ∨ k = [101] ∨ k = [112] ∨ k = [110]) : Known T mono k := by
  unfold Known elemMass findElem
  cases hf : T.elems.find? (fun e => e.sym == k) with
  | none =>
    rcases hk with hk | hk | hk | hk
    · obtain ⟨e, he, rfl⟩ := List.mem_map.1 hk
      have := List.find?_eq_none.1 hf e he
      simp at this
    · subst hk; exact ⟨_, rfl⟩
    · subst hk; exact ⟨_, rfl⟩
    · subst hk; exact ⟨_, rfl⟩
  | some e =>
    have he : e ∈ T.elems := List.mem_of_find?_eq_some hf
    have hs : e.sym = k := by simpa using List.find?_some hf
    have h1 := List.all_eq_true.1 hall e he
    rw [hs] at h1
    simp only [Bool.or_eq_true] at h1
    by_cases hm : (mono || isIsoKey k) = true
    · exact ⟨e.iso.toRat, by simp only [hm, if_true]⟩
    · have hi : isIsoKey k = false := by
        cases h : isIsoKey k
        · rfl
        · simp [h] at hm
      have ha : e.avg.isSome = true := by
        rcases h1 with h1 | h1
        · rw [hi] at h1; cases h1
        · exact h1
      obtain ⟨a, ha'⟩ := Option.isSome_iff_exists.1 ha
      exact ⟨a.toRat, by simp only [hm, Bool.false_eq_true, if_false, ha']⟩

theorem chemMassComp_known {T : MassTable} {mono : Bool} {c : Comp} (h : ∀ kv ∈ c, Known T mono kv.1) :
    chemMassComp T mono c = .ok (msum T mono c) := by
  induction c with
  | nil => rfl
  | cons a c ih =>
    obtain ⟨k, v⟩ := a
    obtain ⟨m, hm⟩ := h (k, v) (by simp)
    simp [chemMassComp, msum, em, hm, ih (fun kv hkv => h kv (by simp [hkv]))]

theorem msum_dropZeros (T : MassTable) (mono : Bool) (c : Comp) : msum T mono (dropZeros c) = msum T mono c := by
  induction c with
  | nil => rfl
  | cons a c ih =>
    by_cases hz : a.2.isZero = true
    · have h0 : a.2.val = 0 := by simpa [Num.isZero] using hz
      simp [dropZeros, hz, msum, h0]
      exact ih
    · simp only [Bool.not_eq_true] at hz
      simp only [dropZeros, List.filter_cons, hz, Bool.not_false, if_true, msum]
      rw [← ih]; rfl

theorem msum_insertBy (T : MassTable) (mono : Bool) (key : Str × Num → Nat) (x : Str × Num) (l : Comp) :
    msum T mono (insertBy key x l) = em T mono x.1 * x.2.val + msum T mono l := by
  induction l with
  | nil => rfl
  | cons y l ih =>
    by_cases h : key x < key y
    · simp [insertBy, h, msum]
    · simp only [insertBy, h, if_false, msum, ih]
      rw [← Rat.add_assoc, ← Rat.add_assoc, Rat.add_comm (em T mono y.1 * y.2.val)]

theorem msum_foldl_insertBy (T : MassTable) (mono : Bool) (key : Str × Num → Nat) (l acc : Comp) :
    msum T mono (l.foldl (fun acc x => insertBy key x acc) acc) = msum T mono l + msum T mono acc := by
  induction l generalizing acc with
  | nil => simp [msum]
  | cons x l ih =>
    simp only [List.foldl_cons, ih, msum_insertBy, msum]
    rw [Rat.add_comm (em T mono x.1 * x.2.val) (msum T mono l), Rat.add_assoc]

theorem msum_hillSort (T : MassTable) (mono : Bool) (elems : List Elem) (hill : Bool) (c : Comp) :
    msum T mono (hillSort elems hill c) = msum T mono c := by
  unfold hillSort
  split
  · simp [sortBy, msum_foldl_insertBy, msum]
  · rfl

theorem chemMassStr_write {T : MassTable} {mono : Bool} {c : Comp} (elems : List Elem) (hill : Bool)
    (h : WFComp c) (hk : ∀ kv ∈ c, Known T mono kv.1) :
    chemMassStr T mono (writeChem elems c [] hill) [] = chemMassComp T mono c := by
  have hk' : ∀ kv ∈ dropZeros (hillSort elems hill c), Known T mono kv.1 := by
    intro kv hkv
    exact hk kv ((hillSort_perm elems hill c).mem_iff.1 (List.mem_filter.1 hkv).1)
  simp only [chemMassStr, parseChem_write elems hill h, chemMassComp_known hk', chemMassComp_known hk,
    msum_dropZeros, msum_hillSort]

/-! ## the separated form -/

theorem splitOnAux_run (x : Nat) (s acc rest : Str) (h : ∀ c ∈ s, c ≠ x) :
    splitOnAux [x] 0 acc (s ++ rest) = splitOnAux [x] 0 (s.reverse ++ acc) rest := by
  induction s generalizing acc with
  | nil => rfl
  | cons c s ih =>
    have hc : (x == c) = false := by simpa using fun e : x = c => h c (by simp) e.symm
    have := ih (c :: acc) (fun y hy => h y (by simp [hy]))
    simp only [List.cons_append, splitOnAux, List.isPrefixOf, hc, Bool.false_and, Bool.false_eq_true,
      if_false, this]
    simp

theorem splitOnAux_sep (x : Nat) (acc rest : Str) :
    splitOnAux [x] 0 acc (x :: rest) = acc.reverse :: splitOnAux [x] 0 [] rest := by
  simp [splitOnAux, List.isPrefixOf]

theorem splitOn_piece (x : Nat) (s rest : Str) (h : ∀ c ∈ s, c ≠ x) :
    splitOnAux [x] 0 [] (s ++ x :: rest) = s :: splitOnAux [x] 0 [] rest := by
  rw [splitOnAux_run x s [] _ h, splitOnAux_sep]; simp

theorem splitOn_last (x : Nat) (s : Str) (h : ∀ c ∈ s, c ≠ x) : splitOnAux [x] 0 [] s = [s] := by
  have := splitOnAux_run x s [] [] h
  simp only [List.append_nil] at this
  rw [this]; simp [splitOnAux]

/-- no character of the key or of the printed count is the separator -/
def SepFree (x : Nat) (t : Tok) : Prop := (∀ c ∈ t.1, c ≠ x) ∧ (∀ c ∈ t.2.show, c ≠ x)

theorem splitOn_write (x : Nat) (t : Tok) (l : Comp) (h : ∀ kv ∈ t :: l, SepFree x kv) :
    splitOn [x] (intercalate [x] ((t :: l).map (fun kv => kv.1 ++ [x] ++ kv.2.show))) =
      (t :: l).flatMap (fun kv => [kv.1, kv.2.show]) := by
  induction l generalizing t with
  | nil =>
    have ht := h t (by simp)
    simp only [List.map_cons, List.map_nil, intercalate, splitOn, List.append_assoc, List.singleton_append,
      splitOn_piece x _ _ ht.1, splitOn_last x _ ht.2]
    simp
  | cons t' l ih =>
    have ht := h t (by simp)
    have := ih t' (fun kv hkv => h kv (by simp at hkv ⊢; exact .inr hkv))
    simp only [splitOn, List.map_cons] at this ⊢
    have e : ∀ (a b : Str) (r : List Str), intercalate [x] ((t.1 ++ [x] ++ t.2.show) :: b :: r) =
        t.1 ++ x :: (t.2.show ++ x :: intercalate [x] (b :: r)) := by
      intro a b r
      show (t.1 ++ [x] ++ t.2.show) ++ [x] ++ _ = _
      simp
    rw [e [], splitOn_piece x _ _ ht.1, splitOn_piece x _ _ ht.2, this]
    simp

theorem get?_none_of_not_mem {d : Comp} {k : Str} (h : k ∉ keys d) : d.get? k = none := by
  induction d with
  | nil => rfl
  | cons a d ih =>
    simp only [keys, List.map_cons, List.mem_cons, not_or] at h
    have h1 : ¬ a.1 = k := fun e => h.1 e.symm
    have := ih h.2
    simp only [Comp.get?] at this ⊢
    simp [h1, this]

theorem setTo_new {d : Comp} {k : Str} (h : k ∉ keys d) (v : Num) : setTo d k v = d ++ [(k, v)] := by
  induction d with
  | nil => simp [setTo]
  | cons a d ih =>
    simp only [keys, List.map_cons, List.mem_cons, not_or] at h
    have h1 : ¬ a.1 = k := fun e => h.1 e.symm
    simp [setTo, h1, ih h.2]

theorem splitFold_write {d l : Comp} (hn : ∀ kv ∈ l, NumOK kv.2) (hl : (keys l).Nodup)
    (hd : ∀ k ∈ keys l, k ∉ keys d) :
    splitFold (l.flatMap (fun kv => [kv.1, kv.2.show])) d = .ok (d ++ l) := by
  induction l generalizing d with
  | nil => simp [splitFold]
  | cons t l ih =>
    simp only [keys, List.map_cons, List.nodup_cons] at hl
    have hv := hn t (by simp)
    have hk : t.1 ∉ keys d := hd t.1 (by simp [keys])
    simp only [List.flatMap_cons, List.cons_append, List.nil_append, splitFold, hv.isNum, if_true, hv.conv,
      get?_none_of_not_mem hk, setTo_new hk]
    rw [ih (fun kv hkv => hn kv (by simp [hkv])) hl.2]
    · simp
    · intro k hk1 hk'
      simp only [keys, List.map_append, List.map_cons, List.map_nil, List.mem_append, List.mem_singleton] at hk'
      rcases hk' with hk' | rfl
      · exact hd k (by simp [keys] at hk1 ⊢; exact .inr hk1) hk'
      · exact hl.1 hk1

theorem wfTok_sepFree {x : Nat} (hx : x = 32 ∨ x = 124) {t : Tok} (h : WFTok t) : SepFree x t := by
  have hcc : ∀ c, (isDigit c || c == 45 || c == 46) = true → c ≠ x := by
    intro c hc
    simp [isDigit] at hc
    omega
  have hal : ∀ c, (isAlpha c || isDigit c) = true → c ≠ x := by
    intro c hc
    simp [isAlpha, isUpper, isLower, isDigit] at hc
    omega
  refine ⟨?_, fun c hc => hcc c (h.2.chars c hc)⟩
  intro c hc
  rcases h.1 with hp | hi
  · exact hal c (by simp [plainKey_alpha hp c hc])
  · exact hal c (isoKey_alnum hi c hc)

theorem parseChem_write_sep {c : Comp} (elems : List Elem) (hill : Bool) {sep : Str}
    (hs : sep = [32] ∨ sep = [124]) (h : WFComp c) (hne : dropZeros c ≠ []) :
    parseChem (writeChem elems c sep hill) sep = .ok (dropZeros (hillSort elems hill c)) := by
  have hw : WFComp (dropZeros (hillSort elems hill c)) := (h.perm (hillSort_perm elems hill c)).dropZeros
  obtain ⟨x, rfl, hx⟩ : ∃ x, sep = [x] ∧ (x = 32 ∨ x = 124) := by
    rcases hs with rfl | rfl
    · exact ⟨32, rfl, .inl rfl⟩
    · exact ⟨124, rfl, .inr rfl⟩
  have hperm : (dropZeros (hillSort elems hill c)).Perm (dropZeros c) :=
    (hillSort_perm elems hill c).filter _
  rw [writeChem_sep elems c [x] hill (by simp)]
  cases hl : dropZeros (hillSort elems hill c) with
  | nil =>
    rw [hl] at hperm
    exact absurd hperm.symm.eq_nil hne
  | cons t l =>
    rw [hl] at hw
    have hsf : ∀ kv ∈ t :: l, SepFree x kv := fun kv hkv => wfTok_sepFree hx (hw.2 kv hkv)
    have hb : ([x] != ([] : Str)) = true := by simp
    simp only [parseChem, hb, if_true, splitOn_write x t l hsf]
    rw [splitFold_write (fun kv hkv => (hw.2 kv hkv).2) hw.1 (by simp [keys])]
    rfl

/-! ## additivity for arbitrary formula strings -/

theorem spanP_append' (p : Nat → Bool) (x f : Str) (hf : ∀ c r, f = c :: r → p c = false) :
    spanP p (x ++ f) = ((spanP p x).1, (spanP p x).2 ++ f) := by
  induction x with
  | nil =>
    cases f with
    | nil => rfl
    | cons c r => simp [spanP, hf c r rfl]
  | cons a x ih =>
    by_cases h : p a = true
    · simp [spanP, h, ih]
    · simp [spanP, h]

theorem spanP_fst_length_le (p : Nat → Bool) (x : Str) : (spanP p x).1.length ≤ x.length := by
  have := congrArg List.length (spanP_spec p x).1
  simp only [List.length_append] at this
  omega

/-- the `\.?` step of the count pattern -/
def dotStep (s2 : Str) : Str × Str :=
  match s2 with
  | 46 :: t => ([46], t)
  | t => ([], t)

/-- `\d*\.?\d*` -/
def cs2 (s1 : Str) : Str :=
  (spanP isDigit s1).1 ++ (dotStep (spanP isDigit s1).2).1 ++ (spanP isDigit (dotStep (spanP isDigit s1).2).2).1

theorem countStr_minus (t : Str) : countStr (45 :: t) = 45 :: cs2 t := rfl
theorem dotStep_dot (t : Str) : dotStep (46 :: t) = ([46], t) := rfl
theorem dotStep_other (s : Str) (h : ∀ t, s ≠ 46 :: t) : dotStep s = ([], s) := by
  unfold dotStep
  split
  · next t => exact absurd rfl (h t)
  · rfl

theorem countStr_other (s : Str) (h : ∀ t, s ≠ 45 :: t) : countStr s = cs2 s := by
  unfold countStr
  split
  next m s1 heq =>
    split at heq
    · next t => exact absurd rfl (h t)
    · simp only [Prod.mk.injEq] at heq
      obtain ⟨rfl, rfl⟩ := heq
      rfl

theorem spanP_head_false (p : Nat → Bool) (f : Str) (hf : ∀ c r, f = c :: r → p c = false) :
    (spanP p f).1 = [] := by
  cases f with
  | nil => rfl
  | cons c r => simp [spanP, hf c r rfl]

theorem cs2_append (x f : Str) (hf : ∀ c r, f = c :: r → (isDigit c || c == 46) = false) :
    cs2 (x ++ f) = cs2 x := by
  have hd : ∀ c r, f = c :: r → isDigit c = false := by
    intro c r h; have := hf c r h; simp at this; simp [this.1]
  have h46 : ∀ t, f ≠ 46 :: t := by
    intro t h; have := hf 46 t h; simp at this
  unfold cs2
  rw [spanP_append' isDigit x f hd]
  simp only []
  cases h2 : (spanP isDigit x).2 with
  | nil =>
    rw [List.nil_append, dotStep_other f h46, dotStep_other [] (by simp)]
    simp [spanP_head_false isDigit f hd, spanP]
  | cons a t =>
    by_cases ha : a = 46
    · subst ha
      simp only [List.cons_append, dotStep_dot, spanP_append' isDigit t f hd]
    · rw [dotStep_other (a :: t) (by intro t' h; simp at h; exact ha h.1),
        dotStep_other (a :: t ++ f) (by intro t' h; simp at h; exact ha h.1)]
      simp only []
      rw [spanP_append' isDigit (a :: t) f hd]

theorem countStr_append (x f : Str) (hf : ∀ c r, f = c :: r → (isDigit c || c == 45 || c == 46) = false) :
    countStr (x ++ f) = countStr x := by
  have hf' : ∀ c r, f = c :: r → (isDigit c || c == 46) = false := by
    intro c r h; have := hf c r h; simp at this ⊢; exact ⟨this.1.1, this.2⟩
  cases x with
  | nil =>
    have h1 : ∀ t, f ≠ 45 :: t := by
      intro t h; have := hf 45 t h; simp at this
    rw [List.nil_append, countStr_other f h1, countStr_other [] (by simp)]
    simpa using cs2_append [] f hf'
  | cons a t =>
    by_cases ha : a = 45
    · subst ha
      rw [List.cons_append, countStr_minus, countStr_minus, cs2_append t f hf']
    · have h1 : ∀ t', a :: t ≠ 45 :: t' := by intro t' h; simp at h; exact ha h.1
      have h2 : ∀ t', a :: (t ++ f) ≠ 45 :: t' := by intro t' h; simp at h; exact ha h.1
      rw [List.cons_append, countStr_other _ h2, countStr_other _ h1]
      exact cs2_append (a :: t) f hf'

theorem cs2_length_le (x : Str) : (cs2 x).length ≤ x.length := by
  unfold cs2
  have h1 := congrArg List.length (spanP_spec isDigit x).1
  simp only [List.length_append] at h1 ⊢
  cases h2 : (spanP isDigit x).2 with
  | nil => simp [dotStep, spanP]; omega
  | cons a t =>
    rw [h2] at h1
    have h3 := spanP_fst_length_le isDigit t
    have h4 := spanP_fst_length_le isDigit (a :: t)
    by_cases ha : a = 46
    · subst ha
      simp only [dotStep_dot, List.length_cons, List.length_nil] at h1 ⊢
      omega
    · rw [dotStep_other (a :: t) (by intro t' h; simp at h; exact ha h.1)]
      simp only [List.length_cons, List.length_nil] at h1 h4 ⊢
      omega

theorem countStr_length_le (x : Str) : (countStr x).length ≤ x.length := by
  cases x with
  | nil => simp [countStr, spanP]
  | cons a t =>
    by_cases ha : a = 45
    · subst ha
      rw [countStr_minus]
      have := cs2_length_le t
      simp; omega
    · rw [countStr_other _ (by intro t' h; simp at h; exact ha h.1)]
      exact cs2_length_le _

/-- the tokenizer does not look across a boundary that is followed by an upper-case letter -/
theorem finditer_append (f : Str) (hf : ∀ c r, f = c :: r → isUpper c = true) :
    ∀ (a : Str) (n : Nat), n ≤ a.length →
      finditerCondensed n (a ++ f) = finditerCondensed n a ++ finditerCondensed 0 f := by
  have hlow : ∀ c r, f = c :: r → isLower c = false := by
    intro c r h; have := hf c r h; simp [isUpper, isLower] at this ⊢; omega
  have hcc : ∀ c r, f = c :: r → (isDigit c || c == 45 || c == 46) = false := by
    intro c r h; have := hf c r h; simp [isUpper, isDigit] at this ⊢; omega
  intro a
  induction a with
  | nil => intro n hn; simp at hn; subst hn; simp [finditerCondensed]
  | cons c r ih =>
    intro n hn
    cases n with
    | succ k =>
      simp only [List.cons_append, finditerCondensed]
      exact ih k (by simpa using hn)
    | zero =>
      have hl := spanP_fst_length_le isLower r
      by_cases hu : isUpper c = true
      · have hdrop : List.drop (spanP isLower r).1.length (r ++ f) = List.drop (spanP isLower r).1.length r ++ f := by
          rw [List.drop_append_of_le_length hl]
        have hc2 := countStr_length_le (List.drop (spanP isLower r).1.length r)
        simp only [List.length_drop] at hc2
        simp only [List.cons_append, finditerCondensed, hu, if_true, spanP_append' isLower r f hlow, hdrop,
          countStr_append _ f hcc]
        rw [ih _ (by omega)]
      · by_cases hp : (c == 101 || c == 112 || c == 110) = true
        · have hc2 := countStr_length_le r
          simp only [List.cons_append, finditerCondensed, hu, hp, if_true, Bool.false_eq_true, if_false,
            countStr_append _ f hcc]
          rw [ih _ hc2]
        · simp only [List.cons_append, finditerCondensed, hu, hp, Bool.false_eq_true, if_false]
          exact ih 0 (by omega)

theorem spanP_snd_head (p : Nat → Bool) (s : Str) : ∀ c r, (spanP p s).2 = c :: r → p c = false := by
  induction s with
  | nil => intro c r h; simp [spanP] at h
  | cons a s ih =>
    intro c r h
    by_cases ha : p a = true
    · simp only [spanP, ha, if_true] at h
      exact ih c r h
    · simp only [spanP, ha, Bool.false_eq_true, if_false] at h
      simp at h
      rw [← h.1]; simpa using ha

theorem condensedFold_append (a b : List (Str × Str)) (d : Comp) (n : Nat) :
    condensedFold (a ++ b) d n =
      match condensedFold a d n with
      | none => none
      | some (d', n') => condensedFold b d' n' := by
  induction a generalizing d n with
  | nil => rfl
  | cons x a ih =>
    obtain ⟨el, cnt⟩ := x
    simp only [List.cons_append, condensedFold]
    cases countOf cnt with
    | none => rfl
    | some v => exact ih _ _

theorem condensedFold_shift (ms : List (Str × Str)) (d : Comp) (n : Nat) :
    condensedFold ms d n = (condensedFold ms [] 0).map (fun p => (addAll d p.1, n + p.2)) := by
  induction ms generalizing d n with
  | nil => simp [condensedFold, addAll]
  | cons x ms ih =>
    obtain ⟨el, cnt⟩ := x
    simp only [condensedFold]
    cases countOf cnt with
    | none => rfl
    | some v =>
      simp only []
      rw [ih (addTo d el v), ih (addTo [] el v)]
      cases condensedFold ms [] 0 with
      | none => rfl
      | some p =>
        simp only [Option.map_some, Option.some.injEq, Prod.mk.injEq]
        refine ⟨?_, by omega⟩
        rw [addAll_assoc]
        show _ = addAll (addAll d [(el, Num.add Num.zero v)]) p.1
        simp [addAll, Num.zero_add]

theorem parseCondensed_ok {s : Str} {d : Comp} (hs : s ≠ []) :
    parseCondensed s = .ok d ↔
      ((finditerCondensed 0 s).isEmpty = false ∧ condensedFold (finditerCondensed 0 s) [] 0 = some (d, s.length)) := by
  have hs' : s.isEmpty = false := by simpa using hs
  unfold parseCondensed
  simp only [hs', Bool.false_eq_true, if_false]
  cases hm : (finditerCondensed 0 s).isEmpty with
  | true => simp
  | false =>
    simp only [Bool.false_eq_true, if_false, true_and]
    cases hc : condensedFold (finditerCondensed 0 s) [] 0 with
    | none => simp
    | some p =>
      obtain ⟨d', n⟩ := p
      by_cases hn : n = s.length
      · subst hn; simp
      · simp [hn]

theorem parseCondensed_append {l f : Str} {dl df : Comp} (hl : parseCondensed l = .ok dl)
    (hf : parseCondensed f = .ok df) (hln : l ≠ []) (hfu : ∀ c r, f = c :: r → isUpper c = true)
    (hfn : f ≠ []) : parseCondensed (l ++ f) = .ok (addAll dl df) := by
  obtain ⟨hl1, hl2⟩ := (parseCondensed_ok hln).1 hl
  obtain ⟨hf1, hf2⟩ := (parseCondensed_ok hfn).1 hf
  have hne : l ++ f ≠ [] := by simp [hln]
  rw [parseCondensed_ok hne, finditer_append f hfu l 0 (by omega)]
  refine ⟨?_, ?_⟩
  · cases h : finditerCondensed 0 l with
    | nil => rw [h] at hl1; simp at hl1
    | cons a as => simp
  · rw [condensedFold_append, hl2]
    simp only []
    rw [condensedFold_shift, hf2]
    simp

theorem parseComponent_run_eq (s : Str) (h : ∀ r, s ≠ 91 :: r) : parseComponent s = parseCondensed s := by
  unfold parseComponent
  split
  · next r => exact absurd rfl (h r)
  · rfl

/-- components → composition (the second half of `parse_chem_formula`) -/
def parseComps (L : List Str) : Except Err Comp :=
  match parseComponents L with
  | .error e => .error e
  | .ok ds => .ok (ds.foldl addAll [])

theorem parseChem_eq (s : Str) :
    parseChem s [] = match splitChem false [] s with
      | .error e => .error e
      | .ok L => parseComps L := by
  unfold parseChem parseComps
  simp only [bne_self_eq_false, Bool.false_eq_true, if_false]
  cases splitChem false [] s <;> rfl

/-- sequential composition of two parses, adding the dicts -/
def bind2 (x y : Except Err Comp) : Except Err Comp :=
  match x with
  | .error e => .error e
  | .ok a => match y with
    | .error e => .error e
    | .ok b => .ok (addAll a b)

theorem foldl_addAll_base (Y : List Comp) (d : Comp) : Y.foldl addAll d = addAll d (Y.foldl addAll []) := by
  induction Y generalizing d with
  | nil => rfl
  | cons y Y ih =>
    simp only [List.foldl_cons]
    rw [ih (addAll d y), ih (addAll [] y), addAll_assoc, addAll_addAll_nil]

theorem parseComponents_append (X Y : List Str) :
    parseComponents (X ++ Y) =
      match parseComponents X with
      | .error e => .error e
      | .ok dx => match parseComponents Y with
        | .error e => .error e
        | .ok dy => .ok (dx ++ dy) := by
  induction X with
  | nil => cases h : parseComponents Y <;> simp [parseComponents, h]
  | cons x X ih =>
    simp only [List.cons_append, parseComponents, ih]
    cases parseComponent x with
    | error e => rfl
    | ok d =>
      cases parseComponents X with
      | error e => rfl
      | ok dx =>
        cases parseComponents Y with
        | error e => rfl
        | ok dy => rfl

theorem parseComps_append (X Y : List Str) : parseComps (X ++ Y) = bind2 (parseComps X) (parseComps Y) := by
  unfold parseComps bind2
  rw [parseComponents_append]
  cases parseComponents X with
  | error e => rfl
  | ok dx =>
    cases parseComponents Y with
    | error e => rfl
    | ok dy =>
      simp only [List.foldl_append]
      rw [foldl_addAll_base]

theorem bind2_assoc (x y z : Except Err Comp) : bind2 (bind2 x y) z = bind2 x (bind2 y z) := by
  cases x <;> cases y <;> cases z <;> simp [bind2, addAll_assoc]

theorem parseComps_single (l : Str) :
    parseComps [l] = match parseComponent l with
      | .error e => .error e
      | .ok d => .ok (addAll [] d) := by
  unfold parseComps
  simp only [parseComponents]
  cases parseComponent l <;> rfl

theorem parseComps_glue {l f : Str} (hl : ∃ d, parseComps [l] = .ok d) (hf : ∃ d, parseComps [f] = .ok d)
    (hln : l ≠ []) (hl91 : ∀ r, l ≠ 91 :: r) (hfu : ∀ c r, f = c :: r → isUpper c = true) (hfn : f ≠ []) :
    parseComps [l ++ f] = bind2 (parseComps [l]) (parseComps [f]) := by
  have hf91 : ∀ r, f ≠ 91 :: r := by
    intro r h; have := hfu 91 r h; simp [isUpper] at this
  have hlf91 : ∀ r, l ++ f ≠ 91 :: r := by
    intro r h
    cases l with
    | nil => exact hln rfl
    | cons a t => simp at h; exact hl91 t (by rw [h.1])
  obtain ⟨d1, h1⟩ := hl
  obtain ⟨d2, h2⟩ := hf
  rw [parseComps_single, parseComponent_run_eq _ hl91] at h1
  rw [parseComps_single, parseComponent_run_eq _ hf91] at h2
  rw [parseComps_single, parseComps_single, parseComps_single, parseComponent_run_eq _ hl91,
    parseComponent_run_eq _ hf91, parseComponent_run_eq _ hlf91]
  cases hc1 : parseCondensed l with
  | error e => rw [hc1] at h1; cases h1
  | ok dl =>
    cases hc2 : parseCondensed f with
    | error e => rw [hc2] at h2; cases h2
    | ok df =>
      rw [parseCondensed_append hc1 hc2 hln hfu hfn]
      simp only [bind2]
      rw [← addAll_assoc, addAll_addAll_nil]

theorem splitChem_split (s₁ : Str) : ∀ (b : Bool) (acc : Str) (L₁ : List Str),
    splitChem b acc s₁ = .ok L₁ → (b = true ∨ ∀ x ∈ acc, x ≠ 91) →
    ∃ (L : List Str) (acc' : Str), L₁ = L ++ (if acc'.isEmpty then [] else [acc'.reverse]) ∧
      (∀ x ∈ acc', x ≠ 91) ∧
      ∀ s₂, splitChem b acc (s₁ ++ s₂) =
        match splitChem false acc' s₂ with
        | .ok M => .ok (L ++ M)
        | .error e => .error e := by
  induction s₁ with
  | nil =>
    intro b acc L₁ h hacc
    cases b with
    | true => simp [splitChem] at h
    | false =>
      simp only [splitChem, Except.ok.injEq] at h
      refine ⟨[], acc, by simpa using h.symm, ?_, ?_⟩
      · rcases hacc with h' | h'
        · cases h'
        · exact h'
      · intro s₂
        simp only [List.nil_append]
        cases splitChem false acc s₂ <;> simp
  | cons c r ih =>
    intro b acc L₁ h hacc
    cases b with
    | false =>
      have hacc' : ∀ x ∈ acc, x ≠ 91 := by
        rcases hacc with h' | h'
        · cases h'
        · exact h'
      by_cases h91 : c = 91
      · subst h91
        simp only [splitChem, beq_self_eq_true, if_true] at h
        cases hr : splitChem true [91] r with
        | error e => rw [hr] at h; cases h
        | ok L' =>
          rw [hr] at h
          simp only [Except.ok.injEq] at h
          obtain ⟨L, acc', hL, ha, hs⟩ := ih true [91] L' hr (.inl rfl)
          refine ⟨(if acc.isEmpty then L else acc.reverse :: L), acc', ?_, ha, ?_⟩
          · rw [← h, hL]; split <;> simp
          · intro s₂
            simp only [List.cons_append, splitChem, beq_self_eq_true, if_true, hs s₂]
            cases splitChem false acc' s₂ with
            | error e => rfl
            | ok M => simp only []; split <;> simp
      · by_cases h93 : c = 93
        · subst h93
          simp [splitChem] at h
        · simp only [splitChem, beq_iff_eq, h91, h93, if_false] at h
          obtain ⟨L, acc', hL, ha, hs⟩ := ih false (c :: acc) L₁ h
            (.inr (by intro x hx; simp at hx; rcases hx with rfl | hx; exact h91; exact hacc' x hx))
          refine ⟨L, acc', hL, ha, ?_⟩
          intro s₂
          simp only [List.cons_append, splitChem, beq_iff_eq, h91, h93, if_false, hs s₂]
    | true =>
      by_cases h93 : c = 93
      · subst h93
        simp only [splitChem, beq_self_eq_true, if_true] at h
        cases hr : splitChem false [] r with
        | error e => rw [hr] at h; cases h
        | ok L' =>
          rw [hr] at h
          simp only [Except.ok.injEq] at h
          obtain ⟨L, acc', hL, ha, hs⟩ := ih false [] L' hr (.inr (by simp))
          refine ⟨(93 :: acc).reverse :: L, acc', ?_, ha, ?_⟩
          · rw [← h, hL]; simp
          · intro s₂
            simp only [List.cons_append, splitChem, beq_self_eq_true, if_true, hs s₂]
            cases splitChem false acc' s₂ with
            | error e => rfl
            | ok M => simp
      · simp only [splitChem, beq_iff_eq, h93, if_false] at h
        obtain ⟨L, acc', hL, ha, hs⟩ := ih true (c :: acc) L₁ h (.inl rfl)
        refine ⟨L, acc', hL, ha, ?_⟩
        intro s₂
        simp only [List.cons_append, splitChem, beq_iff_eq, h93, if_false, hs s₂]

theorem splitChem_head_run {s₂ : Str} {c : Nat} {r : Str} (hs : s₂ = c :: r) (hc : c ≠ 91 ∧ c ≠ 93)
    {L₂ : List Str} (h : splitChem false [] s₂ = .ok L₂) :
    ∃ f M, L₂ = f :: M ∧ (∃ r', f = c :: r') ∧ ∀ acc, splitChem false acc s₂ = .ok ((acc.reverse ++ f) :: M) := by
  let p : Nat → Bool := fun x => x != 91 && x != 93
  have hsp := spanP_spec p s₂
  have hhd := spanP_snd_head p s₂
  have hpc : p c = true := by simp [p, hc.1, hc.2]
  obtain ⟨r', hf⟩ : ∃ r', (spanP p s₂).1 = c :: r' := by
    rw [hs]; simp [spanP, hpc]
  have hfree : ∀ x ∈ (spanP p s₂).1, x ≠ 91 ∧ x ≠ 93 := by
    intro x hx; have := hsp.2 x hx; simpa [p] using this
  have hrun : ∀ acc, splitChem false acc s₂ = splitChem false ((spanP p s₂).1.reverse ++ acc) (spanP p s₂).2 := by
    intro acc
    conv => lhs; rw [hsp.1]
    exact splitChem_run _ _ _ hfree
  have hne : ∀ acc, ((spanP p s₂).1.reverse ++ acc).isEmpty = false := by
    intro acc; rw [hf]; simp
  cases hrest : (spanP p s₂).2 with
  | nil =>
    refine ⟨(spanP p s₂).1, [], ?_, ⟨r', hf⟩, ?_⟩
    · have := hrun []
      rw [hrest] at this
      rw [this] at h
      simp only [splitChem, hne [], Bool.false_eq_true, if_false, Except.ok.injEq] at h
      rw [← h]; simp
    · intro acc
      rw [hrun acc, hrest]
      simp only [splitChem, hne acc, Bool.false_eq_true, if_false]
      simp
  | cons x rest =>
    have hx : p x = false := hhd x rest hrest
    have hx' : x = 91 ∨ x = 93 := by
      simp only [p, Bool.and_eq_false_iff, bne_eq_false_iff_eq] at hx
      exact hx
    have h0 := hrun []
    rw [hrest] at h0
    rw [h0] at h
    rcases hx' with rfl | rfl
    · simp only [splitChem, beq_self_eq_true, if_true] at h
      cases hr : splitChem true [91] rest with
      | error e => rw [hr] at h; cases h
      | ok M =>
        rw [hr] at h
        simp only [hne [], Bool.false_eq_true, if_false, Except.ok.injEq] at h
        refine ⟨(spanP p s₂).1, M, ?_, ⟨r', hf⟩, ?_⟩
        · rw [← h]; simp
        · intro acc
          rw [hrun acc, hrest]
          simp only [splitChem, beq_self_eq_true, if_true, hr, hne acc, Bool.false_eq_true, if_false]
          simp
    · simp [splitChem] at h

/-- **Parsing is additive on arbitrary formula strings**: if both parts parse and the second part starts a new token
(an upper-case letter or a bracket), the composition of the concatenation is the dict sum of the compositions. -/
theorem parseChem_append {s₁ s₂ : Str} {c₁ c₂ : Comp} (h₁ : parseChem s₁ [] = .ok c₁)
    (h₂ : parseChem s₂ [] = .ok c₂) (hb : ∀ c r, s₂ = c :: r → isUpper c = true ∨ c = 91) :
    parseChem (s₁ ++ s₂) [] = .ok (addAll c₁ c₂) := by
  rw [parseChem_eq] at h₁ h₂ ⊢
  cases hL1 : splitChem false [] s₁ with
  | error e => rw [hL1] at h₁; cases h₁
  | ok L₁ =>
  cases hL2 : splitChem false [] s₂ with
  | error e => rw [hL2] at h₂; cases h₂
  | ok L₂ =>
  rw [hL1] at h₁
  rw [hL2] at h₂
  simp only [] at h₁ h₂
  obtain ⟨L, acc', hLeq, hacc, hsplit⟩ := splitChem_split s₁ false [] L₁ hL1 (.inr (by simp))
  rw [hsplit s₂]
  cases s₂ with
  | nil =>
    simp only [splitChem] at hL2 ⊢
    simp only [Except.ok.injEq] at hL2
    subst hL2
    have : c₂ = [] := by simpa [parseComps, parseComponents] using h₂.symm
    subst this
    rw [← hLeq]
    simpa [addAll] using h₁
  | cons c r =>
    rcases hb c r rfl with hu | h91
    · -- the second part starts with an upper-case letter: the runs are glued
      have hc : c ≠ 91 ∧ c ≠ 93 := by simp [isUpper] at hu; omega
      obtain ⟨f, M, hL2eq, ⟨r', hfc⟩, hacc2⟩ := splitChem_head_run rfl hc hL2
      rw [hacc2 acc']
      simp only []
      subst hL2eq
      by_cases he : acc' = []
      · subst he
        simp only [List.isEmpty_nil, if_true, List.append_nil] at hLeq
        subst hLeq
        simp only [List.reverse_nil, List.nil_append]
        rw [parseComps_append, h₁, h₂]; rfl
      · have he' : acc'.isEmpty = false := by simpa using he
        simp only [he', Bool.false_eq_true, if_false] at hLeq
        subst hLeq
        have hln : acc'.reverse ≠ [] := by simpa using he
        have hl91 : ∀ t, acc'.reverse ≠ 91 :: t := by
          intro t ht
          have : (91 : Nat) ∈ acc' := by
            have : (91 : Nat) ∈ acc'.reverse := by rw [ht]; simp
            simpa using this
          exact hacc 91 this rfl
        have hfu : ∀ c' t, f = c' :: t → isUpper c' = true := by
          intro c' t ht; rw [hfc] at ht; simp at ht; rw [← ht.1]; exact hu
        have hfn : f ≠ [] := by rw [hfc]; simp
        rw [parseComps_append] at h₁
        have e2 : f :: M = [f] ++ M := rfl
        rw [e2, parseComps_append] at h₂
        have hl : ∃ d, parseComps [acc'.reverse] = .ok d := by
          cases hx : parseComps L with
          | error e => rw [hx] at h₁; cases h₁
          | ok a =>
            rw [hx] at h₁
            cases hy : parseComps [acc'.reverse] with
            | error e => rw [hy] at h₁; cases h₁
            | ok d => exact ⟨d, rfl⟩
        have hf : ∃ d, parseComps [f] = .ok d := by
          cases hy : parseComps [f] with
          | error e => rw [hy] at h₂; cases h₂
          | ok d => exact ⟨d, rfl⟩
        have e3 : L ++ (acc'.reverse ++ f) :: M = L ++ ([acc'.reverse ++ f] ++ M) := rfl
        rw [e3, parseComps_append, parseComps_append, parseComps_glue hl hf hln hl91 hfu hfn, bind2_assoc,
          ← bind2_assoc, h₁, h₂]
        rfl
    · -- the second part starts with a bracket: the component lists are concatenated
      subst h91
      simp only [splitChem, beq_self_eq_true, if_true] at hL2 ⊢
      cases hr : splitChem true [91] r with
      | error e => rw [hr] at hL2; cases hL2
      | ok M =>
        rw [hr] at hL2
        simp only [List.isEmpty_nil, if_true, Except.ok.injEq] at hL2
        subst hL2
        simp only []
        have : L ++ (if acc'.isEmpty then M else acc'.reverse :: M) = L₁ ++ M := by
          rw [hLeq]; split <;> simp
        rw [this, parseComps_append, h₁, h₂]; rfl

/-! ## mass is additive -/

theorem msum_addTo (T : MassTable) (mono : Bool) (d : Comp) (k : Str) (v : Num) :
    msum T mono (addTo d k v) = msum T mono d + em T mono k * v.val := by
  induction d with
  | nil => simp [addTo, msum, Num.add, Num.zero, Num.ofInt]
  | cons a d ih =>
    by_cases h : a.1 = k
    · simp only [addTo, beq_iff_eq, h, if_true, msum, Num.add]
      ring
    · simp only [addTo, beq_iff_eq, h, if_false, msum, ih]
      ring

theorem msum_addAll (T : MassTable) (mono : Bool) (d : Comp) (ts : List Tok) :
    msum T mono (addAll d ts) = msum T mono d + msum T mono ts := by
  induction ts generalizing d with
  | nil => simp [addAll, msum]
  | cons t ts ih =>
    rw [addAll_cons, ih, msum_addTo]
    simp only [msum]
    ring

theorem mem_keys_addTo {d : Comp} {k k' : Str} {v : Num} (h : k' ∈ keys (addTo d k v)) : k' ∈ keys d ∨ k' = k := by
  induction d with
  | nil => simp [addTo, keys] at h; exact .inr h
  | cons a d ih =>
    by_cases hk : a.1 = k
    · simp only [addTo, beq_iff_eq, hk, if_true, keys, List.map_cons, List.mem_cons] at h ⊢
      rcases h with h | h
      · exact .inr h
      · exact .inl (.inr h)
    · simp only [addTo, beq_iff_eq, hk, if_false, keys, List.map_cons, List.mem_cons] at h ⊢
      rcases h with h | h
      · exact .inl (.inl h)
      · rcases ih h with h | h
        · exact .inl (.inr h)
        · exact .inr h

theorem mem_keys_addAll {d : Comp} {ts : List Tok} {k' : Str} (h : k' ∈ keys (addAll d ts)) :
    k' ∈ keys d ∨ k' ∈ keys ts := by
  induction ts generalizing d with
  | nil => exact .inl h
  | cons t ts ih =>
    rw [addAll_cons] at h
    rcases ih h with h | h
    · rcases mem_keys_addTo h with h | h
      · exact .inl h
      · exact .inr (by simp [keys, h])
    · exact .inr (by simp only [keys, List.map_cons, List.mem_cons] at h ⊢; exact .inr h)

theorem known_of_keys {T : MassTable} {mono : Bool} {c : Comp} (h : ∀ k ∈ keys c, Known T mono k) :
    ∀ kv ∈ c, Known T mono kv.1 := fun kv hkv => h kv.1 (List.mem_map.2 ⟨kv, hkv, rfl⟩)

theorem keys_known {T : MassTable} {mono : Bool} {c : Comp} (h : ∀ kv ∈ c, Known T mono kv.1) :
    ∀ k ∈ keys c, Known T mono k := by
  intro k hk
  obtain ⟨kv, hkv, rfl⟩ := List.mem_map.1 hk
  exact h kv hkv

/-- `chem_mass(dict)` succeeds exactly when every key is known, and then it is the weighted sum -/
theorem chemMassComp_ok {T : MassTable} {mono : Bool} {c : Comp} {m : Rat} (h : chemMassComp T mono c = .ok m) :
    (∀ kv ∈ c, Known T mono kv.1) ∧ m = msum T mono c := by
  induction c generalizing m with
  | nil => simp [chemMassComp] at h; simp [msum, h]
  | cons a c ih =>
    obtain ⟨k, v⟩ := a
    simp only [chemMassComp] at h
    cases he : elemMass T mono k with
    | error e => rw [he] at h; cases h
    | ok mk =>
      rw [he] at h
      cases hc : chemMassComp T mono c with
      | error e => rw [hc] at h; cases h
      | ok t =>
        rw [hc] at h
        simp only [Except.ok.injEq] at h
        obtain ⟨h1, h2⟩ := ih hc
        refine ⟨?_, ?_⟩
        · intro kv hkv
          rcases List.mem_cons.1 hkv with rfl | hkv
          · exact ⟨mk, he⟩
          · exact h1 kv hkv
        · simp [msum, em, he, ← h, h2]

/-- the mass of a dict sum is the sum of the masses -/
theorem chemMassComp_addAll {T : MassTable} {mono : Bool} {c₁ c₂ : Comp} {m₁ m₂ : Rat}
    (h₁ : chemMassComp T mono c₁ = .ok m₁) (h₂ : chemMassComp T mono c₂ = .ok m₂) :
    chemMassComp T mono (addAll c₁ c₂) = .ok (m₁ + m₂) := by
  obtain ⟨k1, e1⟩ := chemMassComp_ok h₁
  obtain ⟨k2, e2⟩ := chemMassComp_ok h₂
  have hk : ∀ kv ∈ addAll c₁ c₂, Known T mono kv.1 := by
    apply known_of_keys
    intro k hk
    rcases mem_keys_addAll hk with hk | hk
    · exact keys_known k1 k hk
    · exact keys_known k2 k hk
  rw [chemMassComp_known hk, msum_addAll, e1, e2]

/-! ## the domain of C15 stated without reference to the printed text

`NumWF v` (a Python int, or a float that is a finite decimal) implies `NumOK v` (`Lemmas/NumText.lean`). -/

/-- token of the property's domain: a key the table / the writer knows how to print, an int or finite-decimal count -/
def DomTok (t : Tok) : Prop := (PlainKey t.1 ∨ IsoKey t.1) ∧ NumWF t.2

/-- composition (Python dict) of the property's domain: distinct keys, every entry a `DomTok` -/
def DomComp (c : Comp) : Prop := (keys c).Nodup ∧ ∀ kv ∈ c, DomTok kv

theorem DomTok.wf {t : Tok} (h : DomTok t) : WFTok t := ⟨h.1, numOK_of_wf _ h.2⟩
theorem DomComp.wf {c : Comp} (h : DomComp c) : WFComp c := ⟨h.1, fun kv hkv => (h.2 kv hkv).wf⟩

theorem numWF_int (i : Int) : NumWF (Num.ofInt i) := by
  refine ⟨fun _ => ?_, fun h => ?_⟩
  · simp [Num.ofInt]
  · simp [Num.ofInt] at h

/-- a float count given as `m / 10^s` -/
theorem numWF_dec (m : Int) (s : Nat) (hs : s ≤ 399) : NumWF ⟨(m : Rat) / ((10 ^ s : Nat) : Rat), true⟩ := by
  refine ⟨fun h => by simp at h, fun _ => ⟨s, hs, ?_⟩⟩
  have h : ((m : Rat) / ((10 ^ s : Nat) : Rat)) = Rat.divInt m ((10 ^ s : Nat) : Int) := by
    rw [Rat.divInt_eq_div]; simp
  rw [h]
  have := Rat.den_dvd m ((10 ^ s : Nat) : Int)
  exact_mod_cast this

/-! ## example data for `Props/C15.lean` -/

/-- `13C`, `C`, `H`, `e`, `D` -/
def k13C : Str := str% "13C"
def kC : Str := str% "C"
def kH : Str := str% "H"
def kE : Str := str% "e"
def kD : Str := str% "D"
def kCe : Str := str% "Ce"
/-- the float `-1.5` -/
def numNeg15 : Num := ⟨((-15 : Int) : Rat) / ((10 ^ 1 : Nat) : Rat), true⟩
/-- tokens with a repeated key: `[13C6]C2H-1.5e-1C3[D2]Ce1` -/
def exToks : List Tok :=
  [(k13C, Num.ofInt 6), (kC, Num.ofInt 2), (kH, numNeg15), (kE, Num.ofInt (-1)), (kC, Num.ofInt 3),
   (kD, Num.ofInt 2), (kCe, Num.ofInt 1)]
/-- a dict with a zero entry -/
def exComp : Comp :=
  [(kH, numNeg15), (k13C, Num.ofInt 6), (kC, Num.ofInt 2), (kCe, Num.ofInt 0), (kE, Num.ofInt (-1)), (kD, Num.ofInt 2)]

theorem exToks_dom : ∀ t ∈ exToks, DomTok t := by
  intro t ht
  simp only [exToks, List.mem_cons, List.not_mem_nil, or_false] at ht
  rcases ht with rfl | rfl | rfl | rfl | rfl | rfl | rfl
  · exact ⟨.inr (by decide), numWF_int 6⟩
  · exact ⟨.inl (by decide), numWF_int 2⟩
  · exact ⟨.inl (by decide), numWF_dec (-15) 1 (by decide)⟩
  · exact ⟨.inl (by decide), numWF_int (-1)⟩
  · exact ⟨.inl (by decide), numWF_int 3⟩
  · exact ⟨.inr (by decide), numWF_int 2⟩
  · exact ⟨.inl (by decide), numWF_int 1⟩

theorem exComp_dom : DomComp exComp := by
  refine ⟨by decide, ?_⟩
  intro t ht
  simp only [exComp, List.mem_cons, List.not_mem_nil, or_false] at ht
  rcases ht with rfl | rfl | rfl | rfl | rfl | rfl
  · exact ⟨.inl (by decide), numWF_dec (-15) 1 (by decide)⟩
  · exact ⟨.inr (by decide), numWF_int 6⟩
  · exact ⟨.inl (by decide), numWF_int 2⟩
  · exact ⟨.inl (by decide), numWF_int 0⟩
  · exact ⟨.inl (by decide), numWF_int (-1)⟩
  · exact ⟨.inr (by decide), numWF_int 2⟩

/-- a toy table for the example (the theorem is for every table) -/
def exTable : MassTable :=
  { elems := [⟨kC, ⟨12, 0⟩, some ⟨12011, 3⟩, some 0⟩, ⟨kH, ⟨1007825, 6⟩, some ⟨1008, 3⟩, some 1⟩,
              ⟨k13C, ⟨13003355, 6⟩, none, none⟩, ⟨kD, ⟨2014102, 6⟩, none, none⟩, ⟨kCe, ⟨139905, 3⟩, some ⟨140116, 3⟩, some 20⟩],
    electron := ⟨548579909, 12⟩, proton := ⟨1007276466, 9⟩, neutron := ⟨1008664915, 9⟩ }


end Formula
