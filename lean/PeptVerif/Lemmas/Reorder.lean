import PeptVerif.Model.Reorder
namespace Pept.Reorder
end Pept.Reorder
