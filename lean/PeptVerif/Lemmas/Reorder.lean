import PeptVerif.Model.Reorder
import PeptVerif.Spec.Reorder
/-! Helper lemmas for Props/C11 and Props/C07 (no Mathlib needed). -/
namespace Pept.Reorder

/-! ### dictionaries -/

/-- look-up through a re-keyed dictionary: if among the keys of `d` exactly `k` is sent to `j` -/
theorem dictGet?_map_key (f : Int → Int) (d : Dict) (j k : Int)
    (h : ∀ p ∈ d, f p.1 = j ↔ p.1 = k) :
    dictGet? (d.map fun p => (f p.1, p.2)) j = dictGet? d k := by
  induction d with
  | nil => rfl
  | cons p t ih =>
    have hp := h p (by simp)
    have ht : ∀ q ∈ t, f q.1 = j ↔ q.1 = k := fun q hq => h q (by simp [hq])
    simp only [List.map_cons, dictGet?]
    by_cases hk : p.1 = k
    · have hfj : f p.1 = j := hp.2 hk
      rw [if_pos hfj, if_pos hk]
    · have : ¬ f p.1 = j := fun hh => hk (hp.1 hh)
      rw [if_neg this, if_neg hk, ih ht]

theorem dictGet?_filterMap_slice (s e : Int) (d : Dict) (j : Int) (h1 : s ≤ j + s) (h2 : j + s < e) :
    dictGet? (d.filterMap (sliceEntry s e)) j = dictGet? d (j + s) := by
  induction d with
  | nil => rfl
  | cons p t ih =>
    simp only [List.filterMap_cons, sliceEntry]
    by_cases hr : s ≤ p.1 ∧ p.1 < e
    · simp only [hr, and_self, if_true, dictGet?]
      by_cases hk : p.1 = j + s
      · have : p.1 - s = j := by omega
        simp [hk]
      · have : ¬ p.1 - s = j := by omega
        simp [hk, this, ih]
    · have hk : ¬ p.1 = j + s := by omega
      simp [hr, dictGet?, hk, ih]

theorem dictSet_append_of_not_mem (acc : Dict) (k : Int) (v : List Mod) (h : ∀ p ∈ acc, p.1 ≠ k) :
    dictSet acc k v = acc ++ [(k, v)] := by
  induction acc with
  | nil => rfl
  | cons p t ih =>
    have hp : p.1 ≠ k := h p (by simp)
    simp [dictSet, hp, ih (fun q hq => h q (by simp [hq]))]

theorem foldl_dictSet_of_nodup (l : List (Int × List Mod)) (acc : Dict)
    (hn : (l.map (·.1)).Nodup) (hd : ∀ p ∈ acc, ∀ q ∈ l, p.1 ≠ q.1) :
    l.foldl (fun d p => dictSet d p.1 p.2) acc = acc ++ l := by
  induction l generalizing acc with
  | nil => simp
  | cons q t ih =>
    simp only [List.foldl_cons]
    rw [dictSet_append_of_not_mem acc q.1 q.2 (fun p hp => hd p hp q (by simp))]
    simp only [List.map_cons, List.nodup_cons] at hn
    rw [ih _ hn.2]
    · simp
    · intro p hp r hr
      simp only [List.mem_append, List.mem_singleton] at hp
      rcases hp with hp | hp
      · exact hd p hp r (by simp [hr])
      · subst hp
        intro heq
        exact hn.1 (by rw [heq]; exact List.mem_map_of_mem hr)

/-- a dict built from pairs with distinct keys is the list of pairs -/
theorem buildDict_of_nodup (l : List (Int × List Mod)) (hn : (l.map (·.1)).Nodup) : buildDict l = l := by
  unfold buildDict
  rw [foldl_dictSet_of_nodup l [] hn (by simp)]
  simp

/-! ### residues -/

theorem residues_getElem? (a : Annotation) (i : Nat) :
    (residues a)[i]? = a.seq[i]?.map fun c => (c, modsAt a i) := by
  unfold residues
  rw [List.getElem?_map, List.getElem?_zipIdx]
  cases a.seq[i]? <;> simp

theorem residues_length (a : Annotation) : (residues a).length = a.seq.length := by
  simp [residues]

theorem pyIndex_nat (n i : Nat) : pyIndex n (i : Int) = min i n := by
  unfold pyIndex
  have : ¬ ((i : Int) < 0) := by omega
  simp [this]

theorem pySlice_nat {α} (l : List α) (s e : Nat) : pySlice l (s : Int) (e : Int) = (l.drop (min s l.length)).take (min e l.length - min s l.length) := by
  simp [pySlice, pyIndex_nat]


theorem hasMods_false_iff (a : Annotation) : hasMods a = false ↔
    a.isotope = none ∧ a.static = none ∧ a.labile = none ∧ a.unknown = none ∧ a.nterm = none ∧ a.cterm = none ∧
    a.internal = none ∧ a.intervals = none ∧ a.charge = none ∧ a.adducts = none := by
  simp [hasMods, and_assoc]

theorem slice_seq (a : Annotation) (s e : Int) : (slice a s e).seq = pySlice a.seq s e := by
  unfold slice; split <;> rfl

theorem slice_internal_of_hasMods (a : Annotation) (s e : Int) (h : hasMods a = true) :
    (slice a s e).internal = a.internal.map (·.filterMap (sliceEntry s e)) := by
  simp [slice, h]

theorem modsAt_slice (a : Annotation) (s e i : Nat) (hi : s + i < e) :
    modsAt (slice a s e) i = modsAt a (s + i) := by
  cases hm : hasMods a
  · have hint : a.internal = none := ((hasMods_false_iff a).1 hm).2.2.2.2.2.2.1
    simp [modsAt, slice, hm, plain, hint]
  · unfold modsAt
    rw [slice_internal_of_hasMods a s e hm]
    cases hd : a.internal with
    | none => rfl
    | some d =>
      simp only [Option.map_some]
      rw [dictGet?_filterMap_slice (s : Int) (e : Int) d (i : Int) (by omega) (by omega)]
      congr 2
      omega

theorem map_eq_self {α} (f : α → α) (l : List α) (h : ∀ x ∈ l, f x = x) : l.map f = l := by
  induction l with
  | nil => rfl
  | cons x t ih => simp [h x (by simp), ih (fun y hy => h y (by simp [hy]))]

theorem Annotation.ext' {a b : Annotation} (h1 : a.seq = b.seq) (h2 : a.isotope = b.isotope) (h3 : a.static = b.static)
    (h4 : a.labile = b.labile) (h5 : a.unknown = b.unknown) (h6 : a.nterm = b.nterm) (h7 : a.cterm = b.cterm)
    (h8 : a.internal = b.internal) (h9 : a.intervals = b.intervals) (h10 : a.charge = b.charge)
    (h11 : a.adducts = b.adducts) : a = b := by
  cases a; cases b; simp_all

/-! ### reverse -/

theorem modsAt_reverse (a : Annotation) (sw : Bool) (i : Nat) (hi : i < a.seq.length) :
    modsAt (reverse a sw) i = modsAt a (a.seq.length - 1 - i) := by
  unfold modsAt reverse
  cases hd : a.internal with
  | none => rfl
  | some d =>
    cases d with
    | nil => rfl
    | cons p t =>
      simp only
      have := dictGet?_map_key (fun k => (a.seq.length : Int) - k - 1) (p :: t) (i : Int)
        ((a.seq.length - 1 - i : Nat) : Int) (by intro q _; omega)
      rw [show (List.map (reverseEntry ↑a.seq.length) (p :: t)) =
        List.map (fun q => ((a.seq.length : Int) - q.1 - 1, q.2)) (p :: t) from rfl, this]

theorem reverseInterval_involutive (n : Int) (iv : Interval) (h : iv.start ≤ iv.stop) :
    reverseInterval n (reverseInterval n iv) = iv := by
  unfold reverseInterval
  have h1 : ¬ (n - iv.stop > n - iv.start) := by omega
  simp only [h1, if_false]
  have h2 : ¬ (n - (n - iv.start) > n - (n - iv.stop)) := by omega
  simp only [h2, if_false]
  cases iv; simp; omega

theorem reverseEntry_involutive (n : Int) (p : Int × List Mod) : reverseEntry n (reverseEntry n p) = p := by
  unfold reverseEntry; ext <;> simp; omega

/-! ### shift -/

theorem sub_emod_range (k e n : Int) (hk0 : 0 ≤ k) (hk : k < n) (he0 : 0 ≤ e) (he : e < n) :
    (k - e) % n = if e ≤ k then k - e else k - e + n := by
  split
  · exact Int.emod_eq_of_lt (by omega) (by omega)
  · rw [← Int.add_emod_right (k - e) n]
    exact Int.emod_eq_of_lt (by omega) (by omega)

theorem neg_emod_range (k n : Int) (h : 0 < n) : (-k) % n = if k % n = 0 then 0 else n - k % n := by
  have h1 := Int.emod_add_mul_ediv k n
  have h2 := Int.emod_nonneg k (by omega : n ≠ 0)
  have h3 := Int.emod_lt_of_pos k h
  split
  · rename_i h0
    have : -k = n * (-(k / n)) := by rw [Int.mul_neg]; omega
    rw [this]; simp
  · rename_i h0
    have : -k = (n - k % n) + n * (-(k / n) - 1) := by rw [Int.mul_sub, Int.mul_neg]; omega
    rw [this, Int.add_mul_emod_self_left]
    exact Int.emod_eq_of_lt (by omega) (by omega)

theorem nodup_map_of_inj_on {α β} (f : α → β) (l : List α) (hn : l.Nodup)
    (hinj : ∀ x ∈ l, ∀ y ∈ l, f x = f y → x = y) : (l.map f).Nodup := by
  induction l with
  | nil => simp
  | cons x t ih =>
    simp only [List.nodup_cons] at hn
    simp only [List.map_cons, List.nodup_cons, List.mem_map, not_exists, not_and]
    refine ⟨?_, ih hn.2 (fun a ha b hb => hinj a (by simp [ha]) b (by simp [hb]))⟩
    intro y hy heq
    have := hinj y (by simp [hy]) x (by simp) heq
    subst this
    exact hn.1 hy

theorem shift_keys_nodup (d : Dict) (eff n : Int) (he0 : 0 ≤ eff) (he : eff < n)
    (hn : (d.map (·.1)).Nodup) (hr : ∀ p ∈ d, 0 ≤ p.1 ∧ p.1 < n) :
    ((d.map (shiftEntry eff n)).map (·.1)).Nodup := by
  rw [List.map_map]
  have : ((fun x : Int × List Mod => x.1) ∘ shiftEntry eff n) = (fun k => (k - eff) % n) ∘ (fun x => x.1) := rfl
  rw [this, ← List.map_map]
  apply nodup_map_of_inj_on _ _ hn
  intro x hx y hy hxy
  simp only [List.mem_map] at hx hy
  obtain ⟨p, hp, rfl⟩ := hx
  obtain ⟨q, hq, rfl⟩ := hy
  have h1 := hr p hp
  have h2 := hr q hq
  rw [sub_emod_range _ _ _ h1.1 h1.2 he0 he, sub_emod_range _ _ _ h2.1 h2.2 he0 he] at hxy
  split at hxy <;> split at hxy <;> omega

theorem shift_spec (a : Annotation) (k : Int) (hn : a.seq ≠ []) (hk : KeysOK a) :
    ∃ b, shift a k = .ok b ∧
      b.seq = a.seq.drop (k % (a.seq.length : Int)).toNat ++ a.seq.take (k % (a.seq.length : Int)).toNat ∧
      b.internal = (match a.internal with
        | none => none
        | some [] => none
        | some d => some (d.map (shiftEntry (k % (a.seq.length : Int)) a.seq.length))) ∧
      b.intervals = (match a.intervals with
        | none => none
        | some [] => none
        | some l => some (l.map (shiftInterval (k % (a.seq.length : Int)) a.seq.length))) ∧
      b.isotope = a.isotope ∧ b.static = a.static ∧ b.labile = a.labile ∧ b.unknown = a.unknown ∧
      b.charge = a.charge ∧ b.adducts = a.adducts ∧ b.nterm = a.nterm ∧ b.cterm = a.cterm := by
  have hlen : 0 < a.seq.length := List.length_pos_iff.mpr hn
  have hn0 : ¬ ((a.seq.length : Int) = 0) := by omega
  have he0 : 0 ≤ k % (a.seq.length : Int) := Int.emod_nonneg _ hn0
  have he : k % (a.seq.length : Int) < a.seq.length := Int.emod_lt_of_pos _ (by omega)
  unfold shift
  simp only [hn0, if_false]
  refine ⟨_, rfl, rfl, ?_, ?_, rfl, rfl, rfl, rfl, rfl, rfl, rfl, rfl⟩
  · cases hd : a.internal with
    | none => rfl
    | some d =>
      obtain ⟨hnd, hr⟩ := hk d hd
      simp only
      rw [buildDict_of_nodup _ (shift_keys_nodup d _ _ he0 he hnd hr)]
      cases d with
      | nil => rfl
      | cons p t => simp
  · cases hl : a.intervals with
    | none => rfl
    | some l =>
      cases l with
      | nil => rfl
      | cons p t => simp

theorem modsAt_shift (a b : Annotation) (eff : Int) (he0 : 0 ≤ eff) (he : eff < a.seq.length) (hk : KeysOK a)
    (hb : b.internal = (match a.internal with
        | none => none
        | some [] => none
        | some d => some (d.map (shiftEntry eff a.seq.length))))
    (i j : Nat) (hi : i < a.seq.length) (hj : j < a.seq.length)
    (hij : (j : Int) = if (i : Int) + eff < a.seq.length then (i : Int) + eff else (i : Int) + eff - a.seq.length) :
    modsAt b i = modsAt a j := by
  unfold modsAt
  rw [hb]
  cases hd : a.internal with
  | none => rfl
  | some d =>
    cases d with
    | nil => rfl
    | cons p t =>
      simp only
      obtain ⟨_, hr⟩ := hk (p :: t) hd
      have := dictGet?_map_key (fun x => (x - eff) % (a.seq.length : Int)) (p :: t) (i : Int) (j : Int) (by
        intro q hq
        have h1 := hr q hq
        rw [sub_emod_range _ _ _ h1.1 h1.2 he0 he]
        split <;> split at hij <;> omega)
      rw [show List.map (shiftEntry eff ↑a.seq.length) (p :: t) =
        List.map (fun q => ((q.1 - eff) % (a.seq.length : Int), q.2)) (p :: t) from rfl, this]

theorem shiftEntry_inverse (eff eff' n : Int) (he0 : 0 ≤ eff) (he : eff < n)
    (he' : eff' = if eff = 0 then 0 else n - eff) (q : Int × List Mod) (hq : 0 ≤ q.1 ∧ q.1 < n) :
    shiftEntry eff' n (shiftEntry eff n q) = q := by
  unfold shiftEntry
  ext
  · simp only
    rw [sub_emod_range q.1 eff n hq.1 hq.2 he0 he]
    split at he'
    · subst he'; rename_i h0; subst h0
      simp only [Int.sub_zero]
      split
      · exact Int.emod_eq_of_lt (by omega) (by omega)
      · omega
    · subst he'
      split
      · rw [sub_emod_range _ _ _ (by omega) (by omega) (by omega) (by omega)]
        split <;> omega
      · rw [sub_emod_range _ _ _ (by omega) (by omega) (by omega) (by omega)]
        split <;> omega
  · rfl

end Pept.Reorder
