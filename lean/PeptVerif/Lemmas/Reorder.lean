import PeptVerif.Model.Reorder
/-! Helper lemmas for Props/C11 and Props/C07 (no Mathlib needed). -/
namespace Pept.Reorder

/-! ### dictionaries -/

/-- look-up through a re-keyed dictionary: if among the keys of `d` exactly `k` is sent to `j` -/
theorem dictGet?_map_key (f : Int → Int) (d : Dict) (j k : Int)
    (h : ∀ p ∈ d, f p.1 = j ↔ p.1 = k) :
    dictGet? (d.map fun p => (f p.1, p.2)) j = dictGet? d k := by
  induction d with
  | nil => rfl
  | cons p t ih =>
    have hp := h p (by simp)
    have ht : ∀ q ∈ t, f q.1 = j ↔ q.1 = k := fun q hq => h q (by simp [hq])
    simp only [List.map_cons, dictGet?]
    by_cases hk : p.1 = k
    · have hfj : f p.1 = j := hp.2 hk
      rw [if_pos hfj, if_pos hk]
    · have : ¬ f p.1 = j := fun hh => hk (hp.1 hh)
      rw [if_neg this, if_neg hk, ih ht]

theorem dictGet?_filterMap_slice (s e : Int) (d : Dict) (j : Int) (h1 : s ≤ j + s) (h2 : j + s < e) :
    dictGet? (d.filterMap (sliceEntry s e)) j = dictGet? d (j + s) := by
  induction d with
  | nil => rfl
  | cons p t ih =>
    simp only [List.filterMap_cons, sliceEntry]
    by_cases hr : s ≤ p.1 ∧ p.1 < e
    · simp only [hr, and_self, if_true, dictGet?]
      by_cases hk : p.1 = j + s
      · have : p.1 - s = j := by omega
        simp [hk]
      · have : ¬ p.1 - s = j := by omega
        simp [hk, this, ih]
    · have hk : ¬ p.1 = j + s := by omega
      simp [hr, dictGet?, hk, ih]

theorem dictSet_append_of_not_mem (acc : Dict) (k : Int) (v : List Mod) (h : ∀ p ∈ acc, p.1 ≠ k) :
    dictSet acc k v = acc ++ [(k, v)] := by
  induction acc with
  | nil => rfl
  | cons p t ih =>
    have hp : p.1 ≠ k := h p (by simp)
    simp [dictSet, hp, ih (fun q hq => h q (by simp [hq]))]

theorem foldl_dictSet_of_nodup (l : List (Int × List Mod)) (acc : Dict)
    (hn : (l.map (·.1)).Nodup) (hd : ∀ p ∈ acc, ∀ q ∈ l, p.1 ≠ q.1) :
    l.foldl (fun d p => dictSet d p.1 p.2) acc = acc ++ l := by
  induction l generalizing acc with
  | nil => simp
  | cons q t ih =>
    simp only [List.foldl_cons]
    rw [dictSet_append_of_not_mem acc q.1 q.2 (fun p hp => hd p hp q (by simp))]
    simp only [List.map_cons, List.nodup_cons] at hn
    rw [ih _ hn.2]
    · simp
    · intro p hp r hr
      simp only [List.mem_append, List.mem_singleton] at hp
      rcases hp with hp | hp
      · exact hd p hp r (by simp [hr])
      · subst hp
        intro heq
        exact hn.1 (by rw [heq]; exact List.mem_map_of_mem hr)

/-- a dict built from pairs with distinct keys is the list of pairs -/
theorem buildDict_of_nodup (l : List (Int × List Mod)) (hn : (l.map (·.1)).Nodup) : buildDict l = l := by
  unfold buildDict
  rw [foldl_dictSet_of_nodup l [] hn (by simp)]
  simp

/-! ### residues -/

theorem residues_getElem? (a : Annotation) (i : Nat) :
    (residues a)[i]? = a.seq[i]?.map fun c => (c, modsAt a i) := by
  unfold residues
  rw [List.getElem?_map, List.getElem?_zipIdx]
  cases a.seq[i]? <;> simp

theorem residues_length (a : Annotation) : (residues a).length = a.seq.length := by
  simp [residues]

theorem pyIndex_nat (n i : Nat) : pyIndex n (i : Int) = min i n := by
  unfold pyIndex
  have : ¬ ((i : Int) < 0) := by omega
  simp [this]

theorem pySlice_nat {α} (l : List α) (s e : Nat) : pySlice l (s : Int) (e : Int) = (l.drop (min s l.length)).take (min e l.length - min s l.length) := by
  simp [pySlice, pyIndex_nat]


theorem hasMods_false_iff (a : Annotation) : hasMods a = false ↔
    a.isotope = none ∧ a.static = none ∧ a.labile = none ∧ a.unknown = none ∧ a.nterm = none ∧ a.cterm = none ∧
    a.internal = none ∧ a.intervals = none ∧ a.charge = none ∧ a.adducts = none := by
  simp [hasMods, and_assoc]

theorem slice_seq (a : Annotation) (s e : Int) : (slice a s e).seq = pySlice a.seq s e := by
  unfold slice; split <;> rfl

theorem slice_internal_of_hasMods (a : Annotation) (s e : Int) (h : hasMods a = true) :
    (slice a s e).internal = a.internal.map (·.filterMap (sliceEntry s e)) := by
  simp [slice, h]

theorem modsAt_slice (a : Annotation) (s e i : Nat) (hi : s + i < e) :
    modsAt (slice a s e) i = modsAt a (s + i) := by
  cases hm : hasMods a
  · have hint : a.internal = none := ((hasMods_false_iff a).1 hm).2.2.2.2.2.2.1
    simp [modsAt, slice, hm, plain, hint]
  · unfold modsAt
    rw [slice_internal_of_hasMods a s e hm]
    cases hd : a.internal with
    | none => rfl
    | some d =>
      simp only [Option.map_some]
      rw [dictGet?_filterMap_slice (s : Int) (e : Int) d (i : Int) (by omega) (by omega)]
      congr 2
      omega

end Pept.Reorder
