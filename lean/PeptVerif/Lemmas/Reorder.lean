import PeptVerif.Model.Reorder
import PeptVerif.Spec.Reorder
/-! Helper lemmas for Props/C11 and Props/C07 (no Mathlib needed). -/
namespace Pept.Reorder

/-! ### dictionaries -/

/-- look-up through a re-keyed dictionary: if among the keys of `d` exactly `k` is sent to `j` -/
theorem dictGet?_map_key (f : Int → Int) (d : Dict) (j k : Int)
    (h : ∀ p ∈ d, f p.1 = j ↔ p.1 = k) :
    dictGet? (d.map fun p => (f p.1, p.2)) j = dictGet? d k := by
  induction d with
  | nil => rfl
  | cons p t ih =>
    have hp := h p (by simp)
    have ht : ∀ q ∈ t, f q.1 = j ↔ q.1 = k := fun q hq => h q (by simp [hq])
    simp only [List.map_cons, dictGet?]
    by_cases hk : p.1 = k
    · have hfj : f p.1 = j := hp.2 hk
      rw [if_pos hfj, if_pos hk]
    · have : ¬ f p.1 = j := fun hh => hk (hp.1 hh)
      rw [if_neg this, if_neg hk, ih ht]

theorem dictGet?_filterMap_slice (s e : Int) (d : Dict) (j : Int) (h1 : s ≤ j + s) (h2 : j + s < e) :
    dictGet? (d.filterMap (sliceEntry s e)) j = dictGet? d (j + s) := by
  induction d with
  | nil => rfl
  | cons p t ih =>
    simp only [List.filterMap_cons, sliceEntry]
    by_cases hr : s ≤ p.1 ∧ p.1 < e
    · simp only [hr, and_self, if_true, dictGet?]
      by_cases hk : p.1 = j + s
      · have : p.1 - s = j := by omega
        simp [hk]
      · have : ¬ p.1 - s = j := by omega
        simp [hk, this, ih]
    · have hk : ¬ p.1 = j + s := by omega
      simp [hr, dictGet?, hk, ih]

theorem dictSet_append_of_not_mem (acc : Dict) (k : Int) (v : List Mod) (h : ∀ p ∈ acc, p.1 ≠ k) :
    dictSet acc k v = acc ++ [(k, v)] := by
  induction acc with
  | nil => rfl
  | cons p t ih =>
    have hp : p.1 ≠ k := h p (by simp)
    simp [dictSet, hp, ih (fun q hq => h q (by simp [hq]))]

theorem foldl_dictSet_of_nodup (l : List (Int × List Mod)) (acc : Dict)
    (hn : (l.map (·.1)).Nodup) (hd : ∀ p ∈ acc, ∀ q ∈ l, p.1 ≠ q.1) :
    l.foldl (fun d p => dictSet d p.1 p.2) acc = acc ++ l := by
  induction l generalizing acc with
  | nil => simp
  | cons q t ih =>
    simp only [List.foldl_cons]
    rw [dictSet_append_of_not_mem acc q.1 q.2 (fun p hp => hd p hp q (by simp))]
    simp only [List.map_cons, List.nodup_cons] at hn
    rw [ih _ hn.2]
    · simp
    · intro p hp r hr
      simp only [List.mem_append, List.mem_singleton] at hp
      rcases hp with hp | hp
      · exact hd p hp r (by simp [hr])
      · subst hp
        intro heq
        exact hn.1 (by rw [heq]; exact List.mem_map_of_mem hr)

/-- a dict built from pairs with distinct keys is the list of pairs -/
theorem buildDict_of_nodup (l : List (Int × List Mod)) (hn : (l.map (·.1)).Nodup) : buildDict l = l := by
  unfold buildDict
  rw [foldl_dictSet_of_nodup l [] hn (by simp)]
  simp

/-! ### residues -/

theorem residues_getElem? (a : Annotation) (i : Nat) :
    (residues a)[i]? = a.seq[i]?.map fun c => (c, modsAt a i) := by
  unfold residues
  rw [List.getElem?_map, List.getElem?_zipIdx]
  cases a.seq[i]? <;> simp

theorem residues_length (a : Annotation) : (residues a).length = a.seq.length := by
  simp [residues]

theorem pyIndex_nat (n i : Nat) : pyIndex n (i : Int) = min i n := by
  unfold pyIndex
  have : ¬ ((i : Int) < 0) := by omega
  simp [this]

theorem pySlice_nat {α} (l : List α) (s e : Nat) : pySlice l (s : Int) (e : Int) = (l.drop (min s l.length)).take (min e l.length - min s l.length) := by
  simp [pySlice, pyIndex_nat]


theorem hasMods_false_iff (a : Annotation) : hasMods a = false ↔
    a.isotope = none ∧ a.static = none ∧ a.labile = none ∧ a.unknown = none ∧ a.nterm = none ∧ a.cterm = none ∧
    a.internal = none ∧ a.intervals = none ∧ a.charge = none ∧ a.adducts = none := by
  simp [hasMods, and_assoc]

theorem slice_seq (a : Annotation) (s e : Int) : (slice a s e).seq = pySlice a.seq s e := by
  unfold slice; split <;> rfl

theorem slice_internal_of_hasMods (a : Annotation) (s e : Int) (h : hasMods a = true) :
    (slice a s e).internal = a.internal.map (·.filterMap (sliceEntry s e)) := by
  simp [slice, h]

theorem modsAt_slice (a : Annotation) (s e i : Nat) (hi : s + i < e) :
    modsAt (slice a s e) i = modsAt a (s + i) := by
  cases hm : hasMods a
  · have hint : a.internal = none := ((hasMods_false_iff a).1 hm).2.2.2.2.2.2.1
    simp [modsAt, slice, hm, plain, hint]
  · unfold modsAt
    rw [slice_internal_of_hasMods a s e hm]
    cases hd : a.internal with
    | none => rfl
    | some d =>
      simp only [Option.map_some]
      rw [dictGet?_filterMap_slice (s : Int) (e : Int) d (i : Int) (by omega) (by omega)]
      congr 2
      omega

theorem map_eq_self {α} (f : α → α) (l : List α) (h : ∀ x ∈ l, f x = x) : l.map f = l := by
  induction l with
  | nil => rfl
  | cons x t ih => simp [h x (by simp), ih (fun y hy => h y (by simp [hy]))]

theorem Annotation.ext' {a b : Annotation} (h1 : a.seq = b.seq) (h2 : a.isotope = b.isotope) (h3 : a.static = b.static)
    (h4 : a.labile = b.labile) (h5 : a.unknown = b.unknown) (h6 : a.nterm = b.nterm) (h7 : a.cterm = b.cterm)
    (h8 : a.internal = b.internal) (h9 : a.intervals = b.intervals) (h10 : a.charge = b.charge)
    (h11 : a.adducts = b.adducts) : a = b := by
  cases a; cases b; simp_all

/-! ### reverse -/

theorem modsAt_reverse (a : Annotation) (sw : Bool) (i : Nat) (hi : i < a.seq.length) :
    modsAt (reverse a sw) i = modsAt a (a.seq.length - 1 - i) := by
  unfold modsAt reverse
  cases hd : a.internal with
  | none => rfl
  | some d =>
    cases d with
    | nil => rfl
    | cons p t =>
      simp only
      have := dictGet?_map_key (fun k => (a.seq.length : Int) - k - 1) (p :: t) (i : Int)
        ((a.seq.length - 1 - i : Nat) : Int) (by intro q _; omega)
      rw [show (List.map (reverseEntry ↑a.seq.length) (p :: t)) =
        List.map (fun q => ((a.seq.length : Int) - q.1 - 1, q.2)) (p :: t) from rfl, this]

theorem reverseInterval_involutive (n : Int) (iv : Interval) (h : iv.start ≤ iv.stop) :
    reverseInterval n (reverseInterval n iv) = iv := by
  unfold reverseInterval
  have h1 : ¬ (n - iv.stop > n - iv.start) := by omega
  simp only [h1, if_false]
  have h2 : ¬ (n - (n - iv.start) > n - (n - iv.stop)) := by omega
  simp only [h2, if_false]
  cases iv; simp; omega

theorem reverseEntry_involutive (n : Int) (p : Int × List Mod) : reverseEntry n (reverseEntry n p) = p := by
  unfold reverseEntry; ext <;> simp; omega

/-! ### stable insertion sort -/

theorem insertBy_perm {α} (key : α → Nat) (x : α) (l : List α) : (insertBy key x l).Perm (x :: l) := by
  induction l with
  | nil => exact List.Perm.refl _
  | cons y t ih =>
    unfold insertBy
    split
    · exact List.Perm.refl _
    · exact (List.Perm.cons y ih).trans (List.Perm.swap x y t)

theorem sortBy_perm {α} (key : α → Nat) (l : List α) : (sortBy key l).Perm l := by
  induction l with
  | nil => exact List.Perm.refl _
  | cons x t ih => exact (insertBy_perm key x _).trans (List.Perm.cons x ih)

theorem insertBy_map {α β} (f : α → β) (key' : α → Nat) (key : β → Nat) (h : ∀ x, key' x = key (f x)) (x : α)
    (l : List α) : (insertBy key' x l).map f = insertBy key (f x) (l.map f) := by
  induction l with
  | nil => rfl
  | cons y t ih =>
    simp only [insertBy, List.map_cons, h]
    split
    · rfl
    · simp [ih]

theorem sortBy_map {α β} (f : α → β) (key' : α → Nat) (key : β → Nat) (h : ∀ x, key' x = key (f x)) (l : List α) :
    (sortBy key' l).map f = sortBy key (l.map f) := by
  induction l with
  | nil => rfl
  | cons x t ih => simp only [sortBy, List.map_cons, insertBy_map f key' key h, ih]

theorem insertBy_sorted {α} (key : α → Nat) (x : α) (l : List α) (hl : l.Pairwise (fun a b => key a ≤ key b)) :
    (insertBy key x l).Pairwise (fun a b => key a ≤ key b) := by
  induction l with
  | nil => simp [insertBy]
  | cons y t ih =>
    unfold insertBy
    rw [List.pairwise_cons] at hl
    split
    · rename_i hxy
      rw [List.pairwise_cons]
      refine ⟨?_, List.pairwise_cons.2 hl⟩
      intro z hz
      simp only [List.mem_cons] at hz
      rcases hz with rfl | hz
      · exact hxy
      · exact Nat.le_trans hxy (hl.1 z hz)
    · rename_i hxy
      rw [List.pairwise_cons]
      refine ⟨?_, ih hl.2⟩
      intro z hz
      have := (insertBy_perm key x t).mem_iff.1 hz
      simp only [List.mem_cons] at this
      rcases this with rfl | hz'
      · omega
      · exact hl.1 z hz'

theorem sortBy_sorted {α} (key : α → Nat) (l : List α) : (sortBy key l).Pairwise (fun a b => key a ≤ key b) := by
  induction l with
  | nil => simp [sortBy]
  | cons x t ih => exact insertBy_sorted key x _ ih

theorem sortBy_length {α} (key : α → Nat) (l : List α) : (sortBy key l).length = l.length :=
  (sortBy_perm key l).length_eq

theorem sortBy_isEmpty {α} (key : α → Nat) (l : List α) : (sortBy key l).isEmpty = l.isEmpty := by
  have := sortBy_length key l
  cases h1 : sortBy key l <;> cases h2 : l <;> simp_all

theorem insertBy_of_le {α} (key : α → Nat) (x : α) (l : List α) (h : ∀ y ∈ l, key x ≤ key y) :
    insertBy key x l = x :: l := by
  cases l with
  | nil => rfl
  | cons y t => simp [insertBy, h y (by simp)]

theorem sortBy_of_sorted {α} (key : α → Nat) (l : List α) (h : l.Pairwise (fun a b => key a ≤ key b)) :
    sortBy key l = l := by
  induction l with
  | nil => rfl
  | cons x t ih =>
    rw [List.pairwise_cons] at h
    simp only [sortBy]
    rw [ih h.2, insertBy_of_le key x t h.1]

/-- a weakly sorted permutation of a strictly sorted list is that list -/
theorem eq_of_perm_of_sorted {α} (key : α → Nat) (l1 l2 : List α) (hp : l1.Perm l2)
    (h1 : l1.Pairwise (fun a b => key a ≤ key b)) (h2 : l2.Pairwise (fun a b => key a < key b)) : l1 = l2 := by
  induction l2 generalizing l1 with
  | nil => exact hp.eq_nil
  | cons y u ih =>
    cases l1 with
    | nil => exact absurd hp.symm.eq_nil (by simp)
    | cons x t =>
      rw [List.pairwise_cons] at h1 h2
      have hxy : x = y := by
        have hx : x ∈ y :: u := hp.mem_iff.1 (by simp)
        simp only [List.mem_cons] at hx
        rcases hx with hx | hx
        · exact hx
        · have hy : y ∈ x :: t := hp.mem_iff.2 (by simp)
          simp only [List.mem_cons] at hy
          rcases hy with hy | hy
          · exact hy.symm
          · have a1 := h2.1 x hx
            have a2 := h1.1 y hy
            omega
      subst hxy
      rw [ih t (List.Perm.cons_inv hp) h1.2 h2.2]

/-! ### shift -/

theorem sub_emod_range (k e n : Int) (hk0 : 0 ≤ k) (hk : k < n) (he0 : 0 ≤ e) (he : e < n) :
    (k - e) % n = if e ≤ k then k - e else k - e + n := by
  split
  · exact Int.emod_eq_of_lt (by omega) (by omega)
  · rw [← Int.add_emod_right (k - e) n]
    exact Int.emod_eq_of_lt (by omega) (by omega)

theorem neg_emod_range (k n : Int) (h : 0 < n) : (-k) % n = if k % n = 0 then 0 else n - k % n := by
  have h1 := Int.emod_add_mul_ediv k n
  have h2 := Int.emod_nonneg k (by omega : n ≠ 0)
  have h3 := Int.emod_lt_of_pos k h
  split
  · rename_i h0
    have : -k = n * (-(k / n)) := by rw [Int.mul_neg]; omega
    rw [this]; simp
  · rename_i h0
    have : -k = (n - k % n) + n * (-(k / n) - 1) := by rw [Int.mul_sub, Int.mul_neg]; omega
    rw [this, Int.add_mul_emod_self_left]
    exact Int.emod_eq_of_lt (by omega) (by omega)

theorem nodup_map_of_inj_on {α β} (f : α → β) (l : List α) (hn : l.Nodup)
    (hinj : ∀ x ∈ l, ∀ y ∈ l, f x = f y → x = y) : (l.map f).Nodup := by
  induction l with
  | nil => simp
  | cons x t ih =>
    simp only [List.nodup_cons] at hn
    simp only [List.map_cons, List.nodup_cons, List.mem_map, not_exists, not_and]
    refine ⟨?_, ih hn.2 (fun a ha b hb => hinj a (by simp [ha]) b (by simp [hb]))⟩
    intro y hy heq
    have := hinj y (by simp [hy]) x (by simp) heq
    subst this
    exact hn.1 hy

theorem shift_keys_nodup (d : Dict) (eff n : Int) (he0 : 0 ≤ eff) (he : eff < n)
    (hn : (d.map (·.1)).Nodup) (hr : ∀ p ∈ d, 0 ≤ p.1 ∧ p.1 < n) :
    ((d.map (shiftEntry eff n)).map (·.1)).Nodup := by
  rw [List.map_map]
  have : ((fun x : Int × List Mod => x.1) ∘ shiftEntry eff n) = (fun k => (k - eff) % n) ∘ (fun x => x.1) := rfl
  rw [this, ← List.map_map]
  apply nodup_map_of_inj_on _ _ hn
  intro x hx y hy hxy
  simp only [List.mem_map] at hx hy
  obtain ⟨p, hp, rfl⟩ := hx
  obtain ⟨q, hq, rfl⟩ := hy
  have h1 := hr p hp
  have h2 := hr q hq
  rw [sub_emod_range _ _ _ h1.1 h1.2 he0 he, sub_emod_range _ _ _ h2.1 h2.2 he0 he] at hxy
  split at hxy <;> split at hxy <;> omega

theorem shift_spec (a : Annotation) (k : Int) (hn : a.seq ≠ []) (hk : KeysOK a) :
    ∃ b, shift a k = .ok b ∧
      b.seq = a.seq.drop (k % (a.seq.length : Int)).toNat ++ a.seq.take (k % (a.seq.length : Int)).toNat ∧
      b.internal = (match a.internal with
        | none => none
        | some [] => none
        | some d => some (d.map (shiftEntry (k % (a.seq.length : Int)) a.seq.length))) ∧
      b.intervals = (match a.intervals with
        | none => none
        | some [] => none
        | some l => some (sortBy (fun (iv : Interval) => iv.start.toNat)
            (l.map (shiftInterval (k % (a.seq.length : Int)) a.seq.length)))) ∧
      b.isotope = a.isotope ∧ b.static = a.static ∧ b.labile = a.labile ∧ b.unknown = a.unknown ∧
      b.charge = a.charge ∧ b.adducts = a.adducts ∧ b.nterm = a.nterm ∧ b.cterm = a.cterm := by
  have hlen : 0 < a.seq.length := List.length_pos_iff.mpr hn
  have hn0 : ¬ ((a.seq.length : Int) = 0) := by omega
  have he0 : 0 ≤ k % (a.seq.length : Int) := Int.emod_nonneg _ hn0
  have he : k % (a.seq.length : Int) < a.seq.length := Int.emod_lt_of_pos _ (by omega)
  unfold shift
  simp only [hn0, if_false]
  refine ⟨_, rfl, rfl, ?_, ?_, rfl, rfl, rfl, rfl, rfl, rfl, rfl, rfl⟩
  · cases hd : a.internal with
    | none => rfl
    | some d =>
      obtain ⟨hnd, hr⟩ := hk d hd
      simp only
      rw [buildDict_of_nodup _ (shift_keys_nodup d _ _ he0 he hnd hr)]
      cases d with
      | nil => rfl
      | cons p t => simp
  · cases hl : a.intervals with
    | none => rfl
    | some l =>
      cases l with
      | nil => rfl
      | cons p t =>
        simp only
        rw [sortBy_isEmpty]
        simp

theorem modsAt_shift (a b : Annotation) (eff : Int) (he0 : 0 ≤ eff) (he : eff < a.seq.length) (hk : KeysOK a)
    (hb : b.internal = (match a.internal with
        | none => none
        | some [] => none
        | some d => some (d.map (shiftEntry eff a.seq.length))))
    (i j : Nat) (hi : i < a.seq.length) (_hj : j < a.seq.length)
    (hij : (j : Int) = if (i : Int) + eff < a.seq.length then (i : Int) + eff else (i : Int) + eff - a.seq.length) :
    modsAt b i = modsAt a j := by
  unfold modsAt
  rw [hb]
  cases hd : a.internal with
  | none => rfl
  | some d =>
    cases d with
    | nil => rfl
    | cons p t =>
      simp only
      obtain ⟨_, hr⟩ := hk (p :: t) hd
      have := dictGet?_map_key (fun x => (x - eff) % (a.seq.length : Int)) (p :: t) (i : Int) (j : Int) (by
        intro q hq
        have h1 := hr q hq
        rw [sub_emod_range _ _ _ h1.1 h1.2 he0 he]
        split <;> split at hij <;> omega)
      rw [show List.map (shiftEntry eff ↑a.seq.length) (p :: t) =
        List.map (fun q => ((q.1 - eff) % (a.seq.length : Int), q.2)) (p :: t) from rfl, this]

theorem shiftEntry_inverse (eff eff' n : Int) (he0 : 0 ≤ eff) (he : eff < n)
    (he' : eff' = if eff = 0 then 0 else n - eff) (q : Int × List Mod) (hq : 0 ≤ q.1 ∧ q.1 < n) :
    shiftEntry eff' n (shiftEntry eff n q) = q := by
  unfold shiftEntry
  ext
  · simp only
    rw [sub_emod_range q.1 eff n hq.1 hq.2 he0 he]
    split at he'
    · subst he'; rename_i h0; subst h0
      simp only [Int.sub_zero]
      split
      · exact Int.emod_eq_of_lt (by omega) (by omega)
      · omega
    · subst he'
      split
      · rw [sub_emod_range _ _ _ (by omega) (by omega) (by omega) (by omega)]
        split <;> omega
      · rw [sub_emod_range _ _ _ (by omega) (by omega) (by omega) (by omega)]
        split <;> omega
  · rfl


/-! ### permutations of positions (shuffle, sort_residues) -/



theorem getElem?_filterMap_of_all {α β} (f : α → Option β) (l : List α) (h : ∀ x ∈ l, (f x).isSome) (i : Nat) :
    (l.filterMap f)[i]? = l[i]?.bind f := by
  induction l generalizing i with
  | nil => simp
  | cons x t ih =>
    have hx := h x (by simp)
    obtain ⟨y, hy⟩ := Option.isSome_iff_exists.mp hx
    rw [List.filterMap_cons, hy]
    cases i with
    | zero => simp [hy]
    | succ i => simp [ih (fun z hz => h z (by simp [hz]))]

theorem idxOf_of_getElem? (l : List Nat) (hn : l.Nodup) (i x : Nat) (h : l[i]? = some x) : l.idxOf x = i := by
  induction l generalizing i with
  | nil => simp at h
  | cons y t ih =>
    simp only [List.nodup_cons] at hn
    cases i with
    | zero =>
      simp at h; subst h; simp
    | succ i =>
      simp at h
      have hxt : x ∈ t := List.mem_of_getElem? h
      have hne : y ≠ x := fun hh => hn.1 (hh ▸ hxt)
      rw [List.idxOf_cons, ih hn.2 i h]
      have : (y == x) = false := by simp [hne]
      simp [this]

theorem range_filterMap_getElem? {α} (l : List α) : (List.range l.length).filterMap (l[·]?) = l := by
  apply List.ext_getElem?
  intro i
  rw [getElem?_filterMap_of_all]
  · by_cases hi : i < l.length
    · rw [List.getElem?_range hi]; simp
    · have h1 : (List.range l.length)[i]? = none := by simp; omega
      have h2 : l[i]? = none := by simp; omega
      rw [h1, h2]; rfl
  · intro x hx
    simp at hx
    simp [hx]


theorem posOf?_of_mem (perm : List Nat) (n : Nat) (hp : perm.Perm (List.range n)) (k : Int) (h0 : 0 ≤ k) (h1 : k < n) :
    posOf? perm k = some (perm.idxOf k.toNat) := by
  unfold posOf?
  have : k.toNat ∈ perm := (hp.mem_iff).2 (by simp; omega)
  simp [h0, this]

theorem permuteWith_spec (a : Annotation) (perm : List Nat) (newSeq : List Char)
    (hp : perm.Perm (List.range a.seq.length)) (hk : KeysOK a) :
    ∃ b, permuteWith a perm newSeq = .ok b ∧ b.seq = newSeq ∧
      (∀ i p, perm[i]? = some p → modsAt b i = modsAt a p) ∧
      b.isotope = a.isotope ∧ b.static = a.static ∧ b.labile = a.labile ∧ b.unknown = a.unknown ∧
      b.charge = a.charge ∧ b.adducts = a.adducts ∧ b.nterm = a.nterm ∧ b.cterm = a.cterm ∧
      b.intervals = a.intervals := by
  have hnd : perm.Nodup := (hp.nodup_iff).2 List.nodup_range
  unfold permuteWith
  cases hd : a.internal with
  | none =>
    refine ⟨_, rfl, rfl, ?_, rfl, rfl, rfl, rfl, rfl, rfl, rfl, rfl, rfl⟩
    intro i p _; simp [modsAt, hd]
  | some d =>
    cases d with
    | nil =>
      refine ⟨_, rfl, rfl, ?_, rfl, rfl, rfl, rfl, rfl, rfl, rfl, rfl, rfl⟩
      intro i p _; simp [modsAt, hd, dictGet?]
    | cons q t =>
      obtain ⟨_, hr⟩ := hk _ hd
      have hall : (q :: t).all (fun p => (posOf? perm p.1).isSome) = true := by
        rw [List.all_eq_true]
        intro x hx
        rw [posOf?_of_mem perm _ hp x.1 (hr x hx).1 (hr x hx).2]; rfl
      simp only [permDict, hall, if_true]
      refine ⟨_, rfl, rfl, ?_, rfl, rfl, rfl, rfl, rfl, rfl, rfl, rfl, rfl⟩
      intro i p hip
      simp only [modsAt, hd]
      have := dictGet?_map_key (fun k => (((posOf? perm k).getD 0 : Nat) : Int)) (q :: t) (i : Int) (p : Int) (by
        intro x hx
        have hx' := hr x hx
        rw [posOf?_of_mem perm _ hp x.1 hx'.1 hx'.2]
        simp only [Option.getD_some]
        constructor
        · intro h
          have h' : perm.idxOf x.1.toNat = i := by omega
          have hmem : x.1.toNat ∈ perm := (hp.mem_iff).2 (by simp; omega)
          have hlt := List.idxOf_lt_length_iff.2 hmem
          have hget := List.getElem_idxOf hlt
          rw [List.getElem?_eq_getElem (by omega)] at hip
          simp only [Option.some.injEq] at hip
          have : perm[i]'(by omega) = x.1.toNat := by
            simp only [← h']; exact hget
          omega
        · intro h
          have : x.1.toNat = p := by omega
          rw [this, idxOf_of_getElem? perm hnd i p hip])
      rw [show List.map (permEntry perm) (q :: t) =
        List.map (fun x => ((((posOf? perm x.1).getD 0 : Nat) : Int), x.2)) (q :: t) from rfl, this]


theorem residues_of_permuted (a b : Annotation) (perm : List Nat) (hp : perm.Perm (List.range a.seq.length))
    (hseq : b.seq = perm.filterMap (a.seq[·]?))
    (hm : ∀ i p, perm[i]? = some p → modsAt b i = modsAt a p) :
    residues b = perm.filterMap ((residues a)[·]?) := by
  have hlt : ∀ x ∈ perm, x < a.seq.length := fun x hx => by
    have := (hp.mem_iff).1 hx; simpa using this
  apply List.ext_getElem?
  intro i
  rw [residues_getElem?, hseq, getElem?_filterMap_of_all _ _ (fun x hx => by simp [hlt x hx]),
    getElem?_filterMap_of_all _ _ (fun x hx => by simp [residues_length, hlt x hx])]
  cases hpi : perm[i]? with
  | none => rfl
  | some p =>
    simp only [Option.bind_some]
    rw [residues_getElem?, hm i p hpi]

theorem filterMap_getElem?_perm {α} (l : List α) (perm : List Nat) (hp : perm.Perm (List.range l.length)) :
    (perm.filterMap (l[·]?)).Perm l := by
  have := hp.filterMap (l[·]?)
  rw [range_filterMap_getElem?] at this
  exact this


theorem sortOrder_perm (seq : List Char) : (sortOrder seq).Perm (List.range seq.length) := by
  unfold sortOrder
  have := (sortBy_perm (fun (p : Char × Nat) => p.1.toNat) seq.zipIdx).map (·.2)
  rw [show List.map (fun (x : Char × Nat) => x.2) seq.zipIdx = List.range seq.length by
    rw [List.range_eq_range']; exact List.zipIdx_map_snd 0 seq] at this
  exact this

theorem sortBy_seq_eq (seq : List Char) :
    sortBy (fun (c : Char) => c.toNat) seq = (sortOrder seq).filterMap (seq[·]?) := by
  unfold sortOrder
  rw [List.filterMap_map]
  have h1 : sortBy (fun (c : Char) => c.toNat) seq =
      (sortBy (fun (p : Char × Nat) => p.1.toNat) seq.zipIdx).map (·.1) := by
    rw [sortBy_map (·.1) (fun (p : Char × Nat) => p.1.toNat) (fun (c : Char) => c.toNat) (fun _ => rfl)]
    congr 1
    exact (List.zipIdx_map_fst 0 seq).symm
  rw [h1]
  have hmem : ∀ p ∈ sortBy (fun (p : Char × Nat) => p.1.toNat) seq.zipIdx, seq[p.2]? = some p.1 := by
    intro p hp
    have := (sortBy_perm _ _).mem_iff.1 hp
    exact List.mem_zipIdx_iff_getElem?.1 this
  generalize sortBy (fun (p : Char × Nat) => p.1.toNat) seq.zipIdx = S at hmem
  induction S with
  | nil => rfl
  | cons p t ih =>
    simp only [List.map_cons, List.filterMap_cons, Function.comp, hmem p (by simp)]
    rw [ih (fun q hq => hmem q (by simp [hq]))]


/-! ### additive weights -/


theorem sum_perm_rat (l1 l2 : List Rat) (h : l1.Perm l2) : l1.sum = l2.sum := by
  induction h with
  | nil => rfl
  | cons x _ ih => simp only [List.sum_cons, ih]
  | swap x y l =>
    simp only [List.sum_cons]
    rw [← Rat.add_assoc, ← Rat.add_assoc, Rat.add_comm y x]
  | trans _ _ ih1 ih2 => exact ih1.trans ih2

theorem weight_perm (w : Char × List Mod → Rat) (l1 l2 : List (Char × List Mod)) (h : l1.Perm l2) :
    weight w l1 = weight w l2 :=
  sum_perm_rat _ _ (h.map w)

theorem weight_append (w : Char × List Mod → Rat) (l1 l2 : List (Char × List Mod)) :
    weight w (l1 ++ l2) = weight w l1 + weight w l2 := by
  unfold weight
  induction l1 with
  | nil => simp [Rat.zero_add]
  | cons x t ih => simp only [List.cons_append, List.map_cons, List.sum_cons, ih, Rat.add_assoc]


/-! ### slice, split -/

theorem range_flatMap_drop_take {α} (L : List α) :
    (List.range L.length).flatMap (fun i => (L.drop i).take 1) = L := by
  induction L with
  | nil => rfl
  | cons x t ih =>
    rw [List.length_cons, List.range_succ_eq_map, List.flatMap_cons, List.flatMap_map]
    simp only [List.drop_zero, List.take_succ_cons, List.take_zero, List.drop_succ_cons]
    rw [ih]; rfl

theorem flatMap_congr' {α β} {f g : α → List β} {l : List α} (h : ∀ x ∈ l, f x = g x) :
    l.flatMap f = l.flatMap g := by
  induction l with
  | nil => rfl
  | cons x t ih => simp [List.flatMap_cons, h x (by simp), ih (fun y hy => h y (by simp [hy]))]

theorem residues_slice (a : Annotation) (s e : Nat) (hs : s ≤ e) (he : e ≤ a.seq.length) :
    residues (slice a s e) = ((residues a).drop s).take (e - s) := by
  apply List.ext_getElem?
  intro i
  rw [residues_getElem?, slice_seq, pySlice_nat, List.getElem?_take, List.getElem?_take, List.getElem?_drop,
    List.getElem?_drop, residues_getElem?]
  have h1 : min s a.seq.length = s := by omega
  have h2 : min e a.seq.length = e := by omega
  rw [h1, h2]
  by_cases hi : i < e - s
  · simp only [hi, if_true]
    rw [modsAt_slice a s e i (by omega)]
  · simp [hi]

theorem residues_congr (a b : Annotation) (h1 : a.seq = b.seq) (h2 : a.internal = b.internal) :
    residues a = residues b := by
  unfold residues modsAt; rw [h1, h2]

theorem slice_fields (a : Annotation) (s e : Int) :
    (slice a s e).nterm = (if s > 0 then none else a.nterm) ∧
    (slice a s e).cterm = (if e < (a.seq.length : Int) then none else a.cterm) ∧
    (slice a s e).isotope = a.isotope ∧ (slice a s e).static = a.static ∧ (slice a s e).labile = a.labile ∧
    (slice a s e).unknown = a.unknown ∧ (slice a s e).charge = a.charge ∧ (slice a s e).adducts = a.adducts := by
  cases hm : hasMods a
  · obtain ⟨h1, h2, h3, h4, h5, h6, h7, h8, h9, h10⟩ := (hasMods_false_iff a).1 hm
    simp [slice, hm, plain, h1, h2, h3, h4, h5, h6, h9, h10]
  · simp [slice, hm]

/-- both branches of `has_mods` give the same annotation -/
theorem slice_eq_general (a : Annotation) (s e : Int) : slice a s e = sliceGeneral a s e := by
  cases hm : hasMods a
  · obtain ⟨h1, h2, h3, h4, h5, h6, h7, h8, h9, h10⟩ := (hasMods_false_iff a).1 hm
    simp [slice, sliceGeneral, hm, plain, h1, h2, h3, h4, h5, h6, h7, h8, h9, h10, noneIfEmpty]
  · simp [slice, sliceGeneral, hm]

theorem pySlice_pySlice_nat {α} (L : List α) (i j k l : Nat) (hij : i ≤ j) (hj : j ≤ L.length) (hkl : k ≤ l)
    (hl : l ≤ j - i) :
    pySlice (pySlice L (i : Int) (j : Int)) (k : Int) (l : Int) = pySlice L ((i + k : Nat) : Int) ((i + l : Nat) : Int) := by
  rw [pySlice_nat, pySlice_nat, pySlice_nat]
  apply List.ext_getElem?
  intro x
  simp only [List.getElem?_take, List.getElem?_drop, List.length_take, List.length_drop]
  have e1 : min i L.length = i := by omega
  have e2 : min j L.length = j := by omega
  have e3 : min (i + k) L.length = i + k := by omega
  have e4 : min (i + l) L.length = i + l := by omega
  rw [e1, e2, e3, e4]
  have e5 : min k (min (j - i) (L.length - i)) = k := by omega
  have e6 : min l (min (j - i) (L.length - i)) = l := by omega
  rw [e5, e6]
  by_cases hx : x < l - k
  · have hx2 : x < i + l - (i + k) := by omega
    have hx3 : k + x < j - i := by omega
    simp only [hx, hx2, hx3, if_true]
    congr 1; omega
  · have hx2 : ¬ x < i + l - (i + k) := by omega
    simp [hx, hx2]

theorem sliceEntry_bind (i j k l : Int) (hk : 0 ≤ k) (hl : i + l ≤ j) (p : Int × List Mod) :
    (sliceEntry i j p).bind (sliceEntry k l) = sliceEntry (i + k) (i + l) p := by
  unfold sliceEntry
  by_cases h1 : i ≤ p.1 ∧ p.1 < j
  · simp only [h1, and_self, if_true, Option.bind_some]
    by_cases h2 : k ≤ p.1 - i ∧ p.1 - i < l
    · have h3 : i + k ≤ p.1 ∧ p.1 < i + l := by omega
      simp only [h2, h3, and_self, if_true]
      congr 2; omega
    · have h3 : ¬ (i + k ≤ p.1 ∧ p.1 < i + l) := by omega
      simp [h2, h3]
  · have h3 : ¬ (i + k ≤ p.1 ∧ p.1 < i + l) := by omega
    simp [h1, h3]

theorem sliceInterval_bind (i j k l : Int) (hk : 0 ≤ k) (hl0 : 0 < l) (hl : i + l ≤ j) (iv : Interval) :
    (sliceInterval i j iv).bind (sliceInterval k l) = sliceInterval (i + k) (i + l) iv := by
  unfold sliceInterval
  by_cases h1 : iv.start < j ∧ iv.stop > i
  · simp only [h1, and_self, if_true, Option.bind_some]
    by_cases h3 : iv.start < i + l ∧ iv.stop > i + k
    · have h2 : max 0 (iv.start - i) < l ∧ max 0 (iv.stop - i) > k := by omega
      simp only [h2, h3, and_self, if_true]
      congr 2 <;> omega
    · have h2 : ¬ (max 0 (iv.start - i) < l ∧ max 0 (iv.stop - i) > k) := by omega
      simp [h2, h3]
  · have h3 : ¬ (iv.start < i + l ∧ iv.stop > i + k) := by omega
    simp [h1, h3]

theorem pySlice_length_nat {α} (L : List α) (i j : Nat) (hij : i ≤ j) (hj : j ≤ L.length) :
    (pySlice L (i : Int) (j : Int)).length = j - i := by
  rw [pySlice_nat]; simp; omega



theorem weight_flatMap {α} (w : Char × List Mod → Rat) (f : α → List (Char × List Mod)) (l : List α) :
    weight w (l.flatMap f) = (l.map fun x => weight w (f x)).sum := by
  induction l with
  | nil => rfl
  | cons x t ih => rw [List.flatMap_cons, weight_append, ih, List.map_cons, List.sum_cons]

theorem sliceInterval_contained (i j : Int) (iv : Interval) (hwf : iv.start < iv.stop)
    (hci : ¬ (iv.start < i ∧ i < iv.stop)) (hcj : ¬ (iv.start < j ∧ j < iv.stop)) :
    sliceInterval i j iv =
      if i ≤ iv.start ∧ iv.stop ≤ j then some { iv with start := iv.start - i, stop := iv.stop - i } else none := by
  unfold sliceInterval
  by_cases h : i ≤ iv.start ∧ iv.stop ≤ j
  · have h' : iv.start < j ∧ iv.stop > i := by omega
    simp only [h, h', and_self, if_true]
    congr 2 <;> omega
  · have h' : ¬ (iv.start < j ∧ iv.stop > i) := by omega
    simp [h, h']



theorem slice_slice' (a : Annotation) (i j k l : Nat) (hij : i ≤ j) (hj : j ≤ a.seq.length) (hkl : k ≤ l)
    (hl : l ≤ j - i) (hl0 : 0 < l ∨ a.intervals = none) :
    slice (slice a (i : Int) (j : Int)) (k : Int) (l : Int) = slice a ((i + k : Nat) : Int) ((i + l : Nat) : Int) := by
  rw [slice_eq_general a, slice_eq_general, slice_eq_general]
  unfold sliceGeneral
  apply Annotation.ext'
  · exact pySlice_pySlice_nat a.seq i j k l hij hj hkl hl
  · rfl
  · rfl
  · rfl
  · rfl
  · show (if (k : Int) > 0 then none else (if (i : Int) > 0 then none else a.nterm)) =
      (if ((i + k : Nat) : Int) > 0 then none else a.nterm)
    split <;> split <;> first | rfl | (split <;> first | rfl | omega) | omega
  · show (if (l : Int) < ((pySlice a.seq (i : Int) (j : Int)).length : Int) then none
        else (if (j : Int) < (a.seq.length : Int) then none else a.cterm)) =
      (if ((i + l : Nat) : Int) < (a.seq.length : Int) then none else a.cterm)
    rw [pySlice_length_nat a.seq i j hij hj]
    split <;> split <;> first | rfl | (split <;> first | rfl | omega) | omega
  · show (a.internal.map (·.filterMap (sliceEntry i j))).map (·.filterMap (sliceEntry k l)) =
      a.internal.map (·.filterMap (sliceEntry ((i + k : Nat) : Int) ((i + l : Nat) : Int)))
    cases a.internal with
    | none => rfl
    | some d =>
      simp only [Option.map_some, List.filterMap_filterMap]
      congr 2
      funext p
      have := sliceEntry_bind (i : Int) (j : Int) (k : Int) (l : Int) (by omega) (by omega) p
      rw [this]; congr 1 <;> omega
  · show noneIfEmpty ((noneIfEmpty (a.intervals.map (·.filterMap (sliceInterval i j)))).map
        (·.filterMap (sliceInterval k l))) =
      noneIfEmpty (a.intervals.map (·.filterMap (sliceInterval ((i + k : Nat) : Int) ((i + l : Nat) : Int))))
    cases hI : a.intervals with
    | none => rfl
    | some L =>
      have hl0' : 0 < l := by
        rcases hl0 with h | h
        · exact h
        · rw [hI] at h; cases h
      have hcomp : L.filterMap (sliceInterval ((i + k : Nat) : Int) ((i + l : Nat) : Int)) =
          (L.filterMap (sliceInterval i j)).filterMap (sliceInterval k l) := by
        rw [List.filterMap_filterMap]
        congr 1
        funext iv
        have := sliceInterval_bind (i : Int) (j : Int) (k : Int) (l : Int) (by omega) (by omega) (by omega) iv
        rw [this]; congr 1 <;> omega
      simp only [Option.map_some]
      rw [hcomp]
      cases L.filterMap (sliceInterval i j) with
      | nil => rfl
      | cons x xs => rfl
  · rfl
  · rfl



/-! ### pieces of a partition -/

theorem Increasing.le {s n : Nat} {ends : List Nat} (h : Increasing s ends n) : s ≤ n := by
  induction ends generalizing s with
  | nil => exact h
  | cons e rest ih => have := ih h.2; have := h.1; omega

theorem drop_take_append {α} (L : List α) (s e e' : Nat) (h1 : s ≤ e) (h2 : e ≤ e') :
    (L.drop s).take (e - s) ++ (L.drop e).take (e' - e) = (L.drop s).take (e' - s) := by
  apply List.ext_getElem?
  intro i
  rw [List.getElem?_append]
  simp only [List.getElem?_take, List.getElem?_drop, List.length_take, List.length_drop]
  by_cases hi : i < e - s
  · have : i < min (e - s) (L.length - s) ∨ ¬ i < min (e - s) (L.length - s) := by omega
    rcases this with h | h
    · have h3 : i < e' - s := by omega
      simp [h, hi, h3]
    · have h4 : L.length ≤ s + i := by omega
      have h5 : L[s + i]? = none := by simp; omega
      have h6 : L[e + (i - min (e - s) (L.length - s))]? = none := by simp; omega
      simp [h, h5, h6]
  · have h : ¬ i < min (e - s) (L.length - s) := by omega
    simp only [h, if_false]
    by_cases h7 : L.length ≤ s + i
    · have h5 : L[s + i]? = none := by simp; omega
      have h6 : L[e + (i - min (e - s) (L.length - s))]? = none := by simp; omega
      simp [h5, h6]
    · have h8 : min (e - s) (L.length - s) = e - s := by omega
      rw [h8]
      have h9 : e + (i - (e - s)) = s + i := by omega
      rw [h9]
      by_cases h10 : i < e' - s
      · have : i - (e - s) < e' - e := by omega
        simp [this, h10]
      · have : ¬ i - (e - s) < e' - e := by omega
        simp [this, h10]

theorem Increasing.lastOf_bounds {s n : Nat} {ends : List Nat} (h : Increasing s ends n) :
    s ≤ lastOf s ends ∧ lastOf s ends ≤ n ∧ (ends ≠ [] → s < lastOf s ends) := by
  induction ends generalizing s with
  | nil => exact ⟨Nat.le_refl _, h, fun h => absurd rfl h⟩
  | cons e rest ih =>
    have := ih h.2
    have := h.1
    simp only [lastOf]
    refine ⟨by omega, by omega, fun _ => by omega⟩

theorem pieces_weight (w : Char × List Mod → Rat) (a : Annotation) (s : Nat) (ends : List Nat)
    (hinc : Increasing s ends a.seq.length) :
    ((piecesFrom a s ends).map fun p => weight w (residues p)).sum =
      weight w (((residues a).drop s).take (lastOf s ends - s)) := by
  induction ends generalizing s with
  | nil => simp [piecesFrom, lastOf, weight]
  | cons e rest ih =>
    have hb := hinc.2.lastOf_bounds
    have hse := hinc.1
    simp only [piecesFrom, lastOf, List.map_cons, List.sum_cons]
    rw [ih e hinc.2, residues_slice a s e (by omega) (by omega), ← weight_append,
      drop_take_append _ s e (lastOf e rest) (by omega) hb.1]

theorem amass_slice (w : Char × List Mod → Rat) (m : Mod → Rat) (t : Option (List Mod) → Rat) (h : Rat)
    (a : Annotation) (s e : Nat) (hiv : a.intervals = none) :
    amass w m t h (slice a (s : Int) (e : Int)) =
      weight w (residues (slice a (s : Int) (e : Int))) + (if s = 0 then modSum m a.nterm else 0) +
        (if e < a.seq.length then 0 else modSum m a.cterm) + (h + inherited m t a) := by
  obtain ⟨f1, f2, f3, f4, f5, f6, -⟩ := slice_fields a (s : Int) (e : Int)
  have f7 : (slice a (s : Int) (e : Int)).intervals = none := by
    rw [slice_eq_general]; simp [sliceGeneral, hiv, noneIfEmpty]
  unfold amass inherited
  rw [f1, f2, f4, f5, f6, f7]
  have e1 : modSum m (if (s : Int) > 0 then none else a.nterm) = (if s = 0 then modSum m a.nterm else 0) := by
    split <;> split <;> first | rfl | omega
  have e2 : modSum m (if (e : Int) < (a.seq.length : Int) then none else a.cterm) =
      (if e < a.seq.length then 0 else modSum m a.cterm) := by
    split <;> split <;> first | rfl | omega
  rw [e1, e2]
  simp only [intervalSum]
  grind

theorem pieces_amass (w : Char × List Mod → Rat) (m : Mod → Rat) (t : Option (List Mod) → Rat) (h : Rat)
    (a : Annotation) (s : Nat) (ends : List Nat) (hinc : Increasing s ends a.seq.length)
    (hiv : a.intervals = none) :
    ((piecesFrom a s ends).map (amass w m t h)).sum =
      weight w (((residues a).drop s).take (lastOf s ends - s)) +
        (if s = 0 ∧ ends ≠ [] then modSum m a.nterm else 0) +
        (if lastOf s ends = a.seq.length ∧ ends ≠ [] then modSum m a.cterm else 0) +
        times ends.length (h + inherited m t a) := by
  induction ends generalizing s with
  | nil => simp [piecesFrom, lastOf, weight, times]; grind
  | cons e rest ih =>
    have hb := hinc.2.lastOf_bounds
    have hse := hinc.1
    simp only [piecesFrom, lastOf, List.map_cons, List.sum_cons, List.length_cons, times]
    rw [ih e hinc.2, amass_slice w m t h a s e hiv,
      residues_slice a s e (by omega) (by omega),
      ← drop_take_append (residues a) s e (lastOf e rest) (by omega) hb.1, weight_append]
    have e0 : ¬ (e = 0 ∧ rest ≠ []) := by omega
    simp only [e0, if_false, ne_eq, reduceCtorEq, not_false_eq_true, and_true]
    by_cases hr : rest = []
    · subst hr
      simp only [lastOf, ne_eq, not_true_eq_false, and_false, if_false]
      have : e ≤ a.seq.length := hb.2.1
      by_cases he : e < a.seq.length
      · have : ¬ e = a.seq.length := by omega
        simp only [he, this, if_true, if_false]; grind
      · have : e = a.seq.length := by omega
        simp only [he, this, if_true, if_false]; grind
    · have h1 := hb.2.2 hr
      have he : e < a.seq.length := by omega
      simp only [he, if_true, hr, ne_eq, not_false_eq_true, and_true]
      grind

theorem times_zero_add (k : Nat) (h : Rat) : times k (h + 0) = times k h := by
  induction k with
  | zero => rfl
  | succ k ih => simp only [times, ih]; grind


/-! ### interval modifications over the pieces of a partition -/

theorem intervalSum_noneIfEmpty (m : Mod → Rat) (x : Option (List Interval)) :
    intervalSum m (noneIfEmpty x) = intervalSum m x := by
  cases x with
  | none => rfl
  | some l => cases l <;> rfl

theorem intervalSum_slice (m : Mod → Rat) (a : Annotation) (s e : Nat)
    (hc : CutsOK a.intervals a.seq.length [s, e]) :
    intervalSum m (slice a (s : Int) (e : Int)).intervals = ivSumIn m a.intervals s e := by
  rw [slice_eq_general]
  show intervalSum m (noneIfEmpty (a.intervals.map (·.filterMap (sliceInterval s e)))) = _
  rw [intervalSum_noneIfEmpty]
  cases hL : a.intervals with
  | none => rfl
  | some L =>
    have hc' := hc L hL
    simp only [Option.map_some, intervalSum, ivSumIn]
    clear hL hc
    induction L with
    | nil => rfl
    | cons iv t ih =>
      have h := hc' iv (by simp)
      rw [List.filterMap_cons, sliceInterval_contained (s : Int) (e : Int) iv h.2.1
        (h.2.2.2 s (by simp)) (h.2.2.2 e (by simp)), List.filter_cons]
      have iht := ih (fun x hx => hc' x (by simp [hx]))
      by_cases hin : (s : Int) ≤ iv.start ∧ iv.stop ≤ (e : Int)
      · simp only [hin, and_self, if_true, decide_true, List.map_cons, List.sum_cons, iht]
      · simp only [hin, if_false, decide_false, iht]
        rfl

theorem ivSumIn_split (m : Mod → Rat) (ivs : Option (List Interval)) (lo mid hi : Int) (h1 : lo ≤ mid) (h2 : mid ≤ hi)
    (hwf : ∀ L, ivs = some L → ∀ iv ∈ L, iv.start < iv.stop ∧ ¬ (iv.start < mid ∧ mid < iv.stop)) :
    ivSumIn m ivs lo hi = ivSumIn m ivs lo mid + ivSumIn m ivs mid hi := by
  cases hL : ivs with
  | none => simp [ivSumIn]; grind
  | some L =>
    have hw := hwf L hL
    simp only [ivSumIn]
    clear hL hwf
    induction L with
    | nil => simp; grind
    | cons iv t ih =>
      have h := hw iv (by simp)
      have iht := ih (fun x hx => hw x (by simp [hx]))
      simp only [List.filter_cons]
      by_cases ha : mid ≤ iv.start
      · have c1 : ¬ (lo ≤ iv.start ∧ iv.stop ≤ mid) := by omega
        by_cases hb : iv.stop ≤ hi
        · have c2 : lo ≤ iv.start ∧ iv.stop ≤ hi := by omega
          have c3 : mid ≤ iv.start ∧ iv.stop ≤ hi := by omega
          simp only [c1, c2, c3, decide_true, decide_false, if_true, if_false, List.map_cons, List.sum_cons, iht]
          grind
        · have c2 : ¬ (lo ≤ iv.start ∧ iv.stop ≤ hi) := by omega
          have c3 : ¬ (mid ≤ iv.start ∧ iv.stop ≤ hi) := by omega
          simp only [c1, c2, c3, decide_false, Bool.false_eq_true, if_false]
          exact iht
      · have c3 : ¬ (mid ≤ iv.start ∧ iv.stop ≤ hi) := by omega
        have hstop : iv.stop ≤ mid := by omega
        by_cases hb : lo ≤ iv.start
        · have c1 : lo ≤ iv.start ∧ iv.stop ≤ mid := by omega
          have c2 : lo ≤ iv.start ∧ iv.stop ≤ hi := by omega
          simp only [c1, c2, c3, decide_true, decide_false, if_true, if_false, List.map_cons, List.sum_cons, iht]
          grind
        · have c1 : ¬ (lo ≤ iv.start ∧ iv.stop ≤ mid) := by omega
          have c2 : ¬ (lo ≤ iv.start ∧ iv.stop ≤ hi) := by omega
          simp only [c1, c2, c3, decide_false, Bool.false_eq_true, if_false]
          exact iht

theorem amass_slice_iv (w : Char × List Mod → Rat) (m : Mod → Rat) (t : Option (List Mod) → Rat) (h : Rat)
    (a : Annotation) (s e : Nat) (hc : CutsOK a.intervals a.seq.length [s, e]) :
    amass w m t h (slice a (s : Int) (e : Int)) =
      weight w (residues (slice a (s : Int) (e : Int))) + (if s = 0 then modSum m a.nterm else 0) +
        (if e < a.seq.length then 0 else modSum m a.cterm) + ivSumIn m a.intervals s e + (h + inherited m t a) := by
  obtain ⟨f1, f2, f3, f4, f5, f6, -⟩ := slice_fields a (s : Int) (e : Int)
  have f7 := intervalSum_slice m a s e hc
  unfold amass inherited
  rw [f1, f2, f4, f5, f6, f7]
  have e1 : modSum m (if (s : Int) > 0 then none else a.nterm) = (if s = 0 then modSum m a.nterm else 0) := by
    split <;> split <;> first | rfl | omega
  have e2 : modSum m (if (e : Int) < (a.seq.length : Int) then none else a.cterm) =
      (if e < a.seq.length then 0 else modSum m a.cterm) := by
    split <;> split <;> first | rfl | omega
  rw [e1, e2]
  grind

theorem CutsOK.tail {ivs : Option (List Interval)} {n s e : Nat} {rest : List Nat}
    (h : CutsOK ivs n (s :: e :: rest)) : CutsOK ivs n (e :: rest) := by
  intro L hL iv hiv
  obtain ⟨a1, a2, a3, a4⟩ := h L hL iv hiv
  exact ⟨a1, a2, a3, fun c hc => a4 c (List.mem_cons_of_mem _ hc)⟩

theorem CutsOK.pair {ivs : Option (List Interval)} {n s e : Nat} {rest : List Nat}
    (h : CutsOK ivs n (s :: e :: rest)) : CutsOK ivs n [s, e] := by
  intro L hL iv hiv
  obtain ⟨a1, a2, a3, a4⟩ := h L hL iv hiv
  exact ⟨a1, a2, a3, fun c hc => a4 c (by
    simp only [List.mem_cons, List.not_mem_nil, or_false] at hc
    rcases hc with h | h <;> simp [h])⟩

theorem ivSumIn_self (m : Mod → Rat) (ivs : Option (List Interval)) (s : Int)
    (hwf : ∀ L, ivs = some L → ∀ iv ∈ L, iv.start < iv.stop) : ivSumIn m ivs s s = 0 := by
  cases hL : ivs with
  | none => rfl
  | some L =>
    have hw := hwf L hL
    simp only [ivSumIn]
    clear hL hwf
    induction L with
    | nil => rfl
    | cons iv t ih =>
      have := hw iv (by simp)
      have c : ¬ (s ≤ iv.start ∧ iv.stop ≤ s) := by omega
      simp only [List.filter_cons, c, decide_false, Bool.false_eq_true, if_false]
      exact ih (fun x hx => hw x (by simp [hx]))

theorem pieces_amass_iv (w : Char × List Mod → Rat) (m : Mod → Rat) (t : Option (List Mod) → Rat) (h : Rat)
    (a : Annotation) (s : Nat) (ends : List Nat) (hinc : Increasing s ends a.seq.length)
    (hc : CutsOK a.intervals a.seq.length (s :: ends)) :
    ((piecesFrom a s ends).map (amass w m t h)).sum =
      weight w (((residues a).drop s).take (lastOf s ends - s)) +
        (if s = 0 ∧ ends ≠ [] then modSum m a.nterm else 0) +
        (if lastOf s ends = a.seq.length ∧ ends ≠ [] then modSum m a.cterm else 0) +
        ivSumIn m a.intervals s (lastOf s ends) +
        times ends.length (h + inherited m t a) := by
  induction ends generalizing s with
  | nil =>
    have : ivSumIn m a.intervals s s = 0 :=
      ivSumIn_self m a.intervals s (fun L hL iv hiv => (hc L hL iv hiv).2.1)
    simp [piecesFrom, lastOf, weight, times, this]; grind
  | cons e rest ih =>
    have hb := hinc.2.lastOf_bounds
    have hse := hinc.1
    have hsplit := ivSumIn_split m a.intervals (s : Int) (e : Int) (lastOf e rest : Int) (by omega) (by omega)
      (fun L hL iv hiv => ⟨(hc L hL iv hiv).2.1, (hc L hL iv hiv).2.2.2 e (by simp)⟩)
    simp only [piecesFrom, lastOf, List.map_cons, List.sum_cons, List.length_cons, times]
    rw [ih e hinc.2 hc.tail, amass_slice_iv w m t h a s e hc.pair,
      residues_slice a s e (by omega) (by omega),
      ← drop_take_append (residues a) s e (lastOf e rest) (by omega) hb.1, weight_append, hsplit]
    have e0 : ¬ (e = 0 ∧ rest ≠ []) := by omega
    simp only [e0, if_false, ne_eq, reduceCtorEq, not_false_eq_true, and_true]
    by_cases hr : rest = []
    · subst hr
      simp only [lastOf, ne_eq, not_true_eq_false, and_false, if_false]
      have : e ≤ a.seq.length := hb.2.1
      by_cases he : e < a.seq.length
      · have : ¬ e = a.seq.length := by omega
        simp only [he, this, if_true, if_false]; grind
      · have : e = a.seq.length := by omega
        simp only [he, this, if_true, if_false]; grind
    · have h1 := hb.2.2 hr
      have he : e < a.seq.length := by omega
      simp only [he, if_true, hr, ne_eq, not_false_eq_true, and_true]
      grind

theorem ivSumIn_all (m : Mod → Rat) (ivs : Option (List Interval)) (n : Nat)
    (hwf : ∀ L, ivs = some L → ∀ iv ∈ L, 0 ≤ iv.start ∧ iv.stop ≤ (n : Int)) :
    ivSumIn m ivs 0 n = intervalSum m ivs := by
  cases hL : ivs with
  | none => rfl
  | some L =>
    have hw := hwf L hL
    simp only [ivSumIn, intervalSum]
    clear hL hwf
    induction L with
    | nil => rfl
    | cons iv t ih =>
      have c := hw iv (by simp)
      simp only [List.filter_cons, c, and_self, decide_true, if_true, List.map_cons, List.sum_cons,
        ih (fun x hx => hw x (by simp [hx]))]

/-! ### shift of intervals (after fix 918a950) -/


theorem add_emod_range (i e n : Int) (hi0 : 0 ≤ i) (hi : i < n) (he0 : 0 ≤ e) (he : e < n) :
    (i + e) % n = if i + e < n then i + e else i + e - n := by
  split
  · exact Int.emod_eq_of_lt (by omega) (by omega)
  · rw [← Int.sub_emod_right (i + e) n]
    exact Int.emod_eq_of_lt (by omega) (by omega)

/-- the shifted interval when the rotation point is not strictly inside it -/
theorem shiftInterval_nowrap (eff n : Int) (iv : Interval) (he0 : 0 ≤ eff) (he : eff < n)
    (hwf : 0 ≤ iv.start ∧ iv.start < iv.stop ∧ iv.stop ≤ n) (hnw : ¬ wraps eff iv) :
    shiftInterval eff n iv =
      { iv with start := if eff ≤ iv.start then iv.start - eff else iv.start - eff + n,
                stop := if eff ≤ iv.start then iv.stop - eff else iv.stop - eff + n } := by
  unfold wraps at hnw
  unfold shiftInterval
  rw [sub_emod_range iv.start eff n (by omega) (by omega) he0 he,
    sub_emod_range (iv.stop - 1) eff n (by omega) (by omega) he0 he]
  by_cases h : eff ≤ iv.start
  · have h2 : eff ≤ iv.stop - 1 := by omega
    simp only [h, h2, if_true]
    have : ¬ (iv.start - eff > iv.stop - 1 - eff + 1) := by omega
    simp only [this, if_false]
    congr 1; omega
  · have h2 : ¬ eff ≤ iv.stop - 1 := by omega
    simp only [h, h2, if_false]
    have : ¬ (iv.start - eff + n > iv.stop - 1 - eff + n + 1) := by omega
    simp only [this, if_false]
    congr 1; omega

theorem shiftInterval_zero (n : Int) (iv : Interval) (hn : 0 < n)
    (hwf : 0 ≤ iv.start ∧ iv.start < iv.stop ∧ iv.stop ≤ n) : shiftInterval 0 n iv = iv := by
  rw [shiftInterval_nowrap 0 n iv (by omega) hn hwf (by unfold wraps; omega)]
  have : (0 : Int) ≤ iv.start := hwf.1
  simp only [this, if_true, Int.sub_zero]

theorem shiftInterval_inverse (eff eff' n : Int) (iv : Interval) (he0 : 0 ≤ eff) (he : eff < n)
    (he' : eff' = if eff = 0 then 0 else n - eff)
    (hwf : 0 ≤ iv.start ∧ iv.start < iv.stop ∧ iv.stop ≤ n) (hnw : ¬ wraps eff iv) :
    shiftInterval eff' n (shiftInterval eff n iv) = iv := by
  rw [shiftInterval_nowrap eff n iv he0 he hwf hnw]
  unfold wraps at hnw
  by_cases h0 : eff = 0
  · subst h0
    simp only [if_true] at he'
    subst he'
    have : (0 : Int) ≤ iv.start := hwf.1
    simp only [this, if_true, Int.sub_zero]
    exact shiftInterval_zero n iv (by omega) hwf
  · simp only [h0, if_false] at he'
    subst he'
    by_cases h : eff ≤ iv.start
    · simp only [h, if_true]
      rw [shiftInterval_nowrap (n - eff) n _ (by omega) (by omega) (by simp only []; omega)
        (by unfold wraps; simp only []; omega)]
      have : ¬ (n - eff ≤ iv.start - eff) := by omega
      simp only [this, if_false]
      cases iv; simp only [Interval.mk.injEq, and_true]; constructor <;> omega
    · simp only [h, if_false]
      rw [shiftInterval_nowrap (n - eff) n _ (by omega) (by omega) (by simp only []; omega)
        (by unfold wraps; simp only []; omega)]
      have : n - eff ≤ iv.start - eff + n := by omega
      simp only [this, if_true]
      cases iv; simp only [Interval.mk.injEq, and_true]; constructor <;> omega

/-- position `i` of the rotated sequence is covered by the shifted interval iff its source position `(i + eff) % n` is
covered by the original one -/
theorem shiftInterval_cover (eff n : Int) (iv : Interval) (he0 : 0 ≤ eff) (he : eff < n)
    (hwf : 0 ≤ iv.start ∧ iv.start < iv.stop ∧ iv.stop ≤ n) (hnw : ¬ wraps eff iv) (i : Int) (hi0 : 0 ≤ i) (hi : i < n) :
    covers (shiftInterval eff n iv) i ↔ covers iv ((i + eff) % n) := by
  rw [shiftInterval_nowrap eff n iv he0 he hwf hnw, add_emod_range i eff n hi0 hi he0 he]
  unfold wraps at hnw
  unfold covers
  by_cases h : eff ≤ iv.start
  · simp only [h, if_true]
    split <;> constructor <;> intro ⟨a, b⟩ <;> constructor <;> omega
  · simp only [h, if_false]
    split <;> constructor <;> intro ⟨a, b⟩ <;> constructor <;> omega


theorem startSorted_of_ok (n : Int) (L : List Interval)
    (h1 : ∀ iv ∈ L, 0 ≤ iv.start ∧ iv.start < iv.stop ∧ iv.stop ≤ n)
    (h2 : L.Pairwise (fun x y => x.stop ≤ y.start)) :
    L.Pairwise (fun x y => x.start.toNat < y.start.toNat) := by
  induction L with
  | nil => exact List.Pairwise.nil
  | cons x t ih =>
    rw [List.pairwise_cons] at h2 ⊢
    refine ⟨?_, ih (fun iv hiv => h1 iv (by simp [hiv])) h2.2⟩
    intro y hy
    have a1 := h1 x (by simp)
    have a2 := h1 y (by simp [hy])
    have a3 := h2.1 y hy
    omega

/-! ### facts about the demo annotations -/

theorem demo_keysOK : KeysOK demo := by
  intro d h
  have : d = [(0, [⟨.str ['P', 'h'], 1⟩]), (3, [⟨.int 16, 2⟩])] := by
    simp [demo] at h; exact h.symm
  subst this
  decide

theorem demoNoIv_keysOK : KeysOK demoNoIv := demo_keysOK

theorem demo_intervalsOK : IntervalsOK demo := by
  intro L h
  have : L = [⟨1, 3, false, some [⟨.int 1, 1⟩]⟩, ⟨3, 5, true, none⟩] := by simp [demo] at h; exact h.symm
  subst this
  decide

theorem demo_noWrap_3 : NoWrap demo 3 := by
  intro L h
  have : L = [⟨1, 3, false, some [⟨.int 1, 1⟩]⟩, ⟨3, 5, true, none⟩] := by simp [demo] at h; exact h.symm
  subst this
  decide

end Pept.Reorder
