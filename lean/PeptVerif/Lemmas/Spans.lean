import PeptVerif.Model.Spans
import PeptVerif.Spec.Spans
/-! Helper lemmas for C06 (core Lean only). -/
namespace Spans

/-- strictly increasing -/
def SSorted (l : List Int) : Prop := l.Pairwise (· < ·)

theorem mem_insertSorted (x y : Int) (l : List Int) : y ∈ insertSorted x l ↔ y = x ∨ y ∈ l := by
  induction l with
  | nil => simp [insertSorted]
  | cons a l ih =>
    simp only [insertSorted]
    split
    · simp
    · split
      · rename_i h; subst h; simp
      · simp [ih]; constructor <;> (intro h; rcases h with h | h | h <;> simp [h])

theorem ssorted_insertSorted (x : Int) (l : List Int) (h : SSorted l) : SSorted (insertSorted x l) := by
  induction l with
  | nil => simp [insertSorted, SSorted]
  | cons a l ih =>
    simp only [insertSorted]
    unfold SSorted at *
    rw [List.pairwise_cons] at h
    split
    · rename_i hxa
      rw [List.pairwise_cons]; refine ⟨?_, List.pairwise_cons.mpr h⟩
      intro b hb; rcases List.mem_cons.mp hb with rfl | hb
      · exact hxa
      · have := h.1 b hb; omega
    · split
      · exact List.pairwise_cons.mpr h
      · rename_i h1 h2
        rw [List.pairwise_cons]; refine ⟨?_, ih h.2⟩
        intro b hb
        rcases (mem_insertSorted x b l).mp hb with rfl | hb
        · omega
        · exact h.1 b hb

theorem ssorted_sortDedup (l : List Int) : SSorted (sortDedup l) := by
  induction l with
  | nil => simp [sortDedup, SSorted]
  | cons a l ih => exact ssorted_insertSorted a _ ih

theorem mem_sortDedup (x : Int) (l : List Int) : x ∈ sortDedup l ↔ x ∈ l := by
  induction l with
  | nil => simp [sortDedup]
  | cons a l ih =>
    have : sortDedup (a :: l) = insertSorted a (sortDedup l) := rfl
    rw [this, mem_insertSorted, ih]; simp

/-- in a strictly sorted list the index of an element is the number of smaller elements -/
theorem idx_eq_count (l : List Int) (h : SSorted l) (i : Nat) (x : Int) (hx : l[i]? = some x) :
    (l.filter (fun y => y < x)).length = i := by
  induction l generalizing i with
  | nil => simp at hx
  | cons a l ih =>
    unfold SSorted at h; rw [List.pairwise_cons] at h
    cases i with
    | zero =>
      simp at hx; subst hx
      have : ∀ y ∈ l, ¬ (y < a) := fun y hy => by have := h.1 y hy; omega
      simp [List.filter_cons]
      intro y hy; have := h.1 y hy; omega
    | succ i =>
      simp at hx
      have hxl : x ∈ l := List.mem_of_getElem? hx
      have hax : a < x := h.1 x hxl
      simp [List.filter_cons, hax]
      exact ih h.2 i hx

theorem mem_of_count (l : List Int) (h : SSorted l) (x : Int) (hx : x ∈ l) :
    l[(l.filter (fun y => y < x)).length]? = some x := by
  obtain ⟨i, hi⟩ := List.getElem?_of_mem hx
  rw [idx_eq_count l h i x hi]; exact hi

theorem inside_cons_head (a : Int) (l : List Int) (h : SSorted (a :: l)) (e : Int) :
    inside (a :: l) a e = (l.filter (fun y => y < e)).length := by
  unfold SSorted at h; rw [List.pairwise_cons] at h
  simp only [inside, List.filter_cons]
  have : ¬ (a < a) := by omega
  simp only [this, decide_false, Bool.false_and]
  congr 1
  apply List.filter_congr
  intro x hx
  have := h.1 x hx
  simp [this]

theorem inside_cons_tail (a : Int) (l : List Int) (h : SSorted (a :: l)) (s e : Int) (hs : s ∈ l) :
    inside (a :: l) s e = inside l s e := by
  unfold SSorted at h; rw [List.pairwise_cons] at h
  have := h.1 s hs
  simp only [inside, List.filter_cons]
  have : ¬ (s < a) := by omega
  simp [this]

theorem mem_enzGo (mc : Nat) (lo hi : Int) (l : List Int) (h : SSorted l) (s e v : Int) :
    (s, e, v) ∈ enzGo mc lo hi l ↔
      s ∈ l ∧ e ∈ l ∧ s < e ∧ v = (inside l s e : Int) ∧ inside l s e ≤ mc ∧ lo ≤ e - s ∧ e - s ≤ hi := by
  induction l with
  | nil => simp [enzGo]
  | cons a l ih =>
    have hl : SSorted l := by unfold SSorted at h ⊢; exact (List.pairwise_cons.mp h).2
    have hlt : ∀ y ∈ l, a < y := by unfold SSorted at h; exact (List.pairwise_cons.mp h).1
    simp only [enzGo, List.mem_append, List.mem_filterMap]
    rw [ih hl]
    constructor
    · rintro (⟨⟨e', j⟩, hmem, hif⟩ | ⟨hs, he, hse, hv, hmc, hb⟩)
      · simp only at hif
        split at hif
        · rename_i hb
          simp only [Option.some.injEq, Prod.mk.injEq] at hif
          obtain ⟨rfl, rfl, rfl⟩ := hif
          rw [List.mem_zipIdx_iff_getElem?] at hmem
          simp only [Nat.zero_add] at hmem
          rw [List.getElem?_take] at hmem
          split at hmem
          · rename_i hj
            have he : e' ∈ l := List.mem_of_getElem? hmem
            have hcnt := idx_eq_count l hl j e' hmem
            rw [inside_cons_head a l h e', hcnt]
            refine ⟨by simp, by simp [he], hlt e' he, rfl, by omega, hb.1, hb.2⟩
          · simp at hmem
        · simp at hif
      · have := hlt s hs
        rw [inside_cons_tail a l h s e hs]
        exact ⟨by simp [hs], by simp [he], hse, hv, hmc, hb⟩
    · rintro ⟨hs, he, hse, hv, hmc, hb⟩
      rcases List.mem_cons.mp hs with rfl | hs
      · left
        have he' : e ∈ l := by
          rcases List.mem_cons.mp he with rfl | he
          · omega
          · exact he
        rw [inside_cons_head s l h e] at hv hmc
        refine ⟨(e, (l.filter (fun y => y < e)).length), ?_, ?_⟩
        · rw [List.mem_zipIdx_iff_getElem?]
          simp only [Nat.zero_add]
          rw [List.getElem?_take, if_pos (by omega)]
          exact mem_of_count l hl e he'
        · simp [hb.1, hb.2, hv]
      · right
        have hsa := hlt s hs
        have he' : e ∈ l := by
          rcases List.mem_cons.mp he with rfl | he
          · omega
          · exact he
        rw [inside_cons_tail a l h s e hs] at hv hmc
        exact ⟨hs, he', hse, hv, hmc, hb⟩

end Spans
