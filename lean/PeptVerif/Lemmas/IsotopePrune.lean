import PeptVerif.Lemmas.Isotope
import Mathlib.Tactic.Ring
import Mathlib.Tactic.Linarith
import Mathlib.Tactic.FieldSimp
import Mathlib.Tactic.NormNum
/-!
# Helper lemmas for C14 (extension round 5): quantitative effect of pruning and rounding

`_convolve_distributions` forms every product `(m₁ + m₂, a₁·a₂)`, drops the products below the threshold, and merges the
survivors under the rounded key.  `convolve_eq_pushforward` states exactly that for the model function `convolve`
(`keptProducts` = all products in loop order, filtered by the threshold test; `pushforward` = re-key and merge).
All bounds below are consequences of this normal form and of the `integral` calculus of `Lemmas/Isotope.lean`.
-/
set_option linter.unusedSectionVars false
namespace Isotope

variable {κ : Type}

/-- every abundance is non-negative -/
def NonNeg (d : Dist κ) : Prop := ∀ p ∈ d, 0 ≤ p.2

theorem nonNeg_of_allPos {d : Dist κ} (h : AllPos d) : NonNeg d := fun p hp => le_of_lt (h p hp)

theorem nonNeg_tail {p : κ × Rat} {t : Dist κ} (h : NonNeg (p :: t)) : NonNeg t :=
  fun q hq => h q (List.mem_cons_of_mem _ hq)

theorem nonNeg_of_sublist {d e : Dist κ} (h : d.Sublist e) (he : NonNeg e) : NonNeg d :=
  fun p hp => he p (h.subset hp)

theorem integral_mono (d : Dist κ) (g h : κ → Rat) (hd : NonNeg d) (hgh : ∀ k, g k ≤ h k) :
    integral d g ≤ integral d h := by
  induction d with
  | nil => simp
  | cons p t ih =>
    obtain ⟨k, a⟩ := p
    simp only [integral_cons]
    have ha : 0 ≤ a := hd (k, a) (List.mem_cons_self ..)
    have h1 := ih (nonNeg_tail hd)
    have h2 := mul_le_mul_of_nonneg_left (hgh k) ha
    linarith

theorem total_nonneg (d : Dist κ) (hd : NonNeg d) : 0 ≤ total d := by
  have h := integral_mono d (fun _ => 0) (fun _ => 1) hd (fun _ => by norm_num)
  rw [integral_const_zero] at h
  exact h

/-- **loss of a threshold filter**: if every dropped entry has abundance `≤ θ`, filtering loses at most
`(number of dropped entries)·θ` of the total, and never gains. -/
theorem total_filter_bounds (d : Dist κ) (P : κ × Rat → Bool) (θ : Rat) (hd : NonNeg d)
    (hP : ∀ p ∈ d, P p = false → p.2 ≤ θ) :
    total d - ((d.length : Rat) - ((d.filter P).length : Rat)) * θ ≤ total (d.filter P) ∧
      total (d.filter P) ≤ total d := by
  induction d with
  | nil => simp [total]
  | cons p t ih =>
    obtain ⟨k, a⟩ := p
    have ha : 0 ≤ a := hd (k, a) (List.mem_cons_self ..)
    obtain ⟨i1, i2⟩ := ih (nonNeg_tail hd) (fun q hq => hP q (List.mem_cons_of_mem _ hq))
    simp only [total] at i1 i2 ⊢
    cases hk : P (k, a) with
    | true =>
      simp only [List.filter_cons, hk, if_true, integral_cons, List.length_cons]
      push_cast
      constructor <;> linarith
    | false =>
      have hle := hP (k, a) (List.mem_cons_self ..) hk
      simp only [List.filter_cons, hk, integral_cons, List.length_cons, Bool.false_eq_true, if_false]
      push_cast
      constructor <;> linarith

theorem length_filter_le_cast (d : Dist κ) (P : κ × Rat → Bool) : ((d.filter P).length : Rat) ≤ (d.length : Rat) := by
  exact_mod_cast List.length_filter_le P d

/-- crude form: at most `n·θ` is lost -/
theorem total_filter_lower (d : Dist κ) (P : κ × Rat → Bool) (θ : Rat) (hθ : 0 ≤ θ) (hd : NonNeg d)
    (hP : ∀ p ∈ d, P p = false → p.2 ≤ θ) :
    total d - (d.length : Rat) * θ ≤ total (d.filter P) := by
  have h := (total_filter_bounds d P θ hd hP).1
  have h2 : (0 : Rat) ≤ ((d.filter P).length : Rat) := by exact_mod_cast Nat.zero_le _
  have h3 := mul_nonneg h2 hθ
  linarith

section
variable [DecidableEq κ] [Add κ]

/-- the products of one entry of `dist1` with all of `dist2`, in loop order -/
def rowProducts (m1 : κ) (a1 : Rat) (d2 : Dist κ) : Dist κ := d2.map (fun p2 => (m1 + p2.1, a1 * p2.2))

/-- every product `(m₁ + m₂, a₁·a₂)` of the double loop, in loop order, before threshold, rounding and merging -/
def allProducts (d1 d2 : Dist κ) : Dist κ := d1.flatMap (fun p1 => rowProducts p1.1 p1.2 d2)

/-- the products that pass `new_abundance >= min_abundance_threshold` -/
def keptProducts (thr : Option Rat) (d1 d2 : Dist κ) : Dist κ := (allProducts d1 d2).filter (fun p => keep thr p.2)

theorem convRow_eq (rnd : κ → κ) (thr : Option Rat) (m1 : κ) (a1 : Rat) (d2 acc : Dist κ) :
    convRow rnd thr m1 a1 d2 acc =
      ((rowProducts m1 a1 d2).filter (fun p => keep thr p.2)).foldl (fun acc p => addKey acc (rnd p.1) p.2) acc := by
  induction d2 generalizing acc with
  | nil => rfl
  | cons p t ih =>
    obtain ⟨m2, a2⟩ := p
    simp only [convRow]
    rw [ih]
    cases hk : keep thr (a1 * a2) with
    | true => simp [rowProducts, hk]
    | false => simp [rowProducts, hk]

theorem convLoop_eq (rnd : κ → κ) (thr : Option Rat) (d1 d2 acc : Dist κ) :
    convLoop rnd thr d1 d2 acc =
      (keptProducts thr d1 d2).foldl (fun acc p => addKey acc (rnd p.1) p.2) acc := by
  induction d1 generalizing acc with
  | nil => rfl
  | cons p t ih =>
    obtain ⟨m1, a1⟩ := p
    simp only [convLoop]
    rw [ih, convRow_eq]
    simp only [keptProducts, allProducts, List.flatMap_cons, List.filter_append, List.foldl_append]

/-- **normal form of `_convolve_distributions`** (no `max_isotopes`): all products, threshold filter, then binning by the
rounded key — an equality of association lists, for every threshold and every rounding function. -/
theorem convolve_eq_pushforward (rnd : κ → κ) (thr : Option Rat) (d1 d2 : Dist κ) :
    convolve rnd thr none d1 d2 = pushforward rnd (keptProducts thr d1 d2) := by
  simp only [convolve, pushforward]
  exact convLoop_eq rnd thr d1 d2 []

theorem integral_convolve_pruned (rnd : κ → κ) (thr : Option Rat) (d1 d2 : Dist κ) (g : κ → Rat) :
    integral (convolve rnd thr none d1 d2) g = integral (keptProducts thr d1 d2) (fun k => g (rnd k)) := by
  rw [convolve_eq_pushforward, integral_pushforward]

theorem integral_rowProducts (m1 : κ) (a1 : Rat) (d2 : Dist κ) (g : κ → Rat) :
    integral (rowProducts m1 a1 d2) g = a1 * integral d2 (fun k => g (m1 + k)) := by
  induction d2 with
  | nil => simp [rowProducts]
  | cons p t ih =>
    obtain ⟨m2, a2⟩ := p
    simp only [rowProducts, List.map_cons, integral_cons] at ih ⊢
    rw [ih]; ring

theorem integral_allProducts (d1 d2 : Dist κ) (g : κ → Rat) :
    integral (allProducts d1 d2) g = integral d1 (fun k1 => integral d2 (fun k2 => g (k1 + k2))) := by
  induction d1 with
  | nil => simp [allProducts]
  | cons p t ih =>
    obtain ⟨m1, a1⟩ := p
    simp only [allProducts, List.flatMap_cons, integral_append, integral_cons] at ih ⊢
    rw [ih, integral_rowProducts]

theorem total_allProducts (d1 d2 : Dist κ) : total (allProducts d1 d2) = total d1 * total d2 := by
  unfold total
  rw [integral_allProducts]
  show integral d1 (fun _ => integral d2 (fun _ => 1)) = _
  rw [integral_const]; ring

theorem length_allProducts (d1 d2 : Dist κ) : (allProducts d1 d2).length = d1.length * d2.length := by
  induction d1 with
  | nil => simp [allProducts]
  | cons p t ih =>
    simp only [allProducts, List.flatMap_cons, List.length_append, List.length_cons, rowProducts, List.length_map] at ih ⊢
    rw [ih]; ring

theorem nonNeg_allProducts (d1 d2 : Dist κ) (h1 : NonNeg d1) (h2 : NonNeg d2) : NonNeg (allProducts d1 d2) := by
  intro p hp
  simp only [allProducts, rowProducts, List.mem_flatMap, List.mem_map] at hp
  obtain ⟨p1, hp1, p2, hp2, rfl⟩ := hp
  exact mul_nonneg (h1 p1 hp1) (h2 p2 hp2)

theorem nonNeg_keptProducts (thr : Option Rat) (d1 d2 : Dist κ) (h1 : NonNeg d1) (h2 : NonNeg d2) :
    NonNeg (keptProducts thr d1 d2) :=
  nonNeg_of_sublist List.filter_sublist (nonNeg_allProducts d1 d2 h1 h2)

theorem keep_false_le (θ a : Rat) (h : keep (some θ) a = false) : a ≤ θ := by
  simp only [keep, decide_eq_false_iff_not, not_le] at h
  exact le_of_lt h

/-- total of a pruned convolution step, sharp form: the loss is at most (number of dropped products)·θ -/
theorem total_convolve_pruned_bounds (rnd : κ → κ) (θ : Rat) (d1 d2 : Dist κ) (h1 : NonNeg d1) (h2 : NonNeg d2) :
    total d1 * total d2 -
        (((d1.length * d2.length : Nat) : Rat) - ((keptProducts (some θ) d1 d2).length : Rat)) * θ
      ≤ total (convolve rnd (some θ) none d1 d2) ∧
    total (convolve rnd (some θ) none d1 d2) ≤ total d1 * total d2 := by
  have hb := total_filter_bounds (allProducts d1 d2) (fun p => keep (some θ) p.2) θ (nonNeg_allProducts d1 d2 h1 h2)
    (fun p _ hp => keep_false_le θ p.2 hp)
  rw [total_allProducts, length_allProducts] at hb
  have ht : total (convolve rnd (some θ) none d1 d2) = total (keptProducts (some θ) d1 d2) := by
    simp only [total]; rw [integral_convolve_pruned]
  rw [ht]
  exact hb

/-- rounding of the merged key never changes the total, whatever the threshold -/
theorem total_convolve_round (rnd : κ → κ) (thr : Option Rat) (d1 d2 : Dist κ) :
    total (convolve rnd thr none d1 d2) = total (convolve id thr none d1 d2) := by
  simp only [total]; rw [integral_convolve_pruned, integral_convolve_pruned]

end

/-- first moment after rounding the merged key with a rounding function of error `≤ ε` -/
theorem moment_convolve_round (rnd : Rat → Rat) (ε : Rat) (hr : ∀ x, |rnd x - x| ≤ ε) (thr : Option Rat)
    (d1 d2 : Dist Rat) (h1 : NonNeg d1) (h2 : NonNeg d2) :
    |moment (convolve rnd thr none d1 d2) - moment (convolve id thr none d1 d2)|
      ≤ ε * total (convolve id thr none d1 d2) := by
  have hK := nonNeg_keptProducts thr d1 d2 h1 h2
  have e1 : moment (convolve rnd thr none d1 d2) = integral (keptProducts thr d1 d2) (fun k => rnd k) := by
    simp only [moment]; rw [integral_convolve_pruned]
  have e2 : moment (convolve id thr none d1 d2) = integral (keptProducts thr d1 d2) (fun k => k) := by
    simp only [moment]; rw [integral_convolve_pruned]; rfl
  have e3 : total (convolve id thr none d1 d2) = integral (keptProducts thr d1 d2) (fun _ => 1) := by
    simp only [total]; rw [integral_convolve_pruned]
  rw [e1, e2, e3]
  have up : integral (keptProducts thr d1 d2) (fun k => rnd k)
      ≤ integral (keptProducts thr d1 d2) (fun k => k + ε) :=
    integral_mono _ _ _ hK (fun k => by have := (abs_le.1 (hr k)).2; linarith)
  have lo : integral (keptProducts thr d1 d2) (fun k => k + -ε)
      ≤ integral (keptProducts thr d1 d2) (fun k => rnd k) :=
    integral_mono _ _ _ hK (fun k => by have := (abs_le.1 (hr k)).1; linarith)
  rw [integral_add, integral_const] at up lo
  rw [abs_le]
  constructor <;> linarith

/-! ### Python `round(x, nd)` on the exact value: error at most half a unit of the last place -/

theorem roundHalfEven_bound (x : Rat) :
    ((roundHalfEven x : Int) : Rat) - x ≤ 1 / 2 ∧ x - ((roundHalfEven x : Int) : Rat) ≤ 1 / 2 := by
  have h1 := Rat.floor_le x
  have h2 := Rat.lt_floor_add_one x
  push_cast at h2
  unfold roundHalfEven
  simp only []
  split_ifs <;> constructor <;> push_cast <;> linarith

theorem roundTo_err (r : Nat) (q : Rat) : |roundTo (r : Int) q - q| ≤ 1 / 2 / (10 : Rat) ^ r := by
  have hP : (0 : Rat) < (10 : Rat) ^ r := by positivity
  have hb := roundHalfEven_bound (q * (10 : Rat) ^ r)
  have key : roundTo (r : Int) q = ((roundHalfEven (q * (10 : Rat) ^ r) : Int) : Rat) / (10 : Rat) ^ r := by
    unfold roundTo
    simp
  rw [key, abs_le]
  constructor
  · have : ((roundHalfEven (q * (10 : Rat) ^ r) : Int) : Rat) / (10 : Rat) ^ r - q
        = (((roundHalfEven (q * (10 : Rat) ^ r) : Int) : Rat) - q * (10 : Rat) ^ r) / (10 : Rat) ^ r := by field_simp
    rw [this, neg_le, ← neg_div, neg_sub]
    exact (div_le_div_iff_of_pos_right hP).mpr hb.2
  · have : ((roundHalfEven (q * (10 : Rat) ^ r) : Int) : Rat) / (10 : Rat) ^ r - q
        = (((roundHalfEven (q * (10 : Rat) ^ r) : Int) : Rat) - q * (10 : Rat) ^ r) / (10 : Rat) ^ r := by field_simp
    rw [this]
    exact (div_le_div_iff_of_pos_right hP).mpr hb.1

/-! ### repeated pruned convolution (`_calculate_elemental_distribution` with its floor) -/
section
variable [DecidableEq κ] [Add κ]

/-- number of peaks entering the `count` convolution rounds of `_calculate_elemental_distribution`
(the sum of the lengths of the intermediate distributions `d₀ … d_{count-1}`) -/
def elementalWork (floor : Option Rat) (isotopes : Dist κ) : Nat → Dist κ → Nat
  | 0, _ => 0
  | n + 1, d => d.length + elementalWork floor isotopes n (convolve id floor none d isotopes)

theorem total_elementalFrom_pruned (θ : Rat) (hθ : 0 ≤ θ) (isos : Dist κ) (hi : AllPos isos) (h1 : total isos = 1)
    (n : Nat) (d : Dist κ) (hd : AllPos d) :
    total d - ((elementalWork (some θ) isos n d * isos.length : Nat) : Rat) * θ
        ≤ total (elementalFrom (some θ) isos n d) ∧
      total (elementalFrom (some θ) isos n d) ≤ total d := by
  induction n generalizing d with
  | zero => simp [elementalFrom, elementalWork]
  | succ n ih =>
    simp only [elementalFrom, elementalWork]
    have hpos := allPos_convolve id (some θ) none d isos hd hi
    obtain ⟨i1, i2⟩ := ih _ hpos
    obtain ⟨b1, b2⟩ := total_convolve_pruned_bounds id θ d isos (nonNeg_of_allPos hd) (nonNeg_of_allPos hi)
    rw [h1, mul_one] at b1 b2
    have hk : (0 : Rat) ≤ ((keptProducts (some θ) d isos).length : Rat) := by exact_mod_cast Nat.zero_le _
    have hk2 := mul_nonneg hk hθ
    push_cast at i1 b1 ⊢
    constructor
    · nlinarith
    · linarith

end

/-! ### the element loop with rounding, un-pruned: accumulated shift of the first moment -/

/-- the element loop with rounding at resolution `r`, no pruning (threshold 0 on positive abundances, floor off, no
`max_isotopes`): the first moment is within `(number of elements)·½·10^-r · Σ` of the un-rounded value -/
theorem moment_convolveList_round (r : Nat) (L : List (Dist Rat × Nat)) (d : Dist Rat) (hL : ListPos L) (hd : AllPos d)
    (h1 : ∀ x ∈ L, total x.1 = 1) :
    |moment (convolveList (roundOpt (some (r : Int))) (some 0) none none L d) - (moment d + total d * momentSum L)|
      ≤ (L.length : Rat) * (1 / 2 / (10 : Rat) ^ r) * total d := by
  induction L generalizing d with
  | nil => simp [convolveList, momentSum]
  | cons x t ih =>
    obtain ⟨isos, n⟩ := x
    have hi : AllPos isos := hL (isos, n) (List.mem_cons_self ..)
    have hT : total isos = 1 := h1 (isos, n) (List.mem_cons_self ..)
    have he : AllPos (elemental none isos n) :=
      allPos_elementalFrom none isos n _ hi (by intro p hp; simp at hp; subst hp; decide)
    have hte : total (elemental none isos n) = 1 := by
      unfold elemental; rw [total_elementalFrom, hT]; simp [total]
    have hme : moment (elemental none isos n) = n * moment isos := by
      unfold elemental; rw [moment_elementalFrom _ _ _ hT]; simp [total, moment]
    have hk := allKept_zero _ _ hd he
    have hstep := moment_convolve_round (roundOpt (some (r : Int))) _ (fun x => roundTo_err r x) (some 0)
      d (elemental none isos n) (nonNeg_of_allPos hd) (nonNeg_of_allPos he)
    rw [moment_convolve _ _ _ hk, total_convolve _ _ _ _ hk, hte, hme] at hstep
    have htot : total (convolve (roundOpt (some (r : Int))) (some 0) none d (elemental none isos n)) = total d := by
      rw [total_convolve _ _ _ _ hk, hte, mul_one]
    have hrec := ih _ (fun y hy => hL y (List.mem_cons_of_mem _ hy))
      (allPos_convolve (roundOpt (some (r : Int))) (some 0) none _ _ hd he)
      (fun y hy => h1 y (List.mem_cons_of_mem _ hy))
    rw [htot] at hrec
    simp only [convolveList, momentSum, List.length_cons]
    obtain ⟨a1, a2⟩ := abs_le.1 hstep
    obtain ⟨b1, b2⟩ := abs_le.1 hrec
    rw [abs_le]
    push_cast
    constructor <;> nlinarith

theorem totalProd_one (L : List (Dist Rat × Nat)) (h1 : ∀ x ∈ L, total x.1 = 1) : totalProd L = 1 := by
  induction L with
  | nil => rfl
  | cons x r ih =>
    obtain ⟨isos, n⟩ := x
    simp only [totalProd, h1 (isos, n) (List.mem_cons_self ..), one_pow, one_mul]
    exact ih (fun y hy => h1 y (List.mem_cons_of_mem _ hy))

end Isotope
