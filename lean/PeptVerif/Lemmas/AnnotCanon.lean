import PeptVerif.Lemmas.AnnotEq
import Mathlib.Data.Multiset.Basic
/-! Helper lemmas for C20: canonical form of an annotation (multisets of keys per position) and `==` as equality of canonical forms. -/
namespace Pept

/-- multiset equality modulo `r` is permutation of keys when `r` is "same key" -/
theorem msEq_iff_perm_of_key {α κ : Type} [DecidableEq κ] (r : α → α → Bool) (key : α → κ)
    (h : ∀ x y, r x y = true ↔ key x = key y) (a b : List α) :
    msEq r a b = true ↔ (a.map key).Perm (b.map key) := by
  have hc : ∀ (m : α) (l : List α), l.countP (r m) = (l.map key).count (key m) := by
    intro m l
    induction l with
    | nil => simp
    | cons x xs ih =>
      simp only [List.countP_cons, List.map_cons, List.count_cons, ih]
      congr 1
      by_cases hk : key m = key x
      · simp [(h m x).2 hk, hk]
      · have : r m x = false := by
          cases hm : r m x with
          | false => rfl
          | true => exact absurd ((h m x).1 hm) hk
        have hk' : ¬ (key x = key m) := fun e => hk e.symm
        simp [this, hk']
  rw [msEq_iff, List.perm_iff_count]
  constructor
  · intro hh k
    by_cases hk : k ∈ a.map key ∨ k ∈ b.map key
    · have : ∃ m, (m ∈ a ∨ m ∈ b) ∧ key m = k := by
        rcases hk with hk | hk
        · obtain ⟨m, hm, rfl⟩ := List.mem_map.1 hk; exact ⟨m, Or.inl hm, rfl⟩
        · obtain ⟨m, hm, rfl⟩ := List.mem_map.1 hk; exact ⟨m, Or.inr hm, rfl⟩
      obtain ⟨m, hm, rfl⟩ := this
      have := hh m hm
      rwa [hc, hc] at this
    · have h1 : k ∉ a.map key := fun x => hk (Or.inl x)
      have h2 : k ∉ b.map key := fun x => hk (Or.inr x)
      rw [List.count_eq_zero_of_not_mem h1, List.count_eq_zero_of_not_mem h2]
  · intro hh m _
    rw [hc, hc]
    exact hh (key m)

/-- canonical form of a mod list: the multiset of its (value, multiplier) keys -/
def canonMods (o : Option (List Mod)) : Option (Multiset ModKey) := o.map fun l => ((l.map modKey : List ModKey) : Multiset ModKey)

theorem areModsEqual_iff_canon (o o' : Option (List Mod)) : areModsEqual o o' = true ↔ canonMods o = canonMods o' := by
  cases o <;> cases o' <;> simp [areModsEqual, canonMods, counterEq_iff_perm]

abbrev IvKey := Int × Int × Bool × Option (Multiset ModKey)

noncomputable instance : DecidableEq IvKey := Classical.decEq _

def ivKey (i : Interval) : IvKey := (i.start, i.stop, i.ambiguous, canonMods i.mods)

theorem ivEq_iff_key (i j : Interval) : ivEq i j = true ↔ ivKey i = ivKey j := by
  rw [ivEq_iff, areModsEqual_iff_canon]
  simp [ivKey, Prod.ext_iff]

def canonIvs (o : Option (List Interval)) : Option (Multiset IvKey) := o.map fun l => ((l.map ivKey : List IvKey) : Multiset IvKey)

theorem areIntervalsEqual_iff_canon (o o' : Option (List Interval)) :
    areIntervalsEqual o o' = true ↔ canonIvs o = canonIvs o' := by
  cases o with
  | none => cases o' <;> simp [areIntervalsEqual, canonIvs]
  | some a =>
    cases o' with
    | none => simp [areIntervalsEqual, canonIvs]
    | some b =>
      rw [areIntervalsEqual_some, msEq_iff_perm_of_key ivEq ivKey ivEq_iff_key]
      simp only [canonIvs, Option.map_some, Option.some.injEq, Multiset.coe_eq_coe]
      constructor
      · exact fun h => h.2
      · intro h
        exact ⟨by simpa using h.length_eq, h⟩

/-- canonical form of an annotation: residues, charge, and per position the multiset of keys -/
structure EqCanon where
  seq : List Char
  labile : Option (Multiset ModKey)
  unknown : Option (Multiset ModKey)
  nterm : Option (Multiset ModKey)
  cterm : Option (Multiset ModKey)
  adducts : Option (Multiset ModKey)
  isotope : Option (Multiset ModKey)
  static : Option (Multiset ModKey)
  internal : Int → Option (Multiset ModKey)
  intervals : Option (Multiset IvKey)
  charge : Option Int

def eqCanon (a : Annotation) : EqCanon :=
  { seq := a.seq, labile := canonMods a.labile, unknown := canonMods a.unknown, nterm := canonMods a.nterm,
    cterm := canonMods a.cterm, adducts := canonMods a.adducts, isotope := canonMods a.isotope,
    static := canonMods a.static, internal := fun k => canonMods (getInternal a k),
    intervals := canonIvs a.intervals, charge := a.charge }

theorem annEq_iff_canon (a b : Annotation) : annEq a b = true ↔ eqCanon a = eqCanon b := by
  rw [annEq_iff]
  constructor
  · intro h
    simp only [eqCanon, EqCanon.mk.injEq]
    refine ⟨h.seq, (areModsEqual_iff_canon _ _).1 h.labile, (areModsEqual_iff_canon _ _).1 h.unknown,
      (areModsEqual_iff_canon _ _).1 h.nterm, (areModsEqual_iff_canon _ _).1 h.cterm,
      (areModsEqual_iff_canon _ _).1 h.adducts, (areModsEqual_iff_canon _ _).1 h.isotope,
      (areModsEqual_iff_canon _ _).1 h.static, ?_, (areIntervalsEqual_iff_canon _ _).1 h.intervals, h.charge⟩
    funext k
    exact (areModsEqual_iff_canon _ _).1 (h.internal k)
  · intro h
    simp only [eqCanon, EqCanon.mk.injEq] at h
    obtain ⟨h1, h2, h3, h4, h5, h6, h7, h8, h9, h10, h11⟩ := h
    exact ⟨h1, (areModsEqual_iff_canon _ _).2 h2, (areModsEqual_iff_canon _ _).2 h3, (areModsEqual_iff_canon _ _).2 h4,
      (areModsEqual_iff_canon _ _).2 h5, (areModsEqual_iff_canon _ _).2 h6, (areModsEqual_iff_canon _ _).2 h7,
      (areModsEqual_iff_canon _ _).2 h8, fun k => (areModsEqual_iff_canon _ _).2 (congrFun h9 k),
      (areIntervalsEqual_iff_canon _ _).2 h10, h11⟩

end Pept
