import PeptVerif.Lemmas.ParserMiddle
/-!
Helper lemmas for C01: one whole chain through the three phases, the chain loop, the `_is_unmodified` shortcut.
No Mathlib.
-/
namespace Pept

theorem optL_of_canonInternal (n : Int) (x : Option (List (Int × List Mod))) (h : canonInternal n x = true) :
    optL (x.getD []) = x := by
  cases x with
  | none => simp [optL]
  | some l =>
    simp only [canonInternal, Bool.and_eq_true, Bool.not_eq_eq_eq_not, Bool.not_true] at h
    have : l ≠ [] := by intro hl; subst hl; simp at h
    simp [optL, this]

theorem optL_of_canonIntervals (n : Int) (x : Option (List Interval)) (h : canonIntervals n x = true) :
    optL (x.getD []) = x := by
  cases x with
  | none => simp [optL]
  | some l =>
    simp only [canonIntervals, Bool.and_eq_true, Bool.not_eq_eq_eq_not, Bool.not_true] at h
    have : l ≠ [] := by intro hl; subst hl; simp at h
    simp [optL, this]

theorem canonInternal_list (n : Int) (x : Option (List (Int × List Mod))) (h : canonInternal n x = true) :
    canonInternalList n 0 (x.getD []) = true := by
  cases x with
  | none => rfl
  | some l => simp only [canonInternal, Bool.and_eq_true] at h; exact h.2

theorem canonIntervals_list (n : Int) (x : Option (List Interval)) (h : canonIntervals n x = true) :
    canonIntervalList n 0 (x.getD []) = true := by
  cases x with
  | none => rfl
  | some l => simp only [canonIntervals, Bool.and_eq_true] at h; exact h.2

/-- **middle section**: residues, their modifications and the intervals written by
`_serialize_annotation_middle` are read back by `_parse_sequence_middle` -/
theorem parseMiddle_serializeMiddle' (plus : Plus) (a acc : Annotation) (hs : a.seq.all isAA = true)
    (hD : canonInternal (Int.ofNat a.seq.length) a.internal = true)
    (hL : canonIntervals (Int.ofNat a.seq.length) a.intervals = true)
    (h1 : acc.seq = []) (h2 : acc.internal = none) (h3 : acc.intervals = none)
    (tail : List Char) (htail : MidStop tail) :
    parseMiddle acc none (serializeMiddle plus a ++ tail) =
      parseMiddle { acc with seq := a.seq, internal := a.internal, intervals := a.intervals } none tail := by
  have := parseMiddle_residues plus a (Int.ofNat a.seq.length) a.seq acc none 0 [] (a.internal.getD []) []
    (a.intervals.getD []) hs (by simp [h1]) (by simp) (by simp [h1]) (by simp) (by simp)
    (canonInternal_list _ _ hD) (by simp [h2, optL]) (by simp) (by simp) (by simp [h3, optL])
    (Or.inl ⟨rfl, canonIntervals_list _ _ hL⟩) tail htail
  unfold serializeMiddle
  rw [this, optL_of_canonInternal _ _ hD, optL_of_canonIntervals _ _ hL]

/-- the middle section of a canonical chain starts with a residue or `(` -/
theorem startStop_middle (plus : Plus) (a : Annotation) (hne : a.seq ≠ []) (hs : a.seq.all isAA = true)
    (hL : canonIntervals (Int.ofNat a.seq.length) a.intervals = true) (tail : List Char) :
    StartStop (serializeMiddle plus a ++ tail) := by
  unfold serializeMiddle
  rw [serializeResidues_eq]
  cases hq : a.seq with
  | nil => exact absurd hq hne
  | cons c t =>
    simp only
    rw [marksL_closed plus _ 0 true _ (canonIntervals_list _ _ hL)]
    rw [hq] at hs
    simp only [List.all_cons, Bool.and_eq_true] at hs
    right
    cases a.intervals.getD [] with
    | nil => exact ⟨c, _, rfl, Or.inl hs.1⟩
    | cons iv L =>
      simp only [openMark]
      split
      · exact ⟨'(', _, rfl, Or.inr rfl⟩
      · exact ⟨c, _, rfl, Or.inl hs.1⟩

/-- text of the end section split into the C-terminal part (read by the middle phase) and the charge part -/
def ctermText (plus : Plus) : Option (List Mod) → List Char
  | none => []
  | some [] => []
  | some l => '-' :: serializeMods '[' ']' plus l

def chargeText (plus : Plus) (ch : Option Int) (ad : Option (List Mod)) : List Char :=
  (match ch with
   | none => []
   | some c => '/' :: intText c) ++ optMods '[' ']' plus ad

theorem serializeEnd_eq (plus : Plus) (a : Annotation) :
    serializeEnd plus a = ctermText plus a.cterm ++ chargeText plus a.charge a.adducts := by
  unfold serializeEnd ctermText chargeText
  cases a.cterm with
  | none => simp; cases a.charge <;> rfl
  | some l => cases l <;> simp <;> cases a.charge <;> rfl


theorem ctermText_some (plus : Plus) (l : List Mod) (h : l ≠ []) :
    ctermText plus (some l) = '-' :: serializeMods '[' ']' plus l := by
  cases l with
  | nil => exact absurd rfl h
  | cons m t => rfl

theorem serializeMiddle_ne_nil (plus : Plus) (a : Annotation) (hne : a.seq ≠ []) : serializeMiddle plus a ≠ [] := by
  unfold serializeMiddle
  cases hq : a.seq with
  | nil => exact absurd hq hne
  | cons c t => simp [serializeResidues]

theorem Annotation.ext11 (a b : Annotation) (h1 : a.seq = b.seq) (h2 : a.isotope = b.isotope) (h3 : a.static = b.static)
    (h4 : a.labile = b.labile) (h5 : a.unknown = b.unknown) (h6 : a.nterm = b.nterm) (h7 : a.cterm = b.cterm)
    (h8 : a.internal = b.internal) (h9 : a.intervals = b.intervals) (h10 : a.charge = b.charge)
    (h11 : a.adducts = b.adducts) : a = b := by
  cases a; cases b; simp_all

/-- the middle and end phases on the middle / end text of a canonical chain, started from ANY accumulator whose
middle / end fields are still empty (whatever the leading sections put into it) -/
theorem phases_tail (plus : Plus) (a : Annotation) (hc : canon a = true) (acc1 : Annotation)
    (g1 : acc1.seq = []) (g2 : acc1.internal = none) (g3 : acc1.intervals = none) (g4 : acc1.cterm = none)
    (g5 : acc1.charge = none) (g6 : acc1.adducts = none) (conn : Option Bool) (rest : List Char)
    (hrest : ChainStop rest) :
    ∃ a2 r2,
      parseMiddle acc1 none
        (serializeMiddle plus a ++ (ctermText plus a.cterm ++ (chargeText plus a.charge a.adducts ++ rest))) = .ok (a2, r2) ∧
      parseEnd a2 conn r2 =
        .ok ({ acc1 with seq := a.seq, internal := a.internal, intervals := a.intervals, cterm := a.cterm,
                         charge := a.charge, adducts := a.adducts }, stopConn conn rest, stopRest rest) ∧
      StartStop (serializeMiddle plus a ++ (ctermText plus a.cterm ++ (chargeText plus a.charge a.adducts ++ rest))) := by
  simp only [canon, Bool.and_eq_true, Bool.not_eq_eq_eq_not, Bool.not_true] at hc
  obtain ⟨⟨⟨⟨⟨⟨⟨⟨⟨⟨hne, hAA⟩, hlab⟩, hst⟩, hiso⟩, hunk⟩, hnt⟩, hD⟩, hL⟩, hct⟩, had⟩ := hc
  have hne' : a.seq ≠ [] := by intro h; rw [h] at hne; simp at hne
  -- what follows the charge part
  have hQ : chargeText plus a.charge a.adducts ++ rest = [] ∨
      ∃ c r, chargeText plus a.charge a.adducts ++ rest = c :: r ∧ (c = '/' ∨ c = '+') := by
    unfold chargeText
    cases hcq : a.charge with
    | none =>
      rw [hcq] at had
      cases haq : a.adducts with
      | none =>
        simp only [optMods, List.append_nil, List.nil_append]
        rcases hrest with h | ⟨t, h⟩ | ⟨t, h⟩ <;> subst h
        · exact Or.inl rfl
        · exact Or.inr ⟨'+', t, rfl, Or.inr rfl⟩
        · exact Or.inr ⟨'/', _, rfl, Or.inl rfl⟩
      | some l => rw [haq] at had; simp [canonAdducts] at had
    | some ch =>
      simp only [List.cons_append, List.append_assoc]
      exact Or.inr ⟨'/', _, rfl, Or.inl rfl⟩
  have hQstop : MidStop (chargeText plus a.charge a.adducts ++ rest) := by
    rcases hQ with h | ⟨c, r, h, hc⟩
    · rw [h]; exact ⟨ModStop.nil, by simp⟩
    · rw [h]
      rcases hc with hc | hc <;> subst hc
      · exact ⟨ModStop.cons (by decide) (by decide), by simp⟩
      · exact ⟨ModStop.cons (by decide) (by decide), by simp⟩
  have hCstop : MidStop (ctermText plus a.cterm ++ (chargeText plus a.charge a.adducts ++ rest)) := by
    cases hcq : a.cterm with
    | none => simpa [ctermText] using hQstop
    | some l =>
      rw [hcq] at hct
      obtain ⟨hl, _⟩ := canonOptMods_some _ _ _ hct
      rw [ctermText_some plus l hl]
      exact ⟨ModStop.cons (by decide) (by decide), by simp⟩
  -- middle
  have hM := parseMiddle_serializeMiddle' plus a acc1 hAA hD hL g1 g2 g3 _ hCstop
  let a2 : Annotation :=
    { acc1 with seq := a.seq, internal := a.internal, intervals := a.intervals, cterm := a.cterm }
  refine ⟨a2, chargeText plus a.charge a.adducts ++ rest, ?_, ?_, startStop_middle plus a hne' hAA hL _⟩
  · rw [hM]
    cases hcq : a.cterm with
    | none =>
      simp only [ctermText, List.nil_append]
      rw [pm_stop _ _ hQ]
      simp [a2, hcq, g4]
    | some l =>
      rw [hcq] at hct
      obtain ⟨hl, hall⟩ := canonOptMods_some _ _ _ hct
      rw [ctermText_some plus l hl]
      simp only [List.cons_append]
      rw [pm_cterm plus _ l hl hall _ hQstop]
      simp [addMods, a2, hcq, g4]
  · unfold chargeText
    cases hcq : a.charge with
    | none =>
      rw [hcq] at had
      cases haq : a.adducts with
      | some l => rw [haq] at had; simp [canonAdducts] at had
      | none =>
        simp only [optMods, List.append_nil, List.nil_append]
        rw [parseEnd_stop _ _ _ hrest]
        congr 2
        exact Annotation.ext11 _ _ rfl rfl rfl rfl rfl rfl rfl rfl rfl g5 g6
    | some ch =>
      rw [hcq] at had
      simp only [List.cons_append, List.append_assoc]
      rw [parseEnd_charge plus a2 (by simp [a2, g6]) conn ch a.adducts had rest hrest, parseEnd_stop _ _ _ hrest]

/-- the three phases on one canonical chain followed by the end of the input or by the joiner of the next chain -/
theorem phases_chain (plus : Plus) (a : Annotation) (hc : canon a = true) (conn : Option Bool) (rest : List Char)
    (hrest : ChainStop rest) :
    ∃ a1 r1 a2 r2,
      parseStart true { seq := [] } (serialize plus a ++ rest) = .ok (a1, r1) ∧
      parseMiddle a1 none r1 = .ok (a2, r2) ∧
      parseEnd a2 conn r2 = .ok (a, stopConn conn rest, stopRest rest) := by
  have hc' := hc
  simp only [canon, Bool.and_eq_true, Bool.not_eq_eq_eq_not, Bool.not_true] at hc'
  obtain ⟨⟨⟨⟨⟨⟨⟨⟨⟨⟨hne, hAA⟩, hlab⟩, hst⟩, hiso⟩, hunk⟩, hnt⟩, hD⟩, hL⟩, hct⟩, had⟩ := hc'
  have htext : serialize plus a ++ rest =
      optMods '{' '}' plus a.labile ++ (optMods '<' '>' plus a.static ++ (optMods '<' '>' plus a.isotope ++
        (optSection plus '?' a.unknown ++ (optSection plus '-' a.nterm ++
          (serializeMiddle plus a ++ (ctermText plus a.cterm ++ (chargeText plus a.charge a.adducts ++ rest))))))) := by
    unfold serialize
    rw [serializeStart_eq, serializeEnd_eq]
    simp only [List.append_assoc]
  let a1 : Annotation :=
    { seq := [], labile := a.labile, static := a.static, isotope := a.isotope, unknown := a.unknown, nterm := a.nterm }
  obtain ⟨a2, r2, hM, hE, hSS⟩ := phases_tail plus a hc a1 rfl rfl rfl rfl rfl rfl conn rest hrest
  have hS := parseStart_sections plus a.labile a.static a.isotope a.unknown a.nterm hlab hst hiso hunk hnt _ hSS
  refine ⟨a1, _, a2, r2, by rw [htext]; exact hS, hM, ?_⟩
  rw [hE]

theorem serialize_ne_nil (plus : Plus) (a : Annotation) (hne : a.seq ≠ []) : serialize plus a ≠ [] := by
  unfold serialize
  intro h
  have := serializeMiddle_ne_nil plus a hne
  simp at h
  exact this h.2.1

/-- one iteration of the chain loop on a canonical chain -/
theorem parseChains_chain (plus : Plus) (a : Annotation) (hc : canon a = true) (conn : Option Bool) (rest : List Char)
    (hrest : ChainStop rest) :
    parseChains true conn (serialize plus a ++ rest) =
      match parseChains true (stopConn conn rest) (stopRest rest) with
      | .error e => .error e
      | .ok l => .ok ((a, stopConn conn rest) :: l) := by
  obtain ⟨a1, r1, a2, r2, h1, h2, h3⟩ := phases_chain plus a hc conn rest hrest
  have hne : a.seq ≠ [] := by
    simp only [canon, Bool.and_eq_true, Bool.not_eq_eq_eq_not, Bool.not_true] at hc
    intro h; rw [h] at hc; simp at hc
  have hlen : (stopRest rest).length < (serialize plus a ++ rest).length := by
    have := serialize_ne_nil plus a hne
    have h2 := stopRest_length rest
    cases hs : serialize plus a with
    | nil => exact absurd hs this
    | cons x xs => simp; omega
  cases htext : serialize plus a ++ rest with
  | nil => rw [htext] at hlen; simp at hlen
  | cons c cs =>
    rw [htext] at h1 hlen
    rw [parseChains.eq_def]
    simp only [h1, h2, h3, hlen, ↓reduceDIte]
    cases parseChains true (stopConn conn rest) (stopRest rest) <;> rfl


theorem parseMiddle_allAA (acc : Annotation) (s : List Char) (hs : s.all isAA = true) :
    parseMiddle acc none s = .ok ({ acc with seq := acc.seq ++ s }, []) := by
  induction s generalizing acc with
  | nil => rw [parseMiddle.eq_def]; simp
  | cons c t ih =>
    simp only [List.all_cons, Bool.and_eq_true] at hs
    rw [pm_res _ _ _ _ hs.1, ih _ hs.2]
    simp

/-- the chain parser agrees with the `_is_unmodified` shortcut of `parse` on bare residue strings -/
theorem parseChains_allAA (conn : Option Bool) (s : List Char) (hs : s.all isAA = true) (hne : s ≠ []) :
    parseChains true conn s = .ok [({ seq := s }, conn)] := by
  cases s with
  | nil => exact absurd rfl hne
  | cons c t =>
    have hc : isAA c = true := by simp only [List.all_cons, Bool.and_eq_true] at hs; exact hs.1
    rw [parseChains.eq_def]
    simp only
    rw [parseStart_stop _ _ (Or.inr ⟨c, t, rfl, Or.inl hc⟩)]
    simp only
    rw [parseMiddle_allAA _ _ hs]
    simp only
    rw [parseEnd.eq_def]
    simp only [List.length_nil, List.length_cons, Nat.zero_lt_succ, ↓reduceDIte]
    rw [parseChains.eq_def]
    simp


/-! ### several chains joined by `+` -/

/-- `MultiProFormaAnnotation.serialize` when every connection is `False` -/
def chainsText (plus : Plus) : List Annotation → List Char
  | [] => []
  | [a] => serialize plus a
  | a :: b :: t => serialize plus a ++ '+' :: chainsText plus (b :: t)

/-- what the chain loop yields: `_current_connection` is `False` after every `+`, and stale on the last chain -/
def chainsResult (conn : Option Bool) : List Annotation → List (Annotation × Option Bool)
  | [] => []
  | [a] => [(a, conn)]
  | a :: b :: t => (a, some false) :: chainsResult (some false) (b :: t)

theorem parseChains_chainsText (plus : Plus) (as : List Annotation) (hne : as ≠ []) (hc : as.all canon = true)
    (conn : Option Bool) : parseChains true conn (chainsText plus as) = .ok (chainsResult conn as) := by
  induction as generalizing conn with
  | nil => exact absurd rfl hne
  | cons a t ih =>
    simp only [List.all_cons, Bool.and_eq_true] at hc
    cases t with
    | nil =>
      have := parseChains_chain plus a hc.1 conn [] (Or.inl rfl)
      simp only [List.append_nil, stopConn, stopRest] at this
      rw [chainsText, this, parseChains.eq_def]
      rfl
    | cons b t' =>
      have := parseChains_chain plus a hc.1 conn ('+' :: chainsText plus (b :: t')) (Or.inr (Or.inl ⟨_, rfl⟩))
      simp only [stopConn, stopRest] at this
      rw [chainsText, this, ih (by simp) hc.2]
      rfl

theorem chainsResult_fst (conn : Option Bool) (as : List Annotation) : (chainsResult conn as).map (·.1) = as := by
  induction as generalizing conn with
  | nil => rfl
  | cons a t ih =>
    cases t with
    | nil => rfl
    | cons b t' => simp only [chainsResult, List.map_cons]; rw [ih]

theorem chainsResult_snd (conn : Option Bool) (as : List Annotation) :
    ((chainsResult conn as).map (·.2)).dropLast = List.replicate (as.length - 1) (some false) := by
  induction as generalizing conn with
  | nil => rfl
  | cons a t ih =>
    cases t with
    | nil => rfl
    | cons b t' =>
      have := ih (some false)
      simp only [chainsResult, List.map_cons] at this ⊢
      cases hr : chainsResult (some false) (b :: t') with
      | nil => cases t' <;> simp [chainsResult] at hr
      | cons p q =>
        rw [hr] at this
        simp only [List.map_cons, List.dropLast_cons_cons] at this ⊢
        rw [this]
        simp [List.replicate_succ]

theorem serializeMulti_plus (xj : List Char) (plus : Plus) (as : List Annotation) :
    serializeMultiWith xj plus as (List.replicate (as.length - 1) (some false)) = .ok (chainsText plus as) := by
  induction as with
  | nil => rfl
  | cons a t ih =>
    cases t with
    | nil => rfl
    | cons b t' =>
      simp only [List.length_cons, Nat.add_sub_cancel] at ih ⊢
      rw [List.replicate_succ, serializeMultiWith, ih]
      simp [chainsText]

theorem chainsText_not_unmodified (plus : Plus) (a b : Annotation) (t : List Annotation) :
    isUnmodified (chainsText plus (a :: b :: t)) = false := by
  simp only [chainsText, isUnmodified, List.all_append, List.all_cons]
  have : isAA '+' = false := by decide
  simp [this]

/-! ### chains joined by `+` or `//` (reading side) -/

def joiner (x : Bool) : List Char := if x then ['/', '/'] else ['+']

/-- chains written with `+` for a `False` connection and `//` for a `True` connection (what the parser reads) -/
def joinedText (plus : Plus) : List Annotation → List Bool → List Char
  | [], _ => []
  | [a], _ => serialize plus a
  | a :: b :: t, [] => serialize plus a ++ joiner false ++ joinedText plus (b :: t) []
  | a :: b :: t, x :: xs => serialize plus a ++ joiner x ++ joinedText plus (b :: t) xs

/-- what the chain loop yields on such a text; the connection of the last chain is the stale previous value -/
def joinedResult (conn : Option Bool) : List Annotation → List Bool → List (Annotation × Option Bool)
  | [], _ => []
  | [a], _ => [(a, conn)]
  | a :: b :: t, [] => (a, some false) :: joinedResult (some false) (b :: t) []
  | a :: b :: t, x :: xs => (a, some x) :: joinedResult (some x) (b :: t) xs

theorem joiner_chainStop (x : Bool) (r : List Char) : ChainStop (joiner x ++ r) := by
  cases x
  · exact Or.inr (Or.inl ⟨r, rfl⟩)
  · exact Or.inr (Or.inr ⟨r, rfl⟩)

theorem joiner_stop (conn : Option Bool) (x : Bool) (r : List Char) :
    stopConn conn (joiner x ++ r) = some x ∧ stopRest (joiner x ++ r) = r := by
  cases x <;> simp [joiner, stopConn, stopRest]

theorem parseChains_joined (plus : Plus) (as : List Annotation) (hne : as ≠ []) (hc : as.all canon = true)
    (flags : List Bool) (conn : Option Bool) :
    parseChains true conn (joinedText plus as flags) = .ok (joinedResult conn as flags) := by
  induction as generalizing conn flags with
  | nil => exact absurd rfl hne
  | cons a t ih =>
    simp only [List.all_cons, Bool.and_eq_true] at hc
    cases t with
    | nil =>
      have := parseChains_chain plus a hc.1 conn [] (Or.inl rfl)
      simp only [List.append_nil, stopConn, stopRest] at this
      rw [joinedText, this, parseChains.eq_def]
      rfl
    | cons b t' =>
      cases flags with
      | nil =>
        have := parseChains_chain plus a hc.1 conn (joiner false ++ joinedText plus (b :: t') [])
          (joiner_chainStop _ _)
        rw [(joiner_stop conn false _).1, (joiner_stop conn false _).2] at this
        rw [joinedText, List.append_assoc, this, ih (by simp) hc.2]
        rfl
      | cons x xs =>
        have := parseChains_chain plus a hc.1 conn (joiner x ++ joinedText plus (b :: t') xs) (joiner_chainStop _ _)
        rw [(joiner_stop conn x _).1, (joiner_stop conn x _).2] at this
        rw [joinedText, List.append_assoc, this, ih (by simp) hc.2]
        rfl

theorem joinedResult_fst (conn : Option Bool) (as : List Annotation) (flags : List Bool) :
    (joinedResult conn as flags).map (·.1) = as := by
  induction as generalizing conn flags with
  | nil => rfl
  | cons a t ih =>
    cases t with
    | nil => rfl
    | cons b t' => cases flags <;> (simp only [joinedResult, List.map_cons]; rw [ih])

theorem joinedResult_ne_nil (conn : Option Bool) (a : Annotation) (t : List Annotation) (flags : List Bool) :
    joinedResult conn (a :: t) flags ≠ [] := by
  cases t <;> cases flags <;> simp [joinedResult]

/-- with one flag per junction the connections read are exactly the flags -/
theorem joinedResult_snd (conn : Option Bool) (as : List Annotation) (flags : List Bool)
    (hl : flags.length + 1 = as.length) :
    ((joinedResult conn as flags).map (·.2)).dropLast = flags.map some := by
  induction as generalizing conn flags with
  | nil => simp at hl
  | cons a t ih =>
    cases t with
    | nil =>
      cases flags with
      | nil => rfl
      | cons x xs => simp at hl
    | cons b t' =>
      cases flags with
      | nil => simp at hl
      | cons x xs =>
        have := ih (some x) xs (by simpa using hl)
        simp only [joinedResult, List.map_cons]
        cases hr : joinedResult (some x) (b :: t') xs with
        | nil => exact absurd hr (joinedResult_ne_nil _ _ _ _)
        | cons p q =>
          rw [hr] at this
          simp only [List.map_cons, List.dropLast_cons_cons] at this ⊢
          rw [this]

theorem joinedText_not_unmodified (plus : Plus) (a b : Annotation) (t : List Annotation) (flags : List Bool) :
    isUnmodified (joinedText plus (a :: b :: t) flags) = false := by
  have h1 : isAA '+' = false := by decide
  have h2 : isAA '/' = false := by decide
  cases flags with
  | nil => simp [joinedText, joiner, isUnmodified, h1]
  | cons x xs => cases x <;> simp [joinedText, joiner, isUnmodified, h1, h2]

/-- the serializer with the corrected joiner writes exactly the text the parser reads -/
theorem serializeMultiFixed_joined (plus : Plus) (as : List Annotation) (flags : List Bool)
    (hl : flags.length + 1 = as.length) :
    serializeMultiFixed plus as (flags.map some) = .ok (joinedText plus as flags) := by
  unfold serializeMultiFixed
  induction as generalizing flags with
  | nil => simp at hl
  | cons a t ih =>
    cases t with
    | nil => rfl
    | cons b t' =>
      cases flags with
      | nil => simp at hl
      | cons x xs =>
        have := ih xs (by simpa using hl)
        simp only [List.map_cons, serializeMultiWith, this, joinedText]
        cases x <;> simp [joiner, crosslinkJoinerFixed]

end Pept
