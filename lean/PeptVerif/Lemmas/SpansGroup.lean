import PeptVerif.Lemmas.SpansBasic
import PeptVerif.Lemmas.SpansSort
/-! C06 helper lemmas: the per-group loop of the grouped semi-span builders. Core Lean only. -/
namespace Spans

/-- abstract description of a one-sided semi builder called with explicit bounds: it returns the spans
`x` that share an end and the value with the parent `p` (`Sh p x`), are strictly shorter than `p`,
not of negative length, and whose length lies in `[a, b]` -/
def BuildSpec (build : Span → Option Int → Option Int → List Span) (Sh : Span → Span → Prop) : Prop :=
  ∀ p a b x, x ∈ build p (some a) (some b) ↔
    Sh p x ∧ a ≤ spanLen x ∧ spanLen x ≤ b ∧ 0 ≤ spanLen x ∧ spanLen x < spanLen p

def ShL (p x : Span) : Prop := x.1 = p.1 ∧ x.2.2 = p.2.2
def ShR (p x : Span) : Prop := x.2.1 = p.2.1 ∧ x.2.2 = p.2.2

theorem buildSpec_left : BuildSpec buildLeftSemi ShL := by
  intro p a b ⟨s, e, v⟩
  rw [mem_buildLeftSemi']
  simp only [ShL, spanLen, Option.getD_some]
  constructor
  · rintro ⟨rfl, rfl, h⟩; refine ⟨⟨rfl, rfl⟩, ?_⟩; omega
  · rintro ⟨⟨h1, h2⟩, h⟩; subst h1 h2; refine ⟨rfl, rfl, ?_⟩; omega

theorem buildSpec_right : BuildSpec buildRightSemi ShR := by
  intro p a b ⟨s, e, v⟩
  rw [mem_buildRightSemi']
  simp only [ShR, spanLen, Option.getD_some]
  constructor
  · rintro ⟨rfl, rfl, h⟩; refine ⟨⟨rfl, rfl⟩, ?_⟩; omega
  · rintro ⟨⟨h1, h2⟩, h⟩; subst h1 h2; refine ⟨rfl, rfl, ?_⟩; omega

/-- upper length bound used by the loop -/
def optLe (x : Int) : Option Int → Prop
  | none => True
  | some m => x ≤ m

theorem le_newMax (hi : Option Int) (len y : Int) :
    y ≤ newMaxLen hi len ↔ optLe y hi ∧ y < len := by
  cases hi <;> simp [optLe, newMaxLen] <;> omega

/-- the group loop on a group of strictly decreasing length: `x` is produced from the parent `p`
iff it shares the end/value with `p`, is strictly shorter than `p`, lies within the bounds, and is
strictly longer than every parent of the group that is shorter than `p` -/
theorem mem_groupLoop {build : Span → Option Int → Option Int → List Span} {Sh : Span → Span → Prop}
    (hb : BuildSpec build Sh) (sb : Bool) (lo : Int) (hi : Option Int) (G : List Span)
    (hG : G.Pairwise (fun a b => spanLen b < spanLen a)) (x : Span) :
    x ∈ groupLoop build sb lo hi G ↔
      ∃ p ∈ G, Sh p x ∧ lo ≤ spanLen x ∧ optLe (spanLen x) hi ∧ 0 ≤ spanLen x ∧ spanLen x < spanLen p ∧
        ∀ q ∈ G, spanLen q < spanLen p → spanLen q < spanLen x := by
  induction G with
  | nil => simp [groupLoop]
  | cons p0 rest ih =>
    rw [List.pairwise_cons] at hG
    have ih := ih hG.2
    unfold groupLoop
    simp only
    by_cases hbrk : (if sb = true then spanLen p0 < lo else spanLen p0 ≤ lo)
    · -- break
      rw [if_pos hbrk]
      have hbrk' : spanLen p0 ≤ lo := by
        cases sb <;> simp at hbrk <;> omega
      simp only [List.not_mem_nil, false_iff]
      rintro ⟨p, hp, _, h1, _, _, h2, _⟩
      rcases List.mem_cons.mp hp with rfl | hp
      · omega
      · have := hG.1 p hp; omega
    · rw [if_neg hbrk]
      cases rest with
      | nil =>
        simp only
        rw [hb, le_newMax]
        constructor
        · rintro ⟨h1, h2, ⟨h3, h4⟩, h5, h6⟩
          exact ⟨p0, by simp, h1, h2, h3, h5, h6, by simp⟩
        · rintro ⟨p, hp, h1, h2, h3, h4, h5, _⟩
          simp only [List.mem_singleton] at hp; subst hp
          exact ⟨h1, h2, ⟨h3, h5⟩, h4, h5⟩
      | cons next r =>
        simp only [List.mem_append]
        rw [hb, le_newMax, ih]
        have hnext : spanLen next < spanLen p0 := hG.1 next (by simp)
        have hr : ∀ q ∈ r, spanLen q < spanLen next := (List.pairwise_cons.mp hG.2).1
        constructor
        · rintro (⟨h1, h2, ⟨h3, h4⟩, h5, h6⟩ | ⟨p, hp, h1, h2, h3, h4, h5, h6⟩)
          · refine ⟨p0, by simp, h1, by omega, h3, h5, h6, ?_⟩
            intro q hq hlt
            rcases List.mem_cons.mp hq with rfl | hq
            · omega
            · rcases List.mem_cons.mp hq with rfl | hq
              · omega
              · have := hr q hq; omega
          · refine ⟨p, List.mem_cons_of_mem _ hp, h1, h2, h3, h4, h5, ?_⟩
            intro q hq hlt
            rcases List.mem_cons.mp hq with rfl | hq
            · have := hG.1 p hp; omega
            · exact h6 q hq hlt
        · rintro ⟨p, hp, h1, h2, h3, h4, h5, h6⟩
          rcases List.mem_cons.mp hp with rfl | hp
          · left
            have := h6 next (by simp) hnext
            exact ⟨h1, by omega, ⟨h3, h5⟩, h4, h5⟩
          · right
            exact ⟨p, hp, h1, h2, h3, h4, h5, fun q hq => h6 q (by simp [hq])⟩

end Spans
