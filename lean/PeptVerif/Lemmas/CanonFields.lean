import PeptVerif.Spec.ProForma
/-! `canon` (Spec/ProForma.lean, owned by the C01 package) unpacked field by field - the one place of the C19/C20 lemmas that
depends on the shape of its definition. -/
namespace Pept

/-- the fields of a canonical annotation, one by one -/
theorem canon_fields (a : Annotation) (h : canon a = true) :
    a.seq ≠ [] ∧ a.seq.all isAA = true ∧ canonOptMods '{' '}' a.labile = true ∧ canonGlobal canonStatic a.static = true ∧
    canonGlobal canonIsotope a.isotope = true ∧ canonOptMods '[' ']' a.unknown = true ∧
    canonOptMods '[' ']' a.nterm = true ∧ canonInternal (Int.ofNat a.seq.length) a.internal = true ∧
    canonIntervals (Int.ofNat a.seq.length) a.intervals = true ∧ canonOptMods '[' ']' a.cterm = true ∧
    canonAdducts a.charge a.adducts = true := by
  simp only [canon, Bool.and_eq_true] at h
  obtain ⟨⟨⟨⟨⟨⟨⟨⟨⟨⟨h1, h2⟩, h3⟩, h4⟩, h5⟩, h6⟩, h7⟩, h8⟩, h9⟩, h10⟩, h12⟩ := h
  refine ⟨?_, h2, h3, h4, h5, h6, h7, h8, h9, h10, h12⟩
  intro e; rw [e] at h1; simp at h1

end Pept
