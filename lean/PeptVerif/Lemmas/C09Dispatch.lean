import PeptVerif.Model.Mass
import PeptVerif.Model.C09Dispatch
/-! helper lemmas for Props/C09Ext: `sumM` succeeds iff every summand does; an error of `sumM` is a summand's error -/
namespace Pept
namespace Dispatch
open Chem Mass

/-- `mod_mass(val, monoisotopic)` as given by the resolver parameter -/
def resolve (env : Env) (mono : Bool) (v : ModVal) : Except Err Rat :=
  if mono then (env.res v).mono else (env.res v).avg

theorem foldlM_ok_iff {α} (f : α → Except Err Rat) (l : List α) (init : Rat) :
    (∃ v, l.foldlM (fun acc x => do let v ← f x; pure (acc + v)) init = .ok v) ↔ ∀ x ∈ l, ∃ v, f x = .ok v := by
  induction l generalizing init with
  | nil => simp [pure, Except.pure]
  | cons x xs ih =>
    simp only [List.foldlM_cons, List.mem_cons, forall_eq_or_imp]
    cases hx : f x with
    | error e => simp [bind, Except.bind]
    | ok v => simpa [bind, Except.bind, pure, Except.pure] using ih (init + v)

theorem foldlM_error {α} (f : α → Except Err Rat) (l : List α) (init : Rat) (e : Err)
    (h : l.foldlM (fun acc x => do let v ← f x; pure (acc + v)) init = .error e) : ∃ x ∈ l, f x = .error e := by
  induction l generalizing init with
  | nil => simp [pure, Except.pure] at h
  | cons x xs ih =>
    simp only [List.foldlM_cons] at h
    cases hx : f x with
    | error e' =>
      simp [hx, bind, Except.bind] at h
      exact ⟨x, by simp, by rw [hx, h]⟩
    | ok v =>
      simp [hx, bind, Except.bind, pure, Except.pure] at h
      obtain ⟨y, hy, hfy⟩ := ih _ h
      exact ⟨y, by simp [hy], hfy⟩

theorem sumM_ok_iff {α} (f : α → Except Err Rat) (l : List α) :
    (∃ v, sumM f l = .ok v) ↔ ∀ x ∈ l, ∃ v, f x = .ok v := foldlM_ok_iff f l 0

theorem sumM_error {α} (f : α → Except Err Rat) (l : List α) (e : Err) (h : sumM f l = .error e) :
    ∃ x ∈ l, f x = .error e := foldlM_error f l 0 e h

theorem modMass_ok_iff (env : Env) (mono : Bool) (m : Mod) :
    (∃ v, modMass env mono m = .ok v) ↔ ∃ v, resolve env mono m.val = .ok v := by
  unfold modMass resolve
  cases mono <;> simp
  · generalize (env.res m.val).avg = r; cases r <;> simp [Functor.map, Except.map]
  · generalize (env.res m.val).mono = r; cases r <;> simp [Functor.map, Except.map]

theorem modMass_error (env : Env) (mono : Bool) (m : Mod) (e : Err) (h : modMass env mono m = .error e) :
    resolve env mono m.val = .error e := by
  unfold modMass at h; unfold resolve
  cases mono <;> simp at h ⊢
  · revert h; generalize (env.res m.val).avg = r; cases r <;> simp [Functor.map, Except.map]
  · revert h; generalize (env.res m.val).mono = r; cases r <;> simp [Functor.map, Except.map]


/-- "every modification of the list resolves" -/
def AllResolve (env : Env) (mono : Bool) (l : List Mod) : Prop := ∀ m ∈ l, ∃ v, resolve env mono m.val = .ok v

theorem sumMods_ok_iff (env : Env) (mono : Bool) (l : List Mod) :
    (∃ v, sumMods env mono l = .ok v) ↔ AllResolve env mono l := by
  unfold sumMods AllResolve
  rw [sumM_ok_iff]
  exact forall_congr' fun m => imp_congr_right fun _ => modMass_ok_iff env mono m

theorem sumMods_error (env : Env) (mono : Bool) (l : List Mod) (e : Err) (h : sumMods env mono l = .error e) :
    ∃ m ∈ l, resolve env mono m.val = .error e := by
  obtain ⟨m, hm, hf⟩ := sumM_error _ _ _ h
  exact ⟨m, hm, modMass_error _ _ _ _ hf⟩

theorem sumOptMods_ok_iff (env : Env) (mono : Bool) (o : Option (List Mod)) :
    (∃ v, sumOptMods env mono o = .ok v) ↔ AllResolve env mono (optMods o) := by
  cases o with
  | none => simp [sumOptMods, optMods, AllResolve, pure, Except.pure]
  | some l => exact sumMods_ok_iff env mono l

theorem sumOptMods_error (env : Env) (mono : Bool) (o : Option (List Mod)) (e : Err)
    (h : sumOptMods env mono o = .error e) : ∃ m ∈ optMods o, resolve env mono m.val = .error e := by
  cases o with
  | none => simp [sumOptMods, pure, Except.pure] at h
  | some l => exact sumMods_error env mono l e h

theorem intervalsMass_ok_iff (env : Env) (mono : Bool) (o : Option (List Interval)) :
    (∃ v, intervalsMass env mono o = .ok v) ↔ AllResolve env mono (intervalMods o) := by
  cases o with
  | none => simp [intervalsMass, intervalMods, AllResolve, pure, Except.pure]
  | some l =>
    simp only [intervalsMass, intervalMods, AllResolve, sumM_ok_iff, List.mem_flatMap]
    constructor
    · rintro h m ⟨iv, hiv, hm⟩
      exact (sumOptMods_ok_iff env mono iv.mods).1 (h iv hiv) m hm
    · intro h iv hiv
      exact (sumOptMods_ok_iff env mono iv.mods).2 fun m hm => h m ⟨iv, hiv, hm⟩

theorem intervalsMass_error (env : Env) (mono : Bool) (o : Option (List Interval)) (e : Err)
    (h : intervalsMass env mono o = .error e) : ∃ m ∈ intervalMods o, resolve env mono m.val = .error e := by
  cases o with
  | none => simp [intervalsMass, pure, Except.pure] at h
  | some l =>
    obtain ⟨iv, hiv, hf⟩ := sumM_error _ _ _ h
    obtain ⟨m, hm, hr⟩ := sumOptMods_error _ _ _ _ hf
    exact ⟨m, by simp only [intervalMods, List.mem_flatMap]; exact ⟨iv, hiv, hm⟩, hr⟩

theorem internalMass_ok_iff (env : Env) (mono : Bool) (o : Option (List (Int × List Mod))) :
    (∃ v, internalMass env mono o = .ok v) ↔ AllResolve env mono (internalMods o) := by
  cases o with
  | none => simp [internalMass, internalMods, AllResolve, pure, Except.pure]
  | some l =>
    simp only [internalMass, internalMods, AllResolve, sumM_ok_iff, List.mem_flatMap]
    constructor
    · rintro h m ⟨p, hp, hm⟩
      exact (sumMods_ok_iff env mono p.2).1 (h p hp) m hm
    · intro h p hp
      exact (sumMods_ok_iff env mono p.2).2 fun m hm => h m ⟨p, hp, hm⟩

theorem internalMass_error (env : Env) (mono : Bool) (o : Option (List (Int × List Mod))) (e : Err)
    (h : internalMass env mono o = .error e) : ∃ m ∈ internalMods o, resolve env mono m.val = .error e := by
  cases o with
  | none => simp [internalMass, pure, Except.pure] at h
  | some l =>
    obtain ⟨p, hp, hf⟩ := sumM_error _ _ _ h
    obtain ⟨m, hm, hr⟩ := sumMods_error _ _ _ _ hf
    exact ⟨m, by simp only [internalMods, List.mem_flatMap]; exact ⟨p, hp, hm⟩, hr⟩

theorem allResolve_append (env : Env) (mono : Bool) (l₁ l₂ : List Mod) :
    AllResolve env mono (l₁ ++ l₂) ↔ AllResolve env mono l₁ ∧ AllResolve env mono l₂ := by
  simp only [AllResolve, List.mem_append]
  constructor
  · intro h; exact ⟨fun m hm => h m (Or.inl hm), fun m hm => h m (Or.inr hm)⟩
  · rintro ⟨h1, h2⟩ m (hm | hm)
    · exact h1 m hm
    · exact h2 m hm

theorem labileMass_ok_iff (env : Env) (mono : Bool) (a : Annotation) (ion : Key) :
    (∃ v, labileMass env mono a ion = .ok v) ↔
      AllResolve env mono (if ion = ionP then optMods a.labile else []) := by
  unfold labileMass
  split
  · exact sumOptMods_ok_iff env mono a.labile
  · simp [AllResolve, pure, Except.pure]

theorem labileMass_error (env : Env) (mono : Bool) (a : Annotation) (ion : Key) (e : Err)
    (h : labileMass env mono a ion = .error e) :
    ∃ m ∈ (if ion = ionP then optMods a.labile else []), resolve env mono m.val = .error e := by
  unfold labileMass at h
  split at h
  · rename_i hc; rw [if_pos hc]; exact sumOptMods_error env mono a.labile e h
  · simp [pure, Except.pure] at h


theorem lookupMods_ok_iff (env : Env) (mono : Bool) (map : List (List Char × List Mod)) (k : List Char) :
    (∃ v, lookupMods env mono map k = .ok v) ↔ AllResolve env mono (lookupList map k) := by
  unfold lookupMods lookupList
  cases map.lookup k with
  | none => simp [AllResolve, pure, Except.pure]
  | some l => exact sumMods_ok_iff env mono l

theorem lookupMods_error (env : Env) (mono : Bool) (map : List (List Char × List Mod)) (k : List Char) (e : Err)
    (h : lookupMods env mono map k = .error e) : ∃ m ∈ lookupList map k, resolve env mono m.val = .error e := by
  unfold lookupMods at h; unfold lookupList
  cases hl : map.lookup k with
  | none => simp [hl, pure, Except.pure] at h
  | some l => rw [hl] at h; exact sumMods_error env mono l e h

theorem ruleMass_ok_iff (env : Env) (mono : Bool) (seq : List Char) (p : List Char × List Mod) :
    (∃ v, ruleMass env mono seq p = .ok v) ↔ AllResolve env mono (ruleMods p) := by
  unfold ruleMass ruleMods
  have hn : Dispatch.nTerm = Mass.nTerm := rfl
  have hc : Dispatch.cTerm = Mass.cTerm := rfl
  rw [hn, hc]
  split
  · simp [AllResolve, pure, Except.pure]
  · rw [← sumMods_ok_iff]
    cases sumMods env mono p.2 <;> simp [bind, Except.bind, pure, Except.pure]

theorem ruleMass_error (env : Env) (mono : Bool) (seq : List Char) (p : List Char × List Mod) (e : Err)
    (h : ruleMass env mono seq p = .error e) : ∃ m ∈ ruleMods p, resolve env mono m.val = .error e := by
  unfold ruleMass at h; unfold ruleMods
  have hn : Dispatch.nTerm = Mass.nTerm := rfl
  have hc : Dispatch.cTerm = Mass.cTerm := rfl
  rw [hn, hc]
  split at h
  · simp [pure, Except.pure] at h
  · rename_i hk
    rw [if_neg hk]
    cases hs : sumMods env mono p.2 with
    | error e' =>
      simp [hs, bind, Except.bind] at h
      subst h
      exact sumMods_error env mono p.2 e' hs
    | ok v => simp [hs, bind, Except.bind, pure, Except.pure] at h

theorem rules_ok_iff (env : Env) (mono : Bool) (seq : List Char) (map : List (List Char × List Mod)) :
    (∃ v, sumM (ruleMass env mono seq) map = .ok v) ↔ AllResolve env mono (map.flatMap ruleMods) := by
  simp only [AllResolve, sumM_ok_iff, List.mem_flatMap]
  constructor
  · rintro h m ⟨p, hp, hm⟩
    exact (ruleMass_ok_iff env mono seq p).1 (h p hp) m hm
  · intro h p hp
    exact (ruleMass_ok_iff env mono seq p).2 fun m hm => h m ⟨p, hp, hm⟩

theorem rules_error (env : Env) (mono : Bool) (seq : List Char) (map : List (List Char × List Mod)) (e : Err)
    (h : sumM (ruleMass env mono seq) map = .error e) :
    ∃ m ∈ map.flatMap ruleMods, resolve env mono m.val = .error e := by
  obtain ⟨p, hp, hf⟩ := sumM_error _ _ _ h
  obtain ⟨m, hm, hr⟩ := ruleMass_error _ _ _ _ _ hf
  exact ⟨m, by simp only [List.mem_flatMap]; exact ⟨p, hp, hm⟩, hr⟩


theorem labile_if (ion : Key) (l : List Mod) :
    (if (ion == ionP) = true then l else []) = (if ion = ionP then l else []) := by
  simp

/-! ### a concrete resolver for the non-vacuity examples of Props/C09Ext -/

def exNum : Mod := ⟨.int 16, 1⟩
def exFoo : Mod := ⟨.str ['F', 'o', 'o'], 2⟩

/-- a numeric value resolves (to 16), every text value raises ValueError; static rules: `[16]@M` and `[Foo]^2@N-Term` -/
def exEnv : Env where
  res v := match v with
    | .int _ => ⟨.ok 16, .ok 16, .ok none, .ok []⟩
    | _ => ⟨.error .valueError, .error .valueError, .error .valueError, .error .valueError⟩
  parseStatic _ := .ok [(['M'], [exNum]), (Dispatch.nTerm, [exFoo])]

theorem exEnv_foo : resolve exEnv true exFoo.val = .error .valueError := rfl
theorem exEnv_num : resolve exEnv true exNum.val = .ok 16 := rfl

/-- `{Foo}^2[16]-PEM[16]TIDE` with an interval `(TI)[16]` -/
def exLabileBad : Annotation :=
  { seq := "PEMTIDE".toList, labile := some [exFoo], nterm := some [exNum], internal := some [(2, [exNum])],
    intervals := some [⟨3, 5, false, some [exNum]⟩] }

end Dispatch
end Pept
