import PeptVerif.Model.Score
import PeptVerif.Spec.Score
/-!
# C17 extension: the window bounds of `get_matched_indices` under an abstract rounding function. Mathlib-free.

`rndNum rnd` is the arithmetic of ℚ in which every `+ - * /` is followed by `rnd : ℚ → ℚ` (comparisons exact, as
for doubles). The *same* generic model functions of `Model/Score.lean` (`offset`, `lo`, `hi`, `below`, `within`,
`getMatchedIndices` — the ones the driver runs at `Float`) are instantiated at it, so the order of operations is that
of the code by construction:

    th : lo = rnd (mz - tol)                               hi = rnd (mz + tol)
    ppm: lo = rnd (mz - rnd (rnd (mz * tol) / 1000000))    hi = rnd (mz + rnd (rnd (mz * tol) / 1000000))

Assumptions used by the theorems of `Props/C17Ext.lean` (hypotheses there, nothing is assumed here):
  * `RndMono rnd`   : a ≤ b → rnd a ≤ rnd b
  * `RndRel rnd u`  : |rnd z - z| ≤ u * |z|      (defined in Lemmas/ScoreRnd.lean, it needs `|·|`)
TRUSTED (not proved, comment only): IEEE-754 binary64 round-to-nearest-even, as performed by CPython's float
`+ - * /`, satisfies both with u = 2^-53 for every real z whose rounding neither overflows nor falls in the subnormal
range (|z| < 2^-1022, where the error is absolute, ≤ 2^-1075). m/z values, tolerances and their products / quotients by
10^6 are many orders of magnitude inside the normal range. The literal `1e6` is exactly 10^6 as a double.
-/
namespace Score

/-- ℚ with every arithmetic operation followed by `rnd`; comparisons are exact -/
@[reducible] def rndNum (rnd : Rat → Rat) : Num Rat where
  add a b := rnd (a + b)
  sub a b := rnd (a - b)
  mul a b := rnd (a * b)
  div a b := rnd (a / b)
  lt a b := decide (a < b)
  le a b := decide (a ≤ b)
  eq a b := decide (a = b)
  zero := 0
  million := 1000000

/-- `rnd` is monotone -/
def RndMono (rnd : Rat → Rat) : Prop := ∀ a b, a ≤ b → rnd a ≤ rnd b

/-- `mz1_start` as the code computes it, every operation rounded -/
def loR (rnd : Rat → Rat) (t : Tol) (tol x : Rat) : Rat := @lo Rat (rndNum rnd) t tol x
/-- `mz1_end` as the code computes it, every operation rounded -/
def hiR (rnd : Rat → Rat) (t : Tol) (tol x : Rat) : Rat := @hi Rat (rndNum rnd) t tol x

/-- the model of `get_matched_indices` run with rounded arithmetic -/
def getMatchedIndicesR (rnd : Rat → Rat) (t : Tol) (tol : Rat) (xs ys : List Rat) : List (Option (Nat × Nat)) :=
  @getMatchedIndices Rat (rndNum rnd) t tol xs ys

/-- peak `y` lies in the rounded window of fragment `x` (bounds inclusive) -/
def inWindowR (rnd : Rat → Rat) (t : Tol) (tol y x : Rat) : Bool :=
  decide (loR rnd t tol x ≤ y) && decide (y ≤ hiR rnd t tol x)

/-- the exact (unrounded) tolerance in m/z units: `tol` for th, `mz·tol/10⁶` for ppm -/
def exactTol (t : Tol) (tol x : Rat) : Rat :=
  match t with
  | .th => tol
  | .ppm => x * tol / 1000000

end Score
