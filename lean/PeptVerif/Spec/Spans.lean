import PeptVerif.Model.Spans
/-!
Set specification of digestion spans (property C06), written without reference to the
way the code computes them. Decidable, so the driver can evaluate it on any candidate.
-/
namespace Spans

/-- `S⁺ = S ∪ {0, n}` as a list (duplicates harmless: `inside` is taken on the deduplicated list) -/
def plus (n : Int) (S : List Int) : List Int := sortDedup (0 :: n :: S)

/-- every position `0..n` is a cleavage site: the "non-specific rule", recognised extensionally -/
def NonSpecific (n : Int) (S : List Int) : Prop := ∀ i : Int, 0 ≤ i → i ≤ n → i ∈ S

def nonSpecificB (n : Int) (S : List Int) : Bool := (List.range (n + 1).toNat).all fun k => S.contains (k : Int)

theorem nonSpecificB_iff (n : Int) (S : List Int) : nonSpecificB n S = true ↔ NonSpecific n S := by
  unfold nonSpecificB NonSpecific
  simp only [List.all_eq_true, List.mem_range, List.contains_iff_mem]
  constructor
  · intro h i h0 hn
    have := h i.toNat (by omega)
    simpa [Int.toNat_of_nonneg h0] using this
  · intro h k hk
    exact h k (by omega) (by omega)

instance (n : Int) (S : List Int) : Decidable (NonSpecific n S) :=
  decidable_of_iff _ (nonSpecificB_iff n S)

/-- enzymatic span: both ends are cleavage points, at most `mc` cleavage points strictly inside -/
def IsEnz (n : Int) (S : List Int) (mc : Nat) (x : Span) : Prop :=
  x.1 ∈ plus n S ∧ x.2.1 ∈ plus n S ∧ x.1 < x.2.1 ∧
    x.2.2 = (inside (plus n S) x.1 x.2.1 : Int) ∧ inside (plus n S) x.1 x.2.1 ≤ mc

/-- semi-enzymatic span: shares its start (or its end) with an enzymatic span that contains it -/
def IsSemi (n : Int) (S : List Int) (mc : Nat) (x : Span) : Prop :=
  x.1 < x.2.1 ∧ x.2.2 = (inside (plus n S) x.1 x.2.1 : Int) ∧
    ((x.1 ∈ plus n S ∧ ∃ e ∈ plus n S, x.2.1 ≤ e ∧ inside (plus n S) x.1 e ≤ mc) ∨
     (x.2.1 ∈ plus n S ∧ ∃ s ∈ plus n S, s ≤ x.1 ∧ inside (plus n S) s x.2.1 ≤ mc))

/-- the spans a digest must return (before the optional undigested sequence is added) -/
def IsSpan (n : Int) (S : List Int) (mc : Nat) (lo hi : Int) (semi : Bool) (x : Span) : Prop :=
  lo ≤ x.2.1 - x.1 ∧ x.2.1 - x.1 ≤ hi ∧
  if NonSpecific n S then 0 ≤ x.1 ∧ x.1 < x.2.1 ∧ x.2.1 ≤ n ∧ x.2.1 - x.1 < n ∧ x.2.2 = 0
  else if semi then IsSemi n S mc x else IsEnz n S mc x

instance (n : Int) (S : List Int) (mc : Nat) (x : Span) : Decidable (IsEnz n S mc x) := by
  unfold IsEnz; infer_instance
instance (n : Int) (S : List Int) (mc : Nat) (x : Span) : Decidable (IsSemi n S mc x) := by
  unfold IsSemi; infer_instance
instance (n : Int) (S : List Int) (mc : Nat) (lo hi : Int) (semi : Bool) (x : Span) :
    Decidable (IsSpan n S mc lo hi semi x) := by
  unfold IsSpan; infer_instance

/-- executable enumeration of the specification inside the box `[0,n]² × [0,n+1]`
(complete when all sites lie in `[0,n]`) -/
def specSpans (n : Int) (S : List Int) (mc : Nat) (lo hi : Int) (semi : Bool) : List Span :=
  (range 0 (n+1)).flatMap fun s => (range 0 (n+1)).flatMap fun e => (range 0 (n+2)).filterMap fun v =>
    if IsSpan n S mc lo hi semi (s, e, v) then some (s, e, v) else none

end Spans
