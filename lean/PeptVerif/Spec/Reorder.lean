import PeptVerif.Model.Reorder
/-! Specification-level vocabulary for C11 / C07 (Mathlib-free). -/
namespace Pept.Reorder

/-- the residues an ambiguity interval covers: `start ≤ i < stop` -/
def covers (iv : Interval) (i : Int) : Prop := iv.start ≤ i ∧ i < iv.stop

/-- well-formed residue modifications: a Python dict has distinct keys, and every key is a position of the sequence -/
def KeysOK (a : Annotation) : Prop :=
  ∀ d, a.internal = some d → (d.map (·.1)).Nodup ∧ ∀ p ∈ d, 0 ≤ p.1 ∧ p.1 < (a.seq.length : Int)

/-- total of an additive per-residue weight (e.g. residue mass + mass of its modifications) -/
def weight (w : Char × List Mod → Rat) (l : List (Char × List Mod)) : Rat := (l.map w).sum

/-- the general path of `slice` as one expression -/
def sliceGeneral (a : Annotation) (start stop : Int) : Annotation :=
  { a with
    seq := pySlice a.seq start stop
    internal := a.internal.map (·.filterMap (sliceEntry start stop))
    intervals := noneIfEmpty (a.intervals.map (·.filterMap (sliceInterval start stop)))
    nterm := if start > 0 then none else a.nterm
    cterm := if stop < (a.seq.length : Int) then none else a.cterm }


/-! ### abstract mass of an annotation and of the pieces of a partition (C07) -/

/-- sum of a per-modification weight over an optional list -/
def modSum (m : Mod → Rat) : Option (List Mod) → Rat
  | none => 0
  | some l => (l.map m).sum

/-- sum over the modifications of all intervals -/
def intervalSum (m : Mod → Rat) : Option (List Interval) → Rat
  | none => 0
  | some l => (l.map fun iv => modSum m iv.mods).sum

/-- abstract mass of an annotation: additive per-residue weight `w` (residue + its modifications + residue-targeted static
rules, under the annotation's isotope labels), every labile / unknown-position / terminal / interval modification once,
a contribution `t` of the static rules with terminal targets, and one water `h` -/
def amass (w : Char × List Mod → Rat) (m : Mod → Rat) (t : Option (List Mod) → Rat) (h : Rat) (a : Annotation) : Rat :=
  weight w (residues a) + modSum m a.labile + modSum m a.unknown + modSum m a.nterm + modSum m a.cterm +
    intervalSum m a.intervals + t a.static + h

/-- consecutive pieces `[s,e₁), [e₁,e₂), …` -/
def piecesFrom (a : Annotation) : Nat → List Nat → List Annotation
  | _, [] => []
  | s, e :: rest => slice a (s : Int) (e : Int) :: piecesFrom a e rest

/-- `s < e₁ < e₂ < … ≤ n` -/
def Increasing : Nat → List Nat → Nat → Prop
  | s, [], n => s ≤ n
  | s, e :: rest, n => s < e ∧ Increasing e rest n

/-- the last cut -/
def lastOf : Nat → List Nat → Nat
  | s, [] => s
  | _, e :: rest => lastOf e rest

/-- `k` times `h` -/
def times : Nat → Rat → Rat
  | 0, _ => 0
  | k + 1, h => times k h + h

/-- what every piece carries besides its residues, its terminal mods and its water: the labile and unknown-position
modifications and the terminal static rules of the parent (copied by `slice`) -/
def inherited (m : Mod → Rat) (t : Option (List Mod) → Rat) (a : Annotation) : Rat :=
  modSum m a.labile + modSum m a.unknown + t a.static


/-- intervals are inside `0..n`, non-empty, and no cut falls strictly inside one -/
def CutsOK (ivs : Option (List Interval)) (n : Nat) (cuts : List Nat) : Prop :=
  ∀ L, ivs = some L → ∀ iv ∈ L, 0 ≤ iv.start ∧ iv.start < iv.stop ∧ iv.stop ≤ (n : Int) ∧
    ∀ c ∈ cuts, ¬ (iv.start < (c : Int) ∧ (c : Int) < iv.stop)

/-- interval modifications of the intervals lying inside `[lo, hi]` -/
def ivSumIn (m : Mod → Rat) (ivs : Option (List Interval)) (lo hi : Int) : Rat :=
  match ivs with
  | none => 0
  | some L => ((L.filter fun iv => decide (lo ≤ iv.start ∧ iv.stop ≤ hi)).map fun iv => modSum m iv.mods).sum

/-- well-formed intervals: each non-empty and inside the sequence, listed in sequence order without overlap (adjacent
allowed) — what the parser produces -/
def IntervalsOK (a : Annotation) : Prop :=
  ∀ L, a.intervals = some L →
    (∀ iv ∈ L, 0 ≤ iv.start ∧ iv.start < iv.stop ∧ iv.stop ≤ (a.seq.length : Int)) ∧
    L.Pairwise (fun x y => x.stop ≤ y.start)

/-- the interval wraps around the end of the sequence after a rotation by `eff` (`0 ≤ eff < n`): the rotation point falls
strictly inside it, so its residues land at both ends of the new sequence -/
def wraps (eff : Int) (iv : Interval) : Prop := iv.start < eff ∧ eff < iv.stop

instance (eff : Int) (iv : Interval) : Decidable (wraps eff iv) := by unfold wraps; infer_instance

/-- no interval of `a` wraps when `a` is shifted by `k` (decidable for concrete `a`, `k`) -/
def NoWrap (a : Annotation) (k : Int) : Prop :=
  ∀ L, a.intervals = some L → ∀ iv ∈ L, ¬ wraps (k % (a.seq.length : Int)) iv

/-! ### concrete annotations used by the non-vacuity examples -/

/-- `{100}[Ac]-P[Ph]E(PT)[1]... ` : labile, both termini, two residue mods, two adjacent intervals -/
def demo : Annotation :=
  { seq := ['P', 'E', 'P', 'T', 'I', 'D', 'E'],
    labile := some [⟨.int 100, 1⟩],
    nterm := some [⟨.str ['A', 'c'], 1⟩], cterm := some [⟨.str ['A', 'm'], 1⟩],
    internal := some [(0, [⟨.str ['P', 'h'], 1⟩]), (3, [⟨.int 16, 2⟩])],
    intervals := some [⟨1, 3, false, some [⟨.int 1, 1⟩]⟩, ⟨3, 5, true, none⟩] }

def demoNoIv : Annotation := { demo with intervals := none }

end Pept.Reorder
