import PeptVerif.Model.Reorder
/-! Specification-level vocabulary for C11 / C07 (Mathlib-free). -/
namespace Pept.Reorder

/-- the residues an ambiguity interval covers: `start ≤ i < stop` -/
def covers (iv : Interval) (i : Int) : Prop := iv.start ≤ i ∧ i < iv.stop

/-- well-formed residue modifications: a Python dict has distinct keys, and every key is a position of the sequence -/
def KeysOK (a : Annotation) : Prop :=
  ∀ d, a.internal = some d → (d.map (·.1)).Nodup ∧ ∀ p ∈ d, 0 ≤ p.1 ∧ p.1 < (a.seq.length : Int)

/-- total of an additive per-residue weight (e.g. residue mass + mass of its modifications) -/
def weight (w : Char × List Mod → Rat) (l : List (Char × List Mod)) : Rat := (l.map w).sum

/-- the general path of `slice` as one expression -/
def sliceGeneral (a : Annotation) (start stop : Int) : Annotation :=
  { a with
    seq := pySlice a.seq start stop
    internal := a.internal.map (·.filterMap (sliceEntry start stop))
    intervals := noneIfEmpty (a.intervals.map (·.filterMap (sliceInterval start stop)))
    nterm := if start > 0 then none else a.nterm
    cterm := if stop < (a.seq.length : Int) then none else a.cterm }

end Pept.Reorder
