import PeptVerif.Model.Serialize
/-!
# Canonical annotations (C01): the image of the ProForma grammar

`Canon a` is a decidable (Bool-valued) well-formedness predicate on annotation objects. It describes exactly
the objects the documented grammar denotes; `Props/C01` proves `parse (serialize plus a) = ok a` for them.
Mathlib-free (the driver evaluates it: op `canon`).
-/
namespace Pept

/-- depth after reading `w` starting at depth `d`; `none` if depth 0 is reached inside `w` -/
def depthAfter (o c : Char) : Nat → List Char → Option Nat
  | d, [] => some d
  | d, x :: xs =>
    if x = o then depthAfter o c (d+1) xs
    else if x = c then (if d = 1 then none else depthAfter o c (d-1) xs)
    else depthAfter o c d xs

/-- the text can stand between `o … c`: the bracket-depth scan ends exactly at the closing bracket -/
def balanced (o c : Char) (w : List Char) : Bool := depthAfter o c 1 w == some 1

/-- a value survives the text round trip in both spellings of positive numbers, between brackets `o c` -/
def canonVal (o c : Char) (v : ModVal) : Bool :=
  convertType v.text == v && balanced o c v.text &&
  (!v.positive || convertType ('+' :: v.text) == v)

def canonMod (o c : Char) (m : Mod) : Bool := decide (m.mult ≥ 1) && canonVal o c m.val

/-- an optional section: absent, or a non-empty list of canonical mods -/
def canonOptMods (o c : Char) : Option (List Mod) → Bool
  | none => true
  | some l => !l.isEmpty && l.all (canonMod o c)

def isStr : ModVal → Bool
  | .str _ => true
  | _ => false

def strHasAt : ModVal → Bool
  | .str t => t.contains '@'
  | _ => false

/-- static rule: a `str` containing `@`, multiplier exactly 1 -/
def canonStatic (m : Mod) : Bool :=
  decide (m.mult = 1) && isStr m.val && strHasAt m.val && canonVal '<' '>' m.val

/-- isotope label: a `str` without `@`, multiplier exactly 1 -/
def canonIsotope (m : Mod) : Bool :=
  decide (m.mult = 1) && isStr m.val && !strHasAt m.val && canonVal '<' '>' m.val

def canonGlobal (p : Mod → Bool) : Option (List Mod) → Bool
  | none => true
  | some l => !l.isEmpty && l.all p

/-- keys strictly increasing from `lo`, below `n`, each entry non-empty and canonical -/
def canonInternalList (n : Int) : Int → List (Int × List Mod) → Bool
  | _, [] => true
  | lo, (k, ms) :: t =>
    decide (lo ≤ k) && decide (k < n) && !ms.isEmpty && ms.all (canonMod '[' ']') &&
      canonInternalList n (k + 1) t

def canonInternal (n : Int) : Option (List (Int × List Mod)) → Bool
  | none => true
  | some l => !l.isEmpty && canonInternalList n 0 l

/-- intervals sorted, non-overlapping (adjacent allowed), `lo ≤ start < stop ≤ n` -/
def canonIntervalList (n : Int) : Int → List Interval → Bool
  | _, [] => true
  | lo, iv :: t =>
    decide (lo ≤ iv.start) && decide (iv.start < iv.stop) && decide (iv.stop ≤ n) &&
      canonOptMods '[' ']' iv.mods && canonIntervalList n iv.stop t

def canonIntervals (n : Int) : Option (List Interval) → Bool
  | none => true
  | some l => !l.isEmpty && canonIntervalList n 0 l

def canonAdducts (charge : Option Int) : Option (List Mod) → Bool
  | none => true
  | some l => charge.isSome && !l.isEmpty && l.all (fun m => decide (m.mult = 1) && canonVal '[' ']' m.val)

/-- the canonical single-chain annotations -/
def canon (a : Annotation) : Bool :=
  !a.seq.isEmpty && a.seq.all isAA &&
  canonOptMods '{' '}' a.labile &&
  canonGlobal canonStatic a.static &&
  canonGlobal canonIsotope a.isotope &&
  canonOptMods '[' ']' a.unknown &&
  canonOptMods '[' ']' a.nterm &&
  canonInternal (Int.ofNat a.seq.length) a.internal &&
  canonIntervals (Int.ofNat a.seq.length) a.intervals &&
  canonOptMods '[' ']' a.cterm &&
  canonAdducts a.charge a.adducts

/-- an annotation without residues that carries leading sections only (`{a}`, `[a]-`, `<13C>` …) -/
def canonStartOnly (a : Annotation) : Bool :=
  a.seq.isEmpty && canonOptMods '{' '}' a.labile && canonGlobal canonStatic a.static &&
  canonGlobal canonIsotope a.isotope && canonOptMods '[' ']' a.unknown && canonOptMods '[' ']' a.nterm &&
  a.internal.isNone && a.intervals.isNone && a.cterm.isNone && a.charge.isNone && a.adducts.isNone

/-- canonical results of `parse`: a canonical single chain that is not a bare residue string is produced by the
chain parser; multi-chain results have ≥ 2 canonical chains and one connection flag per junction -/
def canonParsed : Parsed → Bool
  | .single a => canon a || canonStartOnly a
  | .multi as conns => decide (as.length ≥ 2) && as.all canon && decide (conns.length + 1 = as.length) &&
      conns.all (fun c => c.isSome)

/-! # Surface syntax: an AST of the documented ProForma grammar, its text and what it denotes

`render` writes the text of a tree; `denote` is what the notation means, defined structurally and independently of the
parser: a modification `[txt]^n` denotes the value `convert_type(txt)` with multiplier `n` (1 if absent) — ANY spelling
`txt` is allowed (signed or unsigned numbers, trailing zeros, nested brackets …); residue modifications belong to the
residue they follow (index = number of residues before it); an interval `( … )` covers the residues written inside it;
the leading sections accumulate in order of appearance; chains are joined by `+` (False) or `//` (True).
`Props/C01.parse_render` proves `parse (render t) = ok (denote t)` for every well-formed tree. -/

/-- one modification as written: the text between the brackets and an optional `^n` -/
structure SMod where
  txt : List Char
  mult : Option Nat
  deriving DecidableEq, Repr

def SMod.render (o c : Char) (s : SMod) : List Char :=
  o :: (s.txt ++ c :: (match s.mult with | none => [] | some n => '^' :: natText n))

def SMod.denote (s : SMod) : Mod :=
  ⟨convertType s.txt, match s.mult with | none => 1 | some n => Int.ofNat n⟩

/-- the text is balanced for its bracket pair; a written multiplier is at least 1 -/
def SMod.wf (o c : Char) (s : SMod) : Bool :=
  balanced o c s.txt && (match s.mult with | none => true | some n => decide (n ≥ 1))

def renderMods (o c : Char) (l : List SMod) : List Char := l.flatMap (SMod.render o c)

/-- a global modification: its value is text (not a number) and a written multiplier is 1 -/
def SMod.wfGlobal (s : SMod) : Bool :=
  s.wf '<' '>' && isStr (convertType s.txt) && (match s.mult with | none => true | some n => decide (n = 1))

/-- a leading section -/
inductive SStart where
  | labile (m : SMod)          -- `{m}`
  | globals (g : List SMod)    -- one run `<…><…>`: static rules (text contains `@`) and isotope labels, any order
  | unknown (l : List SMod)    -- `[…]…?`
  | nterm (l : List SMod)      -- `[…]…-`
  deriving Repr

def SStart.render : SStart → List Char
  | .labile m => m.render '{' '}'
  | .globals g => renderMods '<' '>' g
  | .unknown l => renderMods '[' ']' l ++ ['?']
  | .nterm l => renderMods '[' ']' l ++ ['-']

def SStart.wf : SStart → Bool
  | .labile m => m.wf '{' '}'
  | .globals g => !g.isEmpty && g.all SMod.wfGlobal
  | .unknown l => !l.isEmpty && l.all (SMod.wf '[' ']')
  | .nterm l => !l.isEmpty && l.all (SMod.wf '[' ']')

def SStart.isGlobals : SStart → Bool
  | .globals _ => true
  | _ => false

/-- two `<…>` runs are never adjacent (they would be one run) -/
def sNoAdjacentGlobals : List SStart → Bool
  | a :: b :: t => !(a.isGlobals && b.isGlobals) && sNoAdjacentGlobals (b :: t)
  | _ => true

def optList {α} (l : List α) : Option (List α) := if l.isEmpty then none else some l

/-- extend an optional list by a run; nothing happens (`None` stays `None`) when the run is empty -/
def appendRun (cur : Option (List Mod)) (l : List Mod) : Option (List Mod) :=
  if l.isEmpty then cur else some (cur.getD [] ++ l)

/-- leading sections accumulate in order of appearance; inside a `<…>` run the rules with `@` are static rules, the
others isotope labels -/
def SStart.denote (acc : Annotation) : SStart → Annotation
  | .labile m => { acc with labile := some (acc.labile.getD [] ++ [m.denote]) }
  | .globals g =>
    { acc with static := appendRun acc.static ((g.map SMod.denote).filter fun m => strHasAt m.val),
               isotope := appendRun acc.isotope ((g.map SMod.denote).filter fun m => !strHasAt m.val) }
  | .unknown l => { acc with unknown := some (acc.unknown.getD [] ++ l.map SMod.denote) }
  | .nterm l => { acc with nterm := some (acc.nterm.getD [] ++ l.map SMod.denote) }

/-- a residue with the modifications written after it -/
structure SRes where
  c : Char
  mods : List SMod
  deriving Repr

def SRes.render (r : SRes) : List Char := r.c :: renderMods '[' ']' r.mods
def SRes.wf (r : SRes) : Bool := isAA r.c && r.mods.all (SMod.wf '[' ']')

/-- the residue is appended; its modifications are stored under its index -/
def SRes.denote (a : Annotation) (r : SRes) : Annotation :=
  { a with seq := a.seq ++ [r.c],
           internal := if r.mods.isEmpty then a.internal
                       else some (a.internal.getD [] ++ [(Int.ofNat a.seq.length, r.mods.map SMod.denote)]) }

/-- a piece of the residue sequence: one residue, or an ambiguity interval `( … )[mods]` / `(? … )[mods]` -/
inductive SSeg where
  | res (r : SRes)
  | group (amb : Bool) (inner : List SRes) (mods : List SMod)
  deriving Repr

def SSeg.render : SSeg → List Char
  | .res r => r.render
  | .group amb inner mods =>
    '(' :: ((if amb then ['?'] else []) ++ (inner.flatMap SRes.render ++ ')' :: renderMods '[' ']' mods))

def SSeg.wf : SSeg → Bool
  | .res r => r.wf
  | .group _ inner mods => !inner.isEmpty && inner.all SRes.wf && mods.all (SMod.wf '[' ']')

/-- an interval covers exactly the residues written inside the parentheses -/
def SSeg.denote (a : Annotation) : SSeg → Annotation
  | .res r => r.denote a
  | .group amb inner mods =>
    let a' := inner.foldl SRes.denote a
    { a' with intervals := some (a'.intervals.getD [] ++
        [⟨Int.ofNat a.seq.length, Int.ofNat a'.seq.length, amb, optList (mods.map SMod.denote)⟩]) }

/-- `/z[adducts]`: the charge may carry an explicit `+` -/
structure SCharge where
  ch : Int
  explicitPlus : Bool
  adducts : List SMod
  deriving Repr

def SCharge.render (q : SCharge) : List Char :=
  '/' :: ((if q.explicitPlus ∧ q.ch ≥ 0 then ['+'] else []) ++ (intText q.ch ++ renderMods '[' ']' q.adducts))

def SCharge.wf (q : SCharge) : Bool :=
  q.adducts.all fun s => s.wf '[' ']' && (match s.mult with | none => true | some n => decide (n = 1))

/-- one chain -/
structure SChain where
  start : List SStart
  segs : List SSeg
  cterm : List SMod
  charge : Option SCharge
  deriving Repr

def SChain.render (t : SChain) : List Char :=
  t.start.flatMap SStart.render ++ (t.segs.flatMap SSeg.render ++
    ((if t.cterm.isEmpty then [] else '-' :: renderMods '[' ']' t.cterm) ++
     (match t.charge with | none => [] | some q => q.render)))

def SChain.wf (t : SChain) : Bool :=
  t.start.all SStart.wf && sNoAdjacentGlobals t.start && !t.segs.isEmpty && t.segs.all SSeg.wf &&
  t.cterm.all (SMod.wf '[' ']') && (match t.charge with | none => true | some q => q.wf)

def SChain.denote (t : SChain) : Annotation :=
  let a := t.segs.foldl SSeg.denote (t.start.foldl SStart.denote { seq := [] })
  { a with cterm := optList (t.cterm.map SMod.denote),
           charge := t.charge.map (·.ch),
           adducts := match t.charge with | none => none | some q => optList (q.adducts.map SMod.denote) }

/-- a whole ProForma string: a chain followed by (joiner, chain) pairs; `true` = `//`, `false` = `+` -/
structure SText where
  first : SChain
  rest : List (Bool × SChain)
  deriving Repr

def SText.render (t : SText) : List Char :=
  t.first.render ++ t.rest.flatMap fun p => (if p.1 then ['/', '/'] else ['+']) ++ p.2.render

def SText.wf (t : SText) : Bool := t.first.wf && t.rest.all fun p => p.2.wf

def SText.denote (t : SText) : Parsed :=
  match t.rest with
  | [] => .single t.first.denote
  | _ => .multi (t.first.denote :: t.rest.map fun p => p.2.denote) (t.rest.map fun p => some p.1)

/-! ## Grammatical strings -/

/-- a tree is grammatical when it is well formed and what it denotes is canonical (multipliers ≥ 1, values that
survive the text round trip, sorted non-overlapping intervals …) -/
def SText.grammatical (t : SText) : Bool := t.wf && canonParsed t.denote

/-- the decidable class of grammatical strings: accepted by the parser with a canonical result. It contains the text of
every grammatical tree (`Props/C01.render_grammatical`) and the round trip holds on it (`accepted_roundtrip`). -/
def grammaticalString (s : List Char) : Bool :=
  match parse true s with
  | .ok p => canonParsed p
  | .error _ => false

/-- the parser accepts the string -/
def accepted (s : List Char) : Bool :=
  match parse true s with
  | .ok _ => true
  | .error _ => false

/-- `serialize` for parse results, with the multi-chain joiner repaired (see `serializeMultiFixed`) -/
def serializeParsedFixed (plus : Plus) : Parsed → Except Err (List Char)
  | .single a => .ok (serialize plus a)
  | .multi as conns => serializeMultiFixed plus as conns

/-- no crosslink among the connections -/
def noCrosslink : Parsed → Bool
  | .single _ => true
  | .multi _ conns => conns.all fun c => c == some false

end Pept
