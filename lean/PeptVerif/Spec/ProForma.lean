import PeptVerif.Model.Serialize
/-!
# Canonical annotations (C01): the image of the ProForma grammar

`Canon a` is a decidable (Bool-valued) well-formedness predicate on annotation objects. It describes exactly
the objects the documented grammar denotes; `Props/C01` proves `parse (serialize plus a) = ok a` for them.
Mathlib-free (the driver evaluates it: op `canon`).
-/
namespace Pept

/-- depth after reading `w` starting at depth `d`; `none` if depth 0 is reached inside `w` -/
def depthAfter (o c : Char) : Nat → List Char → Option Nat
  | d, [] => some d
  | d, x :: xs =>
    if x = o then depthAfter o c (d+1) xs
    else if x = c then (if d = 1 then none else depthAfter o c (d-1) xs)
    else depthAfter o c d xs

/-- the text can stand between `o … c`: the bracket-depth scan ends exactly at the closing bracket -/
def balanced (o c : Char) (w : List Char) : Bool := depthAfter o c 1 w == some 1

/-- a value survives the text round trip in both spellings of positive numbers, between brackets `o c` -/
def canonVal (o c : Char) (v : ModVal) : Bool :=
  convertType v.text == v && balanced o c v.text &&
  (!v.positive || convertType ('+' :: v.text) == v)

def canonMod (o c : Char) (m : Mod) : Bool := decide (m.mult ≥ 1) && canonVal o c m.val

/-- an optional section: absent, or a non-empty list of canonical mods -/
def canonOptMods (o c : Char) : Option (List Mod) → Bool
  | none => true
  | some l => !l.isEmpty && l.all (canonMod o c)

def isStr : ModVal → Bool
  | .str _ => true
  | _ => false

def strHasAt : ModVal → Bool
  | .str t => t.contains '@'
  | _ => false

/-- static rule: a `str` containing `@`, multiplier exactly 1 -/
def canonStatic (m : Mod) : Bool :=
  decide (m.mult = 1) && isStr m.val && strHasAt m.val && canonVal '<' '>' m.val

/-- isotope label: a `str` without `@`, multiplier exactly 1 -/
def canonIsotope (m : Mod) : Bool :=
  decide (m.mult = 1) && isStr m.val && !strHasAt m.val && canonVal '<' '>' m.val

def canonGlobal (p : Mod → Bool) : Option (List Mod) → Bool
  | none => true
  | some l => !l.isEmpty && l.all p

/-- keys strictly increasing from `lo`, below `n`, each entry non-empty and canonical -/
def canonInternalList (n : Int) : Int → List (Int × List Mod) → Bool
  | _, [] => true
  | lo, (k, ms) :: t =>
    decide (lo ≤ k) && decide (k < n) && !ms.isEmpty && ms.all (canonMod '[' ']') &&
      canonInternalList n (k + 1) t

def canonInternal (n : Int) : Option (List (Int × List Mod)) → Bool
  | none => true
  | some l => !l.isEmpty && canonInternalList n 0 l

/-- intervals sorted, non-overlapping (adjacent allowed), `lo ≤ start < stop ≤ n` -/
def canonIntervalList (n : Int) : Int → List Interval → Bool
  | _, [] => true
  | lo, iv :: t =>
    decide (lo ≤ iv.start) && decide (iv.start < iv.stop) && decide (iv.stop ≤ n) &&
      canonOptMods '[' ']' iv.mods && canonIntervalList n iv.stop t

def canonIntervals (n : Int) : Option (List Interval) → Bool
  | none => true
  | some l => !l.isEmpty && canonIntervalList n 0 l

def canonAdducts (charge : Option Int) : Option (List Mod) → Bool
  | none => true
  | some l => charge.isSome && !l.isEmpty && l.all (fun m => decide (m.mult = 1) && canonVal '[' ']' m.val)

/-- the canonical single-chain annotations -/
def canon (a : Annotation) : Bool :=
  !a.seq.isEmpty && a.seq.all isAA &&
  canonOptMods '{' '}' a.labile &&
  canonGlobal canonStatic a.static &&
  canonGlobal canonIsotope a.isotope &&
  canonOptMods '[' ']' a.unknown &&
  canonOptMods '[' ']' a.nterm &&
  canonInternal (Int.ofNat a.seq.length) a.internal &&
  canonIntervals (Int.ofNat a.seq.length) a.intervals &&
  canonOptMods '[' ']' a.cterm &&
  canonAdducts a.charge a.adducts

/-- canonical results of `parse`: a canonical single chain that is not a bare residue string is produced by the
chain parser; multi-chain results have ≥ 2 canonical chains and one connection flag per junction -/
def canonParsed : Parsed → Bool
  | .single a => canon a
  | .multi as conns => decide (as.length ≥ 2) && as.all canon && decide (conns.length + 1 = as.length) &&
      conns.all (fun c => c.isSome)

end Pept
