import PeptVerif.Model.SeqDigest
import PeptVerif.Spec.Spans
import PeptVerif.Lemmas.RegexLite
/-! Hypotheses of the sequential = simultaneous clause of C06, stated on site functions. -/
namespace Spans

/-- hypotheses on a stage for the sequential = simultaneous clause -/
structure LocalStage (n : Int) (st : Stage) : Prop where
  /-- zero missed cleavages, not semi-specific, complete digestion -/
  plain : st.mc = 0 ∧ st.semi = false ∧ st.complete = true
  /-- sites of a fragment lie inside the fragment -/
  bounds : ∀ a b, 0 ≤ a → a ≤ b → b ≤ n → ∀ x ∈ st.sites a b, 0 ≤ x ∧ x ≤ b - a
  /-- locality: strictly inside a fragment the rule cuts exactly where it cuts in the whole protein -/
  loc : ∀ a b, 0 ≤ a → a < b → b ≤ n → ∀ x, 0 < x → x < b - a → (x ∈ st.sites a b ↔ a + x ∈ st.sites 0 n)
  /-- no fragment is cut at every position by this stage alone (else `build_spans` takes its shortcut) -/
  noShortcut : ∀ a b, 0 ≤ a → a < b → b ≤ n → ((sortDedup (st.sites a b)).length : Int) ≠ b - a + 1

/-! ### the shortcut of `build_spans`, as decidable predicates on the text and the rules -/

/-- no piece `[a,b)` of the text is cut at every position `0..b-a` by this config's rules alone
(otherwise `build_spans` would treat the piece as digested by the non-specific rule) -/
def StageShortcutFree (text : List Char) (c : EnzymeConfig) : Prop :=
  ∀ b, b < text.length + 1 → ∀ a, a < b →
    ((sortDedup (ruleSites c.regex (pieceText text (a : Nat) (b : Nat)))).length : Int) ≠ (b : Int) - (a : Int) + 1

instance (text : List Char) (c : EnzymeConfig) : Decidable (StageShortcutFree text c) := by
  unfold StageShortcutFree; infer_instance

/-- the union of all rules does not cut the text at every position; the negation of this is exactly the
pattern of known finding KF-C06-nonspecific-shortcut -/
def UnionShortcutFree (text : List Char) (rules : List RegexLite.Pattern) : Prop :=
  ((sortDedup (ruleSites rules text)).length : Int) ≠ (text.length : Int) + 1

instance (text : List Char) (rules : List RegexLite.Pattern) : Decidable (UnionShortcutFree text rules) := by
  unfold UnionShortcutFree; infer_instance

/-- rule shapes for which the sequential clause is proved: look-around only (every named protease), or one
consumed residue followed by look-around (`([KR])`, `K`, `[DE]`, `(D)(?=E)`, `(K)(?!P)`) -/
def localRule (p : RegexLite.Pattern) : Bool :=
  match p with
  | .consume _ :: zw => zw.all RegexLite.Item.zeroWidth
  | _ => p.all RegexLite.Item.zeroWidth

/-- whether a local rule cuts between two adjacent residues (`none` = start / end of the text) -/
def cutsAt (p : RegexLite.Pattern) (prev next : Option Char) : Bool :=
  match p with
  | .consume cls :: zw =>
    (match prev with
     | some c => cls.contains c && RegexLite.holdsAt zw (some c) next
     | none => false)
  | _ => RegexLite.holdsAt p prev next

/-- the rule has a look-behind or consumes a residue: it never cuts at the start of a text -/
def startSafe (p : RegexLite.Pattern) : Bool :=
  p.any fun it => match it with | .behind _ => true | .consume _ => true | _ => false

/-- the rule has a positive look-ahead (`(?=[..])` or `(?=[^..])`): it never cuts at the end of a text -/
def endSafe (p : RegexLite.Pattern) : Bool :=
  p.any fun it => match it with | .ahead _ => true | .aheadNot _ => true | _ => false

end Spans
