import PeptVerif.Model.CompCalc
/-!
Specification side of C02 / C03 / C05 (Mathlib-free, executable: the driver evaluates it for the oracle).

* **Hand-typed independent reference data** (typed from the NIST "Atomic Weights and Isotopic Compositions" /
  AME2016 tables and CODATA, NOT derived from /repo): nuclide masses, isotopic abundances for the elements whose
  average mass the property domain needs, particle masses, the 24 residue formulas.
* `specMass`: mass = Σ residues + backbone offset of the ion type + Σ mult·μ(mod) [labile only for the precursor]
  + charge term + isotope·mₙ + loss, generic in the mass table so that it can be instantiated with the hand-typed
  reference (oracle) and with the tables generated from /repo (theorems).
* backbone offsets CO, NH3, H2, H2O, proton built only from formulas over C, H, N, O.
-/
namespace Pept
open Chem Mass

namespace Spec

/-! ### hand-typed reference data -/

def k (s : String) : Key := keyOfChars s.toList

/-- (symbol, key used by the library's compositions, relative atomic mass) -/
def nuclides : List (Key × Rat) := [
  (k "H",   (100782503223 : Rat) / 100000000000),    -- 1H   1.00782503223
  (k "D",   (201410177812 : Rat) / 100000000000),    -- 2H   2.01410177812
  (k "T",   (30160492779 : Rat) / 10000000000),      -- 3H   3.0160492779
  (k "C",   12),                                     -- 12C  12 (exact)
  (k "13C", (1300335483507 : Rat) / 100000000000),   -- 13C  13.00335483507
  (k "N",   (1400307400443 : Rat) / 100000000000),   -- 14N  14.00307400443
  (k "15N", (1500010889888 : Rat) / 100000000000),   -- 15N  15.00010889888
  (k "O",   (1599491461957 : Rat) / 100000000000),   -- 16O  15.99491461957
  (k "17O", (1699913175650 : Rat) / 100000000000),   -- 17O  16.99913175650
  (k "18O", (1799915961286 : Rat) / 100000000000),   -- 18O  17.99915961286
  (k "P",   (3097376199842 : Rat) / 100000000000),   -- 31P  30.97376199842
  (k "S",   (319720711744 : Rat) / 10000000000),     -- 32S  31.9720711744
  (k "34S", (33967867004 : Rat) / 1000000000),       -- 34S  33.967867004
  (k "Se",  (799165218 : Rat) / 10000000),           -- 80Se 79.9165218
  (k "Na",  (229897692820 : Rat) / 10000000000),     -- 23Na 22.9897692820
  (k "K",   (389637064864 : Rat) / 10000000000),     -- 39K  38.9637064864
  (k "Li",  (70160034366 : Rat) / 10000000000),      -- 7Li  7.0160034366
  (k "Mg",  (23985041697 : Rat) / 1000000000),       -- 24Mg 23.985041697
  (k "Ca",  (39962590863 : Rat) / 1000000000),       -- 40Ca 39.962590863
  (k "Cl",  (34968852682 : Rat) / 1000000000),       -- 35Cl 34.968852682
  (k "I",   (1269044719 : Rat) / 10000000)           -- 127I 126.9044719
]

/-- isotopic compositions (mass, abundance) of the elements whose AVERAGE mass the property domain needs -/
def isotopeTable : List (Key × List (Rat × Rat)) := [
  (k "H",  [((100782503223 : Rat) / 100000000000, (999885 : Rat) / 1000000),
            ((201410177812 : Rat) / 100000000000, (115 : Rat) / 1000000)]),
  (k "C",  [(12, (9893 : Rat) / 10000), ((1300335483507 : Rat) / 100000000000, (107 : Rat) / 10000)]),
  (k "N",  [((1400307400443 : Rat) / 100000000000, (99636 : Rat) / 100000),
            ((1500010889888 : Rat) / 100000000000, (364 : Rat) / 100000)]),
  (k "O",  [((1599491461957 : Rat) / 100000000000, (99757 : Rat) / 100000),
            ((1699913175650 : Rat) / 100000000000, (38 : Rat) / 100000),
            ((1799915961286 : Rat) / 100000000000, (205 : Rat) / 100000)]),
  (k "P",  [((3097376199842 : Rat) / 100000000000, 1)]),
  (k "S",  [((319720711744 : Rat) / 10000000000, (9499 : Rat) / 10000),
            ((329714589098 : Rat) / 10000000000, (75 : Rat) / 10000),
            ((33967867004 : Rat) / 1000000000, (425 : Rat) / 10000),
            ((3596708071 : Rat) / 100000000, (1 : Rat) / 10000)]),
  (k "Se", [((73922475934 : Rat) / 1000000000, (89 : Rat) / 10000),
            ((75919213704 : Rat) / 1000000000, (937 : Rat) / 10000),
            ((76919914154 : Rat) / 1000000000, (763 : Rat) / 10000),
            ((7791730928 : Rat) / 100000000, (2377 : Rat) / 10000),
            ((799165218 : Rat) / 10000000, (4961 : Rat) / 10000),
            ((819166995 : Rat) / 10000000, (873 : Rat) / 10000)]),
  (k "Na", [((229897692820 : Rat) / 10000000000, 1)]),
  (k "K",  [((389637064864 : Rat) / 10000000000, (932581 : Rat) / 1000000),
            ((39963998166 : Rat) / 1000000000, (117 : Rat) / 1000000),
            ((409618252579 : Rat) / 10000000000, (67302 : Rat) / 1000000)]),
  (k "Li", [((60151228874 : Rat) / 10000000000, (759 : Rat) / 10000),
            ((70160034366 : Rat) / 10000000000, (9241 : Rat) / 10000)]),
  (k "Mg", [((23985041697 : Rat) / 1000000000, (7899 : Rat) / 10000),
            ((24985836976 : Rat) / 1000000000, (1000 : Rat) / 10000),
            ((25982592968 : Rat) / 1000000000, (1101 : Rat) / 10000)]),
  (k "Ca", [((39962590863 : Rat) / 1000000000, (96941 : Rat) / 100000),
            ((4195861783 : Rat) / 100000000, (647 : Rat) / 100000),
            ((4295876644 : Rat) / 100000000, (135 : Rat) / 100000),
            ((4395548156 : Rat) / 100000000, (2086 : Rat) / 100000),
            ((459536890 : Rat) / 10000000, (4 : Rat) / 100000),
            ((4795252276 : Rat) / 100000000, (187 : Rat) / 100000)]),
  (k "Cl", [((34968852682 : Rat) / 1000000000, (7576 : Rat) / 10000),
            ((36965902602 : Rat) / 1000000000, (2424 : Rat) / 10000)]),
  (k "I",  [((1269044719 : Rat) / 10000000, 1)])
]

/-- CODATA particle masses in u -/
def protonRef : Rat := (1007276466879 : Rat) / 1000000000000      -- 1.007276466879
def electronRef : Rat := (548579909070 : Rat) / 1000000000000000  -- 0.000548579909070
def neutronRef : Rat := (100866491588 : Rat) / 100000000000       -- 1.00866491588

/-- the 24 residue formulas (residue = amino acid − H2O) -/
def residueFormula : List (Key × Comp) := [
  (k "G", [(kC, 2), (kH, 3), (kN, 1), (kO, 1)]),
  (k "A", [(kC, 3), (kH, 5), (kN, 1), (kO, 1)]),
  (k "S", [(kC, 3), (kH, 5), (kN, 1), (kO, 2)]),
  (k "P", [(kC, 5), (kH, 7), (kN, 1), (kO, 1)]),
  (k "V", [(kC, 5), (kH, 9), (kN, 1), (kO, 1)]),
  (k "T", [(kC, 4), (kH, 7), (kN, 1), (kO, 2)]),
  (k "C", [(kC, 3), (kH, 5), (kN, 1), (kO, 1), (kS, 1)]),
  (k "I", [(kC, 6), (kH, 11), (kN, 1), (kO, 1)]),
  (k "L", [(kC, 6), (kH, 11), (kN, 1), (kO, 1)]),
  (k "J", [(kC, 6), (kH, 11), (kN, 1), (kO, 1)]),
  (k "N", [(kC, 4), (kH, 6), (kN, 2), (kO, 2)]),
  (k "D", [(kC, 4), (kH, 5), (kN, 1), (kO, 3)]),
  (k "Q", [(kC, 5), (kH, 8), (kN, 2), (kO, 2)]),
  (k "K", [(kC, 6), (kH, 12), (kN, 2), (kO, 1)]),
  (k "E", [(kC, 5), (kH, 7), (kN, 1), (kO, 3)]),
  (k "M", [(kC, 5), (kH, 9), (kN, 1), (kO, 1), (kS, 1)]),
  (k "H", [(kC, 6), (kH, 7), (kN, 3), (kO, 1)]),
  (k "F", [(kC, 9), (kH, 9), (kN, 1), (kO, 1)]),
  (k "R", [(kC, 6), (kH, 12), (kN, 4), (kO, 1)]),
  (k "Y", [(kC, 9), (kH, 9), (kN, 1), (kO, 2)]),
  (k "W", [(kC, 11), (kH, 10), (kN, 2), (kO, 1)]),
  (k "U", [(kC, 3), (kH, 5), (kN, 1), (kO, 1), (k "Se", 1)]),
  (k "O", [(kC, 12), (kH, 19), (kN, 3), (kO, 2)]),
  (k "X", [])
]

/-! ### mass tables -/

structure MassTable where
  /-- mass of one dict key of a composition in the given mode (`mono = true`: monoisotopic) -/
  elem : Bool → Elem → Rat
  proton : Rat
  electron : Rat
  neutron : Rat

/-- the hand-typed reference: isotope keys and monoisotopic mode from `nuclides`; average mode = Σ mass·abundance -/
def refElem (mono : Bool) (e : Elem) : Option Rat :=
  if e = kE then some electronRef else if e = kPp then some protonRef else if e = kNn then some neutronRef
  else if e = k "2H" then lookup kD nuclides else if e = k "3H" then lookup kT nuclides
  else if mono || isIsotopeKey e then lookup e nuclides
  else (lookup e isotopeTable).map (fun l => l.foldl (fun acc p => acc + p.1 * p.2) 0)

def nist : MassTable := ⟨fun m e => (refElem m e).getD 0, protonRef, electronRef, neutronRef⟩

/-- the tables the library computes from data/chem.txt and constants.py (through the model) -/
def lib : MassTable := ⟨fun m e => (elemMass m e).getD 0, Gen.protonMass, Gen.electronMass, Gen.neutronMass⟩

def MassTable.compMass (T : MassTable) (mono : Bool) (c : Comp) : Rat := chemMassL (T.elem mono) c
/-- the charge carrier the ion tables encode: a hydrogen atom minus an electron -/
def MassTable.hplus (T : MassTable) (mono : Bool) : Rat := T.elem mono kH - T.electron

/-! ### backbone chemistry -/

def fCO : Comp := [(kC, 1), (kO, 1)]
def fNH3 : Comp := [(kN, 1), (kH, 3)]
def fH2 : Comp := [(kH, 2)]
def fH2O : Comp := [(kH, 2), (kO, 1)]

/-- offsets of the terminal series from b (forward) resp. y (backward), as ± formulas -/
def seriesOffset (T : MassTable) (mono : Bool) (t : Key) : Option Rat :=
  let m := T.compMass mono
  if t = k "a" then some (- m fCO)
  else if t = k "b" then some 0
  else if t = k "c" then some (m fNH3)
  else if t = k "x" then some (m fCO - m fH2)
  else if t = k "y" then some 0
  else if t = k "z" then some (- m fNH3)
  else none

/-- neutral offsets of the 18 ion types from the bare residue sum (no charge carrier), as a table:
precursor = H2O, `n` = nothing, forward series = their offset from b, backward series = H2O + their offset from y,
immonium = −CO, internal `fb` = offset of `f` + offset of `b` -/
def offsetTable (T : MassTable) (mono : Bool) : List (Key × Rat) :=
  let m := T.compMass mono
  let ser (t : Key) : Rat := (seriesOffset T mono t).getD 0
  [(k "p", m fH2O), (k "n", 0), (k "i", - m fCO)] ++
  [k "a", k "b", k "c"].map (fun t => (t, ser t)) ++
  [k "x", k "y", k "z"].map (fun t => (t, ser t + m fH2O)) ++
  [k "a", k "b", k "c"].flatMap (fun f => [k "x", k "y", k "z"].map (fun b => (f * 256 + b, ser f + ser b)))

/-- neutral offset of an ion type from the bare residue sum; `none` = not an ion type -/
def neutralOffset (T : MassTable) (mono : Bool) (t : Key) : Option Rat := lookup t (offsetTable T mono)

/-- offset of the singly charged ion of type `t` from the bare residue sum: backbone offset + the charge carrier
(`n` is the bare, uncharged residue sum) -/
def ionOffset (T : MassTable) (mono : Bool) (t : Key) : Option Rat :=
  if t = k "n" then some 0 else (neutralOffset T mono t).map (· + T.hplus mono)

/-- Σ over a list -/
def sumR (l : List Rat) : Rat := l.foldr (· + ·) 0

/-- residue sum from the hand-typed formulas (an unknown letter counts 0 and is outside the domain) -/
def residueSum (T : MassTable) (mono : Bool) (seq : List Char) : Rat :=
  sumR (seq.map fun c => T.compMass mono ((lookup c.toNat residueFormula).getD []))

/-- count·(m(ion) − q·mₑ) for one stated adduct ion -/
def adductIonTerm (T : MassTable) (mono : Bool) (a : List Nat) : Rat :=
  match parseIonElements a with
  | .ok (cnt, sym, ch) =>
    if sym = kE then (cnt : Rat) * T.electron else (cnt : Rat) * (T.elem mono sym - (ch : Rat) * T.electron)
  | .error _ => 0

/-- Σ count·(m(ion) − q·mₑ): the stated adduct ions, each counted `count` times -/
def adductTerm (T : MassTable) (mono : Bool) (s : List Nat) : Rat :=
  sumR ((splitComma s).map (adductIonTerm T mono))

/-- charge term: `z` protons for the precursor; a fragment's first charge is the carrier the backbone chemistry
leaves (`hplus`), every further one a proton; or exactly the stated adduct ions -/
def chargeTerm (T : MassTable) (mono : Bool) (ion : Key) (charge : Int) (adducts : Option (List Nat)) : Rat :=
  match adducts with
  | some s => adductTerm T mono s
  | none =>
    if ion = ionP || ion = ionN then (charge : Rat) * T.proton
    else T.hplus mono + ((charge : Rat) - 1) * T.proton

/-- μ(mod)·multiplier in the requested mode (0 when the modification does not resolve: outside the domain) -/
def modValue (env : Env) (mono : Bool) (m : Mod) : Rat :=
  (match (if mono then (env.res m.val).mono else (env.res m.val).avg) with
    | .ok v => v
    | .error _ => 0) * (m.mult : Rat)

def modsValue (env : Env) (mono : Bool) (l : List Mod) : Rat := sumR (l.map (modValue env mono))

/-- every written modification: labile (precursor only), unknown, N-term, intervals, residues, C-term -/
def placedMods (a : Annotation) (ion : Key) : List Mod :=
  (if ion = ionP then a.labile.getD [] else []) ++ a.unknown.getD [] ++ a.nterm.getD [] ++
  (a.intervals.getD []).flatMap (fun iv => iv.mods.getD []) ++ (a.internal.getD []).flatMap (·.2) ++ a.cterm.getD []

/-- global rules: terminal rules once, a residue rule once per matching residue -/
def staticValue (env : Env) (mono : Bool) (a : Annotation) : Rat :=
  match a.static with
  | none => 0
  | some st =>
    match env.parseStatic st with
    | .error _ => 0
    | .ok map =>
      (match map.lookup nTerm with | some l => modsValue env mono l | none => 0) +
      (match map.lookup cTerm with | some l => modsValue env mono l | none => 0) +
      sumR (map.map fun p => if p.1 = nTerm || p.1 = cTerm then 0
                             else modsValue env mono p.2 * ((countSub p.1 a.seq : Nat) : Rat))

/-- **the specification of C02** -/
def specMassT (T : MassTable) (env : Env) (a : Annotation) (ion : Key) (charge : Int) (mono : Bool) (isotope : Int)
    (loss : Rat) (adducts : Option (List Nat)) : Rat :=
  residueSum T mono a.seq + (neutralOffset T mono ion).getD 0 +
  (staticValue env mono a + modsValue env mono (placedMods a ion)) +
  chargeTerm T mono ion charge adducts + (isotope : Rat) * T.neutron + loss

def modResolves (env : Env) (mono : Bool) (m : Mod) : Bool :=
  match (if mono then (env.res m.val).mono else (env.res m.val).avg) with
  | .ok _ => true
  | .error _ => false

/-- one stated adduct ion parses and its element is known in the mode's table (or it is an electron) -/
def adductIonOk (mono : Bool) (x : List Nat) : Bool :=
  match parseIonElements x with
  | .ok (_, sym, _) => sym = kE || (lookup sym (if mono then isotopicMasses else averageMasses)).isSome
  | .error _ => false

/-- domain of the specification: known residues, known ion type, every modification resolves, the rules parse, the
adduct list parses and is stated for the (un)charged peptide (for fragment ion types the library replaces the whole
ion-forming part - transferred hydrogens included - by the list, which C02 does not cover) -/
def inDomain (env : Env) (a : Annotation) (ion : Key) (mono : Bool) (adducts : Option (List Nat)) : Bool :=
  a.seq.all (fun c => (lookup c.toNat residueFormula).isSome) &&
  (neutralOffset lib mono ion).isSome &&
  (placedMods a ion).all (modResolves env mono) &&
  (match a.static with
    | none => true
    | some st => match env.parseStatic st with
      | .error _ => false
      | .ok map => map.all (fun p => p.2.all (modResolves env mono))) &&
  (match adducts with
    | none => true
    | some s => (ion = ionP || ion = ionN) && (splitComma s).all (adductIonOk mono))

/-- executable form used by the oracle: `none` = outside the domain -/
def specMass (T : MassTable) (env : Env) (a : Annotation) (ion : Key) (charge : Int) (mono : Bool) (isotope : Int)
    (loss : Rat) (adducts : Option (List Nat)) : Option Rat :=
  if inDomain env a ion mono adducts then some (specMassT T env a ion charge mono isotope loss adducts) else none

end Spec
end Pept
