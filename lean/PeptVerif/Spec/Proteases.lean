import PeptVerif.Model.RegexLite
/-!
Hand-typed reference for the protease table, written from the enzymes' documented specificities (Expasy
PeptideCutter conventions), not copied from `constants.py`. Character classes are in alphabetical order; the
generated table is normalised the same way before comparison.
-/
namespace Spec
open RegexLite

def insertChar (c : Char) : List Char → List Char
  | [] => [c]
  | d :: ds => if c ≤ d then c :: d :: ds else d :: insertChar c ds

def sortChars (l : List Char) : List Char := l.foldr insertChar []

def normItem : Item → Item
  | .behind c => .behind (sortChars c)
  | .ahead c => .ahead (sortChars c)
  | .aheadNot c => .aheadNot (sortChars c)
  | .notAhead c => .notAhead (sortChars c)
  | .consume c => .consume (sortChars c)

def normalize (p : Pattern) : Pattern := p.map normItem

/-- cleaves C-terminal to (after) any residue of `s` -/
def afterAny (s : String) : Pattern := [.behind s.toList]
/-- cleaves N-terminal to (before) any residue of `s` -/
def beforeAny (s : String) : Pattern := [.ahead s.toList]

def proteases : List (String × Pattern) := [
  ("arg-c", afterAny "R"),
  ("asp-n", beforeAny "D"),
  -- chymotrypsin: after F, L, W, Y, but not when proline follows (a C-terminal residue has no successor)
  ("chymotrypsin", [.behind "FLWY".toList, .notAhead ['P']]),
  ("chymotrypsin/P", afterAny "FLWY"),
  ("promega-chymotrypsin-high-specificity", afterAny "FWY"),
  ("promega-chymotrypsin-low-specificity", afterAny "FLMWY"),
  ("glu-c", afterAny "E"),
  ("lys-c", afterAny "K"),
  ("lys-n", beforeAny "K"),
  ("proteinase k", afterAny "AEFILTVWY"),
  -- trypsin: after K or R when a residue other than proline follows
  ("trypsin", [.behind "KR".toList, .aheadNot ['P']]),
  ("trypsin/P", afterAny "KR"),
  ("proalanase", afterAny "AP"),
  ("elastase", afterAny "AGILSV"),
  ("pepsin", afterAny "FLWY"),
  ("thermolysin", afterAny "AFILMV"),
  ("proalanase-low-specificity", afterAny "AGPS"),
  -- cuts at every position, including both termini
  ("non-specific", []),
  -- never cuts: demands a character that does not occur in sequences
  ("no-cleave", [.consume ['_']])
]

def referenceTable : List (List Char × Option Pattern) := proteases.map fun e => (e.1.toList, some e.2)

end Spec
