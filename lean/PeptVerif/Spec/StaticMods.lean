import PeptVerif.Model.StaticMods
/-!
Specification side of C12: what "the modification written explicitly on each target" means.
-/
namespace Pept
namespace Static

/-- the modifications listed on residue `i` (Python: `annotation.internal_mods.get(i, [])`) -/
def modsAt (a : Annotation) (i : Int) : List Mod := (internalGet (a.internal.getD []) i).getD []

/-- the rule modifications that belong on residue `i`: for every non-terminal target of the map (in the order of the
map), the rule's modifications once per occurrence of `i` among the target's positions -/
def ruleModsAt (seq : List Char) (i : Nat) : StaticMap → List Mod
  | [] => []
  | (k, ms) :: r =>
    (if isTermKey k then [] else (List.replicate ((targetIndices k seq).count i) ms).flatten) ++ ruleModsAt seq i r

/-- a terminus after the rules: the rule's modifications appended when the map has that terminal key -/
def termAfter (cur : Option (List Mod)) (m : StaticMap) (key : List Char) : Option (List Mod) :=
  match dictGet m key with
  | some ms => some (cur.getD [] ++ ms)
  | none => cur

end Static
end Pept
