import PeptVerif.Model.Score
/-!
# Specification for C17: the quadratic brute-force matcher. Mathlib-free (the driver evaluates it at `Float`).

`window inWin ys x` = all indices `j` of `ys` whose value lies in the window of `x`
(`inWin y x` is `lo x ≤ y ∧ y ≤ hi x`), obtained by testing every `j` — no sortedness, no pointers.
-/
namespace Score
variable {α : Type}

/-- all `j < |ys|` with `ys[j]` in the window of `x`, increasing -/
def windowFrom (inWin : α → α → Bool) (x : α) : Nat → List α → List Nat
  | _, [] => []
  | j, y :: ys => if inWin y x then j :: windowFrom inWin x (j+1) ys else windowFrom inWin x (j+1) ys

def window (inWin : α → α → Bool) (ys : List α) (x : α) : List Nat := windowFrom inWin x 0 ys

/-- `lo x ≤ y ∧ y ≤ hi x`, bounds inclusive, written with `≤` only (independent of the model's `<`) -/
def inWindow [Num α] (t : Tol) (tol : α) (y x : α) : Bool :=
  Num.le (lo t tol x) y && Num.le y (hi t tol x)

/-- brute-force answer for a whole fragment list -/
def bruteForce [Num α] (t : Tol) (tol : α) (xs ys : List α) : List (List Nat) :=
  xs.map (window (inWindow t tol) ys)

/-- the index list denoted by one entry of `get_matched_indices` -/
def idxList : Option (Nat × Nat) → List Nat
  | none => []
  | some (s, e) => List.range' s (e - s)

/-- spec relation for mode `closest`: `j` is in the window and no window element is strictly closer -/
def isClosest [Num α] (ys : List α) (x : α) (w : List Nat) (j : Nat) : Bool :=
  w.contains j && match ys[j]? with
    | none => false
    | some yj => w.all fun k => match ys[k]? with
      | none => false
      | some yk => Num.le (absDiff x yj) (absDiff x yk)

/-- spec relation for mode `largest`: `j` is in the window and no window element is strictly more intense -/
def isLargest [Num α] (ints : List α) (w : List Nat) (j : Nat) : Bool :=
  w.contains j && match ints[j]? with
    | none => false
    | some ij => w.all fun k => match ints[k]? with
      | none => false
      | some ik => Num.le ik ij

/-- does one entry of the result of `match_spectra` satisfy the property for window `w`? -/
def hitOk [Num α] (mode : Mode) (ys ints : List α) (x : α) (w : List Nat) : Hit → Bool
  | .none => w.isEmpty
  | .many l => mode == .all && !w.isEmpty && l == w
  | .one j => match mode with
    | .all => false
    | .closest => isClosest ys x w j
    | .largest => isLargest ints w j

/-- what mode `all` must report for a fragment whose brute-force window is `w` -/
def hitOfWindow (w : List Nat) : Hit := if w = [] then .none else .many w

/-- the distinct matched peaks: the peaks of the spectrum `ps` that occur among the matches `ms` (each once) -/
def matchedPeaks (ps ms : List (Rat × Rat)) : List (Rat × Rat) := ps.filter (fun p => decide (p ∈ ms))

/-- `cov[label][i]` of a coverage dict, 0 when the label has no row -/
def rowVal (cov : List ((Nat × String) × List Nat)) (l : Nat × String) (i : Nat) : Nat :=
  ((cov.lookup l).bind (·[i]?)).getD 0

/-- does match `m` count for label `l` at residue `i`? (its label is `l` and `start ≤ i < end`) -/
def hits {κ : Type} (l : Nat × String) (i : Nat) (m : CovIn κ) : Prop := (m.charge, m.ion) = l ∧ m.start ≤ i ∧ i < m.stop

instance {κ : Type} (l : Nat × String) (i : Nat) (m : CovIn κ) : Decidable (hits l i m) := by unfold hits; infer_instance

end Score
