import PeptVerif.Model.ModBuilder
/-!
# Specification of the variable-modification builder in mode `skip` (property C13)

An explicit subset enumeration, written without the recursion of the implementation:

* the **eligible** sites are the residue indices `0 … n-1` that carry no modification and are matched by at least one
  rule; the groups **offered** at a site are those of the rules matching it, in rule order;
* choose a subset `T` of the eligible sites with `|T| ≤ max_mods`, and one offered group for every site of `T`;
* the form is the input with exactly these groups written at exactly these sites (after the existing entries,
  in index order), everything else untouched;
* terminal variants (`max_mods` does not count them): the N-terminus keeps its state or – only when it is unmodified –
  receives one of the groups of an N-terminal rule matching residue 0; the same for the C-terminus and residue `n-1`;
  every combination is crossed with the enumeration above.

Mathlib-free (the driver evaluates it).
-/
namespace Pept
namespace ModBuilder

/-- all sub-lists (order kept) -/
def sublists {α : Type} : List α → List (List α)
  | [] => [[]]
  | x :: r => (sublists r).map (x :: ·) ++ sublists r

/-- one group for every chosen site -/
def assignments : List (Int × List Group) → List (List (Int × Group))
  | [] => [[]]
  | (i, gs) :: r => gs.flatMap fun g => (assignments r).map ((i, g) :: ·)

/-- groups offered at residue `i` by the rules matching it -/
def offered (rules : List (Rule (List Group))) (i : Int) : List Group :=
  rules.flatMap fun r => if i ∈ r.1 then r.2 else []

/-- eligible sites with their offered groups, in index order -/
def eligible (a : Annotation) (rules : List (Rule (List Group))) : List (Int × List Group) :=
  (List.range a.seq.length).filterMap fun (i : Nat) =>
    if modsAt a (i : Int) = none ∧ offered rules (i : Int) ≠ [] then some ((i : Int), offered rules (i : Int)) else none

/-- write the chosen groups: the dict gains exactly the entries of `T` -/
def withChoice (a : Annotation) (T : List (Int × Group)) : Annotation :=
  if T = [] then a else { a with internal := some (imods a ++ T) }

/-- forms obtained by modifying at most `maxMods` eligible residues -/
def internalForms (a : Annotation) (rules : List (Rule (List Group))) (maxMods : Int) : List Annotation :=
  (((sublists (eligible a rules)).filter fun S => (S.length : Int) ≤ maxMods).flatMap assignments).map (withChoice a)

/-- groups offered to a terminus whose residue has index `pos` -/
def termOffered (rules : List (Rule (List Group))) (pos : Int) : List Group :=
  (termPairs rules).filterMap fun p => if pos ∈ p.1 then some p.2 else none

def nVariants (a : Annotation) (nt : List (Rule (List Group))) : List (Option Group) :=
  none :: (if a.nterm.isSome then [] else (termOffered nt 0).map some)

def cVariants (a : Annotation) (ct : List (Rule (List Group))) : List (Option Group) :=
  none :: (if a.cterm.isSome then [] else (termOffered ct ((a.seq.length : Int) - 1)).map some)

def withTerm (a : Annotation) (n c : Option Group) : Annotation :=
  let a := match n with | some g => { a with nterm := some g } | none => a
  match c with | some g => { a with cterm := some g } | none => a

/-- the specification: terminal variants × subset enumeration -/
def specForms (a : Annotation) (internal nt ct : List (Rule (List Group))) (maxMods : Int) : List Annotation :=
  (nVariants a nt).flatMap fun n => (cVariants a ct).flatMap fun c =>
    internalForms (withTerm a n c) internal maxMods

/-- same argument conversion as `apply_variable_mods` -/
def specVariable (a : Annotation) (internal : Option (List (Rule VarIn))) (maxMods : Int)
    (nterm cterm : TermIn VarIn) (mode : Mode) (emptySites : List Int) : List Annotation :=
  match mode with
  | .skip =>
    let internal := match internal with
      | some rules => varRules rules
      | none => []
    specForms a internal (varTermRules emptySites nterm) (varTermRules emptySites cterm) maxMods
  | _ => []


/-! ### vocabulary of the clauses for all three modes -/

/-- the mods a residue (or terminus) carries after one offered group `g` has been applied to the state `old`
(`none` = unmodified): the group itself on an unmodified site; on a modified one `old ++ g` (append), `g` (overwrite);
mode skip never touches a modified site -/
def newVal (mode : Mode) (old : Option (List Mod)) (g : Group) : List Mod :=
  match old with
  | none => g
  | some o =>
    match mode with
    | .append => o ++ g
    | .overwrite => g
    | .skip => o

/-- hypothesis of the "no form twice" clause at one site: the states the site can take — the one it has and `newVal` for
every offered group — are pairwise different (mode skip at a modified site offers nothing) -/
def SiteOK (mode : Mode) (old : Option (List Mod)) (gs : List Group) : Prop :=
  (mode = .skip ∧ old.isSome = true) ∨
    ((gs.map (newVal mode old)).Nodup ∧ ∀ g ∈ gs, some (newVal mode old g) ≠ old)

/-! ### static rules: the table of the property -/

/-- the mods offered at position `i` by a rule dict: the value of every non-empty rule, once per occurrence of `i`
among the rule's sites (the matcher yields every position at most once), in rule order -/
def staticOffers (rules : List (Rule (List Mod))) (i : Int) : List (List Mod) :=
  (rules.filter fun r => !r.2.isEmpty).flatMap fun r => (r.1.filter (· = i)).map fun _ => r.2

/-- (matched?, pre-modified?, mode) ↦ the mods at a position afterwards.
`old` = mods before (`none` = unmodified), `offers` = values of the rules matching the position -/
def staticTable (mode : Mode) (old : Option (List Mod)) (offers : List (List Mod)) : Option (List Mod) :=
  if offers = [] then old                                   -- not matched: untouched
  else match old with
    | none => some offers.flatten                           -- matched, unmodified: every offered value, in order
    | some o =>
      match mode with
      | .skip => some o                                     -- matched, pre-modified, skip: untouched
      | .append => some (o ++ offers.flatten)               -- … append: existing mods, then the offered ones
      | .overwrite => offers.getLast?                       -- … overwrite: replaced (the last matching rule wins)

/-- what `apply_static_mods` has to return -/
structure StaticSpec (a r : Annotation) (internal nterm cterm : List (Rule (List Mod))) (mode : Mode) : Prop where
  residues : ∀ i : Int, modsAt r i = staticTable mode (modsAt a i) (staticOffers internal i)
  nterm : r.nterm = staticTable mode a.nterm (staticOffers nterm 0)
  cterm : r.cterm = staticTable mode a.cterm (staticOffers cterm ((a.seq.length : Int) - 1))
  rest : { r with internal := none, nterm := none, cterm := none } = { a with internal := none, nterm := none, cterm := none }

end ModBuilder
end Pept
