import PeptVerif.Model.Combinatoric
/-!
Specification side of C19.

* `wrap a sel`: the annotation that consists of the selected modified residues `sel` (in that order) inside the
  labile / global / terminal / charge annotations of `a`.
* the "standard enumerations" as the `itertools` documentation defines them: index tuples of the Cartesian
  product in lexicographic order, filtered (no repeated index / strictly increasing / weakly increasing).
-/
namespace Pept

/-- selected residues with their own mods, wrapped in the globals of `a` (as the text round trip leaves them) -/
def wrap (a : Annotation) (sel : List (Char × List Mod)) : Annotation :=
  { seq := sel.map (·.1)
    isotope := normList a.isotope
    static := normList a.static
    labile := normList a.labile
    unknown := normList a.unknown
    nterm := normList a.nterm
    cterm := normList a.cterm
    internal := internalOf sel
    intervals := none
    charge := a.charge
    adducts := normList a.adducts }

/-- a present-but-empty list becomes `None` (nothing else changes) -/
def dropEmptyList : Option (List Mod) → Option (List Mod)
  | some [] => none
  | x => x

/-- the annotation with the empty-but-present labile / static / isotope / C-term / adduct lists set to `None`: the serializer
writes nothing for these five when they are empty, so the text is the same. (An empty-but-present *unknown-position* or
*N-term* list is different: `has_unknown_mods()` / `has_nterm_mods()` are `is not None`, a bare `?` / `-` is written and the
result does not parse - see the counter-examples in Props/C19.lean.) -/
def dropEmpty (a : Annotation) : Annotation :=
  { a with labile := dropEmptyList a.labile, static := dropEmptyList a.static, isotope := dropEmptyList a.isotope,
           cterm := dropEmptyList a.cterm, adducts := dropEmptyList a.adducts }

/-- the mods a residue of an annotation carries -/
def modsAt (a : Annotation) (i : Nat) : List Mod := (getInternal a (i : Int)).getD []

/-- all index tuples of length `k` over `0..n-1` in lexicographic order (`itertools.product(range(n), repeat=k)`) -/
def tuples (k n : Nat) : List (List Nat) := prodK k (List.range n)

/-- select by index -/
def pick {α : Type} (l : List α) (idx : List Nat) : List α := idx.filterMap (l[·]?)

/-- `itertools` documentation: product tuples -/
def specProd {α : Type} (k : Nat) (l : List α) : List (List α) := (tuples k l.length).map (pick l)

/-- `itertools` documentation: permutations = product tuples without a repeated index -/
def specPerms {α : Type} (k : Nat) (l : List α) : List (List α) :=
  ((tuples k l.length).filter fun t => decide t.Nodup).map (pick l)

/-- `itertools` documentation: combinations = product tuples with strictly increasing indices -/
def specCombs {α : Type} (k : Nat) (l : List α) : List (List α) :=
  ((tuples k l.length).filter fun t => decide (t.Pairwise (· < ·))).map (pick l)

/-- `itertools` documentation: combinations with replacement = product tuples with weakly increasing indices -/
def specCwr {α : Type} (k : Nat) (l : List α) : List (List α) :=
  ((tuples k l.length).filter fun t => decide (t.Pairwise (· ≤ ·))).map (pick l)

end Pept
