import PeptVerif.Model.StaticMods
/-!
Abstract mass / composition model used by C12 and C18 (Mathlib-free).

The *structure* of `mass_calc.mass`, `mass_calc.comp_mass`, `chem_calc._sequence_comp`,
`mass_calc._pop_delta_mass_mods`, `chem_calc.apply_isotope_mods_to_composition` and
`proforma_parser.parse_isotope_mods` is followed branch for branch; every *number* is a parameter
(`Env`): residue masses, per-modification masses, residue / modification compositions, element masses,
the ion-type and charge-carrier terms. The harness sends the values the implementation resolves
(exact binary values of the doubles), so all theorems proved here hold for ANY weights.

Mass resolution itself (`mod_mass`, `mod_comp`, tables) is the business of C02/C03/C10.
-/
namespace Pept
namespace AbsMass
open Static

/-- element symbol ↦ count; insertion-ordered Python dict -/
abbrev Comp := List (List Char × Rat)

/-- what `mod_comp(val)` / `_parse_mod_delta_mass_only(val)` say about a modification value -/
inductive ModRes where
  | comp (c : Comp)      -- has a composition
  | delta (d : Rat)      -- a plain mass shift
  | bad                  -- neither (ValueError)
  deriving Repr, Inhabited

/-- two behaviours of the composition path on the unchanged tree that belong to C02/C03 (the model carries
both variants, the harness selects the one the implementation shows and records it) -/
structure Quirks where
  /-- `_pop_delta_mass_mods` adds `val` and not `val·mult` -/
  deltaIgnoresMult : Bool := false
  /-- labile plain shifts are added for every ion type (labile compositions only for `p`) -/
  labileDeltaAnyIon : Bool := false
  deriving Repr, Inhabited

structure Env where
  /-- `MONOISOTOPIC_AA_MASSES[aa]` (or the average table) -/
  res : Char → Rat
  /-- `mod_mass(val)` -/
  mu : ModVal → Rat
  /-- fast path: everything `adjust_mass` adds to the base (ion-type offset, charge carrier, isotope, loss) -/
  adj : Rat
  /-- `AA_COMPOSITIONS[aa]` -/
  aaComp : Char → Comp
  /-- `mod_comp(val)` / `_parse_mod_delta_mass_only(val)` -/
  modRes : ModVal → ModRes
  /-- `NEUTRAL_FRAGMENT_COMPOSITION_ADJUSTMENTS[ion_type]` -/
  ionAdj : Comp
  /-- `_parse_charge_adducts_comp(…)` of the charge carrier -/
  chargeComp : Comp
  /-- mass of one atom / particle (`chem_mass({x: 1})`) -/
  em : List Char → Rat
  /-- `NTERM_COMPOSITION`, `CTERM_COMPOSITION` (the terminal H and OH) -/
  ntermComp : Comp := []
  ctermComp : Comp := []
  /-- the keys of `ISOTOPIC_ATOMIC_MASSES` (labels `parse_isotope_mods` accepts) -/
  knownLabel : List Char → Bool := fun _ => true
  /-- the `isotope` argument (neutron offset) -/
  isotope : Int := 0
  /-- ion type is `p` (labile mods count) -/
  ionP : Bool := true
  useIsotopeOnMods : Bool := false
  q : Quirks := {}

/-! ### fast path of `mass` -/

def modMass (E : Env) (m : Mod) : Rat := E.mu m.val * m.mult

def sumMods (E : Env) : List Mod → Rat
  | [] => 0
  | m :: r => modMass E m + sumMods E r

def optSum (E : Env) : Option (List Mod) → Rat
  | none => 0
  | some l => sumMods E l

def sumRes (E : Env) : List Char → Rat
  | [] => 0
  | c :: r => E.res c + sumRes E r

def sumInternal (E : Env) : List (Int × List Mod) → Rat
  | [] => 0
  | p :: r => sumMods E p.2 + sumInternal E r

def sumIntervals (E : Env) : List Interval → Rat
  | [] => 0
  | iv :: r => optSum E iv.mods + sumIntervals E r

/-- the static-rule block of `mass`: terminal keys once, residue keys times `sequence.count(aa)` -/
def staticResidueMass (E : Env) (seq : List Char) : StaticMap → Rat
  | [] => 0
  | (k, ms) :: r =>
    (if isTermKey k then 0 else sumMods E ms * (countOcc k seq : Nat)) + staticResidueMass E seq r

def staticMass (E : Env) (seq : List Char) (m : StaticMap) : Rat :=
  (match dictGet m nTermKey with | some ms => sumMods E ms | none => 0) +
  (match dictGet m cTermKey with | some ms => sumMods E ms | none => 0) +
  staticResidueMass E seq m

def optInt (E : Env) : Option (List (Int × List Mod)) → Rat
  | some d => sumInternal E d
  | none => 0

def optIntervals (E : Env) : Option (List Interval) → Rat
  | some l => sumIntervals E l
  | none => 0

/-- everything `mass` adds up before `adjust_mass`, static block excluded -/
def plainMass (E : Env) (a : Annotation) : Rat :=
  sumRes E a.seq + (if E.ionP then optSum E a.labile else 0) + optSum E a.unknown + optSum E a.nterm +
    optIntervals E a.intervals + optInt E a.internal + optSum E a.cterm

/-- `mass(annotation)` without isotope labels -/
def massFast (E : Env) (a : Annotation) : Except Err Rat :=
  match a.static with
  | none => .ok (plainMass E a + E.adj)
  | some rules =>
    match parseStaticMods (some rules) with
    | .error e => .error e
    | .ok m => .ok (staticMass E a.seq m + plainMass E a + E.adj)

/-! ### compositions -/

def compGet (c : Comp) (k : List Char) : Rat :=
  match c with
  | [] => 0
  | (k', v) :: r => if k' = k then v else compGet r k

def compHas (c : Comp) (k : List Char) : Bool :=
  match c with
  | [] => false
  | (k', _) :: r => k' == k || compHas r k

/-- `d[k] = d.get(k, 0) + v` -/
def compAdd1 (c : Comp) (k : List Char) (v : Rat) : Comp :=
  match c with
  | [] => [(k, v)]
  | (k', w) :: r => if k' = k then (k', w + v) :: r else (k', w) :: compAdd1 r k v

def compAdd (c d : Comp) : Comp := d.foldl (fun acc p => compAdd1 acc p.1 p.2) c

def compScale (c : Comp) (s : Rat) : Comp := c.map fun p => (p.1, p.2 * s)

def compDel (c : Comp) (k : List Char) : Comp := c.filter fun p => p.1 != k

/-- `chem_mass(comp)` -/
def chemMass (em : List Char → Rat) : Comp → Rat
  | [] => 0
  | (k, v) :: r => v * em k + chemMass em r

/-! ### isotope labels -/

abbrev LabelMap := List (List Char × List Char)

def mapSet (m : LabelMap) (k v : List Char) : LabelMap :=
  match m with
  | [] => [(k, v)]
  | (k', w) :: r => if k' = k then (k', v) :: r else (k', w) :: mapSet r k v

def mapPop (m : LabelMap) (k : List Char) : LabelMap := m.filter fun p => p.1 != k

/-- `d['H'] = d.pop(k)` when `k` is present -/
def moveToH (m : LabelMap) (k : List Char) : LabelMap :=
  match dictGet m k with
  | some v => mapSet (mapPop m k) ['H'] v
  | none => m

/-- the loop of `parse_isotope_mods`: a non-string is a TypeError, a label that is not a key of
`ISOTOPIC_ATOMIC_MASSES` a ValueError (since repo commit f542eb3); digits removed give the element; later entries overwrite -/
def labelFold (known : List Char → Bool) : List Mod → LabelMap → Except Err LabelMap
  | [], acc => .ok acc
  | m :: r, acc =>
    match m.val with
    | .str s =>
      if known s then labelFold known r (mapSet acc (s.filter fun c => !isDig c) s)
      else .error .valueError
    | _ => .error .typeError

/-- `parse_isotope_mods`: then `D` / `T` are moved to `H` -/
def parseIsotopeMods (known : List Char → Bool) (l : List Mod) : Except Err LabelMap :=
  match labelFold known l [] with
  | .ok m0 => .ok (moveToH (moveToH m0 ['D']) ['T'])
  | .error e => .error e

/-- one step of `apply_isotope_mods_to_composition` -/
def relabel1 (c : Comp) (el lab : List Char) : Comp :=
  if compHas c el then
    if el = lab then c
    else compDel (compAdd1 c lab (compGet c el)) el   -- `c[lab] += c[el]` or `c[lab] = c[el]`, then `del c[el]`
  else c

def relabel (c : Comp) (m : LabelMap) : Comp := m.foldl (fun acc p => relabel1 acc p.1 p.2) c

/-! ### composition path: `comp_mass` -/

def isDelta (E : Env) (m : Mod) : Bool := match E.modRes m.val with | .delta _ => true | _ => false
def isBad (E : Env) (m : Mod) : Bool := match E.modRes m.val with | .bad => true | _ => false

def deltaOf (E : Env) (m : Mod) : Rat :=
  match E.modRes m.val with
  | .delta d => if E.q.deltaIgnoresMult then d else d * m.mult
  | _ => 0

def compOf (E : Env) (m : Mod) : Comp :=
  match E.modRes m.val with
  | .comp c => compScale c m.mult
  | _ => []

def deltaSum (E : Env) : List Mod → Rat
  | [] => 0
  | m :: r => deltaOf E m + deltaSum E r

def compSum (E : Env) (acc : Comp) : List Mod → Comp
  | [] => acc
  | m :: r => compSum E (compAdd acc (compOf E m)) r

def allMods (a : Annotation) : List Mod :=
  (a.labile.getD []) ++ (a.unknown.getD []) ++ (a.nterm.getD []) ++ (a.cterm.getD []) ++
    ((a.intervals.getD []).flatMap fun iv => iv.mods.getD []) ++ ((a.internal.getD []).flatMap fun p => p.2)

/-- `_pop_delta_mass_mods` (the returned sum) on an annotation whose static rules are condensed -/
def deltaMass (E : Env) (a : Annotation) : Rat :=
  (if E.ionP || E.q.labileDeltaAnyIon then deltaSum E (a.labile.getD []) else 0) +
  deltaSum E (a.unknown.getD []) + deltaSum E (a.nterm.getD []) + deltaSum E (a.cterm.getD []) +
  deltaSum E ((a.intervals.getD []).flatMap fun iv => iv.mods.getD []) +
  deltaSum E ((a.internal.getD []).flatMap fun p => p.2)

def seqCompOf (E : Env) : List Char → Comp → Comp
  | [], acc => acc
  | c :: r, acc => seqCompOf E r (compAdd acc (E.aaComp c))

/-- residues + ion-type adjustment + charge carrier (the part a label always reaches) -/
def sequenceComposition (E : Env) (a : Annotation) : Comp :=
  compAdd (compAdd (seqCompOf E a.seq []) E.ionAdj) E.chargeComp

/-- the modification part of `_sequence_comp`, in its order: unknown, intervals, labile (ion p), N-term, C-term,
internal; then the neutron offset -/
def modComposition (E : Env) (a : Annotation) : Comp :=
  let c0 := compSum E [] (a.unknown.getD [])
  let c1 := compSum E c0 ((a.intervals.getD []).flatMap fun iv => iv.mods.getD [])
  let c2 := if E.ionP then compSum E c1 (a.labile.getD []) else c1
  let c3 := compSum E c2 (a.nterm.getD [])
  let c4 := compSum E c3 (a.cterm.getD [])
  let c5 := compSum E c4 ((a.internal.getD []).flatMap fun p => p.2)
  compAdd1 c5 ['n'] E.isotope

def dropZeros (c : Comp) : Comp := c.filter fun p => p.2 != 0

/-- since repo commit fdf96ab `comp_mass` also resolves the modifications of a rule whose (non-terminal) target does not
occur in the sequence — condensing drops such a rule — so an unresolvable one raises as it does in `mass` -/
def absentRuleBad (E : Env) (a : Annotation) : Bool :=
  match parseStaticMods a.static with
  | .ok m => m.any fun p => !isTermKey p.1 && countOcc p.1 a.seq == 0 && p.2.any (isBad E)
  | .error _ => false

/-- `comp_mass(annotation, …)`: (composition, delta mass); `labels` = the isotope rules in force -/
def compMassOf (E : Env) (a : Annotation) : Except Err (Comp × Rat) :=
  match condenseStatic a with
  | .error e => .error e
  | .ok c =>
    if (allMods c).any (isBad E) || absentRuleBad E a then .error .valueError else
    match (match c.isotope with | some l => parseIsotopeMods E.knownLabel l | none => .ok []) with
    | .error e => .error e
    | .ok lm =>
      let sc := relabel (sequenceComposition E c) lm
      let mc := if E.useIsotopeOnMods then relabel (modComposition E c) lm else modComposition E c
      .ok (dropZeros (compAdd (compAdd [] sc) mc), deltaMass E c)

/-- the label path of `mass`: `chem_mass(comp) + delta` -/
def massLabel (E : Env) (a : Annotation) : Except Err Rat :=
  match compMassOf E a with
  | .error e => .error e
  | .ok (c, d) => .ok (chemMass E.em c + d)

/-- `mass(annotation)`: the composition path when isotope labels are present (a non-empty list), else the fast path -/
def massOf (E : Env) (a : Annotation) : Except Err Rat :=
  match a.isotope with
  | some (_ :: _) => massLabel E a
  | _ => massFast E a

end AbsMass
end Pept
