import PeptVerif.Model.Score
/-!
# A concrete rounding function for the rounded-arithmetic instance of the C17 model. Mathlib-free.

`rnd53 z` = the rational nearest to `z` with a 53-bit significand, ties to the even significand: IEEE-754 binary64
round-to-nearest-even with an unbounded exponent (no overflow, no subnormals). The driver runs
`getMatchedIndices` at ℚ with every operation followed by `rnd53` (op `gmir`) and the harness compares the answer with
the real `get_matched_indices` on the same doubles; `rnd53` itself is compared with CPython's correctly rounded
`float(Fraction)` (op `rnd53`). That `rnd53` is monotone with relative error ≤ 2^-53 is NOT proved here (trusted /
exercised by the harness on every value it rounds).
-/
namespace Score

/-- `a / b` (with `b > 0`) rounded to the nearest natural number, ties to even -/
def roundHalfEvenNat (a b : Nat) : Nat :=
  let q := a / b
  let r := a % b
  if 2 * r < b then q else if b < 2 * r then q + 1 else if q % 2 == 0 then q else q + 1

/-- `n / d · 2^(-e)` as a fraction of naturals -/
def scale2 (n d : Nat) (e : Int) : Nat × Nat :=
  if 0 ≤ e then (n, d * 2 ^ e.toNat) else (n * 2 ^ (-e).toNat, d)

def rnd53 (z : Rat) : Rat :=
  if z.num == 0 then 0 else
  let n := z.num.natAbs
  let d := z.den
  -- n/d ∈ (2^(ln-ld-1), 2^(ln-ld+1)), so n/d/2^e0 ∈ (2^51, 2^53): at most one adjustment
  let e0 : Int := (Nat.log2 n : Int) - (Nat.log2 d : Int) - 52
  let ab0 := scale2 n d e0
  let e : Int := if ab0.1 < ab0.2 * 2 ^ 52 then e0 - 1 else if ab0.2 * 2 ^ 53 ≤ ab0.1 then e0 + 1 else e0
  let ab := scale2 n d e
  let m := roundHalfEvenNat ab.1 ab.2
  let mag : Rat := if 0 ≤ e then ((m * 2 ^ e.toNat : Nat) : Rat) else (m : Rat) / ((2 ^ (-e).toNat : Nat) : Rat)
  if z.num < 0 then -mag else mag

end Score
