import PeptVerif.Model.ModDb
/-! Extra string combinators the Python-subset translator (`harness/translate_moddb.py`) may emit and the hand model does not
use itself. Mathlib-free. -/
namespace PyStr
open ModDb

/-- `lit in s` -/
def isInfix (lit : Str) : Str → Bool
  | [] => lit.isEmpty
  | c :: r => lit.isPrefixOf (c :: r) || isInfix lit r

/-- `s[n:]` -/
def dropLen (n : Nat) (s : Str) : Str := s.drop n

end PyStr
