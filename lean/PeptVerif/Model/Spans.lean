/-!
Model of `/repo/src/peptacular/spans.py` (span builders used by `digest`).

Every function follows the Python branch for branch. Python integers that are
subtracted are `Int`; `None` arguments are `Option Int`. Generators become lists
(in generation order). Mathlib-free so the driver can be compiled.
-/
namespace Spans

abbrev Span := Int × Int × Int

/-- Python `range(a, b)` -/
def range (a b : Int) : List Int := (List.range (b - a).toNat).map (fun (k : Nat) => a + (k : Int))

/-- Python `range(a, b, -1)` -/
def rangeDown (a b : Int) : List Int := (List.range (a - b).toNat).map (fun (k : Nat) => a - (k : Int))

/-- `build_non_enzymatic_spans(span, min_len, max_len)` -/
def buildNonEnzymatic (span : Span) (minLen maxLen : Option Int) : List Span :=
  let minLen := minLen.getD 1
  let maxSpan := span.2.1 - span.1 - 1
  let maxLen := min (maxLen.getD maxSpan) maxSpan
  let start := span.1
  let stop := span.2.1
  (range start stop).flatMap fun i =>
    (range (i + minLen) (min (stop + 1) (i + maxLen + 1))).map fun j => (i, j, 0)

/-- `build_left_semi_spans(span, min_len, max_len)` -/
def buildLeftSemi (span : Span) (minLen maxLen : Option Int) : List Span :=
  let minLen := minLen.getD 1
  let maxLen := maxLen.getD (span.2.1 - span.1)
  let start := span.1
  let stop := span.2.1
  let value := span.2.2
  let newEnd := min (start + maxLen) (stop - 1)
  ((rangeDown newEnd (start - 1)).filter fun i => i - start ≥ minLen).map fun i => (start, i, value)

/-- `build_right_semi_spans(span, min_len, max_len)` -/
def buildRightSemi (span : Span) (minLen maxLen : Option Int) : List Span :=
  let minLen := minLen.getD 1
  let maxLen := maxLen.getD (span.2.1 - span.1)
  let start := span.1
  let stop := span.2.1
  let value := span.2.2
  let newStart := max (start + 1) (stop - maxLen)
  ((range newStart (stop + 1)).filter fun i => stop - i ≥ minLen).map fun i => (i, stop, value)

/-- Python `l[a:b]` for non-negative `a`, `b` (used by the mechanically translated definitions) -/
def pySlice {α} (l : List α) (a b : Int) : List α := (l.take b.toNat).drop a.toNat

/-- insertion into a strictly increasing list, dropping duplicates (`sorted(set(..))`) -/
def insertSorted (x : Int) : List Int → List Int
  | [] => [x]
  | y :: ys => if x < y then x :: y :: ys else if x = y then y :: ys else y :: insertSorted x ys

/-- `sorted(set(l))` -/
def sortDedup (l : List Int) : List Int := l.foldr insertSorted []

/-- the double loop of `build_enzymatic_spans` over the sorted site list -/
def enzGo (mc : Nat) (lo hi : Int) : List Int → List Span
  | [] => []
  | s :: rest =>
    (((rest.take (mc+1)).zipIdx).filterMap fun p =>
       if lo ≤ p.1 - s ∧ p.1 - s ≤ hi then some (s, p.1, (p.2 : Int)) else none) ++ enzGo mc lo hi rest

/-- `build_enzymatic_spans(max_index, enzyme_sites, missed_cleavages, min_len, max_len)`.
A negative `missed_cleavages` makes the Python slice `[i+1 : i+mc+2]` empty (or, below −1, wrap
around); the model takes `mc : Nat` and the driver rejects negative values. -/
def buildEnzymatic (n : Int) (sites : List Int) (mc : Nat) (minLen maxLen : Option Int) : List Span :=
  enzGo mc (minLen.getD 1) (maxLen.getD n) (sortDedup (0 :: n :: sites))

/-- stable insertion sort by a Boolean `le` -/
def insertBy {α} (le : α → α → Bool) (x : α) : List α → List α
  | [] => [x]
  | y :: ys => if le x y then x :: y :: ys else y :: insertBy le x ys

def sortBy {α} (le : α → α → Bool) (l : List α) : List α := l.foldr (insertBy le) []

/-- `itertools.groupby` on consecutive equal keys -/
def groupByKey {α} (key : α → Int) : List α → List (List α)
  | [] => []
  | x :: xs =>
    match groupByKey key xs with
    | [] => [[x]]
    | g :: gs =>
      match g with
      | [] => [x] :: gs
      | y :: _ => if key x = key y then (x :: g) :: gs else [x] :: g :: gs

def spanLen (s : Span) : Int := s.2.1 - s.1

/-- `new_max_len = span_len - 1; if max_len is not None: new_max_len = min(max_len, new_max_len)` -/
def newMaxLen (maxLen : Option Int) (len : Int) : Int :=
  match maxLen with
  | none => len - 1
  | some m => min m (len - 1)

/-- the per-group loop of `_grouped_left_semi_span_builder` (`brk` chooses `<=` vs `<`) -/
def groupLoop (build : Span → Option Int → Option Int → List Span) (strictBreak : Bool)
    (minLen : Int) (maxLen : Option Int) : List Span → List Span
  | [] => []
  | span :: rest =>
    let len := spanLen span
    if (if strictBreak then len < minLen else len ≤ minLen) then []
    else
      let newMax := newMaxLen maxLen len
      match rest with
      | [] => build span (some minLen) (some newMax)
      | next :: _ =>
        let newMin := max minLen (spanLen next + 1)
        build span (some newMin) (some newMax) ++ groupLoop build strictBreak minLen maxLen rest

/-- `_grouped_left_semi_span_builder` -/
def groupedLeft (spans : List Span) (minLen maxLen : Option Int) : List Span :=
  let minLen := minLen.getD 1
  let sorted := sortBy (fun (a b : Span) => a.1 < b.1 || (a.1 == b.1 && -a.2.2 ≤ -b.2.2)) spans
  (groupByKey (fun s : Span => s.1) sorted).flatMap (groupLoop buildLeftSemi false minLen maxLen)

/-- `_grouped_right_semi_span_builder` -/
def groupedRight (spans : List Span) (minLen maxLen : Option Int) : List Span :=
  let minLen := minLen.getD 1
  let sorted := sortBy (fun (a b : Span) => a.2.1 < b.2.1 || (a.2.1 == b.2.1 && -a.2.2 ≤ -b.2.2)) spans
  (groupByKey (fun s : Span => s.2.1) sorted).flatMap (groupLoop buildRightSemi true minLen maxLen)

/-- `build_semi_spans` -/
def buildSemi (spans : List Span) (minLen maxLen : Option Int) : List Span :=
  groupedLeft spans minLen maxLen ++ groupedRight spans minLen maxLen

/-- `build_spans(max_index, enzyme_sites, missed_cleavages, min_len, max_len, semi)` -/
def buildSpans (n : Int) (sites : List Int) (mc : Nat) (minLen maxLen : Option Int) (semi : Bool) : List Span :=
  let minL := minLen.getD 1
  let maxL := maxLen.getD n
  let sites' := sortDedup sites
  if (sites'.length : Int) = n + 1 then
    buildNonEnzymatic (0, n, 0) (some minL) (some maxL)
  else
    let spans := buildEnzymatic n sites' mc (some minL) (if semi then none else some maxL)
    if semi then
      spans.filter (fun s => maxL ≥ spanLen s && spanLen s ≥ minL) ++ buildSemi spans (some minL) (some maxL)
    else spans

/-! ### `digest` at the level of spans (sites are an input; the regex is outside the model) -/

def spanLt (a b : Span) : Bool :=
  a.1 < b.1 || (a.1 == b.1 && (a.2.1 < b.2.1 || (a.2.1 == b.2.1 && a.2.2 < b.2.2)))

def insertSpan (x : Span) : List Span → List Span
  | [] => [x]
  | y :: ys => if spanLt x y then x :: y :: ys else if x == y then y :: ys else y :: insertSpan x ys

/-- `sorted(set(spans))` -/
def sortDedupSpans (l : List Span) : List Span := l.foldr insertSpan []

/-- span list of `digest(..., sort_output=True)` given the concatenated site lists of its rules -/
def digestSpans (n : Int) (sites : List Int) (mc : Nat) (minLen maxLen : Option Int) (semi complete : Bool) :
    List Span :=
  sortDedupSpans ((if complete then [] else [(0, n, 0)]) ++ buildSpans n sites mc minLen maxLen semi)

/-! ### set specification (what property C06 demands) -/

/-- number of cleavage points of `S⁺ = S ∪ {0,n}` strictly inside `(s,e)` -/
def inside (l : List Int) (s e : Int) : Nat := (l.filter (fun x => decide (s < x) && decide (x < e))).length

def showSpan (s : Span) : String := s!"{s.1}:{s.2.1}:{s.2.2}"
def showSpans (l : List Span) : String := ";".intercalate (l.map showSpan)

end Spans
