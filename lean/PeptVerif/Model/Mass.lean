import PeptVerif.Model.Annotation
import PeptVerif.Model.Chem
/-!
Model of `mass_calc.py`: `mass` (fast path; the composition path taken when isotope labels are present lives in
`Model/CompCalc.lean` and is passed in as a parameter here to keep the import order), `mz`, `adjust_mass`,
`adjust_mz`, `_parse_charge_adducts_mass`, `_parse_adduct_mass`, `parse_ion_elements`.  Mathlib-free.

**Modification resolution is a parameter** (`Env`): for every `Mod.val` the model is given what Python's
`mod_mass(val, True)`, `mod_mass(val, False)`, `_parse_mod_delta_mass_only(val)` and `mod_comp(val)` return
(the name → entry resolver is property C10), and what `parse_static_mods` returns for the annotation's static rules
(text of a rule → targets and mods is the parser's business, C01/C12).
-/
namespace Pept
open Chem

/-- what the resolver returns for one `Mod.val` -/
structure Res where
  /-- `mod_mass(val, monoisotopic=True)` -/
  mono : Except Err Rat
  /-- `mod_mass(val, monoisotopic=False)` -/
  avg : Except Err Rat
  /-- `_parse_mod_delta_mass_only(val)`: `some d` = a pure mass shift, `none` = has a composition -/
  delta : Except Err (Option Rat)
  /-- `mod_comp(val)` -/
  comp : Except Err Comp
  deriving Inhabited

structure Env where
  res : ModVal → Res
  /-- `parse_static_mods(mods)`: insertion-ordered dict target → mods; targets are residue strings, `N-Term`, `C-Term` -/
  parseStatic : List Mod → Except Err (List (List Char × List Mod))

namespace Mass

def nTerm : List Char := "N-Term".toList
def cTerm : List Char := "C-Term".toList
def ionP : Key := 112
def ionN : Key := 110

/-- `TABLE[key]` of a float-valued constant table: a missing key is a KeyError -/
def tbl (o : Option Rat) : Except Err Rat :=
  match o with
  | some v => pure v
  | none => .error .keyError

/-! ### adduct strings (over ASCII code points) -/

/-- `sum(f(x) for x in l)` where `f` may raise -/
def sumM {α} (f : α → Except Err Rat) (l : List α) : Except Err Rat :=
  l.foldlM (fun acc x => do let v ← f x; pure (acc + v)) (0 : Rat)

/-- `_pop_ion_count`: sign characters and digits, then the rest; `none` = fell off the end (Python returns None) -/
def popIonCount (s : List Nat) : Option (Int × List Nat) := go s 1 []
where go : List Nat → Int → List Nat → Option (Int × List Nat)
  | [], _, _ => none
  | c :: r, sign, digs =>
    if c = 45 then go r (-1) digs
    else if c = 43 then go r sign digs
    else if isDigitCode c then go r sign (digs ++ [c])
    else
      let cnt : Int := if digs.isEmpty then 1 else (digs.foldl (fun a d => a * 10 + (d - 48)) 0 : Nat)
      some (cnt * sign, c :: r)

/-- `_pop_ion_symbol` -/
def popIonSymbol : List Nat → List Nat × List Nat
  | [] => ([], [])
  | c :: r =>
    if isDigitCode c || c = 43 || c = 45 then ([], c :: r)
    else let (s, rest) := popIonSymbol r; (c :: s, rest)

/-- `_pop_ion_charge`; `none` = `int()` raised ValueError -/
def popIonCharge (s : List Nat) : Option Int :=
  let sign : Int := s.foldl (fun sg c => if c = 45 then -1 else sg) 1
  let digs := s.filter (fun c => c != 45 && c != 43)
  if digs.isEmpty then some sign
  else if digs.all isDigitCode then some (((digs.foldl (fun a d => a * 10 + (d - 48)) 0 : Nat) : Int) * sign)
  else none

/-- `parse_ion_elements` → (count, symbol, charge); nothing that could be a symbol, an unknown element symbol and a
malformed charge are all `ValueError` -/
def parseIonElements (s : List Nat) : Except Err (Int × Key × Int) :=
  match popIonCount s with
  | none => .error .valueError
  | some (cnt, rest) =>
    let (sym, ch) := popIonSymbol rest
    if keyOfCodes sym != kE && (lookup (keyOfCodes sym) isotopicMasses).isNone then .error .valueError
    else match popIonCharge ch with
      | none => .error .valueError
      | some c => .ok (cnt, keyOfCodes sym, c)

/-- `str.split(',')` on code points -/
def splitComma (s : List Nat) : List (List Nat) :=
  let r := s.foldr (fun c (acc : List Nat × List (List Nat)) => if c = 44 then ([], acc.1 :: acc.2) else (c :: acc.1, acc.2)) ([], [])
  r.1 :: r.2

/-- the element mass an adduct ion is given: `ISOTOPIC_ATOMIC_MASSES[sym]`, or in average mode `AVERAGE_ATOMIC_MASSES[sym]`
with the isotope's own mass for a specific isotope (`D`, `T`), which has no average mass -/
def adductElemMass (mono : Bool) (sym : Key) : Option Rat :=
  if mono then lookup sym isotopicMasses
  else match lookup sym averageMasses with
    | some m => some m
    | none => lookup sym isotopicMasses

/-- `_parse_adduct_mass(adduct, None, monoisotopic)` — note: the electron correction is NOT multiplied by the count -/
def adductMass (mono : Bool) (s : List Nat) : Except Err Rat := do
  let (cnt, sym, ch) ← parseIonElements s
  if sym = kE then pure ((cnt : Rat) * Gen.electronMass)
  else
    match adductElemMass mono sym with
    | none => .error .keyError
    | some m => pure ((cnt : Rat) * m - (ch : Rat) * Gen.electronMass)

/-- `_parse_charge_adducts_mass(str, None, monoisotopic)` -/
def chargeAdductsMassStr (mono : Bool) (s : List Nat) : Except Err Rat :=
  if s = [43, 72, 43] then pure Gen.protonMass   -- '+H+'
  else sumM (adductMass mono) (splitComma s)

/-- `_parse_adduct_mass(adduct, precision, monoisotopic)` called on its own: only the non-electron branch rounds -/
def adductMassP (mono : Bool) (s : List Nat) (precision : Option Int) : Except Err Rat := do
  let (cnt, sym, ch) ← parseIonElements s
  if sym = kE then pure ((cnt : Rat) * Gen.electronMass)
  else
    match adductElemMass mono sym with
    | none => .error .keyError
    | some m => pure (roundOpt ((cnt : Rat) * m - (ch : Rat) * Gen.electronMass) precision)

/-- `_parse_charge_adducts_mass(value, precision, monoisotopic)` called on its own (`+H+` is answered unrounded) -/
def chargeAdductsMassP (mono : Bool) (v : ModVal) (precision : Option Int) : Except Err Rat :=
  match v with
  | .str s =>
    let c := s.map Char.toNat
    if c = [43, 72, 43] then pure Gen.protonMass
    else do
      let m ← sumM (adductMass mono) (splitComma c)
      pure (roundOpt m precision)
  | _ => .error .valueError

/-- `_parse_charge_adducts_mass` on a `Mod`/value: a numeric group (`/2[1]`) is an invalid charge adduct (ValueError) -/
def chargeAdductsMass (mono : Bool) : ModVal → Except Err Rat
  | .str s => chargeAdductsMassStr mono (s.map Char.toNat)
  | _ => .error .valueError

/-- `str(value)` of a modification value -/
def valText : ModVal → List Char
  | .int i => (toString i).toList
  | .flt r => r
  | .str s => s

/-- the adduct groups of an annotation as one value: none for an empty list, the group itself for one group, the groups
joined with `,` when there are several (`PEPTIDE/2[+Na+][+K+]`: all of them count) -/
def adductsValue : List Mod → Option ModVal
  | [] => none
  | [m] => some m.val
  | l => some (.str (",".toList.intercalate (l.map fun m => valText m.val)))

/-! ### adjust_mass / adjust_mz -/

structure Opts where
  charge : Option Int := none
  ion : Key := ionP
  mono : Bool := true
  isotope : Int := 0
  loss : Rat := 0
  /-- the `charge_adducts` argument (a string) -/
  adducts : Option ModVal := none
  /-- the `isotope_mods` argument -/
  isotopeMods : Option (List Mod) := none
  useIsotopeOnMods : Bool := false
  precision : Option Int := none

/-- the charge-carrier term of `adjust_mass` -/
def chargeTerm (charge : Int) (ion : Key) (mono : Bool) (adducts : Option ModVal) : Except Err Rat :=
  match adducts with
  | none =>
    if ion = ionP || ion = ionN then pure (Gen.protonMass * (charge : Rat))
    else match fragmentIonAdjMass mono ion with
      | none => .error .keyError
      | some off => pure (Gen.protonMass * ((charge : Rat) - 1) + off)
  | some a => chargeAdductsMass mono a

/-- `adjust_mass(base_mass, charge, ion_type, monoisotopic, isotope, loss, charge_adducts, precision)` -/
def adjustMass (base : Rat) (charge : Option Int) (ion : Key) (mono : Bool) (isotope : Int) (loss : Rat)
    (adducts : Option ModVal) (precision : Option Int) : Except Err Rat := do
  let ch := charge.getD 0
  let ct ← chargeTerm ch ion mono adducts
  match fragmentAdjMass mono ion with
  | none => .error .keyError
  | some fa =>
    let m := base + ct + fa + ((isotope : Rat) * Gen.neutronMass + loss)
    pure (roundOpt m precision)

/-- `adjust_mz(base_mass, charge, precision)` -/
def adjustMz (m : Rat) (charge : Option Int) (precision : Option Int) : Rat :=
  let ch := charge.getD 0
  roundOpt (if ch = 0 then m else m / (ch : Rat)) precision

/-! ### modification masses -/


/-- `mod_mass(Mod, monoisotopic)` = `mod_mass(val) * mult` -/
def modMass (env : Env) (mono : Bool) (m : Mod) : Except Err Rat := do
  let v ← if mono then (env.res m.val).mono else (env.res m.val).avg
  pure (v * (m.mult : Rat))

def sumMods (env : Env) (mono : Bool) (l : List Mod) : Except Err Rat := sumM (modMass env mono) l

def sumOptMods (env : Env) (mono : Bool) : Option (List Mod) → Except Err Rat
  | none => pure 0
  | some l => sumMods env mono l

/-- `str.count(sub)`: non-overlapping occurrences (the empty pattern counts `len + 1`) -/
def countSub (pat : List Char) (s : List Char) : Nat :=
  if pat.isEmpty then s.length + 1 else go s (s.length + 1)
where go (s : List Char) (fuel : Nat) : Nat :=
  match fuel with
  | 0 => 0
  | fuel + 1 =>
    match s with
    | [] => 0
    | c :: r => if pat.isPrefixOf (c :: r) then 1 + go ((c :: r).drop pat.length) fuel else go r fuel

def lookupMods (env : Env) (mono : Bool) (map : List (List Char × List Mod)) (key : List Char) : Except Err Rat :=
  match map.lookup key with
  | some l => sumMods env mono l
  | none => pure 0

/-- one non-terminal rule: its mods × the number of matching residues -/
def ruleMass (env : Env) (mono : Bool) (seq : List Char) (p : List Char × List Mod) : Except Err Rat :=
  if p.1 = nTerm || p.1 = cTerm then pure 0
  else do
    let v ← sumMods env mono p.2
    pure (v * ((countSub p.1 seq : Nat) : Rat))

def staticMapMass (env : Env) (mono : Bool) (seq : List Char) (map : List (List Char × List Mod)) : Except Err Rat := do
  let nt ← lookupMods env mono map nTerm
  let ct ← lookupMods env mono map cTerm
  let rest ← sumM (ruleMass env mono seq) map
  pure (nt + ct + rest)

/-- the static-rule block of the fast path (N-Term, C-Term, then every other target × its count) -/
def staticMass (env : Env) (mono : Bool) (seq : List Char) (static : Option (List Mod)) : Except Err Rat :=
  match static with
  | none => pure 0
  | some st => do
    let map ← env.parseStatic st
    staticMapMass env mono seq map

/-- `sum(AA_MASSES[aa] for aa in sequence)`; KeyError → UnknownAminoAcidError -/
def residueMass (mono : Bool) (seq : List Char) : Except Err Rat :=
  sumM (fun c =>
    match aaMass mono c.toNat with
    | none => .error .unknownAA
    | some m => pure m) seq

/-- labile modifications count for the precursor only -/
def labileMass (env : Env) (mono : Bool) (a : Annotation) (ion : Key) : Except Err Rat :=
  if ion = ionP then sumOptMods env mono a.labile else pure 0

def intervalsMass (env : Env) (mono : Bool) : Option (List Interval) → Except Err Rat
  | none => pure 0
  | some l => sumM (fun (iv : Interval) => sumOptMods env mono iv.mods) l

def internalMass (env : Env) (mono : Bool) : Option (List (Int × List Mod)) → Except Err Rat
  | none => pure 0
  | some l => sumM (fun (p : Int × List Mod) => sumMods env mono p.2) l

/-- the per-position blocks of the fast path: labile (precursor only), unknown, N-term, intervals, residues, C-term -/
def placedModsMass (env : Env) (mono : Bool) (a : Annotation) (ion : Key) : Except Err Rat := do
  let lab ← labileMass env mono a ion
  let unk ← sumOptMods env mono a.unknown
  let nt ← sumOptMods env mono a.nterm
  let ivs ← intervalsMass env mono a.intervals
  let int ← internalMass env mono a.internal
  let ct ← sumOptMods env mono a.cterm
  pure (lab + unk + nt + ivs + int + ct)

/-- what `mass` resolves before it branches: charge, charge adducts, isotope labels -/
structure Resolved where
  charge : Option Int
  adducts : Option ModVal
  isotopeMods : Option (List Mod)

/-- the charge in force: the argument, else the annotation's -/
def effCharge (a : Annotation) (o : Opts) : Option Int :=
  match o.charge with | some c => some c | none => a.charge

/-- the isotope labels in force: the argument, else the annotation's -/
def effLabels (a : Annotation) (o : Opts) : Option (List Mod) :=
  match o.isotopeMods with | some l => some l | none => a.isotope

def resolveArgs (a : Annotation) (o : Opts) : Except Err Resolved := do
  let charge := effCharge a o
  let adducts := match a.adducts, o.adducts with
    | some l, none => adductsValue l
    | _, x => x
  let iso := effLabels a o
  pure ⟨charge, adducts, iso⟩

/-- the fast path of `mass` (no isotope labels) after argument resolution -/
def fastMass (env : Env) (a : Annotation) (o : Opts) (r : Resolved) : Except Err Rat := do
  let st ← staticMass env o.mono a.seq a.static
  let rs ← residueMass o.mono a.seq
  let pm ← placedModsMass env o.mono a o.ion
  adjustMass (st + rs + pm) r.charge o.ion o.mono o.isotope o.loss r.adducts o.precision

/-- `comp_mass(annotation, ion_type, charge, isotope, charge_adducts, isotope_mods, use_isotope_on_mods)` as used
by `mass`; instantiated with `CompCalc.compMass` -/
abbrev CompMassFn := Env → Annotation → Key → Option Int → Int → Option ModVal → Option (List Mod) → Bool →
  Except Err (Comp × Rat)

/-- `mass(annotation, charge, ion_type, monoisotopic, isotope, loss, charge_adducts, isotope_mods,
use_isotope_on_mods, precision)` -/
def massWith (cm : CompMassFn) (env : Env) (a : Annotation) (o : Opts) : Except Err Rat := do
  let r ← resolveArgs a o
  if a.seq.contains 'B' then .error .ambiguousAA
  else if a.seq.contains 'Z' then .error .ambiguousAA
  else
    match r.isotopeMods with
    | some (m :: ms) => do
      -- composition path (the isotope offset is part of the composition as `n`)
      let (c, d) ← cm env a o.ion r.charge o.isotope r.adducts (some (m :: ms)) o.useIsotopeOnMods
      let cmass ← chemMass o.mono c none
      pure (roundOpt (cmass + d + o.loss) o.precision)
    | _ => fastMass env a o r

/-- `mz(...)`: `mass(..., precision=None)` then `adjust_mz`; `use_isotope_on_mods` is not forwarded -/
def mzWith (cm : CompMassFn) (env : Env) (a : Annotation) (o : Opts) : Except Err Rat := do
  let charge := effCharge a o
  let m ← massWith cm env a { o with charge := charge, precision := none, useIsotopeOnMods := false }
  pure (adjustMz m charge o.precision)

end Mass
end Pept
