import PeptVerif.Model.Proto
import PeptVerif.Model.ModDb
/-! wire helpers for the C10 / C15 drivers (strings %-escaped, numbers exact) -/
namespace ProtoC10
open ModDb Formula

def hexVal (c : Char) : Option Nat :=
  if '0' ≤ c && c ≤ '9' then some (c.toNat - 48)
  else if 'a' ≤ c && c ≤ 'f' then some (c.toNat - 87)
  else none

/-- `%<hex>;` escapes → code points -/
partial def decodeAux : List Char → Str → Str
  | [], acc => acc.reverse
  | '%' :: r, acc =>
    let (h, rest) := r.span (· != ';')
    let v := h.foldl (fun a c => a * 16 + (hexVal c).getD 0) 0
    decodeAux (rest.drop 1) (v :: acc)
  | c :: r, acc => decodeAux r (c.toNat :: acc)

def decode (s : String) : Str := decodeAux s.toList []

def hexDigits (n : Nat) : String := String.ofList (Nat.toDigits 16 n)

def encode (s : Str) : String :=
  String.join (s.map (fun c =>
    if 32 ≤ c && c < 127 && c != 37 && c != 59 && c != 61 then String.singleton (Char.ofNat c)
    else "%" ++ hexDigits c ++ ";"))

def showRat (r : Rat) : String := toString r.num ++ "/" ++ toString r.den

def showNum (n : Num) : String := (if n.isFloat then "f:" else "i:") ++ showRat n.val

def showComp (c : Comp) : String := ";".intercalate (c.map (fun kv => encode kv.1 ++ "=" ++ showNum kv.2))

def showErr (e : Err) : String := "ERR:" ++ e.name

/-- number on the wire: `i:<int>` or `f:<num>/<den>` -/
def parseNum? (s : String) : Option Num :=
  match s.splitOn ":" with
  | ["i", v] => v.toInt?.map Num.ofInt
  | ["f", v] =>
    match v.splitOn "/" with
    | [a, b] => match a.toInt?, b.toNat? with
      | some a, some b => if b == 0 then none else some ⟨(a : Rat) / (b : Rat), true⟩
      | _, _ => none
    | _ => none
  | _ => none

/-- dict on the wire: `key=num;key=num` -/
def parseComp? (s : String) : Option Comp :=
  if s.isEmpty then some []
  else (s.splitOn ";").mapM (fun kv =>
    match kv.splitOn "=" with
    | [k, v] => (parseNum? v).map (fun n => (decode k, n))
    | _ => none)

def showMass : Except Err Mass → String
  | .ok (some r) => "OK " ++ showRat r
  | .ok none => "SPECIAL"
  | .error e => showErr e

def showCompRes : Except Err Comp → String
  | .ok c => "OK " ++ showComp c
  | .error e => showErr e

def showRatRes : Except Err Rat → String
  | .ok r => "OK " ++ showRat r
  | .error e => showErr e

def showOptDec : Option Dec → String
  | none => "None"
  | some d => showRat d.toRat

end ProtoC10
