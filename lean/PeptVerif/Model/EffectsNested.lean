import PeptVerif.Model.Effects
/-!
# C08 — nested execution of calls

In `Effects.step` a call is executed by the callee's *summary*.  Here the callee's body is really run (any nested trace, in a
fresh frame), its actual behaviour is turned into a summary of that particular run, and that is applied to the caller.
`nested_bounded`: if the summary table is closed under the bodies (`closedAt`, decided by the kernel for the generated
module), every nested execution is bounded by the same tables and write sets as the summary-based one.  This is the
fixpoint-induction step from closed summaries to real nested calls.
-/

namespace Effects

/-- a call applied with an explicit summary -/
def callStep (s : Summary) (ret : Var) (args : List (Option Var)) (P : Pts) : Pts :=
  let P1 := s.links.foldl (fun Q l =>
    link Q (argCell P args l.1).top (cond l.2.1 (sel P args ret l.2.2)) (cond (!l.2.1) (sel P args ret l.2.2))) P
  P1.add ret { top := s.retTop.flatMap (sel P args ret), kids := s.retKids.flatMap (sel P args ret),
               deep := s.retDeep.flatMap (sel P args ret) }

def callTargets (s : Summary) (args : List (Option Var)) (P : Pts) : List Obj :=
  s.writes.flatMap (fun w => if w.2 then (argCell P args w.1).kids ++ (argCell P args w.1).deep else (argCell P args w.1).top)
    ++ s.globals.map Obj.glob

/-- the summary of one particular run: final table `A` of the callee frame, objects `w` it wrote -/
def summarizeFrom (A : Pts) (w : List Obj) (nparams ret : Nat) : Summary :=
  { writes := dedup (w.flatMap writeLevels)
    globals := dedup (w.filterMap globOf)
    retTop := dedup ((A.get ret).top.map srcOfObj)
    retKids := dedup ((A.get ret).kids.map srcOfObj)
    retDeep := dedup ((A.get ret).deep.map srcOfObj)
    links := dedup ((List.range nparams).flatMap (fun j =>
        ((A.get j).kids.filter (fun o => o != .inner j)).map (fun o => (j, true, srcOfObj o)) ++
        ((A.get j).deep.filter (fun o => o != .inner j)).map (fun o => (j, false, srcOfObj o)))) }

/-- nested traces: a step names a statement; if that statement is a call, `sub` is the trace of the callee's body -/
inductive NTrace where
  | done
  | step (k : Nat) (sub : NTrace) (rest : NTrace)

structure NState where
  pts : Pts
  log : List Obj     -- every object written so far (an object written twice appears twice)

/-- nested execution: calls run the callee's body in a fresh frame; a call to an unknown function id does nothing -/
def execN (fns : List FnInfo) (p : List Stmt) : NTrace → NState → NState
  | .done, σ => σ
  | .step k sub rest, σ =>
    match p[k]? with
    | none => execN fns p rest σ
    | some (.call ret f args) =>
      match fns[f]? with
      | none => execN fns p rest σ
      | some i =>
        let r := execN fns i.prog sub ⟨[], []⟩
        let s := summarizeFrom r.pts r.log i.nparams i.ret
        execN fns p rest ⟨callStep s ret args σ.pts, σ.log ++ callTargets s args σ.pts⟩
    | some st => execN fns p rest ⟨step [] st σ.pts, σ.log ++ targets [] st σ.pts⟩

end Effects
