import PeptVerif.Model.ModText
/-!
# C09 extension — `parse_ion_elements` (proforma_parser.py), the sub-parser every charge-adduct ion goes through

`_pop_ion_count`, `_pop_ion_symbol`, `_pop_ion_charge`, `parse_ion_elements` over `List Char` (ASCII text), with
Python's `int(text)` on sign-free text (surrounding white space, single underscores between digits).  Every function is a
structural recursion on the text: termination is checked by Lean.  `known sym` = (`sym in ISOTOPIC_ATOMIC_MASSES`) is a
parameter.  `fixed = false` is the code before fix e1f2554 (`count, ion = None` → TypeError; unknown symbols accepted and a
KeyError later in the mass calculation).  Mathlib-free.
-/
namespace Pept
namespace Ion

def isDig (c : Char) : Bool := 48 ≤ c.toNat && c.toNat ≤ 57
/-- ASCII characters `int()` strips: 0x09–0x0D and 0x20 (measured on the CPython of /venv: 0x1C–0x1F are NOT stripped) -/
def isSpace (c : Char) : Bool := (9 ≤ c.toNat && c.toNat ≤ 13) || c.toNat = 32
def digVal (c : Char) : Nat := c.toNat - 48

/-- digits with single underscores between digits; `pd` = the previous character was a digit -/
def digitsUS : List Char → Bool → Nat → Option Nat
  | [], pd, acc => if pd then some acc else none
  | c :: r, pd, acc =>
    if isDig c then digitsUS r true (acc * 10 + digVal c)
    else if c = '_' && pd then digitsUS r false acc
    else none

def strip (s : List Char) : List Char := ((s.dropWhile isSpace).reverse.dropWhile isSpace).reverse

/-- `int(text)` for text without a sign; `none` = ValueError -/
def pyNat? (s : List Char) : Option Nat := digitsUS (strip s) false 0

/-- `_pop_ion_count`: `none` = the loop fell off the end (Python returns None) -/
def popCount : List Char → Int → List Char → Option (Int × List Char)
  | [], _, _ => none
  | c :: r, sign, digs =>
    if c = '-' then popCount r (-1) digs
    else if c = '+' then popCount r sign digs
    else if isDig c then popCount r sign (digs ++ [c])
    else
      let cnt : Nat := if digs.isEmpty then 1 else digs.foldl (fun a d => a * 10 + digVal d) 0
      some ((cnt : Int) * sign, c :: r)

/-- `_pop_ion_symbol` -/
def popSymbol : List Char → List Char × List Char
  | [] => ([], [])
  | c :: r =>
    if isDig c || c = '+' || c = '-' then ([], c :: r)
    else ((c :: (popSymbol r).1), (popSymbol r).2)

/-- `_pop_ion_charge`: every character that is not a sign goes to `int()` -/
def popCharge (s : List Char) : Except Err Int :=
  let sign : Int := if s.contains '-' then -1 else 1
  let body := s.filter (fun c => c != '-' && c != '+')
  if body.isEmpty then .ok sign
  else match pyNat? body with
    | some n => .ok ((n : Int) * sign)
    | none => .error .value

/-- `parse_ion_elements(ion)` → (count, symbol, charge) -/
def parseIonElements (fixed : Bool) (known : List Char → Bool) (s : List Char) : Except Err (Int × List Char × Int) :=
  match popCount s 1 [] with
  | none => .error (if fixed then .value else .type)
  | some (cnt, rest) =>
    let sym := (popSymbol rest).1
    let ch := (popSymbol rest).2
    if fixed && sym != ['e'] && !known sym then .error .value
    else match popCharge ch with
      | .error e => .error e
      | .ok c => .ok (cnt, sym, c)

end Ion
end Pept
