import PeptVerif.Model.ModDbTypes
/-!
Model of `chem/chem_util.py` (write_chem_formula, parse_chem_formula, _split_chem_formula,
_parse_isotope_component, _parse_condensed_chem_formula, _parse_split_chem_formula, chem_mass),
`util.convert_type`, `glycan.py` / `mods/mod_db_setup.py` (_parse_glycan_formula, _glycan_comp,
write_glycan_formula) and `mass_calc.glycan_mass`.  Mathlib-free, total, kernel-reducible (no well-founded
recursion: every scanner is structurally recursive on the text, with a "skip" counter for characters already
consumed by the previous token).

Strings are code-point lists (`Str`). Python `int`/`float` values are `Num` (exact rational + "is a float" flag);
Python dicts are insertion-ordered association lists.
-/
namespace Formula
open ModDb

/-- Python exceptions as values (buckets = exception classes) -/
inductive Err
  | unknownMod | unknownModMass | invalidDeltaMass | invalidComp | deltaMassComp | invalidModMass
  | invalidChemFormula | invalidGlycanFormula
  | valueError | typeError | keyError
  | hang          -- the Python loops forever (an empty glycan name in the vocabulary)
  | special       -- not an exception: the Python value contains inf / nan (opaque, outside the model)
deriving DecidableEq, Repr

deriving instance DecidableEq for Except

def Err.name : Err → String
  | .unknownMod => "UnknownModificationError" | .unknownModMass => "UnknownModificationMassError"
  | .invalidDeltaMass => "InvalidDeltaMassError" | .invalidComp => "InvalidCompositionError"
  | .deltaMassComp => "DeltaMassCompositionError" | .invalidModMass => "InvalidModificationMassError"
  | .invalidChemFormula => "InvalidChemFormulaError" | .invalidGlycanFormula => "InvalidGlycanFormulaError"
  | .valueError => "ValueError" | .typeError => "TypeError" | .keyError => "KeyError" | .hang => "HANG"
  | .special => "SPECIAL"

/-! ## numbers -/

/-- a Python `int` (`isFloat = false`, `val` integral) or finite `float` (`isFloat = true`) -/
structure Num where
  val : Rat
  isFloat : Bool
deriving DecidableEq, Repr

namespace Num
def ofInt (i : Int) : Num := ⟨i, false⟩
def one : Num := ofInt 1
def zero : Num := ofInt 0
def add (a b : Num) : Num := ⟨a.val + b.val, a.isFloat || b.isFloat⟩
def mul (a b : Num) : Num := ⟨a.val * b.val, a.isFloat || b.isFloat⟩
def neg (a : Num) : Num := ⟨-a.val, a.isFloat⟩
def isZero (a : Num) : Bool := a.val == 0
end Num

def c0 : Nat := 48  -- '0'
def isDigit (c : Nat) : Bool := 48 ≤ c && c ≤ 57
def isUpper (c : Nat) : Bool := 65 ≤ c && c ≤ 90
def isLower (c : Nat) : Bool := 97 ≤ c && c ≤ 122
def isAlpha (c : Nat) : Bool := isUpper c || isLower c
/-- ASCII part of Python's `str.isspace` (what `int()` / `float()` strip) -/
def isWs (c : Nat) : Bool := c == 32 || (9 ≤ c && c ≤ 13) || (28 ≤ c && c ≤ 31)
def toLowerC (c : Nat) : Nat := if isUpper c then c + 32 else c
/-- ASCII `str.lower()` -/
def lower (s : Str) : Str := s.map toLowerC

def natDigits (n : Nat) : Str := (Nat.toDigits 10 n).map Char.toNat

/-- decimal digits of `n`, structurally (kernel friendly) -/
def showNatAux : Nat → Nat → Str → Str
  | 0, _, acc => acc
  | fuel + 1, n, acc => if n < 10 then (48 + n) :: acc else showNatAux fuel (n / 10) ((48 + n % 10) :: acc)
def showNat (n : Nat) : Str := showNatAux (n + 1) n []

def showInt (i : Int) : Str := if i < 0 then 45 :: showNat i.natAbs else showNat i.natAbs

/-- smallest `s ≤ fuel` with `den ∣ 10^s` -/
def decScale : Nat → Nat → Nat → Option Nat
  | 0, _, _ => none
  | fuel + 1, den, s => if (10 ^ s) % den == 0 then some s else decScale fuel den (s + 1)

def padLeft (n : Nat) (s : Str) : Str := List.replicate (n - s.length) 48 ++ s

/-- Python `repr(float)` in the positional range: shortest exact decimal with at least one fractional digit -/
def showFloat (r : Rat) : Str :=
  match decScale 400 r.den 0 with
  | none => [63]  -- '?': not a finite decimal (cannot arise from + and * of decimals)
  | some s =>
    let m : Nat := (r.num.natAbs * 10 ^ s) / r.den
    let sign : Str := if r.num < 0 then [45] else []
    if s == 0 then sign ++ showNat m ++ [46, 48]
    else
      let ip := m / 10 ^ s
      let fp := m % 10 ^ s
      sign ++ showNat ip ++ [46] ++ padLeft s (showNat fp)

/-- `f'{v}'` -/
def Num.show (n : Num) : Str := if n.isFloat then showFloat n.val else showInt n.val.num

/-! ## `int()`, `float()`, `util.convert_type` -/

def stripL : Str → Str
  | [] => []
  | c :: r => if isWs c then stripL r else c :: r
def strip (s : Str) : Str := (stripL (stripL s).reverse).reverse

/-- digits with single underscores between digits (`1_000`): value digits, rest -/
def digitRun : Str → Bool → List Nat → List Nat × Str
  | [], _, acc => (acc.reverse, [])
  | c :: r, afterDigit, acc =>
    if isDigit c then digitRun r true ((c - 48) :: acc)
    else if c == 95 && afterDigit then
      match r with
      | d :: _ => if isDigit d then digitRun r false acc else (acc.reverse, c :: r)
      | [] => (acc.reverse, c :: r)
    else (acc.reverse, c :: r)

def digitsVal (ds : List Nat) : Nat := ds.foldl (fun a d => a * 10 + d) 0

def signOf : Str → Int × Str
  | 43 :: r => (1, r)
  | 45 :: r => (-1, r)
  | s => (1, s)

/-- Python `int(s)` for ASCII text: `none` = ValueError -/
def parseInt (s : Str) : Option Int :=
  let (sg, r) := signOf (strip s)
  let (ds, rest) := digitRun r false []
  if ds.isEmpty || !rest.isEmpty then none else some (sg * (digitsVal ds : Int))

inductive FloatRes
  | bad                 -- ValueError
  | special             -- inf / nan (opaque)
  | val (r : Rat)
deriving DecidableEq, Repr

def pow10 (e : Int) : Rat := if e ≥ 0 then ((10 ^ e.toNat : Nat) : Rat) else 1 / ((10 ^ (-e).toNat : Nat) : Rat)

/-- Python `float(s)` for ASCII text (exact value instead of the nearest double) -/
def parseFloat (s : Str) : FloatRes :=
  let (sg, r) := signOf (strip s)
  let lw := lower r
  if lw == str% "inf" || lw == str% "infinity" || lw == str% "nan" then .special
  else
    let (ip, r1) := digitRun r false []
    let (hasDot, r2) := match r1 with
      | 46 :: t => (true, t)
      | t => (false, t)
    let (fp, r3) := if hasDot then digitRun r2 false [] else ([], r2)
    if ip.isEmpty && fp.isEmpty then .bad
    else
      let mant : Rat := ((digitsVal (ip ++ fp) : Nat) : Rat) / ((10 ^ fp.length : Nat) : Rat)
      match r3 with
      | [] => .val (sg * mant)
      | c :: t =>
        if c == 101 || c == 69 then
          let (esg, t1) := signOf t
          let (ed, t2) := digitRun t1 false []
          if ed.isEmpty || !t2.isEmpty then .bad
          else if digitsVal ed > 400 then (if mant == 0 || esg < 0 then .val 0 else .special)  -- 0 / underflow / overflow
          else .val (sg * mant * pow10 (esg * (digitsVal ed : Int)))
        else .bad

inductive Conv
  | num (n : Num)
  | special
  | str
deriving DecidableEq, Repr

/-- `util.convert_type` on a `str` -/
def convertType (s : Str) : Conv :=
  match parseInt s with
  | some i => .num (Num.ofInt i)
  | none =>
    match parseFloat s with
    | .val r => .num ⟨r, true⟩
    | .special => .special
    | .bad => .str

/-! ## dicts -/

abbrev Comp := List (Str × Num)

def Comp.get? (d : Comp) (k : Str) : Option Num := (d.find? (·.1 == k)).map (·.2)

/-- `d[k] = d.get(k, 0) + v` (position of an existing key is kept, a new key goes last) -/
def addTo : Comp → Str → Num → Comp
  | [], k, v => [(k, Num.add Num.zero v)]
  | (k', v') :: r, k, v => if k' == k then (k', Num.add v' v) :: r else (k', v') :: addTo r k v

/-- `d[k] = v` -/
def setTo : Comp → Str → Num → Comp
  | [], k, v => [(k, v)]
  | (k', v') :: r, k, v => if k' == k then (k', v) :: r else (k', v') :: setTo r k v

def addAll (d : Comp) (c : Comp) : Comp := c.foldl (fun a kv => addTo a kv.1 kv.2) d

/-! ## writer -/

/-- stable insertion into a list sorted by key -/
def insertBy (key : α → Nat) (x : α) : List α → List α
  | [] => [x]
  | y :: r => if key x < key y then x :: y :: r else y :: insertBy key x r
def sortBy (key : α → Nat) (l : List α) : List α := l.foldl (fun acc x => insertBy key x acc) []

def hillIndex (elems : List Elem) (k : Str) : Nat :=
  match elems.find? (·.sym == k) with
  | some e => e.hill.getD 10000
  | none => 10000

def intercalate (sep : Str) : List Str → Str
  | [] => []
  | [x] => x
  | x :: r => x ++ sep ++ intercalate sep r

def isIsoKey (k : Str) : Bool :=
  match k with
  | c :: _ => isDigit c || k == [68] || k == [84]
  | [] => false

/-- `write_chem_formula(composition, sep, hill_order)` (precision = None) -/
def writeChem (elems : List Elem) (c : Comp) (sep : Str) (hill : Bool) : Str :=
  let c := if hill then sortBy (fun kv => hillIndex elems kv.1) c else c
  if sep != [] then
    intercalate sep ((c.filter (fun kv => !kv.2.isZero)).map (fun kv => kv.1 ++ sep ++ kv.2.show))
  else
    (c.map (fun kv =>
      if kv.2.isZero || kv.1 == [] then []
      else if isIsoKey kv.1 then [91] ++ kv.1 ++ kv.2.show ++ [93]
      else kv.1 ++ kv.2.show)).flatten

/-! ## tokenizers -/

def spanP (p : Nat → Bool) : Str → Str × Str
  | [] => ([], [])
  | c :: r => if p c then let (a, b) := spanP p r; (c :: a, b) else ([], c :: r)

/-- the text matched by `-?\d*\.?\d*` at the start of `s` (greedy; every part optional, so no backtracking) -/
def countStr (s : Str) : Str :=
  let (m, s1) := match s with
    | 45 :: t => ([45], t)
    | t => ([], t)
  let (d1, s2) := spanP isDigit s1
  let (dot, s3) := match s2 with
    | 46 :: t => ([46], t)
    | t => ([], t)
  let (d2, _) := spanP isDigit s3
  m ++ d1 ++ dot ++ d2

/-- `CONDENSED_CHEM_FORMULA_PATTERN.finditer`: `([A-Z][a-z]*|e|p|n)(-?\d*\.?\d*)`, leftmost, greedy; characters at which
no match starts are skipped. `skip` = characters already consumed by the previous match. -/
def finditerCondensed : Nat → Str → List (Str × Str)
  | _, [] => []
  | k + 1, _ :: r => finditerCondensed k r
  | 0, c :: r =>
    if isUpper c then
      let lows := (spanP isLower r).1
      let cnt := countStr (r.drop lows.length)
      (c :: lows, cnt) :: finditerCondensed (lows.length + cnt.length) r
    else if c == 101 || c == 112 || c == 110 then
      let cnt := countStr r
      ([c], cnt) :: finditerCondensed cnt.length r
    else finditerCondensed 0 r

/-- count text → number (`''` = 1, unparsable = error) -/
def countOf (cnt : Str) : Option Num :=
  if cnt.isEmpty then some Num.one
  else match convertType cnt with
    | .num n => some n
    | _ => none

def condensedFold : List (Str × Str) → Comp → Nat → Option (Comp × Nat)
  | [], d, n => some (d, n)
  | (el, cnt) :: r, d, n =>
    match countOf cnt with
    | none => none
    | some v => condensedFold r (addTo d el v) (n + el.length + cnt.length)

/-- `_parse_condensed_chem_formula` -/
def parseCondensed (s : Str) : Except Err Comp :=
  if s.isEmpty then .ok []
  else
    let ms := finditerCondensed 0 s
    if ms.isEmpty then .error .invalidChemFormula
    else match condensedFold ms [] 0 with
      | none => .error .invalidChemFormula
      | some (d, n) => if n != s.length then .error .invalidChemFormula else .ok d

/-- `_parse_isotope_component`: `ISOTOPE_COMPONENT_PATTERN.match` = `([0-9]*)([A-Za-z]+)(-?\d*\.?\d*)` at the start, rest ignored -/
def parseIsotope (s : Str) : Except Err Comp :=
  match s with
  | [] => .ok []
  | c :: _ =>
    if c == 68 || c == 84 then parseCondensed s
    else
      let (ds, r1) := spanP isDigit s
      let (ls, r2) := spanP isAlpha r1
      if ls.isEmpty then .error .invalidChemFormula
      else match countOf (countStr r2) with
        | none => .error .invalidChemFormula
        | some v => .ok [(ds ++ ls, Num.add Num.zero v)]

/-- `_split_chem_formula`: bracketed components `[...]` (up to the next `]`) and maximal bracket-free runs.
`inBr` = inside a bracket, `acc` = current component reversed. -/
def splitChem : Bool → Str → Str → Except Err (List Str)
  | false, acc, [] => .ok (if acc.isEmpty then [] else [acc.reverse])
  | true, _, [] => .error .valueError          -- formula.index(']') : substring not found
  | false, acc, c :: r =>
    if c == 91 then
      match splitChem true [91] r with
      | .ok l => .ok (if acc.isEmpty then l else acc.reverse :: l)
      | .error e => .error e
    else if c == 93 then .error .invalidChemFormula   -- stray ']' (since fix d3b6c8a; before: endless loop)
    else splitChem false (c :: acc) r
  | true, acc, c :: r =>
    if c == 93 then
      match splitChem false [] r with
      | .ok l => .ok ((93 :: acc).reverse :: l)
      | .error e => .error e
    else splitChem true (c :: acc) r

def parseComponent (comp : Str) : Except Err Comp :=
  match comp with
  | 91 :: r => parseIsotope r.dropLast        -- component[1:-1]
  | _ => parseCondensed comp

def parseComponents : List Str → Except Err (List Comp)
  | [] => .ok []
  | c :: r =>
    match parseComponent c with
    | .error e => .error e
    | .ok d => match parseComponents r with
      | .error e => .error e
      | .ok l => .ok (d :: l)

/-- `str.split(sep)` for a non-empty separator -/
def splitOnAux (sep : Str) : Nat → Str → Str → List Str
  | _, acc, [] => [acc.reverse]
  | k + 1, acc, _ :: r => splitOnAux sep k acc r
  | 0, acc, c :: r =>
    if sep.isPrefixOf (c :: r) then acc.reverse :: splitOnAux sep (sep.length - 1) [] r
    else splitOnAux sep 0 (c :: acc) r
def splitOn (sep : Str) (s : Str) : List Str := splitOnAux sep 0 [] s

def isNumber (s : Str) : Bool :=
  match parseFloat s with
  | .bad => false
  | _ => true

/-- the `while i < len(components)` loop of `_parse_split_chem_formula` -/
def splitFold : List Str → Comp → Except Err Comp
  | [], d => .ok d
  | [el], d => .ok (match d.get? el with
      | some _ => addTo d el Num.one
      | none => setTo d el Num.one)
  | el :: nx :: r, d =>
    if isNumber nx then
      match convertType nx with
      | .num v => splitFold r (match d.get? el with
          | some _ => addTo d el v
          | none => setTo d el v)
      | _ => .error .special          -- nan / inf count: outside the model
    else splitFold (nx :: r) (match d.get? el with
      | some _ => addTo d el Num.one
      | none => setTo d el Num.one)


/-- `parse_chem_formula(formula, sep)` -/
def parseChem (s : Str) (sep : Str) : Except Err Comp :=
  if sep != [] then splitFold (splitOn sep s) []
  else
    match splitChem false [] s with
    | .error e => .error e
    | .ok comps =>
      match parseComponents comps with
      | .error e => .error e
      | .ok ds => .ok (ds.foldl addAll [])

/-! ## masses -/

structure MassTable where
  elems : List Elem
  electron : Dec
  proton : Dec
  neutron : Dec

def findElem (elems : List Elem) (k : Str) : Option Elem := elems.find? (·.sym == k)

/-- mass of one dict key (`chem_mass` loop body) -/
def elemMass (T : MassTable) (mono : Bool) (k : Str) : Except Err Rat :=
  match findElem T.elems k with
  | none =>
    if k == [101] then .ok T.electron.toRat
    else if k == [112] then .ok T.proton.toRat
    else if k == [110] then .ok T.neutron.toRat
    else .error .invalidChemFormula
  | some e =>
    if mono || isIsoKey k then .ok e.iso.toRat
    else match e.avg with
      | some a => .ok a.toRat
      | none => .error .keyError

/-- `chem_mass(composition, monoisotopic)` (precision = None) -/
def chemMassComp (T : MassTable) (mono : Bool) : Comp → Except Err Rat
  | [] => .ok 0
  | (k, v) :: r =>
    match elemMass T mono k with
    | .error e => .error e
    | .ok m => match chemMassComp T mono r with
      | .error e => .error e
      | .ok t => .ok (m * v.val + t)

/-- `chem_mass(formula_string, monoisotopic, sep)` -/
def chemMassStr (T : MassTable) (mono : Bool) (s : Str) (sep : Str) : Except Err Rat :=
  match parseChem s sep with
  | .error e => .error e
  | .ok c => chemMassComp T mono c

/-! ## glycans -/

/-- last entry whose key equals `s` (Python dict built by successive assignment: the last entry wins) -/
def lookupLast (key : Entry → Str) (s : Str) : List Entry → Option Entry
  | [] => none
  | e :: es =>
    match lookupLast key s es with
    | some r => some r
    | none => if key e == s then some e else none

def lookupSyn (s : Str) : List Entry → Option Entry
  | [] => none
  | e :: es =>
    match lookupSyn s es with
    | some r => some r
    | none => if e.syns.contains s then some e else none

def byId (db : List Entry) (s : Str) : Option Entry := lookupLast (·.id) s db
def byName (db : List Entry) (s : Str) : Option Entry := lookupLast (·.name) s db

def dedup : List Str → List Str
  | [] => []
  | x :: r => if r.contains x then dedup r else x :: dedup r

/-- `names_sorted`: names ∪ synonyms, longest first (order among equal lengths is immaterial: two different strings
of the same length are never both a prefix of the same text) -/
def namesSorted (db : List Entry) : List Str :=
  let all := dedup (db.map (·.name) ++ (db.map (·.syns)).flatten)
  sortBy (fun s => 1000000 - s.length) all

def isCountChar (c : Nat) : Bool := isDigit c || c == 43 || c == 45 || c == 46

/-- the `while formula != ''` loop of `_parse_glycan_formula` (sep = '') -/
def parseGlycanAux (names : List Str) : Nat → Str → Comp → Except Err Comp
  | _, [], d => .ok d
  | k + 1, _ :: r, d => parseGlycanAux names k r d
  | 0, c :: r, d =>
    match names.find? (fun nm => nm.isPrefixOf (c :: r)) with
    | none => .error .invalidGlycanFormula
    | some nm =>
      if nm.isEmpty then .error .hang
      else
        let cnt := (spanP isCountChar ((c :: r).drop nm.length)).1
        match countOf cnt with
        | none => .error .invalidGlycanFormula
        | some v => parseGlycanAux names (nm.length + cnt.length - 1) r (addTo d nm v)   -- d.get(name, 0) + count (fix 4cd4abe; before: assignment)

/-- `parse_glycan_formula(formula, sep)` -/
def parseGlycan (mono : List Entry) (s : Str) (sep : Str) : Except Err Comp :=
  if s.isEmpty then .ok []
  else if sep != [] then splitFold (splitOn sep s) []
  else parseGlycanAux (namesSorted mono) 0 s []

/-- `write_glycan_formula` -/
def writeGlycan (g : Comp) (sep : Str) : Str :=
  intercalate sep (g.map (fun kv => kv.1 ++ sep ++ kv.2.show))

def monoEntry (mono : List Entry) (k : Str) : Option Entry :=
  match byName mono k with
  | some e => some e
  | none => lookupSyn k mono

/-- `_glycan_comp` on a dict -/
def glycanCompDict (mono : List Entry) : Comp → Comp → Except Err Comp
  | [], acc => .ok acc
  | (k, v) :: r, acc =>
    match monoEntry mono k with
    | none => .error .invalidGlycanFormula
    | some e =>
      match e.comp with
      | none => .error .typeError
      | some f =>
        match parseChem f [] with
        | .error er => .error er
        | .ok c => glycanCompDict mono r (c.foldl (fun a kv => addTo a kv.1 (Num.mul kv.2 v)) acc)

/-- `glycan_comp(str)` -/
def glycanCompStr (mono : List Entry) (s : Str) : Except Err Comp :=
  match parseGlycan mono s [] with
  | .error e => .error e
  | .ok g => glycanCompDict mono g []

/-- `glycan_mass` on a dict -/
def glycanMassDict (mono : List Entry) (isMono : Bool) : Comp → Except Err Rat
  | [] => .ok 0
  | (k, v) :: r =>
    match monoEntry mono k with
    | none => .error .invalidGlycanFormula
    | some e =>
      match (if isMono then e.mono else e.avg) with
      | none => .error .typeError
      | some m => match glycanMassDict mono isMono r with
        | .error er => .error er
        | .ok t => .ok (m.toRat * v.val + t)

/-- `glycan_mass(str)` -/
def glycanMassStr (mono : List Entry) (isMono : Bool) (s : Str) : Except Err Rat :=
  match parseGlycan mono s [] with
  | .error e => .error e
  | .ok g => glycanMassDict mono isMono g

end Formula
