import PeptVerif.Model.ModDb
import PeptVerif.Generated.Unimod
import PeptVerif.Generated.PsiMod
import PeptVerif.Generated.XlMod
import PeptVerif.Generated.Mono
import PeptVerif.Generated.ElementsC15
/-! The resolver model instantiated with the tables generated from the repo under test. -/
namespace Gen

def massTable : Formula.MassTable :=
  ⟨ElementsC15.elems, ElementsC15.electron, ElementsC15.proton, ElementsC15.neutron⟩

/-- GNO_DB and RESID_DB are created empty at import and never loaded (the `reload_from_file` calls are commented out) -/
def tables : ModDb.Tables :=
  ⟨Unimod.entries, PsiMod.entries, XlMod.entries, [], [], Mono.entries, massTable⟩

end Gen
