import PeptVerif.Model.Proto
/-!
Shared data model of `ProFormaAnnotation` (proforma_parser.py / proforma_dataclasses.py) and its
wire encoding for the line protocol. Mathlib-free.

Strings are `List Char` in the model. A modification value is what `util.convert_type` leaves in
`Mod.val`: a Python `int`, a Python `float` (kept as its `repr` text) or a `str`.
-/
namespace Pept

inductive ModVal where
  | int (i : Int)
  | flt (repr : List Char)
  | str (s : List Char)
  deriving DecidableEq, Repr, Inhabited

structure Mod where
  val : ModVal
  mult : Int
  deriving DecidableEq, Repr, Inhabited

structure Interval where
  start : Int
  stop : Int
  ambiguous : Bool
  mods : Option (List Mod)
  deriving DecidableEq, Repr, Inhabited

structure Annotation where
  seq : List Char
  isotope : Option (List Mod) := none
  static : Option (List Mod) := none
  labile : Option (List Mod) := none
  unknown : Option (List Mod) := none
  nterm : Option (List Mod) := none
  cterm : Option (List Mod) := none
  /-- insertion-ordered association list (Python dict) -/
  internal : Option (List (Int × List Mod)) := none
  intervals : Option (List Interval) := none
  charge : Option Int := none
  adducts : Option (List Mod) := none
  deriving DecidableEq, Repr, Inhabited

/-! ### wire encoding -/
namespace Wire

def hexDigit (n : Nat) : Char := if n < 10 then Char.ofNat (48 + n) else Char.ofNat (55 + n)

def hexVal? (c : Char) : Option Nat :=
  if '0' ≤ c ∧ c ≤ '9' then some (c.toNat - 48)
  else if 'A' ≤ c ∧ c ≤ 'F' then some (c.toNat - 55)
  else if 'a' ≤ c ∧ c ≤ 'f' then some (c.toNat - 87)
  else none

def safeChar (c : Char) : Bool :=
  c.isAlphanum || c == '_' || c == '.' || c == '+' || c == '-'

/-- `%HH` for ASCII, `%uHHHHHH` otherwise -/
def escChar (c : Char) : List Char :=
  if safeChar c then [c]
  else if c.toNat < 128 then ['%', hexDigit (c.toNat / 16), hexDigit (c.toNat % 16)]
  else
    let n := c.toNat
    ['%', 'u', hexDigit (n / 1048576 % 16), hexDigit (n / 65536 % 16), hexDigit (n / 4096 % 16),
      hexDigit (n / 256 % 16), hexDigit (n / 16 % 16), hexDigit (n % 16)]

def esc (s : List Char) : String := String.ofList (s.flatMap escChar)

def unescGo : List Char → Option (List Char)
  | [] => some []
  | '%' :: 'u' :: a :: b :: c :: d :: e :: f :: rest => do
    let a ← hexVal? a; let b ← hexVal? b; let c ← hexVal? c
    let d ← hexVal? d; let e ← hexVal? e; let f ← hexVal? f
    let r ← unescGo rest
    pure (Char.ofNat (a * 1048576 + b * 65536 + c * 4096 + d * 256 + e * 16 + f) :: r)
  | '%' :: a :: b :: rest => do
    let a ← hexVal? a; let b ← hexVal? b
    let r ← unescGo rest
    pure (Char.ofNat (a * 16 + b) :: r)
  | '%' :: _ => none
  | c :: rest => do
    let r ← unescGo rest
    pure (c :: r)

def unesc (s : String) : Option (List Char) := unescGo s.toList

def showVal : ModVal → String
  | .int i => "i" ++ toString i
  | .flt r => "f" ++ esc r
  | .str s => "s" ++ esc s

def showMod (m : Mod) : String := showVal m.val ++ "^" ++ toString m.mult

def showModsWith (sep : String) (l : List Mod) : String := sep.intercalate (l.map showMod)

def showOptMods : Option (List Mod) → String
  | none => "N"
  | some l => "L" ++ showModsWith ";" l

def showInternal : Option (List (Int × List Mod)) → String
  | none => "N"
  | some l => "D" ++ ";".intercalate (l.map fun p => toString p.1 ++ "=" ++ showModsWith "&" p.2)

def showInterval (iv : Interval) : String :=
  toString iv.start ++ "," ++ toString iv.stop ++ "," ++ (if iv.ambiguous then "1" else "0") ++ "," ++
    (match iv.mods with | none => "N" | some l => "L" ++ showModsWith "&" l)

def showIntervals : Option (List Interval) → String
  | none => "N"
  | some l => "V" ++ ";".intercalate (l.map showInterval)

def showAnnotation (a : Annotation) : String :=
  "|".intercalate [esc a.seq, showOptMods a.isotope, showOptMods a.static, showOptMods a.labile,
    showOptMods a.unknown, showOptMods a.nterm, showOptMods a.cterm, showInternal a.internal,
    showIntervals a.intervals, Proto.showOptInt a.charge, showOptMods a.adducts]

def parseVal? (s : String) : Option ModVal :=
  match s.toList with
  | 'i' :: r => (String.ofList r).toInt?.map .int
  | 'f' :: r => (unescGo r).map .flt
  | 's' :: r => (unescGo r).map .str
  | _ => none

def parseMod? (s : String) : Option Mod :=
  match s.splitOn "^" with
  | [v, m] => do
    let v ← parseVal? v
    let m ← m.toInt?
    pure ⟨v, m⟩
  | _ => none

def parseModsWith? (sep : String) (s : String) : Option (List Mod) :=
  if s.isEmpty then some [] else (s.splitOn sep).mapM parseMod?

def parseOptMods? (sep : String) (s : String) : Option (Option (List Mod)) :=
  match s.toList with
  | ['N'] => some none
  | 'L' :: r => (parseModsWith? sep (String.ofList r)).map some
  | _ => none

def parseInternal? (s : String) : Option (Option (List (Int × List Mod))) :=
  match s.toList with
  | ['N'] => some none
  | 'D' :: r =>
    let body := String.ofList r
    if body.isEmpty then some (some []) else
    ((body.splitOn ";").mapM fun (e : String) =>
      match e.splitOn "=" with
      | [k, v] => do
        let k ← k.toInt?
        let v ← parseModsWith? "&" v
        pure (k, v)
      | _ => none).map some
  | _ => none

def parseInterval? (s : String) : Option Interval :=
  match s.splitOn "," with
  | [a, b, c, m] => do
    let a ← a.toInt?
    let b ← b.toInt?
    let c ← Proto.parseBool? c
    let m ← parseOptMods? "&" m
    pure ⟨a, b, c, m⟩
  | _ => none

def parseIntervals? (s : String) : Option (Option (List Interval)) :=
  match s.toList with
  | ['N'] => some none
  | 'V' :: r =>
    let body := String.ofList r
    if body.isEmpty then some (some []) else ((body.splitOn ";").mapM parseInterval?).map some
  | _ => none

def parseAnnotation? (s : String) : Option Annotation :=
  match s.splitOn "|" with
  | [sq, iso, sta, lab, unk, nt, ct, int, ivs, ch, add] => do
    let sq ← unesc sq
    let iso ← parseOptMods? ";" iso
    let sta ← parseOptMods? ";" sta
    let lab ← parseOptMods? ";" lab
    let unk ← parseOptMods? ";" unk
    let nt ← parseOptMods? ";" nt
    let ct ← parseOptMods? ";" ct
    let int ← parseInternal? int
    let ivs ← parseIntervals? ivs
    let ch ← Proto.parseOptInt? ch
    let add ← parseOptMods? ";" add
    pure { seq := sq, isotope := iso, static := sta, labile := lab, unknown := unk, nterm := nt,
           cterm := ct, internal := int, intervals := ivs, charge := ch, adducts := add }
  | _ => none

end Wire
end Pept
