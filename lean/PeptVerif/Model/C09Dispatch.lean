import PeptVerif.Model.Annotation
/-!
# C09 (deferred validation) — which modification fields of an annotation `mass` hands to the resolver

`mass_calc.mass` (fast path: no isotope labels in force) calls `mod_mass(mod, monoisotopic)` on the fields listed by
`reachedPlaced`, in this order: labile (ONLY for `ion_type == 'p'`), unknown-position, N-terminal, interval, residue
(`internal_mods.items()` order), C-terminal; and on the modifications of the parsed static-rule dict listed by
`reachedStatic`: the `N-Term` entry, the `C-Term` entry, then every other entry in insertion order — whether or not the
target occurs in the sequence (`sum(mod_mass(..) for ..) * aa_count` evaluates the sum first).  Mathlib-free.
-/
namespace Pept
namespace Dispatch

def optMods : Option (List Mod) → List Mod
  | none => []
  | some l => l

def intervalMods : Option (List Interval) → List Mod
  | none => []
  | some l => l.flatMap (fun iv => optMods iv.mods)

def internalMods : Option (List (Int × List Mod)) → List Mod
  | none => []
  | some l => l.flatMap (fun p => p.2)

/-- the placed modifications `mass` resolves, in call order; `precursor` = (`ion_type == 'p'`) -/
def reachedPlaced (precursor : Bool) (a : Annotation) : List Mod :=
  (if precursor then optMods a.labile else []) ++ optMods a.unknown ++ optMods a.nterm ++ intervalMods a.intervals
    ++ internalMods a.internal ++ optMods a.cterm

def nTerm : List Char := "N-Term".toList
def cTerm : List Char := "C-Term".toList

def lookupList (map : List (List Char × List Mod)) (k : List Char) : List Mod :=
  match map.lookup k with
  | some l => l
  | none => []

/-- a non-terminal rule's modifications (terminal keys are answered by the two `.get` calls before the loop) -/
def ruleMods (p : List Char × List Mod) : List Mod :=
  if p.1 = nTerm || p.1 = cTerm then [] else p.2

/-- the static-rule modifications `mass` resolves, given the dict `parse_static_mods` returned, in call order -/
def reachedStatic (map : List (List Char × List Mod)) : List Mod :=
  lookupList map nTerm ++ lookupList map cTerm ++ map.flatMap ruleMods

end Dispatch
end Pept
