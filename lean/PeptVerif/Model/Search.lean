import PeptVerif.Model.Reorder
import PeptVerif.Model.AnnotEq
import PeptVerif.Model.StaticMods
/-!
# Model of subsequence search and coverage (C16). Mathlib-free.

`ProFormaAnnotation.is_subsequence`, `.find_indices` (proforma_parser.py) and
`find_subsequence_indices`, `is_subsequence`, `coverage`, `percent_coverage` (sequence/sequence_funcs.py),
as the code is after the commit `fix: … overlapped=True` (see notes/C16.md).

`slice` is `Pept.Reorder.slice` (model of `ProFormaAnnotation.slice`), `==` is `Pept.annEq`
(model of `ProFormaAnnotation.__eq__`); both are shared with C11 / C20.

The regular-expression call `re.finditer(self.sequence, other.sequence, overlapped=True)` has a literal
pattern (residue letters only); it is modelled as the naive scan `occurrences`.
-/
namespace Pept
namespace Search

/-- start offsets of all (also overlapping) occurrences of the literal `q` in `t`, increasing:
`[m.start() for m in regex.finditer(q, t, overlapped=True)]`. The empty pattern matches at `0..|t|`. -/
def occFrom (q : List Char) : Nat → List Char → List Nat
  | i, [] => if q.isEmpty then [i] else []
  | i, c :: t => if q.isPrefixOf (c :: t) then i :: occFrom q (i+1) t else occFrom q (i+1) t

def occurrences (q t : List Char) : List Nat := occFrom q 0 t

/-- `regex.finditer(q, t)` *without* `overlapped=True` (the code before the fix): after a match the scan
resumes behind it, so overlapping occurrences are skipped. Kept for the counter-example in Props/C16. -/
def occNonOverlapFrom (q : List Char) : Nat → Nat → List Char → List Nat
  | i, _, [] => if q.isEmpty then [i] else []
  | i, skip, c :: t =>
    if skip = 0 ∧ q.isPrefixOf (c :: t) then i :: occNonOverlapFrom q (i+1) (q.length - 1) t
    else occNonOverlapFrom q (i+1) (skip - 1) t

def occNonOverlap (q t : List Char) : List Nat := occNonOverlapFrom q 0 0 t

/-- `other.slice(start, start + len(self.sequence))` -/
def sliceAt (other : Annotation) (start len : Nat) : Annotation :=
  Reorder.slice other (start : Int) ((start : Int) + (len : Int))

/-- `ProFormaAnnotation.is_subsequence(self, other)`:
```
if self.sequence in other.sequence:
    for start in [m.start() for m in re.finditer(self.sequence, other.sequence, overlapped=True)]:
        if other.slice(start, start + len(self.sequence)) == self: return True
return False
``` -/
def isSubsequenceM (self other : Annotation) : Bool :=
  let starts := occurrences self.seq other.seq
  if starts.isEmpty then false          -- `self.sequence in other.sequence` is false exactly then
  else starts.any fun start => annEq (sliceAt other start self.seq.length) self

/-- `ProFormaAnnotation.find_indices(self, other)`:
`[m.start() for m in re.finditer(...) if self.is_subsequence(other.slice(m.start(), m.start() + len(self.sequence)))]` -/
def findIndices (self other : Annotation) : List Nat :=
  (occurrences self.seq other.seq).filter fun i => isSubsequenceM self (sliceAt other i self.seq.length)

/-- `ProFormaAnnotation.strip()` -/
def strip (a : Annotation) : Annotation := Reorder.plain a.seq

/-- `find_subsequence_indices(sequence, subsequence, ignore_mods)` on annotations
(the two `has_sequence()` tests: `_sequence` is never `None` in the model) -/
def findSubsequenceIndices (sequence subsequence : Annotation) (ignoreMods : Bool) : List Nat :=
  if sequence.seq.isEmpty then []
  else if subsequence.seq.isEmpty then []
  else if ignoreMods then findIndices (strip subsequence) (strip sequence)
  else findIndices subsequence sequence

/-- `is_subsequence(subsequence, sequence, order=True)` -/
def isSubsequenceOrdered (subsequence sequence : Annotation) : Bool :=
  (findSubsequenceIndices sequence subsequence false).length != 0

/-- `is_subsequence(…, order=False)` on the residue keys that `count_residues` produces:
`all(sub_counts[aa] <= seq_counts[aa] for aa in sub_counts)` -/
def unorderedContained {κ : Type} [DecidableEq κ] (sub seq : List κ) : Bool :=
  sub.all fun k => decide (sub.count k ≤ seq.count k)

/-! ### order-insensitive containment on the real residue keys

`is_subsequence(sub, seq, order=False)` after the repair 92a74e5 counts the one-residue pieces of both annotations
(`condense_static_mods(inplace=False).split()`) under a hashable key built from exactly the fields that
`ProFormaAnnotation.__eq__` compares, every modification list as a multiset (`frozenset(Counter(mods).items())`,
internal mods `None` and `{}` alike). Equality of two such keys is `annEq`; `Counter(keys)[k]` is the number of
pieces whose key equals `k`. `condenseStatic` is the shared model of C12, `split` that of C11. -/

/-- `annotation.condense_static_mods(inplace=False).split()` -/
def residuePieces (a : Annotation) : Except Static.Err (List Annotation) :=
  match Static.condenseStatic a with
  | .error e => .error e
  | .ok c => .ok (Reorder.split c)

/-- `all(sub_counts[k] <= seq_counts[k] for k in sub_counts)` on the two piece lists, keys compared by `==` -/
def piecesContained (qs ts : List Annotation) : Bool :=
  qs.all fun p => decide (qs.countP (annEq p) ≤ ts.countP (annEq p))

/-- `is_subsequence(subsequence, sequence, order=False)` (the subsequence is counted first, as in the code) -/
def isSubsequenceUnordered (subsequence sequence : Annotation) : Except Static.Err Bool :=
  match residuePieces subsequence with
  | .error e => .error e
  | .ok qs =>
    match residuePieces sequence with
    | .error e => .error e
    | .ok ts => .ok (piecesContained qs ts)

/-- the test as it was before the repair: residues keyed by their serialised text (`count_residues`).
Kept for the counter-example and the `_partial` theorem of Props/C16. -/
def isSubsequenceUnorderedText (subsequence sequence : Annotation) : Except Static.Err Bool :=
  match Static.countResidues subsequence with
  | .error e => .error e
  | .ok cs =>
    match Static.countResidues sequence with
    | .error e => .error e
    | .ok ct => .ok (cs.all fun kn => decide (kn.2 ≤ ((ct.lookup kn.1).getD 0)))

/-- `cov[i:i+L] = [1] * L` -/
def markSet (i L : Nat) (cov : List Nat) : List Nat :=
  cov.take i ++ List.replicate L 1 ++ cov.drop (i + L)

/-- `cov[i:i+L] = [x + 1 for x in cov[i:i+L]]` -/
def markAdd (i L : Nat) (cov : List Nat) : List Nat :=
  cov.take i ++ ((cov.drop i).take L).map (· + 1) ++ cov.drop (i + L)

def mark (accumulate : Bool) (L : Nat) (cov : List Nat) (i : Nat) : List Nat :=
  if accumulate then markAdd i L cov else markSet i L cov

/-- the body of the outer loop of `coverage` for one subsequence -/
def coverStep (sequence : Annotation) (accumulate ignoreMods : Bool) (cov : List Nat) (sub : Annotation) : List Nat :=
  (findSubsequenceIndices sequence sub ignoreMods).foldl (mark accumulate sub.seq.length) cov

/-- `coverage(sequence, subsequences, accumulate, ignore_mods)` -/
def coverage (sequence : Annotation) (subs : List Annotation) (accumulate ignoreMods : Bool) : List Nat :=
  subs.foldl (coverStep sequence accumulate ignoreMods) (List.replicate sequence.seq.length 0)

/-- `percent_coverage`: `0` for the empty sequence, else `sum(cov) / len(cov)` -/
def percentCoverage (sequence : Annotation) (subs : List Annotation) (ignoreMods : Bool) : Rat :=
  let cov := coverage sequence subs false ignoreMods
  if cov.length = 0 then 0 else (cov.sum : Rat) / (cov.length : Rat)

end Search
end Pept
