import PeptVerif.Model.RegexLite
import PeptVerif.Model.ModBuilder
/-!
# Rules given as patterns (property C13, regex subset)

`util.get_regex_match_range` and `util.get_regex_match_indices` for the RegexLite subset (literals `K`, classes `[ST]`,
sequences of them `P[ST]`, look-behind `(?<=[KR])`, look-ahead `(?=P)`, `(?=[^P])`, `(?!P)`, the empty pattern `''`), and
`apply_static_mods` / `apply_variable_mods` with rule targets that are either such a pattern or – for any regex outside
the subset – still the site list computed by the implementation.

`matchItems` (shared, `Model/RegexLite.lean`) is the matcher at one start position; `regex.finditer(..., overlapped=True)`
tries every start position `0 … n` once, in order. Mathlib-free.
-/
namespace Pept
namespace ModBuilder
open RegexLite

/-- `[(m.start(), m.end()) for m in regex.finditer(p, s, overlapped=True)]`, walking over the start positions
`i = before.length` -/
def rangesGo (p : Pattern) (i : Nat) : (before : List Char) → (after : List Char) → List (Nat × Nat)
  | before, [] =>
    match matchItems p before [] with
    | some k => [(i, i + k)]
    | none => []
  | before, c :: rest =>
    (match matchItems p before (c :: rest) with
     | some k => [(i, i + k)]
     | none => []) ++ rangesGo p (i + 1) (c :: before) rest

/-- `get_regex_match_range(s, pattern)` (pattern given as a string, offset 0) -/
def matchRanges (p : Pattern) (s : List Char) : List (Nat × Nat) := rangesGo p 0 [] s

/-- the loop of `get_regex_match_indices`: `start + offset + 1` for a non-empty match, `start + offset` for an empty one -/
def indicesOfRanges (offset : Int) (rs : List (Nat × Nat)) : List Int :=
  rs.map fun r => if r.1 ≠ r.2 then (r.1 : Int) + offset + 1 else (r.1 : Int) + offset

/-- `list(get_regex_match_indices(s, pattern, offset))` -/
def matchIndices (p : Pattern) (s : List Char) (offset : Int) : List Int := indicesOfRanges offset (matchRanges p s)

/-- the residue indices `mod_builder.py` works with: `get_regex_match_indices(sequence, pattern, offset=-1)` -/
def modSites (p : Pattern) (s : List Char) : List Int := matchIndices p s (-1)

/-- a rule target: a pattern of the subset, or (any other regex) the site list computed by the implementation -/
inductive Target where
  | sites (l : List Int)
  | pat (p : Pattern)
  deriving DecidableEq, Repr, Inhabited

def Target.resolve (s : List Char) : Target → List Int
  | .sites l => l
  | .pat p => modSites p s

def resolveRules {α : Type} (s : List Char) (rules : List (Target × α)) : List (Rule α) :=
  rules.map fun r => (r.1.resolve s, r.2)

/-- the N- or C-terminal argument with pattern targets -/
inductive TermT (α : Type) where
  | none
  | dict (rules : List (Target × α))
  | direct (v : α)
  deriving Repr, Inhabited

def resolveTerm {α : Type} (s : List Char) : TermT α → TermIn α
  | .none => .none
  | .dict rules => .dict (resolveRules s rules)
  | .direct v => .direct v

/-- `apply_static_mods(annotation, internal_mods, nterm_mods, cterm_mods, mode, 'annotation')` with the regex matching
inside the model; a bare terminal value uses the regex `''`, i.e. the empty pattern -/
def applyStaticPat (a : Annotation) (internal : Option (List (Target × ModsIn))) (nterm cterm : TermT ModsIn)
    (mode : Mode) : Annotation :=
  applyStatic a (internal.map (resolveRules a.seq)) (resolveTerm a.seq nterm) (resolveTerm a.seq cterm) mode
    (modSites [] a.seq)

/-- `apply_variable_mods(annotation, internal_mods, max_mods, nterm_mods, cterm_mods, mode, 'annotation')`, the same -/
def applyVariablePat (a : Annotation) (internal : Option (List (Target × VarIn))) (maxMods : Int)
    (nterm cterm : TermT VarIn) (mode : Mode) : List Annotation :=
  applyVariable a (internal.map (resolveRules a.seq)) maxMods (resolveTerm a.seq nterm) (resolveTerm a.seq cterm) mode
    (modSites [] a.seq)

end ModBuilder
end Pept
