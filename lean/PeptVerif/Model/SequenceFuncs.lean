import PeptVerif.Model.ModDict
import PeptVerif.Model.Serialize
/-!
String-level wrappers of sequence/sequence_funcs.py used by C19/C20, on top of the parser and serializer models of C01:
`sequence_to_annotation`, `strip_mods`, `get_mods`, `pop_mods`, `add_mods` with a `str` argument. Mathlib-free.
-/
namespace Pept

/-- `sequence_to_annotation`: a multi-chain input is a ValueError -/
def sequenceToAnnotation (s : List Char) : Except Err Annotation :=
  match parse true s with
  | .error e => .error e
  | .ok (.single a) => .ok a
  | .ok (.multi _ _) => .error .value

/-- `strip_mods(str)` -/
def stripModsStr (s : List Char) : Except Err (List Char) :=
  match sequenceToAnnotation s with
  | .error e => .error e
  | .ok a => .ok (stripMods a)

/-- `get_mods(str)` -/
def getModsStr (s : List Char) : Except Err ModDict :=
  match sequenceToAnnotation s with
  | .error e => .error e
  | .ok a => .ok (getMods a)

/-- `pop_mods(str)` -/
def popModsStr (s : List Char) : Except Err (List Char × ModDict) :=
  match sequenceToAnnotation s with
  | .error e => .error e
  | .ok a => .ok (ptPopMods a)

/-- `add_mods(str, mods, append, include_plus)` -/
def addModsStr (plus : Plus) (s : List Char) (d : ModDict) (append : Bool := true) : Except Err (List Char) :=
  match sequenceToAnnotation s with
  | .error e => .error e
  | .ok a => .ok (serialize plus (ptAddMods a d append))

/-- `add_mods(strip_mods(s), get_mods(s), append, include_plus)` -/
def stripGetAddStr (plus : Plus) (append : Bool) (s : List Char) : Except Err (List Char) :=
  match stripModsStr s with
  | .error e => .error e
  | .ok seq =>
    match getModsStr s with
    | .error e => .error e
    | .ok d => addModsStr plus seq d append

/-- `add_mods(*pop_mods(s), include_plus=…)` -/
def popAddStr (plus : Plus) (s : List Char) : Except Err (List Char) :=
  match popModsStr s with
  | .error e => .error e
  | .ok p => addModsStr plus p.1 p.2 true

end Pept
