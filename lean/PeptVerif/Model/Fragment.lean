import PeptVerif.Model.Spans
import PeptVerif.Model.Annotation
/-!
Model of `/repo/src/peptacular/fragmentation.py` (`fragment`, `Fragmenter`, `_build_fragments`,
`get_losses`, `get_number`, `get_label`, the `Fragment` dataclass) together with the parts of
`mass_calc.adjust_mass/adjust_mz` and `ProFormaAnnotation.slice/pop_labile_mods/…` that `fragment` uses.

Masses are **abstract**: every number that comes out of a table or out of `mass(component, …)` is a
parameter (`Env`), so everything proved about this model holds for arbitrary weights.
What is *outside* the model and enters through `Env`:
* `splitMass a mono` = `[mass(c, charge=0, ion_type='n', monoisotopic=mono) for c in a.split()]`;
* the tables `MONOISOTOPIC/AVERAGE_FRAGMENT_ADJUSTMENTS`, `…_FRAGMENT_ION_ADJUSTMENTS`, `PROTON_MASS`,
  `NEUTRON_MASS`;
* `annotation.condense_static_mods()` (`condenseStatic`, property C12) and the label shift
  `mass(blank labelled peptide, ion_type, charge) - adjust_mass(0.0, …)` (`labelShift`);
* `re.findall(pattern, s)` for a loss pattern that is not a character class (`Pat.opaque`: the number of
  matches is supplied extensionally);
* `str(loss)` (`showLoss`).
Mathlib-free (the driver is compiled from this file).
-/
namespace Fragment
open Pept

inductive Err where
  | valueError
  deriving DecidableEq, Repr

/-- an ion-type string. The sixteen valid fragment ion types, or any other string. -/
inductive Ion where
  | A | B | C | X | Y | Z
  | AX | AY | AZ | BX | BY | BZ | CX | CY | CZ
  | I
  | other (name : List Char)
  deriving DecidableEq, Repr

namespace Ion
/-- the Python string of the ion type -/
def name : Ion → List Char
  | A => ['a'] | B => ['b'] | C => ['c'] | X => ['x'] | Y => ['y'] | Z => ['z']
  | AX => ['a','x'] | AY => ['a','y'] | AZ => ['a','z']
  | BX => ['b','x'] | BY => ['b','y'] | BZ => ['b','z']
  | CX => ['c','x'] | CY => ['c','y'] | CZ => ['c','z']
  | I => ['i']
  | other s => s

/-- `constants.FORWARD_ION_TYPES` -/
def forwardTypes : List Ion := [A, B, C]
/-- `constants.BACKWARD_ION_TYPES` -/
def backwardTypes : List Ion := [X, Y, Z]
/-- `constants.INTERNAL_ION_TYPES` -/
def internalTypes : List Ion := [AX, AY, AZ, BX, BY, BZ, CX, CY, CZ]
/-- `constants.TERMINAL_ION_TYPES = FORWARD_ION_TYPES | BACKWARD_ION_TYPES` -/
def terminalTypes : List Ion := forwardTypes ++ backwardTypes

def isForward (t : Ion) : Bool := decide (t ∈ forwardTypes)
def isBackward (t : Ion) : Bool := decide (t ∈ backwardTypes)
def isInternal (t : Ion) : Bool := decide (t ∈ internalTypes)
def isTerminal (t : Ion) : Bool := decide (t ∈ terminalTypes)
end Ion

/-! ### `get_number`, `get_label` -/

/-- what `get_number` returns: an `int`, or the text `f'{start}-{end}'` -/
inductive Number where
  | int (i : Int)
  | pair (s e : Int)
  deriving DecidableEq, Repr

/-- `str(i)` for a Python int -/
def showInt (i : Int) : List Char :=
  if i < 0 then '-' :: Nat.toDigits 10 i.natAbs else Nat.toDigits 10 i.natAbs

/-- `f'{number}'` -/
def Number.text : Number → List Char
  | .int i => showInt i
  | .pair s e => showInt s ++ '-' :: showInt e

/-- `get_number(ion_type, len_sequence, start, end)` -/
def getNumber (t : Ion) (lenSequence start stop : Int) : Except Err Number :=
  if t.isForward then .ok (.int stop)
  else if t.isBackward then .ok (.int (lenSequence - start))
  else if t.isInternal then .ok (.pair start stop)
  else if t = Ion.I then .ok (.int start)
  else .error .valueError

/-- `'c' * k` (empty for `k ≤ 0`) -/
def rep (c : Char) (k : Int) : List Char := List.replicate k.toNat c

/-- `get_label(ion_type, charge, number, loss, isotope)`; `showLoss` is `str(loss)` -/
def getLabel (showLoss : Rat → List Char) (t : Ion) (charge : Int) (number : Number) (loss : Rat)
    (isotope : Int) : List Char :=
  rep '+' charge ++ t.name ++ number.text ++
    (if loss ≠ 0 then '(' :: showLoss loss ++ [')'] else []) ++
    (if isotope > 0 then rep '*' isotope else [])

/-! ### masses (`adjust_mass`, `adjust_mz` with `charge_adducts=None`) -/

/-- the numeric tables `adjust_mass` reads; `Bool` = `monoisotopic` -/
structure MassParams where
  proton : Rat
  neutron : Rat
  /-- `MONOISOTOPIC/AVERAGE_FRAGMENT_ADJUSTMENTS['n']` -/
  fragAdjN : Bool → Rat
  /-- `MONOISOTOPIC/AVERAGE_FRAGMENT_ADJUSTMENTS[ion_type]` -/
  fragAdj : Bool → Ion → Rat
  /-- `MONOISOTOPIC/AVERAGE_FRAGMENT_ION_ADJUSTMENTS[ion_type]` -/
  ionOffset : Bool → Ion → Rat

/-- 10^k as a rational, k ≥ 0 -/
def pow10 (k : Nat) : Rat := ((10 ^ k : Nat) : Rat)

/-- round half to even on a rational -/
def roundHalfEven (q : Rat) : Int :=
  let f := q.floor
  let d := q - (f : Rat)
  if d < 1/2 then f else if 1/2 < d then f + 1 else if f % 2 = 0 then f else f + 1

/-- Python `round(x, p)` on the exact value (see DESIGN §2.4: compared with tolerance 10^-p) -/
def pyRound (x : Rat) (p : Int) : Rat :=
  if 0 ≤ p then (roundHalfEven (x * pow10 p.toNat) : Rat) / pow10 p.toNat
  else (roundHalfEven (x / pow10 (-p).toNat) : Rat) * pow10 (-p).toNat

def roundOpt (x : Rat) : Option Int → Rat
  | none => x
  | some p => pyRound x p

/-- `adjust_mass(base_mass, charge=0, ion_type='n', monoisotopic=mono)` -/
def adjustMassN (P : MassParams) (mono : Bool) (base : Rat) : Rat :=
  base + P.proton * 0 + P.fragAdjN mono + ((0 : Int) * P.neutron + 0)

/-- `adjust_mass(base_mass, charge, ion_type, monoisotopic, isotope, loss, None, precision)` for a fragment
ion type (the branch `ion_type not in ('p','n')`) -/
def adjustMass (P : MassParams) (mono : Bool) (base : Rat) (charge : Int) (t : Ion) (isotope : Int) (loss : Rat)
    (precision : Option Int) : Rat :=
  let chargeAdduct := P.proton * ((charge - 1 : Int) : Rat) + P.ionOffset mono t
  let m := base + chargeAdduct + P.fragAdj mono t + ((isotope : Rat) * P.neutron + loss)
  roundOpt m precision

/-- `adjust_mz(base_mass, charge, precision)` -/
def adjustMz (m : Rat) (charge : Int) (precision : Option Int) : Rat :=
  roundOpt (if charge = 0 then m else m / (charge : Rat)) precision

/-! ### neutral losses (`get_losses`) -/

/-- a loss pattern: a character class such as `[STED]` (also a single literal letter), whose `findall`
count is the number of residues in the class, or any other regular expression given by its `findall`
counts on the strings it is applied to (0 where not listed) -/
inductive Pat where
  | cls (chars : List Char)
  | opaque (counts : List (List Char × Nat))
  deriving DecidableEq, Repr

/-- `len(re.findall(pattern, s))` -/
def Pat.count : Pat → List Char → Nat
  | .cls cs, s => (s.filter fun c => decide (c ∈ cs)).length
  | .opaque tbl, s => match tbl.find? (fun p => p.1 = s) with
    | some p => p.2
    | none => 0

abbrev LossRule := Pat × Rat

/-- the first loop of `get_losses`: one copy of `loss` per match of its pattern -/
def applicableList (s : List Char) (losses : List LossRule) : List Rat :=
  losses.flatMap fun r => List.replicate (r.1.count s) r.2

/-- `itertools.combinations(l, k)`, in its order -/
def combinations {α} : Nat → List α → List (List α)
  | 0, _ => [[]]
  | _ + 1, [] => []
  | k + 1, x :: xs => (combinations k xs).map (x :: ·) ++ combinations (k + 1) xs

/-- `set.add` on a duplicate-free list -/
def addNew (acc : List Rat) (x : Rat) : List Rat := if x ∈ acc then acc else acc ++ [x]

/-- `set(l)` as a duplicate-free list (the iteration order of a Python set is not specified; the
correspondence compares the loss loop as a set) -/
def toSet (acc : List Rat) (l : List Rat) : List Rat := l.foldl addNew acc

/-- the sums of all `loss_count`-combinations, `loss_count` in `range(2, max_losses + 1)` -/
def comboSums (app : List Rat) (maxLosses : Int) : List Rat :=
  if maxLosses > 1 then
    (Spans.range 2 (maxLosses + 1)).flatMap fun k => (combinations k.toNat app).map List.sum
  else []

/-- `get_losses(sequence, losses, max_losses)` -/
def getLosses (s : List Char) (losses : List LossRule) (maxLosses : Int) : List Rat :=
  let app := applicableList s losses
  let all := toSet (toSet [] app) (comboSums app maxLosses)
  if 0 ∈ all then all else all ++ [0]

/-! ### the annotation operations used by `fragment` -/

/-- `annotation.pop_labile_mods()` (the state after the call) -/
def popLabile (a : Annotation) : Annotation := { a with labile := none }

/-- `annotation.contains_sequence_ambiguity()` -/
def containsSequenceAmbiguity (a : Annotation) : Bool := a.intervals.isSome || a.unknown.isSome

/-- `annotation.has_mods()` -/
def hasMods (a : Annotation) : Bool :=
  a.isotope.isSome || a.static.isSome || a.labile.isSome || a.unknown.isSome || a.nterm.isSome ||
  a.cterm.isSome || a.internal.isSome || a.intervals.isSome || a.charge.isSome || a.adducts.isSome

/-- `len(annotation)` -/
def alen (a : Annotation) : Int := a.seq.length

/-- Python `seq[start:stop]` for `0 ≤ start`, `0 ≤ stop` -/
def pySlice {α} (l : List α) (start stop : Int) : List α := (l.drop start.toNat).take (stop.toNat - start.toNat)

/-- `annotation.slice(start, stop)` (not in place; `0 ≤ start`, `0 ≤ stop`) -/
def slice (a : Annotation) (start stop : Int) : Annotation :=
  let newSeq := pySlice a.seq start stop
  if !hasMods a then { seq := newSeq }
  else
    let newInternal := a.internal.map fun d =>
      d.filterMap fun p => if start ≤ p.1 ∧ p.1 < stop then some (p.1 - start, p.2) else none
    let newIntervals := a.intervals.map fun ivs =>
      ivs.filterMap fun iv =>
        if iv.start < stop ∧ iv.stop > start then
          some { start := max 0 (iv.start - start), stop := max 0 (iv.stop - start),
                 ambiguous := iv.ambiguous, mods := iv.mods }
        else none
    let newIntervals := match newIntervals with
      | some [] => none
      | x => x
    { a with
      seq := newSeq
      internal := newInternal
      intervals := newIntervals
      nterm := if start > 0 then none else a.nterm
      cterm := if stop < alen a then none else a.cterm }

/-! ### `Fragment`, return types -/

structure Frag where
  charge : Int
  ion : Ion
  start : Int
  stop : Int
  monoisotopic : Bool
  isotope : Int
  loss : Rat
  /-- `parent_sequence`: the working copy (after `pop_labile_mods`, `condense_static_mods`) -/
  parent : Annotation
  mass : Rat
  neutralMass : Rat
  mz : Rat
  /-- `sequence` is `base_annotation.serialize()`; the model keeps the sliced annotation itself -/
  sequence : Annotation
  unmodSequence : List Char
  internal : Bool
  deriving DecidableEq

/-- the cached property `Fragment.number` -/
def Frag.number (f : Frag) : Except Err Number := getNumber f.ion (alen f.parent) f.start f.stop

/-- the cached property `Fragment.label` -/
def Frag.label (showLoss : Rat → List Char) (f : Frag) : Except Err (List Char) := do
  let n ← f.number
  pure (getLabel showLoss f.ion f.charge n f.loss f.isotope)

/-- the six literal values of `return_type`, or anything else -/
inductive RT where
  | fragment | mass | mz | label | massLabel | mzLabel | other
  deriving DecidableEq, Repr

/-- an element of the returned list -/
inductive Out where
  | frag (f : Frag)
  | num (x : Rat)
  | label (l : List Char)
  | numLabel (x : Rat) (l : List Char)
  deriving DecidableEq

/-- scalar-or-list arguments (`isinstance(x, List)`) -/
inductive OneOrMany (α : Type) where
  | one (a : α)
  | many (l : List α)

def OneOrMany.toList {α} : OneOrMany α → List α
  | .one a => [a]
  | .many l => l

/-- everything outside the model (see the file header) -/
structure Env where
  P : MassParams
  splitMass : Annotation → Bool → List Rat
  /-- `mass(blank, charge, ion_type, mono) - adjust_mass(0.0, charge, ion_type, mono)` where `blank` is the empty
  peptide carrying the isotope labels of the annotation (consulted only when the annotation has isotope labels) -/
  labelShift : Annotation → Bool → Ion → Int → Rat
  /-- `annotation.condense_static_mods()`: the static rules written out on their targets (property C12) -/
  condenseStatic : Annotation → Annotation
  showLoss : Rat → List Char

/-- the identifying fields of an ion -/
structure Key where
  ion : Ion
  start : Int
  stop : Int
  charge : Int
  isotope : Int
  loss : Rat
  deriving DecidableEq

def Frag.key (f : Frag) : Key := ⟨f.ion, f.start, f.stop, f.charge, f.isotope, f.loss⟩

/-- the arguments of `_build_fragments` that do not change between its calls -/
structure Job where
  env : Env
  annotation : Annotation
  charges : List Int
  losses : List LossRule
  isotopes : List Int
  monoisotopic : Bool
  returnType : RT
  massComponents : List Rat
  maxLosses : Int
  precision : Option Int

/-- `sum(mass_components[span[0]:span[1]])` -/
def spanSum (comps : List Rat) (start stop : Int) : Rat := (pySlice comps start stop).sum

/-- `base_mass` of `_build_fragments` -/
def baseMass (j : Job) (start stop : Int) : Rat :=
  adjustMassN j.env.P j.monoisotopic (spanSum j.massComponents start stop)

/-- `_label_shift(annotation, ion_type, charge, monoisotopic)` -/
def labelShift (j : Job) (t : Ion) (charge : Int) : Rat :=
  if !j.annotation.isotope.isSome then 0 else j.env.labelShift j.annotation j.monoisotopic t charge

/-- the `Fragment(...)` constructed in the innermost loop -/
def mkFrag (j : Job) (k : Key) : Frag :=
  let base := baseMass j k.start k.stop
  let baseAnnotation := slice j.annotation k.start k.stop
  let neutral := adjustMass j.env.P j.monoisotopic (base + labelShift j k.ion 0) 0 k.ion k.isotope k.loss none
  let m := adjustMass j.env.P j.monoisotopic (base + labelShift j k.ion k.charge) k.charge k.ion k.isotope k.loss
    j.precision
  { charge := k.charge, ion := k.ion, start := k.start, stop := k.stop, monoisotopic := j.monoisotopic,
    isotope := k.isotope, loss := k.loss, parent := j.annotation, mass := m, neutralMass := neutral,
    mz := adjustMz m k.charge j.precision, sequence := baseAnnotation, unmodSequence := baseAnnotation.seq,
    internal := decide (k.start ≠ 0) && decide (k.stop ≠ alen j.annotation) }

/-- the body of the innermost loop: what is appended to `frags` for one (span, ion type, isotope, loss,
charge) -/
def emit (j : Job) (k : Key) : Except Err (List Out) :=
  let f := mkFrag j k
  match j.returnType with
  | .fragment => .ok [.frag f]
  | .label => do
    let number ← getNumber k.ion (alen j.annotation) k.start k.stop
    pure [.label (getLabel j.env.showLoss k.ion k.charge number k.loss k.isotope)]
  | .mass => .ok [.num f.mass]
  | .mz => .ok [.num f.mz]
  | .massLabel => do
    let number ← getNumber k.ion (alen j.annotation) k.start k.stop
    pure [.numLabel f.mass (getLabel j.env.showLoss k.ion k.charge number k.loss k.isotope)]
  | .mzLabel => do
    let number ← getNumber k.ion (alen j.annotation) k.start k.stop
    pure [.numLabel f.mz (getLabel j.env.showLoss k.ion k.charge number k.loss k.isotope)]
  | .other => .ok []

/-- the five nested loops of `_build_fragments`, in loop order: span, ion type, isotope, loss, charge -/
def loopKeys (j : Job) (spans : List Spans.Span) (ionTypes : List Ion) : List Key :=
  spans.flatMap fun sp =>
    let applicable := getLosses (slice j.annotation sp.1 sp.2.1).seq j.losses j.maxLosses
    ionTypes.flatMap fun t =>
      j.isotopes.flatMap fun iso =>
        applicable.flatMap fun loss =>
          j.charges.map fun c => ⟨t, sp.1, sp.2.1, c, iso, loss⟩

/-- `_build_fragments(spans, ion_types, …)` -/
def buildFragments (j : Job) (spans : List Spans.Span) (ionTypes : List Ion) : Except Err (List Out) :=
  ((loopKeys j spans ionTypes).mapM (emit j)).map List.flatten

/-! ### span lists -/

/-- `[start_span] + list(build_left_semi_spans(start_span))` -/
def forwardSpans (n : Int) : List Spans.Span := (0, n, 0) :: Spans.buildLeftSemi (0, n, 0) none none

/-- `[start_span] + list(build_right_semi_spans(start_span))` -/
def backwardSpans (n : Int) : List Spans.Span := (0, n, 0) :: Spans.buildRightSemi (0, n, 0) (some 1) none

/-- `[span for span in build_non_enzymatic_spans((0, n, 0)) if span[0] != 0 and span[1] != n]` -/
def internalSpans (n : Int) : List Spans.Span :=
  (Spans.buildNonEnzymatic (0, n, 0) none none).filter fun sp => decide (sp.1 ≠ 0) && decide (sp.2.1 ≠ n)

/-- `[(i, i + 1, 0) for i in range(len(annotation))]` -/
def immoniumSpans (n : Int) : List Spans.Span := (Spans.range 0 n).map fun i => (i, i + 1, 0)

/-! ### `fragment` -/

def getForward (j : Job) (ionTypes : List Ion) : Except Err (List Out) :=
  buildFragments j (forwardSpans (alen j.annotation)) ionTypes

def getBackward (j : Job) (ionTypes : List Ion) : Except Err (List Out) :=
  buildFragments j (backwardSpans (alen j.annotation)) ionTypes

/-- `_get_terminal_fragments` -/
def getTerminal (j : Job) (ionTypes : List Ion) : Except Err (List Out) := do
  let forwardIons := ionTypes.filter Ion.isForward
  let backwardIons := ionTypes.filter Ion.isBackward
  let f ← getForward j forwardIons
  let b ← getBackward j backwardIons
  pure (f ++ b)

/-- `_get_internal_fragments` -/
def getInternal (j : Job) (ionTypes : List Ion) : Except Err (List Out) :=
  buildFragments j (internalSpans (alen j.annotation)) ionTypes

/-- `_get_immonium_fragments` -/
def getImmonium (j : Job) : Except Err (List Out) :=
  buildFragments j (immoniumSpans (alen j.annotation)) [Ion.I]

/-- the literal `-18.01056` -/
def waterLossValue : Rat := mkRat (-1801056) 100000
/-- the literal `-17.02655` -/
def ammoniaLossValue : Rat := mkRat (-1702655) 100000
/-- `'[STED]'` -/
def waterPat : Pat := .cls ['S', 'T', 'E', 'D']
/-- `'[RKNQ]'` -/
def ammoniaPat : Pat := .cls ['R', 'K', 'N', 'Q']

/-- the keyword arguments of `fragment` -/
structure Args where
  ionTypes : OneOrMany Ion
  charges : OneOrMany Int
  monoisotopic : Bool := true
  isotopes : OneOrMany Int := .one 0
  waterLoss : Bool := false
  ammoniaLoss : Bool := false
  losses : Option (OneOrMany LossRule) := none
  maxLosses : Int := 1
  returnType : RT := .fragment
  precision : Option Int := none

/-- the loss list after normalisation and the `water_loss` / `ammonia_loss` appends -/
def lossList (args : Args) : List LossRule :=
  let l := match args.losses with
    | none => []
    | some l => l.toList
  let l := if args.waterLoss then l ++ [(waterPat, waterLossValue)] else l
  if args.ammoniaLoss then l ++ [(ammoniaPat, ammoniaLossValue)] else l

/-- the `Job` that `fragment` hands to its helpers -/
def mkJob (env : Env) (sequence : Annotation) (args : Args) (massComponents : Option (List Rat)) : Job :=
  let annotation := env.condenseStatic (popLabile sequence)
  { env := env, annotation := annotation, charges := args.charges.toList, losses := lossList args,
    isotopes := args.isotopes.toList, monoisotopic := args.monoisotopic, returnType := args.returnType,
    massComponents := match massComponents with
      | none => env.splitMass annotation args.monoisotopic
      | some c => c,
    maxLosses := args.maxLosses, precision := args.precision }

/-- `fragment(sequence, ion_types, charges, …, _mass_components)` for a `ProFormaAnnotation` argument
(a `str` argument is parsed first: C01). The annotation is copied first, so the caller's object is untouched. -/
def fragment (env : Env) (sequence : Annotation) (args : Args) (massComponents : Option (List Rat) := none) :
    Except Err (List Out) := do
  let ionTypes := args.ionTypes.toList
  let j := mkJob env sequence args massComponents
  if containsSequenceAmbiguity j.annotation then throw .valueError
  let terminalTypes := ionTypes.filter Ion.isTerminal
  let internalTypes := ionTypes.filter Ion.isInternal
  let immonium := decide (Ion.I ∈ ionTypes)
  let t ← (if terminalTypes ≠ [] then getTerminal j terminalTypes else pure [])
  let i ← (if internalTypes ≠ [] then getInternal j internalTypes else pure [])
  let m ← (if immonium then getImmonium j else pure [])
  pure (t ++ i ++ m)

/-! ### `Fragmenter` -/

structure Fragmenter where
  env : Env
  annotation : Annotation
  monoisotopic : Bool
  massComponents : List Rat

/-- `Fragmenter(sequence, monoisotopic)`: the components are computed from a copy prepared as in `fragment`
(`pop_labile_mods`, `condense_static_mods`); the stored annotation is the one given -/
def Fragmenter.new (env : Env) (sequence : Annotation) (monoisotopic : Bool := true) : Fragmenter :=
  { env := env, annotation := sequence, monoisotopic := monoisotopic,
    massComponents := env.splitMass (env.condenseStatic (popLabile sequence)) monoisotopic }

/-- `Fragmenter.fragment(…)`: `fragment` with `monoisotopic` and `_mass_components` taken from the object -/
def Fragmenter.fragment (fr : Fragmenter) (args : Args) : Except Err (List Out) :=
  Fragment.fragment fr.env fr.annotation { args with monoisotopic := fr.monoisotopic } (some fr.massComponents)

end Fragment
