/-!
# Model of the isotope filters of `score.py` (C17 extension). Mathlib-free.

`filter_missing_mono_isotope` and `filter_skipped_isotopes` only read `f.label` (a string) and `f.isotope` of every match;
the model is generic in the match type `μ` with these two projections. Python sets of labels are lists here (only
membership is used). Strings are `List Char`.
-/
namespace Score
variable {μ : Type}

/-- `label.replace('*', '')` -/
def monoLabel (l : List Char) : List Char := l.filter (· != '*')

/-- `label[:-1] if label.endswith('*') else ''` -/
def removeIsotope (l : List Char) : List Char :=
  if l.getLast? == some '*' then l.dropLast else []

/-- `label + '*'` -/
def addIsotope (l : List Char) : List Char := l ++ ['*']

/-- `mono_labels = set(f.label for f in ms if f.isotope == 0)`;
`[f for f in ms if _get_monoisotopic_label(f.label) in mono_labels]` -/
def filterMissingMonoIsotope (label : μ → List Char) (isotope : μ → Int) (ms : List μ) : List μ :=
  let monoLabels := (ms.filter (fun f => isotope f == 0)).map label
  ms.filter (fun f => monoLabels.contains (monoLabel (label f)))

/-- `labels = set([f.label for f in ms])`;
`[f for f in ms if _remove_isotope_from_label(f.label) in labels or _add_isotope_to_label(f.label) in labels]` -/
def filterSkippedIsotopes (label : μ → List Char) (ms : List μ) : List μ :=
  let labels := ms.map label
  ms.filter (fun f => labels.contains (removeIsotope (label f)) || labels.contains (addIsotope (label f)))

end Score
