import PeptVerif.Model.Reorder
import PeptVerif.Model.Spans
import PeptVerif.Model.C07Strings
/-!
C07 extension (round 5): the four semi- and non-enzymatic sequence generators of `digestion.py`, end to end
(`get_left_semi_enzymatic_sequences`, `get_right_semi_enzymatic_sequences`, `get_semi_enzymatic_sequences`,
`get_non_enzymatic_sequences`): span `(0, len(annotation), 0)`, the span builder of `spans.py` (`Model/Spans.lean`), then
`_return_digested_sequences`. Mathlib-free (linked into `drv_c07`).
-/
namespace Pept
namespace Reorder

inductive GenKind where
  | left | right | semi | non
  deriving DecidableEq, Repr

/-- the spans a generator hands to `_return_digested_sequences`; `get_semi_enzymatic_sequences` is
`yield from left; yield from right` -/
def genSpans (k : GenKind) (n : Nat) (lo hi : Option Int) : List Spans.Span :=
  let sp : Spans.Span := (0, (n : Int), 0)
  match k with
  | .left => Spans.buildLeftSemi sp lo hi
  | .right => Spans.buildRightSemi sp lo hi
  | .semi => Spans.buildLeftSemi sp lo hi ++ Spans.buildRightSemi sp lo hi
  | .non => Spans.buildNonEnzymatic sp lo hi

/-- generator with `return_type='annotation-span'` -/
def genPieceSpans (k : GenKind) (a : Annotation) (lo hi : Option Int) : List (Annotation × Spans.Span) :=
  digestPieceSpans a (genSpans k a.seq.length lo hi)

def GenKind.parse? : String → Option GenKind
  | "left" => some .left
  | "right" => some .right
  | "semi" => some .semi
  | "non" => some .non
  | _ => none

end Reorder
end Pept
