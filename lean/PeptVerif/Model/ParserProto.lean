import PeptVerif.Model.Proto
import PeptVerif.Model.Serialize
import PeptVerif.Spec.ProForma
/-! line-protocol step function shared by the drivers of C01 and C09: the parser / serializer model over the line protocol.

ops
* `parse <fixed 0|1> <escaped text>`      → `A<dump>` | `M<dump>~<conn>~<dump>…` | `ERR:<class>`
* `serialize <plus 0|1> <A…|M…>`          → `S<escaped text>` | `ERR:<class>`
* `convert <escaped text>`                → wire form of `convert_type(text)`
* `canon <A…|M…>`                         → `1` iff the object satisfies `Pept.canonParsed` (Spec/ProForma.lean)
* `rt <plus> <A…>`                        → `1` iff `parse (serialize plus a) = ok a` in the model (diagnostic)
-/
open Proto Pept Pept.Wire
namespace Pept.Drv

def showConn : Option Bool → String
  | none => "N"
  | some true => "1"
  | some false => "0"

def parseConn? (s : String) : Option (Option Bool) :=
  if s == "N" then some none else if s == "1" then some (some true) else if s == "0" then some (some false) else none

def showMulti : List Annotation → List (Option Bool) → List String
  | [], _ => []
  | [a], _ => [showAnnotation a]
  | a :: rest, [] => showAnnotation a :: "!" :: showMulti rest []
  | a :: rest, c :: cs => showAnnotation a :: showConn c :: showMulti rest cs

def showParsed : Except Err Parsed → String
  | .error e => "ERR:" ++ e.name
  | .ok (.single a) => "A" ++ showAnnotation a
  | .ok (.multi as cs) => "M" ++ "~".intercalate (showMulti as cs)

/-- alternating dump, conn, dump, … -/
def readMulti : List String → Option (List Annotation × List (Option Bool))
  | [] => some ([], [])
  | [d] => do
    let a ← parseAnnotation? d
    pure ([a], [])
  | d :: "!" :: rest => do   -- the connection list ended before the chains did
    let a ← parseAnnotation? d
    let (as, _) ← readMulti rest
    pure (a :: as, [])
  | d :: c :: rest => do
    let a ← parseAnnotation? d
    let c ← parseConn? c
    let (as, cs) ← readMulti rest
    pure (a :: as, c :: cs)

def readParsed? (s : String) : Option Parsed :=
  match s.toList with
  | 'A' :: r => (parseAnnotation? (String.ofList r)).map .single
  | 'M' :: r =>
    let body := String.ofList r
    if body.isEmpty then some (.multi [] []) else
    (readMulti (body.splitOn "~")).map fun p => .multi p.1 p.2
  | _ => none

def step (line : String) : String :=
  match splitTab line with
  | ["parse", fx, s] =>
    match parseBool? fx, unesc s with
    | some fx, some s => showParsed (parse fx s)
    | _, _ => "bad-op"
  | ["serialize", plus, d] =>
    match parseBool? plus, readParsed? d with
    | some plus, some p =>
      match serializeParsed (constPlus plus) p with
      | .ok t => "S" ++ esc t
      | .error e => "ERR:" ++ e.name
    | _, _ => "bad-op"
  | ["convert", s] =>
    match unesc s with
    | some s => showVal (convertType s)
    | none => "bad-op"
  | ["canon", d] =>
    match readParsed? d with
    | some p => if canonParsed p then "1" else "0"
    | none => "bad-op"
  | ["rt", plus, d] =>
    match parseBool? plus, readParsed? d with
    | some plus, some (.single a) =>
      match parse true (serialize (constPlus plus) a) with
      | .ok (.single b) => if b = a then "1" else "0"
      | _ => "0"
    | _, _ => "bad-op"
  | _ => "bad-op"

end Pept.Drv
