import PeptVerif.Model.Proto
import PeptVerif.Model.Serialize
import PeptVerif.Spec.ProForma
/-! line-protocol step function shared by the drivers of C01 and C09: the parser / serializer model over the line protocol.

ops
* `parse <fixed 0|1> <escaped text>`      → `A<dump>` | `M<dump>~<conn>~<dump>…` | `ERR:<class>`
* `serialize <plus 0|1> <A…|M…>`          → `S<escaped text>` | `ERR:<class>`
* `convert <escaped text>`                → wire form of `convert_type(text)`
* `canon <A…|M…>`                         → `1` iff the object satisfies `Pept.canonParsed` (Spec/ProForma.lean)
* `ast_render <tree>` / `ast_denote <tree>` / `ast_wf <tree>` → text / denoted object / `wf``grammatical` bits of a surface tree
* `gram <escaped text>`                   → `1` iff `Pept.grammaticalString`
* `rt <plus> <A…>`                        → `1` iff `parse (serialize plus a) = ok a` in the model (diagnostic)
-/
open Proto Pept Pept.Wire
namespace Pept.Drv

def showConn : Option Bool → String
  | none => "N"
  | some true => "1"
  | some false => "0"

def parseConn? (s : String) : Option (Option Bool) :=
  if s == "N" then some none else if s == "1" then some (some true) else if s == "0" then some (some false) else none

def showMulti : List Annotation → List (Option Bool) → List String
  | [], _ => []
  | [a], _ => [showAnnotation a]
  | a :: rest, [] => showAnnotation a :: "!" :: showMulti rest []
  | a :: rest, c :: cs => showAnnotation a :: showConn c :: showMulti rest cs

def showParsed : Except Err Parsed → String
  | .error e => "ERR:" ++ e.name
  | .ok (.single a) => "A" ++ showAnnotation a
  | .ok (.multi as cs) => "M" ++ "~".intercalate (showMulti as cs)

/-- alternating dump, conn, dump, … -/
def readMulti : List String → Option (List Annotation × List (Option Bool))
  | [] => some ([], [])
  | [d] => do
    let a ← parseAnnotation? d
    pure ([a], [])
  | d :: "!" :: rest => do   -- the connection list ended before the chains did
    let a ← parseAnnotation? d
    let (as, _) ← readMulti rest
    pure (a :: as, [])
  | d :: c :: rest => do
    let a ← parseAnnotation? d
    let c ← parseConn? c
    let (as, cs) ← readMulti rest
    pure (a :: as, c :: cs)

def readParsed? (s : String) : Option Parsed :=
  match s.toList with
  | 'A' :: r => (parseAnnotation? (String.ofList r)).map .single
  | 'M' :: r =>
    let body := String.ofList r
    if body.isEmpty then some (.multi [] []) else
    (readMulti (body.splitOn "~")).map fun p => .multi p.1 p.2
  | _ => none

/-! ### wire form of surface-syntax trees (mirror: harness/props/c01_lib.py `wire_tree`)

text    := chain ('~' ('0'|'1') '~' chain)*
chain   := starts '|' segs '|' mods '|' charge
starts  := '' | start ('&' start)*          start := ('L'|'G'|'U'|'T') ':' mods
segs    := seg ('&' seg)*                    seg := 'R' ':' res | 'I' ':' ('0'|'1') ':' res (',' res)* ':' mods
res     := <escaped char> '=' mods
mods    := '' | mod (';' mod)*               mod := <escaped text> '^' ('N' | nat)
charge  := 'N' | int ':' ('0'|'1') ':' mods -/

def splitList (sep : String) (s : String) : List String := if s.isEmpty then [] else s.splitOn sep

def readSMod? (s : String) : Option SMod :=
  match s.splitOn "^" with
  | [t, m] => do
    let t ← unesc t
    if m == "N" then pure ⟨t, none⟩ else do
      let n ← m.toNat?
      pure ⟨t, some n⟩
  | _ => none

def readSMods? (s : String) : Option (List SMod) := (splitList ";" s).mapM readSMod?

def readSRes? (s : String) : Option SRes :=
  match s.splitOn "=" with
  | [c, m] => do
    let c ← unesc c
    let m ← readSMods? m
    match c with
    | [ch] => pure ⟨ch, m⟩
    | _ => none
  | _ => none

def readSStart? (s : String) : Option SStart :=
  match s.splitOn ":" with
  | ["L", m] => do
    let m ← readSMod? m
    pure (.labile m)
  | ["G", m] => (readSMods? m).map .globals
  | ["U", m] => (readSMods? m).map .unknown
  | ["T", m] => (readSMods? m).map .nterm
  | _ => none

def readSSeg? (s : String) : Option SSeg :=
  match s.splitOn ":" with
  | ["R", r] => (readSRes? r).map .res
  | ["I", a, inner, m] => do
    let a ← parseBool? a
    let inner ← (splitList "," inner).mapM readSRes?
    let m ← readSMods? m
    pure (.group a inner m)
  | _ => none

def readSCharge? (s : String) : Option (Option SCharge) :=
  if s == "N" then some none else
  match s.splitOn ":" with
  | [c, p, m] => do
    let c ← c.toInt?
    let p ← parseBool? p
    let m ← readSMods? m
    pure (some ⟨c, p, m⟩)
  | _ => none

def readSChain? (s : String) : Option SChain :=
  match s.splitOn "|" with
  | [st, sg, ct, ch] => do
    let st ← (splitList "&" st).mapM readSStart?
    let sg ← (splitList "&" sg).mapM readSSeg?
    let ct ← readSMods? ct
    let ch ← readSCharge? ch
    pure ⟨st, sg, ct, ch⟩
  | _ => none

def readRest? : List String → Option (List (Bool × SChain))
  | [] => some []
  | j :: c :: t => do
    let j ← parseBool? j
    let c ← readSChain? c
    let r ← readRest? t
    pure ((j, c) :: r)
  | _ => none

def readSText? (s : String) : Option SText :=
  match s.splitOn "~" with
  | c :: t => do
    let c ← readSChain? c
    let r ← readRest? t
    pure ⟨c, r⟩
  | [] => none

def step (line : String) : String :=
  match splitTab line with
  | ["parse", fx, s] =>
    match parseBool? fx, unesc s with
    | some fx, some s => showParsed (parse fx s)
    | _, _ => "bad-op"
  | ["serialize", plus, d] =>
    match parseBool? plus, readParsed? d with
    | some plus, some p =>
      match serializeParsed (constPlus plus) p with
      | .ok t => "S" ++ esc t
      | .error e => "ERR:" ++ e.name
    | _, _ => "bad-op"
  | ["convert", s] =>
    match unesc s with
    | some s => showVal (convertType s)
    | none => "bad-op"
  | ["canon", d] =>
    match readParsed? d with
    | some p => if canonParsed p then "1" else "0"
    | none => "bad-op"
  | ["ast_render", w] =>
    match readSText? w with
    | some t => "S" ++ esc t.render
    | none => "bad-op"
  | ["ast_denote", w] =>
    match readSText? w with
    | some t => showParsed (.ok t.denote)
    | none => "bad-op"
  | ["ast_wf", w] =>
    match readSText? w with
    | some t => (if t.wf then "1" else "0") ++ (if t.grammatical then "1" else "0")
    | none => "bad-op"
  | ["gram", s] =>
    match unesc s with
    | some s => if grammaticalString s then "1" else "0"
    | none => "bad-op"
  | ["rt", plus, d] =>
    match parseBool? plus, readParsed? d with
    | some plus, some (.single a) =>
      match parse true (serialize (constPlus plus) a) with
      | .ok (.single b) => if b = a then "1" else "0"
      | _ => "0"
    | _, _ => "bad-op"
  | _ => "bad-op"

end Pept.Drv
