/-!
# Model of `score.py` (C17). Mathlib-free.

The functions follow the Python branch for branch. They are generic in the number type through the
small class `Num` below: the compiled driver runs them at `Float` (IEEE double: `+ - * / < <= ==`
agree bit for bit with CPython), the theorems of `Props/C17.lean` are about the same definitions,
either for arbitrary `below`/`within` predicates or at `Rat`.
-/
namespace Score

/-- the operations `score.py` performs on m/z values and intensities -/
class Num (α : Type) where
  add : α → α → α
  sub : α → α → α
  mul : α → α → α
  div : α → α → α
  lt : α → α → Bool
  le : α → α → Bool
  eq : α → α → Bool
  zero : α
  million : α

instance : Num Float where
  add := (· + ·)
  sub := (· - ·)
  mul := (· * ·)
  div := (· / ·)
  lt a b := decide (a < b)
  le a b := decide (a ≤ b)
  eq a b := a == b
  zero := 0
  million := 1000000

instance : Num Rat where
  add := (· + ·)
  sub := (· - ·)
  mul := (· * ·)
  div := (· / ·)
  lt a b := decide (a < b)
  le a b := decide (a ≤ b)
  eq a b := decide (a = b)
  zero := 0
  million := 1000000

inductive Err where
  | valueError | typeError | indexError | attrError
  deriving DecidableEq, Repr

def Err.show : Err → String
  | .valueError => "ERR:ValueError"
  | .typeError => "ERR:TypeError"
  | .indexError => "ERR:IndexError"
  | .attrError => "ERR:AttributeError"

variable {α : Type}

/-! ## get_matched_indices -/

/-- `while i < len(ys) and p(ys[i]): i += 1` -/
def advance (p : α → Bool) (ys : List α) (i : Nat) : Nat :=
  match h : ys[i]? with
  | some y => if p y then advance p ys (i+1) else i
  | none => i
termination_by ys.length - i
decreasing_by
  have := List.getElem?_eq_some_iff.mp h
  obtain ⟨hlt, _⟩ := this
  omega

/-- the loop of `get_matched_indices`: `start` is the shared lower pointer `mz2_start_index`;
`below y x` is `y < mz1_start`, `within y x` is `y <= mz1_end`. Three exits give `None`:
pointer exhausted before / after the lower advance, and an empty window. -/
def sweep (below : α → α → Bool) (within : α → α → Bool) (ys : List α) :
    Nat → List α → List (Option (Nat × Nat))
  | _, [] => []
  | start, x :: xs =>
    if start ≥ ys.length then none :: sweep below within ys start xs
    else
      let s := advance (fun y => below y x) ys start
      if s ≥ ys.length then none :: sweep below within ys s xs
      else
        let e := advance (fun y => within y x) ys s
        (if e ≤ s then none else some (s, e)) :: sweep below within ys s xs

inductive Tol where
  | ppm | th
  deriving DecidableEq, Repr

/-- `tolerance_type not in ['ppm','th']` raises ValueError -/
def Tol.ofString? (s : String) : Option Tol :=
  if s == "ppm" then some .ppm else if s == "th" then some .th else none

/-- `tolerance_value if tolerance_type == 'th' else mz1 * tolerance_value / 1e6` -/
def offset [Num α] (t : Tol) (tol x : α) : α :=
  match t with
  | .th => tol
  | .ppm => Num.div (Num.mul x tol) Num.million

def lo [Num α] (t : Tol) (tol x : α) : α := Num.sub x (offset t tol x)
def hi [Num α] (t : Tol) (tol x : α) : α := Num.add x (offset t tol x)

/-- `mz2 < mz1_start` -/
def below [Num α] (t : Tol) (tol : α) (y x : α) : Bool := Num.lt y (lo t tol x)
/-- `mz2 <= mz1_end` -/
def within [Num α] (t : Tol) (tol : α) (y x : α) : Bool := Num.le y (hi t tol x)

def getMatchedIndices [Num α] (t : Tol) (tol : α) (xs ys : List α) : List (Option (Nat × Nat)) :=
  sweep (below t tol) (within t tol) ys 0 xs

/-! ## match_spectra -/

inductive Mode where
  | all | closest | largest
  deriving DecidableEq, Repr

def Mode.ofString? (s : String) : Option Mode :=
  if s == "all" then some .all else if s == "closest" then some .closest
  else if s == "largest" then some .largest else none

/-- one entry of the result list of `match_spectra` -/
inductive Hit where
  | none
  | one (i : Nat)
  | many (l : List Nat)
  deriving DecidableEq, Repr

/-- index of the first best element: `l.index(min(l))` with `better v b := v < b`,
`l.index(max(l))` with `better v b := b < v` -/
def argBestGo {β : Type} (better : β → β → Bool) : Nat → β → Nat → List β → Nat
  | bi, _, _, [] => bi
  | bi, b, i, v :: vs =>
    if better v b then argBestGo better i v (i+1) vs else argBestGo better bi b (i+1) vs

def argBest {β : Type} (better : β → β → Bool) : List β → Option Nat
  | [] => none
  | v :: vs => some (argBestGo better 0 v 1 vs)

/-- Python `abs(a - b)` -/
def absDiff [Num α] (a b : α) : α :=
  let d := Num.sub a b
  if Num.lt d Num.zero then Num.sub Num.zero d else d

/-- `ys[s:e]` -/
def slice {β : Type} (l : List β) (s e : Nat) : List β := (l.drop s).take (e - s)

/-- mode `all`: `list(range(indexes[0], indexes[1]))` -/
def pickAll (s e : Nat) : List Nat := List.range' s (e - s)

/-- mode `closest`: `mz_diffs = [abs(x - ys[idx]) for idx in range(s, e)]; s + mz_diffs.index(min(mz_diffs))`
(`none` = `min([])` raises ValueError) -/
def pickClosest [Num α] (ys : List α) (x : α) (s e : Nat) : Option Nat :=
  (argBest (fun v b => Num.lt v b) ((slice ys s e).map fun y => absDiff x y)).map fun i => s + i

/-- mode `largest`: `intensities = ints[s:e]; s + intensities.index(max(intensities))` -/
def pickLargest [Num α] (ints : List α) (s e : Nat) : Option Nat :=
  (argBest (fun v b => Num.lt b v) (slice ints s e)).map fun i => s + i

/-- the body of the loop of `match_spectra` for one fragment `x` with window `w`.
`intens = none` models `intensity_spectra=None` (TypeError on subscripting); an empty slice of a too
short intensity list makes `max([])` raise ValueError. -/
def pick [Num α] (mode : Mode) (ys : List α) (intens : Option (List α)) (x : α) :
    Option (Nat × Nat) → Except Err Hit
  | Option.none => .ok .none
  | some (s, e) =>
    match mode with
    | .all => .ok (.many (pickAll s e))
    | .closest =>
      match pickClosest ys x s e with
      | some j => .ok (.one j)
      | Option.none => .error .valueError
    | .largest =>
      match intens with
      | Option.none => .error .typeError
      | some ints =>
        match pickLargest ints s e with
        | some j => .ok (.one j)
        | Option.none => .error .valueError

def matchSpectra [Num α] (mode : Mode) (t : Tol) (tol : α) (xs ys : List α)
    (intens : Option (List α)) : Except Err (List Hit) :=
  (xs.zip (getMatchedIndices t tol xs ys)).mapM fun (x, w) => pick mode ys intens x w

/-! ## get_fragment_matches, at the level of (fragment id, m/z) and (m/z, intensity) lists -/

/-- stable insertion sort = Python `sorted(key=…)` / `list.sort(key=…)` (stable, compares with `<`) -/
def insertBy {β : Type} (lt : β → β → Bool) (x : β) : List β → List β
  | [] => [x]
  | y :: ys => if lt y x then y :: insertBy lt x ys else x :: y :: ys

def sortBy {β : Type} (lt : β → β → Bool) : List β → List β
  | [] => []
  | x :: xs => insertBy lt x (sortBy lt xs)

/-- a `FragmentMatch`: which fragment (position in the caller's list), peak m/z, peak intensity -/
structure FMatch (α : Type) where
  frag : Nat
  mz : α
  inten : α
  deriving Repr

def expandHit (peaks : List (α × α)) (frag : Nat) : Hit → List (FMatch α)
  | .none => []
  | .one j => match peaks[j]? with
    | some p => [⟨frag, p.1, p.2⟩]
    | Option.none => []
  | .many l => l.filterMap fun j => peaks[j]?.map fun p => ⟨frag, p.1, p.2⟩

/-- `get_fragment_matches`: `frags` are (id, mz) pairs; both inputs are sorted by m/z (stable) first;
`zip` truncates to the shorter of the two peak lists. -/
def getFragmentMatches [Num α] (mode : Mode) (t : Tol) (tol : α) (frags : List (Nat × α))
    (mzs ints : List α) : Except Err (List (FMatch α)) :=
  let fs := sortBy (fun a b => Num.lt a.2 b.2) frags
  let peaks := sortBy (fun (a b : α × α) => Num.lt a.1 b.1) (mzs.zip ints)
  match matchSpectra mode t tol (fs.map (·.2)) (peaks.map (·.1)) (some (peaks.map (·.2))) with
  | .error e => .error e
  | .ok hits => .ok ((fs.zip hits).flatMap fun (f, h) => expandHit peaks f.1 h)

/-! ## get_matched_intensity_percentage -/

/-- `d[k] = v` on an insertion-ordered dict -/
def dictSet {κ β : Type} (eq : κ → κ → Bool) (k : κ) (v : β) : List (κ × β) → List (κ × β)
  | [] => [(k, v)]
  | (k', v') :: r => if eq k' k then (k', v) :: r else (k', v') :: dictSet eq k v r

/-- `{f.mz: f for f in fragment_matches}` (later matches overwrite, first insertion keeps its place) -/
def groupByMz [Num α] (ms : List (α × α)) : List (α × α) :=
  ms.foldl (fun d m => dictSet Num.eq m.1 m.2 d) []

def sumL [Num α] (l : List α) : α := l.foldl Num.add Num.zero

/-- matches as (mz, intensity) pairs; `intensities` of the whole spectrum -/
def matchedIntensityPercentage [Num α] (ms : List (α × α)) (intensities : List α) : α :=
  let matched := sumL ((groupByMz ms).map (·.2))
  let total := sumL intensities
  if Num.eq total Num.zero then Num.zero else Num.div matched total

/-! ## get_match_coverage -/

/-- what `get_match_coverage` reads of one `FragmentMatch`: a key identifying the fragment (in the code the tuple
`(label, start, end, isotope, loss, monoisotopic, internal)`; any type with decidable equality here),
the label `'+'*charge + ion_type` (kept as the pair), `start`, `end` -/
structure CovIn (κ : Type) where
  key : κ
  charge : Nat
  ion : String
  start : Nat
  stop : Nat
  deriving Repr, DecidableEq

def bump (start stop : Nat) (l : List Nat) : List Nat :=
  l.mapIdx fun i c => if start ≤ i ∧ i < stop then c + 1 else c

def covAdd (n : Nat) (label : Nat × String) (start stop : Nat) :
    List ((Nat × String) × List Nat) → List ((Nat × String) × List Nat)
  | [] => [(label, bump start stop (List.replicate n 0))]
  | (l, c) :: r => if l == label then (l, bump start stop c) :: r else (l, c) :: covAdd n label start stop r

def covTouch (n : Nat) (label : Nat × String) :
    List ((Nat × String) × List Nat) → List ((Nat × String) × List Nat)
  | [] => [(label, List.replicate n 0)]
  | (l, c) :: r => if l == label then (l, c) :: r else (l, c) :: covTouch n label r

/-- `dedupe = false`: one increment per match (a fragment matched to k peaks counts k times);
`dedupe = true`: each fragment (key) counted once. `cov[label][i] += 1` with `i ≥ n` raises IndexError. -/
def matchCoverageGo {κ : Type} [DecidableEq κ] (dedupe : Bool) (n : Nat) :
    List (CovIn κ) → List κ → List ((Nat × String) × List Nat) → Except Err (List ((Nat × String) × List Nat))
  | [], _, cov => .ok cov
  | m :: ms, seen, cov =>
    if dedupe && seen.contains m.key then matchCoverageGo dedupe n ms seen (covTouch n (m.charge, m.ion) cov)
    else if m.start < m.stop ∧ m.stop > n then .error .indexError
    else matchCoverageGo dedupe n ms (m.key :: seen) (covAdd n (m.charge, m.ion) m.start m.stop cov)

def matchCoverage {κ : Type} [DecidableEq κ] (dedupe : Bool) (n : Nat) (ms : List (CovIn κ)) :=
  matchCoverageGo dedupe n ms [] []

end Score
