import PeptVerif.Model.CompCalc
import PeptVerif.Model.StaticMods
/-!
The `parse_static_mods` parameter of the mass / composition models instantiated with the concrete rule parser of the
C12 work package (`Model/StaticMods.lean`, imported read-only): the static-rule theorems of C02 / C03 then hold for the
modelled rule parser, not for an arbitrary one.  Mathlib-free.
-/
namespace Pept

def staticErr : Static.Err → Err
  | .valueError => .valueError
  | .typeError => .typeError
  | .keyError => .keyError
  | .unmodelled => .named "unmodelled".toList

/-- `parse_static_mods(annotation.static_mods)` by the concrete model -/
def parseStaticConcrete (st : List Mod) : Except Err (List (List Char × List Mod)) :=
  match Static.parseStaticMods (some st) with
  | .ok m => .ok m
  | .error e => .error (staticErr e)

/-- an environment whose rule parser is the modelled `parse_static_mods`; only the per-value resolution stays a parameter -/
def Env.concrete (res : ModVal → Res) : Env := ⟨res, parseStaticConcrete⟩

theorem Env.concrete_parse (res : ModVal → Res) (st : List Mod) (map : List (List Char × List Mod))
    (h : Static.parseStaticMods (some st) = .ok map) : (Env.concrete res).parseStatic st = .ok map := by
  show parseStaticConcrete st = _
  unfold parseStaticConcrete
  rw [h]

end Pept
