import PeptVerif.Model.Annotation
/-!
Model of annotation equality (C20):
`Mod.__eq__`, `are_mods_equal`, `Interval.__eq__`, `are_intervals_equal` (proforma_dataclasses.py) and
`ProFormaAnnotation.__eq__` (proforma_parser.py). Mathlib-free.

Python compares `Mod.val` with `!=`; an `int` and a `float` are equal when they denote the same number
(`1 == 1.0`), a `str` never equals a number. A float travels as its `repr` text; the model reads that text
as an exact decimal `mantissa * 10^exp`, normalised so that the mantissa has no trailing zero. Two floats are
equal iff their shortest reprs denote the same decimal (this also gives `0.0 == -0.0`); an int equals a float
iff the decimal is that integer (exact for |x| < 1e16 where `repr` of an integral float is positional).
`inf`/`nan` have no decimal reading and are compared textually (`nan` is outside the modelled domain).

`Counter(a) == Counter(b)` is modelled as "every element of either list has the same count in both" (`msEq`), counts
taken modulo `Mod.__eq__` (Python's dict lookup additionally requires equal hashes: `Mod.__hash__` hashes
`(val, mult)` and Python guarantees `hash(1) == hash(1.0)`, so this holds for Mods; for `Interval.__hash__`
see notes/C20.md).
-/
namespace Pept

/-! ### exact decimal reading of a float repr -/

def digitVal? (c : Char) : Option Nat :=
  if '0' ≤ c ∧ c ≤ '9' then some (c.toNat - 48) else none

/-- read a maximal run of decimal digits: (value, number of digits, rest) -/
def readDigits : List Char → Nat → Nat → Nat × Nat × List Char
  | [], acc, n => (acc, n, [])
  | c :: r, acc, n =>
    match digitVal? c with
    | some d => readDigits r (acc * 10 + d) (n + 1)
    | none => (acc, n, c :: r)

/-- optional sign: (isNegative, rest) -/
def readSign : List Char → Bool × List Char
  | '-' :: r => (true, r)
  | '+' :: r => (false, r)
  | r => (false, r)

/-- `[-]d+[.d*][e[+-]d+]` read as (mantissa, exponent of ten); anything else has no reading -/
def readDec (s : List Char) : Option (Int × Int) :=
  let (neg, s1) := readSign s
  let (ip, ni, s2) := readDigits s1 0 0
  if ni = 0 then none else
  let (fp, nf, s3) :=
    match s2 with
    | '.' :: r => readDigits r 0 0
    | r => (0, 0, r)
  let mant : Int := ((ip * 10 ^ nf + fp : Nat) : Int)
  let mant := if neg then -mant else mant
  match s3 with
  | [] => some (mant, -(nf : Int))
  | 'e' :: r =>
    let (eneg, r1) := readSign r
    let (ev, ne, r2) := readDigits r1 0 0
    if ne = 0 then none else
    match r2 with
    | [] => some (mant, (if eneg then -(ev : Int) else (ev : Int)) - (nf : Int))
    | _ => none
  | _ => none

/-- remove trailing zeros of the mantissa (fuel bounds the number of divisions) -/
def stripZeros : Nat → Int → Int → Int × Int
  | 0, m, e => (m, e)
  | f + 1, m, e =>
    if m = 0 then (0, 0)
    else if m % 10 = 0 then stripZeros f (m / 10) (e + 1)
    else (m, e)

/-- canonical decimal: mantissa not divisible by ten, zero is (0, 0) -/
def normDec (m e : Int) : Int × Int :=
  if m = 0 then (0, 0) else stripZeros (m.natAbs.log2 + 1) m e

/-- what `==` on `Mod.val` observes -/
inductive ValKey where
  | num (m e : Int)
  | text (s : List Char)
  | other (r : List Char)
  deriving DecidableEq, Repr, Inhabited

def valKey : ModVal → ValKey
  | .int i => let p := normDec i 0; .num p.1 p.2
  | .flt r =>
    match readDec r with
    | some (m, e) => let p := normDec m e; .num p.1 p.2
    | none => .other r
  | .str s => .text s

/-- Python `a.val == b.val` -/
def valEq (a b : ModVal) : Bool := valKey a == valKey b

/-- what `Mod.__eq__` / `Mod.__hash__` observe -/
abbrev ModKey := ValKey × Int

def modKey (m : Mod) : ModKey := (valKey m.val, m.mult)

/-- `Mod.__eq__`: `val` differs → False; `mult` differs → False; True -/
def modEq (a b : Mod) : Bool :=
  if !(valEq a.val b.val) then false
  else if a.mult != b.mult then false
  else true

/-- `Counter(a) == Counter(b)` for elements compared with `r` (their `__eq__`): Python ≥ 3.10 evaluates
`all(self[e] == other[e] for c in (self, other) for e in c)`; `Counter(l)[e]` is the number of elements of `l`
equal to `e` -/
def msEq {α : Type} (r : α → α → Bool) (a b : List α) : Bool :=
  (a ++ b).all fun e => a.countP (r e) == b.countP (r e)

/-- `Counter(l1) == Counter(l2)` on lists of `Mod` -/
def counterEq (l1 l2 : List Mod) : Bool := msEq modEq l1 l2

/-- `are_mods_equal` -/
def areModsEqual : Option (List Mod) → Option (List Mod) → Bool
  | none, none => true
  | none, some _ => false
  | some _, none => false
  | some a, some b => counterEq a b

/-- `Interval.__eq__` -/
def ivEq (a b : Interval) : Bool :=
  if a.start != b.start then false
  else if a.stop != b.stop then false
  else if a.ambiguous != b.ambiguous then false
  else if !(areModsEqual a.mods b.mods) then false
  else true

/-- `are_intervals_equal` -/
def areIntervalsEqual : Option (List Interval) → Option (List Interval) → Bool
  | none, none => true
  | none, some _ => false
  | some _, none => false
  | some a, some b =>
    if a.length != b.length then false
    else msEq ivEq a b

/-- `get_internal_mods_by_index` -/
def getInternal (a : Annotation) (k : Int) : Option (List Mod) :=
  match a.internal with
  | none => none
  | some d => d.lookup k

def internalKeys (a : Annotation) : List Int :=
  match a.internal with
  | none => []
  | some d => d.map (·.1)

/-- the internal-mod loop of `__eq__`: when either side has internal mods, every key of the union of the key sets
must carry equal mod lists on both sides (`get_internal_mods_by_index` is None for a missing key) -/
def internalOk (a b : Annotation) : Bool :=
  if a.internal.isSome || b.internal.isSome then
    (internalKeys a ++ internalKeys b).all fun k => areModsEqual (getInternal a k) (getInternal b k)
  else true

/-- `ProFormaAnnotation.__eq__` -/
def annEq (a b : Annotation) : Bool :=
  if a.seq != b.seq then false
  else if !(areModsEqual a.labile b.labile) then false
  else if !(areModsEqual a.unknown b.unknown) then false
  else if !(areModsEqual a.nterm b.nterm) then false
  else if !(areModsEqual a.cterm b.cterm) then false
  else if !(areModsEqual a.adducts b.adducts) then false
  else if !(areModsEqual a.isotope b.isotope) then false
  else if !(areModsEqual a.static b.static) then false
  else if !(internalOk a b) then false
  else if !(areIntervalsEqual a.intervals b.intervals) then false
  else if a.charge != b.charge then false
  else true

end Pept
