import PeptVerif.Model.ModDb
import PeptVerif.Lemmas.KSortC10
/-!
Boolean checkers for the vocabulary tables (evaluated by the kernel in `Props/C10Tab*.lean` and, entry by entry, by the
driver to name a witness when a table edit breaks one of them).  Mathlib-free.
-/
namespace ModDb
open Formula KSort

/-- every prefix that `_parse_mod_mass` / `_parse_mod_comp` give a meaning to (lower case) -/
def reserved : List Str :=
  [str% "unimod:", str% "u:", str% "mod:", str% "m:", str% "psi-mod:", str% "xlmod:", str% "x:", str% "resid:", str% "r:",
   str% "gno:", str% "g:", str% "glycan:", str% "info:", str% "formula:", str% "obs:"]

/-- a vocabulary key that can be spelled: no `#`, no `|`, no reserved prefix (any letter case), not starting with `+`/`-` -/
def keyClean (k : Str) : Bool :=
  !k.contains 35 && !k.contains 124 && !hasPrefix reserved k &&
    (match k with
     | c :: _ => c != 43 && c != 45
     | [] => false)

def entryClean (e : Entry) : Bool := keyClean e.id && keyClean e.name

/-- the bare name is not read as a number by `convert_type` -/
def nameNotNumeric (e : Entry) : Bool := convertType e.name == Conv.str

def keysOf (db : List Entry) : List Str := db.map (·.id) ++ db.map (·.name)

/-- ids and names of one vocabulary are pairwise distinct (also: no name is another entry's id) -/
def keysDistinct (db : List Entry) : Bool := strictSorted (msort (keysOf db))

/-- Unimod names that are also PSI-MOD names today (the bare name resolves through PSI-MOD, which is asked first) -/
def collisions : List Str := [str% "NHS-LC-Biotin", str% "EDT-maleimide-PEO-biotin"]

/-- PSI-MOD keys are distinct, and no Unimod name outside `collisions` is a PSI-MOD id or name -/
def crossDistinct (unimod psimod : List Entry) : Bool :=
  strictSorted (msort (((unimod.map (·.name)).filter (fun n => !collisions.contains n)) ++ keysOf psimod))

def absRat (r : Rat) : Rat := if r < 0 then -r else r

/-- tabulated monoisotopic mass = mass of the tabulated composition, within 1e-3 -/
def monoMatchesComp (M : MassTable) (e : Entry) : Bool :=
  match e.mono, e.comp with
  | some m, some f =>
    match chemMassStr M true f [] with
    | .ok x => decide (absRat (x - m.toRat) ≤ 1 / 1000)
    | .error _ => false
  | _, _ => false


/-- two parsed compositions are the same dict (keys of each are unique) -/
def sameComp (c d : Comp) : Bool :=
  c.length == d.length && c.all (fun kv => d.get? kv.1 == some kv.2)

/-- a name carried by both vocabularies means the same: mono mass within 1e-5, same composition -/
def collisionOK (U P : List Entry) (n : Str) : Bool :=
  match byName U n, byName P n with
  | some u, some p =>
    (match u.mono, p.mono with
     | some a, some b => decide (absRat (a.toRat - b.toRat) ≤ 1 / 100000)
     | _, _ => false) &&
    (match u.comp, p.comp with
     | some f, some g =>
       (match parseChem f [], parseChem g [] with
        | .ok c, .ok d => sameComp c d
        | _, _ => false)
     | _, _ => false)
  | _, _ => false

/-- the average masses of a colliding pair agree within 1e-5 (false today) -/
def collisionAvgOK (U P : List Entry) (n : Str) : Bool :=
  match byName U n, byName P n with
  | some u, some p =>
    (match u.avg, p.avg with
     | some a, some b => decide (absRat (a.toRat - b.toRat) ≤ 1 / 100000)
     | _, _ => false)
  | _, _ => false

end ModDb
