import PeptVerif.Model.Score
import PeptVerif.Model.Fragment
/-!
# `score.py` on the real record structure (C17). Mathlib-free.

`FragmentMatch(fragment, mz, intensity)` with `fragment` the `Fragment` dataclass of fragmentation.py
(`Fragment.Frag`, Model/Fragment.lean, owned by C04/C05). The functions here are the `(m/z, intensity)`-level
functions of Model/Score.lean with the projections `score.py` applies: `f.mz` for matching, the properties
`charge` (= `abs(fragment.charge)`), `ion_type`, `start`, `end`, `isotope`, `loss`, `monoisotopic`, `internal`,
`parent_sequence` for coverage, `mz` / `intensity` for the intensity share. Numbers are `Rat` (as in `Frag`).
-/
namespace Score
open Fragment (Frag Ion)

/-- the frozen dataclass `FragmentMatch` -/
structure FragMatch where
  fragment : Frag
  mz : Rat
  intensity : Rat
  deriving DecidableEq

/-- `get_fragment_matches(fragments, mz_spectra, intensity_spectra, tol, type, mode)`: a fragment object is
identified by its position in the caller's list (Python object identity); the list is sorted by `f.mz` (stable) -/
def getFragmentMatchesF (mode : Mode) (t : Tol) (tol : Rat) (frags : List Frag) (mzs ints : List Rat) :
    Except Err (List FragMatch) :=
  match getFragmentMatches mode t tol ((List.range frags.length).zip (frags.map (·.mz))) mzs ints with
  | .error e => .error e
  | .ok ms => .ok (ms.filterMap fun m => frags[m.frag]?.map fun f => ⟨f, m.mz, m.inten⟩)

/-- the de-duplication key of `get_match_coverage`:
`(label, frag.start, frag.end, frag.isotope, frag.loss, frag.monoisotopic, frag.internal)`, label = `'+'*charge + ion_type` -/
abbrev CovKey := (Nat × String) × Int × Int × Int × Rat × Bool × Bool

instance covKeyTailDecEq : DecidableEq (Int × Int × Int × Rat × Bool × Bool) := inferInstance
instance : DecidableEq CovKey := instDecidableEqProd

/-- `label = f"{'+' * frag.charge}{frag.ion_type}"` kept as (number of `+`, ion type text); `FragmentMatch.charge` is
`abs(fragment.charge)` -/
def covLabel (f : Frag) : Nat × String := (f.charge.natAbs, String.ofList f.ion.name)

def covKey (f : Frag) : CovKey :=
  (covLabel f, f.start, f.stop, f.isotope, f.loss, f.monoisotopic, f.internal)

/-- what `get_match_coverage` reads of one match. `range(start, end)` and `cov[label][i]` are modelled for
`0 ≤ start`, `0 ≤ end` (negative indices would wrap around in Python; `fragment()` never produces them). -/
def covInOf (m : FragMatch) : CovIn CovKey :=
  ⟨covKey m.fragment, (covLabel m.fragment).1, (covLabel m.fragment).2, m.fragment.start.toNat,
    m.fragment.stop.toNat⟩

/-- `get_match_coverage(fragment_matches)`: `{}` for no matches; the row length is
`len(strip_mods(fragment_matches[0].parent_sequence))` -/
def getMatchCoverageF (ms : List FragMatch) : Except Err (List ((Nat × String) × List Nat)) :=
  match ms with
  | [] => .ok []
  | m :: _ => matchCoverage true m.fragment.parent.seq.length (ms.map covInOf)

/-- `get_matched_intensity_percentage(fragment_matches, intensities)` -/
def getMatchedIntensityPercentageF (ms : List FragMatch) (intensities : List Rat) : Rat :=
  matchedIntensityPercentage (ms.map fun m => (m.mz, m.intensity)) intensities

end Score
