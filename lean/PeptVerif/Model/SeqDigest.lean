import PeptVerif.Model.Spans
import PeptVerif.Model.RegexLite
/-!
Model of `digestion.sequential_digest` at the level of spans (`return_type='span'`).

Follows the Python branch for branch: the first `EnzymeConfig` digests the whole sequence
(`digest(..., max_len=None, return_type='annotation-span')`, i.e. the sorted, de-duplicated span list);
every later config digests each piece of the previous stage *on the piece's own text* (cleavage sites are
recomputed on the slice), re-bases the new spans by the piece's start and gives them the PARENT piece's value
(`span[2]`); `min_len` is applied at every stage, `max_len` only at the end; a stage is skipped when the
previous one produced nothing. The output is in generation order and may contain duplicates.
Mathlib-free.
-/
namespace Spans

/-- one stage (`EnzymeConfig`) with its cleavage rule abstracted to a site function:
`sites a b` = cleavage sites of the stage's rule(s) on the piece `[a,b)` of the sequence, relative to `a` -/
structure Stage where
  sites : Int → Int → List Int
  mc : Nat
  semi : Bool
  complete : Bool

/-- a later stage: digest every piece, re-base the spans, keep the parent's value -/
def seqStep (st : Stage) (lo : Option Int) (frags : List Span) : List Span :=
  frags.flatMap fun f =>
    (digestSpans (f.2.1 - f.1) (st.sites f.1 f.2.1) st.mc lo none st.semi st.complete).map
      fun d => (f.1 + d.1, f.1 + d.2.1, f.2.2)

/-- span list of `sequential_digest(sequence, configs, min_len, max_len, 'span')`, `n = len(sequence)` -/
def seqDigestSpans (n : Int) (stages : List Stage) (lo hi : Option Int) : List Span :=
  let out := match stages with
    | [] => []
    | st :: rest =>
      rest.foldl (fun acc st => if acc.isEmpty then acc else seqStep st lo acc)
        (digestSpans n (st.sites 0 n) st.mc lo none st.semi st.complete)
  match hi with
  | none => out
  | some m => out.filter fun s => s.2.1 - s.1 ≤ m

/-! ### the stages of the real function: regular expressions applied to the text of each piece -/

/-- `EnzymeConfig(regex, missed_cleavages, semi_enzymatic, complete_digestion)` with the rules in the
modelled regex subset -/
structure EnzymeConfig where
  regex : List RegexLite.Pattern
  mc : Nat
  semi : Bool
  complete : Bool

/-- text of `annotation.slice(a, b)` for an unmodified sequence -/
def pieceText (text : List Char) (a b : Int) : List Char := (text.drop a.toNat).take (b - a).toNat

/-- the concatenated site lists of `digest` (one `get_cleavage_sites` call per rule) -/
def ruleSites (regex : List RegexLite.Pattern) (text : List Char) : List Int :=
  regex.flatMap fun p => (RegexLite.sites p text).map fun (k : Nat) => (k : Int)

def EnzymeConfig.toStage (text : List Char) (c : EnzymeConfig) : Stage :=
  ⟨fun a b => ruleSites c.regex (pieceText text a b), c.mc, c.semi, c.complete⟩

/-- `list(sequential_digest(text, configs, lo, hi, 'span'))` -/
def seqDigestText (text : List Char) (configs : List EnzymeConfig) (lo hi : Option Int) : List Span :=
  seqDigestSpans text.length (configs.map (EnzymeConfig.toStage text)) lo hi

/-- span list of the simultaneous `digest(text, all rules, missed_cleavages=0, semi=False, lo, hi,
complete_digestion=True, 'span', sort_output=True)` -/
def simDigestText (text : List Char) (rules : List RegexLite.Pattern) (lo hi : Option Int) : List Span :=
  digestSpans text.length (ruleSites rules text) 0 lo hi false true

end Spans
