import PeptVerif.Generated.Constants
import PeptVerif.Generated.Elements
/-!
Model of `chem/chem_util.py::chem_mass`, `util.py::merge_dicts`, `element_setup.py` (the tables derived from
`data/chem.txt`) and `chem/chem_constants.py` (the derived mass tables).  Mathlib-free.

String keys (element symbols such as `H`, `Na`, `13C`, residue letters, ion types) are `Nat`: the big-endian
base-256 packing of their ASCII bytes (see `harness/translate_tables.py`).  Counts and masses are `Rat`.
A composition is an insertion-ordered association list (a Python dict).
-/
namespace Pept

inductive Err where
  | ambiguousAA          -- AmbiguousAminoAcidError
  | unknownAA            -- UnknownAminoAcidError
  | keyError             -- KeyError (unknown ion type, unknown adduct element)
  | typeError            -- TypeError
  | indexError           -- IndexError
  | valueError           -- ValueError
  | invalidChemFormula   -- InvalidChemFormulaError (unknown element in chem_mass)
  | named (cls : List Char)  -- an exception raised by the modification resolver (outside this model)
  deriving DecidableEq, Repr, Inhabited

def Err.show : Err → String
  | .ambiguousAA => "ERR:AmbiguousAminoAcidError"
  | .unknownAA => "ERR:UnknownAminoAcidError"
  | .keyError => "ERR:KeyError"
  | .typeError => "ERR:TypeError"
  | .indexError => "ERR:IndexError"
  | .valueError => "ERR:ValueError"
  | .invalidChemFormula => "ERR:InvalidChemFormulaError"
  | .named c => "ERR:" ++ String.ofList c

namespace Chem

abbrev Key := Nat
abbrev Elem := Nat
abbrev Comp := List (Elem × Rat)

/-! ### keys -/
def keyOfCodes (s : List Nat) : Key := s.foldl (fun a c => a * 256 + c) 0
def keyOfChars (s : List Char) : Key := s.foldl (fun a c => a * 256 + c.toNat) 0

/-- number of bytes of a packed key -/
def keyLen (k : Key) : Nat := if h : k = 0 then 0 else 1 + keyLen (k / 256)
decreasing_by exact Nat.div_lt_self (Nat.pos_of_ne_zero h) (by decide)

/-- bytes of a packed key, most significant first -/
def keyBytes (k : Key) : List Nat := go k []
where go (k : Nat) (acc : List Nat) : List Nat := if h : k = 0 then acc else go (k / 256) (k % 256 :: acc)
decreasing_by exact Nat.div_lt_self (Nat.pos_of_ne_zero h) (by decide)

def keyToString (k : Key) : String := String.ofList ((keyBytes k).map Char.ofNat)

/-- concatenation of two packed keys -/
def keyCat (a b : Key) : Key := a * 256 ^ keyLen b + b

/-- first byte -/
def keyHead (k : Key) : Nat := (keyBytes k).headD 0

def isDigitCode (c : Nat) : Bool := 48 ≤ c && c ≤ 57

/-- decimal digits of a natural number, as ASCII codes -/
def natDigits (n : Nat) : List Nat := go n (n + 1) []
where go (n fuel : Nat) (acc : List Nat) : List Nat :=
  match fuel with
  | 0 => acc
  | fuel + 1 => if n < 10 then (48 + n) :: acc else go (n / 10) fuel ((48 + n % 10) :: acc)

def kH : Elem := 72
def kD : Elem := 68
def kT : Elem := 84
def kC : Elem := 67
def kN : Elem := 78
def kO : Elem := 79
def kS : Elem := 83
def kE : Elem := 101   -- 'e'
def kPp : Elem := 112  -- 'p'
def kNn : Elem := 110  -- 'n'

/-! ### dictionaries -/

def lookup {β} (k : Nat) : List (Nat × β) → Option β
  | [] => none
  | (k', v) :: r => if k' = k then some v else lookup k r

/-- `d[k] = v` on an insertion-ordered dict -/
def setKey {β} (c : List (Nat × β)) (e : Nat) (v : β) : List (Nat × β) :=
  match c with
  | [] => [(e, v)]
  | (e', v') :: rest => if e' = e then (e', v) :: rest else (e', v') :: setKey rest e v

def delKey {β} (c : List (Nat × β)) (e : Nat) : List (Nat × β) := c.filter (fun p => p.1 != e)

/-- `d[e] = d.get(e, 0) + k` -/
def addKey (c : Comp) (e : Elem) (k : Rat) : Comp :=
  match c with
  | [] => [(e, k)]
  | (e', k') :: rest => if e' = e then (e', k' + k) :: rest else (e', k') :: addKey rest e k

/-- `for k, v in b.items(): a[k] = a.get(k, 0) + v` -/
def addAll (a b : Comp) : Comp := b.foldl (fun acc p => addKey acc p.1 p.2) a

def dropZeros (c : Comp) : Comp := c.filter (fun p => p.2 != 0)

/-- `util.merge_dicts`: add counts per key (first-seen order), then drop zero counts -/
def merge (a b : Comp) : Comp := dropZeros (addAll (addAll [] a) b)

def scale (k : Rat) (c : Comp) : Comp := c.map (fun p => (p.1, p.2 * k))

/-- linear part of `chem_mass` for a total mass assignment -/
def chemMassL (μ : Elem → Rat) (c : Comp) : Rat := c.foldl (fun acc p => acc + μ p.1 * p.2) 0

/-! ### element tables (element_setup.py over Generated.nuclides) -/

abbrev Nuclide := Nat × Nat × Nat × Rat × Rat
def Nuclide.z (n : Nuclide) : Nat := n.1
def Nuclide.sym (n : Nuclide) : Nat := n.2.1
def Nuclide.a (n : Nuclide) : Nat := n.2.2.1
def Nuclide.mass (n : Nuclide) : Rat := n.2.2.2.1
def Nuclide.abund (n : Nuclide) : Rat := n.2.2.2.2

/-- `_map_atomic_number_to_infos`: group by atomic number, groups in first-seen order, members in file order -/
def groupByZ (l : List Nuclide) : List (Nat × List Nuclide) :=
  (l.foldl (fun acc n =>
    match lookup n.z acc with
    | none => acc ++ [(n.z, [n])]
    | some g => setKey acc n.z (n :: g)) []).map (fun p => (p.1, p.2.reverse))

/-- head of `infos.sort(key=isotopic_composition, reverse=True)`: the first nuclide of maximal abundance (stable) -/
def monoOf : List Nuclide → Option Nuclide
  | [] => none
  | n :: r => some (r.foldl (fun best x => if best.abund < x.abund then x else best) n)

/-- `str(info)` = mass number followed by the symbol -/
def isotopeKey (n : Nuclide) : Key := keyCat (keyOfCodes (natDigits n.a)) n.sym

/-- `get_isotopic_atomic_masses` in write order (later writes win: use `lookupLast`) -/
def isotopicWrites (l : List Nuclide) : List (Key × Rat) :=
  let base := (groupByZ l).flatMap (fun g =>
    match monoOf g.2 with
    | none => []
    | some m => (m.sym, m.mass) :: g.2.map (fun n => (isotopeKey n, n.mass)))
  let get (k : Key) : List Rat := match lookup k base.reverse with | some v => [v] | none => []
  let t := get (keyOfCodes [51, 84])  -- '3T'
  let d := get (keyOfCodes [50, 68])  -- '2D'
  base ++ t.map (fun v => (kT, v)) ++ d.map (fun v => (kD, v)) ++ t.map (fun v => (keyOfCodes [51, 72], v))
    ++ d.map (fun v => (keyOfCodes [50, 72], v))

/-- `map_atomic_symbol_to_average_mass` -/
def averageWrites (l : List Nuclide) : List (Key × Rat) :=
  (groupByZ l).flatMap (fun g =>
    match monoOf g.2 with
    | none => []
    | some m =>
      let avg := g.2.foldl (fun acc n => acc + n.mass * n.abund) 0
      [(m.sym, if avg = 0 then m.mass else avg)])

/-- `ISOTOPIC_ATOMIC_MASSES` (reversed write order, so that `lookup` returns the last write) -/
def isotopicMasses : List (Key × Rat) := (isotopicWrites Gen.nuclides).reverse
/-- `AVERAGE_ATOMIC_MASSES` -/
def averageMasses : List (Key × Rat) := (averageWrites Gen.nuclides).reverse

-- the two tables are large closed terms: keep the elaborator's unifier from unfolding them (the kernel and the
-- compiler are unaffected)
attribute [irreducible] isotopicMasses averageMasses

def isIsotopeKey (e : Elem) : Bool := isDigitCode (keyHead e) || decide (e = kD) || decide (e = kT)

/-- the mass `chem_mass` uses for one dict key; `none` = "Unknown element" -/
def elemMass (mono : Bool) (e : Elem) : Option Rat :=
  match lookup e isotopicMasses with
  | none =>
    if e = kE then some Gen.electronMass
    else if e = kPp then some Gen.protonMass
    else if e = kNn then some Gen.neutronMass
    else none
  | some m =>
    if mono then some m
    else if isIsotopeKey e then some m
    else lookup e averageMasses

/-! ### rounding -/

def pow10 (n : Nat) : Rat := ((10 ^ n : Nat) : Rat)

/-- round-half-even to an integer -/
def roundHalfEvenInt (q : Rat) : Int :=
  let f := q.floor
  let r := q - (f : Rat)
  if r < 1 / 2 then f else if 1 / 2 < r then f + 1 else if f % 2 = 0 then f else f + 1

/-- Python `round(x, p)` on the exact rational (round-half-even) -/
def pyRound (q : Rat) (p : Int) : Rat :=
  if 0 ≤ p then ((roundHalfEvenInt (q * pow10 p.toNat) : Int) : Rat) / pow10 p.toNat
  else ((roundHalfEvenInt (q / pow10 (-p).toNat) : Int) : Rat) * pow10 (-p).toNat

def roundOpt (q : Rat) : Option Int → Rat
  | none => q
  | some p => pyRound q p

/-- one step of the loop of `chem_mass`: an unknown key raises -/
def chemStep (mono : Bool) (acc : Rat) (p : Elem × Rat) : Except Err Rat :=
  match elemMass mono p.1 with
  | none => Except.error Err.invalidChemFormula
  | some μ => pure (acc + μ * p.2)

/-- `chem_mass(composition, monoisotopic, precision)` -/
def chemMass (mono : Bool) (c : Comp) (precision : Option Int := none) : Except Err Rat := do
  let m ← c.foldlM (chemStep mono) (0 : Rat)
  pure (roundOpt m precision)

/-! ### derived constant tables (constants.py / chem_constants.py) -/

def tableGet (t : List (Key × Comp)) (k : Key) : Except Err Comp :=
  match lookup k t with
  | some c => pure c
  | none => Except.error Err.keyError

/-- evaluate one `merge_dicts(T1[k1], T2[k2])` recipe; `adj` is table 2 (the neutral adjustments) -/
def evalRecipe (adj : List (Key × Comp)) (r : (Nat × Nat) × (Nat × Nat)) : Comp :=
  let src (p : Nat × Nat) : Comp :=
    let t := if p.1 = 0 then Gen.neutralStart else if p.1 = 1 then Gen.neutralEnd
             else if p.1 = 2 then adj else Gen.ionComp
    (lookup p.2 t).getD []
  merge (src r.1) (src r.2)

/-- `NEUTRAL_FRAGMENT_COMPOSITION_ADJUSTMENTS`: the transcribed `merge_dicts` recipes evaluated here, or - when the source is not
of that shape (`Gen.neutralAdjByValue = some _`) - the table the module evaluates to -/
def neutralAdj : List (Key × Comp) :=
  match Gen.neutralAdjByValue with
  | some t => t
  | none => Gen.neutralAdjRecipe.map (fun r => (r.1, evalRecipe [] r.2))
/-- `FRAGMENT_ION_COMPOSITION_ADJUSTMENTS` -/
def ionAdj : List (Key × Comp) :=
  match Gen.ionAdjByValue with
  | some t => t
  | none => Gen.ionAdjRecipe.map (fun r => (r.1, evalRecipe neutralAdj r.2))

/-- mass of a constant composition (`chem_mass` at import time; the constants contain known elements only) -/
def constMass (mono : Bool) (c : Comp) : Rat := chemMassL (fun e => (elemMass mono e).getD 0) c

/-- `MONOISOTOPIC_AA_MASSES` / `AVERAGE_AA_MASSES` -/
def aaMass (mono : Bool) (aa : Key) : Option Rat := (lookup aa Gen.aaComp).map (constMass mono)
/-- `MONOISOTOPIC_FRAGMENT_ADJUSTMENTS` / `AVERAGE_FRAGMENT_ADJUSTMENTS` -/
def fragmentAdjMass (mono : Bool) (t : Key) : Option Rat := (lookup t neutralAdj).map (constMass mono)
/-- `MONOISOTOPIC_FRAGMENT_ION_ADJUSTMENTS` / `AVERAGE_FRAGMENT_ION_ADJUSTMENTS` -/
def fragmentIonAdjMass (mono : Bool) (t : Key) : Option Rat := (lookup t Gen.ionComp).map (constMass mono)
/-- `MONOISOTOPIC_ION_ADJUSTMENTS` / `AVERAGE_ION_ADJUSTMENTS` -/
def ionAdjMass (mono : Bool) (t : Key) : Option Rat := (lookup t ionAdj).map (constMass mono)
/-- `ISOTOPIC_AVERAGINE_MASS` -/
def isotopicAveragineMass : Rat := constMass true Gen.averagine

end Chem
end Pept
