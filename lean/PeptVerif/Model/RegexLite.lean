/-!
A model of the regular-expression *subset* used by the protease table (`constants.PROTEASES`) and by the two
documented styles of user rules (zero-width look-around; consuming groups), and of
`util.get_regex_match_indices` (`finditer(..., overlapped=True)`; a zero-length match yields its position,
a non-empty match yields start+1).

Items never alternate or repeat, so a pattern matches at a given start in at most one way.
Mathlib-free.
-/
namespace RegexLite

inductive Item where
  /-- `(?<=[cls])` -/
  | behind (cls : List Char)
  /-- `(?=[cls])` -/
  | ahead (cls : List Char)
  /-- `(?=[^cls])`: a character must follow and it is not in `cls` -/
  | aheadNot (cls : List Char)
  /-- `(?![cls])`: no character of `cls` follows (true at the end of the text) -/
  | notAhead (cls : List Char)
  /-- `[cls]`, a literal, or a capturing group around one: consumes one character of `cls` -/
  | consume (cls : List Char)
  deriving DecidableEq, Repr

abbrev Pattern := List Item

/-- match the items against `before.reverse ++ after` with the cursor between them;
returns the number of characters consumed -/
def matchItems : Pattern → (before : List Char) → (after : List Char) → Option Nat
  | [], _, _ => some 0
  | .behind cls :: ps, before, after =>
    match before with
    | c :: _ => if cls.contains c then matchItems ps before after else none
    | [] => none
  | .ahead cls :: ps, before, after =>
    match after with
    | c :: _ => if cls.contains c then matchItems ps before after else none
    | [] => none
  | .aheadNot cls :: ps, before, after =>
    match after with
    | c :: _ => if cls.contains c then none else matchItems ps before after
    | [] => none
  | .notAhead cls :: ps, before, after =>
    match after with
    | c :: _ => if cls.contains c then none else matchItems ps before after
    | [] => matchItems ps before after
  | .consume cls :: ps, before, after =>
    match after with
    | c :: rest => if cls.contains c then (matchItems ps (c :: before) rest).map (· + 1) else none
    | [] => none

/-- walk over every start position `i = before.length` -/
def sitesGo (p : Pattern) (i : Nat) : (before : List Char) → (after : List Char) → List Nat
  | before, [] =>
    match matchItems p before [] with
    | some 0 => [i]
    | some _ => [i + 1]
    | none => []
  | before, c :: rest =>
    (match matchItems p before (c :: rest) with
     | some 0 => [i]
     | some _ => [i + 1]
     | none => []) ++ sitesGo p (i + 1) (c :: before) rest

/-- `list(get_regex_match_indices(s, pattern))` -/
def sites (p : Pattern) (s : List Char) : List Nat := sitesGo p 0 [] s

end RegexLite
