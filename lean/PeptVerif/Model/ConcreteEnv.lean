import PeptVerif.Model.CompCalc
import PeptVerif.Model.CondenseMass
/-!
The concrete instance of the abstract mass environment (`AbsMass.Env`, C12 / C18) over the tables generated from /repo
(`Generated/Constants.lean`, `Generated/Elements.lean` through `Model/Chem.lean`) and a modification resolver
(`Pept.Env`, the same parameter C02 / C03 use). Mathlib-free.

`Model/Chem.lean` keys compositions by packed ASCII (`Nat`); the abstract model keys them by text (`List Char`, the label
parser needs the text). `decodeKey` unpacks a key; that packing the result again gives the key back is checked on the
tables (`Lemmas/ConcreteEnv.lean`).
-/
namespace Pept
namespace Concrete
open Chem

/-- bytes of a packed key, most significant first (structural: at most `fuel` bytes) -/
def decodeAux : Nat → Nat → List Char → List Char
  | 0, _, acc => acc
  | fuel + 1, k, acc => if k = 0 then acc else decodeAux fuel (k / 256) (Char.ofNat (k % 256) :: acc)

def decodeKey (k : Nat) : List Char := decodeAux 8 k []

def decodeComp (c : Chem.Comp) : AbsMass.Comp := c.map fun p => (decodeKey p.1, p.2)

/-- mass of one dict key of a composition, by its text: `chem_mass({x: 1})` -/
def emOf (mono : Bool) (k : List Char) : Rat := (elemMass mono (keyOfChars k)).getD 0

/-- `mod_mass(val, monoisotopic)` as resolved (0 when it does not resolve: outside every domain below) -/
def muOf (env : Pept.Env) (mono : Bool) (v : ModVal) : Rat :=
  match (if mono then (env.res v).mono else (env.res v).avg) with
  | .ok x => x
  | .error _ => 0

/-- `_parse_mod_delta_mass_only(val)` / `mod_comp(val)` as resolved -/
def modResOf (env : Pept.Env) (v : ModVal) : AbsMass.ModRes :=
  match (env.res v).delta with
  | .ok (some d) => .delta d
  | .ok none =>
    (match (env.res v).comp with
     | .ok c => .comp (decodeComp c)
     | .error _ => .bad)
  | .error _ => .bad

def okOr0 : Except Pept.Err Rat → Rat
  | .ok v => v
  | .error _ => 0

def compOrNil : Except Pept.Err Chem.Comp → Chem.Comp
  | .ok c => c
  | .error _ => []

/-- the environment of one `mass` / `comp_mass` query without stated adducts: ion type, mode, charge, isotope offset, loss -/
def envFor (env : Pept.Env) (ion : Key) (mono : Bool) (charge : Int) (isotope : Int) (loss : Rat) : AbsMass.Env :=
  { res := fun c => (aaMass mono c.toNat).getD 0,
    mu := muOf env mono,
    adj := okOr0 (Mass.adjustMass 0 (some charge) ion mono isotope loss none none),
    aaComp := fun c => decodeComp ((lookup c.toNat Gen.aaComp).getD []),
    modRes := modResOf env,
    ionAdj := decodeComp ((lookup ion neutralAdj).getD []),
    chargeComp := decodeComp (compOrNil (CompCalc.defaultCarrier charge ion)),
    em := emOf mono,
    ntermComp := decodeComp ((lookup ion Gen.neutralStart).getD []),
    ctermComp := decodeComp ((lookup ion Gen.neutralEnd).getD []),
    knownLabel := fun k => (lookup (keyOfChars k) isotopicMasses).isSome,
    isotope := isotope,
    ionP := ion == Mass.ionP,
    useIsotopeOnMods := false }

/-- the environment of the plain call `mass(x)` (what `condense_to_mass_mods` uses for its pieces): precursor, neutral -/
def envOf (env : Pept.Env) (mono : Bool := true) : AbsMass.Env := envFor env Mass.ionP mono 0 0 0

end Concrete
end Pept
