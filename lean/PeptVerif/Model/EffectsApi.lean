/-! C08: API members deliberately outside the generated obligations (names as written in Python), with the reason. -/
namespace Effects

def declaredOutsideWhy : List (String × String) :=
  [("cross_linking_randomizer", "randomizer.py: random test-data generator, edits the annotation it is given by contract"),
   ("glycan_randomizer", "randomizer.py: random test-data generator, edits the annotation it is given by contract"),
   ("spectrum_randomizer", "randomizer.py: random test-data generator, edits the annotation it is given by contract"),
   ("top_down_randomizer", "randomizer.py: random test-data generator, edits the annotation it is given by contract"),
   ("random_intervals", "randomizer.py: random test-data generator (takes a str)"),
   ("count_invalid_entries", "mod_db_setup: import-time helper over ModEntry lists"),
   ("get_isotopic_atomic_masses", "element_setup: import-time table builder"),
   ("map_atomic_number_to_comp", "element_setup: import-time table builder"),
   ("map_atomic_number_to_comp_neutron_offset", "element_setup: import-time table builder"),
   ("map_atomic_number_to_symbol", "element_setup: import-time table builder"),
   ("map_atomic_symbol_to_average_mass", "element_setup: import-time table builder"),
   ("map_hill_order", "element_setup: import-time table builder")]

def declaredOutside : List String := declaredOutsideWhy.map (·.1)

end Effects
