/-! C08: API members deliberately outside the generated obligations (names as written in Python), with the reason. -/
namespace Effects

def declaredOutsideWhy : List (String × String) :=
  [("cross_linking_randomizer", "randomizer.py: random test-data generator, edits the annotation it is given by contract"),
   ("glycan_randomizer", "randomizer.py: random test-data generator, edits the annotation it is given by contract"),
   ("spectrum_randomizer", "randomizer.py: random test-data generator, edits the annotation it is given by contract"),
   ("top_down_randomizer", "randomizer.py: random test-data generator, edits the annotation it is given by contract"),
   ("random_intervals", "randomizer.py: random test-data generator (takes a str)"),
   ("compliance_randomizer", "randomizer.py: random test-data generator"),
   ("random_sequence", "randomizer.py: random test-data generator"),
   ("random_mod", "randomizer.py: random test-data generator"),
   ("random_interval", "randomizer.py: random test-data generator"),
   ("reload_all_databases", "mod_db_setup: explicit editor of the modification databases"),
   ("reload_all_databases_from_online", "mod_db_setup: explicit editor of the modification databases"),
   ("reset_all_databases", "mod_db_setup: explicit editor of the modification databases"),
   ("count_invalid_entries", "mod_db_setup: import-time helper over ModEntry lists"),
   ("get_isotopic_atomic_masses", "element_setup: import-time table builder"),
   ("map_atomic_number_to_comp", "element_setup: import-time table builder"),
   ("map_atomic_number_to_comp_neutron_offset", "element_setup: import-time table builder"),
   ("map_atomic_number_to_symbol", "element_setup: import-time table builder"),
   ("map_atomic_symbol_to_average_mass", "element_setup: import-time table builder"),
   ("map_hill_order", "element_setup: import-time table builder")]

def declaredOutside : List String := declaredOutsideWhy.map (·.1)

/-- API members whose result is *meant* to be (part of) an argument: outside the no-shared-state obligation
(`generated_results_fresh`), still inside every other obligation.  Reading decisions that need no entry here:
records handed in by the caller (Mod, Interval, Fragment, FragmentMatch, EnzymeConfig, ModEntry) may be handed back - the
translator casts them to `recd` / `recTop` objects by their static type and `shareParamOf` exempts those; property getters
are not callables of the surface (they are analysed and held to `getters_pure`); editors (`pop_*` hand back what they
removed) are exempt as editors.  `@cached_property` memoisation on frozen records (Fragment.label/number, ModEntry) is keyed
by immutable fields and is not counted as a write (reading decision). -/
def declaredSharingWhy : List (String × String) :=
  [("ProFormaAnnotation.get_internal_mods_by_index",
      "accessor: documented to return the internal-mod list stored at that index (the field itself), used by __eq__"),
   ("create_multi_annotation",
      "aggregate constructor: the MultiProFormaAnnotation is documented to consist of the annotations and connections given"),
   ("merge_dicts",
      "shallow merge of two dicts whose values are added with `+` (numbers); annotated plain `Dict`, so the analysis cannot " ++
      "see that the values are immutable; the result dict itself is new")]

def declaredSharing : List String := declaredSharingWhy.map (·.1)

/-- the names of `declaredOutside` as code points (literal, so that the kernel never evaluates string operations;
`Lemmas/EffectsApi.lean` proves it is the spelling of `declaredOutside`) -/
def declaredOutsideCodes : List (List Nat) :=
  [[99, 114, 111, 115, 115, 95, 108, 105, 110, 107, 105, 110, 103, 95, 114, 97, 110, 100, 111, 109, 105, 122, 101, 114],
   [103, 108, 121, 99, 97, 110, 95, 114, 97, 110, 100, 111, 109, 105, 122, 101, 114],
   [115, 112, 101, 99, 116, 114, 117, 109, 95, 114, 97, 110, 100, 111, 109, 105, 122, 101, 114],
   [116, 111, 112, 95, 100, 111, 119, 110, 95, 114, 97, 110, 100, 111, 109, 105, 122, 101, 114],
   [114, 97, 110, 100, 111, 109, 95, 105, 110, 116, 101, 114, 118, 97, 108, 115],
   [99, 111, 109, 112, 108, 105, 97, 110, 99, 101, 95, 114, 97, 110, 100, 111, 109, 105, 122, 101, 114],
   [114, 97, 110, 100, 111, 109, 95, 115, 101, 113, 117, 101, 110, 99, 101],
   [114, 97, 110, 100, 111, 109, 95, 109, 111, 100],
   [114, 97, 110, 100, 111, 109, 95, 105, 110, 116, 101, 114, 118, 97, 108],
   [114, 101, 108, 111, 97, 100, 95, 97, 108, 108, 95, 100, 97, 116, 97, 98, 97, 115, 101, 115],
   [114, 101, 108, 111, 97, 100, 95, 97, 108, 108, 95, 100, 97, 116, 97, 98, 97, 115, 101, 115, 95, 102, 114, 111, 109, 95, 111, 110, 108, 105, 110, 101],
   [114, 101, 115, 101, 116, 95, 97, 108, 108, 95, 100, 97, 116, 97, 98, 97, 115, 101, 115],
   [99, 111, 117, 110, 116, 95, 105, 110, 118, 97, 108, 105, 100, 95, 101, 110, 116, 114, 105, 101, 115],
   [103, 101, 116, 95, 105, 115, 111, 116, 111, 112, 105, 99, 95, 97, 116, 111, 109, 105, 99, 95, 109, 97, 115, 115, 101, 115],
   [109, 97, 112, 95, 97, 116, 111, 109, 105, 99, 95, 110, 117, 109, 98, 101, 114, 95, 116, 111, 95, 99, 111, 109, 112],
   [109, 97, 112, 95, 97, 116, 111, 109, 105, 99, 95, 110, 117, 109, 98, 101, 114, 95, 116, 111, 95, 99, 111, 109, 112, 95, 110, 101, 117, 116, 114, 111, 110, 95, 111, 102, 102, 115, 101, 116],
   [109, 97, 112, 95, 97, 116, 111, 109, 105, 99, 95, 110, 117, 109, 98, 101, 114, 95, 116, 111, 95, 115, 121, 109, 98, 111, 108],
   [109, 97, 112, 95, 97, 116, 111, 109, 105, 99, 95, 115, 121, 109, 98, 111, 108, 95, 116, 111, 95, 97, 118, 101, 114, 97, 103, 101, 95, 109, 97, 115, 115],
   [109, 97, 112, 95, 104, 105, 108, 108, 95, 111, 114, 100, 101, 114]]

/-- the names of `declaredSharing` as code points (same remark) -/
def declaredSharingCodes : List (List Nat) :=
  [[80, 114, 111, 70, 111, 114, 109, 97, 65, 110, 110, 111, 116, 97, 116, 105, 111, 110, 46, 103, 101, 116, 95, 105, 110, 116, 101, 114, 110, 97, 108, 95, 109, 111, 100, 115, 95, 98, 121, 95, 105, 110, 100, 101, 120],
   [99, 114, 101, 97, 116, 101, 95, 109, 117, 108, 116, 105, 95, 97, 110, 110, 111, 116, 97, 116, 105, 111, 110],
   [109, 101, 114, 103, 101, 95, 100, 105, 99, 116, 115]]

/-- the explicit editors of the modification databases (public, no annotation/dict/list parameter): the only API members
allowed to write an EntryDb object -/
def declaredDbEditors : List String := ["reload_all_databases", "reload_all_databases_from_online", "reset_all_databases"]

def declaredDbEditorCodes : List (List Nat) :=
  [[114, 101, 108, 111, 97, 100, 95, 97, 108, 108, 95, 100, 97, 116, 97, 98, 97, 115, 101, 115],
   [114, 101, 108, 111, 97, 100, 95, 97, 108, 108, 95, 100, 97, 116, 97, 98, 97, 115, 101, 115, 95, 102, 114, 111, 109, 95, 111, 110, 108, 105, 110, 101],
   [114, 101, 115, 101, 116, 95, 97, 108, 108, 95, 100, 97, 116, 97, 98, 97, 115, 101, 115]]

end Effects
