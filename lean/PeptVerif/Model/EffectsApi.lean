/-! C08: API members deliberately outside the generated obligations (names as written in Python), with the reason. -/
namespace Effects

def declaredOutsideWhy : List (String × String) :=
  [("cross_linking_randomizer", "randomizer.py: random test-data generator, edits the annotation it is given by contract"),
   ("glycan_randomizer", "randomizer.py: random test-data generator, edits the annotation it is given by contract"),
   ("spectrum_randomizer", "randomizer.py: random test-data generator, edits the annotation it is given by contract"),
   ("top_down_randomizer", "randomizer.py: random test-data generator, edits the annotation it is given by contract"),
   ("random_intervals", "randomizer.py: random test-data generator (takes a str)"),
   ("count_invalid_entries", "mod_db_setup: import-time helper over ModEntry lists"),
   ("get_isotopic_atomic_masses", "element_setup: import-time table builder"),
   ("map_atomic_number_to_comp", "element_setup: import-time table builder"),
   ("map_atomic_number_to_comp_neutron_offset", "element_setup: import-time table builder"),
   ("map_atomic_number_to_symbol", "element_setup: import-time table builder"),
   ("map_atomic_symbol_to_average_mass", "element_setup: import-time table builder"),
   ("map_hill_order", "element_setup: import-time table builder")]

def declaredOutside : List String := declaredOutsideWhy.map (·.1)

/-- API members whose result is *meant* to be (part of) an argument: outside the no-shared-state obligation
(`generated_results_fresh`), still inside every other obligation.  Reading decisions that need no entry here:
records handed in by the caller (Mod, Interval, Fragment, FragmentMatch, EnzymeConfig, ModEntry) may be handed back - the
translator casts them to `recd` / `recTop` objects by their static type and `shareParamOf` exempts those; property getters
are not callables of the surface (they are analysed and held to `getters_pure`); editors (`pop_*` hand back what they
removed) are exempt as editors.  `@cached_property` memoisation on frozen records (Fragment.label/number, ModEntry) is keyed
by immutable fields and is not counted as a write (reading decision). -/
def declaredSharingWhy : List (String × String) :=
  [("ProFormaAnnotation.get_internal_mods_by_index",
      "accessor: documented to return the internal-mod list stored at that index (the field itself), used by __eq__"),
   ("create_multi_annotation",
      "aggregate constructor: the MultiProFormaAnnotation is documented to consist of the annotations and connections given"),
   ("merge_dicts",
      "shallow merge of two dicts whose values are added with `+` (numbers); annotated plain `Dict`, so the analysis cannot " ++
      "see that the values are immutable; the result dict itself is new")]

def declaredSharing : List String := declaredSharingWhy.map (·.1)

end Effects
