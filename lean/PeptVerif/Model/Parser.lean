import PeptVerif.Model.ModText
/-!
# The three-phase ProForma parser (`_ProFormaParser`, proforma_parser.py:2040-2418)

The cursor is the remaining input (`List Char`); `self.position >= self.length` is `s = []`,
`self._current()` is the head. Every loop is a well-founded recursion on the length of the remaining input:
the termination proofs inside the definitions are the "never hangs" half of C09 for the inner loops. The outer
chain loop (`_ProFormaParser.parse`) carries an explicit progress test; `Err.hang` is returned when an iteration
consumed nothing, and `Props/C09.parseChains_never_hangs` proves that this never happens.

`fixed : Bool` selects the code before (`false`) / after (`true`) the two `fix:` commits of C09
(IndexError on a bracket group that ends the input, TypeError on a numeric global modification), i.e. the current
tree with commit 4c2ce90 reverted; everything else (including the later fix 0b351bb) is identical. The current `/repo`
is `fixed = true`.
-/
namespace Pept

/-- `c in AMINO_ACIDS` (the 26 upper-case letters) -/
def isAA (c : Char) : Bool := 65 ≤ c.toNat && c.toNat ≤ 90

/-! ### `_parse_modification` -/

/-- bracket-depth scan: depth starts at 1 after the opening bracket; the loop runs until depth 0;
the body excludes the closing bracket; `none` = "Unmatched" (ProFormaFormatError) -/
def scan (o c : Char) : Nat → List Char → Option (List Char × List Char)
  | _, [] => none
  | d, x :: xs =>
    if x = o then (scan o c (d+1) xs).map (fun r => (x :: r.1, r.2))
    else if x = c then
      if d = 1 then some ([], xs)
      else (scan o c (d-1) xs).map (fun r => (x :: r.1, r.2))
    else (scan o c d xs).map (fun r => (x :: r.1, r.2))

theorem scan_length (o c : Char) (d : Nat) (s b r : List Char) (h : scan o c d s = some (b, r)) :
    r.length < s.length := by
  induction s generalizing d b r with
  | nil => simp [scan] at h
  | cons x xs ih =>
    simp only [scan] at h
    split at h
    · cases h' : scan o c (d+1) xs with
      | none => simp [h'] at h
      | some p =>
        have := ih _ _ _ (show scan o c (d+1) xs = some (p.1, p.2) by rw [h'])
        simp [h'] at h; simp_all; omega
    · split at h
      · split at h
        · simp at h; simp [h.2]
        · cases h' : scan o c (d-1) xs with
          | none => simp [h'] at h
          | some p =>
            have := ih _ _ _ (show scan o c (d-1) xs = some (p.1, p.2) by rw [h'])
            simp [h'] at h; simp_all; omega
      · cases h' : scan o c d xs with
        | none => simp [h'] at h
        | some p =>
          have := ih _ _ _ (show scan o c d xs = some (p.1, p.2) by rw [h'])
          simp [h'] at h; simp_all; omega

/-- `_parse_modification` after `self.position += 1` (the opening bracket has been skipped):
scan to the matching bracket, optional `^digits` multiplier (`int('')` is a ValueError), `Mod(text, mult)` -/
def parseModBody (o c : Char) (s : List Char) : Except Err (Mod × List Char) :=
  match scan o c 1 s with
  | none => .error .format
  | some (body, rest) =>
    match rest with
    | '^' :: r =>
      if r.takeWhile Char.isDigit = [] then .error .value
      else if Nat.ofDigitChars 10 (r.takeWhile Char.isDigit) 0 < 1 then .error .format   -- `^0` (fix 0b351bb)
      else .ok (⟨convertType body, Int.ofNat (Nat.ofDigitChars 10 (r.takeWhile Char.isDigit) 0)⟩,
                r.dropWhile Char.isDigit)
    | _ => .ok (⟨convertType body, 1⟩, rest)

theorem dropWhile_length_le {α} (p : α → Bool) (l : List α) : (l.dropWhile p).length ≤ l.length := by
  induction l with
  | nil => simp
  | cons x xs ih => simp only [List.dropWhile]; split <;> simp <;> omega

theorem parseModBody_length (o c : Char) (s : List Char) (m : Mod) (r : List Char)
    (h : parseModBody o c s = .ok (m, r)) : r.length < s.length := by
  unfold parseModBody at h
  split at h
  · simp at h
  · rename_i body rest hs
    have hl := scan_length _ _ _ _ _ _ hs
    split at h
    · rename_i r'
      split at h
      · simp at h
      · split at h
        · simp at h
        · simp only [Except.ok.injEq, Prod.mk.injEq] at h
          have := dropWhile_length_le Char.isDigit r'
          rw [← h.2]; simp at hl; omega
    · simp only [Except.ok.injEq, Prod.mk.injEq] at h
      rw [← h.2]; exact hl

/-- `_parse_modifications`: while not at the end and the current character is the opening bracket -/
def parseMods (o c : Char) (s : List Char) : Except Err (List Mod × List Char) :=
  match s with
  | [] => .ok ([], [])
  | x :: xs =>
    if x = o then
      match h : parseModBody o c xs with
      | .error e => .error e
      | .ok (m, rest) =>
        have : rest.length < (x :: xs).length := by
          have := parseModBody_length _ _ _ _ _ h; simp; omega
        match parseMods o c rest with
        | .error e => .error e
        | .ok (ms, rest') => .ok (m :: ms, rest')
    else .ok ([], x :: xs)
termination_by s.length

theorem parseMods_length (o c : Char) (s : List Char) (ms : List Mod) (r : List Char)
    (h : parseMods o c s = .ok (ms, r)) : r.length ≤ s.length := by
  induction hn : s.length using Nat.strongRecOn generalizing s ms r with
  | _ n ih =>
    rw [parseMods.eq_def] at h
    split at h
    · simp at h; simp [h.2]
    · rename_i x xs
      subst hn
      split at h
      · split at h
        · simp at h
        · rename_i m rest hb
          have h1 := parseModBody_length _ _ _ _ _ hb
          split at h
          · simp at h
          · rename_i ms' rest' hr
            have h2 := ih rest.length (by simp; omega) rest ms' rest' hr rfl
            simp only [Except.ok.injEq, Prod.mk.injEq] at h
            rw [← h.2]; simp; omega
      · simp only [Except.ok.injEq, Prod.mk.injEq] at h
        rw [← h.2]; simp

/-- a bracket group at the cursor is consumed: strict progress -/
theorem parseMods_length_lt (o c : Char) (s : List Char) (ms : List Mod) (r : List Char)
    (ho : s.head? = some o) (h : parseMods o c s = .ok (ms, r)) : r.length < s.length := by
  cases s with
  | nil => simp at ho
  | cons x xs =>
    simp only [List.head?_cons, Option.some.injEq] at ho
    subst ho
    rw [parseMods] at h
    simp only [↓reduceIte] at h
    split at h
    · simp at h
    · rename_i m rest hb
      have h1 := parseModBody_length _ _ _ _ _ hb
      split at h
      · simp at h
      · rename_i ms' rest' hr
        have h2 := parseMods_length _ _ _ _ _ hr
        simp only [Except.ok.injEq, Prod.mk.injEq] at h
        rw [← h.2]; simp; omega

/-! ### accumulators (`_add_*`) -/

/-- `if self._x is None: self._x = []` then `extend` -/
def addMods (cur : Option (List Mod)) (mods : List Mod) : Option (List Mod) :=
  some (cur.getD [] ++ mods)

/-- extend the list stored under `k`, creating the entry at the end (dict insertion order) -/
def dictExtend (k : Int) (mods : List Mod) : List (Int × List Mod) → List (Int × List Mod)
  | [] => [(k, mods)]
  | (k', v) :: t => if k' = k then (k', v ++ mods) :: t else (k', v) :: dictExtend k mods t

/-- `_add_internal_mod`: position `len(self._amino_acids) - 1` (−1 before the first residue) -/
def addInternal (a : Annotation) (mods : List Mod) : Annotation :=
  { a with internal := some (dictExtend (Int.ofNat a.seq.length - 1) mods (a.internal.getD [])) }

def addInterval (a : Annotation) (iv : Interval) : Annotation :=
  { a with intervals := some (a.intervals.getD [] ++ [iv]) }

/-- the `<…>` branch of `_parse_sequence_start`: static when the text contains `@`, isotope otherwise;
a multiplier above 1 is a ValueError re-raised as ProFormaFormatError;
a numeric value: `'@' in 13` is a TypeError before the fix, a ProFormaFormatError after it -/
def addGlobals (fixed : Bool) (a : Annotation) : List Mod → Except Err Annotation
  | [] => .ok a
  | m :: ms =>
    match m.val with
    | .str t =>
      if t.contains '@' then
        if m.mult > 1 then .error .format
        else addGlobals fixed { a with static := addMods a.static [m] } ms
      else
        if m.mult > 1 then .error .format
        else addGlobals fixed { a with isotope := addMods a.isotope [m] } ms
    | _ => .error (if fixed then .format else .type)

/-! ### `_parse_sequence_start` -/

def parseStart (fixed : Bool) (a : Annotation) (s : List Char) : Except Err (Annotation × List Char) :=
  match s with
  | [] => .ok (a, [])
  | cur :: xs =>
    if isAA cur ∨ cur = '(' then .ok (a, cur :: xs)
    else if hc : cur = '[' then
      match h : parseMods '[' ']' (cur :: xs) with
      | .error e => .error e
      | .ok (mods, rest) =>
        match rest with
        | [] => .error (if fixed then .format else .index)
        | nc :: rest' =>
          have : rest'.length < (cur :: xs).length := by
            have := parseMods_length _ _ _ _ _ h; simp at this ⊢; omega
          if nc = '-' then parseStart fixed { a with nterm := addMods a.nterm mods } rest'
          else if nc = '?' then parseStart fixed { a with unknown := addMods a.unknown mods } rest'
          else .error .format
    else if hc : cur = '<' then
      match h : parseMods '<' '>' (cur :: xs) with
      | .error e => .error e
      | .ok (mods, rest) =>
        have : rest.length < (cur :: xs).length :=
          parseMods_length_lt _ _ _ _ _ (by simp [hc]) h
        match addGlobals fixed a mods with
        | .error e => .error e
        | .ok a' => parseStart fixed a' rest
    else if cur = '{' then
      match h : parseModBody '{' '}' xs with
      | .error e => .error e
      | .ok (m, rest) =>
        have : rest.length < (cur :: xs).length := by
          have := parseModBody_length _ _ _ _ _ h; simp; omega
        parseStart fixed { a with labile := addMods a.labile [m] } rest
    else .error .format
termination_by s.length

/-! ### `_parse_sequence_middle` -/

/-- `dummy` = the open interval `[start, None, ambiguous, None]`, if any.
Since fix 0b351bb the phase rejects (ProFormaFormatError): a bracket group before the first residue, a `-` without a
modification, an interval that is still open when the phase ends, an empty interval. -/
def parseMiddle (a : Annotation) (dummy : Option (Int × Bool)) (s : List Char) :
    Except Err (Annotation × List Char) :=
  match s with
  | [] => if dummy.isSome then .error .format else .ok (a, [])
  | cur :: xs =>
    if isAA cur then parseMiddle { a with seq := a.seq ++ [cur] } dummy xs
    else if hc : cur = '[' then
      if a.seq = [] then .error .format
      else
      match h : parseMods '[' ']' (cur :: xs) with
      | .error e => .error e
      | .ok (mods, rest) =>
        have : rest.length < (cur :: xs).length :=
          parseMods_length_lt _ _ _ _ _ (by simp [hc]) h
        parseMiddle (addInternal a mods) dummy rest
    else if cur = '-' then
      if dummy.isSome then .error .format
      else
      match parseMods '[' ']' xs with
      | .error e => .error e
      | .ok (mods, rest) =>
        if mods = [] then .error .format
        else .ok ({ a with cterm := addMods a.cterm mods }, rest)
    else if cur = '/' ∨ cur = '+' then
      if dummy.isSome then .error .format else .ok (a, cur :: xs)
    else if cur = '(' then
      match dummy with
      | some _ => .error .format
      | none => parseMiddle a (some (Int.ofNat a.seq.length, false)) xs
    else if cur = ')' then
      match dummy with
      | none => .error .format
      | some (st, amb) =>
        if st = Int.ofNat a.seq.length then .error .format
        else if hb : xs.head? = some '[' then
          match h : parseMods '[' ']' xs with
          | .error e => .error e
          | .ok (mods, rest) =>
            have : rest.length < (cur :: xs).length := by
              have := parseMods_length_lt _ _ _ _ _ hb h; simp; omega
            parseMiddle (addInterval a ⟨st, Int.ofNat a.seq.length, amb, some mods⟩) none rest
        else parseMiddle (addInterval a ⟨st, Int.ofNat a.seq.length, amb, none⟩) none xs
    else if cur = '?' then
      match dummy with
      | none => .error .format
      | some (st, _) => parseMiddle a (some (st, true)) xs
    else .error .format
termination_by s.length

/-! ### `_parse_integer` and `_parse_sequence_end` -/

/-- the span accepted by `_parse_integer`: signs are accepted only before the first digit -/
def intSpan : Nat → List Char → List Char × List Char
  | _, [] => ([], [])
  | n, c :: r =>
    if c.isDigit then
      let p := intSpan (n + 1) r
      (c :: p.1, p.2)
    else if n = 0 ∧ (c = '+' ∨ c = '-') then
      let p := intSpan 0 r
      (c :: p.1, p.2)
    else ([], c :: r)

theorem intSpan_length (n : Nat) (s : List Char) : (intSpan n s).2.length ≤ s.length := by
  induction s generalizing n with
  | nil => simp [intSpan]
  | cons c r ih =>
    simp only [intSpan]
    split
    · have := ih (n + 1); simp; omega
    · split
      · have := ih 0; simp; omega
      · simp

def parseInteger (s : List Char) : Except Err (Int × List Char) :=
  match pyInt? (intSpan 0 s).1 with
  | some i => .ok (i, (intSpan 0 s).2)
  | none => .error .value

theorem parseInteger_length (s : List Char) (i : Int) (r : List Char) (h : parseInteger s = .ok (i, r)) :
    r.length ≤ s.length := by
  unfold parseInteger at h
  split at h
  · simp only [Except.ok.injEq, Prod.mk.injEq] at h
    rw [← h.2]; exact intSpan_length 0 s
  · simp at h

/-- returns the annotation, `self._current_connection`, the remaining input -/
def parseEnd (a : Annotation) (conn : Option Bool) (s : List Char) :
    Except Err (Annotation × Option Bool × List Char) :=
  match s with
  | [] => .ok (a, conn, [])
  | cur :: xs =>
    if cur = '/' then
      if xs.head? = some '/' then .ok (a, some true, xs.tail)
      else
        match h : parseInteger xs with
        | .error e => .error e
        | .ok (ch, rest) =>
          have hr : rest.length ≤ xs.length := parseInteger_length _ _ _ h
          if rest.head? = some '[' then
            match h2 : parseMods '[' ']' rest with
            | .error e => .error e
            | .ok (mods, rest') =>
              have : rest'.length < (cur :: xs).length := by
                have := parseMods_length _ _ _ _ _ h2; simp; omega
              if mods.any (fun m => m.mult > 1) then .error .value
              else parseEnd { a with charge := some ch, adducts := addMods a.adducts mods } conn rest'
          else
            have : rest.length < (cur :: xs).length := by simp; omega
            parseEnd { a with charge := some ch } conn rest
    else if cur = '+' then .ok (a, some false, xs)
    else .error .format
termination_by s.length

/-! ### the chain loop and `parse` -/

/-- `_ProFormaParser.parse`: one `(annotation, connection)` per chain. The progress test stands for the
Python `while` (an iteration that consumed nothing would repeat forever). -/
def parseChains (fixed : Bool) (conn : Option Bool) (s : List Char) :
    Except Err (List (Annotation × Option Bool)) :=
  match s with
  | [] => .ok []
  | c :: cs =>
    match parseStart fixed { seq := [] } (c :: cs) with
    | .error e => .error e
    | .ok (a1, r1) =>
      match parseMiddle a1 none r1 with
      | .error e => .error e
      | .ok (a2, r2) =>
        match parseEnd a2 conn r2 with
        | .error e => .error e
        | .ok (a3, conn', r3) =>
          if _h : r3.length < (c :: cs).length then
            match parseChains fixed conn' r3 with
            | .error e => .error e
            | .ok l => .ok ((a3, conn') :: l)
          else .error .hang
termination_by s.length

inductive Parsed where
  | single (a : Annotation)
  | multi (as : List Annotation) (conns : List (Option Bool))
  deriving DecidableEq, Repr, Inhabited

/-- `_is_unmodified` -/
def isUnmodified (s : List Char) : Bool := s.all isAA

/-- `peptacular.parse` -/
def parse (fixed : Bool) (s : List Char) : Except Err Parsed :=
  if isUnmodified s then .ok (.single { seq := s })
  else
    match parseChains fixed none s with
    | .error e => .error e
    | .ok l =>
      match l with
      | [(a, _)] => .ok (.single a)
      | _ => .ok (.multi (l.map (·.1)) ((l.map (·.2)).dropLast))

end Pept
