import PeptVerif.Model.AnnotEq
import PeptVerif.Model.ModDict
import PeptVerif.Model.Combinatoric
/-!
Combinators used ONLY by the mechanically generated reading of the equality / dictionary functions
(`Generated/EqCorePy.lean`, written by harness/translate_eqcore.py) for source forms that differ from the current code:
they give a changed source a well-typed definition that is *not* equal to the hand model, so the equality theorem
of `Props/C20Gen.lean` that names the function breaks. The forms of the current source use the combinators of the hand
model itself (`msEq`, `optSeg`, `idxSeg`, `internalKeys`, `getInternal`). Mathlib-free.
-/
namespace Pept

/-- `set(a) == set(b)` for elements compared with `r` -/
def setEq {α : Type} (r : α → α → Bool) (a b : List α) : Bool :=
  a.all (fun x => b.any (r x)) && b.all (fun x => a.any (r x))

/-- a dictionary entry kept under a truthiness test (`if v`) instead of `if v is not None` -/
def optSegTruthy {β : Type} (k : DKey) (f : β → DVal) (truthy : β → Bool) : Option β → ModDict
  | none => []
  | some x => if truthy x then [(k, f x)] else []

def truthyList {γ : Type} (l : List γ) : Bool := !l.isEmpty
def truthyInt (i : Int) : Bool := i != 0

end Pept
