import PeptVerif.Model.Annotation
import PeptVerif.Model.AnnotEq
import PeptVerif.Model.ModDict
/-!
Model of the combinatorial expansions (C19): `ProFormaAnnotation.permutations / product / combinations /
combinations_with_replacement`, `split`, the one-residue case of `slice` (proforma_parser.py) and own
definitions of the four `itertools` enumerations in `itertools` order. Mathlib-free.

The Python code is
```
start = self.serialize_start(); end = self.serialize_end()
residues = self.copy(); mods = residues.pop_mods(); residues._internal_mods = mods.get('internal')
components = [a.serialize() for a in residues.split()]
return [parse(start + ''.join(i) + end) for i in itertools.<enum>(components, size)]
```
`parse(start + … + end)` is modelled by its effect on annotations (`assemble`): labile/static/isotope/unknown/
N-term come back from `start`, C-term/charge/adducts from `end`, the sequence and the internal mods from the
joined components. What the text round trip normalises is modelled (`normList`, `normMult`: an
empty list is not written, a multiplier ≤ 1 is not written, charge 0 is not written); the parser itself is
modelled elsewhere (C01). Intervals are popped and never come back.
-/
namespace Pept

/-! ### itertools -/

/-- `itertools.product(l, repeat=k)` -/
def prodK : Nat → List α → List (List α)
  | 0, _ => [[]]
  | k + 1, l => l.flatMap fun x => (prodK k l).map (x :: ·)

/-- every way of taking one element out of a list: (element, the others in order), by position -/
def picks : List α → List (α × List α)
  | [] => []
  | x :: xs => (x, xs) :: (picks xs).map fun p => (p.1, x :: p.2)

/-- `itertools.permutations(l, k)` -/
def permsK : Nat → List α → List (List α)
  | 0, _ => [[]]
  | k + 1, l => (picks l).flatMap fun p => (permsK k p.2).map (p.1 :: ·)

/-- `itertools.combinations(l, k)` -/
def combsK : Nat → List α → List (List α)
  | 0, _ => [[]]
  | _ + 1, [] => []
  | k + 1, x :: xs => (combsK k xs).map (x :: ·) ++ combsK (k + 1) xs

/-- `itertools.combinations_with_replacement(l, k)`: recursion on the list, inner recursion on `k` -/
def cwrAux (x : α) (tail : Nat → List (List α)) : Nat → List (List α)
  | 0 => [[]]
  | k + 1 => (cwrAux x tail k).map (x :: ·) ++ tail (k + 1)

def cwrL : List α → Nat → List (List α)
  | [] => fun k => if k = 0 then [[]] else []
  | x :: xs => cwrAux x (cwrL xs)

def cwrK (k : Nat) (l : List α) : List (List α) := cwrL l k

/-! ### split -/

/-- `has_mods()` -/
def hasMods (a : Annotation) : Bool :=
  a.isotope.isSome || a.static.isSome || a.labile.isSome || a.unknown.isSome || a.nterm.isSome ||
  a.cterm.isSome || a.internal.isSome || a.intervals.isSome || a.charge.isSome || a.adducts.isSome

/-- `slice(i, i+1)` for `0 ≤ i < len`, on annotations without intervals (the interval clipping of `slice` belongs to
C07/C11 and is outside this model: property C19 excludes intervals, and the expansions pop them before splitting) -/
def sliceOne (a : Annotation) (i : Nat) : Annotation :=
  let newSeq := (a.seq.drop i).take 1
  if !hasMods a then { seq := newSeq }
  else
    let lo : Int := i
    let hi : Int := i + 1
    let ni := a.internal.map fun d => d.filterMap fun p =>
      if lo ≤ p.1 ∧ p.1 < hi then some (p.1 - lo, p.2) else none
    { a with seq := newSeq, internal := ni,
             nterm := if i > 0 then none else a.nterm,
             cterm := if i + 1 < a.seq.length then none else a.cterm }

/-- `split()`: every piece is `slice(i, i+1)`; the labile mods stay on the first piece only
(`if i != 0 or not labile_mods: s.pop_labile_mods()`) -/
def split (a : Annotation) : List Annotation :=
  let labTruthy : Bool := match a.labile with
    | some (_ :: _) => true
    | _ => false
  (List.range a.seq.length).map fun i =>
    let s := sliceOne a i
    if i != 0 || !labTruthy then { s with labile := none } else s

/-! ### serialise / parse round trip on the parts that matter here -/

/-- `Mod.serialize` writes `^mult` only when `mult > 1`; the parser reads a missing multiplier as 1 -/
def normMult (m : Mod) : Mod := { m with mult := if m.mult > 1 then m.mult else 1 }

/-- a list that is None or empty is not written and reads back as None -/
def normList : Option (List Mod) → Option (List Mod)
  | none => none
  | some [] => none
  | some l => some (l.map normMult)

/-- what `serialize_middle` writes for an annotation without intervals: each residue with its own mods -/
def residues (a : Annotation) : List (Char × List Mod) :=
  a.seq.zipIdx.map fun p => (p.1, (getInternal a (p.2 : Int)).getD [])

/-- internal-mod dict that the parser builds from a list of residues (position ↦ non-empty mod list) -/
def internalOf (rs : List (Char × List Mod)) : Option (List (Int × List Mod)) :=
  let ents := rs.zipIdx.filterMap fun p => if p.1.2.isEmpty then none else some ((p.2 : Int), p.1.2.map normMult)
  if ents.isEmpty then none else some ents

/-- `parse(start + ''.join(components) + end)` where `start`/`end` were serialised from `w` -/
def assemble (w : Annotation) (comps : List (List (Char × List Mod))) : Annotation :=
  let rs := comps.flatten
  { seq := rs.map (·.1)
    isotope := normList w.isotope
    static := normList w.static
    labile := normList w.labile
    unknown := normList w.unknown
    nterm := normList w.nterm
    cterm := normList w.cterm
    internal := internalOf rs
    intervals := none
    charge := w.charge
    adducts := normList w.adducts }

/-- `residues` after `mods = residues.pop_mods(); residues._internal_mods = mods.get('internal')` -/
def afterPop (a : Annotation) : Annotation := { seq := a.seq, internal := a.internal }

/-- `[a.serialize() for a in self.split()]` on the popped object -/
def components (a : Annotation) : List (List (Char × List Mod)) := (split (afterPop a)).map residues

/-- `size = len(self) if size is None` -/
def sizeOf (a : Annotation) (size : Option Nat) : Nat := size.getD a.seq.length

def permutations (a : Annotation) (size : Option Nat) : List Annotation :=
  (permsK (sizeOf a size) (components a)).map (assemble a)

def product (a : Annotation) (rep : Option Nat) : List Annotation :=
  (prodK (sizeOf a rep) (components a)).map (assemble a)

def combinations (a : Annotation) (size : Option Nat) : List Annotation :=
  (combsK (sizeOf a size) (components a)).map (assemble a)

def combinationsWithReplacement (a : Annotation) (size : Option Nat) : List Annotation :=
  (cwrK (sizeOf a size) (components a)).map (assemble a)

/-- a present list is non-empty and every multiplier is ≥ 1 -/
def okList (o : Option (List Mod)) : Bool :=
  match o with
  | none => true
  | some l => !l.isEmpty && l.all (fun m => m.mult ≥ 1)

def okInternal (a : Annotation) : Bool :=
  match a.internal with
  | none => true
  | some d => d.all (fun p => 0 ≤ p.1 && p.1 < a.seq.length && !p.2.isEmpty && p.2.all (fun m => m.mult ≥ 1)) &&
              decide (d.map (·.1)).Nodup

/-- adducts are only written behind a charge (`/2[+Na+]`); the charge itself is written whenever it is set (0 included) -/
def okCharge (a : Annotation) : Bool :=
  match a.charge with
  | some _ => true
  | none => a.adducts.isNone

/-- inputs on which `assemble` is a faithful reading of serialise-then-parse: every present list non-empty,
multipliers ≥ 1, adducts only together with a charge, internal keys inside the sequence and
unique. (Mod *values* must in addition survive the text round trip - the parser's concern, C01.) -/
def expandDomain (a : Annotation) : Bool :=
  okList a.isotope && okList a.static && okList a.labile && okList a.unknown && okList a.nterm && okList a.cterm &&
  okList a.adducts && okCharge a && okInternal a && decide (a.seq.length ≥ 1)

end Pept
