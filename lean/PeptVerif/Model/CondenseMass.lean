import PeptVerif.Model.AbsMass
/-!
Model of `mass_calc.condense_to_mass_mods` (C18), Mathlib-free, as the function is written after the repair
`fix: condense_to_mass_mods counted charge, adducts, unknown-position, interval and terminal static mods once per residue`:

0. (second repair `fix: … isotope-label shift of the terminal H and OH once per residue`) the label shift of the
   terminal H and OH is taken off every piece and added once to the terminal sums,
1. static rules are written out (`condense_static_mods(inplace=False)`, a copy),
2. charge, adducts, unknown-position mods, intervals, terminal and labile mods are popped,
3. the rest is split into one-residue pieces; piece `i` gets `round(mass(piece) - mass(stripped piece), precision)`
   when the absolute difference exceeds 1e-6,
4. terminal / labile / unknown / interval mods are replaced by their rounded sums, charge and adducts restored,
5. the result is serialised.

`round(x, p)` is round-half-even on the rational. A sum of Python ints stays an int (printed without `.0`).
-/
namespace Pept
namespace CondenseMass
open Static AbsMass

/-! ### rounding -/

def pow10 (p : Nat) : Nat := 10 ^ p

/-- round-half-even of a rational to an integer -/
def roundHalfEven (x : Rat) : Int :=
  let f := x.floor
  let r := x - f
  if r < 1/2 then f
  else if r > 1/2 then f + 1
  else if f % 2 = 0 then f else f + 1

/-- `round(x, p)` as the integer numerator over `10^p` -/
def roundNum (x : Rat) (p : Nat) : Int := roundHalfEven (x * (pow10 p : Nat))

def roundTo (x : Rat) (p : Nat) : Rat := (roundNum x p : Rat) / (pow10 p : Nat)

/-! ### printing a rounded value the way `repr(float)` does (positional range) -/

def padLeft (l : List Char) (n : Nat) : List Char := List.replicate (n - l.length) '0' ++ l

/-- text of `k / 10^p`: trailing zeros of the fraction dropped, at least one fraction digit -/
def decText (k : Int) (p : Nat) : List Char :=
  let n := k.natAbs
  let ip := (toString (n / pow10 p)).toList
  let fr := dropTrailingZeros (padLeft (toString (n % pow10 p)).toList p)
  (if k < 0 then ['-'] else []) ++ ip ++ ['.'] ++ (match fr with | [] => ['0'] | l => l)

def allInt (l : List Mod) : Bool := l.all fun m => match m.val with | .int _ => true | _ => false

def intSum : List Mod → Int
  | [] => 0
  | m :: r => (match m.val with | .int i => i * m.mult | _ => 0) + intSum r

/-- a number as the function writes it: a Python int, or a float that is `k / 10^p` after `round(x, p)` -/
inductive Num where
  | int (i : Int)
  | dec (k : Int)
  deriving DecidableEq, Repr, Inhabited

def Num.toVal (p : Nat) : Num → ModVal
  | .int i => .int i
  | .dec k => .flt (decText k p)

def Num.toRat (p : Nat) : Num → Rat
  | .int i => i
  | .dec k => (k : Rat) / (pow10 p : Nat)

def Num.toMods (p : Nat) (n : Num) : List Mod := [⟨n.toVal p, 1⟩]

/-- `round(sum(mod_mass(mod) for mod in mods), precision)` -/
def roundedSum (E : Env) (l : List Mod) (p : Nat) : Num :=
  if allInt l then .int (intSum l) else .dec (roundNum (sumMods E l) p)

def absQ (x : Rat) : Rat := if x < 0 then -x else x

/-- the 1e-6 "insignificant difference" cut-off -/
def threshold : Rat := 1 / 1000000

/-! ### the function -/

/-- the annotation after steps 1–2 (everything that is not residue-bound taken off) -/
def core (c : Annotation) : Annotation :=
  { c with charge := none, adducts := none, unknown := none, intervals := none, nterm := none,
           cterm := none, labile := none }

def stripped (a : Annotation) : Annotation := { seq := a.seq }

/-- `mass(segment) - mass(stripped)` for one piece -/
def pieceDiff (E : Env) (piece : Annotation) : Except Err Rat :=
  match massOf E piece, massOf E (stripped piece) with
  | .ok m, .ok s => .ok (m - s)
  | .error e, _ => .error e
  | _, .error e => .error e

/-- label shift of a terminal group: `chem_mass(apply_isotope_mods_to_composition(comp, labels)) - chem_mass(comp)` -/
def termLabelShift (E : Env) (comp : Comp) : Option (List Mod) → Except Err Rat
  | none => .ok 0
  | some l =>
    match parseIsotopeMods E.knownLabel l with
    | .error e => .error e
    | .ok lm => .ok (chemMass E.em (relabel comp lm) - chemMass E.em comp)

/-- the loop: `(index, numerator of the rounded shift)` for every piece whose difference (terminal label shifts `t`
taken off) is significant -/
def pieceShifts (E : Env) (p : Nat) (t : Rat) : List Annotation → Nat → Except Err (List (Nat × Int))
  | [], _ => .ok []
  | piece :: r, i =>
    match pieceDiff E piece with
    | .error e => .error e
    | .ok d0 =>
      match pieceShifts E p t r (i + 1) with
      | .error e => .error e
      | .ok rest =>
        if absQ (d0 - t) > threshold then .ok ((i, roundNum (d0 - t) p) :: rest)
        else .ok rest

/-- a terminus: the rounded sum of its mods, plus the label shift of its H / OH when that is significant -/
def termNum (E : Env) (p : Nat) (mods : Option (List Mod)) (shift : Rat) : Option Num :=
  if absQ shift > threshold then some (.dec (roundNum (sumMods E (mods.getD []) + shift) p))
  else mods.map fun l => roundedSum E l p

/-- everything the function writes, as numbers -/
structure Shifts where
  internal : List (Nat × Int)
  nterm : Option Num
  cterm : Option Num
  labile : Option Num
  unknown : Option Num
  /-- one entry per interval of the input, `none` for an interval without mods -/
  intervals : Option (List (Interval × Option Num))
  deriving Repr

/-- steps 0–4 on the condensed annotation `c` -/
def shiftsOf (E : Env) (c : Annotation) (p : Nat) : Except Err Shifts :=
  match termLabelShift E E.ntermComp c.isotope, termLabelShift E E.ctermComp c.isotope with
  | .error e, _ => .error e
  | _, .error e => .error e
  | .ok nts, .ok cts =>
    match pieceShifts E p (nts + cts) (splitPieces (core c)) 0 with
    | .error e => .error e
    | .ok shifts =>
      .ok { internal := shifts,
            nterm := termNum E p c.nterm nts,
            cterm := termNum E p c.cterm cts,
            labile := c.labile.map fun l => roundedSum E l p,
            unknown := c.unknown.map fun l => roundedSum E l p,
            intervals := c.intervals.map fun l => l.map fun iv => (iv, iv.mods.map fun ms => roundedSum E ms p) }

/-- the output annotation: every number becomes one modification with multiplier 1 -/
def render (c : Annotation) (s : Shifts) (p : Nat) : Annotation :=
  { seq := c.seq,
    internal := (match s.internal with
                 | [] => none
                 | l => some (l.map fun q => (Int.ofNat q.1, (Num.dec q.2).toMods p))),
    nterm := s.nterm.map (Num.toMods p),
    cterm := s.cterm.map (Num.toMods p),
    labile := s.labile.map (Num.toMods p),
    unknown := s.unknown.map (Num.toMods p),
    intervals := s.intervals.map fun l => l.map fun q => { q.1 with mods := q.2.map (Num.toMods p) },
    charge := c.charge,
    adducts := c.adducts }

/-- `new_annotation` just before it is serialised -/
def condenseToMassAnn (E : Env) (a : Annotation) (p : Nat) : Except Err Annotation :=
  match condenseStatic a with
  | .error e => .error e
  | .ok c =>
    match shiftsOf E c p with
    | .error e => .error e
    | .ok s => .ok (render c s p)

/-- `condense_to_mass_mods(annotation, include_plus, precision)` -/
def condenseToMass (E : Env) (a : Annotation) (plus : Bool) (p : Nat) : Except Err (List Char) :=
  match condenseToMassAnn E a p with
  | .error e => .error e
  | .ok n => .ok (serialize n plus)

end CondenseMass
end Pept
