import PeptVerif.Model.ModDb
/-!
The dispatch chains of `_parse_mod_mass` / `_parse_mod_comp` as separate functions: which branch a (tag-free, non-numeric)
alternative takes (`massBranch`, `compBranch`) and what each branch does (`runMassBranch`, `runCompBranch`).
`Lemmas/ModDbBranch.lean` proves that `parseModMass` / `parseModComp` are exactly these two stages; the generated module
`Generated/ModDbPy.lean` contains the same chains translated mechanically from the Python source. Mathlib-free.
-/
namespace ModDb
open Formula

inductive Branch
  | glycan | gno | xlmod | resid | skip | psi | unimod | formula | obs | none
deriving DecidableEq, Repr

def Branch.name : Branch → String
  | .glycan => "glycan" | .gno => "gno" | .xlmod => "xlmod" | .resid => "resid" | .skip => "skip" | .psi => "psi"
  | .unimod => "unimod" | .formula => "formula" | .obs => "obs" | .none => "none"

/-- the `if … return` chain of `_parse_mod_mass` after `mod_lower = mod.lower()` -/
def massBranch (T : Tables) (m : Str) : Branch :=
  if startsWith (lower m) (str% "glycan:") then .glycan
  else if hasPrefix pGno m then .gno
  else if hasPrefix pXlmod m then .xlmod
  else if hasPrefix pResid m then .resid
  else if startsWith (lower m) (str% "info:") then .skip
  else if isDbStr pPsi T.psimod m then .psi
  else if isDbStr pUnimod T.unimod m then .unimod
  else if startsWith (lower m) (str% "formula:") then .formula
  else if startsWith (lower m) (str% "obs:") then .obs
  else .none

def runMassBranch (T : Tables) (m : Str) (mono : Bool) : Branch → Except Err (Option Mass)
  | .glycan => glycanMassProforma T m mono
  | .gno => (getMass T T.gno (stripPrefix pGno m) mono).map some
  | .xlmod => (getMass T T.xlmod (stripPrefix pXlmod m) mono).map some
  | .resid => (getMass T T.resid (stripPrefix pResid m) mono).map some
  | .skip => .ok none
  | .psi => (getMass T T.psimod (stripPrefix pPsi m) mono).map some
  | .unimod => (getMass T T.unimod (stripPrefix pUnimod m) mono).map some
  | .formula => (chemMassProforma T m mono).map some
  | .obs => (obsMassProforma m).map some
  | .none => .ok none

/-- the chain of `_parse_mod_comp` (note: `obs:` is tested BEFORE the vocabularies here, and skips) -/
def compBranch (T : Tables) (m : Str) : Branch :=
  if startsWith (lower m) (str% "glycan:") then .glycan
  else if hasPrefix pGno m then .gno
  else if hasPrefix pXlmod m then .xlmod
  else if hasPrefix pResid m then .resid
  else if startsWith (lower m) (str% "info:") then .skip
  else if startsWith (lower m) (str% "obs:") then .skip
  else if isDbStr pPsi T.psimod m then .psi
  else if isDbStr pUnimod T.unimod m then .unimod
  else if startsWith (lower m) (str% "formula:") then .formula
  else .none

def runCompBranch (T : Tables) (m : Str) : Branch → Except Err (Option Comp)
  | .glycan => (glycanCompProforma T m).map some
  | .gno => dbComp T.gno pGno m
  | .xlmod => dbComp T.xlmod pXlmod m
  | .resid => dbComp T.resid pResid m
  | .skip => .ok none
  | .psi => dbComp T.psimod pPsi m
  | .unimod => dbComp T.unimod pUnimod m
  | .formula => (parseChem ((splitColon1 m).getD []) []).map some
  | .obs => .ok none
  | .none => .ok none

end ModDb
