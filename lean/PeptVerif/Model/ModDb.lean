import PeptVerif.Model.Formula
/-!
Model of `mods/mod_db.py` (is_*_str, _strip_*_str, _get_mass, _get_comp, parse_*_mass/comp),
`mass_calc.py` (mod_mass, _parse_mod_mass, _parse_glycan_mass_from_proforma_str, _parse_chem_mass_from_proforma_str,
_parse_obs_mass_from_proforma_str) and `chem/chem_calc.py` (mod_comp, _parse_mod_comp, _parse_glycan_comp,
glycan_to_chem) — branch for branch, as the code is. `precision` is always `None`.
Mathlib-free.
-/
namespace ModDb
open Formula

/-- all tables the resolvers read -/
structure Tables where
  unimod : List Entry
  psimod : List Entry
  xlmod : List Entry
  resid : List Entry      -- RESID_DB (not loaded at import: empty)
  gno : List Entry        -- GNO_DB (not loaded at import: empty)
  mono : List Entry       -- MONOSACCHARIDES_DB (with synonym index)
  mass : MassTable

/-- a Python mass result: finite number, or inf / nan (opaque) -/
abbrev Mass := Option Rat

def startsWith (s p : Str) : Bool := p.isPrefixOf s

/-! ### prefixes -/

def pUnimod : List Str := [str% "unimod:", str% "u:"]
def pPsi : List Str := [str% "mod:", str% "m:", str% "psi-mod:"]
def pXlmod : List Str := [str% "xlmod:", str% "x:"]
def pResid : List Str := [str% "resid:", str% "r:"]
def pGno : List Str := [str% "gno:", str% "g:"]

/-- `s.lower().startswith(p)` for one of the prefixes -/
def hasPrefix (ps : List Str) (s : Str) : Bool := ps.any (fun p => startsWith (lower s) p)

/-- `s.split(':')[1]` : the text between the first and the second colon (`none` = IndexError, no colon) -/
def splitColon1 (s : Str) : Option Str :=
  match (spanP (· != 58) s).2 with
  | [] => none
  | _ :: r => some (spanP (· != 58) r).1

/-- text after the first colon: `s.split(':', 1)[1]` -/
def afterColon (s : Str) : Option Str :=
  match (spanP (· != 58) s).2 with
  | [] => none
  | _ :: r => some r

/-- `''.join(s.split(':')[1:])` : everything after the first colon with all further colons removed -/
def joinAfterColon (s : Str) : Str :=
  match (spanP (· != 58) s).2 with
  | [] => []
  | _ :: r => r.filter (· != 58)

/-- `_strip_*_str`: `split(':', 1)[1]` (since fix 6511c11; before: `split(':')[1]`, see `stripPrefixOld`) -/
def stripPrefix (ps : List Str) (s : Str) : Str :=
  if hasPrefix ps s then (afterColon s).getD [] else s

/-- `_strip_*_str` as it was before the repair: `split(':')[1]` cuts the key at its second colon -/
def stripPrefixOld (ps : List Str) (s : Str) : Str :=
  if hasPrefix ps s then (splitColon1 s).getD [] else s

/-! ### `_get_mass`, `_get_comp` -/

def findEntry (db : List Entry) (s : Str) : Option Entry :=
  match byId db s with
  | some e => some e
  | none => byName db s

/-- mass stored in the table, else recomputed from the composition (`calc_mono_mass` / `calc_avg_mass`) -/
def entryMass (T : Tables) (e : Entry) (mono : Bool) : Except Err Mass :=
  match (if mono then e.mono else e.avg) with
  | some m => .ok (some m.toRat)
  | none =>
    match e.comp with
    | none => .error .unknownModMass
    | some f =>
      match chemMassStr T.mass mono f [] with
      | .ok m => .ok (some m)
      | .error er => .error er

def getMass (T : Tables) (db : List Entry) (s : Str) (mono : Bool) : Except Err Mass :=
  match s with
  | c :: _ =>
    if c == 43 || c == 45 then
      match parseFloat s with
      | .val r => .ok (some r)
      | .special => .ok none
      | .bad => .error .invalidDeltaMass
    else
      match findEntry db s with
      | none => .error .unknownMod
      | some e => entryMass T e mono
  | [] =>
    match findEntry db s with
    | none => .error .unknownMod
    | some e => entryMass T e mono

def getComp (db : List Entry) (s : Str) : Except Err Str :=
  let look : Except Err Str :=
    match findEntry db s with
    | none => .error .unknownMod
    | some e => match e.comp with
      | none => .error .invalidComp
      | some c => .ok c
  match s with
  | c :: _ =>
    if c == 43 || c == 45 then
      match parseFloat s with
      | .bad => .error .invalidDeltaMass
      | _ => .error .deltaMassComp
    else look
  | [] => look

/-- `is_unimod_str` / `is_psi_mod_str` : prefix, or bare id, or bare name -/
def isDbStr (ps : List Str) (db : List Entry) (s : Str) : Bool :=
  hasPrefix ps s || (byId db s).isSome || (byName db s).isSome

/-! ### glycan / formula / obs -/

def monoLookup (mono : List Entry) (s : Str) : Option Entry :=
  match byId mono s with
  | some e => some e
  | none => match byName mono s with
    | some e => some e
    | none => lookupSyn s mono

/-- `_parse_glycan_mass_from_proforma_str` ; `none` result = Python returned `None` (entry without mass) -/
def glycanMassProforma (T : Tables) (s : Str) (mono : Bool) : Except Err (Option Mass) :=
  let g := if startsWith (lower s) (str% "glycan:") then joinAfterColon s else s
  match monoLookup T.mono g with
  | some e =>
    match (if mono then e.mono else e.avg) with
    | some m => .ok (some (some m.toRat))
    | none => .ok none
  | none =>
    match glycanMassStr T.mono mono g with
    | .ok m => .ok (some (some m))
    | .error e => .error e

def chemMassProforma (T : Tables) (s : Str) (mono : Bool) : Except Err Mass :=
  let f := if startsWith (lower s) (str% "formula:") then joinAfterColon s else s
  match chemMassStr T.mass mono f [] with
  | .ok m => .ok (some m)
  | .error e => .error e

def obsMassProforma (s : Str) : Except Err Mass :=
  let f := if startsWith (lower s) (str% "obs:") then joinAfterColon s else s
  match parseFloat f with
  | .val r => .ok (some r)
  | .special => .ok none
  | .bad => .error .invalidDeltaMass

/-- `mod.split('#')[0]` -/
def beforeHash (s : Str) : Str := (spanP (· != 35) s).1

/-- `_parse_mod_mass` ; `.ok none` = Python `None` (this alternative has no mass) -/
def parseModMass (T : Tables) (m : Str) (mono : Bool) : Except Err (Option Mass) :=
  if m.contains 35 && startsWith m [35] then .ok (some (some 0))
  else
    let m := if m.contains 35 then beforeHash m else m
    match convertType m with
    | .num n => .ok (some (some n.val))
    | .special => .ok (some none)
    | .str =>
      let lw := lower m
      if startsWith lw (str% "glycan:") then glycanMassProforma T m mono
      else if hasPrefix pGno m then (getMass T T.gno (stripPrefix pGno m) mono).map some
      else if hasPrefix pXlmod m then (getMass T T.xlmod (stripPrefix pXlmod m) mono).map some
      else if hasPrefix pResid m then (getMass T T.resid (stripPrefix pResid m) mono).map some
      else if startsWith lw (str% "info:") then .ok none
      else if isDbStr pPsi T.psimod m then (getMass T T.psimod (stripPrefix pPsi m) mono).map some
      else if isDbStr pUnimod T.unimod m then (getMass T T.unimod (stripPrefix pUnimod m) mono).map some
      else if startsWith lw (str% "formula:") then (chemMassProforma T m mono).map some
      else if startsWith lw (str% "obs:") then (obsMassProforma m).map some
      else .ok none

/-- `str.split('|')` -/
def splitBar (s : Str) : List Str := splitOn [124] s

def firstMass (T : Tables) (mono : Bool) : List Str → Except Err Mass
  | [] => .error .invalidModMass
  | a :: r =>
    match parseModMass T a mono with
    | .error e => .error e
    | .ok (some m) => .ok m
    | .ok none => firstMass T mono r

/-- `mod_mass(str)` -/
def modMass (T : Tables) (s : Str) (mono : Bool) : Except Err Mass := firstMass T mono (splitBar s)

/-- `mod_mass(Mod(val, mult))` -/
def modMassMult (T : Tables) (s : Str) (mult : Int) (mono : Bool) : Except Err Mass :=
  (modMass T s mono).map (fun m => m.map (· * (mult : Rat)))

/-! ### compositions -/

/-- `_parse_glycan_comp` -/
def glycanCompProforma (T : Tables) (s : Str) : Except Err Comp :=
  let g := if startsWith (lower s) (str% "glycan:") then joinAfterColon s else s
  match monoLookup T.mono g with
  | some e =>
    match e.comp with
    | none => .error .typeError
    | some f => parseChem f []
  | none =>
    -- parse_chem_formula(write_chem_formula(glycan_comp(glycan_str)))
    match glycanCompStr T.mono g with
    | .error e => .error e
    | .ok c => parseChem (writeChem T.mass.elems c [] false) []

def dbComp (db : List Entry) (ps : List Str) (m : Str) : Except Err (Option Comp) :=
  match getComp db (stripPrefix ps m) with
  | .error e => .error e
  | .ok f => (parseChem f []).map some

/-- `_parse_mod_comp` ; `.ok none` = Python `None` -/
def parseModComp (T : Tables) (m : Str) : Except Err (Option Comp) :=
  match convertType m with
  | .num _ => .ok none
  | .special => .ok none
  | .str =>
    if m.contains 35 && startsWith m [35] then .ok (some [])
    else
      let m := if m.contains 35 then beforeHash m else m
      let lw := lower m
      if startsWith lw (str% "glycan:") then (glycanCompProforma T m).map some
      else if hasPrefix pGno m then dbComp T.gno pGno m
      else if hasPrefix pXlmod m then dbComp T.xlmod pXlmod m
      else if hasPrefix pResid m then dbComp T.resid pResid m
      else if startsWith lw (str% "info:") then .ok none
      else if startsWith lw (str% "obs:") then .ok none
      else if isDbStr pPsi T.psimod m then dbComp T.psimod pPsi m
      else if isDbStr pUnimod T.unimod m then dbComp T.unimod pUnimod m
      else if startsWith lw (str% "formula:") then (parseChem ((splitColon1 m).getD []) []).map some
      else .ok none

def firstComp (T : Tables) : List Str → Except Err Comp
  | [] => .error .invalidComp
  | a :: r =>
    match parseModComp T a with
    | .error e => .error e
    | .ok (some c) => .ok c
    | .ok none => firstComp T r

/-- `mod_comp(str)` -/
def modComp (T : Tables) (s : Str) : Except Err Comp := firstComp T (splitBar s)

/-- `mod_comp(Mod(val, mult))` -/
def modCompMult (T : Tables) (s : Str) (mult : Int) : Except Err Comp :=
  (modComp T s).map (fun c => c.map (fun kv => (kv.1, Num.mul kv.2 (Num.ofInt mult))))

end ModDb
