/-!
# C08 — effect model

An explicit model of *who may write what*.  A Python function body is translated (by `harness/translate_effects.py`,
on every run, from the current source) into a flat list of effect statements over local names.  The model tracks, for every
local name, the set of objects it **may denote** (`top`), the objects those **directly hold** (`kids`: elements, attribute
values) and everything **further below** (`deep`), where the objects are

* `root i`  – the object the caller passed as parameter `i` itself,
* `inner i` – everything reachable strictly below that object (lumped),
* `recd i`  – a *record* (Mod, Interval, Fragment, …) the caller handed in as / below parameter `i`, together with what it
               holds: the translator casts a value to this object (`asRec`) where its static type is a record type.  A write
               to it is a write to parameter `i`; for the no-shared-state clause a record handed in may be handed back,
* `glob g`  – a process-wide object (module-level table, database, the module random generator),
* `loc s`   – an object allocated by the call itself (allocation site `s`).

Every object carries a version counter; a write bumps it.  Control flow is *not* represented: an execution is an arbitrary
**trace** – any sequence of statement indices, in any order, with any repetition, of any length – which covers both branches
of every conditional, every number of loop iterations, early returns and exceptions.  Updates of the name table are weak
(sets only grow), so the semantics is the collecting semantics of the flow-insensitive points-to analysis.

No Mathlib.
-/

namespace Effects

abbrev Var := Nat

inductive Obj where
  | root (i : Nat)
  | inner (i : Nat)
  | recd (i : Nat)
  | recTop (i : Nat)   -- parameter `i` itself where its static type is a record type
  | glob (g : Nat)
  | loc (s : Nat)
  deriving DecidableEq, Repr, Inhabited

/-- the record view of an object: what the caller handed in becomes "a record of parameter i" -/
def toRec : Obj → Obj
  | .root i => .recTop i
  | .inner i => .recd i
  | o => o

/-- records and other objects below the same parameter may be the same concrete object -/
def norm : Obj → Obj
  | .recd i => .inner i
  | .recTop i => .root i
  | o => o

/-- where a callee's return value / stored links come from, relative to the callee's parameters -/
inductive Src where
  | top (j : Nat)      -- the objects argument `j` may denote
  | below (j : Nat)    -- the objects argument `j` may hold or reach
  | recs (j : Nat)     -- what is below argument `j`, seen as records
  | recTop (j : Nat)   -- argument `j` itself, seen as a record
  | fresh              -- an object allocated by the callee
  | glob (g : Nat)
  deriving DecidableEq, Repr, Inhabited

/-- what a call does, as seen from the caller -/
structure Summary where
  writes  : List (Nat × Bool) := []   -- (parameter, `true` = below the object / `false` = the object itself)
  globals : List Nat := []            -- process-wide objects written
  retTop  : List Src := []            -- what the result may denote
  retKids : List Src := []            -- what the result may directly hold
  retDeep : List Src := []            -- what the result may reach further below
  links   : List (Nat × Bool × Src) := []   -- after the call, parameter `j` may hold (`true`) / reach (`false`) `src`
  deriving Repr, Inhabited, DecidableEq

inductive Stmt where
  | param   (x : Var) (i : Nat)                 -- x is bound to parameter i
  | global  (x : Var) (g : Nat)                 -- x refers to the process-wide object g
  | alias   (x : Var) (ys : List Var)           -- x = y / x = y or z / x = a if c else b
  | elem    (x : Var) (y : Var)                 -- x = y.attr / y[k] / for x in y / y.pop()
  | asRec   (x : Var) (y : Var) (d : Nat)       -- x = y where, by its static type, y is a record (d = 0: Mod, Interval,
                                                --   Fragment ...), a container of records (d = 1) or a container of those (d = 2)
  | leaf    (x : Var) (y : Var)                 -- x = y where, by its static type, y holds only immutable values (numbers, strings)
  | fresh   (x : Var)                           -- deep copy, literal, parse result: a new object sharing nothing
  | shallow (x : Var) (ys : List Var)           -- list(y), dict(y), sorted(y), y[:] : new container, same elements
  | pack    (x : Var) (ys : List Var)           -- [a, b], (a, b), C(a, b): new container holding the objects themselves
  | store   (x : Var) (y : Var)                 -- x[k] = y / x.attr = y / x.append(y): writes x, y becomes reachable from x
  | write   (x : Var)                           -- x.pop() / x.sort() / del x[k] / x.clear(): writes x
  | gwrite  (g : Nat)                           -- random.seed(..), write to a module-level table
  | call    (ret : Var) (f : Nat) (args : List (Option Var))   -- executed by the callee's summary
  deriving Repr, Inhabited, DecidableEq

/-- what a name may denote, what those objects may hold directly, what lies further below -/
structure Cell where
  top : List Obj := []
  kids : List Obj := []
  deep : List Obj := []
  deriving Repr, Inhabited, DecidableEq

abbrev Pts := List Cell

def union (a b : List Obj) : List Obj := a ++ b.filter (fun o => !(a.contains o))

def sub (a b : List Obj) : Bool := a.all (fun o => b.contains o)

/-- do the two sets share an object (records and non-records of the same parameter count as possibly the same) -/
def overlaps (a b : List Obj) : Bool := a.any (fun o => b.any (fun o' => norm o == norm o'))

def Pts.get (P : Pts) (x : Var) : Cell := P.getD x {}

/-- apply `f` to the levels at depth `d` and below (0 = the objects themselves, 1 = what they hold, 2 = further below) -/
def Cell.mapFrom (d : Nat) (f : Obj → Obj) (c : Cell) : Cell :=
  { top := if d = 0 then c.top.map f else c.top
    kids := if d ≤ 1 then c.kids.map f else c.kids
    deep := c.deep.map f }

def Cell.join (d c : Cell) : Cell := { top := union d.top c.top, kids := union d.kids c.kids, deep := union d.deep c.deep }

/-- pointwise union at `x` (the table is extended with empty cells if needed) -/
def Pts.add : Pts → Var → Cell → Pts
  | [], 0, c => [Cell.join {} c]
  | [], x + 1, c => {} :: Pts.add [] x c
  | d :: P, 0, c => Cell.join d c :: P
  | d :: P, x + 1, c => d :: Pts.add P x c

def cond (t : Bool) (l : List Obj) : List Obj := if t then l else []

/-- `a` is stored into the objects `tgt`: names denoting a target now hold `a` and reach `b`;
names that hold or reach a target now reach both -/
def linkCell (tgt a b : List Obj) (c : Cell) : Cell :=
  { top := c.top
    kids := union c.kids (cond (overlaps c.top tgt) a)
    deep := union (union c.deep (cond (overlaps c.top tgt) b)) (cond (overlaps (c.kids ++ c.deep) tgt) (a ++ b)) }

def link (P : Pts) (tgt a b : List Obj) : Pts := P.map (linkCell tgt a b)

def argCell (P : Pts) (args : List (Option Var)) (j : Nat) : Cell :=
  match args.getD j none with
  | some v => P.get v
  | none => {}

def sel (P : Pts) (args : List (Option Var)) (ret : Var) : Src → List Obj
  | .top j => (argCell P args j).top
  | .below j => (argCell P args j).kids ++ (argCell P args j).deep
  | .recs j => ((argCell P args j).kids ++ (argCell P args j).deep).map toRec
  | .recTop j => (argCell P args j).top.map toRec
  | .fresh => [.loc ret]
  | .glob g => [.glob g]

def summaryOf (S : List Summary) (f : Nat) : Summary := S.getD f {}

/-- effect of one statement on the name table -/
def step (S : List Summary) : Stmt → Pts → Pts
  | .param x i, P => P.add x { top := [.root i], kids := [.inner i], deep := [.inner i] }
  | .global x g, P => P.add x { top := [.glob g], kids := [.glob g], deep := [.glob g] }
  | .alias x ys, P => ys.foldl (fun Q y => Q.add x (P.get y)) P
  | .elem x y, P => P.add x { top := (P.get y).kids, kids := (P.get y).deep, deep := (P.get y).deep }
  | .asRec x y d, P => P.add x ((P.get y).mapFrom d toRec)
  | .leaf x y, P => P.add x { top := (P.get y).top }
  | .fresh x, P => P.add x { top := [.loc x] }
  | .shallow x ys, P =>
    P.add x { top := [.loc x], kids := ys.flatMap (fun y => (P.get y).kids), deep := ys.flatMap (fun y => (P.get y).deep) }
  | .pack x ys, P =>
    P.add x { top := [.loc x], kids := ys.flatMap (fun y => (P.get y).top),
              deep := ys.flatMap (fun y => (P.get y).kids ++ (P.get y).deep) }
  | .store x y, P => link P (P.get x).top (P.get y).top ((P.get y).kids ++ (P.get y).deep)
  | .write _, P => P
  | .gwrite _, P => P
  | .call ret f args, P =>
    let s := summaryOf S f
    let P1 := s.links.foldl (fun Q l =>
      link Q (argCell P args l.1).top (cond l.2.1 (sel P args ret l.2.2)) (cond (!l.2.1) (sel P args ret l.2.2))) P
    P1.add ret { top := s.retTop.flatMap (sel P args ret), kids := s.retKids.flatMap (sel P args ret),
                 deep := s.retDeep.flatMap (sel P args ret) }

/-- objects whose version one statement bumps -/
def targets (S : List Summary) : Stmt → Pts → List Obj
  | .store x _, P => (P.get x).top
  | .write x, P => (P.get x).top
  | .gwrite g, _ => [.glob g]
  | .call _ f args, P =>
    let s := summaryOf S f
    s.writes.flatMap (fun w => if w.2 then (argCell P args w.1).kids ++ (argCell P args w.1).deep else (argCell P args w.1).top)
      ++ s.globals.map Obj.glob
  | _, _ => []

/-! ## store semantics -/

structure State where
  pts : Pts
  ver : Obj → Nat

def bump (ver : Obj → Nat) (os : List Obj) : Obj → Nat :=
  fun o => if os.contains o then ver o + 1 else ver o

def execStmt (S : List Summary) (s : Stmt) (σ : State) : State :=
  { pts := step S s σ.pts, ver := bump σ.ver (targets S s σ.pts) }

/-- run the statements named by the trace, in that order -/
def execTrace (S : List Summary) (p : List Stmt) : List Nat → State → State
  | [], σ => σ
  | k :: tr, σ =>
    match p[k]? with
    | some s => execTrace S p tr (execStmt S s σ)
    | none => execTrace S p tr σ

/-- a call starts with an empty name table -/
def entry (ver : Obj → Nat) : State := { pts := [], ver := ver }

/-! ## analysis -/

def pass (S : List Summary) (p : List Stmt) (P : Pts) : Pts := p.foldl (fun Q s => step S s Q) P

def iterate (S : List Summary) (p : List Stmt) : Nat → Pts → Pts
  | 0, P => P
  | n + 1, P => iterate S p n (pass S p P)

def analyse (S : List Summary) (p : List Stmt) (fuel : Nat) : Pts := iterate S p fuel []

def cellSub (c d : Cell) : Bool := sub c.top d.top && sub c.kids d.kids && sub c.deep d.deep

/-- `P ⊑ A` on the cells `P` has (cells beyond its length are empty) -/
def leB (P A : Pts) : Bool := (List.range P.length).all (fun z => cellSub (P.get z) (A.get z))

/-- `A` is closed under every statement of `p` -/
def isPost (S : List Summary) (p : List Stmt) (A : Pts) : Bool := p.all (fun s => leB (step S s A) A)

/-- all objects some statement of `p` may bump when the names are bounded by `A` -/
def writeSet (S : List Summary) (p : List Stmt) (A : Pts) : List Obj := p.flatMap (fun s => targets S s A)

/-- one more pass over all statements adds nothing: the table is closed (cheaper to evaluate than `isPost`, and implies it
because every statement only adds to the table) -/
def passClosed (S : List Summary) (p : List Stmt) (A : Pts) : Bool := leB (pass S p A) A

def analysisOK (S : List Summary) (p : List Stmt) (fuel : Nat) : Bool := passClosed S p (analyse S p fuel)

def dedup {α : Type} [DecidableEq α] : List α → List α
  | [] => []
  | a :: l => if a ∈ dedup l then dedup l else a :: dedup l

/-! ### checking a given table (certificate) statement by statement

`closedStmt S s A` decides `step S s A ⊑ A` without building `step S s A`: a statement that only adds a cell at `x` is closed
iff that cell is already within `A.get x`; a store is closed iff no cell of `A` grows under the link.  The translator emits
the table it computed; the kernel only has to check it. -/

def linkClosed (A : Pts) (tgt a b : List Obj) : Bool := A.all (fun c => cellSub (linkCell tgt a b c) c)

def closedStmt (S : List Summary) (s : Stmt) (A : Pts) : Bool :=
  match s with
  | .param x i => cellSub { top := [.root i], kids := [.inner i], deep := [.inner i] } (A.get x)
  | .global x g => cellSub { top := [.glob g], kids := [.glob g], deep := [.glob g] } (A.get x)
  | .alias x ys => ys.all (fun y => cellSub (A.get y) (A.get x))
  | .elem x y => cellSub { top := (A.get y).kids, kids := (A.get y).deep, deep := (A.get y).deep } (A.get x)
  | .asRec x y d => cellSub ((A.get y).mapFrom d toRec) (A.get x)
  | .leaf x y => cellSub { top := (A.get y).top } (A.get x)
  | .fresh x => cellSub { top := [.loc x] } (A.get x)
  | .shallow x ys =>
    cellSub { top := [.loc x], kids := ys.flatMap (fun y => (A.get y).kids), deep := ys.flatMap (fun y => (A.get y).deep) }
      (A.get x)
  | .pack x ys =>
    cellSub { top := [.loc x], kids := ys.flatMap (fun y => (A.get y).top),
              deep := ys.flatMap (fun y => (A.get y).kids ++ (A.get y).deep) } (A.get x)
  | .store x y => linkClosed A (A.get x).top (A.get y).top ((A.get y).kids ++ (A.get y).deep)
  | .write _ => true
  | .gwrite _ => true
  | .call ret f args =>
    let s := summaryOf S f
    s.links.all (fun l => linkClosed A (argCell A args l.1).top (cond l.2.1 (sel A args ret l.2.2))
        (cond (!l.2.1) (sel A args ret l.2.2))) &&
      cellSub { top := s.retTop.flatMap (sel A args ret), kids := s.retKids.flatMap (sel A args ret),
                deep := s.retDeep.flatMap (sel A args ret) } (A.get ret)

/-- the given table is closed under every statement of `p` -/
def closedB (S : List Summary) (p : List Stmt) (A : Pts) : Bool := p.all (fun s => closedStmt S s A)

def paramOf : Obj → Option Nat
  | .root i => some i
  | .inner i => some i
  | .recd i => some i
  | .recTop i => some i
  | _ => none

/-- for the no-shared-state clause: the caller's containers and annotations (records handed in are exempt) -/
def shareParamOf : Obj → Option Nat
  | .root i => some i
  | .inner i => some i
  | _ => none

def globOf : Obj → Option Nat
  | .glob g => some g
  | _ => none

/-- parameters the program may write (the object itself or anything below it), names bounded by the table `A` -/
def mayWriteIn (S : List Summary) (p : List Stmt) (A : Pts) : List Nat :=
  dedup ((writeSet S p A).filterMap paramOf)

/-- process-wide objects the program may write, names bounded by the table `A` -/
def mayWriteGlobalIn (S : List Summary) (p : List Stmt) (A : Pts) : List Nat :=
  dedup ((writeSet S p A).filterMap globOf)

/-- everything the name `ret` may denote, hold or reach -/
def cellObjs (c : Cell) : List Obj := c.top ++ (c.kids ++ c.deep)

/-- parameters whose object, or a container / annotation below it, the result may be or contain -/
def mayShareIn (A : Pts) (ret : Nat) : List Nat := dedup ((cellObjs (A.get ret)).filterMap shareParamOf)

/-- process-wide objects the result may be or contain -/
def mayShareGlobalIn (A : Pts) (ret : Nat) : List Nat := dedup ((cellObjs (A.get ret)).filterMap globOf)

/-- the same with the table computed here by `fuel` passes -/
def mayWrite (S : List Summary) (p : List Stmt) (fuel : Nat) : List Nat := mayWriteIn S p (analyse S p fuel)

def mayWriteGlobal (S : List Summary) (p : List Stmt) (fuel : Nat) : List Nat := mayWriteGlobalIn S p (analyse S p fuel)

/-! ## summaries (interprocedural step) -/

def srcOfObj : Obj → Src
  | .root j => .top j
  | .inner j => .below j
  | .recd j => .recs j
  | .recTop j => .recTop j
  | .glob g => .glob g
  | .loc _ => .fresh

/-- which level of parameter `j` a write to the object touches (a record may be the argument itself or below it) -/
def writeLevels : Obj → List (Nat × Bool)
  | .root j => [(j, false)]
  | .inner j => [(j, true)]
  | .recd j => [(j, true)]
  | .recTop j => [(j, false)]
  | _ => []

/-- the summary a body induces; convention: parameter `j` is name `j`, the result is name `ret` -/
def summarize (S : List Summary) (p : List Stmt) (A : Pts) (nparams ret : Nat) : Summary :=
  let w := writeSet S p A
  { writes := dedup (w.flatMap writeLevels)
    globals := dedup (w.filterMap globOf)
    retTop := dedup ((A.get ret).top.map srcOfObj)
    retKids := dedup ((A.get ret).kids.map srcOfObj)
    retDeep := dedup ((A.get ret).deep.map srcOfObj)
    links := dedup ((List.range nparams).flatMap (fun j =>
        ((A.get j).kids.filter (fun o => o != .inner j)).map (fun o => (j, true, srcOfObj o)) ++
        ((A.get j).deep.filter (fun o => o != .inner j)).map (fun o => (j, false, srcOfObj o)))) }

def summarySub (a b : Summary) : Bool :=
  a.writes.all (fun w => b.writes.contains w) && a.globals.all (fun g => b.globals.contains g) &&
  a.retTop.all (fun s => b.retTop.contains s) && a.retKids.all (fun s => b.retKids.contains s) &&
  a.retDeep.all (fun s => b.retDeep.contains s) &&
  a.links.all (fun l => b.links.contains l)

structure FnInfo where
  prog : List Stmt
  nparams : Nat
  ret : Nat
  fuel : Nat        -- passes after which `analyse` is stable (used by the driver's independent recomputation)
  table : Pts       -- the closed table the translator computed (checked, not trusted)
  deriving Repr, Inhabited

/-- the summary table is closed under the bodies: what each body does (calls executed by the table) is within its own entry -/
def closedAt (S : List Summary) (fns : List FnInfo) (f : Nat) : Bool :=
  match fns[f]? with
  | some i => closedB S i.prog i.table && summarySub (summarize S i.prog i.table i.nparams i.ret) (summaryOf S f)
  | none => true

/-! ## verdicts (per-module checking)

The translator claims, for every function, which parameters / process-wide objects it may write and which its result may
share; `entryOK` is what the kernel checks per function in the generated per-module files. -/

structure Verdict where
  writes : List Nat := []
  globals : List Nat := []
  share : List Nat := []
  shareGlobals : List Nat := []
  deriving Repr, Inhabited, DecidableEq

def sameSet (a b : List Nat) : Bool := a.all (fun x => b.contains x) && b.all (fun x => a.contains x)

def verdictOf (V : List Verdict) (f : Nat) : Verdict := V.getD f {}

/-- function `f` with data `i`: its table is closed under its program, the summary it induces is within the summary table,
and the write / sharing sets read off the table are the claimed verdict -/
def entryOK (S : List Summary) (V : List Verdict) (f : Nat) (i : FnInfo) : Bool :=
  closedB S i.prog i.table &&
  summarySub (summarize S i.prog i.table i.nparams i.ret) (summaryOf S f) &&
  sameSet (mayWriteIn S i.prog i.table) (verdictOf V f).writes &&
  sameSet (mayWriteGlobalIn S i.prog i.table) (verdictOf V f).globals &&
  sameSet (mayShareIn i.table i.ret) (verdictOf V f).share &&
  sameSet (mayShareGlobalIn i.table i.ret) (verdictOf V f).shareGlobals

theorem all_append_of {α : Type} {p : α → Bool} {l₁ l₂ : List α} (h₁ : l₁.all p = true) (h₂ : l₂.all p = true) :
    (l₁ ++ l₂).all p = true := by
  rw [List.all_append, h₁, h₂]; rfl

/-! ## histories -/

structure Call where
  prog : List Stmt
  trace : List Nat

def runCall (S : List Summary) (c : Call) (ver : Obj → Nat) : Obj → Nat :=
  (execTrace S c.prog c.trace (entry ver)).ver

def runHistory (S : List Summary) : List Call → (Obj → Nat) → (Obj → Nat)
  | [], ver => ver
  | c :: h, ver => runHistory S h (runCall S c ver)

/-- objects the caller owns or shares with everybody: everything except the call's own allocations -/
def isCaller : Obj → Bool
  | .loc _ => false
  | _ => true

end Effects
