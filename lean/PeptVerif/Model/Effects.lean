/-!
# C08 — effect model

An explicit model of *who may write what*.  A Python function body is translated (by `harness/translate_effects.py`,
on every run, from the current source) into a flat list of effect statements over local names.  The model tracks, for every
local name, the set of objects it **may denote** and the set of objects it **may reach** (elements, attributes), where the
objects are

* `root i`  – the object the caller passed as parameter `i` itself,
* `inner i` – everything reachable strictly below that object (lumped),
* `glob g`  – a process-wide object (module-level table, database, the module random generator),
* `loc s`   – an object allocated by the call itself (allocation site `s`).

Every object carries a version counter; a write bumps it.  Control flow is *not* represented: an execution is an arbitrary
**trace** – any sequence of statement indices, in any order, with any repetition, of any length – which covers both branches
of every conditional, every number of loop iterations, early returns and exceptions.  Updates of the name table are weak
(sets only grow), so the semantics is the collecting semantics of the flow-insensitive points-to analysis.

No Mathlib.
-/

namespace Effects

abbrev Var := Nat

inductive Obj where
  | root (i : Nat)
  | inner (i : Nat)
  | glob (g : Nat)
  | loc (s : Nat)
  deriving DecidableEq, Repr, Inhabited

/-- where a callee's return value / stored links come from, relative to the callee's parameters -/
inductive Src where
  | top (j : Nat)      -- the objects argument `j` may denote
  | deep (j : Nat)     -- the objects argument `j` may reach
  | fresh              -- an object allocated by the callee
  | glob (g : Nat)
  deriving DecidableEq, Repr, Inhabited

/-- what a call does, as seen from the caller -/
structure Summary where
  writes  : List (Nat × Bool) := []   -- (parameter, `true` = below the object / `false` = the object itself)
  globals : List Nat := []            -- process-wide objects written
  retTop  : List Src := []            -- what the result may denote
  retDeep : List Src := []            -- what the result may reach
  links   : List (Nat × Src) := []    -- after the call, parameter `j` may reach `src`
  deriving Repr, Inhabited, DecidableEq

inductive Stmt where
  | param   (x : Var) (i : Nat)                 -- x is bound to parameter i
  | global  (x : Var) (g : Nat)                 -- x refers to the process-wide object g
  | alias   (x : Var) (ys : List Var)           -- x = y / x = y or z / x = a if c else b
  | elem    (x : Var) (y : Var)                 -- x = y.attr / y[k] / for x in y / y.pop()
  | fresh   (x : Var)                           -- deep copy, literal, parse result: a new object sharing nothing
  | shallow (x : Var) (ys : List Var)           -- list(y), dict(y), sorted(y), y[:] : new container, same elements
  | pack    (x : Var) (ys : List Var)           -- [a, b], (a, b), C(a, b): new container holding the objects themselves
  | store   (x : Var) (y : Var)                 -- x[k] = y / x.attr = y / x.append(y): writes x, y becomes reachable from x
  | write   (x : Var)                           -- x.pop() / x.sort() / del x[k] / x.clear(): writes x
  | gwrite  (g : Nat)                           -- random.seed(..), write to a module-level table
  | call    (ret : Var) (f : Nat) (args : List (Option Var))   -- executed by the callee's summary
  deriving Repr, Inhabited, DecidableEq

/-- (may denote, may reach) -/
abbrev Cell := List Obj × List Obj
abbrev Pts := List Cell

def union (a b : List Obj) : List Obj := a ++ b.filter (fun o => !(a.contains o))

def sub (a b : List Obj) : Bool := a.all (fun o => b.contains o)

def overlaps (a b : List Obj) : Bool := a.any (fun o => b.contains o)

def Pts.get (P : Pts) (x : Var) : Cell := P.getD x ([], [])

/-- pointwise union at `x` (the table is extended with empty cells if needed) -/
def Pts.add : Pts → Var → Cell → Pts
  | [], 0, c => [(union [] c.1, union [] c.2)]
  | [], x + 1, c => ([], []) :: Pts.add [] x c
  | d :: P, 0, c => (union d.1 c.1, union d.2 c.2) :: P
  | d :: P, x + 1, c => d :: Pts.add P x c

/-- every name that may denote or reach one of `tgt` may now also reach `extra` -/
def link (P : Pts) (tgt extra : List Obj) : Pts :=
  P.map (fun c => if overlaps (c.1 ++ c.2) tgt then (c.1, union c.2 extra) else c)

def argCell (P : Pts) (args : List (Option Var)) (j : Nat) : Cell :=
  match args.getD j none with
  | some v => P.get v
  | none => ([], [])

def sel (P : Pts) (args : List (Option Var)) (ret : Var) : Src → List Obj
  | .top j => (argCell P args j).1
  | .deep j => (argCell P args j).2
  | .fresh => [.loc ret]
  | .glob g => [.glob g]

def summaryOf (S : List Summary) (f : Nat) : Summary := S.getD f {}

/-- effect of one statement on the name table -/
def step (S : List Summary) : Stmt → Pts → Pts
  | .param x i, P => P.add x ([.root i], [.inner i])
  | .global x g, P => P.add x ([.glob g], [.glob g])
  | .alias x ys, P => ys.foldl (fun Q y => Q.add x (P.get y)) P
  | .elem x y, P => P.add x ((P.get y).2, (P.get y).2)
  | .fresh x, P => P.add x ([.loc x], [])
  | .shallow x ys, P => P.add x ([.loc x], ys.flatMap (fun y => (P.get y).2))
  | .pack x ys, P => P.add x ([.loc x], ys.flatMap (fun y => (P.get y).1 ++ (P.get y).2))
  | .store x y, P => link P (P.get x).1 ((P.get y).1 ++ (P.get y).2)
  | .write _, P => P
  | .gwrite _, P => P
  | .call ret f args, P =>
    let s := summaryOf S f
    let P1 := s.links.foldl (fun Q l => link Q (argCell P args l.1).1 (sel P args ret l.2)) P
    P1.add ret (s.retTop.flatMap (sel P args ret), s.retDeep.flatMap (sel P args ret))

/-- objects whose version one statement bumps -/
def targets (S : List Summary) : Stmt → Pts → List Obj
  | .store x _, P => (P.get x).1
  | .write x, P => (P.get x).1
  | .gwrite g, _ => [.glob g]
  | .call _ f args, P =>
    let s := summaryOf S f
    s.writes.flatMap (fun w => if w.2 then (argCell P args w.1).2 else (argCell P args w.1).1)
      ++ s.globals.map Obj.glob
  | _, _ => []

/-! ## store semantics -/

structure State where
  pts : Pts
  ver : Obj → Nat

def bump (ver : Obj → Nat) (os : List Obj) : Obj → Nat :=
  fun o => if os.contains o then ver o + 1 else ver o

def execStmt (S : List Summary) (s : Stmt) (σ : State) : State :=
  { pts := step S s σ.pts, ver := bump σ.ver (targets S s σ.pts) }

/-- run the statements named by the trace, in that order -/
def execTrace (S : List Summary) (p : List Stmt) : List Nat → State → State
  | [], σ => σ
  | k :: tr, σ =>
    match p[k]? with
    | some s => execTrace S p tr (execStmt S s σ)
    | none => execTrace S p tr σ

/-- a call starts with an empty name table -/
def entry (ver : Obj → Nat) : State := { pts := [], ver := ver }

/-! ## analysis -/

def pass (S : List Summary) (p : List Stmt) (P : Pts) : Pts := p.foldl (fun Q s => step S s Q) P

def iterate (S : List Summary) (p : List Stmt) : Nat → Pts → Pts
  | 0, P => P
  | n + 1, P => iterate S p n (pass S p P)

def analyse (S : List Summary) (p : List Stmt) (fuel : Nat) : Pts := iterate S p fuel []

def cellSub (c d : Cell) : Bool := sub c.1 d.1 && sub c.2 d.2

/-- `P ⊑ A` on the cells `P` has (cells beyond its length are empty) -/
def leB (P A : Pts) : Bool := (List.range P.length).all (fun z => cellSub (P.get z) (A.get z))

/-- `A` is closed under every statement of `p` -/
def isPost (S : List Summary) (p : List Stmt) (A : Pts) : Bool := p.all (fun s => leB (step S s A) A)

/-- all objects some statement of `p` may bump when the names are bounded by `A` -/
def writeSet (S : List Summary) (p : List Stmt) (A : Pts) : List Obj := p.flatMap (fun s => targets S s A)

def analysisOK (S : List Summary) (p : List Stmt) (fuel : Nat) : Bool := isPost S p (analyse S p fuel)

def paramOf : Obj → Option Nat
  | .root i => some i
  | .inner i => some i
  | _ => none

def globOf : Obj → Option Nat
  | .glob g => some g
  | _ => none

/-- parameters the program may write (the object itself or anything below it) -/
def mayWrite (S : List Summary) (p : List Stmt) (fuel : Nat) : List Nat :=
  ((writeSet S p (analyse S p fuel)).filterMap paramOf).eraseDups

/-- process-wide objects the program may write -/
def mayWriteGlobal (S : List Summary) (p : List Stmt) (fuel : Nat) : List Nat :=
  ((writeSet S p (analyse S p fuel)).filterMap globOf).eraseDups

/-! ## summaries (interprocedural step) -/

def srcOfObj : Obj → Src
  | .root j => .top j
  | .inner j => .deep j
  | .glob g => .glob g
  | .loc _ => .fresh

/-- the summary a body induces; convention: parameter `j` is name `j`, the result is name `ret` -/
def summarize (S : List Summary) (p : List Stmt) (fuel nparams ret : Nat) : Summary :=
  let A := analyse S p fuel
  let w := writeSet S p A
  { writes := (w.filterMap (fun o => match o with
                | .root j => some (j, false) | .inner j => some (j, true) | _ => none)).eraseDups
    globals := (w.filterMap globOf).eraseDups
    retTop := ((A.get ret).1.map srcOfObj).eraseDups
    retDeep := ((A.get ret).2.map srcOfObj).eraseDups
    links := ((List.range nparams).flatMap (fun j =>
        ((A.get j).2.filter (fun o => o != .inner j)).map (fun o => (j, srcOfObj o)))).eraseDups }

def summarySub (a b : Summary) : Bool :=
  a.writes.all (fun w => b.writes.contains w) && a.globals.all (fun g => b.globals.contains g) &&
  a.retTop.all (fun s => b.retTop.contains s) && a.retDeep.all (fun s => b.retDeep.contains s) &&
  a.links.all (fun l => b.links.contains l)

structure FnInfo where
  prog : List Stmt
  nparams : Nat
  ret : Nat
  fuel : Nat
  deriving Repr, Inhabited

/-- the summary table is closed under the bodies: what each body does (calls executed by the table) is within its own entry -/
def closedAt (S : List Summary) (fns : List FnInfo) (f : Nat) : Bool :=
  match fns[f]? with
  | some i => analysisOK S i.prog i.fuel && summarySub (summarize S i.prog i.fuel i.nparams i.ret) (summaryOf S f)
  | none => true

/-! ## histories -/

structure Call where
  prog : List Stmt
  trace : List Nat

def runCall (S : List Summary) (c : Call) (ver : Obj → Nat) : Obj → Nat :=
  (execTrace S c.prog c.trace (entry ver)).ver

def runHistory (S : List Summary) : List Call → (Obj → Nat) → (Obj → Nat)
  | [], ver => ver
  | c :: h, ver => runHistory S h (runCall S c ver)

/-- objects the caller owns or shares with everybody: everything except the call's own allocations -/
def isCaller : Obj → Bool
  | .loc _ => false
  | _ => true

end Effects
