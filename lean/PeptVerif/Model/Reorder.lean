import PeptVerif.Model.Annotation
import PeptVerif.Model.Spans
/-!
Model of the re-ordering / cutting editors of `ProFormaAnnotation` (proforma_parser.py):
`slice`, `reverse`, `shift`, `shuffle`, `sort_residues`, `split`, and of the return-type dispatcher of
digestion.py (`_return_digested_sequences`, annotation branch). Mathlib-free.

The model follows the code of /repo *after* the five `fix:` commits recorded in known_findings.json
(KF-C11-slice-touching-interval, KF-C11-slice-inplace-cterm, KF-C11-reverse-intervals,
KF-C11-slice-empty-intervals-none, KF-C11-reverse-interval-order) and the `shift` repair KF-C11-shift-intervals.

Conventions
* Python `int` that is subtracted / compared: `Int`. Positions into `seq`: `Nat`.
* a Python dict `{int: [Mod]}` is an insertion ordered association list; `dictSet` is `d[k] = v`.
  Where the key map of the Python loop is injective on all integers (`k - start`, `n - k - 1`, a position
  table look-up) the new dict is written as a `map`/`filterMap` of the old one (a Python dict has distinct
  keys, so no collision can happen); `shift` (key map `(k - s) % n`, not injective) goes through `buildDict`.
* `copy.deepcopy` is the identity on values; `inplace=True` variants return the mutated `self`.
-/
namespace Pept
namespace Reorder

inductive Err where
  | zeroDiv | valueError | keyError
  deriving DecidableEq, Repr, Inhabited

def Err.show : Err → String
  | .zeroDiv => "ERR:ZeroDivisionError"
  | .valueError => "ERR:ValueError"
  | .keyError => "ERR:KeyError"

abbrev Dict := List (Int × List Mod)

/-- Python `d[k] = v` -/
def dictSet : Dict → Int → List Mod → Dict
  | [], k, v => [(k, v)]
  | (k', v') :: t, k, v => if k' = k then (k', v) :: t else (k', v') :: dictSet t k v

/-- `{}` then `d[k] = v` for every pair in turn -/
def buildDict (l : List (Int × List Mod)) : Dict := l.foldl (fun d p => dictSet d p.1 p.2) []

/-- Python `d.get(k)` -/
def dictGet? : Dict → Int → Option (List Mod)
  | [], _ => none
  | (k', v) :: t, k => if k' = k then some v else dictGet? t k

/-- `ProFormaAnnotation.has_mods` -/
def hasMods (a : Annotation) : Bool :=
  a.isotope.isSome || a.static.isSome || a.labile.isSome || a.unknown.isSome || a.nterm.isSome ||
  a.cterm.isSome || a.internal.isSome || a.intervals.isSome || a.charge.isSome || a.adducts.isSome

/-- `ProFormaAnnotation(_sequence=s)` / `create_annotation(s)` -/
def plain (s : List Char) : Annotation := { seq := s }

/-- normalisation of one bound of a Python slice `l[start:stop]` (step 1) -/
def pyIndex (n : Nat) (i : Int) : Nat := if i < 0 then (i + n).toNat else min i.toNat n

/-- Python `l[start:stop]` -/
def pySlice {α} (l : List α) (start stop : Int) : List α :=
  let s := pyIndex l.length start
  let e := pyIndex l.length stop
  (l.drop s).take (e - s)

/-! ### the residue abstraction -/

/-- modifications attached to residue `i` -/
def modsAt (a : Annotation) (i : Nat) : List Mod :=
  match a.internal with
  | none => []
  | some d => (dictGet? d i).getD []

/-- the peptide as a list of (residue, its modifications) -/
def residues (a : Annotation) : List (Char × List Mod) :=
  a.seq.zipIdx.map fun p => (p.1, modsAt a p.2)

/-! ### slice -/

def sliceEntry (start stop : Int) (p : Int × List Mod) : Option (Int × List Mod) :=
  if start ≤ p.1 ∧ p.1 < stop then some (p.1 - start, p.2) else none

/-- `[]` is replaced by `None` (as `shift` does) -/
def noneIfEmpty {α} : Option (List α) → Option (List α)
  | some [] => none
  | x => x

def sliceInterval (start stop : Int) (iv : Interval) : Option Interval :=
  if iv.start < stop ∧ iv.stop > start then
    some { iv with start := max 0 (iv.start - start), stop := max 0 (iv.stop - start) }
  else none

/-- `ProFormaAnnotation.slice(start, stop, inplace=False)` with integer bounds -/
def slice (a : Annotation) (start stop : Int) : Annotation :=
  let newSeq := pySlice a.seq start stop
  if !hasMods a then plain newSeq else
  { a with
    seq := newSeq
    internal := a.internal.map (·.filterMap (sliceEntry start stop))
    intervals := noneIfEmpty (a.intervals.map (·.filterMap (sliceInterval start stop)))
    nterm := if start > 0 then none else a.nterm
    cterm := if stop < (a.seq.length : Int) then none else a.cterm }

/-- `slice(..., inplace=True)`: the assignments in the order of the code (after the fix the length test reads the
original sequence) -/
def sliceInplace (a : Annotation) (start stop : Int) : Annotation :=
  let newSeq := pySlice a.seq start stop
  if !hasMods a then { a with seq := newSeq } else
  let newInternal := a.internal.map (·.filterMap (sliceEntry start stop))
  let newIntervals := noneIfEmpty (a.intervals.map (·.filterMap (sliceInterval start stop)))
  let a1 := if start > 0 then { a with nterm := none } else a
  let a2 := if stop < (a1.seq.length : Int) then { a1 with cterm := none } else a1
  { a2 with seq := newSeq, internal := newInternal, intervals := newIntervals }

/-- `start=None` ↦ 0, `stop=None` ↦ len -/
def sliceOpt (a : Annotation) (start stop : Option Int) (inplace : Bool) : Annotation :=
  let s := start.getD 0
  let e := stop.getD a.seq.length
  if inplace then sliceInplace a s e else slice a s e

/-! ### reverse -/

def reverseEntry (n : Int) (p : Int × List Mod) : Int × List Mod := (n - p.1 - 1, p.2)

/-- interval `[s,e)` covers residues `s..e-1`; reversed it covers `n-e..n-s-1` -/
def reverseInterval (n : Int) (iv : Interval) : Interval :=
  let ns := n - iv.stop
  let ne := n - iv.start
  if ns > ne then { iv with start := ne, stop := ns } else { iv with start := ns, stop := ne }

/-- `ProFormaAnnotation.reverse(inplace, swap_terms)` (both values of `inplace` assign the same five fields) -/
def reverse (a : Annotation) (swapTerms : Bool) : Annotation :=
  let n : Int := a.seq.length
  let newInternal : Option Dict :=
    match a.internal with
    | none => none
    | some [] => none
    | some d => some (d.map (reverseEntry n))
  { a with
    seq := a.seq.reverse
    internal := newInternal
    intervals := a.intervals.map fun l => (l.reverse.map (reverseInterval n))
    nterm := if swapTerms then a.cterm else a.nterm
    cterm := if swapTerms then a.nterm else a.cterm }

/-! ### stable sort (Python `sorted` / `list.sort` with a key) -/

/-- stable insertion of `x` by key `c.toNat` (goes before the first element that is not smaller) -/
def insertBy {α} (key : α → Nat) (x : α) : List α → List α
  | [] => [x]
  | y :: ys => if key x ≤ key y then x :: y :: ys else y :: insertBy key x ys

/-- stable sort by `key` (Python `sorted(..., key=...)` is stable) -/
def sortBy {α} (key : α → Nat) : List α → List α
  | [] => []
  | x :: xs => insertBy key x (sortBy key xs)

/-! ### shift -/

def shiftEntry (eff n : Int) (p : Int × List Mod) : Int × List Mod := ((p.1 - eff) % n, p.2)

/-- start: `(s - k) % n`; exclusive end: the last covered residue is shifted and one is added (fix 918a950) -/
def shiftInterval (eff n : Int) (iv : Interval) : Interval :=
  let ns := (iv.start - eff) % n
  let ne := (iv.stop - 1 - eff) % n + 1
  if ns > ne then { iv with start := ne, stop := ns } else { iv with start := ns, stop := ne }

/-- `ProFormaAnnotation.shift(n)`; `k % 0` raises ZeroDivisionError. Lean's `%` on `Int` with a positive
divisor is Python's `%`. -/
def shift (a : Annotation) (k : Int) : Except Err Annotation :=
  let n : Int := a.seq.length
  if n = 0 then .error .zeroDiv else
  let eff := k % n
  let e := eff.toNat
  let newInternal : Option Dict :=
    match a.internal with
    | none => none
    | some d =>
      let d' := buildDict (d.map (shiftEntry eff n))
      if d'.isEmpty then none else some d'
  let newIntervals : Option (List Interval) :=
    match a.intervals with
    | none => none
    | some l =>
      -- `new_intervals.sort(key=lambda i: i.start)` (fix d7e4e20); starts are `x % n ≥ 0`
      let l' := sortBy (fun (iv : Interval) => iv.start.toNat) (l.map (shiftInterval eff n))
      if l'.isEmpty then none else some l'
  .ok { a with seq := a.seq.drop e ++ a.seq.take e, internal := newInternal, intervals := newIntervals }

/-! ### shuffle and sort_residues: a permutation of positions

`perm` lists, for every new position, the original position of the residue that lands there
(`shuffled_positions` in the code). -/

/-- `position_mapping[k]` / `original_to_new_positions[k]`: `none` is Python's KeyError.
The model is used with duplicate-free `perm` only (there first = last index). -/
def posOf? (perm : List Nat) (k : Int) : Option Nat :=
  if 0 ≤ k ∧ k.toNat ∈ perm then some (perm.idxOf k.toNat) else none

def permEntry (perm : List Nat) (p : Int × List Mod) : Int × List Mod :=
  (((posOf? perm p.1).getD 0 : Nat), p.2)

/-- new internal dict of shuffle/sort for a truthy old dict -/
def permDict (perm : List Nat) (d : Dict) : Except Err Dict :=
  if d.all (fun p => (posOf? perm p.1).isSome) then .ok (d.map (permEntry perm)) else .error .keyError

/-- common tail of shuffle / sort_residues: `if self.internal_mods:` (truthy) re-key every entry through the position
table, else `None`; then replace sequence and residue mods (both values of `inplace` assign the same two fields) -/
def permuteWith (a : Annotation) (perm : List Nat) (newSeq : List Char) : Except Err Annotation :=
  match a.internal with
  | none => .ok { a with seq := newSeq, internal := none }
  | some [] => .ok { a with seq := newSeq, internal := none }
  | some d =>
    match permDict perm d with
    | .error e => .error e
    | .ok d' => .ok { a with seq := newSeq, internal := some d' }

/-- `ProFormaAnnotation.shuffle(seed)`, `perm` = the outcome of `random.shuffle` on the positions -/
def shuffle (a : Annotation) (perm : List Nat) : Except Err Annotation :=
  if a.seq.isEmpty then .error .valueError else   -- `zip(*[])` cannot be unpacked into two names
  permuteWith a perm (perm.filterMap (a.seq[·]?))

/-- `sorted(range(n), key=lambda x: seq[x])` -/
def sortOrder (seq : List Char) : List Nat :=
  (sortBy (fun (p : Char × Nat) => p.1.toNat) seq.zipIdx).map (·.2)

/-- `ProFormaAnnotation.sort_residues()` -/
def sortResidues (a : Annotation) : Except Err Annotation :=
  permuteWith a (sortOrder a.seq) (sortBy (fun (c : Char) => c.toNat) a.seq)

/-! ### split -/

def truthy {α} : Option (List α) → Bool
  | some (_ :: _) => true
  | _ => false

/-- `ProFormaAnnotation.split()` (after the C08 fix 2a2eb0d, which no longer pops the labile mods of `self`): every residue
is a one-residue slice; `pop_labile_mods()` on every piece except the first (and on the first too when the labile list is
falsy) -/
def split (a : Annotation) : List Annotation :=
  (List.range a.seq.length).map fun (i : Nat) =>
    let s := slice a (i : Int) ((i : Int) + 1)
    if i ≠ 0 ∨ !truthy a.labile then { s with labile := none } else s

/-! ### digestion: annotation return type -/

/-- `_return_digested_sequences(annotation, spans, 'annotation')` -/
def digestPieces (a : Annotation) (spans : List Spans.Span) : List Annotation :=
  if !hasMods a then spans.map fun sp => plain (pySlice a.seq sp.1 sp.2.1)
  else spans.map fun sp => slice a sp.1 sp.2.1

end Reorder
end Pept
