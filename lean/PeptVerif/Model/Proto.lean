/-! Line-protocol helpers shared by every driver. Mathlib-free. -/
namespace Proto

def splitTab (s : String) : List String := s.splitOn "\t"

def parseInt? (s : String) : Option Int := s.toInt?

/-- "None" or an integer -/
def parseOptInt? (s : String) : Option (Option Int) :=
  if s == "None" then some none else (s.toInt?).map some

/-- comma separated integers; empty string = [] -/
def parseIntList? (s : String) : Option (List Int) :=
  if s.isEmpty then some [] else (s.splitOn ",").mapM (·.toInt?)

def parseBool? (s : String) : Option Bool :=
  if s == "1" || s == "True" then some true else if s == "0" || s == "False" then some false else none

def showIntList (l : List Int) : String := ",".intercalate (l.map toString)

def showOptInt : Option Int → String
  | none => "None"
  | some i => toString i

/-- generic stdin loop: one request per line, one reply per line -/
partial def loop (h : IO.FS.Stream) (out : IO.FS.Stream) (step : String → String) : IO Unit := do
  let line ← h.getLine
  if line.isEmpty then return ()
  let l := if line.endsWith "\n" then (line.dropEnd 1).toString else line
  out.putStrLn (step l)
  loop h out step

def runDriver (step : String → String) : IO Unit := do
  let i ← IO.getStdin
  let o ← IO.getStdout
  loop i o step
  o.flush

end Proto
