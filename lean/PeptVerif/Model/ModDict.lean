import PeptVerif.Model.Annotation
/-!
Model of the modification dictionary API (C20): `ProFormaAnnotation.mod_dict`, `add_mod_dict`, `pop_mods`,
`strip`, `dict`, `copy` (proforma_parser.py), `create_annotation` with the input normalisation of
input_convert.py (`fix_list_of_mods`, `fix_dict_of_mods`, `fix_interval_input`, `fix_intervals_input`) and the
wrappers `get_mods` / `add_mods` / `pop_mods` / `strip_mods` of sequence_funcs.py at annotation level.
Mathlib-free.

A Python dict is an insertion-ordered association list with unique keys. Deep copies are the identity in a
pure model (independence of copies is checked dynamically by the harness).
`util.convert_type` on raw `str` inputs is outside this model: raw values arrive already typed.
-/
namespace Pept

/-- keys of a modification dictionary: the named keys and integer residue indices.
`internal` is the key used by `ProFormaAnnotation.pop_mods` only (`mod_dict` uses integer keys). -/
inductive DKey where
  | isotope | static | labile | unknown | nterm | cterm | intervals | charge | adducts | internal
  | idx (i : Int)
  deriving DecidableEq, Repr, Inhabited

inductive DVal where
  | none
  | mods (l : List Mod)
  | ivs (l : List Interval)
  | charge (c : Int)
  | dict (d : List (Int × List Mod))
  deriving DecidableEq, Repr, Inhabited

abbrev ModDict := List (DKey × DVal)

/-- the entry of one named key: present only when the field is not None -/
def optSeg {β : Type} (k : DKey) (f : β → DVal) : Option β → ModDict
  | none => []
  | some x => [(k, f x)]

/-- the integer-keyed entries of the internal mods -/
def idxEntries (d : List (Int × List Mod)) : ModDict := d.map fun p => (.idx p.1, .mods p.2)

/-- `if self.internal_mods: for index, mods in self.internal_mods.items(): result[index] = mods` -/
def idxSeg : Option (List (Int × List Mod)) → ModDict
  | none => []
  | some d => idxEntries d

/-- `mod_dict`: named entries that are not None in a fixed order, then the internal mods under their indices
(`if self.internal_mods:` - an empty dict contributes nothing) -/
def modDict (a : Annotation) : ModDict :=
  optSeg .isotope .mods a.isotope ++ optSeg .static .mods a.static ++ optSeg .labile .mods a.labile ++
  optSeg .unknown .mods a.unknown ++ optSeg .nterm .mods a.nterm ++ optSeg .cterm .mods a.cterm ++
  optSeg .intervals .ivs a.intervals ++ optSeg .charge .charge a.charge ++ optSeg .adducts .mods a.adducts ++
  idxSeg a.internal

/-- `add_<kind>_mods(mods, append)` on one list-valued field -/
def addList (cur : Option (List Mod)) (v : DVal) (append : Bool) : Option (List Mod) :=
  match v with
  | .none => if append then cur else none
  | .mods l =>
    if !append then some l
    else match cur with
      | some c => some (c ++ l)
      | none => some l
  | _ => cur

/-- `add_intervals(intervals, append)` -/
def addIvs (cur : Option (List Interval)) (v : DVal) (append : Bool) : Option (List Interval) :=
  match v with
  | .none => if append then cur else none
  | .ivs l =>
    if !append then some l
    else match cur with
      | some c => some (c ++ l)
      | none => some l
  | _ => cur

/-- one step of the append loop of `add_internal_mods`: extend an existing key or insert a new one at the end -/
def extendKey (c : List (Int × List Mod)) (k : Int) (v : List Mod) : List (Int × List Mod) :=
  if c.any (·.1 == k) then c.map fun p => if p.1 == k then (p.1, p.2 ++ v) else p
  else c ++ [(k, v)]

def mergeInternal (c : List (Int × List Mod)) : List (Int × List Mod) → List (Int × List Mod)
  | [] => c
  | (k, v) :: r => mergeInternal (extendKey c k v) r

/-- `add_internal_mods(mods, append)`: without `append` the whole dict is *replaced* -/
def addInternalDict (cur : Option (List (Int × List Mod))) (im : List (Int × List Mod)) (append : Bool) :
    Option (List (Int × List Mod)) :=
  if !append then some im
  else match cur with
    | none => some im
    | some c => some (mergeInternal c im)

/-- integer-keyed entries of a dictionary -/
def intEntries (d : ModDict) : List (Int × List Mod) :=
  d.filterMap fun p =>
    match p.1, p.2 with
    | .idx i, .mods l => some (i, l)
    | _, _ => none

def onKey (d : ModDict) (k : DKey) (f : DVal → α) (dflt : α) : α :=
  match d.lookup k with
  | some v => f v
  | none => dflt

/-- `add_mod_dict(mod_dict, append)` -/
def addModDict (a : Annotation) (d : ModDict) (append : Bool := false) : Annotation :=
  let a := { a with isotope := onKey d .isotope (addList a.isotope · append) a.isotope }
  let a := { a with static := onKey d .static (addList a.static · append) a.static }
  let a := { a with labile := onKey d .labile (addList a.labile · append) a.labile }
  let a := { a with unknown := onKey d .unknown (addList a.unknown · append) a.unknown }
  let a := { a with nterm := onKey d .nterm (addList a.nterm · append) a.nterm }
  let a := { a with cterm := onKey d .cterm (addList a.cterm · append) a.cterm }
  let a := { a with intervals := onKey d .intervals (addIvs a.intervals · append) a.intervals }
  let setCharge : DVal → Option Int := fun v =>
    match v with
    | .charge c => some c
    | .none => Option.none
    | _ => a.charge
  let a := { a with charge := onKey d .charge setCharge a.charge }
  let a := { a with adducts := onKey d .adducts (addList a.adducts · append) a.adducts }
  let im := intEntries d
  if im.length > 0 then { a with internal := addInternalDict a.internal im append } else a

/-- `strip()` / `strip(inplace=True)`: only the sequence stays -/
def strip (a : Annotation) : Annotation := { seq := a.seq }

/-- `ProFormaAnnotation.pop_mods`: the dictionary (internal mods under the key `internal`) and the stripped object -/
def popMods (a : Annotation) : ModDict × Annotation :=
  (optSeg .isotope .mods a.isotope ++ optSeg .static .mods a.static ++ optSeg .labile .mods a.labile ++
   optSeg .unknown .mods a.unknown ++ optSeg .nterm .mods a.nterm ++ optSeg .cterm .mods a.cterm ++
   optSeg .adducts .mods a.adducts ++ optSeg .charge .charge a.charge ++ optSeg .internal .dict a.internal ++
   optSeg .intervals .ivs a.intervals,
   { seq := a.seq })

/-- `copy()` = deepcopy -/
def copy (a : Annotation) : Annotation := a

/-! ### sequence_funcs wrappers at annotation level -/

/-- `pt.get_mods` -/
def getMods (a : Annotation) : ModDict := modDict a

/-- `pt.pop_mods`: (stripped sequence, mod_dict) - the argument is not changed -/
def ptPopMods (a : Annotation) : List Char × ModDict := (a.seq, modDict a)

/-- `pt.strip_mods` -/
def stripMods (a : Annotation) : List Char := a.seq

/-- `pt.add_mods(annotation, mods, append)` before serialisation (default `append = True`) -/
def ptAddMods (a : Annotation) (d : ModDict) (append : Bool := true) : Annotation := addModDict a d append

/-! ### create_annotation and its input normalisation -/

inductive ModItem where
  | raw (v : ModVal)
  | mod (m : Mod)
  deriving DecidableEq, Repr, Inhabited

/-- `ACCEPTED_MOD_INPUT`: one value or a list of values -/
inductive ModInput where
  | single (i : ModItem)
  | list (l : List ModItem)
  deriving DecidableEq, Repr, Inhabited

/-- `convert_to_mod` -/
def convertToMod : ModItem → Mod
  | .raw v => ⟨v, 1⟩
  | .mod m => m

/-- `fix_list_of_mods` -/
def fixList : ModInput → List Mod
  | .single i => [convertToMod i]
  | .list l => l.map convertToMod

/-- Python truthiness of the fourth tuple component in `fix_interval_input` -/
def inputTruthy : ModInput → Bool
  | .single (.raw (.int i)) => i != 0
  | .single (.raw (.flt r)) => !(r == "0.0".toList || r == "-0.0".toList)
  | .single (.raw (.str s)) => !s.isEmpty
  | .single (.mod _) => true
  | .list l => !l.isEmpty

inductive IvItem where
  | tuple (start stop : Int) (ambiguous : Bool) (mods : Option ModInput)
  | iv (i : Interval)
  deriving DecidableEq, Repr, Inhabited

/-- `fix_interval_input`: `mods = fix_list_of_mods(t[3]) if t[3] else None` -/
def fixInterval : IvItem → Interval
  | .iv i => i
  | .tuple s e amb m =>
    let mods := match m with
      | none => none
      | some inp => if inputTruthy inp then some (fixList inp) else none
    ⟨s, e, amb, mods⟩

inductive IvInput where
  | single (i : IvItem)
  | list (l : List IvItem)
  deriving DecidableEq, Repr, Inhabited

/-- `fix_intervals_input` -/
def fixIntervals : IvInput → List Interval
  | .single i => [fixInterval i]
  | .list l => l.map fixInterval

/-- keyword arguments of `create_annotation` -/
structure CreateArgs where
  seq : List Char
  isotope : Option ModInput := none
  static : Option ModInput := none
  labile : Option ModInput := none
  unknown : Option ModInput := none
  nterm : Option ModInput := none
  cterm : Option ModInput := none
  internal : Option (List (Int × ModInput)) := none
  intervals : Option IvInput := none
  charge : Option Int := none
  adducts : Option ModInput := none
  deriving DecidableEq, Repr, Inhabited

/-- `create_annotation` -/
def createAnnotation (c : CreateArgs) : Annotation :=
  { seq := c.seq
    isotope := c.isotope.map fixList
    static := c.static.map fixList
    labile := c.labile.map fixList
    unknown := c.unknown.map fixList
    nterm := c.nterm.map fixList
    cterm := c.cterm.map fixList
    internal := c.internal.map fun d => d.map fun p => (p.1, fixList p.2)
    intervals := c.intervals.map fixIntervals
    charge := c.charge
    adducts := c.adducts.map fixList }

def modsInput (l : List Mod) : ModInput := .list (l.map .mod)

/-- `ProFormaAnnotation.dict()` read as keyword arguments (`create_annotation(**a.dict())`) -/
def dictArgs (a : Annotation) : CreateArgs :=
  { seq := a.seq
    isotope := a.isotope.map modsInput
    static := a.static.map modsInput
    labile := a.labile.map modsInput
    unknown := a.unknown.map modsInput
    nterm := a.nterm.map modsInput
    cterm := a.cterm.map modsInput
    internal := a.internal.map fun d => d.map fun p => (p.1, modsInput p.2)
    intervals := a.intervals.map fun l => .list (l.map .iv)
    charge := a.charge
    adducts := a.adducts.map modsInput }

end Pept
