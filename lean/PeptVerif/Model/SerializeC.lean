import PeptVerif.Model.Serialize
/-!
# The serializer written with statement combinators (mirror of the Python statement structure)

`harness/translate_serializer.py` reads the CURRENT Python source of the serializer and emits
`Generated/SerializerPy.lean` with exactly these combinators. The definitions `SerC.*` below are the expected output for the
source as it is today (same text, other names), so `GenSer.f = SerC.f` is `rfl` as long as the source is unchanged;
`Lemmas/SerializerGen.lean` proves `SerC.f = f` for the hand model of `Model/Serialize.lean` once and for all.
Mathlib-free.
-/
namespace Pept.SerC

/-- `if x.has_f():` / `if x.f is not None:` with the value bound in the body -/
def ifSome {α} (x : Option α) (f : α → List Char) : List Char :=
  match x with
  | none => []
  | some v => f v

/-- `if x.f:` for an optional list: not None and not empty -/
def ifTruthy {α} (x : Option (List α)) (f : List α → List Char) : List Char :=
  match x with
  | none => []
  | some [] => []
  | some l => f l

/-- `if x.charge:` — truthiness of an optional int: not None and not 0 -/
def ifNonzero (x : Option Int) (f : Int → List Char) : List Char :=
  match x with
  | none => []
  | some v => if v = 0 then [] else f v

/-- `if cond:` without else -/
def ifB (c : Bool) (t : List Char) : List Char := if c then t else []

/-- `for v in l: ...` -/
def forEach {α} (l : List α) (g : α → List Char) : List Char := l.flatMap g

/-- `for i, aa in enumerate(seq): ...` (index counted from `i`) -/
def forEnum : List Char → Int → (Int → Char → List Char) → List Char
  | [], _, _ => []
  | aa :: t, i, g => g i aa ++ forEnum t (i + 1) g

/-- `if d and i in d:` with `d[i]` bound in the body -/
def ifInDict (d : Option (List (Int × List Mod))) (i : Int) (f : List Mod → List Char) : List Char :=
  match d with
  | none => []
  | some l =>
    match dictGet i l with
    | none => []
    | some v => f v

/-- the loop of `MultiProFormaAnnotation.serialize`: `xj` is written for `connection is True`, `pj` otherwise;
`self.connections[i]` past the end is an IndexError -/
def joinChains (xj pj : List Char) (ser : Annotation → List Char) :
    List Annotation → List (Option Bool) → Except Err (List Char)
  | [], _ => .ok []
  | [a], _ => .ok (ser a)
  | a :: b :: rest, conns =>
    match conns with
    | [] => .error .index
    | cn :: conns' =>
      match joinChains xj pj ser (b :: rest) conns' with
      | .error e => .error e
      | .ok t => .ok (ser a ++ (if cn = some true then xj else pj) ++ t)

/-! ### the serializer in combinator form (= translator output for the current source) -/


def modSerialize (o c : Char) (plus : Bool) (m : Mod) : List Char :=
  let valStr : List Char := (if plus = true then (if m.val.positive = true then ['+'] ++ m.val.text else m.val.text) else m.val.text)
  (if m.mult > 1 then [o] ++ (valStr ++ ([c] ++ (['^'] ++ (intText m.mult)))) else [o] ++ (valStr ++ [c]))

def serializeStart (plus : Plus) (a : Annotation) : List Char :=
  ifSome a.labile (fun v1 => forEach v1 (fun mod => modSerialize '{' '}' (plus mod) mod)) ++ (ifSome a.static (fun v2 => forEach v2 (fun mod => modSerialize '<' '>' (plus mod) mod)) ++ (ifSome a.isotope (fun v3 => forEach v3 (fun mod => modSerialize '<' '>' (plus mod) mod)) ++ ((ifSome a.unknown (fun v4 => forEach v4 (fun mod => modSerialize '[' ']' (plus mod) mod) ++ ['?'])) ++ ((ifSome a.nterm (fun v5 => forEach v5 (fun mod => modSerialize '[' ']' (plus mod) mod) ++ ['-']))))))

def serializeMiddle (plus : Plus) (a : Annotation) : List Char :=
  (forEnum a.seq 0 (fun i aa => (ifTruthy a.intervals (fun v1 => (forEach v1 (fun interval => (ifB (decide (interval.start = i)) (['('] ++ (ifB interval.ambiguous (['?'])))) ++ ((ifB (decide (interval.stop = i)) ([')'] ++ (ifTruthy interval.mods (fun ms2 => forEach ms2 (fun mod => modSerialize '[' ']' (plus mod) mod)))))))))) ++ ([aa] ++ (ifInDict a.internal i (fun ms3 => forEach ms3 (fun mod => modSerialize '[' ']' (plus mod) mod)))))) ++ ((let i : Int := Int.ofNat a.seq.length; (ifTruthy a.intervals (fun v4 => (forEach v4 (fun interval => (ifB (decide (interval.stop = i)) ([')'] ++ (ifTruthy interval.mods (fun ms5 => forEach ms5 (fun mod => modSerialize '[' ']' (plus mod) mod)))))))))))

def serializeEnd (plus : Plus) (a : Annotation) : List Char :=
  (ifTruthy a.cterm (fun v1 => ['-'] ++ (forEach v1 (fun mod => modSerialize '[' ']' (plus mod) mod)))) ++ ((ifSome a.charge (fun v2 => (['/'] ++ (intText v2)))) ++ (ifTruthy a.adducts (fun v3 => forEach v3 (fun mod => modSerialize '[' ']' (plus mod) mod))))

def serialize (plus : Plus) (a : Annotation) : List Char :=
  serializeStart plus a ++ serializeMiddle plus a ++ serializeEnd plus a

def serializeMulti (plus : Plus) : List Annotation → List (Option Bool) → Except Err (List Char) :=
  joinChains ['\\', '\\'] ['+'] (serialize plus)


end Pept.SerC
