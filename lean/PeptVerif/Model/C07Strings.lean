import PeptVerif.Model.Reorder
import PeptVerif.Model.Serialize
/-!
The string return types of `digestion._return_digested_sequences` (`'str'`, `'str-span'`), on top of the serializer model of
C01 (`Pept.serialize`, imported read-only). `_return_digested_sequences` always serialises with the default
`include_plus=False`; the model keeps the `plus` parameter general. Mathlib-free.
-/
namespace Pept
namespace Reorder

/-- `_return_digested_sequences(annotation, spans, 'str')`: the unmodified fast path returns the residue substring, the
general path `annotation.slice(s, e).serialize()` -/
def digestStrings (plus : Plus) (a : Annotation) (spans : List Spans.Span) : List (List Char) :=
  if !hasMods a then spans.map fun sp => pySlice a.seq sp.1 sp.2.1
  else spans.map fun sp => serialize plus (slice a sp.1 sp.2.1)

/-- `'str-span'`: the same strings paired with their spans -/
def digestStringSpans (plus : Plus) (a : Annotation) (spans : List Spans.Span) : List (List Char × Spans.Span) :=
  if !hasMods a then spans.map fun sp => (pySlice a.seq sp.1 sp.2.1, sp)
  else spans.map fun sp => (serialize plus (slice a sp.1 sp.2.1), sp)

/-- `'annotation-span'` -/
def digestPieceSpans (a : Annotation) (spans : List Spans.Span) : List (Annotation × Spans.Span) :=
  if !hasMods a then spans.map fun sp => (plain (pySlice a.seq sp.1 sp.2.1), sp)
  else spans.map fun sp => (slice a sp.1 sp.2.1, sp)

end Reorder
end Pept
