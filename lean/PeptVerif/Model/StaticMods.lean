import PeptVerif.Model.Annotation
/-!
Model of the global static-rule machinery (C12), Mathlib-free.

Python anchors (src/peptacular):
* `util.convert_type`, `proforma_parser._parse_integer/_parse_modification/_parse_modifications`
* `proforma_parser.parse_static_mods`            → `parseStaticMods`
* `ProFormaAnnotation.condense_static_mods`      → `condenseStatic`
* `ProFormaAnnotation.slice` (one-residue pieces), `.split`, `.serialize`, `.count_residues`
* `sequence_funcs.count_residues`                → `countResidues` (condenses first)

Strings are `List Char`. Python dicts are insertion-ordered association lists.
Outside the model (excluded by the harness): empty rule targets, float literals that Python
prints in exponent form or with more than 15 significant digits, `int()`/`float()` extras
(underscores, surrounding blanks, `inf`, `nan`, exponents).
-/
namespace Pept
namespace Static

inductive Err where
  | valueError | typeError | keyError | unmodelled
  deriving DecidableEq, Repr, Inhabited

def Err.show : Err → String
  | .valueError => "ERR:ValueError"
  | .typeError => "ERR:TypeError"
  | .keyError => "ERR:KeyError"
  | .unmodelled => "unmodelled"

/-! ### `convert_type` -/

def isDig (c : Char) : Bool := decide ('0' ≤ c) && decide (c ≤ '9')

def digitsToNat (l : List Char) : Nat := l.foldl (fun n c => 10 * n + (c.toNat - 48)) 0

def splitSign : List Char → Bool × List Char
  | '-' :: r => (true, r)
  | '+' :: r => (false, r)
  | r => (false, r)

def dropLeadingZeros : List Char → List Char
  | '0' :: r => dropLeadingZeros r
  | l => l

def dropTrailingZeros (l : List Char) : List Char := (dropLeadingZeros l.reverse).reverse

/-- `repr(float(text))` for positional decimal literals (`ip.fr`, at most 15 significant digits,
magnitude in [1e-4, 1e16) or zero): leading zeros of the integer part and trailing zeros of the fraction dropped. -/
def normFloat (neg : Bool) (ip fr : List Char) : List Char :=
  let ip' := match dropLeadingZeros ip with | [] => ['0'] | l => l
  let fr' := match dropTrailingZeros fr with | [] => ['0'] | l => l
  (if neg then ['-'] else []) ++ ip' ++ ['.'] ++ fr'

/-- `int(val)`, else `float(val)`, else the string -/
def convertType (s : List Char) : ModVal :=
  let (neg, body) := splitSign s
  if body ≠ [] ∧ body.all isDig then
    .int (if neg then -(Int.ofNat (digitsToNat body)) else Int.ofNat (digitsToNat body))
  else
    let ip := body.takeWhile isDig
    match body.dropWhile isDig with
    | '.' :: fr => if fr.all isDig ∧ (ip ≠ [] ∨ fr ≠ []) then .flt (normFloat neg ip fr) else .str s
    | _ => .str s

/-! ### `_parse_integer`, `_parse_modification`, `_parse_modifications` -/

/-- number of characters `_parse_integer` consumes: an optional run of signs before the first digit, then digits -/
def intPrefixLen : List Char → (digits : Nat) → Nat
  | [], _ => 0
  | c :: r, d =>
    if isDig c then 1 + intPrefixLen r (d + 1)
    else if d = 0 ∧ (c = '+' ∨ c = '-') then 1 + intPrefixLen r d
    else 0

/-- Python `int(text)` on what `_parse_integer` cut out (`[+-]?digits`; anything else raises ValueError) -/
def pyInt? (s : List Char) : Option Int :=
  let (neg, body) := splitSign s
  if body ≠ [] ∧ body.all isDig then
    some (if neg then -(Int.ofNat (digitsToNat body)) else Int.ofNat (digitsToNat body))
  else none

def parseInteger (s : List Char) : Except Err (Int × Nat) :=
  let i := intPrefixLen s 0
  match pyInt? (s.take i) with
  | some v => .ok (v, i)
  | none => .error .valueError

/-- scan for the bracket matching the opening one; returns the position just after it
(or the length of the text when unbalanced). `pos` counts consumed characters. -/
def matchClose (o c : Char) : List Char → (depth : Nat) → (pos : Nat) → Nat
  | [], _, pos => pos
  | _ :: _, 0, pos => pos
  | x :: r, d + 1, pos =>
    if x = o then matchClose o c r (d + 2) (pos + 1)
    else if x = c then matchClose o c r d (pos + 1)
    else matchClose o c r (d + 1) (pos + 1)

/-- `_parse_modification(text)`, `text` starting at an opening bracket: the mod and the offset after it -/
def parseModification (s : List Char) (o c : Char) : Except Err (Mod × Nat) :=
  let position := matchClose o c (s.drop 1) 1 1
  let modStr := (s.take (position - 1)).drop 1
  if position < s.length ∧ s.getD position ' ' = '^' then
    match parseInteger (s.drop (position + 1)) with
    | .ok (m, len) => .ok (⟨convertType modStr, m⟩, position + len + 1)
    | .error e => .error e
  else .ok (⟨convertType modStr, 1⟩, position)

/-- `_parse_modifications`: `skip` = characters still belonging to the mod just parsed -/
def parseModificationsAux (o c : Char) : List Char → (skip : Nat) → Except Err (List Mod)
  | [], _ => .ok []
  | _ :: r, skip + 1 => parseModificationsAux o c r skip
  | x :: r, 0 =>
    if x = o then
      match parseModification (x :: r) o c with
      | .error e => .error e
      | .ok (m, len) =>
        match parseModificationsAux o c r (len - 1) with
        | .error e => .error e
        | .ok ms => .ok (m :: ms)
    else parseModificationsAux o c r 0

def parseModifications (s : List Char) : Except Err (List Mod) := parseModificationsAux '[' ']' s 0

/-! ### `parse_static_mods` -/

/-- `str.split(sep)` for a one-character separator -/
def splitOnChar (sep : Char) : List Char → List (List Char)
  | [] => [[]]
  | x :: r =>
    if x = sep then [] :: splitOnChar sep r
    else match splitOnChar sep r with
      | [] => [[x]]
      | h :: t => (x :: h) :: t

abbrev StaticMap := List (List Char × List Mod)

def dictGet {α} (d : List (List Char × α)) (k : List Char) : Option α :=
  match d with
  | [] => none
  | (k', v) :: r => if k' = k then some v else dictGet r k

/-- `d.setdefault(k, []).extend(ms)` -/
def dictExtend (d : StaticMap) (k : List Char) (ms : List Mod) : StaticMap :=
  match d with
  | [] => [(k, ms)]
  | (k', v) :: r => if k' = k then (k', v ++ ms) :: r else (k', v) :: dictExtend r k ms

/-- one rule `[Mod]…@t1,t2,…` added to the map -/
def parseRule (d : StaticMap) (m : Mod) : Except Err StaticMap :=
  match m.val with
  | .str text =>
    match splitOnChar '@' text with
    | [modInfo, residues] =>
      match parseModifications modInfo with
      | .error e => .error e
      | .ok [] => .error .valueError      -- no bracket group: `<a@P>` (raised since repo commit cbe6ff3)
      | .ok ms => .ok ((splitOnChar ',' residues).foldl (fun d t => dictExtend d t ms) d)
    | _ => .error .valueError           -- "not enough / too many values to unpack"
  | _ => .error .typeError

def parseRules (d : StaticMap) : List Mod → Except Err StaticMap
  | [] => .ok d
  | m :: r =>
    match parseRule d m with
    | .error e => .error e
    | .ok d' => parseRules d' r

def parseStaticMods : Option (List Mod) → Except Err StaticMap
  | none => .ok []
  | some l => parseRules [] l

def nTermKey : List Char := "N-Term".toList
def cTermKey : List Char := "C-Term".toList
def isTermKey (k : List Char) : Bool := k == nTermKey || k == cTermKey

/-! ### literal occurrences: `re.finditer(aa, sequence)` / `sequence.count(aa)` for literal `aa` -/

def isPrefix : List Char → List Char → Bool
  | [], _ => true
  | _ :: _, [] => false
  | a :: p, b :: s => a == b && isPrefix p s

/-- start positions of the non-overlapping, leftmost occurrences of the non-empty literal `t` -/
def occAux (t : List Char) : List Char → (skip pos : Nat) → List Nat
  | [], _, _ => []
  | _ :: s, skip + 1, pos => occAux t s skip (pos + 1)
  | c :: s, 0, pos =>
    if isPrefix t (c :: s) then pos :: occAux t s (t.length - 1) (pos + 1)
    else occAux t s 0 (pos + 1)

def targetIndices (t seq : List Char) : List Nat := if t = [] then [] else occAux t seq 0 0

/-- `sequence.count(aa)` -/
def countAux (t : List Char) : List Char → (skip : Nat) → Nat
  | [], _ => 0
  | _ :: s, skip + 1 => countAux t s skip
  | c :: s, 0 =>
    if isPrefix t (c :: s) then 1 + countAux t s (t.length - 1)
    else countAux t s 0

def countOcc (t seq : List Char) : Nat := if t = [] then 0 else countAux t seq 0

/-- targets the model covers: since repo commit 72c1d65 `condense_static_mods` matches the target text literally
(`re.escape`), so every non-empty target; the empty target (`finditer('')` matches at every position, end included) is not modelled -/
def literalTarget (t : List Char) : Bool := t ≠ []

/-! ### `condense_static_mods` -/

/-- `add_nterm_mods(mods, append=True)` / `add_cterm_mods(…)` with `mods` not None -/
def appendMods (cur : Option (List Mod)) (ms : List Mod) : Option (List Mod) :=
  match cur with
  | some l => some (l ++ ms)
  | none => some ms

/-- `add_internal_mods({index: mods}, append=True)` -/
def internalAppend (d : List (Int × List Mod)) (i : Int) (ms : List Mod) : List (Int × List Mod) :=
  match d with
  | [] => [(i, ms)]
  | (k, v) :: r => if k = i then (k, v ++ ms) :: r else (k, v) :: internalAppend r i ms

def addInternal (cur : Option (List (Int × List Mod))) (i : Int) (ms : List Mod) : Option (List (Int × List Mod)) :=
  match cur with
  | none => some [(i, ms)]
  | some d => some (internalAppend d i ms)

def addInternalAt (cur : Option (List (Int × List Mod))) (idx : List Nat) (ms : List Mod) :=
  idx.foldl (fun d i => addInternal d (Int.ofNat i) ms) cur

/-- the loop over the non-terminal keys of the map -/
def applyResidueRules (seq : List Char) (cur : Option (List (Int × List Mod))) : StaticMap → Option (List (Int × List Mod))
  | [] => cur
  | (k, ms) :: r =>
    if isTermKey k then applyResidueRules seq cur r
    else applyResidueRules seq (addInternalAt cur (targetIndices k seq) ms) r

def applyMap (a : Annotation) (m : StaticMap) : Annotation :=
  let nt := match dictGet m nTermKey with | some ms => appendMods a.nterm ms | none => a.nterm
  let ct := match dictGet m cTermKey with | some ms => appendMods a.cterm ms | none => a.cterm
  { a with static := none, nterm := nt, cterm := ct, internal := applyResidueRules a.seq a.internal m }

/-- `annotation.condense_static_mods(inplace=False)` -/
def condenseStatic (a : Annotation) : Except Err Annotation :=
  match a.static with
  | none => .ok a
  | some rules =>
    match parseStaticMods (some rules) with
    | .error e => .error e
    | .ok m => .ok (applyMap a m)

/-- all targets of the rules are literal (the domain of the correspondence) -/
def rulesLiteral (a : Annotation) : Bool :=
  match parseStaticMods a.static with
  | .ok m => m.all fun p => literalTarget p.1
  | .error _ => true

/-! ### one-residue pieces, serialisation, `count_residues` -/

def hasMods (a : Annotation) : Bool :=
  a.isotope.isSome || a.static.isSome || a.labile.isSome || a.unknown.isSome || a.nterm.isSome ||
    a.cterm.isSome || a.internal.isSome || a.intervals.isSome || a.charge.isSome || a.adducts.isSome

/-- `annotation.slice(start, stop)` for `0 ≤ start ≤ stop ≤ len` (the only calls made here) -/
def slice (a : Annotation) (start stop : Nat) : Annotation :=
  let newSeq := (a.seq.take stop).drop start
  if !hasMods a then { seq := newSeq } else
  let s : Int := Int.ofNat start
  let e : Int := Int.ofNat stop
  let newInternal := a.internal.map fun d =>
    (d.filter fun p => decide (s ≤ p.1) && decide (p.1 < e)).map fun p => (p.1 - s, p.2)
  let newIntervals := a.intervals.map fun l =>
    (l.filter fun iv => decide (iv.start < e) && decide (iv.stop > s)).map fun iv =>
      { iv with start := max 0 (iv.start - s), stop := max 0 (iv.stop - s) }
  { a with seq := newSeq, internal := newInternal, intervals := newIntervals,
           nterm := if start > 0 then none else a.nterm,
           cterm := if stop < a.seq.length then none else a.cterm }

/-- `list(annotation.split())`: every piece is a slice; the labile mods stay on the first piece only
(and only when the list is non-empty) -/
def splitPieces (a : Annotation) : List Annotation :=
  (List.range a.seq.length).map fun i =>
    let s := slice a i (i + 1)
    match a.labile with
    | some (_ :: _) => if i = 0 then s else { s with labile := none }
    | _ => { s with labile := none }

def showInt (i : Int) : List Char := (toString i).toList

def valText : ModVal → List Char
  | .int i => showInt i
  | .flt r => r
  | .str s => s

def valPositive : ModVal → Bool
  | .int i => decide (i > 0)
  | .flt r => r ≠ [] && r.head? ≠ some '-' && r.any (fun c => isDig c && c ≠ '0')
  | .str _ => false

/-- `Mod.serialize(brackets, include_plus)` -/
def serMod (o c : Char) (plus : Bool) (m : Mod) : List Char :=
  let v := if plus && valPositive m.val then '+' :: valText m.val else valText m.val
  if m.mult > 1 then [o] ++ v ++ [c] ++ ['^'] ++ showInt m.mult else [o] ++ v ++ [c]

def serMods (o c : Char) (plus : Bool) (l : List Mod) : List Char := l.flatMap (serMod o c plus)

def serStart (a : Annotation) (plus : Bool) : List Char :=
  (match a.labile with | some l => serMods '{' '}' plus l | none => []) ++
  (match a.static with | some l => serMods '<' '>' plus l | none => []) ++
  (match a.isotope with | some l => serMods '<' '>' plus l | none => []) ++
  (match a.unknown with | some l => serMods '[' ']' plus l ++ ['?'] | none => []) ++
  (match a.nterm with | some l => serMods '[' ']' plus l ++ ['-'] | none => [])

def serIntervalsAt (ivs : List Interval) (i : Int) (plus : Bool) (withStart : Bool) : List Char :=
  ivs.flatMap fun iv =>
    (if withStart && iv.start == i then ['('] ++ (if iv.ambiguous then ['?'] else []) else []) ++
    (if iv.stop == i then [')'] ++ (match iv.mods with | some l => serMods '[' ']' plus l | none => []) else [])

def internalGet (d : List (Int × List Mod)) (i : Int) : Option (List Mod) :=
  match d with
  | [] => none
  | (k, v) :: r => if k = i then some v else internalGet r i

def serMiddleAux (a : Annotation) (plus : Bool) : List Char → Nat → List Char
  | [], i => serIntervalsAt (a.intervals.getD []) (Int.ofNat i) plus false
  | aa :: r, i =>
    serIntervalsAt (a.intervals.getD []) (Int.ofNat i) plus true ++ [aa] ++
    (match a.internal with
     | some d => match internalGet d (Int.ofNat i) with | some l => serMods '[' ']' plus l | none => []
     | none => []) ++
    serMiddleAux a plus r (i + 1)

def serEnd (a : Annotation) (plus : Bool) : List Char :=
  (match a.cterm with | some (m :: l) => ['-'] ++ serMods '[' ']' plus (m :: l) | _ => []) ++
  (match a.charge with | some c => ['/'] ++ showInt c | none => []) ++   -- `is not None` since repo commit 0046c62
  (match a.adducts with | some l => serMods '[' ']' plus l | none => [])

/-- `annotation.serialize(include_plus)` -/
def serialize (a : Annotation) (plus : Bool := false) : List Char :=
  serStart a plus ++ serMiddleAux a plus a.seq 0 ++ serEnd a plus

/-- Counter as an association list in first-seen order -/
def counterAdd (d : List (List Char × Nat)) (k : List Char) : List (List Char × Nat) :=
  match d with
  | [] => [(k, 1)]
  | (k', n) :: r => if k' = k then (k', n + 1) :: r else (k', n) :: counterAdd r k

/-- `annotation.count_residues()` (no condensing; every piece inherits the global annotations) -/
def countResiduesRaw (a : Annotation) : List (List Char × Nat) :=
  ((splitPieces a).map fun p => serialize p).foldl counterAdd []

/-- `sequence_funcs.count_residues(annotation)` -/
def countResidues (a : Annotation) : Except Err (List (List Char × Nat)) :=
  match condenseStatic a with
  | .error e => .error e
  | .ok c => .ok (countResiduesRaw c)

end Static
end Pept
