import PeptVerif.Model.Mass
/-!
Model of the composition calculator: `mass_calc.py::comp_mass`, `comp`, `_pop_delta_mass_mods`,
`chem_calc.py::_sequence_comp`, `mod_comp` (multiplier scaling; the per-value resolver is a parameter),
`apply_isotope_mods_to_composition`, `parse_isotope_mods`, `_parse_charge_adducts_comp`, `_parse_adduct_comp`,
`estimate_comp`, and `ProFormaAnnotation.condense_static_mods`.  Mathlib-free.
-/
namespace Pept
open Chem Mass

namespace CompCalc

/-! ### charge carrier as a composition -/

/-- `_parse_adduct_comp`: `{symbol: count}` then `comp['e'] = -charge*count` (overwrites when the symbol is `e`) -/
def adductComp (s : List Nat) : Except Err Comp := do
  let (cnt, sym, ch) ← parseIonElements s
  pure (setKey [(sym, (cnt : Rat))] kE (-1 * (ch : Rat) * (cnt : Rat)))

/-- `_parse_charge_adducts_comp(str)` -/
def chargeAdductsCompStr (s : List Nat) : Except Err Comp :=
  (splitComma s).foldlM (fun acc a => do let c ← adductComp a; pure (addAll acc c)) ([] : Comp)

def chargeAdductsComp : ModVal → Except Err Comp
  | .str s => chargeAdductsCompStr (s.map Char.toNat)
  | _ => .error .valueError

/-- the adduct groups of the annotation in force (see `adductsValue`) -/
def effAdducts (a : Annotation) : Option ModVal :=
  match a.adducts with
  | some l => adductsValue l
  | none => none

/-- `_parse_adduct_comp(f'{n}H+')` for an integer `n` (Python builds the text and parses it back; the equality with
the parser model is checked for |n| ≤ 9 by `decide` in Props/C03 and by correspondence) -/
def protonsComp (n : Int) : Comp := [(kH, (n : Rat)), (kE, -1 * 1 * (n : Rat))]

/-- the default charge carrier of `_sequence_comp` when no adducts are given -/
def defaultCarrier (charge : Int) (ion : Key) : Except Err Comp :=
  if ion = ionP || ion = ionN then pure (addAll [] (protonsComp charge))
  else match lookup ion Gen.baseAdducts with
    | none => .error .keyError
    | some s => do
      let base ← chargeAdductsCompStr s
      pure (addAll (addAll [] (protonsComp (charge - 1))) base)

/-! ### isotope labels -/

def isDigitChar (c : Char) : Bool := isDigitCode c.toNat

/-- `parse_isotope_mods`: element → label (dict); `D`/`T` entries are moved to `H` -/
def parseIsotopeMods (mods : List Mod) : Except Err (List (Key × Key)) := do
  let m ← mods.foldlM (fun (acc : List (Key × Key)) (md : Mod) =>
    match md.val with
    | .str s =>
      -- an unknown label (`<13X>`) raises ValueError
      if (lookup (keyOfChars s) isotopicMasses).isNone then .error .valueError
      else pure (setKey acc (keyOfChars (s.filter (fun c => !isDigitChar c))) (keyOfChars s))
    | _ => .error .typeError) []
  let m := match lookup kD m with
    | some v => setKey (delKey m kD) kH v
    | none => m
  let m := match lookup kT m with
    | some v => setKey (delKey m kT) kH v
    | none => m
  pure m

/-- one entry `element ↦ label` of `apply_isotope_mods_to_composition`: the element's count moves to the label -/
def relabel1 (c : Comp) (el lab : Key) : Comp :=
  match lookup el c with
  | none => c
  | some n =>
    if el = lab then c
    else
      let c' := match lookup lab c with
        | some k => setKey c lab (k + n)
        | none => c ++ [(lab, n)]
      delKey c' el

/-- all entries of the label map, in dict order, each seeing the composition left by the previous ones -/
def relabel (c : Comp) (map : List (Key × Key)) : Comp := map.foldl (fun c p => relabel1 c p.1 p.2) c

/-- `apply_isotope_mods_to_composition` -/
def applyIsotopeMods (c : Comp) (mods : List Mod) : Except Err Comp := do
  let map ← parseIsotopeMods mods
  pure (relabel c map)

/-! ### condense_static_mods -/

/-- start indices of the non-overlapping occurrences of a literal pattern (`re.finditer` of a literal) -/
def findAll (pat : List Char) (s : List Char) : List Nat :=
  if pat.isEmpty then List.range (s.length + 1) else go s 0 (s.length + 1)
where go (s : List Char) (i fuel : Nat) : List Nat :=
  match fuel with
  | 0 => []
  | fuel + 1 =>
    match s with
    | [] => []
    | c :: r => if pat.isPrefixOf (c :: r) then i :: go ((c :: r).drop pat.length) (i + pat.length) fuel else go r (i + 1) fuel

def appendOpt (o : Option (List Mod)) (l : List Mod) : Option (List Mod) :=
  match o with
  | none => some l
  | some x => some (x ++ l)

/-- `d.setdefault(i, []).extend(mods)` on an insertion-ordered dict -/
def addAt (d : List (Int × List Mod)) (i : Int) (l : List Mod) : List (Int × List Mod) :=
  match d with
  | [] => [(i, l)]
  | (k, v) :: r => if k = i then (k, v ++ l) :: r else (k, v) :: addAt r i l

/-- `add_internal_mods({i: mods}, append=True)` -/
def addInternal (d : Option (List (Int × List Mod))) (i : Int) (l : List Mod) : Option (List (Int × List Mod)) :=
  match d with
  | none => some [(i, l)]
  | some d => some (addAt d i l)

/-- one residue-targeted rule: its mods are added at every occurrence of the target -/
def condenseRule (a : Annotation) (p : List Char × List Mod) : Annotation :=
  if p.1 = nTerm || p.1 = cTerm then a
  else (findAll p.1 a.seq).foldl (fun (a : Annotation) (i : Nat) => { a with internal := addInternal a.internal (i : Int) p.2 }) a

/-- the body of `condense_static_mods` once the rules are parsed -/
def condenseWith (a : Annotation) (map : List (List Char × List Mod)) : Annotation :=
  let a := { a with static := none }
  let a := match map.lookup nTerm with | some l => { a with nterm := appendOpt a.nterm l } | none => a
  let a := match map.lookup cTerm with | some l => { a with cterm := appendOpt a.cterm l } | none => a
  map.foldl condenseRule a

/-- `condense_static_mods(inplace=True)` -/
def condenseStatic (env : Env) (a : Annotation) : Except Err Annotation :=
  match a.static with
  | none => pure a
  | some st => do
    let map ← env.parseStatic st
    pure (condenseWith a map)

/-! ### _pop_delta_mass_mods -/

/-- one mod list: pure mass shifts are summed (times their multiplier) and removed, the others are kept -/
def popList (env : Env) (l : List Mod) : Except Err (Rat × List Mod) :=
  l.foldrM (fun m (acc : Rat × List Mod) => do
    let d ← (env.res m.val).delta
    match d with
    | some v => pure (acc.1 + v * (m.mult : Rat), acc.2)
    | none => pure (acc.1, m :: acc.2)) ((0 : Rat), [])

def popOpt (env : Env) : Option (List Mod) → Except Err (Rat × Option (List Mod))
  | none => pure (0, none)
  | some l => do let (d, k) ← popList env l; pure (d, some k)

def popInterval (env : Env) (iv : Interval) : Except Err (Rat × Interval) := do
  let (d, k) ← popOpt env iv.mods
  pure (d, { iv with mods := k })

def popEntry (env : Env) (p : Int × List Mod) : Except Err (Rat × (Int × List Mod)) := do
  let (d, k) ← popList env p.2
  pure (d, (p.1, k))

def popIntervals (env : Env) : Option (List Interval) → Except Err (Rat × Option (List Interval))
  | none => pure (0, none)
  | some l => do
    let rs ← l.mapM (popInterval env)
    pure (rs.foldr (fun r acc => r.1 + acc) 0, some (rs.map (·.2)))

def popInternal (env : Env) : Option (List (Int × List Mod)) → Except Err (Rat × Option (List (Int × List Mod)))
  | none => pure (0, none)
  | some l => do
    let rs ← l.mapM (popEntry env)
    pure (rs.foldr (fun r acc => r.1 + acc) 0, some (rs.map (·.2)))

/-- `_pop_delta_mass_mods`: labile, unknown, N-term, C-term, intervals, internal.
(`clear_empty_mods` only turns emptied lists into `None`, which no later step distinguishes.) -/
def popDeltaMassMods (env : Env) (a : Annotation) : Except Err (Rat × Annotation) := do
  let (d1, lab) ← popOpt env a.labile
  let (d2, unk) ← popOpt env a.unknown
  let (d3, nt) ← popOpt env a.nterm
  let (d4, ct) ← popOpt env a.cterm
  let (d5, ivs) ← popIntervals env a.intervals
  let (d6, int) ← popInternal env a.internal
  pure (d1 + d2 + d3 + d4 + d5 + d6,
    { a with labile := lab, unknown := unk, nterm := nt, cterm := ct, intervals := ivs, internal := int })

/-! ### _sequence_comp -/

/-- `mod_comp(Mod)` = `mod_comp(val)` scaled by the multiplier -/
def modComp (env : Env) (m : Mod) : Except Err Comp := do
  let c ← (env.res m.val).comp
  pure (scale (m.mult : Rat) c)

def addMods (env : Env) (acc : Comp) (l : List Mod) : Except Err Comp :=
  l.foldlM (fun acc m => do let c ← modComp env m; pure (addAll acc c)) acc

def addOptMods (env : Env) (acc : Comp) : Option (List Mod) → Except Err Comp
  | none => pure acc
  | some l => addMods env acc l

/-- the `has_static_mods()` block of `_sequence_comp` (uses `mod_comp(m.val)`: no multiplier) -/
def addStatic (env : Env) (acc : Comp) (seq : List Char) (static : Option (List Mod)) : Except Err Comp :=
  match static with
  | none => pure acc
  | some st => do
    let map ← env.parseStatic st
    let plain (acc : Comp) (l : List Mod) (k : Rat) : Except Err Comp :=
      l.foldlM (fun acc m => do let c ← (env.res m.val).comp; pure (addAll acc (scale k c))) acc
    let acc ← match map.lookup nTerm with | some l => plain acc l 1 | none => pure acc
    let acc ← match map.lookup cTerm with | some l => plain acc l 1 | none => pure acc
    map.foldlM (fun acc (p : List Char × List Mod) =>
      if p.1 = nTerm || p.1 = cTerm then pure acc else plain acc p.2 ((countSub p.1 seq : Nat) : Rat)) acc

/-- sum of `AA_COMPOSITIONS[aa]` -/
def residueComp (seq : List Char) : Except Err Comp :=
  seq.foldlM (fun acc c =>
    match lookup c.toNat Gen.aaComp with
    | none => .error .unknownAA
    | some k => pure (addAll acc k)) ([] : Comp)

/-- building the default adduct text looks the ion type up (KeyError) before anything else happens -/
def carrierCheck (a : Annotation) (ion : Key) : Except Err Unit :=
  match effAdducts a with
  | some _ => pure ()
  | none => if ion = ionP || ion = ionN || (lookup ion Gen.baseAdducts).isSome then pure () else Except.error Err.keyError

/-- the charge carrier as a composition: the stated adducts, else the default for the ion type and charge -/
def carrierComp (a : Annotation) (ion : Key) : Except Err Comp :=
  match effAdducts a with
  | some v => chargeAdductsComp v
  | none => defaultCarrier (a.charge.getD 0) ion

/-- residues + neutral fragment adjustment + charge carrier -/
def seqBaseComp (a : Annotation) (ion : Key) : Except Err Comp := do
  let seqc ← residueComp a.seq
  match lookup ion neutralAdj with
  | none => .error .keyError
  | some adj => do
    let carrier ← carrierComp a ion
    pure (addAll (addAll seqc adj) carrier)

def intervalsComp (env : Env) (acc : Comp) : Option (List Interval) → Except Err Comp
  | none => pure acc
  | some l => l.foldlM (fun acc iv => addOptMods env acc iv.mods) acc

def internalComp (env : Env) (acc : Comp) : Option (List (Int × List Mod)) → Except Err Comp
  | none => pure acc
  | some l => l.foldlM (fun acc p => addMods env acc p.2) acc

def labileComp (env : Env) (acc : Comp) (a : Annotation) (ion : Key) : Except Err Comp :=
  if ion = ionP then addOptMods env acc a.labile else pure acc

/-- the modification part: unknown, intervals, labile (precursor only), N-term, C-term, residues, global rules -/
def modsComp (env : Env) (a : Annotation) (ion : Key) : Except Err Comp := do
  let mc ← addOptMods env [] a.unknown
  let mc ← intervalsComp env mc a.intervals
  let mc ← labileComp env mc a ion
  let mc ← addOptMods env mc a.nterm
  let mc ← addOptMods env mc a.cterm
  let mc ← internalComp env mc a.internal
  addStatic env mc a.seq a.static

/-- isotope substitution: always on the sequence part, on the modification part only with `use_isotope_on_mods` -/
def applyLabels (a : Annotation) (useIso : Bool) (seqc mc : Comp) : Except Err (Comp × Comp) :=
  match a.isotope with
  | none => pure (seqc, mc)
  | some iso => do
    let s ← applyIsotopeMods seqc iso
    if useIso then do let m ← applyIsotopeMods mc iso; pure (s, m) else pure (s, mc)

/-- `_sequence_comp(annotation, ion_type, isotope, use_isotope_on_mods)` -/
def sequenceComp (env : Env) (a : Annotation) (ion : Key) (isotope : Int) (useIso : Bool) : Except Err Comp := do
  carrierCheck a ion
  if a.seq.contains 'B' then .error .ambiguousAA
  else if a.seq.contains 'Z' then .error .ambiguousAA
  else do
    let seqc ← seqBaseComp a ion
    let mc ← modsComp env a ion
    let mc := addKey mc kNn (isotope : Rat)
    let (seqc, mc) ← applyLabels a useIso seqc mc
    pure (dropZeros (addAll (addAll [] seqc) mc))

/-- the argument overrides of `comp_mass` on its private copy -/
def overrideArgs (a : Annotation) (charge : Option Int) (adducts : Option ModVal) (isoMods : Option (List Mod)) : Annotation :=
  let a := match charge with | some c => { a with charge := some c } | none => a
  let a := match adducts with | some v => { a with adducts := some [⟨v, 1⟩] } | none => a
  match isoMods with | some l => { a with isotope := some l } | none => a

/-- labile modifications belong to the precursor only: `if ion_type != 'p': annotation.pop_labile_mods()` -/
def dropLabile (a : Annotation) (ion : Key) : Annotation := if ion = ionP then a else { a with labile := none }

/-- `clear_empty_mods` (inside `_pop_delta_mass_mods`) turns an empty adduct list into None -/
def clearEmptyAdducts (a : Annotation) : Annotation :=
  match a.adducts with | some [] => { a with adducts := none } | _ => a

/-- is `pat` a substring of `s` (`target in annotation.sequence`) -/
def isInfix (pat s : List Char) : Bool := !(findAll pat s).isEmpty

/-- one rule whose target does not occur: its modifications are resolved on a probe residue, so that an unresolvable one
raises (the result is discarded) -/
def probeRule (env : Env) (seq : List Char) (p : List Char × List Mod) : Except Err Unit :=
  if p.1 = nTerm || p.1 = cTerm || isInfix p.1 seq then pure ()
  else do
    let (_, kept) ← popList env p.2
    let _ ← addMods env [] kept
    pure ()

/-- the check `comp_mass` makes before condensing: global rules whose target residue does not occur -/
def staticProbe (env : Env) (a : Annotation) : Except Err Unit :=
  match a.static with
  | none => pure ()
  | some st => do
    let map ← env.parseStatic st
    map.foldlM (fun (_ : Unit) p => probeRule env a.seq p) ()

/-- `comp_mass(annotation, ion_type, charge, isotope, charge_adducts, isotope_mods, use_isotope_on_mods)` -/
def compMass : CompMassFn := fun env a ion charge isotope adducts isoMods useIso => do
  staticProbe env (overrideArgs a charge adducts isoMods)
  let a ← condenseStatic env (overrideArgs a charge adducts isoMods)
  let (delta, a) ← popDeltaMassMods env (dropLabile a ion)
  let c ← sequenceComp env (clearEmptyAdducts a) ion isotope useIso
  pure (c, delta)

/-- `estimate_comp(neutral_mass, isotopic_mods)` -/
def estimateComp (m : Rat) (iso : Option (List Mod)) : Except Err Comp :=
  let c : Comp := Gen.averagine.map (fun p => (p.1, p.2 * m / isotopicAveragineMass))
  match iso with
  | none => pure c
  | some l => applyIsotopeMods c l

/-- `comp(annotation, ion_type, estimate_delta, charge, isotope, charge_adducts, isotope_mods, use_isotope_on_mods)` -/
def comp (env : Env) (a : Annotation) (ion : Key) (estimate : Bool) (charge : Option Int) (isotope : Int)
    (adducts : Option ModVal) (isoMods : Option (List Mod)) (useIso : Bool) : Except Err Comp := do
  let (c, d) ← compMass env a ion charge isotope adducts isoMods useIso
  if d = 0 then pure c
  else if !estimate then .error .valueError
  else do
    -- `annotation.isotope_mods` of the caller's annotation (the `isotope_mods` argument is not consulted here)
    let e ← estimateComp d (if useIso then a.isotope else none)
    pure (addAll c e)

end CompCalc

namespace Mass
/-- `mass(...)` -/
def mass (env : Env) (a : Annotation) (o : Opts) : Except Err Rat := massWith CompCalc.compMass env a o
/-- `mz(...)` -/
def mz (env : Env) (a : Annotation) (o : Opts) : Except Err Rat := mzWith CompCalc.compMass env a o
end Mass
end Pept
