import PeptVerif.Model.Annotation
/-!
# Model of `sequence/mod_builder.py` (property C13)

`apply_static_mods`, `_apply_variable_mods_rec`, `_variable_mods_builder`, `apply_variable_mods`, together with the
parts of `ProFormaAnnotation` they call (`has_internal_mods_at_index`, `add_internal_mod`, `add_nterm_mods`,
`add_cterm_mods`, `count_modified_residues`, `__eq__`) and of `proforma/input_convert.py`
(`fix_list_of_mods`, `fix_list_of_list_of_mods`, `remove_empty_list_of_list_of_mods`).

Regex targets are **site lists**: for every rule the harness sends
`list(get_regex_match_indices(annotation.sequence, regex_str, offset=-1))`, computed by the implementation's own matcher.
The regex engine is outside the model. Mathlib-free.

The internal-mod dict is an insertion-ordered association list with distinct keys (Python `dict`).
-/
namespace Pept
namespace ModBuilder

inductive Mode where
  | skip | append | overwrite
  deriving DecidableEq, Repr, Inhabited

abbrev Group := List Mod
abbrev IMods := List (Int × List Mod)

/-! ### the Python dict of internal mods -/

/-- `d.get(i)` -/
def lookup : IMods → Int → Option (List Mod)
  | [], _ => none
  | (k, v) :: r, i => if k = i then some v else lookup r i

/-- `d[i] = v` (position of an existing key is kept, a new key goes to the end) -/
def setKey : IMods → Int → List Mod → IMods
  | [], i, v => [(i, v)]
  | (k, w) :: r, i, v => if k = i then (k, v) :: r else (k, w) :: setKey r i v

/-- `d[i].extend(v)` if `i in d` else `d[i] = v` -/
def extendKey : IMods → Int → List Mod → IMods
  | [], i, v => [(i, v)]
  | (k, w) :: r, i, v => if k = i then (k, w ++ v) :: r else (k, w) :: extendKey r i v

/-- view of the internal mods as a dict, `None` read as `{}` -/
def imods (a : Annotation) : IMods := a.internal.getD []

/-- `annotation.get_internal_mods_by_index(i)` -/
def modsAt (a : Annotation) (i : Int) : Option (List Mod) := lookup (imods a) i

/-- `annotation.has_internal_mods_at_index(i)` -/
def hasInternalAt (a : Annotation) (i : Int) : Bool := (modsAt a i).isSome

/-- `annotation.count_modified_residues()` -/
def countModified (a : Annotation) : Nat := (imods a).length

/-- `annotation.add_internal_mod(i, mods, append)` for a list `mods` of `Mod` (never `None` here) -/
def addInternal (a : Annotation) (i : Int) (mods : List Mod) (append : Bool) : Annotation :=
  { a with internal := some (if append then extendKey (imods a) i mods else setKey (imods a) i mods) }

/-- `annotation.add_nterm_mods(mods, append)` -/
def addNterm (a : Annotation) (mods : List Mod) (append : Bool) : Annotation :=
  if append then
    match a.nterm with
    | some l => { a with nterm := some (l ++ mods) }
    | none => { a with nterm := some mods }
  else { a with nterm := some mods }

/-- `annotation.add_cterm_mods(mods, append)` -/
def addCterm (a : Annotation) (mods : List Mod) (append : Bool) : Annotation :=
  if append then
    match a.cterm with
    | some l => { a with cterm := some (l ++ mods) }
    | none => { a with cterm := some mods }
  else { a with cterm := some mods }

/-! ### `ProFormaAnnotation.__eq__` (multiset comparison of every mod list) -/

/-- `are_mods_equal` : `Counter(mods1) == Counter(mods2)` -/
def modsEq : Option (List Mod) → Option (List Mod) → Bool
  | none, none => true
  | some a, some b => a.isPerm b
  | _, _ => false

def intervalEq (x y : Interval) : Bool :=
  x.start == y.start && x.stop == y.stop && x.ambiguous == y.ambiguous && modsEq x.mods y.mods

instance : BEq Interval := ⟨intervalEq⟩

def intervalsEq : Option (List Interval) → Option (List Interval) → Bool
  | none, none => true
  | some a, some b => a.length == b.length && a.isPerm b
  | _, _ => false

def annotEq (x y : Annotation) : Bool :=
  x.seq == y.seq && modsEq x.labile y.labile && modsEq x.unknown y.unknown && modsEq x.nterm y.nterm &&
  modsEq x.cterm y.cterm && modsEq x.adducts y.adducts && modsEq x.isotope y.isotope && modsEq x.static y.static &&
  (((imods x).map (·.1) ++ (imods y).map (·.1)).all fun k => modsEq (modsAt x k) (modsAt y k)) &&
  intervalsEq x.intervals y.intervals && x.charge == y.charge

/-! ### `input_convert.py` -/

/-- `Union[List[ModValue], ModValue]` after `convert_to_mod` (which is outside the model) -/
inductive ModsIn where
  | one (m : Mod)
  | many (l : List Mod)
  deriving DecidableEq, Repr, Inhabited

/-- `fix_list_of_mods` -/
def fixListOfMods : ModsIn → List Mod
  | .one m => [m]
  | .many l => l

/-- `Union[List[List[ModValue]], List[ModValue], ModValue]`; a Python list all of whose items are scalars (also `[]`)
is `flat`, any other list is `nested` -/
inductive VarIn where
  | one (m : Mod)
  | flat (l : List Mod)
  | nested (l : List ModsIn)
  deriving DecidableEq, Repr, Inhabited

/-- `fix_list_of_list_of_mods` -/
def fixListOfListOfMods : VarIn → List (List Mod)
  | .one m => [[m]]
  | .flat l => [l]
  | .nested l => l.map fixListOfMods

/-- `remove_empty_list_of_list_of_mods` -/
def removeEmpty (l : List (List Mod)) : Option (List (List Mod)) :=
  let r := l.filter (fun g => !g.isEmpty)
  if r.isEmpty then none else some r

/-- a rule after the regex has been replaced by its sites: `(sites, value)` -/
abbrev Rule (α : Type) := List Int × α

/-- the N- or C-terminal argument: `None`, a dict of rules, or a bare value (then the regex is `''`) -/
inductive TermIn (α : Type) where
  | none
  | dict (rules : List (Rule α))
  | direct (v : α)
  deriving Repr, Inhabited

/-- Python `len(x)` of a bare static value that is a list; scalars count as present -/
def ModsIn.present : ModsIn → Bool
  | .one _ => true
  | .many l => !l.isEmpty

def VarIn.present : VarIn → Bool
  | .one _ => true
  | .flat l => !l.isEmpty
  | .nested l => !l.isEmpty

/-! ### `apply_static_mods` -/

/-- body of the loop over internal rules (the test is on the *original* annotation, the write on the new one) -/
def staticInternalStep (orig : Annotation) (mode : Mode) (mods : List Mod) (new : Annotation) (i : Int) :
    Annotation :=
  if hasInternalAt orig i then
    match mode with
    | .overwrite => addInternal new i mods false
    | .append => addInternal new i mods true
    | .skip => new
  else addInternal new i mods true

def staticNtermStep (orig : Annotation) (mode : Mode) (mods : List Mod) (new : Annotation) (i : Int) :
    Annotation :=
  if i = 0 then
    if orig.nterm.isSome then
      match mode with
      | .overwrite => addNterm new mods false
      | .append => addNterm new mods true
      | .skip => new
    else addNterm new mods true
  else new

def staticCtermStep (orig : Annotation) (mode : Mode) (mods : List Mod) (new : Annotation) (i : Int) :
    Annotation :=
  if i = (orig.seq.length : Int) - 1 then
    if orig.cterm.isSome then
      match mode with
      | .overwrite => addCterm new mods false
      | .append => addCterm new mods true
      | .skip => new
    else addCterm new mods true
  else new

/-- `{k: v for k, v in d.items() if v}` -/
def dropEmpty (rules : List (Rule (List Mod))) : List (Rule (List Mod)) :=
  rules.filter fun r => !r.2.isEmpty

def runRules (step : List Mod → Annotation → Int → Annotation) (rules : List (Rule (List Mod)))
    (new : Annotation) : Annotation :=
  rules.foldl (fun new r => r.1.foldl (step r.2) new) new

/-- the part of `apply_static_mods` after the arguments have been brought to dict form -/
def applyStaticCore (a : Annotation) (internal nterm cterm : List (Rule (List Mod))) (mode : Mode) : Annotation :=
  let new := a
  let new := runRules (staticInternalStep a mode) (dropEmpty internal) new
  let new := runRules (staticNtermStep a mode) (dropEmpty nterm) new
  runRules (staticCtermStep a mode) (dropEmpty cterm) new

/-- the `isinstance` cascade for `nterm_mods` / `cterm_mods`; `emptySites` are the sites of the regex `''` -/
def staticTermRules (emptySites : List Int) : TermIn ModsIn → List (Rule (List Mod))
  | .none => []
  | .dict rules => rules.map fun r => (r.1, fixListOfMods r.2)
  | .direct v => if v.present then [(emptySites, fixListOfMods v)] else []

/-- `apply_static_mods(annotation, internal_mods, nterm_mods, cterm_mods, mode, 'annotation')` -/
def applyStatic (a : Annotation) (internal : Option (List (Rule ModsIn))) (nterm cterm : TermIn ModsIn)
    (mode : Mode) (emptySites : List Int) : Annotation :=
  let internal := match internal with
    | some rules => rules.map fun r => (r.1, fixListOfMods r.2)
    | none => []
  applyStaticCore a internal (staticTermRules emptySites nterm) (staticTermRules emptySites cterm) mode

/-! ### `_apply_variable_mods_rec` -/

/-- `new_mod_map`: site ↦ offered groups, insertion ordered -/
abbrev ModMap := List (Int × List Group)

def mapGet : ModMap → Int → Option (List Group)
  | [], _ => none
  | (k, v) :: r, i => if k = i then some v else mapGet r i

/-- `m.setdefault(i, []).append(g)` -/
def mapPush : ModMap → Int → Group → ModMap
  | [], i, g => [(i, [g])]
  | (k, v) :: r, i, g => if k = i then (k, v ++ [g]) :: r else (k, v) :: mapPush r i g

/-- what one offered group does at `index` (none = `continue`) -/
def varStep (mode : Mode) (a : Annotation) (index : Int) (g : Group) : Option Annotation :=
  if hasInternalAt a index then
    match mode with
    | .overwrite => some (addInternal a index g false)
    | .append => some (addInternal a index g true)
    | .skip => none
  else some (addInternal a index g true)

/-- `_apply_variable_mods_rec(mods, annotation, index, max_mod_count, mode)` with `rem = len(sequence) - index`
(the Python test `index == len(annotation.sequence)` is `rem = 0`; the sequence never changes in the recursion).
The generator is modelled by the list of the values it yields, in order. -/
def varRec (m : ModMap) (mode : Mode) (maxCount : Int) : (rem : Nat) → (index : Nat) → Annotation → List Annotation
  | 0, _, a => [a]
  | rem + 1, index, a =>
    if (countModified a : Int) = maxCount then [a]
    else
      (match mapGet m (index : Int) with
        | none => []
        | some groups => groups.flatMap fun g =>
            match varStep mode a (index : Int) g with
            | some a' => varRec m mode maxCount rem (index + 1) a'
            | none => [])
      ++ varRec m mode maxCount rem (index + 1) a

/-- the three nested loops that fill `new_mod_map` -/
def buildModMap (rules : List (Rule (List Group))) : ModMap :=
  rules.foldl (fun m r => r.1.foldl (fun m i => r.2.foldl (fun m g => mapPush m i g) m) m) []

/-- `_variable_mods_builder(annotation, mod_map, max_mods, mode)` -/
def variableBuilder (a : Annotation) (rules : List (Rule (List Group))) (maxMods : Int) (mode : Mode) :
    List Annotation :=
  varRec (buildModMap rules) mode (maxMods + (countModified a : Int)) a.seq.length 0 a

/-! ### `apply_variable_mods` -/

/-- dict comprehension `fix_list_of_list_of_mods`, then `remove_empty…`, then `if v` -/
def varRules (rules : List (Rule VarIn)) : List (Rule (List Group)) :=
  rules.filterMap fun r =>
    match removeEmpty (fixListOfListOfMods r.2) with
    | some gs => some (r.1, gs)
    | none => none

def varTermRules (emptySites : List Int) : TermIn VarIn → List (Rule (List Group))
  | .none => []
  | .dict rules => varRules rules
  | .direct v => if v.present then varRules [(emptySites, v)] else []

/-- the terminal variants: every `(rule, group)` pair as its own one-rule dict -/
def termPairs (rules : List (Rule (List Group))) : List (Rule Group) :=
  rules.flatMap fun r => r.2.map fun g => (r.1, g)

/-- `apply_static_mods(x, {}, nterm_mods={regex: mods}, mode=mode, return_type='annotation')` -/
def nWith (mode : Mode) (x : Annotation) (p : Rule Group) : Annotation := applyStaticCore x [] [p] [] mode

/-- `apply_static_mods(x, {}, cterm_mods={regex: mods}, mode=mode, return_type='annotation')` -/
def cWith (mode : Mode) (x : Annotation) (p : Rule Group) : Annotation := applyStaticCore x [] [] [p] mode

/-- N-terminal variants of `a` that differ from `a` (`!=` is `ProFormaAnnotation.__eq__`) -/
def nBases (mode : Mode) (a : Annotation) (nt : List (Rule (List Group))) : List Annotation :=
  (termPairs nt).filterMap fun p =>
    let na := nWith mode a p
    if annotEq na a then none else some na

/-- `apply_variable_mods` **as repaired** (fix: cross the C-terminal rules with the N-terminal *base* variants,
not with the already expanded list): the value of `var_annotations` that is returned -/
def applyVariableCore (a : Annotation) (internal nt ct : List (Rule (List Group))) (maxMods : Int) (mode : Mode) :
    List Annotation :=
  let bases := nBases mode a nt
  let nTermAnnotations := bases.flatMap fun na => variableBuilder na internal maxMods mode
  let varAnnotations := (termPairs ct).flatMap fun p =>
    (bases.flatMap fun nb =>
      let ca := cWith mode nb p
      if annotEq ca nb then [] else variableBuilder ca internal maxMods mode)
    ++ (let ca := cWith mode a p
        if annotEq ca a then [] else variableBuilder ca internal maxMods mode)
  let varAnnotations := varAnnotations ++ variableBuilder a internal maxMods mode
  nTermAnnotations ++ varAnnotations

/-- the code before the repair (kept for the counter-example theorem): the C-terminal loop runs over
`n_term_annotations`, i.e. over forms that already carry internal variable mods, and expands them again -/
def applyVariableCoreOld (a : Annotation) (internal nt ct : List (Rule (List Group))) (maxMods : Int) (mode : Mode) :
    List Annotation :=
  let bases := nBases mode a nt
  let nTermAnnotations := bases.flatMap fun na => variableBuilder na internal maxMods mode
  let varAnnotations := (termPairs ct).flatMap fun p =>
    (nTermAnnotations.flatMap fun nb =>
      let ca := cWith mode nb p
      if annotEq ca nb then [] else variableBuilder ca internal maxMods mode)
    ++ (let ca := cWith mode a p
        if annotEq ca a then [] else variableBuilder ca internal maxMods mode)
  let varAnnotations := varAnnotations ++ variableBuilder a internal maxMods mode
  nTermAnnotations ++ varAnnotations

/-- `apply_variable_mods(annotation, internal_mods, max_mods, nterm_mods, cterm_mods, mode, 'annotation')` -/
def applyVariable (a : Annotation) (internal : Option (List (Rule VarIn))) (maxMods : Int)
    (nterm cterm : TermIn VarIn) (mode : Mode) (emptySites : List Int) : List Annotation :=
  let internal := match internal with
    | some rules => varRules rules
    | none => []
  applyVariableCore a internal (varTermRules emptySites nterm) (varTermRules emptySites cterm) maxMods mode

def applyVariableOld (a : Annotation) (internal : Option (List (Rule VarIn))) (maxMods : Int)
    (nterm cterm : TermIn VarIn) (mode : Mode) (emptySites : List Int) : List Annotation :=
  let internal := match internal with
    | some rules => varRules rules
    | none => []
  applyVariableCoreOld a internal (varTermRules emptySites nterm) (varTermRules emptySites cterm) maxMods mode

end ModBuilder
end Pept
