import PeptVerif.Model.CondenseMass
/-!
Wire codec for the environment (`AbsMass.Env`) used by the C12 / C18 drivers. Mathlib-free.

Fields (each one protocol field, see `harness/props/c12.py: env_fields`):
`RES  A=n/d,C=n/d`            residue masses
`MU   <val>=n/d,…`            mod_mass per modification value (`Wire.showVal` keys)
`ADJ  n/d`
`AAC  A=<comp>;C=<comp>`      residue compositions, `<comp>` = `el:n/d,el:n/d`
`MR   <val>=c<comp>;<val>=dn/d;<val>=b`
`ION  <comp>`   `CHG <comp>`   `EM el:n/d,…` (its keys are also the labels `parse_isotope_mods` accepts)
`FLG  isotope,ionP,useIsotopeOnMods,deltaIgnoresMult,labileDeltaAnyIon`
`NTC <comp>`   `CTC <comp>`   terminal H / OH
-/
namespace Pept
namespace AbsWire
open Static AbsMass

def parseRat? (s : String) : Option Rat :=
  match s.splitOn "/" with
  | [n, d] => do
    let n ← n.toInt?
    let d ← d.toNat?
    if d = 0 then none else pure (mkRat n d)
  | [n] => (n.toInt?).map fun i => (i : Rat)
  | _ => none

def showRat (q : Rat) : String := toString q.num ++ "/" ++ toString q.den

def parseList? {α} (sep : String) (f : String → Option α) (s : String) : Option (List α) :=
  if s.isEmpty then some [] else (s.splitOn sep).mapM f

def parseKV? {α β : Type} (sep : String) (fk : String → Option α) (fv : String → Option β) (s : String) : Option (α × β) :=
  match s.splitOn sep with
  | [k, v] => do
    let k ← fk k
    let v ← fv v
    pure (k, v)
  | _ => none

def parseComp? (s : String) : Option Comp :=
  parseList? "," (parseKV? ":" Wire.unesc parseRat?) s

def showComp (c : Comp) : String := ",".intercalate (c.map fun p => Wire.esc p.1 ++ ":" ++ showRat p.2)

def parseChar? (s : String) : Option Char :=
  match Wire.unesc s with
  | some [c] => some c
  | _ => none

def parseModRes? (s : String) : Option ModRes :=
  match s.toList with
  | 'c' :: r => (parseComp? (String.ofList r)).map .comp
  | 'd' :: r => (parseRat? (String.ofList r)).map .delta
  | ['b'] => some .bad
  | _ => none

def lookupD {α β} [DecidableEq α] (l : List (α × β)) (d : β) (k : α) : β :=
  match l with
  | [] => d
  | (k', v) :: r => if k' = k then v else lookupD r d k

def parseEnv? (res mu adj aac mr ion chg em flg ntc ctc : String) : Option Env := do
  let res ← parseList? "," (parseKV? "=" parseChar? parseRat?) res
  let mu ← parseList? "," (parseKV? "=" Wire.parseVal? parseRat?) mu
  let adj ← parseRat? adj
  let aac ← parseList? ";" (parseKV? "=" parseChar? parseComp?) aac
  let mr ← parseList? ";" (parseKV? "=" Wire.parseVal? parseModRes?) mr
  let ion ← parseComp? ion
  let chg ← parseComp? chg
  let em ← parseComp? em
  let flg ← Proto.parseIntList? flg
  let ntc ← parseComp? ntc
  let ctc ← parseComp? ctc
  match flg with
  | [iso, ionP, useIso, q1, q2] =>
    pure { res := lookupD res 0, mu := lookupD mu 0, adj := adj, aaComp := lookupD aac [],
           modRes := lookupD mr .bad, ionAdj := ion, chargeComp := chg, em := lookupD em 0,
           ntermComp := ntc, ctermComp := ctc, knownLabel := fun k => compHas em k, isotope := iso, ionP := ionP != 0, useIsotopeOnMods := useIso != 0,
           q := { deltaIgnoresMult := q1 != 0, labileDeltaAnyIon := q2 != 0 } }
  | _ => none

def showExcept {α} (f : α → String) : Except Err α → String
  | .ok v => f v
  | .error e => e.show

/-- every modification value the mass model may look up: the fields and the mods inside the static rules -/
def modsOf (a : Annotation) : List ModVal :=
  let fields := (allMods a).map (·.val)
  match parseStaticMods a.static with
  | .ok m => fields ++ (m.flatMap fun p => p.2.map (·.val))
  | .error _ => fields

def showStaticMap (m : StaticMap) : String :=
  ";".intercalate (m.map fun p => Wire.esc p.1 ++ "=" ++ Wire.showModsWith "&" p.2)

def showCounter (c : List (List Char × Nat)) : String :=
  ",".intercalate (c.map fun p => Wire.esc p.1 ++ "*" ++ toString p.2)

end AbsWire
end Pept
