import PeptVerif.Model.Parser
/-!
# The serializer (`_serialize_annotation_start/middle/end`, `MultiProFormaAnnotation.serialize`,
proforma_parser.py:2456-2548 and 1978-1995)

`plus : Plus` generalises `include_plus` (`constPlus b` is the Python behaviour).
Python truthiness is kept: `has_x()` is `is not None`; `if annotation.x:` is "not None and not empty"
(`charge`: `is not None` since fix 0046c62).
-/
namespace Pept

/-- `for mod in x: comps.append(mod.serialize(...))` guarded by `is not None` or by truthiness (same text) -/
def optMods (o c : Char) (plus : Plus) : Option (List Mod) → List Char
  | none => []
  | some l => serializeMods o c plus l

/-- fixed order: labile `{}`, static `<>`, isotope `<>`, unknown `[]…?`, N-term `[]…-` -/
def serializeStart (plus : Plus) (a : Annotation) : List Char :=
  optMods '{' '}' plus a.labile ++ optMods '<' '>' plus a.static ++ optMods '<' '>' plus a.isotope ++
  (match a.unknown with
   | none => []
   | some l => serializeMods '[' ']' plus l ++ ['?']) ++
  (match a.nterm with
   | none => []
   | some l => serializeMods '[' ']' plus l ++ ['-'])

/-- the marks one interval contributes in front of residue `i` (`withStart = false` for the pass after the
last residue, which only closes) -/
def ivMark (plus : Plus) (i : Int) (withStart : Bool) (iv : Interval) : List Char :=
  (if withStart ∧ iv.start = i then '(' :: (if iv.ambiguous then ['?'] else []) else []) ++
  (if iv.stop = i then ')' :: optMods '[' ']' plus iv.mods else [])

def ivMarks (plus : Plus) (ivs : Option (List Interval)) (i : Int) (withStart : Bool) : List Char :=
  (ivs.getD []).flatMap (ivMark plus i withStart)

/-- `annotation.internal_mods[i]` (first entry with that key) -/
def dictGet (k : Int) : List (Int × List Mod) → Option (List Mod)
  | [] => none
  | (k', v) :: t => if k' = k then some v else dictGet k t

def internalAt (plus : Plus) (d : Option (List (Int × List Mod))) (i : Int) : List Char :=
  match d with
  | none => []
  | some l => optMods '[' ']' plus (dictGet i l)

/-- the `for i, aa in enumerate(sequence)` loop from index `i` on, then the closing pass at `len(sequence)` -/
def serializeResidues (plus : Plus) (a : Annotation) : Int → List Char → List Char
  | i, [] => ivMarks plus a.intervals i false
  | i, aa :: rest =>
    ivMarks plus a.intervals i true ++ aa :: (internalAt plus a.internal i ++
      serializeResidues plus a (i + 1) rest)

def serializeMiddle (plus : Plus) (a : Annotation) : List Char :=
  serializeResidues plus a 0 a.seq

def serializeEnd (plus : Plus) (a : Annotation) : List Char :=
  (match a.cterm with
   | none => []
   | some [] => []
   | some l => '-' :: serializeMods '[' ']' plus l) ++
  (match a.charge with
   | none => []
   | some ch => '/' :: intText ch) ++
  optMods '[' ']' plus a.adducts

/-- `ProFormaAnnotation.serialize` -/
def serialize (plus : Plus) (a : Annotation) : List Char :=
  serializeStart plus a ++ serializeMiddle plus a ++ serializeEnd plus a

/-- what `MultiProFormaAnnotation.serialize` writes for a `True` connection: two backslashes (`r'\\\\'`), although the
parser reads `//` (known finding KF-C01-crosslink-backslash). The day the joiner is repaired only this constant changes. -/
def crosslinkJoinerAsCoded : List Char := ['\\', '\\']

/-- the joiner the parser reads -/
def crosslinkJoinerFixed : List Char := ['/', '/']

/-- `MultiProFormaAnnotation.serialize` with the crosslink joiner as a parameter: `connection is True` writes `xj`,
anything else writes `+`. `self.connections[i]` past the end of the list is an IndexError. -/
def serializeMultiWith (xj : List Char) (plus : Plus) : List Annotation → List (Option Bool) → Except Err (List Char)
  | [], _ => .ok []
  | [a], _ => .ok (serialize plus a)
  | a :: b :: rest, conns =>
    match conns with
    | [] => .error .index
    | cn :: conns' =>
      match serializeMultiWith xj plus (b :: rest) conns' with
      | .error e => .error e
      | .ok t => .ok (serialize plus a ++ (if cn = some true then xj else ['+']) ++ t)

/-- the code as it is -/
def serializeMulti (plus : Plus) : List Annotation → List (Option Bool) → Except Err (List Char) :=
  serializeMultiWith crosslinkJoinerAsCoded plus

/-- the serializer with the corrected joiner (not the code: used to state the round trip relative to the repair) -/
def serializeMultiFixed (plus : Plus) : List Annotation → List (Option Bool) → Except Err (List Char) :=
  serializeMultiWith crosslinkJoinerFixed plus

def serializeParsed (plus : Plus) : Parsed → Except Err (List Char)
  | .single a => .ok (serialize plus a)
  | .multi as conns => serializeMulti plus as conns

end Pept
