import PeptVerif.Model.Annotation
/-!
# Modification values as text (C01 / C09)

Model of `util.convert_type` (Python `int()` / `float()` on ASCII text), of `str(val)` and of
`Mod.serialize` (proforma_dataclasses.py:22-42). Mathlib-free.

Domain statement (what is modelled exactly and what is carried opaquely):
* `int()`: surrounding ASCII whitespace (code points 9-13 and 32), one optional sign, decimal digits with
  single underscores between digits. Exact for every ASCII string shorter than CPython's 4300-digit limit.
* `float()`: same whitespace / sign / underscore rules, `inf`, `infinity`, `nan` (any case), decimal
  mantissa with optional fraction and exponent. The value is kept as the text of Python's `repr`:
  exact when the number has at most 15 significant digits and its decimal point position lies in
  [-290, 300] (then `repr` is the normalised decimal, positional for -4 < decpt <= 16, scientific otherwise).
  Any other accepted number is kept as `'~' :: <normalised text>` ("opaque": right class `float`, right value
  when read back with `float()`, but not Python's `repr` text). The harness compares such values numerically.
* non-ASCII digits / spaces accepted by CPython are outside the model.
-/
namespace Pept

/-- Python exception classes as values. `format` = `ProFormaFormatError`, `value` = any other `ValueError`;
both are the "ValueError family". `hang` is not a Python exception: it marks a chain-loop iteration that
consumed no input (the Python `while` would spin forever); `Props/C09` proves it is never produced. -/
inductive Err where
  | format | value | index | type | key | attr | hang
  deriving DecidableEq, Repr, Inhabited

def Err.name : Err → String
  | .format => "ProFormaFormatError"
  | .value => "ValueError"
  | .index => "IndexError"
  | .type => "TypeError"
  | .key => "KeyError"
  | .attr => "AttributeError"
  | .hang => "HANG"

def Err.valueFamily : Err → Bool
  | .format => true
  | .value => true
  | _ => false

instance {ε α : Type} [DecidableEq ε] [DecidableEq α] : DecidableEq (Except ε α) := fun a b =>
  match a, b with
  | .ok x, .ok y => if h : x = y then isTrue (by rw [h]) else isFalse (by intro h'; cases h'; exact h rfl)
  | .error x, .error y => if h : x = y then isTrue (by rw [h]) else isFalse (by intro h'; cases h'; exact h rfl)
  | .ok _, .error _ => isFalse (by intro h; cases h)
  | .error _, .ok _ => isFalse (by intro h; cases h)

/-! ### Python `int()` / `float()` -/

/-- the ASCII characters `int()` / `float()` strip (measured on CPython 3.12: 9-13 and 32; 28-31 are not) -/
def isPySpace (c : Char) : Bool :=
  (9 ≤ c.toNat && c.toNat ≤ 13) || c.toNat = 32

def pyStrip (s : List Char) : List Char :=
  ((s.dropWhile isPySpace).reverse.dropWhile isPySpace).reverse

/-- longest prefix `digit ('_'? digit)*`; returns its digits (underscores removed) and the rest.
`prev` = the previous character was a digit (an underscore is allowed only between two digits). -/
def digitsUS : Bool → List Char → List Char × List Char
  | _, [] => ([], [])
  | prev, c :: rest =>
    if c.isDigit then
      let r := digitsUS true rest
      (c :: r.1, r.2)
    else if c = '_' ∧ prev = true then
      match rest with
      | d :: _ => if d.isDigit then digitsUS false rest else ([], c :: rest)
      | [] => ([], c :: rest)
    else ([], c :: rest)

/-- optional sign: (negative?, rest) -/
def splitSign : List Char → Bool × List Char
  | '+' :: r => (false, r)
  | '-' :: r => (true, r)
  | r => (false, r)

/-- Python `int(s)` for ASCII `s`; `none` = ValueError -/
def pyInt? (s : List Char) : Option Int :=
  let t := pyStrip s
  let sg := splitSign t
  let d := digitsUS false sg.2
  if d.1 = [] ∨ d.2 ≠ [] then none
  else
    let n : Int := Int.ofNat (Nat.ofDigitChars 10 d.1 0)
    some (if sg.1 then -n else n)

def natText (n : Nat) : List Char := Nat.toDigits 10 n

/-- Python `str(i)` -/
def intText (i : Int) : List Char :=
  if i < 0 then '-' :: natText i.natAbs else natText i.natAbs

/-- decimal mantissa digits (leading/trailing zeros kept) and power of ten; `none` = not a decimal literal -/
def parseDecimal? (u : List Char) : Option (List Char × Int) :=
  let ip := digitsUS false u
  let fp : List Char × List Char :=
    match ip.2 with
    | '.' :: r => digitsUS false r
    | r => ([], r)
  if ip.1 = [] ∧ fp.1 = [] then none
  else
    let mant := ip.1 ++ fp.1
    let sh : Int := - Int.ofNat fp.1.length
    match fp.2 with
    | [] => some (mant, sh)
    | e :: r3 =>
      if e = 'e' ∨ e = 'E' then
        let sg := splitSign r3
        let ed := digitsUS false sg.2
        if ed.1 = [] ∨ ed.2 ≠ [] then none
        else
          let x : Int := Int.ofNat (Nat.ofDigitChars 10 ed.1 0)
          some (mant, sh + (if sg.1 then -x else x))
      else none

def zeros (n : Nat) : List Char := List.replicate n '0'

/-- exponent field of Python's scientific `repr`: sign and at least two digits -/
def expText (x : Int) : List Char :=
  let d := natText x.natAbs
  (if x < 0 then '-' else '+') :: (if d.length < 2 then '0' :: d else d)

/-- `repr(float(text))` for the decimal `±0.mant × 10^…` given as mantissa digits and exponent -/
def reprOfDecimal (neg : Bool) (mant : List Char) (e : Int) : List Char :=
  let m1 := mant.dropWhile (· == '0')
  let m2r := m1.reverse.dropWhile (· == '0')
  let tz := m1.length - m2r.length
  let D := m2r.reverse
  let e' : Int := e + Int.ofNat tz
  let sign : List Char := if neg then ['-'] else []
  match D with
  | [] => sign ++ ['0', '.', '0']
  | d0 :: dtl =>
    let nd := D.length
    let decpt : Int := Int.ofNat nd + e'
    if nd > 15 ∨ decpt < -290 ∨ decpt > 300 then
      '~' :: sign ++ D ++ 'e' :: intText e'
    else if -4 < decpt ∧ decpt ≤ 16 then
      if decpt ≤ 0 then sign ++ '0' :: '.' :: zeros (-decpt).toNat ++ D
      else if decpt ≥ Int.ofNat nd then sign ++ D ++ zeros (decpt.toNat - nd) ++ ['.', '0']
      else sign ++ D.take decpt.toNat ++ '.' :: D.drop decpt.toNat
    else
      sign ++ d0 :: (if dtl = [] then [] else '.' :: dtl) ++ 'e' :: expText (decpt - 1)

/-- Python `repr(float(s))` for ASCII `s`; `none` = ValueError -/
def pyFloat? (s : List Char) : Option (List Char) :=
  let t := pyStrip s
  let sg := splitSign t
  let low := sg.2.map Char.toLower
  if low = ['i', 'n', 'f'] ∨ low = ['i', 'n', 'f', 'i', 'n', 'i', 't', 'y'] then
    some (if sg.1 then ['-', 'i', 'n', 'f'] else ['i', 'n', 'f'])
  else if low = ['n', 'a', 'n'] then some ['n', 'a', 'n']
  else
    match parseDecimal? sg.2 with
    | none => none
    | some (mant, e) => some (reprOfDecimal sg.1 mant e)

/-- `util.convert_type` on a `str` -/
def convertType (s : List Char) : ModVal :=
  match pyInt? s with
  | some i => .int i
  | none =>
    match pyFloat? s with
    | some r => .flt r
    | none => .str s

/-! ### `str(val)` and `Mod.serialize` -/

/-- `str(self.val)` -/
def ModVal.text : ModVal → List Char
  | .int i => intText i
  | .flt r => r
  | .str s => s

/-- `val > 0` for a float given by its `repr` text -/
def fltPositive (r : List Char) : Bool :=
  match r with
  | '-' :: _ => false
  | _ =>
    if r = ['n', 'a', 'n'] then false
    else if r = ['i', 'n', 'f'] then true
    else (r.takeWhile (· != 'e')).any (fun c => '1' ≤ c ∧ c ≤ '9')

/-- `isinstance(self.val, (int, float)) and self.val > 0` -/
def ModVal.positive : ModVal → Bool
  | .int i => decide (i > 0)
  | .flt r => fltPositive r
  | .str _ => false

def ModVal.shown (plus : Bool) (v : ModVal) : List Char :=
  if plus ∧ v.positive then '+' :: v.text else v.text

/-- `Mod.serialize(brackets, include_plus)` with `brackets = o c` -/
def Mod.serialize (o c : Char) (plus : Bool) (m : Mod) : List Char :=
  if m.mult > 1 then o :: (m.val.shown plus ++ c :: '^' :: intText m.mult)
  else o :: (m.val.shown plus ++ [c])

/-- Which positive numbers are written with an explicit `+`. Python's `include_plus` is the constant function
`constPlus b`; the round-trip theorems hold for an arbitrary choice per modification (mixed spellings in one string). -/
abbrev Plus := Mod → Bool

def constPlus (b : Bool) : Plus := fun _ => b

def serializeMods (o c : Char) (plus : Plus) (l : List Mod) : List Char :=
  l.flatMap (fun m => Mod.serialize o c (plus m) m)

end Pept
