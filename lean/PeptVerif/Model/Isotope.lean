import PeptVerif.Generated.IsotopesC14
/-!
# Model of `peptacular/isotope.py` (property C14). Mathlib-free, exact arithmetic over `Rat`.

Python dicts are association lists in insertion order (`Dist κ`), updated with `addKey` (the
`if k in result: result[k] += v else: result[k] = v` idiom).  The functions follow the code branch for branch:

* `convolve`            = `_convolve_distributions`
* `elemental`           = `_calculate_elemental_distribution`
* `isotopicDistribution`= `isotopic_distribution` (after the two `fix:` commits: it works on a copy of the formula and
                          adds the e/p/n offset once to every reported mass)
* `mergeDistributions`  = `merge_isotopic_distributions`

Model parameters that are not Python arguments: `floor` (the hard-wired `min_abundance_threshold = 10e-9` of
`_calculate_elemental_distribution`; `none` switches the test off) — and `resolution = none` is the Python value `None`
(no rounding).  The theorems of `Props/C14.lean` are about `floor = none`, `resolution = none`.
-/
namespace Isotope

/-- a Python `dict` with numeric values, in insertion order -/
abbrev Dist (κ : Type) := List (κ × Rat)

/-- `if k in d: d[k] += v else: d[k] = v` -/
def addKey {κ : Type} [DecidableEq κ] : Dist κ → κ → Rat → Dist κ
  | [], k, v => [(k, v)]
  | (k', v') :: t, k, v => if k' = k then (k', v' + v) :: t else (k', v') :: addKey t k v

/-- the threshold test `new_abundance >= min_abundance_threshold`; `none` = test switched off (model parameter) -/
def keep (thr : Option Rat) (a : Rat) : Bool :=
  match thr with
  | none => true
  | some t => decide (t ≤ a)

/-- inner loop of `_convolve_distributions` for one entry of `dist1` -/
def convRow {κ : Type} [DecidableEq κ] [Add κ] (rnd : κ → κ) (thr : Option Rat) (m1 : κ) (a1 : Rat) :
    Dist κ → Dist κ → Dist κ
  | [], acc => acc
  | (m2, a2) :: t, acc =>
    convRow rnd thr m1 a1 t (if keep thr (a1 * a2) then addKey acc (rnd (m1 + m2)) (a1 * a2) else acc)

/-- the double loop of `_convolve_distributions` -/
def convLoop {κ : Type} [DecidableEq κ] [Add κ] (rnd : κ → κ) (thr : Option Rat) :
    Dist κ → Dist κ → Dist κ → Dist κ
  | [], _, acc => acc
  | (m1, a1) :: t, d2, acc => convLoop rnd thr t d2 (convRow rnd thr m1 a1 d2 acc)

/-- insert into a list sorted by abundance, descending, *after* equal elements
    (`sorted(items, key=lambda x: x[1], reverse=True)` is stable) -/
def insertDesc {κ : Type} (x : κ × Rat) : Dist κ → Dist κ
  | [] => [x]
  | y :: t => if y.2 < x.2 then x :: y :: t else y :: insertDesc x t

def sortDesc {κ : Type} (d : Dist κ) : Dist κ := d.foldl (fun acc x => insertDesc x acc) []

/-- `_convolve_distributions(dist1, dist2, max_isotopes, min_abundance_threshold, distribution_resolution)`;
    `rnd` is `round(·, distribution_resolution)` or the identity, `maxIso = none` is `sys.maxsize` -/
def convolve {κ : Type} [DecidableEq κ] [Add κ] (rnd : κ → κ) (thr : Option Rat) (maxIso : Option Nat)
    (d1 d2 : Dist κ) : Dist κ :=
  let result := convLoop rnd thr d1 d2 []
  match maxIso with
  | none => result
  | some n => (sortDesc result).take n

/-- `count` rounds of `distribution = _convolve_distributions(distribution, dict(isotopes), None, floor, None)` -/
def elementalFrom {κ : Type} [DecidableEq κ] [Add κ] (floor : Option Rat) (isotopes : Dist κ) : Nat → Dist κ → Dist κ
  | 0, d => d
  | n + 1, d => elementalFrom floor isotopes n (convolve id floor none d isotopes)

/-- `_calculate_elemental_distribution` given the element's isotope list (start `{0: 1.0}`) -/
def elemental {κ : Type} [DecidableEq κ] [Add κ] [OfNat κ 0] (floor : Option Rat) (isotopes : Dist κ) (count : Nat) : Dist κ :=
  elementalFrom floor isotopes count [((0 : κ), 1)]

/-! ## numbers -/

/-- Python `round(x)` on the exact value: round half to even -/
def roundHalfEven (q : Rat) : Int :=
  let f := q.floor
  let r := q - (f : Rat)
  if r < 1 / 2 then f
  else if 1 / 2 < r then f + 1
  else if f % 2 = 0 then f else f + 1

/-- Python `round(x, nd)` on the exact value (DESIGN §2.4) -/
def roundTo (nd : Int) (q : Rat) : Rat :=
  if 0 ≤ nd then (roundHalfEven (q * (10 : Rat) ^ nd.toNat) : Rat) / (10 : Rat) ^ nd.toNat
  else (roundHalfEven (q / (10 : Rat) ^ (-nd).toNat) : Rat) * (10 : Rat) ^ (-nd).toNat

def roundOpt (nd : Option Int) (q : Rat) : Rat :=
  match nd with
  | none => q
  | some d => roundTo d q

/-- a count in a composition: Python `int` or `float` (its exact value) -/
inductive Count where
  | int (n : Int)
  | flt (q : Rat)
deriving Repr, DecidableEq

def Count.val : Count → Rat
  | .int n => (n : Rat)
  | .flt q => q

def Count.isInt : Count → Bool
  | .int _ => true
  | .flt _ => false

/-- `round(v)` -/
def Count.round : Count → Int
  | .int n => n
  | .flt q => roundHalfEven q

/-- element keys are code-point lists -/
abbrev Key := List Nat
abbrev Formula := List (Key × Count)

inductive Err where
  | valueError      -- negative count / `max()` of an empty distribution
  | unknownElement  -- `InvalidChemFormulaError` from `chem_mass`
  | zeroDiv
deriving Repr, DecidableEq

/-! ## element data (generated from data/chem.txt) -/
open PeptVerif.Gen.C14 in
def lookupEntry (k : Key) : Option Entry := table.find? (fun e => e.1 = k)

open PeptVerif.Gen.C14 in
def massOf (n : Nat) : Rat := (n : Rat) / (massScale : Rat)
open PeptVerif.Gen.C14 in
def abOf (n : Nat) : Rat := (n : Rat) / (abScale : Rat)

open PeptVerif.Gen.C14 in
def protonMass : Rat := (protonNum : Rat) / (partScale : Rat)
open PeptVerif.Gen.C14 in
def electronMass : Rat := (electronNum : Rat) / (partScale : Rat)
open PeptVerif.Gen.C14 in
def neutronMass : Rat := (neutronNum : Rat) / (partScale : Rat)

/-- `constants.ATOMIC_SYMBOL_TO_ISOTOPE_MASSES_AND_ABUNDANCES[element]` -/
def massIsotopes (e : PeptVerif.Gen.C14.Entry) : Dist Rat := e.2.2.map (fun i => (massOf i.2.1, abOf i.2.2))

/-- `constants.ATOMIC_SYMBOL_TO_ISOTOPE_NEUTRON_OFFSETS_AND_ABUNDANCES[element]`: mass number minus the mass number of the
    first (most abundant) isotope -/
def offsetIsotopes (e : PeptVerif.Gen.C14.Entry) : Dist Rat :=
  match e.2.2 with
  | [] => []
  | i0 :: t => (i0 :: t).map (fun i => ((((i.1 : Int) - (i0.1 : Int) : Int) : Rat), abOf i.2.2))

/-- `constants.ISOTOPIC_ATOMIC_MASSES[element]` -/
def monoMass (e : PeptVerif.Gen.C14.Entry) : Rat := massOf e.2.1

/-- `chem_mass(formula)` (monoisotopic) for a formula without e/p/n entries -/
def chemMass : Formula → Except Err Rat
  | [] => .ok 0
  | (k, c) :: t =>
    match lookupEntry k with
    | none => .error .unknownElement
    | some e => (chemMass t).map (fun m => monoMass e * c.val + m)

/-! ## `isotopic_distribution` -/

structure Opts where
  maxIsotopes : Option Nat := none
  minAbundanceThreshold : Option Rat := none
  resolution : Option Int := some 5
  useNeutronCount : Bool := false
  convMinAbundanceThreshold : Option Rat := none
  distributionAbundance : Rat := 1
  isAbundanceSum : Bool := false
  outputMassesForNeutronOffset : Bool := false
  neutronMass : Rat := Isotope.neutronMass
  precision : Option Int := none
  /-- model parameter: the hard-wired `10e-9` of `_calculate_elemental_distribution`; `none` = off -/
  floor : Option Rat := some (1 / 100000000)

def eKey : Key := [101]
def pKey : Key := [112]
def nKey : Key := [110]

/-- `chemical_formula.pop(k, 0)` on the copy -/
def popCount (f : Formula) (k : Key) : Rat × Formula :=
  (match f.find? (fun p => p.1 = k) with
    | some p => p.2.val
    | none => 0,
   f.filter (fun p => p.1 ≠ k))

/-- the loop `for element, count in chemical_formula.items()` -/
def convolveAll (o : Opts) : List (Key × Int) → Dist Rat → Except Err (Dist Rat)
  | [], d => .ok d
  | (k, c) :: t, d =>
    match lookupEntry k with
    | none => .error .unknownElement
    | some e =>
      let isos := if o.useNeutronCount then offsetIsotopes e else massIsotopes e
      let el := elemental o.floor isos c.toNat
      convolveAll o t (convolve (roundOpt o.resolution) (some (o.convMinAbundanceThreshold.getD 0)) o.maxIsotopes d el)

def maxAb : Dist Rat → Option Rat
  | [] => none
  | (_, a) :: t => match maxAb t with
    | none => some a
    | some m => some (if m < a then a else m)

def sumAb (d : Dist Rat) : Rat := (d.map (·.2)).sum

def sortByKey (d : Dist Rat) : Dist Rat := d.mergeSort (fun a b => decide (a.1 ≤ b.1))

/-- `_scale_isotope_abundances` -/
def scaleAbundances (d : Dist Rat) (a : Rat) (isSum : Bool) (precision : Option Int) : Except Err (Dist Rat) :=
  let step1 : Except Err (Dist Rat) :=
    if isSum then
      let total := sumAb d
      if total = 0 then (if d.isEmpty then .ok d else .error .zeroDiv) else .ok (d.map (fun p => (p.1, p.2 / total)))
    else .ok d
  step1.map (fun d1 =>
    let d2 := d1.map (fun p => (p.1, p.2 * a))
    match precision with
    | none => d2
    | some pr => d2.map (fun p => (roundTo pr p.1, roundTo pr p.2)))

/-- the un-normalised `total_distribution` after the element loop, together with
    `(particle_mass_offset, delta_mass, formula_mass)` -/
def rawDistribution (f : Formula) (o : Opts) : Except Err (Dist Rat × Rat × Rat × Rat) :=
  let (ec, f1) := popCount f eKey
  let (pc, f2) := popCount f1 pKey
  let (nc, f3) := popCount f2 nKey
  let particle := pc * protonMass + nc * neutronMass + ec * electronMass
  if f3.any (fun p => decide (p.2.val < 0)) then .error .valueError else
  let f4 := f3.filter (fun p => p.2.val ≠ 0)
  let allInt := f4.all (fun p => p.2.isInt)
  let f5 : List (Key × Int) := f4.map (fun p => (p.1, p.2.round))
  let f5c : Formula := f5.map (fun p => (p.1, Count.int p.2))
  match chemMass f4, chemMass f5c with
  | .error e, _ => .error e
  | _, .error e => .error e
  | .ok prior, .ok post =>
    let delta : Rat := if allInt then 0 else prior - post
    match convolveAll o f5 [((0 : Rat), 1)] with
    | .error e => .error e
    | .ok total => .ok (total, particle, delta, post)

/-- everything after the element loop: normalisation to the largest peak, threshold, sorting, shifts, scaling -/
def finishDistribution (o : Opts) (total : Dist Rat) (particle delta formulaMass : Rat) : Except Err (Dist Rat) :=
  match maxAb total with
  | none => .error .valueError
  | some mx =>
    if mx = 0 then .error .zeroDiv else
    let thr := o.minAbundanceThreshold.getD 0
    let normalized := ((sortByKey total).filter (fun p => decide (thr ≤ p.2 / mx))).map (fun p => (p.1, p.2 / mx))
    let shifted :=
      if delta ≠ 0 then
        if !o.useNeutronCount then normalized.map (fun p => (p.1 + delta, p.2))
        else if o.outputMassesForNeutronOffset then normalized.map (fun p => (p.1 + delta, p.2))
        else normalized
      else normalized
    let massed :=
      if o.outputMassesForNeutronOffset && o.useNeutronCount then
        shifted.map (fun p => (formulaMass + p.1 * o.neutronMass, p.2))
      else shifted
    let withParticles :=
      if particle ≠ 0 && (!o.useNeutronCount || o.outputMassesForNeutronOffset) then
        massed.map (fun p => (p.1 + particle, p.2))
      else massed
    scaleAbundances withParticles o.distributionAbundance o.isAbundanceSum o.precision

def isotopicDistribution (f : Formula) (o : Opts) : Except Err (Dist Rat) :=
  match rawDistribution f o with
  | .error e => .error e
  | .ok (total, particle, delta, formulaMass) => finishDistribution o total particle delta formulaMass

/-! ## `merge_isotopic_distributions` -/

def mergeInto (precision : Option Int) : Dist Rat → Dist Rat → Dist Rat
  | [], acc => acc
  | (m, a) :: t, acc => mergeInto precision t (addKey acc (roundOpt precision m) a)

def mergeLoop (precision : Option Int) : List (Dist Rat) → Dist Rat → Dist Rat
  | [], acc => acc
  | d :: t, acc => mergeLoop precision t (mergeInto precision d acc)

def mergeDistributions (ds : List (Dist Rat)) (precision : Option Int) : Dist Rat :=
  sortByKey (mergeLoop precision ds [])

end Isotope
