import PeptVerif.Model.Combinatoric
import PeptVerif.Model.Serialize
import PeptVerif.Model.SequenceFuncs
/-!
The combinatorial expansions at text level (C19), literally as the Python writes them, on top of the parser and
serializer models of C01 (Model/Parser.lean, Model/Serialize.lean). Mathlib-free.

```
start = self.serialize_start(); end = self.serialize_end()
residues = self.copy(); mods = residues.pop_mods(); residues._internal_mods = mods.get('internal')
components = [a.serialize() for a in residues.split()]
return [parse(start + ''.join(i) + end) for i in itertools.<enum>(components, size)]
```
and the module-level functions of sequence/combinatoric.py (string in, list of strings out):
`[a.serialize() for a in sequence_to_annotation(sequence).<enum>(size)]`.

`Props/C19.lean` proves that on canonical annotations (`Pept.canon`, Spec/ProForma.lean) this literal model returns
exactly `ok (single r)` for the results `r` of the annotation-level model (`assemble`), and that every result is canonical.
-/
namespace Pept

/-- the one-residue annotations whose texts are the `components` -/
def pieces (a : Annotation) : List Annotation := split (afterPop a)

/-- `start + ''.join(i) + end` for a selection `i` of components (each the `serialize()` of a piece) -/
def expansionText (plus : Plus) (a : Annotation) (sel : List Annotation) : List Char :=
  serializeStart plus a ++ (sel.map (serialize plus)).flatten ++ serializeEnd plus a

/-- `parse(start + ''.join(i) + end)`; `serialize_start/end/serialize` are called with `include_plus=False` -/
def reparse (a : Annotation) (sel : List Annotation) : Except Err Parsed :=
  parse true (expansionText (constPlus false) a sel)

def permutationsText (a : Annotation) (size : Option Nat) : List (Except Err Parsed) :=
  (permsK (sizeOf a size) (pieces a)).map (reparse a)

def productText (a : Annotation) (rep : Option Nat) : List (Except Err Parsed) :=
  (prodK (sizeOf a rep) (pieces a)).map (reparse a)

def combinationsText (a : Annotation) (size : Option Nat) : List (Except Err Parsed) :=
  (combsK (sizeOf a size) (pieces a)).map (reparse a)

def combinationsWithReplacementText (a : Annotation) (size : Option Nat) : List (Except Err Parsed) :=
  (cwrK (sizeOf a size) (pieces a)).map (reparse a)

/-- the list comprehension raises at the first element that does not parse -/
def collect : List (Except Err Parsed) → Except Err (List Parsed)
  | [] => .ok []
  | .error e :: _ => .error e
  | .ok p :: t =>
    match collect t with
    | .error e => .error e
    | .ok l => .ok (p :: l)

def serializeAll : List Parsed → Except Err (List (List Char))
  | [] => .ok []
  | p :: t =>
    match serializeParsed (constPlus false) p with
    | .error e => .error e
    | .ok s =>
      match serializeAll t with
      | .error e => .error e
      | .ok l => .ok (s :: l)

/-- a module-level function of sequence/combinatoric.py applied to a string -/
def expandStr (f : Annotation → Option Nat → List (Except Err Parsed)) (s : List Char) (size : Option Nat) :
    Except Err (List (List Char)) :=
  match sequenceToAnnotation s with
  | .error e => .error e
  | .ok a =>
    match collect (f a size) with
    | .error e => .error e
    | .ok l => serializeAll l

def permutationsStr := expandStr permutationsText
def productStr := expandStr productText
def combinationsStr := expandStr combinationsText
def combinationsWithReplacementStr := expandStr combinationsWithReplacementText

end Pept
