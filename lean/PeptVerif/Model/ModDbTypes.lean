/-!
Shared data types for the vocabulary tables (C10 / C15). Mathlib-free.

Strings that the kernel has to evaluate are lists of Unicode code points (`Str = List Nat`):
`String` / `Char` operations under `decide +kernel` are orders of magnitude slower (measured).
Numbers copied from the source are exact decimals (`Dec`): mantissa / 10^scale.
-/
namespace ModDb

abbrev Str := List Nat

open Lean in
/-- `str% "abc"` = `[97, 98, 99]` — expanded at elaboration time, so nothing of `String` is left in the term. -/
macro "str%" s:str : term => do
  let cs : Array (TSyntax `term) :=
    (s.getString.toList.map (fun c => (Syntax.mkNumLit (toString c.toNat) : TSyntax `term))).toArray
  `(([$cs,*] : List Nat))

/-- exact decimal: `mant / 10^scale` -/
structure Dec where
  mant : Int
  scale : Nat
deriving DecidableEq, Repr

def Dec.toRat (d : Dec) : Rat := (d.mant : Rat) / ((10 ^ d.scale : Nat) : Rat)

/-- one loaded `ModEntry` (id, name, synonyms, mono_mass, avg_mass, composition) -/
structure Entry where
  id : Str
  name : Str
  syns : List Str
  mono : Option Dec
  avg : Option Dec
  comp : Option Str
deriving DecidableEq, Repr

/-- element table row: symbol, monoisotopic mass, average mass (isotope keys: average = `none`), Hill index -/
structure Elem where
  sym : Str
  iso : Dec
  avg : Option Dec
  hill : Option Nat
deriving DecidableEq, Repr

def ofString (s : String) : Str := s.toList.map Char.toNat
def toString (s : Str) : String := String.ofList (s.map Char.ofNat)

end ModDb

example : (str% "aB:") = [97, 66, 58] := rfl
