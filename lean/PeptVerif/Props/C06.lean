import PeptVerif.Lemmas.Spans
/-!
# C06 — digestion returns exactly the spans the rules define

Property theorems only. `IsEnz`, `IsSemi`, `IsSpan` are the set specification of
`Spec/Spans.lean`; the left-hand sides are the models of `spans.py`.
-/
namespace Spans

/-- C06, enzymatic builder: exactly the spans between cleavage points of `S ∪ {0,n}` with at most
`mc` cleavage points strictly inside, within the inclusive length bounds; the value is that count.
For every `n`, every site list (unsorted, with duplicates), every `mc`, `lo`, `hi`. -/
theorem mem_buildEnzymatic (n : Int) (sites : List Int) (mc : Nat) (lo hi : Option Int) (x : Span) :
    x ∈ buildEnzymatic n sites mc lo hi ↔
      IsEnz n sites mc x ∧ lo.getD 1 ≤ x.2.1 - x.1 ∧ x.2.1 - x.1 ≤ hi.getD n := by
  obtain ⟨s, e, v⟩ := x
  unfold buildEnzymatic IsEnz plus
  rw [mem_enzGo _ _ _ _ (ssorted_sortDedup _)]
  simp only
  constructor
  · rintro ⟨a, b, c, d, e, f, g⟩; exact ⟨⟨a, b, c, d, e⟩, f, g⟩
  · rintro ⟨⟨a, b, c, d, e⟩, f, g⟩; exact ⟨a, b, c, d, e, f, g⟩

/-- non-vacuity: a concrete enzymatic span with one missed cleavage -/
example : IsEnz 14 [5, 10] 2 (0, 10, 1) := by decide

end Spans
